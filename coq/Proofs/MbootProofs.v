(* Proofs/MbootProofs.v -- C10 lemmas about Model/MbootModel.v (host = faithful model of McuBoot over the serial / HID
   protocols, tables from Gen/GenMboot.v; device = reference bootloader). *)
From Coq Require Import ZArith NArith List Bool Lia ZifyBool.
Require Import Value Bytes BytesProofs GenMboot MbootModel.
Import ListNotations.
Local Open Scope N_scope.

(* ------------------------------------------------------------------ N-indexed list helpers *)
Lemma firstnN_firstn {A} (l : list A) : forall n, firstnN n l = firstn (N.to_nat n) l.
Proof.
  induction l as [|x t IH]; intros n; simpl.
  - now rewrite firstn_nil.
  - destruct (n =? 0) eqn:E.
    + apply N.eqb_eq in E; subst; reflexivity.
    + apply N.eqb_neq in E. replace (N.to_nat n) with (S (N.to_nat (N.pred n))) by lia. simpl. now rewrite IH.
Qed.
Lemma skipnN_skipn {A} (l : list A) : forall n, skipnN n l = skipn (N.to_nat n) l.
Proof.
  induction l as [|x t IH]; intros n; simpl.
  - now rewrite skipn_nil.
  - destruct (n =? 0) eqn:E.
    + apply N.eqb_eq in E; subst; reflexivity.
    + apply N.eqb_neq in E. replace (N.to_nat n) with (S (N.to_nat (N.pred n))) by lia. simpl. now rewrite IH.
Qed.
Lemma nlen_to_nat {A} (l : list A) : N.to_nat (nlen l) = length l.
Proof. unfold nlen. lia. Qed.
Lemma firstnN_app_exact {A} (a b : list A) : firstnN (nlen a) (a ++ b) = a.
Proof. rewrite firstnN_firstn, nlen_to_nat. rewrite firstn_app, Nat.sub_diag, firstn_all. simpl. now rewrite app_nil_r. Qed.
Lemma skipnN_app_exact {A} (a b : list A) : skipnN (nlen a) (a ++ b) = b.
Proof. rewrite skipnN_skipn, nlen_to_nat. rewrite skipn_app, Nat.sub_diag, skipn_all. reflexivity. Qed.
Lemma nlen_app {A} (a b : list A) : nlen (a ++ b) = nlen a + nlen b.
Proof. unfold nlen. rewrite app_length. lia. Qed.
Lemma nlen_cons {A} (x : A) l : nlen (x :: l) = 1 + nlen l.
Proof. unfold nlen. simpl length. lia. Qed.
Lemma nlen_nil {A} : nlen (@nil A) = 0.
Proof. reflexivity. Qed.
Lemma nlen_0 {A} (l : list A) : nlen l = 0 -> l = [].
Proof. destruct l; [reflexivity|]. rewrite nlen_cons. lia. Qed.

(* ------------------------------------------------------------------ CRC and 16-bit fields *)
Lemma land16_bound a : N.land a 65535 < 65536.
Proof. change 65535 with (N.ones 16). rewrite N.land_ones. apply N.mod_lt. discriminate. Qed.
Lemma crc_bit_bound c : crc_bit c < 65536.
Proof. unfold crc_bit. destruct (N.testbit c 15); apply land16_bound. Qed.
Lemma crc_byte_bound c b : crc_byte c b < 65536.
Proof. unfold crc_byte. apply crc_bit_bound. Qed.
Lemma crc_fold_bound l : forall c, c < 65536 -> fold_left crc_byte l c < 65536.
Proof. induction l as [|x t IH]; intros c Hc; simpl; [assumption|]. apply IH, crc_byte_bound. Qed.
Lemma crc16_bound l : crc16 l < 65536.
Proof.
  unfold crc16. change CRC16_XOROUT with 0. rewrite N.lxor_0_r. apply crc_fold_bound. reflexivity.
Qed.
Lemma frame_crc_bound t p : frame_crc t p < 65536.
Proof. apply crc16_bound. Qed.
Lemma le_dec_le16 n : n < 65536 -> le_dec (le16 n) = n.
Proof. intros H. unfold le16. apply le_dec_enc_small. exact H. Qed.
Lemma le16_length n : length (le16 n) = 2%nat.
Proof. apply le_enc_length. Qed.
Lemma le16_nlen n : nlen (le16 n) = 2.
Proof. unfold nlen. now rewrite le16_length. Qed.
Lemma le16_cons n : le16 n = [n mod 256; (n / 256) mod 256].
Proof. reflexivity. Qed.

(* ------------------------------------------------------------------ executing the serial host on a known input *)
Lemma firstnN_0 {A} (l : list A) : firstnN 0 l = [].
Proof. destruct l; reflexivity. Qed.
Lemma skipnN_0 {A} (l : list A) : skipnN 0 l = l.
Proof. destruct l; reflexivity. Qed.

Section SerialExec.
  Variable D : Type.
  Variable recv : D -> list N -> D * list N.

  Lemma sread_exact n bs rest d out cons : bs <> [] -> nlen bs = n ->
    sread D n (mkSenv D d (bs ++ rest) out cons) = (ROk bs, mkSenv D d rest out (bs :: cons)).
  Proof.
    intros Hne <-. unfold sread. cbn [se_in se_dev se_out se_cons].
    rewrite firstnN_app_exact, skipnN_app_exact. destruct bs; [contradiction|reflexivity].
  Qed.

  Lemma sread_one h rest d out cons :
    sread D 1 (mkSenv D d (h :: rest) out cons) = (ROk [h], mkSenv D d rest out ([h] :: cons)).
  Proof. apply (sread_exact 1 [h] rest); [discriminate|reflexivity]. Qed.

  Lemma wait_nonzero h rest d out cons : h <> 0 ->
    s_wait_for_data D (mkSenv D d (h :: rest) out cons) = (ROk h, mkSenv D d rest out ([h] :: cons)).
  Proof.
    intros Hh. unfold s_wait_for_data. cbn [se_in length s_wait_loop]. unfold mbind. rewrite sread_one.
    cbn [le_dec]. replace (h + 256 * 0) with h by lia.
    unfold memb, FRAME_START_NOT_READY_LIST. cbn [existsb].
    destruct (h =? 0) eqn:E; [apply N.eqb_eq in E; contradiction|]. reflexivity.
  Qed.

  (* header of a CMD / DATA frame *)
  Lemma header_frame t rest d out cons : t <> FP_ABORT ->
    s_read_frame_header D None (mkSenv D d (FRAME_START_BYTE :: t :: rest) out cons) =
    (ROk (FRAME_START_BYTE, t), mkSenv D d rest out ([t] :: [FRAME_START_BYTE] :: cons)).
  Proof.
    intros Ht. unfold s_read_frame_header, mbind. rewrite wait_nonzero by discriminate.
    change (FRAME_START_BYTE =? FRAME_START_BYTE) with true. cbn [orb negb].
    change (FRAME_START_BYTE =? FP_ACK) with false. cbv beta iota. rewrite sread_one. unfold mret.
    cbn [le_dec]. replace (t + 256 * 0) with t by lia.
    destruct (t =? FP_ABORT) eqn:E; [apply N.eqb_eq in E; contradiction|]. reflexivity.
  Qed.

  (* the ACK the device sends after a host frame *)
  Lemma header_ack rest d out cons :
    s_read_frame_header D (Some FP_ACK) (mkSenv D d (FRAME_START_BYTE :: FP_ACK :: rest) out cons) =
    (ROk (FRAME_START_BYTE, FP_ACK), mkSenv D d rest out ([FP_ACK] :: [FRAME_START_BYTE] :: cons)).
  Proof.
    unfold s_read_frame_header, mbind. rewrite wait_nonzero by discriminate.
    change (FRAME_START_BYTE =? FRAME_START_BYTE) with true. cbn [orb negb].
    change (FRAME_START_BYTE =? FP_ACK) with false. cbv beta iota. rewrite sread_one. unfold mret. reflexivity.
  Qed.

  Definition after_ack (d : D) (rest : list N) (out cons : list (list N)) : senv D :=
    mkSenv D (fst (recv d ACK_BYTES)) (rest ++ snd (recv d ACK_BYTES)) (ACK_BYTES :: out) cons.

  Lemma send_ack_env d i out cons :
    s_send_ack D recv (mkSenv D d i out cons) = (ROk tt, after_ack d i out cons).
  Proof.
    unfold s_send_ack, swrite, after_ack. cbn [se_dev se_in se_out se_cons].
    change [FRAME_START_BYTE; FP_ACK] with ACK_BYTES. destruct (recv d ACK_BYTES); reflexivity.
  Qed.

  (* frame_roundtrip, host side: reading a frame the device encoded gives back type and payload, acknowledges it once *)
  Lemma s_read_frame t p rest d out cons :
    t <> FP_ABORT -> p <> [] -> nlen p < 65536 ->
    s_read D recv (mkSenv D d (mk_frame t p ++ rest) out cons) =
    let env' := after_ack d rest out (p :: le16 (frame_crc t p) :: le16 (nlen p) :: [t] :: [FRAME_START_BYTE] :: cons) in
    if t =? FP_CMD then parse_rx p env' else (ROk (RxData p), env').
  Proof.
    intros Ht Hp Hl. unfold s_read, mk_frame. unfold mbind at 1.
    cbn [app]. rewrite header_frame by exact Ht.
    unfold mbind at 1. rewrite <- app_assoc. rewrite (sread_exact 2 (le16 (nlen p))); [|discriminate|apply le16_nlen].
    unfold mbind at 1. rewrite <- app_assoc. rewrite (sread_exact 2 (le16 (frame_crc t p))); [|discriminate|apply le16_nlen].
    rewrite le_dec_le16 by exact Hl.
    destruct (nlen p =? 0) eqn:E; [apply N.eqb_eq, nlen_0 in E; contradiction|].
    unfold mbind at 1. rewrite (sread_exact (nlen p) p rest) by (auto).
    unfold mbind at 1. rewrite send_ack_env.
    rewrite le_dec_le16 by apply frame_crc_bound. cbn [snd]. rewrite N.eqb_refl. cbn [negb].
    cbv zeta. destruct (t =? FP_CMD); reflexivity.
  Qed.
End SerialExec.

(* ------------------------------------------------------------------ success_sound, McuBoot level (any transport) *)
(* what successive reads of the protocol interface delivered *)
Inductive rditem : Type := IData (d : list N) | IResp (r : resp) | IAborted.
Inductive ireads {E} (I : iface E) : E -> E -> list rditem -> Prop :=
| ir_nil e : ireads I e e []
| ir_data e e1 e2 d its : i_read I e = (ROk (RxData d), e1) -> ireads I e1 e2 its -> ireads I e e2 (IData d :: its)
| ir_resp e e1 e2 r its : i_read I e = (ROk (RxResp r), e1) -> ireads I e1 e2 its -> ireads I e e2 (IResp r :: its)
| ir_abort e e1 e2 its : i_read I e = (RExn XAbort, e1) -> ireads I e1 e2 its -> ireads I e e2 (IAborted :: its).

Fixpoint datas (its : list rditem) : list N :=
  match its with [] => [] | IData d :: t => d ++ datas t | _ :: t => datas t end.
Definition last_resp (its : list rditem) : option resp :=
  match rev its with IResp r :: _ => Some r | _ => None end.

Lemma ireads_app {E} (I : iface E) e1 e2 e3 a b : ireads I e1 e2 a -> ireads I e2 e3 b -> ireads I e1 e3 (a ++ b).
Proof. induction 1; intros Hb; simpl; [assumption| | |]; econstructor; eauto. Qed.
Lemma datas_app a b : datas (a ++ b) = datas a ++ datas b.
Proof. induction a as [|[d|r|] t IH]; simpl; [reflexivity| | |]; rewrite ?IH, ?app_assoc; reflexivity. Qed.

Definition item_of (v : rx) : rditem := match v with RxData d => IData d | RxResp r => IResp r end.
Lemma last_resp_cons x its : its <> [] -> last_resp (x :: its) = last_resp its.
Proof.
  intros H. unfold last_resp. simpl rev. destruct (rev its) eqn:R.
  - apply (f_equal (@rev _)) in R. rewrite rev_involutive in R. simpl in R. contradiction.
  - reflexivity.
Qed.

Section McuBootSound.
  Variable E : Type.
  Variable I : iface E.
  Variable ce : bool.

  (* how a run of the receive loop of _read_data can end *)
  Definition rd_end (tag : N) (e_end : E) (its : list rditem) (rs : resp) (s' : mbs E) : Prop :=
    (e_end = mb_env E s' /\ last_resp its = Some rs /\ r_cls rs = 1 /\ r_second rs = tag /\ mb_status E s' = r_status rs)
    \/ (i_read I e_end = (RExn XTimeout, mb_env E s') /\ rs = no_response tag /\ mb_status E s' = SC_NO_RESPONSE).

  Lemma rd_end_cons tag e_end x its rs s' : rd_end tag e_end its rs s' -> rd_end tag e_end (x :: its) rs s'.
  Proof.
    intros [(H1 & H2 & H3)|H]; [left|right; exact H]. split; [exact H1|]. split; [|exact H3].
    rewrite last_resp_cons; [exact H2|]. intros ->. discriminate.
  Qed.

  Definition rd_spec (tag : N) (acc : list (list N)) (e0 : E) (mps0 : option N) (pre : list rditem) (data : list N) (rs : resp) (s' : mbs E) : Prop :=
    mb_mps E s' = mps0 /\
    exists its e_end, ireads I e0 e_end its /\ data = concat (rev acc) ++ datas (pre ++ its) /\ rd_end tag e_end (pre ++ its) rs s'.

  Lemma handle_sound tag f acc
    (IH : forall acc s data rs s', read_data_loop E I tag f acc s = (ROk (data, rs), s') -> rd_spec tag acc (mb_env E s) (mb_mps E s) [] data rs s') :
    forall v st data rs s',
    (match v with
     | RxData d => read_data_loop E I tag f (d :: acc)
     | RxResp rs0 =>
         if r_cls rs0 =? 1
         then put_status E (r_status rs0);;; (if r_second rs0 =? tag then mret (concat (rev acc), rs0) else read_data_loop E I tag f acc)
         else read_data_loop E I tag f acc
     end) st = (ROk (data, rs), s') ->
    rd_spec tag acc (mb_env E st) (mb_mps E st) [item_of v] data rs s'.
  Proof.
    intros v st data rs s' H. destruct v as [d|rs0].
    - apply IH in H. destruct H as (Hm & its & e_end & Hr & Hd & He). split; [exact Hm|].
      exists its, e_end. split; [exact Hr|]. split.
      + rewrite Hd. simpl rev. rewrite concat_app. simpl. rewrite app_nil_r, <- app_assoc. reflexivity.
      + apply rd_end_cons. exact He.
    - destruct (r_cls rs0 =? 1) eqn:Ec.
      + unfold mbind, put_status in H. destruct (r_second rs0 =? tag) eqn:Et.
        * unfold mret in H. injection H as <- <- <-. split; [reflexivity|].
          exists [], (mb_env E st). split; [constructor|]. split; [simpl; now rewrite app_nil_r|].
          left. cbn. apply N.eqb_eq in Ec, Et. auto.
        * apply IH in H. destruct H as (Hm & its & e_end & Hr & Hd & He). split; [exact Hm|].
          exists its, e_end. split; [exact Hr|]. split; [exact Hd|]. apply rd_end_cons. exact He.
      + apply IH in H. destruct H as (Hm & its & e_end & Hr & Hd & He). split; [exact Hm|].
        exists its, e_end. split; [exact Hr|]. split; [exact Hd|]. apply rd_end_cons. exact He.
  Qed.

  Lemma read_data_loop_sound tag : forall fuel acc s data rs s',
    read_data_loop E I tag fuel acc s = (ROk (data, rs), s') ->
    rd_spec tag acc (mb_env E s) (mb_mps E s) [] data rs s'.
  Proof.
    induction fuel as [|f IH]; intros acc s data rs s' H; [discriminate|].
    cbn [read_data_loop] in H. unfold lift in H.
    destruct (i_read I (mb_env E s)) as [r e1] eqn:R1.
    destruct r as [v|x].
    - apply (handle_sound tag f acc IH) in H. destruct H as (Hm & its & e_end & Hr & Hd & He).
      split; [exact Hm|]. exists (item_of v :: its), e_end. split; [|split; [exact Hd|exact He]].
      destruct v; [eapply ir_data|eapply ir_resp]; eauto.
    - destruct x; try discriminate.
      + (* time-out *)
        injection H as <- <- <-. split; [reflexivity|]. exists [], (mb_env E s).
        split; [constructor|]. split; [simpl; now rewrite app_nil_r|]. right. cbn. auto.
      + (* abort: one more read *)
        unfold mbind in H. cbn [set_env mb_env] in H.
        destruct (i_read I e1) as [r2 e2] eqn:R2. destruct r2 as [v|x2]; [|discriminate].
        apply (handle_sound tag f acc IH) in H. destruct H as (Hm & its & e_end & Hr & Hd & He).
        split; [exact Hm|]. exists (IAborted :: item_of v :: its), e_end. split; [|split].
        * eapply ir_abort; [exact R1|]. cbn [set_env mb_env] in Hr.
          destruct v; [eapply ir_data|eapply ir_resp]; eauto.
        * exact Hd.
        * apply rd_end_cons. exact He.
  Qed.

  (* _read_data: the value is the first `len` bytes of what the reads delivered, in order; the call only leaves status
     SUCCESS when the final response said SUCCESS and at least `len` bytes arrived; with cmd_exception it only returns then *)
  Lemma read_data_sound fuel tag len s v s' :
    read_data E I ce fuel tag len s = (ROk v, s') ->
    mb_mps E s' = mb_mps E s /\
    exists its e_end rs s1, ireads I (mb_env E s) e_end its /\ v = firstnN len (datas its) /\ rd_end tag e_end its rs s1 /\
      mb_env E s' = mb_env E s1 /\
      (mb_status E s' = SC_SUCCESS -> mb_status E s1 = SC_SUCCESS /\ len <= nlen (datas its)) /\
      (ce = true -> mb_status E s' = SC_SUCCESS).
  Proof.
    unfold read_data, mbind. destruct (read_data_loop E I tag fuel [] s) as [[[data rs]|x] s1] eqn:L; [|discriminate].
    apply read_data_loop_sound in L. destruct L as (Hm & its & e_end & Hr & Hd & He).
    unfold get_status. cbn [fst snd]. simpl in Hd. subst data.
    destruct ((nlen (datas its) <? len) || negb (mb_status E s1 =? SC_SUCCESS)) eqn:C.
    - unfold put_status. destruct ce.
      + discriminate.
      + unfold mret. intros H. injection H as <- <-. split; [exact Hm|].
        exists its, e_end, rs, s1. split; [exact Hr|]. split; [reflexivity|]. split; [exact He|]. split; [reflexivity|].
        split; [|discriminate]. cbn [set_status mb_status]. intros Hs. exfalso.
        destruct (mb_status E s1 =? SC_SUCCESS) eqn:E1; [discriminate|]. apply N.eqb_neq in E1. contradiction.
    - unfold mret. intros H. injection H as <- <-. split; [exact Hm|].
      apply orb_false_iff in C. destruct C as [C1 C2]. apply negb_false_iff, N.eqb_eq in C2. apply N.ltb_ge in C1.
      exists its, e_end, rs, s1. split; [exact Hr|]. split; [reflexivity|]. split; [exact He|]. split; [reflexivity|]. auto.
  Qed.

  (* _process_cmd: the response object returned is the one the interface delivered (or NoResponse after a time-out),
     and status_code is its status field *)
  Lemma process_cmd_sound p s rs s' :
    process_cmd E I ce p s = (ROk rs, s') ->
    mb_mps E s' = mb_mps E s /\ mb_status E s' = r_status rs /\ (ce = true -> r_status rs = SC_SUCCESS) /\
    ((exists b e0, pkt_bytes p = ROk b /\ i_write_command I b (mb_env E s) = (ROk tt, e0) /\
                   i_read I e0 = (ROk (RxResp rs), mb_env E s'))
     \/ rs = no_response (pkt_tag p)).
  Proof.
    unfold process_cmd, lift, mbind, mlift.
    destruct (pkt_bytes p) as [b|x] eqn:B.
    - destruct (i_write_command I b (mb_env E s)) as [[[]|x] e0] eqn:W.
      + destruct (i_read I e0) as [[[d|r]|x] e1] eqn:R.
        * discriminate.
        * unfold finish_cmd. cbn [set_env set_status mb_status mb_mps mb_env].
          destruct (ce && negb (r_status r =? SC_SUCCESS)) eqn:C; [discriminate|].
          intros H. injection H as <- <-. cbn. repeat split.
          -- intros ->. cbn in C. apply negb_false_iff, N.eqb_eq in C. exact C.
          -- left. exists b, e0. auto.
        * destruct x; try discriminate. unfold finish_cmd. cbn [set_env set_status mb_status mb_mps mb_env no_response r_status].
          destruct (ce && negb (SC_NO_RESPONSE =? SC_SUCCESS)) eqn:C; [discriminate|].
          intros H. injection H as <- <-. cbn. repeat split; auto.
          intros ->. discriminate.
      + destruct x; try discriminate. unfold finish_cmd. cbn [set_env set_status mb_status mb_mps mb_env no_response r_status].
        destruct (ce && negb (SC_NO_RESPONSE =? SC_SUCCESS)) eqn:C; [discriminate|].
        intros H. injection H as <- <-. cbn. repeat split; auto.
        intros ->. discriminate.
    - destruct x; try discriminate. unfold finish_cmd. cbn [set_env set_status mb_status mb_mps mb_env no_response r_status].
      destruct (ce && negb (SC_NO_RESPONSE =? SC_SUCCESS)) eqn:C; [discriminate|].
      intros H. injection H as <- <-. cbn. repeat split; auto.
      intros ->. discriminate.
  Qed.

  Lemma nlen_firstnN {A} (l : list A) n : n <= nlen l -> nlen (firstnN n l) = n.
  Proof. intros H. rewrite firstnN_firstn. unfold nlen in *. rewrite firstn_length. lia. Qed.

  Lemma rd_end_success tag e_end its rs s' : rd_end tag e_end its rs s' -> mb_status E s' = SC_SUCCESS ->
    e_end = mb_env E s' /\ last_resp its = Some rs /\ r_cls rs = 1 /\ r_second rs = tag /\ r_status rs = SC_SUCCESS.
  Proof.
    intros [(H1 & H2 & H3 & H4 & H5)|(H1 & H2 & H3)] Hs.
    - rewrite H5 in Hs. auto.
    - rewrite H3 in Hs. discriminate.
  Qed.

  (* SUCCESS_SOUND for every "command, typed response, incoming data phase" call (read_memory, flash_read_resource,
     kp_read_key_store, fuse_read): a returned byte string is backed by the reads of the protocol interface; when
     status_code is SUCCESS (always, with cmd_exception) it has exactly the announced length *)
  Lemma cmd_data_in_sound fuel p cls s v s' :
    cmd_data_in E I ce fuel p cls s = (ROk (AVBytes v), s') ->
    exists b e0 rs e1 its e_end rsf s1,
      pkt_bytes p = ROk b /\ i_write_command I b (mb_env E s) = (ROk tt, e0) /\ i_read I e0 = (ROk (RxResp rs), e1) /\
      r_status rs = SC_SUCCESS /\ r_cls rs = cls /\
      ireads I e1 e_end its /\ v = firstnN (r_second rs) (datas its) /\ rd_end (pkt_tag p) e_end its rsf s1 /\
      mb_env E s' = mb_env E s1 /\
      (mb_status E s' = SC_SUCCESS ->
         e_end = mb_env E s' /\ last_resp its = Some rsf /\ r_cls rsf = 1 /\ r_second rsf = pkt_tag p /\ r_status rsf = SC_SUCCESS /\
         nlen v = r_second rs) /\
      (ce = true -> mb_status E s' = SC_SUCCESS).
  Proof.
    unfold cmd_data_in, mbind. destruct (process_cmd E I ce p s) as [[rs|x] s0] eqn:P; [|discriminate].
    apply process_cmd_sound in P. destruct P as (Hm & Hst & Hce & Hw).
    unfold is_success. destruct (r_status rs =? SC_SUCCESS) eqn:Es; [|discriminate]. apply N.eqb_eq in Es.
    destruct (r_cls rs =? cls) eqn:Ec; [|discriminate]. apply N.eqb_eq in Ec.
    destruct (read_data E I ce fuel (pkt_tag p) (r_second rs) s0) as [[d|x] s2] eqn:R; [|discriminate].
    unfold mret. intros H. injection H as <- <-.
    apply read_data_sound in R. destruct R as (Hm2 & its & e_end & rsf & s1 & Hr & Hv & He & Hen & Hc & Hct).
    destruct Hw as [(b & e0 & Hb & Hw & Hrd)|Hno]; [|subst rs; discriminate].
    exists b, e0, rs, (mb_env E s0), its, e_end, rsf, s1. repeat (split; [assumption|]). split; [|exact Hct].
    intros Hs. destruct (Hc Hs) as [H1 H2]. destruct (rd_end_success _ _ _ _ _ He H1) as (G1 & G2 & G3 & G4 & G5).
    rewrite Hen. repeat (split; [assumption|]). subst d. apply nlen_firstnN. exact H2.
  Qed.

  (* get_property: the values returned are those of the response the interface delivered *)
  Lemma get_property_sound tag index s vals s' :
    get_property E I ce tag index s = (ROk (Some vals), s') ->
    exists b e0 rs, pkt_bytes (pkt_get_property tag index) = ROk b /\ i_write_command I b (mb_env E s) = (ROk tt, e0) /\
      i_read I e0 = (ROk (RxResp rs), mb_env E s') /\ r_status rs = SC_SUCCESS /\ r_cls rs = 2 /\ vals = r_values rs /\
      mb_status E s' = SC_SUCCESS.
  Proof.
    unfold get_property, mbind. destruct (process_cmd E I ce (pkt_get_property tag index) s) as [[rs|x] s1] eqn:P; [|discriminate].
    apply process_cmd_sound in P. destruct P as (Hm & Hst & Hce & Hw).
    destruct (r_status rs =? SC_SUCCESS) eqn:Es; [|discriminate]. apply N.eqb_eq in Es.
    destruct (r_cls rs =? 2) eqn:Ec; [|discriminate]. apply N.eqb_eq in Ec.
    unfold mret. intros H. injection H as <- <-.
    destruct Hw as [(b & e0 & Hb & Hw & Hrd)|Hno]; [|subst rs; discriminate].
    exists b, e0, rs. rewrite Hst. auto 10.
  Qed.

  (* every bool-returning command: True only when the delivered response carries SUCCESS *)
  Lemma simple_sound p s s' :
    simple E I ce p s = (ROk (AVBool true), s') ->
    exists b e0 rs, pkt_bytes p = ROk b /\ i_write_command I b (mb_env E s) = (ROk tt, e0) /\
      i_read I e0 = (ROk (RxResp rs), mb_env E s') /\ r_status rs = SC_SUCCESS /\ mb_status E s' = SC_SUCCESS.
  Proof.
    unfold simple, mbind. destruct (process_cmd E I ce p s) as [[rs|x] s1] eqn:P; [|discriminate].
    apply process_cmd_sound in P. destruct P as (Hm & Hst & Hce & Hw).
    unfold mret, is_success. intros H. injection H as Hs <-. apply N.eqb_eq in Hs.
    destruct Hw as [(b & e0 & Hb & Hw & Hrd)|Hno]; [|subst rs; discriminate].
    exists b, e0, rs. rewrite Hst. auto 10.
  Qed.
End McuBootSound.

(* ------------------------------------------------------------------ success_sound, serial frame level: what a successful read consumed *)
Section SerialSound.
  Variable D : Type.
  Variable recv : D -> list N -> D * list N.

  (* bytes taken from the device between two environments, in order *)
  Definition eaten (e e' : senv D) (bs : list N) : Prop :=
    exists new, se_cons D e' = new ++ se_cons D e /\ concat (rev new) = bs.
  Lemma eaten_refl e : eaten e e [].
  Proof. exists []. auto. Qed.
  Lemma eaten_trans e1 e2 e3 a b : eaten e1 e2 a -> eaten e2 e3 b -> eaten e1 e3 (a ++ b).
  Proof.
    intros (n1 & H1 & C1) (n2 & H2 & C2). exists (n2 ++ n1). split.
    - rewrite H2, H1. now rewrite app_assoc.
    - rewrite rev_app_distr, concat_app. now rewrite C1, C2.
  Qed.

  Lemma sread_inv n e bs e' : sread D n e = (ROk bs, e') ->
    bs <> [] /\ bs = firstnN n (se_in D e) /\ eaten e e' bs.
  Proof.
    unfold sread. destruct (firstnN n (se_in D e)) as [|b t] eqn:F; [discriminate|].
    intros H. injection H as <- <-. split; [discriminate|]. split; [reflexivity|].
    exists [b :: t]. split; [reflexivity|]. simpl. now rewrite app_nil_r.
  Qed.
  Lemma sread_exn n e x e' : sread D n e = (RExn x, e') -> x = XTimeout /\ e' = e.
  Proof. unfold sread. destruct (firstnN n (se_in D e)); intros H; [injection H as <- <-; auto|discriminate]. Qed.
  Lemma swrite_inv w e r e' : swrite D recv w e = (r, e') -> r = ROk tt /\ eaten e e' [].
  Proof.
    unfold swrite. destruct (recv (se_dev D e) w). intros H. injection H as <- <-. split; [reflexivity|].
    exists []. auto.
  Qed.
  Lemma firstnN_one {A} (l : list A) : firstnN 1 l = [] \/ exists b, firstnN 1 l = [b].
  Proof. destruct l; [left; reflexivity|right]. simpl. rewrite firstnN_0. eauto. Qed.

  Definition zeros_only (zs : list N) : Prop := Forall (fun z => z = 0) zs.

  Lemma wait_loop_inv : forall fuel e h e', s_wait_loop D fuel e = (ROk h, e') ->
    exists zs, zeros_only zs /\ h <> 0 /\ eaten e e' (zs ++ [h]).
  Proof.
    induction fuel as [|f IH]; intros e h e' H; [discriminate|].
    cbn [s_wait_loop] in H. unfold mbind in H.
    destruct (sread D 1 e) as [[bs|x] e1] eqn:R; [|discriminate].
    apply sread_inv in R. destruct R as (Hne & Hbs & Hea).
    destruct (firstnN_one (se_in D e)) as [F|[b F]]; rewrite F in Hbs; subst bs; [contradiction|].
    cbn [le_dec] in H. replace (b + 256 * 0) with b in H by lia.
    unfold memb, FRAME_START_NOT_READY_LIST in H. cbn [existsb] in H.
    destruct (b =? 0) eqn:E; cbn [orb] in H.
    - apply N.eqb_eq in E. subst b. apply IH in H. destruct H as (zs & Hz & Hh & He).
      exists (0 :: zs). split; [constructor; auto|]. split; [exact Hh|].
      change ((0 :: zs) ++ [h]) with ([0] ++ (zs ++ [h])). eapply eaten_trans; eauto.
    - unfold mret in H. injection H as <- <-. apply N.eqb_neq in E.
      exists []. split; [constructor|]. split; [exact E|exact Hea].
  Qed.

  Definition hdr_ok (hdr : list N) (ft : N) : Prop :=
    hdr = [FRAME_START_BYTE; ft] \/ (hdr = [FP_ACK] /\ ft = FP_ACK).

  Lemma header_inv e h ft e' : s_read_frame_header D None e = (ROk (h, ft), e') ->
    exists zs hdr, zeros_only zs /\ hdr_ok hdr ft /\ ft <> FP_ABORT /\ eaten e e' (zs ++ hdr).
  Proof.
    unfold s_read_frame_header, mbind, s_wait_for_data.
    destruct (s_wait_loop D (S (length (se_in D e))) e) as [[h0|x] e1] eqn:W; [|discriminate].
    apply wait_loop_inv in W. destruct W as (zs & Hz & Hh & He).
    destruct (negb ((h0 =? FRAME_START_BYTE) || (h0 =? FP_ACK))) eqn:C; [discriminate|].
    apply negb_false_iff, orb_true_iff in C.
    destruct (h0 =? FP_ACK) eqn:EA.
    - apply N.eqb_eq in EA. subst h0. unfold mret. cbn [N.eqb]. change (FP_ACK =? FP_ABORT) with false. cbv iota.
      intros H. injection H as <- <- <-. exists zs, [FP_ACK]. split; [exact Hz|]. split; [right; auto|]. split; [discriminate|exact He].
    - destruct C as [C|C]; [|discriminate]. apply N.eqb_eq in C. subst h0.
      destruct (sread D 1 e1) as [[bs|x] e2] eqn:R; [|discriminate].
      apply sread_inv in R. destruct R as (Hne & Hbs & Hea).
      destruct (firstnN_one (se_in D e1)) as [F|[b F]]; rewrite F in Hbs; subst bs; [contradiction|].
      unfold mret. cbn [le_dec]. replace (b + 256 * 0) with b by lia.
      destruct (b =? FP_ABORT) eqn:EB; [discriminate|]. apply N.eqb_neq in EB.
      intros H. injection H as <- <- <-. exists zs, [FRAME_START_BYTE; b]. split; [exact Hz|]. split; [left; reflexivity|].
      split; [exact EB|]. replace (zs ++ [FRAME_START_BYTE; b]) with ((zs ++ [FRAME_START_BYTE]) ++ [b]) by (now rewrite <- app_assoc).
      eapply eaten_trans; eauto.
  Qed.

  (* FRAMES_CRC_CHECKED: whatever the device sends, a read of the serial protocol only succeeds on
     [idle zeros] header length16 crc16 payload  where the CRC field equals CRC16-XMODEM over 5A, type, the length of the
     payload actually delivered, and that payload; a CMD frame moreover parses into the response object returned *)
  Lemma s_read_sound e v e' : s_read D recv e = (ROk v, e') ->
    exists zs hdr ft lenb crcb p,
      eaten e e' (zs ++ hdr ++ lenb ++ crcb ++ p) /\ zeros_only zs /\ hdr_ok hdr ft /\ ft <> FP_ABORT /\
      p <> [] /\ nlen p <= le_dec lenb /\ le_dec crcb = frame_crc ft p /\
      (if ft =? FP_CMD then exists r, parse_cmd_response p = ROk r /\ v = RxResp r else v = RxData p).
  Proof.
    unfold s_read. unfold mbind at 1.
    destruct (s_read_frame_header D None e) as [[[h ft]|x] e1] eqn:Hd; [|discriminate].
    apply header_inv in Hd. destruct Hd as (zs & hdr & Hz & Hh & Hab & He1).
    unfold mbind at 1. destruct (sread D 2 e1) as [[lenb|x] e2] eqn:R2; [|discriminate].
    apply sread_inv in R2. destruct R2 as (_ & _ & He2).
    unfold mbind at 1. destruct (sread D 2 e2) as [[crcb|x] e3] eqn:R3; [|discriminate].
    apply sread_inv in R3. destruct R3 as (_ & _ & He3).
    destruct (le_dec lenb =? 0) eqn:E0.
    { unfold mbind. destruct (s_send_ack D recv e3) as [[[]|x] e4]; discriminate. }
    unfold mbind at 1. destruct (sread D (le_dec lenb) e3) as [[p|x] e4] eqn:R4; [|discriminate].
    apply sread_inv in R4. destruct R4 as (Hp & Hpf & He4).
    unfold mbind at 1. unfold s_send_ack. destruct (swrite D recv [FRAME_START_BYTE; FP_ACK] e4) as [r5 e5] eqn:W.
    apply swrite_inv in W. destruct W as (-> & He5).
    cbn [snd]. destruct (negb (le_dec crcb =? frame_crc ft p)) eqn:EC; [discriminate|].
    apply negb_false_iff, N.eqb_eq in EC.
    intros H. exists zs, hdr, ft, lenb, crcb, p.
    assert (Hlen : nlen p <= le_dec lenb).
    { subst p. rewrite firstnN_firstn. unfold nlen. rewrite firstn_length. lia. }
    assert (Hea : eaten e e5 (zs ++ hdr ++ lenb ++ crcb ++ p)).
    { replace (zs ++ hdr ++ lenb ++ crcb ++ p) with (((((zs ++ hdr) ++ lenb) ++ crcb) ++ p) ++ []) by (rewrite app_nil_r, <- !app_assoc; reflexivity).
      repeat (eapply eaten_trans; [|eassumption]). assumption. }
    destruct (ft =? FP_CMD) eqn:EF.
    - unfold parse_rx in H. destruct (parse_cmd_response p) as [r|x] eqn:P; [|discriminate].
      unfold mret in H. injection H as <- <-. repeat (split; [assumption|]). exists r. auto.
    - unfold mret in H. injection H as <- <-. repeat (split; [assumption|]). reflexivity.
  Qed.
End SerialSound.

(* ------------------------------------------------------------------ packets_bounded *)
Lemma firstnN_skipnN {A} (l : list A) n : firstnN n l ++ skipnN n l = l.
Proof. rewrite firstnN_firstn, skipnN_skipn. apply firstn_skipn. Qed.
Lemma nlen_firstnN_le {A} (l : list A) n : nlen (firstnN n l) <= n.
Proof. rewrite firstnN_firstn. unfold nlen. rewrite firstn_length. lia. Qed.

Lemma chunks_fuelN_spec {A} k : 0 < k -> forall fuel (l : list A), (length l <= fuel)%nat ->
  concat (chunks_fuelN fuel k l) = l /\ Forall (fun c => c <> [] /\ nlen c <= k) (chunks_fuelN fuel k l).
Proof.
  intros Hk. induction fuel as [|f IH]; intros l Hl.
  - destruct l; [split; [reflexivity|constructor]|simpl in Hl; lia].
  - destruct l as [|x t]; [split; [reflexivity|constructor]|].
    cbn [chunks_fuelN]. set (l := x :: t) in *.
    assert (Hs : (length (skipnN k l) <= f)%nat).
    { rewrite skipnN_skipn, skipn_length. subst l. simpl length in *. lia. }
    destruct (IH _ Hs) as [C F]. split.
    + cbn [concat]. rewrite C. apply firstnN_skipnN.
    + constructor; [|exact F]. split; [|apply nlen_firstnN_le].
      subst l. simpl. destruct (k =? 0) eqn:E; [apply N.eqb_eq in E; lia|discriminate].
Qed.

(* _split_data's slicing: the chunks are non-empty, at most k bytes each, and their concatenation is the data *)
Lemma chunksN_spec {A} k (l : list A) : 0 < k ->
  concat (chunksN k l) = l /\ Forall (fun c => c <> [] /\ nlen c <= k) (chunksN k l).
Proof. intros Hk. apply chunks_fuelN_spec; [exact Hk|apply le_n]. Qed.

Section Packets.
  Variable E : Type.
  Variable I : iface E.
  Variable ce : bool.

  Lemma get_mps_cached s m s' : get_max_packet_size E I ce s = (ROk m, s') -> mb_mps E s' = Some m.
  Proof.
    unfold get_max_packet_size. destruct (mb_mps E s) as [m0|] eqn:C.
    - intros H. injection H as <- <-. exact C.
    - destruct (get_property E I ce PT_MAX_PACKET_SIZE 0 s) as [[[[|v t]|]|x] s1]; intros H; try discriminate;
        try (injection H as <- <-; reflexivity).
      destruct (is_mcuboot_error x); [injection H as <- <-; reflexivity|discriminate].
  Qed.

  (* PACKETS_BOUNDED (1): what _split_data hands to the data phase *)
  Lemma split_data_spec data s ch s' : split_data E I ce data s = (ROk ch, s') ->
    exists m, mb_mps E s' = Some m /\ 0 < m /\ concat ch = data /\ Forall (fun c => c <> [] /\ nlen c <= m) ch.
  Proof.
    unfold split_data. change NEED_DATA_SPLIT with true. cbv iota. unfold mbind.
    destruct (get_max_packet_size E I ce s) as [[m|x] s1] eqn:G; [|discriminate].
    apply get_mps_cached in G. destruct (m =? 0) eqn:E0; [discriminate|]. apply N.eqb_neq in E0.
    unfold mret. intros H. injection H as <- <-. exists m. split; [exact G|]. split; [lia|].
    apply chunksN_spec. lia.
  Qed.
End Packets.

(* PACKETS_BOUNDED (2), on the wire: whatever the device answers, the frames written by the data phase are exactly the
   frames of a PREFIX of the chunk list, in order, each once (all of them when the phase did not fail) *)
Section WireOut.
  Variable D : Type.
  Variable recv : D -> list N -> D * list N.

  Definition is_data_frame (w : list N) : bool := (6 <? nlen w) && (nth 1 w 0 =? FP_DATA).
  (* host writes between two environments, oldest first *)
  Definition wrote (e e' : senv D) (ws : list (list N)) : Prop := se_out D e' = rev ws ++ se_out D e.
  Lemma wrote_refl e : wrote e e [].
  Proof. reflexivity. Qed.
  Lemma wrote_trans e1 e2 e3 a b : wrote e1 e2 a -> wrote e2 e3 b -> wrote e1 e3 (a ++ b).
  Proof. unfold wrote. intros H1 H2. rewrite H2, H1, rev_app_distr, app_assoc. reflexivity. Qed.

  Lemma sread_out n e r e' : sread D n e = (r, e') -> wrote e e' [].
  Proof. unfold sread. destruct (firstnN n (se_in D e)); intros H; injection H as <- <-; reflexivity. Qed.
  Lemma wait_loop_out : forall fuel e r e', s_wait_loop D fuel e = (r, e') -> wrote e e' [].
  Proof.
    induction fuel as [|f IH]; intros e r e' H.
    - injection H as <- <-. reflexivity.
    - cbn [s_wait_loop] in H. unfold mbind in H. destruct (sread D 1 e) as [[bs|x] e1] eqn:R.
      + apply sread_out in R. destruct (memb (le_dec bs) FRAME_START_NOT_READY_LIST).
        * apply IH in H. apply (wrote_trans _ _ _ [] [] R H).
        * injection H as <- <-. exact R.
      + apply sread_out in R. injection H as <- <-. exact R.
  Qed.
  Lemma header_out ex e r e' : s_read_frame_header D ex e = (r, e') -> wrote e e' [].
  Proof.
    unfold s_read_frame_header, mbind, s_wait_for_data.
    destruct (s_wait_loop D (S (length (se_in D e))) e) as [[h|x] e1] eqn:W; apply wait_loop_out in W.
    - destruct (negb ((h =? FRAME_START_BYTE) || (h =? FP_ACK))); [intros H; injection H as <- <-; exact W|].
      destruct (h =? FP_ACK).
      + unfold mret. destruct (h =? FP_ABORT); [intros H; injection H as <- <-; exact W|].
        destruct ex as [ex|]; [destruct ((if h =? FRAME_START_BYTE then h else h) =? ex)|]; intros H; injection H as <- <-; exact W.
      + destruct (sread D 1 e1) as [[bs|x] e2] eqn:R; apply sread_out in R;
          pose proof (wrote_trans _ _ _ [] [] W R) as W2; [|intros H; injection H as <- <-; exact W2].
        unfold mret. destruct (le_dec bs =? FP_ABORT); [intros H; injection H as <- <-; exact W2|].
        destruct ex as [ex|]; [destruct ((if le_dec bs =? FRAME_START_BYTE then h else le_dec bs) =? ex)|]; intros H; injection H as <- <-; exact W2.
    - intros H; injection H as <- <-; exact W.
  Qed.

  Lemma s_write_data_out ab c e r e' : s_write_data D recv ab c e = (r, e') ->
    (wrote e e' [mk_frame FP_DATA c] /\ nlen c < 65536) \/ (wrote e e' [] /\ r <> ROk tt).
  Proof.
    unfold s_write_data, mbind, mlift, create_frame. destruct (65536 <=? nlen c) eqn:L.
    - intros H. injection H as <- <-. right. split; [reflexivity|discriminate].
    - apply N.leb_gt in L. unfold s_send_frame, mbind, swrite.
      destruct (recv (se_dev D e) (mk_frame FP_DATA c)) as [d' rr]. cbv iota beta.
      set (e1 := mkSenv D d' (se_in D e ++ rr) (mk_frame FP_DATA c :: se_out D e) (se_cons D e)).
      assert (W1 : wrote e e1 [mk_frame FP_DATA c]) by reflexivity.
      destruct (s_read_frame_header D (Some FP_ACK) e1) as [[hf|x] e2] eqn:Hd; apply header_out in Hd;
        intros H; injection H as <- <-; left; (split; [apply (wrote_trans _ _ _ [_] [] W1 Hd)|exact L]).
  Qed.

  Lemma write_chunks_prefix ab : forall chunks e r e',
    write_chunks (senv D) (serial_iface D recv) ab chunks e = (r, e') ->
    exists n, wrote e e' (map (mk_frame FP_DATA) (firstn n chunks)) /\ (r = ROk tt -> n = length chunks).
  Proof.
    induction chunks as [|c t IH]; intros e r e' H.
    - injection H as <- <-. exists 0%nat. split; [reflexivity|reflexivity].
    - cbn [write_chunks] in H. unfold mbind in H. cbn [i_write_data serial_iface] in H.
      destruct (s_write_data D recv ab c e) as [[[]|x] e1] eqn:W.
      + apply s_write_data_out in W. destruct W as [[W _]|[_ W]]; [|contradiction].
        apply IH in H. destruct H as (n & Hn & Hr). exists (S n). split.
        * cbn [firstn map]. apply (wrote_trans _ _ _ [_] _ W Hn).
        * intros Hok. cbn [length]. now rewrite (Hr Hok).
      + injection H as <- <-. apply s_write_data_out in W. destruct W as [[W _]|[W _]].
        * exists 1%nat. split; [exact W|discriminate].
        * exists 0%nat. split; [exact W|discriminate].
  Qed.
End WireOut.

(* ------------------------------------------------------------------ success_sound, end to end on the serial link *)
Section SerialWire.
  Variable D : Type.
  Variable recv : D -> list N -> D * list N.

  (* one accepted frame on the wire: [idle zeros] header length16 crc16 payload with a matching CRC *)
  Definition frame_wire (ft : N) (p : list N) (w : list N) : Prop :=
    exists zs hdr lenb crcb, w = zs ++ hdr ++ lenb ++ crcb ++ p /\ zeros_only zs /\ hdr_ok hdr ft /\ ft <> FP_ABORT /\
      p <> [] /\ nlen p <= le_dec lenb /\ le_dec crcb = frame_crc ft p.
  (* the two forms of "data phase aborted": the ABORT frame type, or a frame of length zero *)
  Definition abort_wire (w : list N) : Prop :=
    exists zs, zeros_only zs /\
      (w = zs ++ [FRAME_START_BYTE; FP_ABORT] \/
       exists hdr ft lenb crcb, w = zs ++ hdr ++ lenb ++ crcb /\ hdr_ok hdr ft /\ le_dec lenb = 0).

  (* the device->host bytes behind a sequence of reads *)
  Inductive swire : list rditem -> list N -> Prop :=
  | sw_nil : swire [] []
  | sw_data p w its bs : frame_wire FP_DATA p w \/ (exists ft, ft <> FP_CMD /\ frame_wire ft p w) -> swire its bs -> swire (IData p :: its) (w ++ bs)
  | sw_resp r p w its bs : frame_wire FP_CMD p w -> parse_cmd_response p = ROk r -> swire its bs -> swire (IResp r :: its) (w ++ bs)
  | sw_abort w its bs : abort_wire w -> swire its bs -> swire (IAborted :: its) (w ++ bs).

  Lemma header_abort_inv e e' : s_read_frame_header D None e = (RExn XAbort, e') ->
    exists zs, zeros_only zs /\ eaten D e e' (zs ++ [FRAME_START_BYTE; FP_ABORT]).
  Proof.
    unfold s_read_frame_header, mbind, s_wait_for_data.
    destruct (s_wait_loop D (S (length (se_in D e))) e) as [[h0|x] e1] eqn:W.
    - apply wait_loop_inv in W. destruct W as (zs & Hz & Hh & He).
      destruct (negb ((h0 =? FRAME_START_BYTE) || (h0 =? FP_ACK))) eqn:C; [discriminate|].
      apply negb_false_iff, orb_true_iff in C.
      destruct (h0 =? FP_ACK) eqn:EA.
      + apply N.eqb_eq in EA. subst h0. unfold mret. change (FP_ACK =? FP_ABORT) with false. cbv iota. discriminate.
      + destruct C as [C|C]; [|discriminate]. apply N.eqb_eq in C. subst h0.
        destruct (sread D 1 e1) as [[bs|x] e2] eqn:R.
        * apply sread_inv in R. destruct R as (Hne & Hbs & Hea).
          destruct (firstnN_one (se_in D e1)) as [F|[b F]]; rewrite F in Hbs; subst bs; [contradiction|].
          unfold mret. cbn [le_dec]. replace (b + 256 * 0) with b by lia.
          destruct (b =? FP_ABORT) eqn:EB; [|discriminate]. apply N.eqb_eq in EB. subst b.
          intros H. injection H as <-. exists zs. split; [exact Hz|].
          replace (zs ++ [FRAME_START_BYTE; FP_ABORT]) with ((zs ++ [FRAME_START_BYTE]) ++ [FP_ABORT]) by (now rewrite <- app_assoc).
          eapply eaten_trans; eauto.
        * intros H. injection H as -> <-. apply sread_exn in R. destruct R; discriminate.
    - intros H. injection H as -> <-. exfalso. clear -W.
      revert W. generalize (S (length (se_in D e))). intros n. revert e e1.
      induction n as [|f IH]; intros e e1 W; [discriminate|].
      cbn [s_wait_loop] in W. unfold mbind in W. destruct (sread D 1 e) as [[bs|x] e2] eqn:R.
      + destruct (memb (le_dec bs) FRAME_START_NOT_READY_LIST); [eapply IH; eauto|discriminate].
      + injection W as -> <-. apply sread_exn in R. destruct R; discriminate.
  Qed.

  Lemma parse_rx_not_abort {S} p (s s' : S) : parse_rx p s <> (RExn XAbort, s').
  Proof.
    unfold parse_rx, parse_cmd_response.
    destruct (nlen p <? CMD_HEADER_SIZE); [discriminate|].
    destruct (nlen (skipn 4 p) <? 4); [discriminate|].
    destruct (assoc (assocd (nth 0 p 0) known_response 0) response_shape) as [[[[[kind nfix] nbefore] star] second]|]; [|discriminate].
    destruct (if kind =? 2 then _ else _); [discriminate|].
    destruct (if star =? 1 then _ else _); discriminate.
  Qed.

  Lemma s_read_abort_sound e e' : s_read D recv e = (RExn XAbort, e') -> exists w, eaten D e e' w /\ abort_wire w.
  Proof.
    unfold s_read. unfold mbind at 1.
    destruct (s_read_frame_header D None e) as [[[h ft]|x] e1] eqn:Hd.
    - apply header_inv in Hd. destruct Hd as (zs & hdr & Hz & Hh & Hab & He1).
      unfold mbind at 1. destruct (sread D 2 e1) as [[lenb|x] e2] eqn:R2.
      2:{ intros H. injection H as -> <-. apply sread_exn in R2. destruct R2; discriminate. }
      apply sread_inv in R2. destruct R2 as (_ & _ & He2).
      unfold mbind at 1. destruct (sread D 2 e2) as [[crcb|x] e3] eqn:R3.
      2:{ intros H. injection H as -> <-. apply sread_exn in R3. destruct R3; discriminate. }
      apply sread_inv in R3. destruct R3 as (_ & _ & He3).
      destruct (le_dec lenb =? 0) eqn:E0.
      + apply N.eqb_eq in E0. unfold mbind, s_send_ack.
        destruct (swrite D recv [FRAME_START_BYTE; FP_ACK] e3) as [r5 e5] eqn:W. apply swrite_inv in W. destruct W as (-> & He5).
        unfold mraise. intros H. injection H as <-.
        exists (zs ++ hdr ++ lenb ++ crcb). split.
        * replace (zs ++ hdr ++ lenb ++ crcb) with ((((zs ++ hdr) ++ lenb) ++ crcb) ++ []) by (rewrite app_nil_r, <- !app_assoc; reflexivity).
          repeat (eapply eaten_trans; [|eassumption]). assumption.
        * exists zs. split; [exact Hz|]. right. exists hdr, ft, lenb, crcb. auto.
      + unfold mbind at 1. destruct (sread D (le_dec lenb) e3) as [[p|x] e4] eqn:R4.
        2:{ intros H. injection H as -> <-. apply sread_exn in R4. destruct R4; discriminate. }
        unfold mbind at 1. unfold s_send_ack. destruct (swrite D recv [FRAME_START_BYTE; FP_ACK] e4) as [r5 e5] eqn:W.
        apply swrite_inv in W. destruct W as (-> & He5).
        destruct (negb (le_dec crcb =? frame_crc (snd (h, ft)) p)); [discriminate|].
        destruct (snd (h, ft) =? FP_CMD); [|discriminate].
        intros H. exfalso. eapply parse_rx_not_abort; eauto.
    - intros H. injection H as -> <-. apply header_abort_inv in Hd. destruct Hd as (zs & Hz & He).
      eexists. split; [exact He|]. exists zs. split; [exact Hz|]. left. reflexivity.
  Qed.

  Lemma ireads_serial_wire e e' its : ireads (serial_iface D recv) e e' its -> exists bs, eaten D e e' bs /\ swire its bs.
  Proof.
    induction 1 as [e|e e1 e2 d its R _ IH|e e1 e2 r its R _ IH|e e1 e2 its R _ IH].
    - exists []. split; [apply eaten_refl|constructor].
    - cbn [i_read serial_iface] in R. apply s_read_sound in R.
      destruct R as (zs & hdr & ft & lenb & crcb & p & He & Hz & Hh & Hab & Hp & Hl & Hc & Hv).
      destruct IH as (bs & Hb & Hs). exists ((zs ++ hdr ++ lenb ++ crcb ++ p) ++ bs). split; [eapply eaten_trans; eauto|].
      destruct (ft =? FP_CMD) eqn:EF; [destruct Hv as (r & _ & Hr); discriminate|]. injection Hv as <-.
      constructor; [|exact Hs]. right. exists ft. split; [now apply N.eqb_neq|]. exists zs, hdr, lenb, crcb. auto 10.
    - cbn [i_read serial_iface] in R. apply s_read_sound in R.
      destruct R as (zs & hdr & ft & lenb & crcb & p & He & Hz & Hh & Hab & Hp & Hl & Hc & Hv).
      destruct IH as (bs & Hb & Hs). exists ((zs ++ hdr ++ lenb ++ crcb ++ p) ++ bs). split; [eapply eaten_trans; eauto|].
      destruct (ft =? FP_CMD) eqn:EF; [|discriminate]. destruct Hv as (r0 & Hpr & Hr). injection Hr as <-.
      apply N.eqb_eq in EF. subst ft. econstructor; [|exact Hpr|exact Hs]. exists zs, hdr, lenb, crcb. auto 10.
    - cbn [i_read serial_iface] in R. apply s_read_abort_sound in R. destruct R as (w & Hw & Ha).
      destruct IH as (bs & Hb & Hs). exists (w ++ bs). split; [eapply eaten_trans; eauto|]. constructor; assumption.
  Qed.
End SerialWire.

(* ------------------------------------------------------------------ SUCCESS_SOUND on the serial link, for every device *)
Section SerialSuccess.
  Variable D : Type.
  Variable recv : D -> list N -> D * list N.
  Variable ce : bool.

  Lemma success_sound_serial_lemma fuel p cls s v s' :
    cmd_data_in (senv D) (serial_iface D recv) ce fuel p cls s = (ROk (AVBytes v), s') ->
    mb_status _ s' = SC_SUCCESS ->
    exists b e0 e1 rs pr wr its bs rsf,
      pkt_bytes p = ROk b /\ s_write_command D recv b (mb_env _ s) = (ROk tt, e0) /\
      eaten D e0 e1 wr /\ frame_wire FP_CMD pr wr /\ parse_cmd_response pr = ROk rs /\ r_status rs = SC_SUCCESS /\ r_cls rs = cls /\
      eaten D e1 (mb_env _ s') bs /\ swire its bs /\ v = firstnN (r_second rs) (datas its) /\
      last_resp its = Some rsf /\ r_cls rsf = 1 /\ r_second rsf = pkt_tag p /\ r_status rsf = SC_SUCCESS /\
      nlen v = r_second rs.
  Proof.
    intros H Hs. apply cmd_data_in_sound in H.
    destruct H as (b & e0 & rs & e1 & its & e_end & rsf & s1 & Hb & Hw & Hr & Hst & Hcl & Hits & Hv & _ & _ & Hend & _).
    destruct (Hend Hs) as (-> & Hl & Hc1 & Hc2 & Hc3 & Hn).
    cbn [i_read i_write_command serial_iface] in Hr, Hw.
    apply s_read_sound in Hr. destruct Hr as (zs & hdr & ft & lenb & crcb & pr & He & Hz & Hh & Hab & Hp & Hl2 & Hc & Hvv).
    destruct (ft =? FP_CMD) eqn:EF; [|discriminate]. apply N.eqb_eq in EF. subst ft.
    destruct Hvv as (r0 & Hpr & Hrr). injection Hrr as <-.
    apply ireads_serial_wire in Hits. destruct Hits as (bs & Hbs & Hsw).
    exists b, e0, e1, rs, pr, (zs ++ hdr ++ lenb ++ crcb ++ pr), its, bs, rsf.
    repeat (split; [first [assumption | exists zs, hdr, lenb, crcb; auto 10]|]). exact Hn.
  Qed.
End SerialSuccess.

(* the former finding C10-F1, now repaired: the device announces 20 bytes, one DATA frame is lost, the final response
   says SUCCESS -- the call no longer leaves status SUCCESS (and raises with cmd_exception) *)
Definition f1_stream : list N :=
  [90; 161; 90; 164; 12; 0; 27; 108; 163; 0; 0; 2; 0; 0; 0; 0; 20; 0; 0; 0; 90; 165; 8; 0; 116; 49; 0; 1; 2; 3; 4; 5; 6; 7;
   90; 165; 4; 0; 166; 200; 16; 17; 18; 19; 90; 164; 12; 0; 14; 35; 160; 0; 0; 2; 0; 0; 0; 0; 3; 0; 0; 0].
Definition f1_run (ce : bool) :=
  read_memory (senv unit) (serial_iface unit null_recv) ce 100 4096 20 0 false
              (mkMbs (senv unit) SC_SUCCESS (Some 8) (mkSenv unit tt f1_stream [] [])).
Lemma lost_frame_reports_failure :
  (exists v s', f1_run false = (ROk (AVBytes v), s') /\ mb_status _ s' = SC_FAIL /\ nlen v = 12) /\
  (exists s', f1_run true = (RExn (XCmd SC_FAIL), s')).
Proof. split; [eexists; eexists; vm_compute; repeat split|eexists; vm_compute; reflexivity]. Qed.

(* ------------------------------------------------------------------ HID reports *)
Section HidLemmas.
  Variable D : Type.
  Lemma report_roundtrip_lemma rid p (e : henv D) : p <> [] -> nlen p < 65536 ->
    h_parse_frame D (mk_report rid p) e = if rid =? RID_CMD_IN then parse_rx p e else (ROk (RxData p), e).
  Proof.
    intros Hp Hl. unfold h_parse_frame, mk_report.
    assert (H4 : nlen (rid :: 0 :: le16 (nlen p) ++ p) <? 4 = false).
    { apply N.ltb_ge. rewrite !nlen_cons, nlen_app, le16_nlen. lia. }
    rewrite H4. cbn [nth skipn]. rewrite le16_cons. cbn [app skipn firstn].
    change [nlen p mod 256; (nlen p / 256) mod 256] with (le16 (nlen p)). rewrite le_dec_le16 by exact Hl.
    destruct (nlen p =? 0) eqn:E; [apply N.eqb_eq, nlen_0 in E; contradiction|].
    replace (nlen (rid :: 0 :: nlen p mod 256 :: (nlen p / 256) mod 256 :: p) <? 4 + nlen p) with false
      by (symmetry; apply N.ltb_ge; rewrite !nlen_cons; lia).
    replace (firstnN (nlen p) p) with p.
    - destruct (rid =? RID_CMD_IN); reflexivity.
    - pose proof (firstnN_app_exact p []) as F. rewrite app_nil_r in F. now rewrite F.
  Qed.
End HidLemmas.
(* D24 (former finding C10-F2), repaired: a report that announces 8 bytes and delivers 3 is a connection error *)
Lemma short_report_rejected_example :
  h_parse_frame unit [RID_DATA_IN; 0; 8; 0; 97; 98; 99] (mkHenv unit tt [] [] []) = (RExn XConn, mkHenv unit tt [] [] []).
Proof. reflexivity. Qed.

(* every report the HID protocol accepts is complete: at least 4 + plen bytes long, and the payload handed on has exactly
   the announced length plen > 0 *)
Lemma h_parse_frame_sound D raw (e : henv D) v e' : h_parse_frame D raw e = (ROk v, e') ->
  e' = e /\ 4 + le_dec (firstn 2 (skipn 2 raw)) <= nlen raw /\ 0 < le_dec (firstn 2 (skipn 2 raw)) /\
  let p := firstnN (le_dec (firstn 2 (skipn 2 raw))) (skipn 4 raw) in
  nlen p = le_dec (firstn 2 (skipn 2 raw)) /\
  (if nth 0 raw 0 =? RID_CMD_IN then exists r, parse_cmd_response p = ROk r /\ v = RxResp r else v = RxData p).
Proof.
  unfold h_parse_frame. destruct (nlen raw <? 4) eqn:E4; [discriminate|].
  set (plen := le_dec (firstn 2 (skipn 2 raw))).
  destruct (plen =? 0) eqn:E0; [discriminate|]. destruct (nlen raw <? 4 + plen) eqn:EL; [discriminate|].
  apply N.ltb_ge in E4, EL. apply N.eqb_neq in E0. intros H.
  assert (Hn : nlen (firstnN plen (skipn 4 raw)) = plen).
  { apply nlen_firstnN. unfold nlen in *. rewrite skipn_length. lia. }
  destruct (nth 0 raw 0 =? RID_CMD_IN).
  - unfold parse_rx in H. destruct (parse_cmd_response (firstnN plen (skipn 4 raw))) as [r|x] eqn:P; [|discriminate].
    injection H as <- <-. repeat split; try assumption; try lia. exists r. auto.
  - injection H as <- <-. repeat split; try assumption; lia.
Qed.

(* ------------------------------------------------------------------ the closed loop: host against the reference bootloader *)
Lemma firstn_app_len {A} (a b : list A) n : length a = n -> firstn n (a ++ b) = a.
Proof. intros <-. rewrite firstn_app, Nat.sub_diag, firstn_all. simpl. apply app_nil_r. Qed.
Lemma skipn_app_len {A} (a b : list A) n : length a = n -> skipn n (a ++ b) = b.
Proof. intros <-. rewrite skipn_app, Nat.sub_diag, skipn_all. reflexivity. Qed.

Lemma mk_frame_nlen t p : nlen (mk_frame t p) = 6 + nlen p.
Proof. unfold mk_frame. rewrite !nlen_cons, !nlen_app, !le16_nlen. lia. Qed.

(* frame_roundtrip, device side: the reference bootloader decodes what the host encoded *)
Lemma sdev_decode t p :
  skipn 6 (mk_frame t p) = p /\ nth 0 (mk_frame t p) 0 = FRAME_START_BYTE /\ nth 1 (mk_frame t p) 0 = t /\
  firstn 2 (skipn 2 (mk_frame t p)) = le16 (nlen p) /\ firstn 2 (skipn 4 (mk_frame t p)) = le16 (frame_crc t p).
Proof.
  unfold mk_frame.
  assert (S2 : forall (a b : N) l n, skipn (S (S n)) (a :: b :: l) = skipn n l) by reflexivity.
  split; [|split; [reflexivity|split; [reflexivity|split]]].
  - rewrite S2. rewrite (app_assoc (le16 _)).
    apply skipn_app_len. rewrite app_length, !le16_length. reflexivity.
  - rewrite S2. cbn [skipn]. apply firstn_app_len, le16_length.
  - rewrite S2. rewrite (skipn_app_len (le16 _)) by apply le16_length.
    apply firstn_app_len, le16_length.
Qed.

Definition dev_queue (c2 : dcore) (zfin : option (list N)) (din : option (list N * (N * N))) : list (list N) :=
  (match zfin with Some r => [mk_frame FP_CMD r] | None => [] end) ++
  (match din with
   | Some (data, (tag, fin)) => map (mk_frame FP_DATA) (chunksN (dc_mps c2) data) ++ [mk_frame FP_CMD (generic fin tag)]
   | None => []
   end).

Lemma sdev_recv_cmd c q b : b <> [] -> nlen b < 65536 ->
  sdev_recv (mkSdev c q) (mk_frame FP_CMD b) =
  (mkSdev (fst (dev_zero_phase (fst (fst (dev_command c b)))))
          (dev_queue (fst (dev_zero_phase (fst (fst (dev_command c b))))) (snd (dev_zero_phase (fst (fst (dev_command c b))))) (snd (dev_command c b))),
   ACK_BYTES ++ mk_frame FP_CMD (snd (fst (dev_command c b)))).
Proof.
  intros Hb Hl. unfold sdev_recv.
  destruct (sdev_decode FP_CMD b) as (D6 & D0 & D1 & D2 & D4).
  assert (HA : eqb_list (mk_frame FP_CMD b) ACK_BYTES = false) by reflexivity.
  rewrite HA, D6, D0, D1, D2, D4, mk_frame_nlen.
  rewrite !le_dec_le16 by (first [exact Hl | apply frame_crc_bound]).
  replace (6 + nlen b <? 6) with false by (symmetry; apply N.ltb_ge; lia).
  rewrite !N.eqb_refl. change (FP_CMD =? FP_CMD) with true. cbn [negb orb].
  destruct (nlen b =? 0) eqn:E; [apply N.eqb_eq, nlen_0 in E; contradiction|]. cbn [orb].
  cbn [sd_core]. destruct (dev_command c b) as [[c1 first] din]. cbn [fst snd].
  destruct (dev_zero_phase c1) as [c2 zfin]. cbn [fst snd]. unfold dev_queue.
  destruct din as [[data [tag fin]]|]; reflexivity.
Qed.

Lemma sdev_recv_data c q p : p <> [] -> nlen p < 65536 ->
  sdev_recv (mkSdev c q) (mk_frame FP_DATA p) =
  (mkSdev (fst (dev_data_out c p)) q,
   ACK_BYTES ++ match snd (dev_data_out c p) with Some r => mk_frame FP_CMD r | None => [] end).
Proof.
  intros Hb Hl. unfold sdev_recv.
  destruct (sdev_decode FP_DATA p) as (D6 & D0 & D1 & D2 & D4).
  assert (HA : eqb_list (mk_frame FP_DATA p) ACK_BYTES = false) by reflexivity.
  rewrite HA, D6, D0, D1, D2, D4, mk_frame_nlen.
  rewrite !le_dec_le16 by (first [exact Hl | apply frame_crc_bound]).
  replace (6 + nlen p <? 6) with false by (symmetry; apply N.ltb_ge; lia).
  rewrite !N.eqb_refl. change (FP_DATA =? FP_CMD) with false. change (FP_DATA =? FP_DATA) with true. cbn [negb orb].
  destruct (nlen p =? 0) eqn:E; [apply N.eqb_eq, nlen_0 in E; contradiction|]. cbn [orb].
  cbn [sd_core sd_queue]. destruct (dev_data_out c p) as [c1 fin]. reflexivity.
Qed.

Lemma sdev_recv_ack c q : sdev_recv (mkSdev c q) ACK_BYTES = match q with [] => (mkSdev c [], []) | f :: q' => (mkSdev c q', f) end.
Proof. unfold sdev_recv. change (eqb_list ACK_BYTES ACK_BYTES) with true. cbv iota. destruct q; reflexivity. Qed.

Section Live.
  Notation LE := (senv sdev).
  Notation LI := (serial_iface sdev sdev_recv).

  Definition cmd_core (c : dcore) (b : list N) : dcore := fst (dev_zero_phase (fst (fst (dev_command c b)))).
  Definition cmd_first (c : dcore) (b : list N) : list N := snd (fst (dev_command c b)).
  Definition cmd_queue (c : dcore) (b : list N) : list (list N) :=
    dev_queue (cmd_core c b) (snd (dev_zero_phase (fst (fst (dev_command c b))))) (snd (dev_command c b)).

  (* T1: a command exchange in lock step: the host sends the command frame, the device acknowledges and answers, the host
     acknowledges the answer, which releases the next queued frame of the device *)
  Lemma exchange_live c b out cons :
    b <> [] -> nlen b < 65536 -> cmd_first c b <> [] -> nlen (cmd_first c b) < 65536 ->
    (s_write_command sdev sdev_recv b ;;; s_read sdev sdev_recv) (mkSenv sdev (mkSdev c []) [] out cons) =
    parse_rx (cmd_first c b)
      (mkSenv sdev (mkSdev (cmd_core c b) (tl (cmd_queue c b))) (hd [] (cmd_queue c b))
              (ACK_BYTES :: mk_frame FP_CMD b :: out)
              (cmd_first c b :: le16 (frame_crc FP_CMD (cmd_first c b)) :: le16 (nlen (cmd_first c b)) :: [FP_CMD] :: [FRAME_START_BYTE]
               :: [FP_ACK] :: [FRAME_START_BYTE] :: cons)).
  Proof.
    intros Hb Hl Hf Hfl. unfold mbind at 1. unfold s_write_command, mbind at 1, mlift, create_frame.
    replace (65536 <=? nlen b) with false by (symmetry; apply N.leb_gt; exact Hl).
    unfold s_send_frame, mbind at 1. unfold swrite at 1. cbn [se_dev se_in se_out se_cons].
    rewrite sdev_recv_cmd by assumption. fold (cmd_core c b) (cmd_first c b) (cmd_queue c b). cbn [app].
    unfold mbind at 1. unfold ACK_BYTES at 1. cbn [app]. rewrite header_ack. unfold mret.
    rewrite <- (app_nil_r (mk_frame FP_CMD (cmd_first c b))).
    rewrite (s_read_frame sdev sdev_recv FP_CMD (cmd_first c b) []) by (first [discriminate | assumption]).
    cbv zeta. change (FP_CMD =? FP_CMD) with true. cbv iota. unfold after_ack. rewrite sdev_recv_ack.
    destruct (cmd_queue c b); reflexivity.
  Qed.
End Live.

(* ------------------------------------------------------------------ responses of the device parse back (results mirror the device) *)
Definition U32 : N := 4294967296.
Lemma le_enc4_length x : length (le_enc 4 x) = 4%nat.
Proof. apply le_enc_length. Qed.
Lemma le_dec_enc4 x : x < U32 -> le_dec (le_enc 4 x) = x.
Proof. intros H. apply le_dec_enc_small. exact H. Qed.
Lemma words_u32s ws : forall rest, Forall (fun x => x < U32) ws -> words (length ws) (u32s ws ++ rest) = ws.
Proof.
  induction ws as [|w t IH]; intros rest H; [reflexivity|].
  inversion H as [|? ? Hw Ht]; subst. cbn [length words u32s flat_map]. fold (u32s t).
  rewrite <- app_assoc. rewrite (firstn_app_len (le_enc 4 w)) by apply le_enc4_length.
  rewrite (skipn_app_len (le_enc 4 w)) by apply le_enc4_length.
  rewrite le_dec_enc4 by exact Hw. now rewrite IH.
Qed.
Lemma u32s_nlen ws : nlen (u32s ws) = 4 * nlen ws.
Proof.
  induction ws as [|w t IH]; [reflexivity|]. cbn [u32s flat_map]. fold (u32s t).
  rewrite nlen_app, nlen_cons, IH. unfold nlen at 1. rewrite le_enc4_length. lia.
Qed.
Lemma map_mod_id ws : Forall (fun x => x < U32) ws -> map (fun p => p mod U32) ws = ws.
Proof. induction 1 as [|x t Hx _ IH]; [reflexivity|]. cbn [map]. rewrite IH, N.mod_small by exact Hx. reflexivity. Qed.

Definition generic_resp (st tag : N) : resp := mkResp 1 RT_GENERIC st tag [] [].

Lemma parse_two tagr cls st x (Hcls : assocd tagr known_response 0 = cls)
      (Hshape : assoc cls response_shape = Some (0, 2, 2, 0, (if cls =? 1 then 1 else 2))) (Hc4 : (cls =? 4) = false) :
  st < U32 -> x < U32 -> parse_cmd_response (response tagr [st; x]) = ROk (mkResp cls tagr st x [] []).
Proof.
  intros Hs Hx. unfold parse_cmd_response, response. fold U32.
  rewrite map_mod_id by (repeat constructor; assumption).
  set (raw := u32s [st; x]).
  assert (Hraw : nlen raw = 8) by (unfold raw; rewrite u32s_nlen; reflexivity).
  replace (nlen (tagr :: 0 :: 0 :: nlen [st; x] :: raw) <? CMD_HEADER_SIZE) with false
    by (symmetry; apply N.ltb_ge; rewrite !nlen_cons, Hraw; unfold CMD_HEADER_SIZE; lia).
  cbn [nth skipn]. rewrite Hraw. change (8 <? 4) with false. cbv iota.
  rewrite Hcls, Hshape. change (0 =? 0) with true. cbv iota. change (0 =? 2) with false. cbv iota.
  change (8 <? 4 * 2) with false. cbv iota. change (0 =? 1) with false. cbv iota. change (negb (2 =? 2)) with false. cbv iota.
  change (2 <=? 2) with true. cbv iota.
  assert (W : words (N.to_nat 2) raw = [st; x]).
  { unfold raw. rewrite <- (app_nil_r (u32s [st; x])). change (N.to_nat 2) with (length [st; x]). apply words_u32s. repeat constructor; assumption. }
  rewrite W. cbn [nth]. rewrite Hc4. cbn [andb].
  replace (le_dec (firstn 4 raw)) with st; [reflexivity|].
  unfold raw. cbn [u32s flat_map]. rewrite (firstn_app_len (le_enc 4 st)) by apply le_enc4_length. now rewrite le_dec_enc4.
Qed.

Lemma parse_generic st tag : st < U32 -> tag < U32 -> parse_cmd_response (generic st tag) = ROk (generic_resp st tag).
Proof. intros. unfold generic, generic_resp. apply (parse_two RT_GENERIC 1); auto. Qed.
Lemma parse_readmem st len : st < U32 -> len < U32 ->
  parse_cmd_response (response RT_READ_MEMORY [st; len]) = ROk (mkResp 3 RT_READ_MEMORY st len [] []).
Proof. intros. apply (parse_two RT_READ_MEMORY 3); auto. Qed.

Lemma generic_nlen st tag : nlen (generic st tag) = 12.
Proof. unfold generic, response. rewrite !nlen_cons, u32s_nlen. reflexivity. Qed.
Lemma response_nlen t ps : nlen (response t ps) = 4 + 4 * nlen ps.
Proof. unfold response. rewrite !nlen_cons, u32s_nlen. unfold nlen. rewrite map_length. lia. Qed.
Lemma response_nonempty t ps : response t ps <> [].
Proof. discriminate. Qed.

Section Live2.
  Notation LE := (senv sdev).
  Notation LI := (serial_iface sdev sdev_recv).
  Variable ce : bool.

  Definition chunk_ok (ch : list N) : Prop := ch <> [] /\ nlen ch < 65536.
  Definition in_frames (chunks : list (list N)) (fin tag : N) : list (list N) :=
    map (mk_frame FP_DATA) chunks ++ [mk_frame FP_CMD (generic fin tag)].

  (* T2: the incoming data phase in lock step: every DATA frame is read, acknowledged (which releases the next one) and
     appended; the generic response for this command ends the loop *)
  Lemma read_loop_live fin tag (Hf : fin < U32) (Ht : tag < U32) : forall chunks acc fuel c out cons st mps,
    Forall chunk_ok chunks -> (length chunks < fuel)%nat ->
    exists out' cons',
    read_data_loop LE LI tag fuel acc
      (mkMbs LE st mps (mkSenv sdev (mkSdev c (tl (in_frames chunks fin tag))) (hd [] (in_frames chunks fin tag)) out cons)) =
    (ROk (concat (rev acc) ++ concat chunks, generic_resp fin tag),
     mkMbs LE fin mps (mkSenv sdev (mkSdev c []) [] out' cons')).
  Proof.
    induction chunks as [|ch t IH]; intros acc fuel c out cons st mps Hc Hfuel.
    - destruct fuel as [|f]; [inversion Hfuel|]. cbn [in_frames map app hd tl].
      cbn [read_data_loop]. unfold lift. cbn [mb_env i_read serial_iface].
      rewrite <- (app_nil_r (mk_frame FP_CMD (generic fin tag))).
      rewrite s_read_frame; [|discriminate|discriminate|rewrite generic_nlen; reflexivity].
      cbv zeta. change (FP_CMD =? FP_CMD) with true. cbv iota. unfold parse_rx. rewrite parse_generic by assumption.
      unfold mret, after_ack. rewrite sdev_recv_ack. cbn [fst snd app set_env].
      unfold generic_resp at 1. cbn [r_cls]. change (1 =? 1) with true. cbv iota.
      unfold mbind, put_status. cbn [r_second generic_resp r_status set_status mb_mps mb_env]. rewrite N.eqb_refl.
      unfold mret. cbn [concat]. rewrite (app_nil_r (concat (rev acc))). unfold set_status, set_env. cbn [mb_status mb_mps mb_env].
      eexists. eexists. reflexivity.
    - destruct fuel as [|f]; [inversion Hfuel|]. inversion Hc as [|? ? [Hne Hl] Ht']; subst.
      assert (Hq : in_frames (ch :: t) fin tag = mk_frame FP_DATA ch :: in_frames t fin tag) by reflexivity.
      rewrite Hq. cbn [hd tl]. cbn [read_data_loop]. unfold lift. cbn [mb_env i_read serial_iface].
      rewrite <- (app_nil_r (mk_frame FP_DATA ch)).
      rewrite s_read_frame; [|discriminate|exact Hne|exact Hl].
      cbv zeta. change (FP_DATA =? FP_CMD) with false. cbv iota. unfold after_ack. rewrite sdev_recv_ack.
      destruct (IH (ch :: acc) f c (ACK_BYTES :: out) (ch :: le16 (frame_crc FP_DATA ch) :: le16 (nlen ch) :: [FP_DATA] :: [FRAME_START_BYTE] :: cons) st mps Ht')
        as (out' & cons' & Heq); [simpl in Hfuel; lia|].
      destruct (in_frames t fin tag) as [|f0 q'] eqn:EQ.
      { exfalso. unfold in_frames in EQ. destruct (map (mk_frame FP_DATA) t); discriminate. }
      cbn [hd tl] in Heq. unfold set_env. cbn [fst snd app mb_status mb_mps]. rewrite Heq.
      exists out', cons'. cbn [rev concat]. rewrite concat_app. cbn [concat]. rewrite app_nil_r, <- app_assoc. reflexivity.
  Qed.
End Live2.

Section Live3.
  Notation LE := (senv sdev).
  Notation LI := (serial_iface sdev sdev_recv).

  Definition ph_add (ph : phase) (d : list N) : phase :=
    mkPhase (ph_tag ph) (ph_expected ph) (ph_buf ph ++ d) (ph_kind ph) (ph_arg ph) (ph_fin ph).
  Definition with_phase (c : dcore) (ph : phase) : dcore :=
    upd_core c (dc_mem c) (dc_props c) (dc_fuses c) (Some ph) (dc_cmds c).
  Lemma phase_done_with c ph1 ph2 : phase_done (with_phase c ph1) ph2 = phase_done c ph2.
  Proof. destruct c. reflexivity. Qed.
  Lemma with_phase_phase c ph : dc_phase (with_phase c ph) = Some ph.
  Proof. reflexivity. Qed.
  Lemma ph_add_add ph a b : ph_add (ph_add ph a) b = ph_add ph (a ++ b).
  Proof. unfold ph_add. cbn. now rewrite app_assoc. Qed.

  (* one data packet of the host against the device *)
  Lemma write_data_live ab c ch out cons :
    chunk_ok ch ->
    s_write_data sdev sdev_recv ab ch (mkSenv sdev (mkSdev c []) [] out cons) =
    (ROk tt, mkSenv sdev (mkSdev (fst (dev_data_out c ch)) [])
                    (match snd (dev_data_out c ch) with Some r => mk_frame FP_CMD r | None => [] end)
                    (mk_frame FP_DATA ch :: out) ([FP_ACK] :: [FRAME_START_BYTE] :: cons)).
  Proof.
    intros [Hne Hl]. unfold s_write_data, mbind at 1, mlift, create_frame.
    replace (65536 <=? nlen ch) with false by (symmetry; apply N.leb_gt; exact Hl).
    unfold s_send_frame, mbind at 1. unfold swrite at 1. cbn [se_dev se_in se_out se_cons].
    rewrite sdev_recv_data by assumption. cbn [app]. unfold mbind at 1. unfold ACK_BYTES at 1. cbn [app].
    rewrite header_ack. reflexivity.
  Qed.

  (* T3: the outgoing data phase in lock step: the device collects exactly the chunks, in order, each once, and
     completes the phase with the last one *)
  Lemma write_chunks_live ab : forall chunks c ph out cons,
    Forall chunk_ok chunks -> chunks <> [] -> dc_phase c = Some ph ->
    ph_expected ph = nlen (ph_buf ph) + nlen (concat chunks) ->
    exists out' cons',
    write_chunks LE LI ab chunks (mkSenv sdev (mkSdev c []) [] out cons) =
    (ROk tt, mkSenv sdev (mkSdev (phase_done c (ph_add ph (concat chunks))) [])
                    (mk_frame FP_CMD (generic (ph_fin ph) (ph_tag ph))) out' cons').
  Proof.
    induction chunks as [|ch t IH]; intros c ph out cons Hc Hne Hph Hex; [contradiction|].
    inversion Hc as [|? ? Hch Ht]; subst. cbn [write_chunks]. unfold mbind. cbn [i_write_data serial_iface].
    rewrite write_data_live by exact Hch. unfold dev_data_out. rewrite Hph. fold (ph_add ph ch).
    cbn [concat] in Hex. rewrite nlen_app in Hex.
    destruct t as [|ch2 t].
    - (* last chunk *)
      cbn [concat] in *. rewrite app_nil_r in *. change (nlen []) with 0 in Hex.
      replace (ph_expected ph <=? nlen (ph_buf (ph_add ph ch))) with true
        by (symmetry; apply N.leb_le; cbn [ph_add ph_buf]; rewrite nlen_app; lia).
      cbn [fst snd write_chunks]. unfold mret. eexists. eexists. reflexivity.
    - inversion Ht as [|? ? [Hne2 Hl2] Ht2]; subst.
      assert (Hpos : 0 < nlen (concat (ch2 :: t))).
      { cbn [concat]. rewrite nlen_app. destruct ch2; [contradiction|]. rewrite nlen_cons. lia. }
      replace (ph_expected ph <=? nlen (ph_buf (ph_add ph ch))) with false
        by (symmetry; apply N.leb_gt; cbn [ph_add ph_buf]; rewrite nlen_app; lia).
      cbn [fst snd]. fold (with_phase c (ph_add ph ch)).
      destruct (IH (with_phase c (ph_add ph ch)) (ph_add ph ch) (mk_frame FP_DATA ch :: out) ([FP_ACK] :: [FRAME_START_BYTE] :: cons))
        as (out' & cons' & Heq); [exact Ht|discriminate|apply with_phase_phase| |].
      + cbn [ph_add ph_expected ph_buf]. rewrite nlen_app. lia.
      + rewrite Heq. rewrite phase_done_with, ph_add_add. cbn [ph_add ph_fin ph_tag]. eexists. eexists. reflexivity.
  Qed.
End Live3.

(* ------------------------------------------------------------------ the reference device on the modelled commands *)
Definition log_cmd (c : dcore) (e : N * N * list N) : dcore :=
  upd_core c (dc_mem c) (dc_props c) (dc_fuses c) (dc_phase c) (e :: dc_cmds c).
Definition no_faults (c : dcore) : Prop := dc_fail_cmd c = [] /\ dc_fail_final c = [].

Lemma pkt3_words tag flags a l m : a < U32 -> l < U32 -> m < U32 ->
  let pkt := tag :: flags :: 0 :: 3 :: u32s [a; l; m] in
  (4 + 4 * 3 <=? nlen pkt) = true /\ words (N.to_nat 3) (skipn 4 pkt) = [a; l; m].
Proof.
  intros Ha Hl Hm pkt. split.
  - apply N.leb_le. unfold pkt. rewrite !nlen_cons, u32s_nlen. change (nlen [a; l; m]) with 3. lia.
  - unfold pkt. cbn [skipn]. rewrite <- (app_nil_r (u32s [a; l; m])). change (N.to_nat 3) with (length [a; l; m]).
    apply words_u32s. repeat constructor; assumption.
Qed.

Lemma dev_command_write c a l : no_faults c -> a < U32 -> l < U32 -> in_range c a l = true ->
  dev_command c (CT_WRITE_MEMORY :: CF_HAS_DATA_PHASE :: 0 :: 3 :: u32s [a; l; 0]) =
  (with_phase (log_cmd c (CT_WRITE_MEMORY, CF_HAS_DATA_PHASE, [a; l; 0])) (mkPhase CT_WRITE_MEMORY l [] 0 a S_OK), generic S_OK CT_WRITE_MEMORY, None).
Proof.
  intros [Hfc Hff] Ha Hl Hr. unfold dev_command.
  destruct (pkt3_words CT_WRITE_MEMORY CF_HAS_DATA_PHASE a l 0 Ha Hl) as [H1 H2]; [reflexivity|].
  cbv zeta in H1, H2. cbn [nth]. rewrite H1, H2. cbn [nth].
  cbn [upd_core dc_fail_cmd dc_fail_final dc_mem dc_props dc_fuses dc_phase dc_cmds dc_base].
  rewrite Hfc, Hff. cbn [assoc assocd].
  change ((CT_WRITE_MEMORY =? 1) || (CT_WRITE_MEMORY =? 13)) with false. cbv iota.
  change (CT_WRITE_MEMORY =? 2) with false. cbv iota. change (CT_WRITE_MEMORY =? 3) with false. cbv iota.
  change (CT_WRITE_MEMORY =? 4) with true. cbv iota.
  match goal with |- context [in_range ?x a l] => change (in_range x a l) with (in_range c a l) end.
  rewrite Hr. reflexivity.
Qed.

Lemma dev_command_read c a l : no_faults c -> a < U32 -> l < U32 -> in_range c a l = true ->
  dev_command c (CT_READ_MEMORY :: CF_NONE :: 0 :: 3 :: u32s [a; l; 0]) =
  (log_cmd c (CT_READ_MEMORY, CF_NONE, [a; l; 0]), response RT_READ_MEMORY [S_OK; l], Some (mem_get c a l, (CT_READ_MEMORY, S_OK))).
Proof.
  intros [Hfc Hff] Ha Hl Hr. unfold dev_command.
  destruct (pkt3_words CT_READ_MEMORY CF_NONE a l 0 Ha Hl) as [H1 H2]; [reflexivity|].
  cbv zeta in H1, H2. cbn [nth]. rewrite H1, H2. cbn [nth].
  cbn [upd_core dc_fail_cmd dc_fail_final dc_mem dc_props dc_fuses dc_phase dc_cmds dc_base].
  rewrite Hfc, Hff. cbn [assoc assocd].
  change ((CT_READ_MEMORY =? 1) || (CT_READ_MEMORY =? 13)) with false. cbv iota.
  change (CT_READ_MEMORY =? 2) with false. cbv iota. change (CT_READ_MEMORY =? 3) with true. cbv iota.
  match goal with |- context [in_range ?x a l] => change (in_range x a l) with (in_range c a l) end.
  rewrite Hr. reflexivity.
Qed.

Section Live4.
  Notation LE := (senv sdev).
  Notation LI := (serial_iface sdev sdev_recv).
  Variable ce : bool.

  Definition live_env (c : dcore) (q : list (list N)) (i : list N) (out cons : list (list N)) : LE :=
    mkSenv sdev (mkSdev c q) i out cons.

  (* _process_cmd against the reference device *)
  Lemma process_cmd_live p b rs c st mps out cons :
    pkt_bytes p = ROk b -> b <> [] -> nlen b < 65536 -> cmd_first c b <> [] -> nlen (cmd_first c b) < 65536 ->
    parse_cmd_response (cmd_first c b) = ROk rs ->
    exists out' cons',
    process_cmd LE LI ce p (mkMbs LE st mps (live_env c [] [] out cons)) =
    finish_cmd LE ce rs (mkMbs LE st mps (live_env (cmd_core c b) (tl (cmd_queue c b)) (hd [] (cmd_queue c b)) out' cons')).
  Proof.
    intros Hb Hne Hl Hf Hfl Hp. unfold process_cmd, lift. cbn [mb_env]. rewrite Hb. unfold mlift.
    unfold mbind at 1. cbn [i_write_command i_read serial_iface]. unfold live_env.
    pose proof (exchange_live c b out cons Hne Hl Hf Hfl) as X. unfold mbind in X. unfold mbind. rewrite X.
    unfold parse_rx. rewrite Hp. unfold mret, set_env. cbn [mb_status mb_mps]. eexists. eexists. reflexivity.
  Qed.

  (* _send_data against the reference device in an outgoing data phase *)
  Lemma send_data_live tag chunks c ph st mps out cons :
    tag <> CT_NO_COMMAND -> Forall chunk_ok chunks -> chunks <> [] -> dc_phase c = Some ph ->
    ph_expected ph = nlen (ph_buf ph) + nlen (concat chunks) -> ph_fin ph = S_OK -> ph_tag ph < U32 ->
    exists out' cons',
    send_data LE LI ce false tag chunks (mkMbs LE st mps (live_env c [] [] out cons)) =
    (ROk true, mkMbs LE SC_SUCCESS mps (live_env (phase_done c (ph_add ph (concat chunks))) [] [] out' cons')).
  Proof.
    intros Htag Hc Hne Hph Hex Hfin Htg. unfold send_data.
    destruct (tag =? CT_NO_COMMAND) eqn:E; [apply N.eqb_eq in E; contradiction|]. cbn [negb].
    unfold lift at 1. cbn [mb_env]. unfold live_env.
    destruct (write_chunks_live false chunks c ph out cons Hc Hne Hph Hex) as (o1 & c1 & W). rewrite W.
    unfold set_env at 1. cbn [mb_status mb_mps]. unfold lift. cbn [mb_env i_read serial_iface].
    rewrite <- (app_nil_r (mk_frame FP_CMD (generic (ph_fin ph) (ph_tag ph)))).
    rewrite s_read_frame; [|discriminate|discriminate|rewrite generic_nlen; reflexivity].
    cbv zeta. change (FP_CMD =? FP_CMD) with true. cbv iota. unfold parse_rx. rewrite Hfin.
    rewrite parse_generic by (first [reflexivity|assumption]).
    unfold mret, after_ack. rewrite sdev_recv_ack. cbn [fst snd app]. unfold set_env. cbn [mb_status mb_mps].
    unfold mbind, put_status, generic_resp. cbn [r_status set_status mb_mps mb_env]. change (negb (S_OK =? SC_SUCCESS)) with false.
    cbv iota. unfold mret. eexists. eexists. reflexivity.
  Qed.
End Live4.

Section Live5.
  Notation LE := (senv sdev).
  Notation LI := (serial_iface sdev sdev_recv).
  Variable ce : bool.

  Definition wf_dev (c : dcore) : Prop :=
    no_faults c /\ dc_phase c = None /\ 0 < dc_mps c /\ dc_mps c < 65536 /\ dc_base c + nlen (dc_mem c) <= U32.
  Definition idle (st : N) (c : dcore) (out cons : list (list N)) : mbs LE :=
    mkMbs LE st (Some (dc_mps c)) (live_env c [] [] out cons).

  (* the device after a successful write_memory(a, data) *)
  Definition write_ph (a : N) (data : list N) : phase := mkPhase CT_WRITE_MEMORY (nlen data) [] 0 a S_OK.
  Definition after_write (c : dcore) (a : N) (data : list N) : dcore :=
    phase_done (with_phase (log_cmd c (CT_WRITE_MEMORY, CF_HAS_DATA_PHASE, [a; nlen data; 0])) (write_ph a data))
               (ph_add (write_ph a data) data).
  Definition after_read (c : dcore) (a l : N) : dcore := log_cmd c (CT_READ_MEMORY, CF_NONE, [a; l; 0]).

  Lemma pkt3_bytes tag flags a l : a < U32 -> l < U32 ->
    pkt_bytes (tag, flags, [a; l; 0]) = ROk (tag :: flags :: 0 :: 3 :: u32s [a; l; 0]).
  Proof.
    intros Ha Hl. unfold pkt_bytes. cbn [existsb]. fold U32.
    replace (U32 <=? a) with false by (symmetry; apply N.leb_gt; exact Ha).
    replace (U32 <=? l) with false by (symmetry; apply N.leb_gt; exact Hl). reflexivity.
  Qed.
  Lemma pkt3_nlen tag flags a l m : nlen (tag :: flags :: 0 :: 3 :: u32s [a; l; m]) = 16.
  Proof. rewrite !nlen_cons, u32s_nlen. reflexivity. Qed.

  Lemma chunks_ok m (data : list N) : 0 < m -> m < 65536 -> Forall chunk_ok (chunksN m data).
  Proof.
    intros H0 H1. destruct (chunksN_spec m data H0) as [_ F]. eapply Forall_impl; [|exact F].
    intros ch [Hne Hl]. split; [exact Hne|lia].
  Qed.

  (* FAULTFREE, write: the bytes reach the device memory once, in order; True is returned, status_code is SUCCESS *)
  Lemma write_memory_live fuel c a data st out cons :
    wf_dev c -> a < U32 -> nlen data < U32 -> data <> [] -> in_range c a (nlen data) = true ->
    exists out' cons',
    api LE LI ce fuel (Call 4 [a; 0] data) (idle st c out cons) =
    (ROk (AVBool true), idle SC_SUCCESS (after_write c a data) out' cons').
  Proof.
    intros (Hnf & Hph & Hm0 & Hm1 & Hsz) Ha Hl Hne Hr.
    unfold api. cbn [nth]. unfold cmd_data_out, pkt_write_memory. change (clamp_down_memory_id 0) with 0.
    unfold mbind at 1. unfold split_data. change NEED_DATA_SPLIT with true. cbv iota.
    unfold mbind at 1. unfold get_max_packet_size, idle. cbn [mb_mps].
    destruct (dc_mps c =? 0) eqn:E0; [apply N.eqb_eq in E0; lia|]. unfold mret.
    unfold mbind at 1.
    set (b := CT_WRITE_MEMORY :: CF_HAS_DATA_PHASE :: 0 :: 3 :: u32s [a; nlen data; 0]).
    assert (Hdc := dev_command_write c a (nlen data) Hnf Ha Hl Hr). fold b in Hdc.
    assert (Hfirst : cmd_first c b = generic S_OK CT_WRITE_MEMORY) by (unfold cmd_first; rewrite Hdc; reflexivity).
    assert (Hz : dev_zero_phase (fst (fst (dev_command c b))) = (fst (fst (dev_command c b)), None)).
    { rewrite Hdc. cbn [fst]. unfold dev_zero_phase. rewrite with_phase_phase. cbn [ph_expected].
      destruct (nlen data =? 0) eqn:E; [apply N.eqb_eq, nlen_0 in E; contradiction|reflexivity]. }
    assert (Hcore : cmd_core c b = with_phase (log_cmd c (CT_WRITE_MEMORY, CF_HAS_DATA_PHASE, [a; nlen data; 0])) (write_ph a data)).
    { unfold cmd_core. rewrite Hz, Hdc. reflexivity. }
    assert (Hq : cmd_queue c b = []).
    { unfold cmd_queue. rewrite Hz, Hdc. reflexivity. }
    destruct (process_cmd_live ce (CT_WRITE_MEMORY, CF_HAS_DATA_PHASE, [a; nlen data; 0]) b (generic_resp S_OK CT_WRITE_MEMORY) c st (Some (dc_mps c)) out cons)
      as (o1 & c1 & P).
    { apply pkt3_bytes; assumption. } { discriminate. } { unfold b. rewrite pkt3_nlen. reflexivity. }
    { rewrite Hfirst. discriminate. } { rewrite Hfirst, generic_nlen. reflexivity. }
    { rewrite Hfirst. apply parse_generic; reflexivity. }
    rewrite P. rewrite Hcore, Hq. cbn [hd tl].
    unfold finish_cmd, generic_resp. cbn [r_status set_status mb_status mb_mps mb_env].
    change (negb (S_OK =? SC_SUCCESS)) with false. rewrite andb_false_r. unfold is_success. cbn [r_status].
    change (S_OK =? SC_SUCCESS) with true. cbv iota. cbn [pkt_tag fst].
    unfold mbind at 1.
    destruct (send_data_live ce CT_WRITE_MEMORY (chunksN (dc_mps c) data)
                (with_phase (log_cmd c (CT_WRITE_MEMORY, CF_HAS_DATA_PHASE, [a; nlen data; 0])) (write_ph a data)) (write_ph a data)
                S_OK (Some (dc_mps c)) o1 c1) as (o2 & c2 & S).
    { discriminate. } { apply chunks_ok; assumption. }
    { destruct (chunksN_spec (dc_mps c) data Hm0) as [Hc _]. intros Hn. rewrite Hn in Hc. simpl in Hc. now subst data. }
    { apply with_phase_phase. }
    { destruct (chunksN_spec (dc_mps c) data Hm0) as [Hc _]. rewrite Hc. reflexivity. }
    { reflexivity. } { reflexivity. }
    unfold set_status. cbn [mb_status mb_mps mb_env]. rewrite S. unfold mret.
    destruct (chunksN_spec (dc_mps c) data Hm0) as [Hc _]. rewrite Hc.
    exists o2, c2. unfold idle, after_write. rewrite phase_done_with.
    replace (dc_mps (phase_done _ _)) with (dc_mps c); [reflexivity|].
    unfold phase_done, log_cmd, ph_add, write_ph. cbn. destruct c; reflexivity.
  Qed.
End Live5.

Section Live6.
  Notation LE := (senv sdev).
  Notation LI := (serial_iface sdev sdev_recv).
  Variable ce : bool.

  Lemma mem_get_nlen c a l : in_range c a l = true -> nlen (mem_get c a l) = l.
  Proof.
    unfold in_range, mem_get. intros H. apply andb_true_iff in H. destruct H as [H1 H2].
    apply N.leb_le in H1, H2. rewrite firstnN_firstn, skipnN_skipn. unfold nlen in *.
    rewrite firstn_length, skipn_length. lia.
  Qed.
  Lemma firstnN_all {A} (l : list A) : firstnN (nlen l) l = l.
  Proof. pose proof (firstnN_app_exact l []) as F. now rewrite app_nil_r in F. Qed.

  (* FAULTFREE, read: the bytes returned are exactly the device's memory bytes, completely *)
  Lemma read_memory_live fuel c a l st out cons :
    wf_dev c -> a < U32 -> l < U32 -> in_range c a l = true ->
    (length (chunksN (dc_mps c) (mem_get c a l)) < fuel)%nat ->
    exists out' cons',
    api LE LI ce fuel (Call 3 [a; l; 0] []) (idle st c out cons) =
    (ROk (AVBytes (mem_get c a l)), idle SC_SUCCESS (after_read c a l) out' cons').
  Proof.
    intros (Hnf & Hph & Hm0 & Hm1 & Hsz) Ha Hl Hr Hfuel.
    unfold api. cbn [nth]. unfold read_memory. cbn [i_usb serial_iface andb].
    unfold cmd_data_in, pkt_read_memory. change (clamp_down_memory_id 0) with 0.
    unfold mbind at 1.
    set (b := CT_READ_MEMORY :: CF_NONE :: 0 :: 3 :: u32s [a; l; 0]).
    assert (Hdc := dev_command_read c a l Hnf Ha Hl Hr). fold b in Hdc.
    assert (Hfirst : cmd_first c b = response RT_READ_MEMORY [S_OK; l]) by (unfold cmd_first; rewrite Hdc; reflexivity).
    assert (Hz : dev_zero_phase (fst (fst (dev_command c b))) = (fst (fst (dev_command c b)), None)).
    { rewrite Hdc. cbn [fst]. unfold dev_zero_phase. change (dc_phase (log_cmd c _)) with (dc_phase c). rewrite Hph. reflexivity. }
    assert (Hcore : cmd_core c b = after_read c a l) by (unfold cmd_core; rewrite Hz, Hdc; reflexivity).
    assert (Hq : cmd_queue c b = in_frames (chunksN (dc_mps c) (mem_get c a l)) S_OK CT_READ_MEMORY).
    { unfold cmd_queue. rewrite Hcore, Hz, Hdc. reflexivity. }
    destruct (process_cmd_live ce (CT_READ_MEMORY, CF_NONE, [a; l; 0]) b (mkResp 3 RT_READ_MEMORY S_OK l [] []) c st (Some (dc_mps c)) out cons)
      as (o1 & c1 & P).
    { apply pkt3_bytes; assumption. } { discriminate. } { unfold b. rewrite pkt3_nlen. reflexivity. }
    { rewrite Hfirst. discriminate. } { rewrite Hfirst, response_nlen. reflexivity. }
    { rewrite Hfirst. apply parse_readmem; [reflexivity|exact Hl]. }
    unfold idle. rewrite P. rewrite Hcore, Hq.
    unfold finish_cmd. cbn [r_status set_status mb_status mb_mps mb_env].
    change (negb (S_OK =? SC_SUCCESS)) with false. rewrite andb_false_r. unfold is_success. cbn [r_status r_cls r_second].
    change (S_OK =? SC_SUCCESS) with true. cbv iota. change (3 =? 3) with true. cbv iota. cbn [pkt_tag fst].
    unfold mbind at 1. unfold read_data. unfold mbind at 1. unfold live_env.
    destruct (read_loop_live S_OK CT_READ_MEMORY) with (chunks := chunksN (dc_mps c) (mem_get c a l)) (acc := @nil (list N)) (fuel := fuel)
      (c := after_read c a l) (out := o1) (cons := c1) (st := S_OK) (mps := Some (dc_mps c)) as (o2 & c2 & L);
      [reflexivity|reflexivity|apply chunks_ok; assumption|exact Hfuel|].
    unfold set_status. cbn [mb_status mb_mps mb_env].
    rewrite L. cbn [concat rev app]. destruct (chunksN_spec (dc_mps c) (mem_get c a l) Hm0) as [Hc _]. rewrite Hc.
    unfold mbind at 1. unfold get_status. cbn [mb_status fst snd].
    rewrite mem_get_nlen by exact Hr. rewrite N.ltb_irrefl. change (negb (S_OK =? SC_SUCCESS)) with false. cbn [orb andb].
    unfold mret. replace (firstnN l (mem_get c a l)) with (mem_get c a l)
      by (rewrite <- (mem_get_nlen c a l Hr) at 2; now rewrite firstnN_all).
    exists o2, c2. reflexivity.
  Qed.
End Live6.

(* ------------------------------------------------------------------ FAULTFREE_REFINES_SPEC over call sequences *)
Section Live7.
  Notation LE := (senv sdev).
  Notation LI := (serial_iface sdev sdev_recv).
  Variable ce : bool.

  Lemma mem_put_nlen c a d : in_range c a (nlen d) = true -> nlen (mem_put c a d) = nlen (dc_mem c).
  Proof.
    unfold in_range, mem_put. intros H. apply andb_true_iff in H. destruct H as [H1 H2]. apply N.leb_le in H1, H2.
    rewrite !nlen_app, firstnN_firstn, skipnN_skipn. unfold nlen in *. rewrite firstn_length, skipn_length. lia.
  Qed.

  (* the abstract effect of a successful write: the bytes are spliced into the device memory at `a`, nothing else changes *)
  Lemma after_write_mem c a d : dc_mem (after_write c a d) = mem_put c a d.
  Proof.
    unfold after_write. rewrite phase_done_with. unfold phase_done, write_ph, ph_add. cbn [ph_fin ph_kind ph_arg ph_expected ph_buf app].
    change (negb (S_OK =? S_OK)) with false. cbv iota. change (0 =? 0) with true. cbv iota.
    rewrite firstnN_all. destruct c; reflexivity.
  Qed.
  Lemma after_write_frame c a d :
    dc_base (after_write c a d) = dc_base c /\ dc_mps (after_write c a d) = dc_mps c /\ dc_props (after_write c a d) = dc_props c /\
    dc_fuses (after_write c a d) = dc_fuses c /\ dc_phase (after_write c a d) = None /\
    dc_fail_cmd (after_write c a d) = dc_fail_cmd c /\ dc_fail_final (after_write c a d) = dc_fail_final c /\
    dc_cmds (after_write c a d) = (CT_WRITE_MEMORY, CF_HAS_DATA_PHASE, [a; nlen d; 0]) :: dc_cmds c.
  Proof.
    unfold after_write. rewrite phase_done_with. unfold phase_done, write_ph, ph_add. cbn [ph_fin ph_kind ph_arg ph_expected ph_buf app].
    change (negb (S_OK =? S_OK)) with false. cbv iota. change (0 =? 0) with true. cbv iota. destruct c; repeat split; reflexivity.
  Qed.

  Lemma wf_after_write c a d : wf_dev c -> in_range c a (nlen d) = true -> wf_dev (after_write c a d).
  Proof.
    intros ((Hf1 & Hf2) & Hph & Hm0 & Hm1 & Hsz) Hr.
    destruct (after_write_frame c a d) as (Eb & Em & _ & _ & Ep & Ec & Ef & _).
    unfold wf_dev, no_faults. rewrite Eb, Em, Ep, Ec, Ef, after_write_mem, mem_put_nlen by exact Hr. auto 10.
  Qed.
  Lemma wf_after_read c a l : wf_dev c -> wf_dev (after_read c a l).
  Proof. intros H. exact H. Qed.

  Inductive wr : Type := W (a : N) (data : list N) | R (a l : N).
  Definition wr_call (x : wr) : call :=
    match x with W a d => Call 4 [a; 0] d | R a l => Call 3 [a; l; 0] [] end.
  Definition wr_ok (fuel : nat) (c : dcore) (x : wr) : Prop :=
    match x with
    | W a d => a < U32 /\ nlen d < U32 /\ d <> [] /\ in_range c a (nlen d) = true
    | R a l => a < U32 /\ l < U32 /\ in_range c a l = true /\ (length (chunksN (dc_mps c) (mem_get c a l)) < fuel)%nat
    end.
  (* SPEC: what the protocol defines, with no transport at all *)
  Definition spec_dev (c : dcore) (x : wr) : dcore :=
    match x with W a d => after_write c a d | R a l => after_read c a l end.
  Definition spec_res (c : dcore) (x : wr) : result apival * N :=
    match x with W _ _ => (ROk (AVBool true), SC_SUCCESS) | R a l => (ROk (AVBytes (mem_get c a l)), SC_SUCCESS) end.
  Fixpoint spec_run (c : dcore) (xs : list wr) : list (result apival * N) * dcore :=
    match xs with [] => ([], c) | x :: t => let '(rs, c') := spec_run (spec_dev c x) t in (spec_res c x :: rs, c') end.
  Fixpoint all_ok (fuel : nat) (c : dcore) (xs : list wr) : Prop :=
    match xs with [] => True | x :: t => wr_ok fuel c x /\ all_ok fuel (spec_dev c x) t end.

  Lemma faultfree_refines_spec_lemma fuel : forall xs c st out cons,
    wf_dev c -> all_ok fuel c xs ->
    exists out' cons' st',
    session LE LI ce fuel (map wr_call xs) (idle st c out cons) =
    (fst (spec_run c xs), idle st' (snd (spec_run c xs)) out' cons').
  Proof.
    induction xs as [|x t IH]; intros c st out cons Hwf Hok.
    - exists out, cons, st. reflexivity.
    - destruct Hok as [Hx Ht]. cbn [map session spec_run].
      destruct x as [a d|a l]; cbn [wr_call wr_ok spec_dev spec_res] in *.
      + destruct Hx as (Ha & Hl & Hne & Hr).
        destruct (write_memory_live ce fuel c a d st out cons Hwf Ha Hl Hne Hr) as (o1 & c1 & Hw). rewrite Hw.
        destruct (IH (after_write c a d) SC_SUCCESS o1 c1 (wf_after_write c a d Hwf Hr) Ht) as (o2 & c2 & st2 & Hs).
        rewrite Hs. destruct (spec_run (after_write c a d) t) as [rs c']. cbn [fst snd]. exists o2, c2, st2. reflexivity.
      + destruct Hx as (Ha & Hl & Hr & Hfu).
        destruct (read_memory_live ce fuel c a l st out cons Hwf Ha Hl Hr Hfu) as (o1 & c1 & Hw). rewrite Hw.
        destruct (IH (after_read c a l) SC_SUCCESS o1 c1 (wf_after_read c a l Hwf) Ht) as (o2 & c2 & st2 & Hs).
        rewrite Hs. destruct (spec_run (after_read c a l) t) as [rs c']. cbn [fst snd]. exists o2, c2, st2. reflexivity.
  Qed.

  (* non-vacuity: a device and a call list that satisfy the hypotheses *)
  Example faultfree_instance :
    let c := mkCore 4096 (repeat 7 64) 8 [(11, [8])] [] [] [] [] [] [] [] None [] in
    wf_dev c /\ all_ok 100 c [W 4100 [1; 2; 3; 4; 5; 6; 7; 8; 9; 10; 11]; R 4098 20].
  Proof. vm_compute. repeat split; try discriminate; try reflexivity; try lia. Qed.
End Live7.

(* ------------------------------------------------------------------ HOST_TERMINATES: on a scripted stream no loop runs out of fuel *)
Section Terminates.
  Notation SE := (senv unit).
  Notation SI := (serial_iface unit null_recv).
  Variable ce : bool.

  Definition availe (e : SE) : nat := length (se_in unit e).
  Definition nohang {A} (r : result A) : Prop := match r with RExn XHang => False | _ => True end.
  (* an environment computation never hangs and never makes the unread input longer *)
  Definition esafe {A} (m : M SE A) : Prop :=
    forall e r e', m e = (r, e') -> nohang r /\ (availe e' <= availe e)%nat.
  (* ... and consumes input when it succeeds *)
  Definition eprogress {A} (m : M SE A) : Prop :=
    forall e a e', m e = (ROk a, e') -> (availe e' < availe e)%nat.

  Lemma esafe_ret {A} (a : A) : esafe (mret a).
  Proof. intros e r e' H. injection H as <- <-. split; [exact I|apply le_n]. Qed.
  Lemma esafe_raise {A} x : x <> XHang -> esafe (@mraise SE A x).
  Proof. intros Hx e r e' H. injection H as <- <-. split; [destruct x; simpl; auto|apply le_n]. Qed.
  Lemma esafe_bind {A B} (m : M SE A) (f : A -> M SE B) : esafe m -> (forall a, esafe (f a)) -> esafe (mbind m f).
  Proof.
    intros Hm Hf e r e' H. unfold mbind in H. destruct (m e) as [[a|x] e1] eqn:E.
    - destruct (Hm _ _ _ E) as [_ L1]. destruct (Hf a _ _ _ H) as [N L2]. split; [exact N|lia].
    - injection H as <- <-. destruct (Hm _ _ _ E) as [N L]. split; [destruct x; simpl in *; auto|exact L].
  Qed.
  Lemma esafe_lift {A} (r : result A) : nohang r -> esafe (mlift r).
  Proof. intros Hr e r' e' H. injection H as <- <-. split; [exact Hr|apply le_n]. Qed.

  Lemma sread_safe n : esafe (sread unit n) /\ eprogress (sread unit n).
  Proof.
    split.
    - intros e r e' H. unfold sread in H. destruct (firstnN n (se_in unit e)) eqn:F.
      + injection H as <- <-. split; [exact I|apply le_n].
      + injection H as <- <-. split; [exact I|]. unfold availe. cbn [se_in]. rewrite skipnN_skipn, skipn_length. lia.
    - intros e a e' H. unfold sread in H. destruct (firstnN n (se_in unit e)) eqn:F; [discriminate|].
      injection H as <- <-. unfold availe. cbn [se_in]. rewrite skipnN_skipn, skipn_length.
      rewrite firstnN_firstn in F. destruct (N.to_nat n); [rewrite firstn_O in F; discriminate|].
      destruct (se_in unit e); [discriminate|]. simpl. lia.
  Qed.
  Lemma swrite_safe w : esafe (swrite unit null_recv w).
  Proof.
    intros e r e' H. unfold swrite, null_recv in H. injection H as <- <-. split; [exact I|].
    unfold availe. cbn [se_in]. rewrite app_nil_r. apply le_n.
  Qed.

  Lemma wait_loop_safe : forall fuel e r e', (availe e < fuel)%nat -> s_wait_loop unit fuel e = (r, e') ->
    nohang r /\ (availe e' <= availe e)%nat /\ (forall h, r = ROk h -> (availe e' < availe e)%nat).
  Proof.
    induction fuel as [|f IH]; intros e r e' Hf H; [lia|].
    cbn [s_wait_loop] in H. unfold mbind in H. destruct (sread unit 1 e) as [[bs|x] e1] eqn:R.
    - destruct (sread_safe 1) as [S1 P1]. pose proof (P1 _ _ _ R) as L.
      destruct (memb (le_dec bs) FRAME_START_NOT_READY_LIST).
      + destruct (IH e1 r e' ltac:(lia) H) as (N & L2 & P2). split; [exact N|]. split; [lia|]. intros h Hh. specialize (P2 h Hh). lia.
      + injection H as <- <-. split; [exact I|]. split; [lia|]. intros; lia.
    - injection H as <- <-. destruct (sread_safe 1) as [S1 _]. destruct (S1 _ _ _ R) as [N L]. split; [destruct x; simpl in *; auto|]. split; [exact L|]. discriminate.
  Qed.
  Lemma wait_safe : esafe (s_wait_for_data unit) /\ eprogress (s_wait_for_data unit).
  Proof.
    split.
    - intros e r e' H. unfold s_wait_for_data in H. apply wait_loop_safe in H; [tauto|unfold availe; lia].
    - intros e a e' H. unfold s_wait_for_data in H. apply wait_loop_safe in H; [|unfold availe; lia]. destruct H as (_ & _ & P). eapply P; eauto.
  Qed.

  Lemma header_safe ex : esafe (s_read_frame_header unit ex) /\ eprogress (s_read_frame_header unit ex).
  Proof.
    assert (S : esafe (s_read_frame_header unit ex)).
    { unfold s_read_frame_header. apply esafe_bind; [apply wait_safe|]. intros h.
      destruct (negb _); [apply esafe_raise; discriminate|].
      apply esafe_bind.
      - destruct (h =? FP_ACK); [apply esafe_ret|]. apply esafe_bind; [apply sread_safe|]. intros; apply esafe_ret.
      - intros ft. destruct (ft =? FP_ABORT); [apply esafe_raise; discriminate|].
        destruct ex; [|apply esafe_ret]. destruct (_ =? n); [apply esafe_ret|apply esafe_raise; discriminate]. }
    split; [exact S|].
    intros e a e' H. unfold s_read_frame_header, mbind in H.
    destruct (s_wait_for_data unit e) as [[h|x] e1] eqn:W; [|discriminate].
    destruct wait_safe as [_ PW]. pose proof (PW _ _ _ W) as L1.
    destruct (negb _); [discriminate|].
    assert (L2 : (availe e' <= availe e1)%nat).
    { destruct (h =? FP_ACK).
      - unfold mret in H. destruct (h =? FP_ABORT); [discriminate|].
        destruct ex; [destruct (_ =? n)|]; try discriminate; injection H as _ <-; apply le_n.
      - destruct (sread unit 1 e1) as [[bs|x] e2] eqn:R; [|discriminate].
        destruct (sread_safe 1) as [S1 _]. destruct (S1 _ _ _ R) as [_ L]. unfold mret in H.
        destruct (le_dec bs =? FP_ABORT); [discriminate|].
        destruct ex; [destruct (_ =? n)|]; try discriminate; injection H as _ <-; exact L. }
    lia.
  Qed.

  Lemma send_ack_safe : esafe (s_send_ack unit null_recv).
  Proof. apply swrite_safe. Qed.
  Lemma parse_rx_safe p : esafe (@parse_rx SE p).
  Proof.
    unfold parse_rx. destruct (parse_cmd_response p) as [r|x] eqn:P; [apply esafe_ret|]. apply esafe_raise.
    intros ->. unfold parse_cmd_response in P.
    destruct (nlen p <? CMD_HEADER_SIZE); [discriminate|]. destruct (nlen (skipn 4 p) <? 4); [discriminate|].
    destruct (assoc (assocd (nth 0 p 0) known_response 0) response_shape) as [[[[[kind nfix] nbefore] star] second]|]; [|discriminate].
    destruct (if kind =? 2 then _ else _); [discriminate|]. destruct (if star =? 1 then _ else _); discriminate.
  Qed.

  Lemma s_read_safe : esafe (s_read unit null_recv).
  Proof.
    unfold s_read. apply esafe_bind; [apply header_safe|]. intros hf.
    apply esafe_bind; [apply sread_safe|]. intros lb. apply esafe_bind; [apply sread_safe|]. intros cb.
    destruct (le_dec lb =? 0).
    - apply esafe_bind; [apply send_ack_safe|]. intros; apply esafe_raise; discriminate.
    - apply esafe_bind; [apply sread_safe|]. intros d. apply esafe_bind; [apply send_ack_safe|]. intros _.
      destruct (negb _); [apply esafe_raise; discriminate|]. destruct (snd hf =? FP_CMD); [apply parse_rx_safe|apply esafe_ret].
  Qed.
  Lemma wait_loop_exn : forall fuel e x e', (availe e < fuel)%nat -> s_wait_loop unit fuel e = (RExn x, e') -> x = XTimeout.
  Proof.
    induction fuel as [|f IH]; intros e x e' Hf H; [lia|].
    cbn [s_wait_loop] in H. unfold mbind in H. destruct (sread unit 1 e) as [[bs|y] e1] eqn:R.
    - destruct (sread_safe 1) as [_ P1]. pose proof (P1 _ _ _ R) as L.
      destruct (memb (le_dec bs) FRAME_START_NOT_READY_LIST); [eapply IH; [|exact H]; lia|discriminate].
    - injection H as <- <-. apply sread_exn in R. tauto.
  Qed.

  (* a header read that succeeds, or that reports an ABORT frame, has consumed input *)
  Lemma header_abort_progress ex e e' : s_read_frame_header unit ex e = (RExn XAbort, e') -> (availe e' < availe e)%nat.
  Proof.
    intros Hd. unfold s_read_frame_header, mbind in Hd.
    destruct (s_wait_for_data unit e) as [[h|x] e1] eqn:W.
    - destruct wait_safe as [_ PW]. pose proof (PW _ _ _ W) as L1.
      destruct (negb _); [discriminate|].
      destruct (h =? FP_ACK).
      + unfold mret in Hd. destruct (h =? FP_ABORT); [injection Hd as <-; exact L1|].
        destruct ex; [destruct (_ =? n)|]; discriminate.
      + destruct (sread unit 1 e1) as [[bs|x] e2] eqn:R.
        * destruct (sread_safe 1) as [S1 _]. destruct (S1 _ _ _ R) as [_ L]. unfold mret in Hd.
          destruct (le_dec bs =? FP_ABORT); [injection Hd as <-; lia|].
          destruct ex; [destruct (_ =? n)|]; discriminate.
        * injection Hd as -> <-. apply sread_exn in R. destruct R; discriminate.
    - injection Hd as -> <-. unfold s_wait_for_data in W. apply wait_loop_exn in W; [discriminate|unfold availe; lia].
  Qed.

  Definition s_read_tail (hf : N * N) : M SE rx :=
    lb <- sread unit 2;; cb <- sread unit 2;;
    (if le_dec lb =? 0 then s_send_ack unit null_recv;;; mraise XAbort
     else data <- sread unit (le_dec lb);; s_send_ack unit null_recv;;;
          (if negb (le_dec cb =? frame_crc (snd hf) data) then mraise XConn
           else if snd hf =? FP_CMD then parse_rx data else mret (RxData data))).
  Lemma s_read_tail_safe hf : esafe (s_read_tail hf).
  Proof.
    unfold s_read_tail. apply esafe_bind; [apply sread_safe|]. intros lb. apply esafe_bind; [apply sread_safe|]. intros cb.
    destruct (le_dec lb =? 0).
    - apply esafe_bind; [apply send_ack_safe|]. intros; apply esafe_raise; discriminate.
    - apply esafe_bind; [apply sread_safe|]. intros d. apply esafe_bind; [apply send_ack_safe|]. intros _.
      destruct (negb _); [apply esafe_raise; discriminate|]. destruct (snd hf =? FP_CMD); [apply parse_rx_safe|apply esafe_ret].
  Qed.

  (* a read that delivers something, or that reports an abort, has consumed input *)
  Lemma s_read_progress e r e' : s_read unit null_recv e = (r, e') -> (exists v, r = ROk v) \/ r = RExn XAbort ->
    (availe e' < availe e)%nat.
  Proof.
    intros H Hr. change (s_read unit null_recv) with (hf <- s_read_frame_header unit None;; s_read_tail hf) in H.
    unfold mbind in H. destruct (s_read_frame_header unit None e) as [[hf|x] e1] eqn:Hd.
    - destruct (header_safe None) as [_ PH]. pose proof (PH _ _ _ Hd) as L1.
      destruct (s_read_tail_safe hf _ _ _ H) as [_ L2]. lia.
    - injection H as <- <-. destruct Hr as [[v Hv]|Hv]; [discriminate|]. injection Hv as ->.
      apply header_abort_progress in Hd. exact Hd.
  Qed.
End Terminates.

Section Terminates2.
  Notation SE := (senv unit).
  Notation SI := (serial_iface unit null_recv).
  Variable ce : bool.

  Definition avail (s : mbs SE) : nat := availe (mb_env SE s).
  Definition msafe {A} (fuel : nat) (m : M (mbs SE) A) : Prop :=
    forall s r s', (avail s < fuel)%nat -> m s = (r, s') -> nohang r /\ (avail s' <= avail s)%nat.

  Lemma msafe_ret {A} fuel (a : A) : msafe fuel (mret a).
  Proof. intros s r s' _ H. injection H as <- <-. split; [exact I|apply le_n]. Qed.
  Lemma msafe_raise {A} fuel x : x <> XHang -> msafe fuel (@mraise (mbs SE) A x).
  Proof. intros Hx s r s' _ H. injection H as <- <-. split; [destruct x; simpl; auto|apply le_n]. Qed.
  Lemma msafe_bind {A B} fuel (m : M (mbs SE) A) (f : A -> M (mbs SE) B) :
    msafe fuel m -> (forall a, msafe fuel (f a)) -> msafe fuel (mbind m f).
  Proof.
    intros Hm Hf s r s' Hs H. unfold mbind in H. destruct (m s) as [[a|x] s1] eqn:E.
    - destruct (Hm _ _ _ Hs E) as [_ L1]. destruct (Hf a s1 r s' ltac:(lia) H) as [N L2]. split; [exact N|lia].
    - injection H as <- <-. destruct (Hm _ _ _ Hs E) as [N L]. split; [destruct x; simpl in *; auto|exact L].
  Qed.
  Lemma msafe_lift {A} fuel (m : M SE A) : esafe m -> msafe fuel (lift SE m).
  Proof.
    intros Hm s r s' _ H. unfold lift in H. destruct (m (mb_env SE s)) as [r0 e1] eqn:E. injection H as <- <-.
    apply Hm in E. exact E.
  Qed.
  Lemma msafe_put fuel st : msafe fuel (put_status SE st).
  Proof. intros s r s' _ H. injection H as <- <-. split; [exact I|apply le_n]. Qed.
  Lemma msafe_get fuel : msafe fuel (get_status SE).
  Proof. intros s r s' _ H. injection H as <- <-. split; [exact I|apply le_n]. Qed.
  Lemma msafe_finish fuel rs : msafe fuel (finish_cmd SE ce rs).
  Proof.
    intros s r s' _ H. unfold finish_cmd in H. destruct (ce && negb (r_status rs =? SC_SUCCESS)); injection H as <- <-; (split; [exact I|apply le_n]).
  Qed.

  Lemma write_frame_safe t b : esafe (f <- mlift (create_frame t b);; s_send_frame unit null_recv f true).
  Proof.
    apply esafe_bind.
    - apply esafe_lift. unfold create_frame. destruct (65536 <=? nlen b); exact I.
    - intros f. unfold s_send_frame. apply esafe_bind; [apply swrite_safe|]. intros _.
      apply esafe_bind; [apply header_safe|]. intros; apply esafe_ret.
  Qed.
  Lemma i_write_command_safe b : esafe (i_write_command SI b).
  Proof. apply write_frame_safe. Qed.
  Lemma i_write_data_safe ab b : esafe (i_write_data SI ab b).
  Proof. apply write_frame_safe. Qed.
  Lemma i_read_safe : esafe (i_read SI).
  Proof. apply s_read_safe. Qed.

  Lemma process_cmd_safe fuel p : msafe fuel (process_cmd SE SI ce p).
  Proof.
    intros s r s' Hs H. unfold process_cmd in H.
    destruct (lift SE (b <- mlift (pkt_bytes p);; i_write_command SI b;;; i_read SI) s) as [r0 s1] eqn:L.
    assert (HL : nohang r0 /\ (avail s1 <= avail s)%nat).
    { eapply (msafe_lift fuel); [|exact Hs|exact L].
      apply esafe_bind; [apply esafe_lift; unfold pkt_bytes; destruct p as [[? ?] ?]; destruct (_ || _); exact I|].
      intros b. apply esafe_bind; [apply i_write_command_safe|]. intros _. apply i_read_safe. }
    destruct HL as [N0 L0].
    destruct r0 as [[d|rs]|x].
    - injection H as <- <-. split; [exact I|exact L0].
    - eapply (msafe_finish fuel) in H; [|lia]. destruct H; split; [assumption|lia].
    - destruct x; try (injection H as <- <-; split; [first [exact I|exact N0]|exact L0]).
      eapply (msafe_finish fuel) in H; [|unfold avail in *; cbn [set_status mb_env]; lia].
      destruct H as [N L1]. split; [exact N|]. unfold avail in *. cbn [set_status mb_env] in L1. lia.
  Qed.

  Lemma read_data_loop_safe tag : forall fuel acc s r s', (avail s < fuel)%nat ->
    read_data_loop SE SI tag fuel acc s = (r, s') -> nohang r /\ (avail s' <= avail s)%nat.
  Proof.
    induction fuel as [|f IH]; intros acc s r s' Hs H; [lia|].
    cbn [read_data_loop] in H.
    assert (Hh : forall v st, (avail st < f)%nat \/ True -> (avail st < f)%nat ->
      (match v with
       | RxData d => read_data_loop SE SI tag f (d :: acc)
       | RxResp rs => if r_cls rs =? 1
                      then put_status SE (r_status rs);;; (if r_second rs =? tag then mret (concat (rev acc), rs) else read_data_loop SE SI tag f acc)
                      else read_data_loop SE SI tag f acc
       end) st = (r, s') -> nohang r /\ (avail s' <= avail st)%nat).
    { intros v st _ Hst Hv. destruct v as [d|rs].
      - eapply IH; eauto.
      - destruct (r_cls rs =? 1).
        + unfold mbind, put_status in Hv. destruct (r_second rs =? tag).
          * injection Hv as <- <-. split; [exact I|apply le_n].
          * eapply IH in Hv; [|unfold avail in *; cbn [set_status mb_env]; exact Hst]. exact Hv.
        + eapply IH; eauto. }
    unfold lift in H. destruct (i_read SI (mb_env SE s)) as [r0 e1] eqn:R.
    pose proof (i_read_safe _ _ _ R) as [N0 L0].
    destruct r0 as [v|x].
    - assert (P : (availe e1 < availe (mb_env SE s))%nat) by (eapply s_read_progress; [exact R|left; eauto]).
      apply Hh in H; [|auto|unfold avail in *; cbn [set_env mb_env]; lia].
      destruct H as [N L]. split; [exact N|]. unfold avail in *. cbn [set_env mb_env] in L. lia.
    - destruct x; try (injection H as <- <-; split; [first [exact I|exact N0]|unfold avail; cbn [set_env set_status mb_env]; exact L0]).
      (* abort: one more read *)
      assert (P : (availe e1 < availe (mb_env SE s))%nat) by (eapply s_read_progress; [exact R|right; reflexivity]).
      unfold mbind in H. cbn [set_env mb_env] in H. destruct (i_read SI e1) as [r2 e2] eqn:R2.
      pose proof (i_read_safe _ _ _ R2) as [N2 L2].
      destruct r2 as [v|x2].
      + apply Hh in H; [|auto|unfold avail in *; cbn [set_env mb_env]; lia].
        destruct H as [N L]. split; [exact N|]. unfold avail in *. cbn [set_env mb_env] in L. lia.
      + injection H as <- <-. split; [destruct x2; simpl in *; auto|unfold avail; cbn [set_env mb_env]; lia].
  Qed.

  Lemma read_data_safe fuel tag len : msafe fuel (read_data SE SI ce fuel tag len).
  Proof.
    unfold read_data. apply msafe_bind.
    - intros s r s' Hs H. eapply read_data_loop_safe; eauto.
    - intros dr. apply msafe_bind; [apply msafe_get|]. intros st.
      destruct (_ || _); [|apply msafe_ret].
      apply msafe_bind; [apply msafe_put|]. intros _. destruct ce; [apply msafe_raise; discriminate|apply msafe_ret].
  Qed.

  Lemma write_chunks_safe ab : forall chunks, esafe (write_chunks SE SI ab chunks).
  Proof.
    induction chunks as [|c t IH]; [apply esafe_ret|]. cbn [write_chunks].
    apply esafe_bind; [apply i_write_data_safe|]. intros _. exact IH.
  Qed.

  Lemma send_data_safe fuel ab tag chunks : msafe fuel (send_data SE SI ce ab tag chunks).
  Proof.
    assert (G : forall all_sent v, msafe fuel
              (match v with
               | RxData _ => mraise XConn
               | RxResp rs => put_status SE (r_status rs);;;
                   (if negb (r_status rs =? SC_SUCCESS) then if ce then mraise (XCmd (r_status rs)) else mret false else mret all_sent)
               end)).
    { intros all_sent [d|rs]; [apply msafe_raise; discriminate|].
      apply msafe_bind; [apply msafe_put|]. intros _.
      destruct (negb _); [destruct ce; [apply msafe_raise; discriminate|apply msafe_ret]|apply msafe_ret]. }
    assert (X : forall all_sent x, x <> XHang -> msafe fuel
              (match x with
               | XTimeout => put_status SE SC_NO_RESPONSE;;; mraise XConn
               | _ => if is_spsdk_error x
                      then if negb (tag =? CT_NO_COMMAND)
                           then v <- lift SE (i_read SI);;
                                match v with
                                | RxData _ => mraise XConn
                                | RxResp rs => put_status SE (r_status rs);;;
                                    (if negb (r_status rs =? SC_SUCCESS) then if ce then mraise (XCmd (r_status rs)) else mret false else mret all_sent)
                                end
                           else put_status SE SC_SENDING_OPERATION_CONDITION_ERROR;;; mret all_sent
                      else mraise x
               end)).
    { intros all_sent x Hx.
      assert (T : msafe fuel (put_status SE SC_NO_RESPONSE;;; @mraise _ bool XConn))
        by (apply msafe_bind; [apply msafe_put|intros; apply msafe_raise; discriminate]).
      assert (Rd : msafe fuel (v <- lift SE (i_read SI);;
                                match v with
                                | RxData _ => mraise XConn
                                | RxResp rs => put_status SE (r_status rs);;;
                                    (if negb (r_status rs =? SC_SUCCESS) then if ce then mraise (XCmd (r_status rs)) else mret false else mret all_sent)
                                end))
        by (apply msafe_bind; [apply msafe_lift, i_read_safe|intros v; apply G]).
      assert (Se : msafe fuel (put_status SE SC_SENDING_OPERATION_CONDITION_ERROR;;; mret all_sent))
        by (apply msafe_bind; [apply msafe_put|intros; apply msafe_ret]).
      destruct x; cbn [is_spsdk_error]; try exact T; try (destruct (negb (tag =? CT_NO_COMMAND)); [exact Rd|exact Se]);
        try (apply msafe_raise; assumption). }
    intros s r s' Hs H. unfold send_data in H.
    destruct (lift SE (write_chunks SE SI ab chunks) s) as [r1 s1] eqn:W.
    pose proof (msafe_lift fuel _ (write_chunks_safe ab chunks) _ _ _ Hs W) as [N1 L1].
    destruct r1 as [[]|x].
    - destruct (negb (tag =? CT_NO_COMMAND)).
      + destruct (lift SE (i_read SI) s1) as [r2 s2] eqn:R2.
        assert (Hs1 : (avail s1 < fuel)%nat) by lia.
        pose proof (msafe_lift fuel _ i_read_safe _ _ _ Hs1 R2) as [N2 L2].
        destruct r2 as [v|x].
        * apply (G true v) in H; [|lia]. destruct H; split; [assumption|lia].
        * apply (X true x) in H; [|destruct x; simpl in *; auto; discriminate|lia]. destruct H; split; [assumption|lia].
      + injection H as <- <-. split; [exact I|exact L1].
    - apply (X false x) in H; [|destruct x; simpl in *; auto; discriminate|lia]. destruct H; split; [assumption|lia].
  Qed.
End Terminates2.

Section Terminates3.
  Notation SE := (senv unit).
  Notation SI := (serial_iface unit null_recv).
  Variable ce : bool.
  Variable fuel : nat.

  Ltac safe_step :=
    first [ apply msafe_ret | apply msafe_put | apply msafe_get | apply process_cmd_safe | apply read_data_safe
          | apply send_data_safe | (apply msafe_raise; discriminate) ].

  Lemma get_property_safe tag index : msafe fuel (get_property SE SI ce tag index).
  Proof.
    unfold get_property. apply msafe_bind; [safe_step|]. intros rs.
    destruct (r_status rs =? SC_SUCCESS); [destruct (r_cls rs =? 2)|]; safe_step.
  Qed.
  Lemma get_mps_safe : msafe fuel (get_max_packet_size SE SI ce).
  Proof.
    intros s r s' Hs H. unfold get_max_packet_size in H. destruct (mb_mps SE s).
    - injection H as <- <-. split; [exact I|apply le_n].
    - destruct (get_property SE SI ce PT_MAX_PACKET_SIZE 0 s) as [r0 s1] eqn:G.
      destruct (get_property_safe _ _ _ _ _ Hs G) as [Nh L].
      assert (U : forall v : N, nohang (ROk v) /\ (avail (set_mps SE s1 v) <= avail s)%nat) by (intros; split; [exact I|exact L]).
      destruct r0 as [[[|v t]|]|x]; try (injection H as <- <-; first [apply U | split; [exact I|exact L]]).
      destruct (is_mcuboot_error x); injection H as <- <-; [apply U|split; [destruct x; simpl in *; auto|exact L]].
  Qed.
  Lemma split_data_safe data : msafe fuel (split_data SE SI ce data).
  Proof.
    unfold split_data. destruct NEED_DATA_SPLIT; [|safe_step].
    apply msafe_bind; [apply get_mps_safe|]. intros m. destruct (m =? 0); safe_step.
  Qed.
  Lemma simple_safe p : msafe fuel (simple SE SI ce p).
  Proof. unfold simple. apply msafe_bind; [safe_step|]. intros; safe_step. Qed.
  Lemma cmd_data_out_safe ab p data : msafe fuel (cmd_data_out SE SI ce ab p data).
  Proof.
    unfold cmd_data_out. apply msafe_bind; [apply split_data_safe|]. intros ch.
    apply msafe_bind; [safe_step|]. intros rs. destruct (is_success rs); [|safe_step].
    apply msafe_bind; [safe_step|]. intros; safe_step.
  Qed.
  Lemma cmd_data_in_safe p cls : msafe fuel (cmd_data_in SE SI ce fuel p cls).
  Proof.
    unfold cmd_data_in. apply msafe_bind; [safe_step|]. intros rs. destruct (is_success rs); [|safe_step].
    destruct (r_cls rs =? cls); [|safe_step]. apply msafe_bind; [safe_step|]. intros; safe_step.
  Qed.
  Lemma read_memory_safe a l m fast : msafe fuel (read_memory SE SI ce fuel a l m fast).
  Proof. unfold read_memory. cbn [i_usb serial_iface andb]. apply cmd_data_in_safe. Qed.
  Lemma efuse_read_once_safe index : msafe fuel (efuse_read_once SE SI ce index).
  Proof.
    unfold efuse_read_once. apply msafe_bind; [safe_step|]. intros rs. destruct (is_success rs); [|safe_step].
    destruct (r_cls rs =? 4); [|safe_step]. destruct (r_values rs); safe_step.
  Qed.
  Lemma efuse_program_once_safe index value verify : msafe fuel (efuse_program_once SE SI ce index value verify).
  Proof.
    unfold efuse_program_once. apply msafe_bind; [safe_step|]. intros rs. destruct (negb (is_success rs)); [safe_step|].
    destruct verify; [|safe_step]. apply msafe_bind; [apply efuse_read_once_safe|]. intros rv.
    destruct rv; try safe_step. destruct (N.land n value =? value); [safe_step|].
    apply msafe_bind; [safe_step|]. intros; safe_step.
  Qed.
  Lemma flash_read_once_safe index count : msafe fuel (flash_read_once SE SI ce index count).
  Proof.
    unfold flash_read_once. destruct (negb _); [safe_step|]. apply msafe_bind; [safe_step|]. intros rs.
    destruct (is_success rs); [destruct (r_cls rs =? 4)|]; safe_step.
  Qed.
  Lemma flash_program_once_safe index data : msafe fuel (flash_program_once SE SI ce index data).
  Proof. unfold flash_program_once. destruct (negb _); [safe_step|apply simple_safe]. Qed.
  Lemma flash_security_disable_safe key : msafe fuel (flash_security_disable SE SI ce key).
  Proof. unfold flash_security_disable. destruct (negb _); [safe_step|apply simple_safe]. Qed.
  Lemma load_image_safe data : msafe fuel (load_image SE SI ce data).
  Proof.
    unfold load_image. apply msafe_bind; [apply split_data_safe|]. intros ch.
    apply msafe_bind; [safe_step|]. intros _. apply msafe_bind; [safe_step|]. intros; safe_step.
  Qed.

  Ltac api_leaf :=
    first [ apply simple_safe | apply read_memory_safe | apply cmd_data_out_safe | apply cmd_data_in_safe
          | apply flash_security_disable_safe | apply efuse_program_once_safe | apply efuse_read_once_safe
          | apply flash_read_once_safe | apply flash_program_once_safe | apply load_image_safe
          | (apply msafe_bind; [apply get_property_safe|intros v; destruct v; safe_step])
          | (match goal with |- msafe _ (if ?b then _ else _) => destruct b end; [safe_step|apply cmd_data_in_safe])
          | safe_step ].

  Lemma api_safe c : msafe fuel (api SE SI ce fuel c).
  Proof.
    destruct c as [op a d]. unfold api.
    destruct op as [|p]; [api_leaf|].
    do 7 (try (destruct p as [p|p|])); api_leaf.
  Qed.

  Lemma session_safe : forall calls s rs s', (avail s < fuel)%nat -> session SE SI ce fuel calls s = (rs, s') ->
    Forall (fun o => nohang (fst o)) rs.
  Proof.
    induction calls as [|c t IH]; intros s rs s' Hs H.
    - injection H as <- <-. constructor.
    - cbn [session] in H. destruct (api SE SI ce fuel c s) as [r s1] eqn:A.
      destruct (api_safe c _ _ _ Hs A) as [N L].
      destruct (session SE SI ce fuel t s1) as [rs1 s2] eqn:S. injection H as <- <-.
      constructor; [exact N|]. eapply IH; [|exact S]. lia.
  Qed.
End Terminates3.

(* HOST_TERMINATES: for EVERY device-to-host byte stream and every call list, with the fuel the check gives the model
   (two more than the length of the stream) no call ends by exhausting a loop's fuel: every receive loop of the host stops
   after at most one iteration per byte the link delivered *)
Lemma host_terminates_lemma (ce : bool) (mps : option N) (stream : list N) (calls : list value) :
  Forall (fun o => nohang (fst o)) (fst (run_serial null_recv (S (S (length stream))) ce mps tt stream calls)).
Proof.
  unfold run_serial.
  destruct (session _ _ _ _ _ _) as [rs s'] eqn:S. cbn [fst].
  eapply session_safe; [|exact S]. unfold avail, availe. cbn [mb_env se_in]. lia.
Qed.

(* ------------------------------------------------------------------ SUCCESS_COMPLETE: never a partial success *)
Section Complete.
  Variable E : Type.
  Variable I : iface E.
  Variable ce : bool.

  (* every "command, typed response, incoming data" call, both cmd_exception settings, every protocol interface:
     status SUCCESS after the call means the value has exactly the length the delivered response announced *)
  Lemma success_complete_lemma fuel p cls s v s' :
    cmd_data_in E I ce fuel p cls s = (ROk (AVBytes v), s') -> mb_status E s' = SC_SUCCESS ->
    exists b e0 rs e1, pkt_bytes p = ROk b /\ i_write_command I b (mb_env E s) = (ROk tt, e0) /\
      i_read I e0 = (ROk (RxResp rs), e1) /\ r_status rs = SC_SUCCESS /\ r_cls rs = cls /\ nlen v = r_second rs.
  Proof.
    intros H Hs. apply cmd_data_in_sound in H.
    destruct H as (b & e0 & rs & e1 & its & e_end & rsf & s1 & Hb & Hw & Hr & Hst & Hcl & _ & _ & _ & _ & Hend & _).
    destruct (Hend Hs) as (_ & _ & _ & _ & _ & Hn). exists b, e0, rs, e1. auto 10.
  Qed.

  Lemma read_data_complete fuel tag len s v s' :
    read_data E I ce fuel tag len s = (ROk v, s') -> mb_status E s' = SC_SUCCESS -> nlen v = len.
  Proof.
    intros H Hs. apply read_data_sound in H. destruct H as (_ & its & e_end & rs & s1 & _ & Hv & _ & _ & Hc & _).
    destruct (Hc Hs) as [_ Hl]. subst v. apply nlen_firstnN. exact Hl.
  Qed.

  Lemma block_arith ps len idx :
    0 < ps -> let rem := len mod ps in let packets := len / ps + (if rem =? 0 then 0 else 1) in
    idx < packets ->
    N.min (idx * ps) len + (if (idx =? packets - 1) && negb (rem =? 0) then rem else ps) = N.min ((idx + 1) * ps) len.
  Proof.
    intros Hps rem packets Hi. subst rem packets.
    pose proof (N.div_mod len ps ltac:(lia)) as Hdm. pose proof (N.mod_lt len ps ltac:(lia)) as Hr.
    set (q := len / ps) in *. set (r := len mod ps) in *.
    destruct (r =? 0) eqn:E0.
    - apply N.eqb_eq in E0. rewrite andb_false_r. assert (idx + 1 <= q) by lia.
      assert ((idx + 1) * ps <= q * ps) by nia. lia.
    - apply N.eqb_neq in E0. rewrite andb_true_r. destruct (idx =? q + 1 - 1) eqn:EI.
      + apply N.eqb_eq in EI. assert (idx = q) by lia. subst idx. nia.
      + apply N.eqb_neq in EI. assert (idx + 1 <= q) by lia. assert ((idx + 1) * ps <= q * ps) by nia. lia.
  Qed.

  (* the block-wise USB-HID read_memory: status SUCCESS at the end means every block was complete *)
  Lemma read_usb_loop_complete address mem_id ps len (Hps : 0 < ps) :
    let rem := len mod ps in let packets := len / ps + (if rem =? 0 then 0 else 1) in
    forall fuel idx acc s v s', idx <= packets -> nlen acc = N.min (idx * ps) len ->
    read_usb_loop E I ce fuel address mem_id ps rem packets idx acc s = (ROk (AVBytes v), s') ->
    mb_status E s' = SC_SUCCESS -> nlen v = len.
  Proof.
    intros rem packets. induction fuel as [|f IH]; intros idx acc s v s' Hi Ha H Hs; [discriminate|].
    cbn [read_usb_loop] in H. destruct (packets <=? idx) eqn:EP.
    - apply N.leb_le in EP. injection H as <- <-. rewrite Ha. assert (idx = packets) by lia. subst idx.
      subst packets rem. pose proof (N.div_mod len ps ltac:(lia)) as Hdm. pose proof (N.mod_lt len ps ltac:(lia)) as Hr.
      destruct (len mod ps =? 0) eqn:E0; [apply N.eqb_eq in E0|apply N.eqb_neq in E0]; nia.
    - apply N.leb_gt in EP. unfold mbind at 1 in H.
      destruct (process_cmd E I ce _ s) as [[rs|x] s1] eqn:P; [|discriminate].
      apply process_cmd_sound in P. destruct P as (_ & Hst & _ & _).
      unfold is_success in H. destruct (r_status rs =? SC_SUCCESS) eqn:ES.
      + unfold mbind at 1 in H.
        match type of H with context [read_data E I ce ?fu ?tg ?dl s1] => destruct (read_data E I ce fu tg dl s1) as [[d|x] s2] eqn:R; [|discriminate] end.
        unfold mbind at 1, get_status in H.
        destruct (negb (mb_status E s2 =? SC_SUCCESS)) eqn:E2.
        * injection H as <- <-. apply negb_true_iff, N.eqb_neq in E2. contradiction.
        * apply negb_false_iff, N.eqb_eq in E2. apply read_data_complete in R; [|exact E2].
          eapply IH; [| |exact H|exact Hs]; [lia|].
          rewrite nlen_app, Ha, R. apply block_arith; assumption.
      + injection H as <- <-. apply N.eqb_neq in ES. rewrite Hst in Hs. contradiction.
  Qed.

  Lemma read_memory_usb_complete fuel address len mem_id s v s' :
    i_usb I = true -> read_memory E I ce fuel address len mem_id false s = (ROk (AVBytes v), s') ->
    mb_status E s' = SC_SUCCESS -> nlen v = len.
  Proof.
    intros Hu H Hs. unfold read_memory in H. rewrite Hu in H. cbn [andb negb] in H. unfold mbind in H.
    destruct (get_max_packet_size E I ce s) as [[ps|x] s1]; [|discriminate].
    destruct (ps =? 0) eqn:E0; [discriminate|]. apply N.eqb_neq in E0.
    eapply (read_usb_loop_complete address (clamp_down_memory_id mem_id) ps len ltac:(lia)); [| |exact H|exact Hs].
    - apply N.le_0_l.
    - rewrite N.mul_0_l, N.min_0_l. reflexivity.
  Qed.
End Complete.
