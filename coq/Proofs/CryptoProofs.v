(* Proofs/CryptoProofs.v -- lemmas about CryptoRef (coq/Crypto): mode inversions parametric in the block cipher,
   InvCipher o Cipher = id for the concrete AES, SM4 decryption, CRC splitting. *)
From Coq Require Import ZArith NArith List Bool Lia Btauto.
Require Import Value Bytes BytesProofs Aes Sm4 Modes KeyWrap Crc.
Import ListNotations.
Local Open Scope N_scope.

(* ------------------------------------------------------------------ chunks *)
Lemma chunks_fuel_app {A} (k : nat) (b : list A) (rest : list A) fuel :
  (0 < k)%nat -> length b = k ->
  chunks_fuel (S fuel) k (b ++ rest) = b :: chunks_fuel fuel k rest.
Proof.
  intros Hk Hb. cbn [chunks_fuel].
  destruct (b ++ rest) eqn:E.
  - destruct b; simpl in *; [lia | discriminate].
  - rewrite <- E. rewrite firstn_app, skipn_app, Hb, Nat.sub_diag. simpl.
    rewrite firstn_all2 by lia. rewrite skipn_all2 by lia. rewrite app_nil_r. reflexivity.
Qed.

Lemma chunks_fuel_enough {A} (k : nat) (l : list A) f1 f2 :
  (0 < k)%nat -> (length l <= f1)%nat -> (length l <= f2)%nat -> chunks_fuel f1 k l = chunks_fuel f2 k l.
Proof.
  intros Hk. revert l f2. induction f1 as [|f1 IH]; intros l f2 H1 H2.
  - destruct l; simpl in *; [|lia]. destruct f2; reflexivity.
  - destruct f2 as [|f2].
    + destruct l; simpl in *; [reflexivity | lia].
    + cbn [chunks_fuel]. destruct l as [|a l]; [reflexivity|].
      f_equal. apply IH; rewrite skipn_length; cbn [length] in *; lia.
Qed.

Lemma chunks_cons {A} (k : nat) (b rest : list A) :
  (0 < k)%nat -> length b = k -> chunks k (b ++ rest) = b :: chunks k rest.
Proof.
  intros Hk Hb. unfold chunks. rewrite app_length.
  replace (length b + length rest)%nat with (S (k - 1 + length rest)) by lia.
  rewrite chunks_fuel_app by lia. f_equal. apply chunks_fuel_enough; lia.
Qed.

Lemma chunks_nil {A} (k : nat) : @chunks A k [] = [].
Proof. reflexivity. Qed.

Lemma chunks_concat {A} (k : nat) (bs : list (list A)) :
  (0 < k)%nat -> Forall (fun b => length b = k) bs -> chunks k (concat bs) = bs.
Proof.
  intros Hk H. induction H as [|b bs Hb _ IH]; [reflexivity|].
  simpl. rewrite chunks_cons by assumption. now rewrite IH.
Qed.

Lemma concat_chunks_fuel {A} (k : nat) (l : list A) fuel :
  (0 < k)%nat -> (length l <= fuel)%nat -> concat (chunks_fuel fuel k l) = l.
Proof.
  intros Hk. revert l. induction fuel as [|f IH]; intros l H.
  - destruct l; simpl in *; [reflexivity | lia].
  - cbn [chunks_fuel]. destruct l as [|a l]; [reflexivity|].
    cbn [concat]. rewrite IH by (rewrite skipn_length; cbn [length] in *; lia). apply firstn_skipn.
Qed.

Lemma concat_chunks {A} (k : nat) (l : list A) : (0 < k)%nat -> concat (chunks k l) = l.
Proof. intros Hk. apply concat_chunks_fuel; auto. Qed.

(* all chunks of a list whose length is a multiple of k have length k *)
Lemma chunks_fuel_full {A} (k : nat) (l : list A) fuel q :
  (0 < k)%nat -> length l = (q * k)%nat -> (length l <= fuel)%nat ->
  Forall (fun b => length b = k) (chunks_fuel fuel k l).
Proof.
  intros Hk. revert l q. induction fuel as [|f IH]; intros l q Hl Hf.
  - constructor.
  - cbn [chunks_fuel]. destruct l as [|a l]; [constructor|].
    destruct q as [|q]; [simpl in Hl; lia|].
    constructor.
    + rewrite firstn_length. cbn [length Nat.mul] in *. lia.
    + apply (IH _ q); rewrite skipn_length; cbn [length Nat.mul] in *; lia.
Qed.

Lemma chunks_full {A} (k : nat) (l : list A) q :
  (0 < k)%nat -> length l = (q * k)%nat -> Forall (fun b => length b = k) (chunks k l).
Proof. intros. eapply chunks_fuel_full; eauto. Qed.

Lemma mod_mult_exists n k : (0 < k)%nat -> Nat.modulo n k = 0%nat -> exists q, n = (q * k)%nat.
Proof. intros Hk H. exists (Nat.div n k). pose proof (Nat.div_mod n k). lia. Qed.

(* ------------------------------------------------------------------ xor *)
Lemma xor_bytes_length_min a b : length (xor_bytes a b) = Nat.min (length a) (length b).
Proof. unfold xor_bytes. now rewrite map_length, combine_length. Qed.

Lemma xor_bytes_cancel a b : (length a <= length b)%nat -> xor_bytes (xor_bytes a b) b = a.
Proof.
  revert b; induction a as [|x a IH]; intros [|y b] H; simpl in *; try reflexivity; try lia.
  unfold xor_bytes in *. simpl. f_equal.
  - rewrite N.lxor_assoc, N.lxor_nilpotent, N.lxor_0_r. reflexivity.
  - apply IH. lia.
Qed.

Lemma lxor_lt_pow2 a b n : a < 2 ^ n -> b < 2 ^ n -> N.lxor a b < 2 ^ n.
Proof.
  intros Ha Hb.
  destruct (N.eq_dec (N.lxor a b) 0) as [E|E]; [rewrite E; apply N.neq_0_lt_0, N.pow_nonzero; lia|].
  apply N.log2_lt_pow2; [lia|].
  eapply N.le_lt_trans; [apply N.log2_lxor|].
  destruct (N.eq_dec a 0) as [Ea|Ea]; destruct (N.eq_dec b 0) as [Eb|Eb]; subst.
  - rewrite N.lxor_0_l in E. congruence.
  - rewrite N.max_r by (simpl; lia). apply N.log2_lt_pow2; lia.
  - rewrite N.max_l by (simpl; lia). apply N.log2_lt_pow2; lia.
  - apply N.max_lub_lt; apply N.log2_lt_pow2; lia.
Qed.

Lemma lxor_byte a b : a < 256 -> b < 256 -> N.lxor a b < 256.
Proof. apply (lxor_lt_pow2 a b 8). Qed.

Lemma xor_bytes_wf a b : wf_bytes a -> wf_bytes b -> wf_bytes (xor_bytes a b).
Proof.
  unfold wf_bytes. revert b; induction a as [|x a IH]; intros [|y b] Ha Hb; simpl; try constructor.
  - inversion Ha; inversion Hb; subst. now apply lxor_byte.
  - inversion Ha; inversion Hb; subst. now apply IH.
Qed.

(* ------------------------------------------------------------------ blocks *)
Definition okb (b : list N) : Prop := length b = 16%nat /\ wf_bytes b.

Lemma okb_xor a b : okb a -> okb b -> okb (xor_bytes a b).
Proof.
  intros [La Wa] [Lb Wb]. split.
  - rewrite xor_bytes_length_min. lia.
  - now apply xor_bytes_wf.
Qed.

Lemma wf_bytes_app a b : wf_bytes a -> wf_bytes b -> wf_bytes (a ++ b).
Proof. unfold wf_bytes. intros. apply Forall_app. now split. Qed.

Lemma wf_bytes_firstn n a : wf_bytes a -> wf_bytes (firstn n a).
Proof.
  unfold wf_bytes. revert a. induction n as [|n IH]; intros a H; simpl; [constructor|].
  destruct a; [constructor|]. inversion H; subst. constructor; auto.
Qed.
Lemma wf_bytes_skipn n a : wf_bytes a -> wf_bytes (skipn n a).
Proof.
  unfold wf_bytes. revert a. induction n as [|n IH]; intros a H; simpl; [assumption|].
  destruct a; [constructor|]. inversion H; subst. auto.
Qed.

Lemma wf_bytes_concat bs : Forall wf_bytes bs -> wf_bytes (concat bs).
Proof. induction 1; simpl; [constructor | now apply wf_bytes_app]. Qed.

Lemma wf_chunks_fuel k l fuel : wf_bytes l -> Forall wf_bytes (chunks_fuel fuel k l).
Proof.
  revert l. induction fuel as [|f IH]; intros l H; simpl; [constructor|].
  destruct l as [|a l]; [constructor|]. constructor.
  - now apply wf_bytes_firstn.
  - apply IH. now apply wf_bytes_skipn.
Qed.
Lemma wf_chunks k l : wf_bytes l -> Forall wf_bytes (chunks k l).
Proof. apply wf_chunks_fuel. Qed.

Lemma Forall_and_okb bs : Forall (fun b => length b = 16%nat) bs -> Forall wf_bytes bs -> Forall okb bs.
Proof.
  intros H1 H2. rewrite Forall_forall in *. intros x Hx. split; auto.
Qed.

(* a message whose length is a multiple of 16 splits into ok blocks *)
Lemma okb_chunks m : wf_bytes m -> Nat.modulo (length m) 16 = 0%nat -> Forall okb (chunks 16 m).
Proof.
  intros W M. destruct (mod_mult_exists _ 16 ltac:(lia) M) as [q Hq].
  apply Forall_and_okb; [eapply chunks_full; eauto; lia | now apply wf_chunks].
Qed.

(* ------------------------------------------------------------------ ECB / CBC / CTR, parametric in E / D *)
Section ModeTheorems.
Variable E D : list N -> list N.
Hypothesis DE : forall b, okb b -> D (E b) = b.
Hypothesis E_ok : forall b, okb b -> okb (E b).

Lemma ecb_blocks_dec_enc bs : Forall okb bs -> ecb_blocks D (ecb_blocks E bs) = bs.
Proof.
  unfold ecb_blocks. induction 1 as [|b bs Hb _ IH]; simpl; [reflexivity|]. now rewrite DE, IH.
Qed.

Lemma Forall_okb_len bs : Forall okb bs -> Forall (fun b => length b = 16%nat) bs.
Proof. apply Forall_impl. now intros b [H _]. Qed.

Lemma ecb_blocks_ok bs : Forall okb bs -> Forall okb (ecb_blocks E bs).
Proof. unfold ecb_blocks. induction 1; simpl; constructor; auto. Qed.

Lemma ecb_dec_enc_l m : wf_bytes m -> Nat.modulo (length m) 16 = 0%nat -> ecb D (ecb E m) = m.
Proof.
  intros W M. unfold ecb. pose proof (okb_chunks m W M) as H.
  unfold BS. rewrite chunks_concat by (try lia; apply Forall_okb_len, ecb_blocks_ok, H).
  rewrite ecb_blocks_dec_enc by assumption. apply concat_chunks. lia.
Qed.

Lemma cbc_blocks_dec_enc bs : forall iv, okb iv -> Forall okb bs ->
  cbc_dec_blocks D iv (cbc_enc_blocks E iv bs) = bs.
Proof.
  induction bs as [|b bs IH]; intros iv Hiv H; [reflexivity|].
  inversion H as [|? ? Hb Hbs]; subst. simpl.
  assert (Hx : okb (xor_bytes b iv)) by now apply okb_xor.
  rewrite DE by assumption. rewrite xor_bytes_cancel by (destruct Hb, Hiv; lia).
  f_equal. apply IH; auto.
Qed.

Lemma cbc_enc_blocks_ok bs : forall iv, okb iv -> Forall okb bs -> Forall okb (cbc_enc_blocks E iv bs).
Proof.
  induction bs as [|b bs IH]; intros iv Hiv H; simpl; [constructor|].
  inversion H; subst. assert (okb (E (xor_bytes b iv))) by (apply E_ok, okb_xor; auto).
  constructor; auto.
Qed.

Lemma cbc_dec_enc_l iv m : okb iv -> wf_bytes m -> Nat.modulo (length m) 16 = 0%nat ->
  cbc_dec D iv (cbc_enc E iv m) = m.
Proof.
  intros Hiv W M. unfold cbc_dec, cbc_enc. pose proof (okb_chunks m W M) as H. unfold BS.
  rewrite chunks_concat by (try lia; apply Forall_okb_len, cbc_enc_blocks_ok; assumption).
  rewrite cbc_blocks_dec_enc by assumption. apply concat_chunks. lia.
Qed.

Lemma cbc_enc_length iv m : okb iv -> wf_bytes m -> Nat.modulo (length m) 16 = 0%nat ->
  length (cbc_enc E iv m) = length m /\ wf_bytes (cbc_enc E iv m).
Proof.
  intros Hiv W M. unfold cbc_enc. pose proof (okb_chunks m W M) as H. unfold BS.
  pose proof (cbc_enc_blocks_ok _ iv Hiv H) as Hc. split.
  - rewrite <- (concat_chunks 16 m) at 2 by lia.
    clear M W. revert Hc H. generalize (chunks 16 m). intros bs. revert iv Hiv.
    induction bs as [|b bs IH]; intros iv Hiv Hc H; [reflexivity|].
    simpl in *. inversion Hc; inversion H; subst. rewrite !app_length.
    erewrite IH; eauto. destruct H2 as [-> _]. destruct H6 as [-> _]. reflexivity.
  - apply wf_bytes_concat. eapply Forall_impl; [|exact Hc]. now intros b [_ Hw].
Qed.
End ModeTheorems.

(* ---- shape of chunked messages (last block may be short) ---- *)
Fixpoint chunked (k : nat) (bs : list (list N)) : Prop :=
  match bs with
  | [] => True
  | b :: t => match t with
              | [] => (0 < length b <= k)%nat
              | _ => length b = k /\ chunked k t
              end
  end.

Lemma chunked_fuel k l fuel : (0 < k)%nat -> (length l <= fuel)%nat -> chunked k (chunks_fuel fuel k l).
Proof.
  intros Hk. revert l. induction fuel as [|f IH]; intros l H; [exact I|].
  cbn [chunks_fuel]. destruct l as [|a l]; [exact I|].
  assert (Hs : (length (skipn k (a :: l)) <= f)%nat) by (rewrite skipn_length; cbn [length] in *; lia).
  specialize (IH _ Hs). cbn [chunked].
  destruct (chunks_fuel f k (skipn k (a :: l))) eqn:Ec.
  - rewrite firstn_length. cbn [length]. lia.
  - split; [|exact IH].
    rewrite firstn_length. destruct (Nat.le_gt_cases k (length (a :: l))); [lia|].
    rewrite skipn_all2 in Ec by lia. destruct f; discriminate.
Qed.

Lemma chunked_chunks k l : (0 < k)%nat -> chunked k (chunks k l).
Proof. intros. apply chunked_fuel; auto. Qed.

Lemma chunks_concat_chunked k bs : (0 < k)%nat -> chunked k bs -> chunks k (concat bs) = bs.
Proof.
  intros Hk. induction bs as [|b bs IH]; intros H; [reflexivity|].
  cbn [chunked] in H. destruct bs as [|b' bs'].
  - simpl. rewrite app_nil_r. unfold chunks. destruct b as [|x b]; [simpl in H; lia|].
    cbn [length chunks_fuel]. rewrite firstn_all2 by lia. rewrite skipn_all2 by lia.
    destruct (length b); reflexivity.
  - destruct H as [Hb Ht]. cbn [concat]. rewrite chunks_cons by assumption. f_equal. now apply IH.
Qed.

Lemma chunked_same_shape k (bs cs : list (list N)) :
  Forall2 (fun a b => length a = length b) bs cs -> chunked k bs -> chunked k cs.
Proof.
  induction 1 as [|b c bs cs Hbc HF IH]; intros H; [exact I|].
  cbn [chunked] in *. destruct HF as [|b' c' bs' cs' Hb' HF'].
  - lia.
  - destruct H as [H1 H2]. split; [lia|]. apply IH. exact H2.
Qed.

Lemma chunked_le k bs : chunked k bs -> Forall (fun b => (length b <= k)%nat) bs.
Proof.
  induction bs as [|b bs IH]; intros H; constructor; cbn [chunked] in H; destruct bs.
  - lia.
  - lia.
  - constructor.
  - apply IH. tauto.
Qed.

Lemma concat_length_same_shape (bs cs : list (list N)) :
  Forall2 (fun a b => length a = length b) bs cs -> length (concat cs) = length (concat bs).
Proof. induction 1 as [|a b l l' Hab _ IH]; [reflexivity|]. simpl. rewrite !app_length. lia. Qed.

Section CtrTheorems.
Variable E : list N -> list N.
Hypothesis E_len : forall b, length b = 16%nat -> length (E b) = 16%nat.

Lemma inc_be_length c : length (inc_be c) = length c.
Proof. unfold inc_be. apply be_enc_length. Qed.

Lemma ctr_blocks_involutive bs : forall ctr, length ctr = 16%nat ->
  Forall (fun b => (length b <= 16)%nat) bs -> ctr_blocks E ctr (ctr_blocks E ctr bs) = bs.
Proof.
  induction bs as [|b bs IH]; intros ctr Hc H; [reflexivity|].
  inversion H; subst. simpl. rewrite xor_bytes_cancel by (rewrite E_len; auto).
  f_equal. apply IH; auto. now rewrite inc_be_length.
Qed.

Lemma ctr_blocks_shape bs : forall ctr, length ctr = 16%nat ->
  Forall (fun b => (length b <= 16)%nat) bs ->
  Forall2 (fun a b => length a = length b) bs (ctr_blocks E ctr bs).
Proof.
  induction bs as [|b bs IH]; intros ctr Hc H; simpl; [constructor|].
  inversion H; subst. constructor.
  - rewrite xor_bytes_length_min, E_len by assumption. lia.
  - apply IH; auto. now rewrite inc_be_length.
Qed.

Lemma ctr_involutive_l nonce m : length nonce = 16%nat -> ctr_xcrypt E nonce (ctr_xcrypt E nonce m) = m.
Proof.
  intros Hn. unfold ctr_xcrypt, BS.
  pose proof (chunked_chunks 16 m ltac:(lia)) as Hc.
  pose proof (chunked_le _ _ Hc) as Hl.
  rewrite chunks_concat_chunked; try lia.
  - rewrite ctr_blocks_involutive by assumption. apply concat_chunks. lia.
  - eapply chunked_same_shape; [|exact Hc]. now apply ctr_blocks_shape.
Qed.

Lemma ctr_length nonce m : length nonce = 16%nat -> length (ctr_xcrypt E nonce m) = length m.
Proof.
  intros Hn. unfold ctr_xcrypt, BS.
  pose proof (chunked_le _ _ (chunked_chunks 16 m ltac:(lia))) as Hl.
  pose proof (ctr_blocks_shape _ nonce Hn Hl) as Hs.
  rewrite <- (concat_chunks 16 m) at 2 by lia. now apply concat_length_same_shape.
Qed.
End CtrTheorems.

(* ------------------------------------------------------------------ AES: InvCipher (Cipher b) = b *)
Definition bytes256 : list N := map N.of_nat (seq 0 256).

Lemma byte_in x : x < 256 -> In x bytes256.
Proof.
  intros H. unfold bytes256. apply in_map_iff. exists (N.to_nat x). split; [apply N2Nat.id|].
  apply in_seq. lia.
Qed.

Lemma byte_forall (P : N -> bool) : forallb P bytes256 = true -> forall x, x < 256 -> P x = true.
Proof. intros H x Hx. rewrite forallb_forall in H. apply H. now apply byte_in. Qed.

Lemma byte_forall2 (P : N -> N -> bool) :
  forallb (fun a => forallb (P a) bytes256) bytes256 = true -> forall a b, a < 256 -> b < 256 -> P a b = true.
Proof. intros H a b Ha Hb. apply (byte_forall (P a)); auto. apply (byte_forall (fun a => forallb (P a) bytes256)); auto. Qed.

Lemma isbox_sbox x : x < 256 -> isbox (sbox x) = x.
Proof.
  intros H. apply N.eqb_eq. revert x H. apply (byte_forall (fun x => isbox (sbox x) =? x)). vm_compute. reflexivity.
Qed.

Lemma tbl_all_zero f t : tbl_all f t = true -> f (tbl_zero t) = true.
Proof. induction t; simpl; intros H; [assumption|]. apply andb_true_iff in H as [H1 _]. auto. Qed.

Lemma tbl_all_get_pos f t : tbl_all f t = true -> forall p, f (tbl_get_pos t p) = true.
Proof.
  induction t as [v|l IHl r IHr]; simpl; intros H p; [assumption|].
  apply andb_true_iff in H as [H1 H2]. destruct p; auto. now apply tbl_all_zero.
Qed.

Lemma tbl_all_get f t x : tbl_all f t = true -> f (tbl_get t x) = true.
Proof. intros H. destruct x; simpl; [now apply tbl_all_zero | now apply tbl_all_get_pos]. Qed.

Lemma sbox_lt x : sbox x < 256.
Proof. apply N.ltb_lt. apply (tbl_all_get (fun v => v <? 256)). vm_compute. reflexivity. Qed.
Lemma isbox_lt x : isbox x < 256.
Proof. apply N.ltb_lt. apply (tbl_all_get (fun v => v <? 256)). vm_compute. reflexivity. Qed.

Lemma wf_map_sbox s : wf_bytes (map sbox s).
Proof. unfold wf_bytes. apply Forall_forall. intros y Hy. apply in_map_iff in Hy as (x & <- & _). apply sbox_lt. Qed.

Lemma inv_sub_sub s : wf_bytes s -> inv_sub_bytes (sub_bytes s) = s.
Proof.
  unfold inv_sub_bytes, sub_bytes, wf_bytes. induction 1 as [|x s Hx _ IH]; simpl; [reflexivity|].
  rewrite isbox_sbox by assumption. now rewrite IH.
Qed.

(* GF(2^8) constant multiplications are GF(2)-linear and stay bytes: checked over all (pairs of) bytes *)
Section GLin.
Variable g : N -> N.
Hypothesis g_lin : forall a b, a < 256 -> b < 256 -> g (N.lxor a b) = N.lxor (g a) (g b).
Lemma g_lin4 p q r s : p < 256 -> q < 256 -> r < 256 -> s < 256 ->
  g (x4 p q r s) = x4 (g p) (g q) (g r) (g s).
Proof.
  intros. unfold x4. rewrite !g_lin; auto using lxor_byte.
Qed.
End GLin.

Ltac lin_check g :=
  let a := fresh "a" in let b := fresh "b" in
  intros a b ? ?; apply N.eqb_eq; revert a b; 
  apply (byte_forall2 (fun a b => g (N.lxor a b) =? N.lxor (g a) (g b))); vm_compute; reflexivity.

Lemma g9_lin : forall a b, a < 256 -> b < 256 -> g9 (N.lxor a b) = N.lxor (g9 a) (g9 b).
Proof. intros a b Ha Hb. apply N.eqb_eq. revert a b Ha Hb. apply (byte_forall2 (fun a b => g9 (N.lxor a b) =? N.lxor (g9 a) (g9 b))). vm_compute. reflexivity. Qed.
Lemma g11_lin : forall a b, a < 256 -> b < 256 -> g11 (N.lxor a b) = N.lxor (g11 a) (g11 b).
Proof. intros a b Ha Hb. apply N.eqb_eq. revert a b Ha Hb. apply (byte_forall2 (fun a b => g11 (N.lxor a b) =? N.lxor (g11 a) (g11 b))). vm_compute. reflexivity. Qed.
Lemma g13_lin : forall a b, a < 256 -> b < 256 -> g13 (N.lxor a b) = N.lxor (g13 a) (g13 b).
Proof. intros a b Ha Hb. apply N.eqb_eq. revert a b Ha Hb. apply (byte_forall2 (fun a b => g13 (N.lxor a b) =? N.lxor (g13 a) (g13 b))). vm_compute. reflexivity. Qed.
Lemma g14_lin : forall a b, a < 256 -> b < 256 -> g14 (N.lxor a b) = N.lxor (g14 a) (g14 b).
Proof. intros a b Ha Hb. apply N.eqb_eq. revert a b Ha Hb. apply (byte_forall2 (fun a b => g14 (N.lxor a b) =? N.lxor (g14 a) (g14 b))). vm_compute. reflexivity. Qed.

Lemma g2_lt x : x < 256 -> g2 x < 256.
Proof. intros H. apply N.ltb_lt. revert x H. apply (byte_forall (fun x => g2 x <? 256)). vm_compute. reflexivity. Qed.
Lemma g3_lt x : x < 256 -> g3 x < 256.
Proof. intros H. apply N.ltb_lt. revert x H. apply (byte_forall (fun x => g3 x <? 256)). vm_compute. reflexivity. Qed.

Lemma x4_lt a b c d : a < 256 -> b < 256 -> c < 256 -> d < 256 -> x4 a b c d < 256.
Proof. intros. unfold x4. auto using lxor_byte. Qed.

Lemma x4_transpose a1 a2 a3 a4 b1 b2 b3 b4 c1 c2 c3 c4 d1 d2 d3 d4 :
  x4 (x4 a1 a2 a3 a4) (x4 b1 b2 b3 b4) (x4 c1 c2 c3 c4) (x4 d1 d2 d3 d4) =
  x4 (x4 a1 b1 c1 d1) (x4 a2 b2 c2 d2) (x4 a3 b3 c3 d3) (x4 a4 b4 c4 d4).
Proof.
  unfold x4. apply N.bits_inj. intros n. rewrite !N.lxor_spec.
  generalize (N.testbit a1 n) (N.testbit a2 n) (N.testbit a3 n) (N.testbit a4 n)
             (N.testbit b1 n) (N.testbit b2 n) (N.testbit b3 n) (N.testbit b4 n)
             (N.testbit c1 n) (N.testbit c2 n) (N.testbit c3 n) (N.testbit c4 n)
             (N.testbit d1 n) (N.testbit d2 n) (N.testbit d3 n) (N.testbit d4 n).
  intros. btauto.
Qed.

Lemma cid_0_0 x : x < 256 -> x4 (g14 (g2 x)) (g11 x) (g13 x) (g9 (g3 x)) = x.
Proof. intros H. apply N.eqb_eq. revert x H. apply (byte_forall (fun x => x4 (g14 (g2 x)) (g11 x) (g13 x) (g9 (g3 x)) =? x)). vm_compute. reflexivity. Qed.
Lemma cid_0_1 x : x < 256 -> x4 (g14 (g3 x)) (g11 (g2 x)) (g13 x) (g9 x) = 0.
Proof. intros H. apply N.eqb_eq. revert x H. apply (byte_forall (fun x => x4 (g14 (g3 x)) (g11 (g2 x)) (g13 x) (g9 x) =? 0)). vm_compute. reflexivity. Qed.
Lemma cid_0_2 x : x < 256 -> x4 (g14 x) (g11 (g3 x)) (g13 (g2 x)) (g9 x) = 0.
Proof. intros H. apply N.eqb_eq. revert x H. apply (byte_forall (fun x => x4 (g14 x) (g11 (g3 x)) (g13 (g2 x)) (g9 x) =? 0)). vm_compute. reflexivity. Qed.
Lemma cid_0_3 x : x < 256 -> x4 (g14 x) (g11 x) (g13 (g3 x)) (g9 (g2 x)) = 0.
Proof. intros H. apply N.eqb_eq. revert x H. apply (byte_forall (fun x => x4 (g14 x) (g11 x) (g13 (g3 x)) (g9 (g2 x)) =? 0)). vm_compute. reflexivity. Qed.
Lemma cid_1_0 x : x < 256 -> x4 (g9 (g2 x)) (g14 x) (g11 x) (g13 (g3 x)) = 0.
Proof. intros H. apply N.eqb_eq. revert x H. apply (byte_forall (fun x => x4 (g9 (g2 x)) (g14 x) (g11 x) (g13 (g3 x)) =? 0)). vm_compute. reflexivity. Qed.
Lemma cid_1_1 x : x < 256 -> x4 (g9 (g3 x)) (g14 (g2 x)) (g11 x) (g13 x) = x.
Proof. intros H. apply N.eqb_eq. revert x H. apply (byte_forall (fun x => x4 (g9 (g3 x)) (g14 (g2 x)) (g11 x) (g13 x) =? x)). vm_compute. reflexivity. Qed.
Lemma cid_1_2 x : x < 256 -> x4 (g9 x) (g14 (g3 x)) (g11 (g2 x)) (g13 x) = 0.
Proof. intros H. apply N.eqb_eq. revert x H. apply (byte_forall (fun x => x4 (g9 x) (g14 (g3 x)) (g11 (g2 x)) (g13 x) =? 0)). vm_compute. reflexivity. Qed.
Lemma cid_1_3 x : x < 256 -> x4 (g9 x) (g14 x) (g11 (g3 x)) (g13 (g2 x)) = 0.
Proof. intros H. apply N.eqb_eq. revert x H. apply (byte_forall (fun x => x4 (g9 x) (g14 x) (g11 (g3 x)) (g13 (g2 x)) =? 0)). vm_compute. reflexivity. Qed.
Lemma cid_2_0 x : x < 256 -> x4 (g13 (g2 x)) (g9 x) (g14 x) (g11 (g3 x)) = 0.
Proof. intros H. apply N.eqb_eq. revert x H. apply (byte_forall (fun x => x4 (g13 (g2 x)) (g9 x) (g14 x) (g11 (g3 x)) =? 0)). vm_compute. reflexivity. Qed.
Lemma cid_2_1 x : x < 256 -> x4 (g13 (g3 x)) (g9 (g2 x)) (g14 x) (g11 x) = 0.
Proof. intros H. apply N.eqb_eq. revert x H. apply (byte_forall (fun x => x4 (g13 (g3 x)) (g9 (g2 x)) (g14 x) (g11 x) =? 0)). vm_compute. reflexivity. Qed.
Lemma cid_2_2 x : x < 256 -> x4 (g13 x) (g9 (g3 x)) (g14 (g2 x)) (g11 x) = x.
Proof. intros H. apply N.eqb_eq. revert x H. apply (byte_forall (fun x => x4 (g13 x) (g9 (g3 x)) (g14 (g2 x)) (g11 x) =? x)). vm_compute. reflexivity. Qed.
Lemma cid_2_3 x : x < 256 -> x4 (g13 x) (g9 x) (g14 (g3 x)) (g11 (g2 x)) = 0.
Proof. intros H. apply N.eqb_eq. revert x H. apply (byte_forall (fun x => x4 (g13 x) (g9 x) (g14 (g3 x)) (g11 (g2 x)) =? 0)). vm_compute. reflexivity. Qed.
Lemma cid_3_0 x : x < 256 -> x4 (g11 (g2 x)) (g13 x) (g9 x) (g14 (g3 x)) = 0.
Proof. intros H. apply N.eqb_eq. revert x H. apply (byte_forall (fun x => x4 (g11 (g2 x)) (g13 x) (g9 x) (g14 (g3 x)) =? 0)). vm_compute. reflexivity. Qed.
Lemma cid_3_1 x : x < 256 -> x4 (g11 (g3 x)) (g13 (g2 x)) (g9 x) (g14 x) = 0.
Proof. intros H. apply N.eqb_eq. revert x H. apply (byte_forall (fun x => x4 (g11 (g3 x)) (g13 (g2 x)) (g9 x) (g14 x) =? 0)). vm_compute. reflexivity. Qed.
Lemma cid_3_2 x : x < 256 -> x4 (g11 x) (g13 (g3 x)) (g9 (g2 x)) (g14 x) = 0.
Proof. intros H. apply N.eqb_eq. revert x H. apply (byte_forall (fun x => x4 (g11 x) (g13 (g3 x)) (g9 (g2 x)) (g14 x) =? 0)). vm_compute. reflexivity. Qed.
Lemma cid_3_3 x : x < 256 -> x4 (g11 x) (g13 x) (g9 (g3 x)) (g14 (g2 x)) = x.
Proof. intros H. apply N.eqb_eq. revert x H. apply (byte_forall (fun x => x4 (g11 x) (g13 x) (g9 (g3 x)) (g14 (g2 x)) =? x)). vm_compute. reflexivity. Qed.

Lemma imc_mc_col a b c d : a < 256 -> b < 256 -> c < 256 -> d < 256 ->
  imc_col (x4 (g2 a) (g3 b) c d) (x4 a (g2 b) (g3 c) d) (x4 a b (g2 c) (g3 d)) (x4 (g3 a) b c (g2 d)) = [a; b; c; d].
Proof.
  intros Ha Hb Hc Hd.
  pose proof (g2_lt a Ha). pose proof (g2_lt b Hb). pose proof (g2_lt c Hc). pose proof (g2_lt d Hd).
  pose proof (g3_lt a Ha). pose proof (g3_lt b Hb). pose proof (g3_lt c Hc). pose proof (g3_lt d Hd).
  unfold imc_col.
  rewrite !(g_lin4 g9 g9_lin), !(g_lin4 g11 g11_lin), !(g_lin4 g13 g13_lin), !(g_lin4 g14 g14_lin) by assumption.
  assert (L4 : forall (p q r s p' q' r' s' : N), p = p' -> q = q' -> r = r' -> s = s' -> [p; q; r; s] = [p'; q'; r'; s'])
    by (intros; subst; reflexivity).
  apply L4; rewrite x4_transpose.
  - rewrite cid_0_0, cid_0_1, cid_0_2, cid_0_3 by assumption. unfold x4. now rewrite ?N.lxor_0_r, ?N.lxor_0_l.
  - rewrite cid_1_0, cid_1_1, cid_1_2, cid_1_3 by assumption. unfold x4. now rewrite ?N.lxor_0_r, ?N.lxor_0_l.
  - rewrite cid_2_0, cid_2_1, cid_2_2, cid_2_3 by assumption. unfold x4. now rewrite ?N.lxor_0_r, ?N.lxor_0_l.
  - rewrite cid_3_0, cid_3_1, cid_3_2, cid_3_3 by assumption. unfold x4. now rewrite ?N.lxor_0_r, ?N.lxor_0_l.
Qed.

Ltac destruct16 s H :=
  let L := fresh "L" in let W := fresh "W" in
  destruct H as [L W];
  do 16 (destruct s as [|? s]; [discriminate L|]); destruct s; [|discriminate L]; clear L.

Ltac wf_inv W := unfold wf_bytes in W; repeat match goal with
  | H : Forall _ (_ :: _) |- _ => let a := fresh "B" in let b := fresh "F" in inversion H as [|? ? a b]; subst; clear H; unfold wf_byte in a
  end.

Lemma inv_shift_shift s : length s = 16%nat -> inv_shift_rows (shift_rows s) = s.
Proof.
  intros L. do 16 (destruct s as [|? s]; [discriminate L|]); destruct s; [|discriminate L]. reflexivity.
Qed.

Lemma inv_mix_mix s : okb s -> inv_mix_columns (mix_columns s) = s.
Proof.
  intros H. destruct16 s H. wf_inv W.
  cbn [mix_columns mc_col app inv_mix_columns].
  rewrite !imc_mc_col by assumption. reflexivity.
Qed.

Lemma okb_sub s : length s = 16%nat -> okb (sub_bytes s).
Proof. intros L. split; [unfold sub_bytes; now rewrite map_length | apply wf_map_sbox]. Qed.

Lemma okb_shift s : okb s -> okb (shift_rows s).
Proof.
  intros H. destruct16 s H. wf_inv W. split; [reflexivity|]. unfold shift_rows, wf_bytes.
  repeat constructor; assumption.
Qed.

Lemma okb_mix s : okb s -> okb (mix_columns s).
Proof.
  intros H. destruct16 s H. wf_inv W. split; [reflexivity|]. unfold wf_bytes.
  cbn [mix_columns mc_col app].
  repeat (constructor; [unfold wf_byte; apply x4_lt; auto using g2_lt, g3_lt|]). constructor.
Qed.

Lemma okb_ark k s : okb k -> okb s -> okb (add_round_key k s).
Proof. intros Hk Hs. unfold add_round_key. apply okb_xor; assumption. Qed.

Lemma ark_ark k s : okb k -> length s = 16%nat -> add_round_key k (add_round_key k s) = s.
Proof. intros [Lk _] Ls. unfold add_round_key. apply xor_bytes_cancel. lia. Qed.

Lemma okb_round k s : okb k -> okb s -> okb (aes_round k s).
Proof. intros Hk [Ls _]. unfold aes_round. apply okb_ark; auto. apply okb_mix, okb_shift, okb_sub, Ls. Qed.

Lemma inv_round_round k s : okb k -> okb s -> aes_inv_round k (aes_round k s) = s.
Proof.
  intros Hk [Ls Ws]. unfold aes_inv_round, aes_round.
  pose proof (okb_sub s Ls) as H1. pose proof (okb_shift _ H1) as H2. pose proof (okb_mix _ H2) as H3.
  rewrite ark_ark by (auto; apply H3). rewrite inv_mix_mix by assumption.
  rewrite inv_shift_shift by apply H1. now apply inv_sub_sub.
Qed.

Lemma okb_final k s : okb k -> okb s -> okb (aes_final k s).
Proof. intros Hk [Ls _]. unfold aes_final. apply okb_ark; auto. apply okb_shift, okb_sub, Ls. Qed.

Lemma inv_final_final k s : okb k -> okb s -> aes_inv_final k (aes_final k s) = s.
Proof.
  intros Hk [Ls Ws]. unfold aes_inv_final, aes_final.
  pose proof (okb_sub s Ls) as H1. pose proof (okb_shift _ H1) as H2.
  rewrite ark_ark by (auto; apply H2). rewrite inv_shift_shift by apply H1. now apply inv_sub_sub.
Qed.

Lemma dec_enc_loop rks : Forall okb rks -> forall s, okb s -> dec_loop rks (enc_loop rks s) = s /\ okb (enc_loop rks s).
Proof.
  induction 1 as [|k more Hk Hmore IH]; intros s Hs; [split; [reflexivity | assumption]|].
  cbn [enc_loop dec_loop]. destruct more as [|k' more'].
  - split; [now apply inv_final_final | now apply okb_final].
  - destruct (IH (aes_round k s) (okb_round k s Hk Hs)) as [E1 E2]. split; [|exact E2].
    rewrite E1. now apply inv_round_round.
Qed.

Lemma inv_cipher_cipher_rks rks b : Forall okb rks -> okb b ->
  inv_cipher_rks rks (cipher_rks rks b) = b /\ okb (cipher_rks rks b).
Proof.
  intros H Hb. destruct H as [|k0 rest Hk0 Hrest]; [split; [reflexivity | assumption]|].
  unfold inv_cipher_rks, cipher_rks.
  destruct (dec_enc_loop rest Hrest _ (okb_ark k0 b Hk0 Hb)) as [E1 E2]. split; [|exact E2].
  rewrite E1. apply ark_ark; auto. apply Hb.
Qed.

(* ---- key expansion yields well-formed 16-byte round keys ---- *)
Definition word_ok (w : list N) : Prop := length w = 4%nat /\ wf_bytes w.

Lemma word_ok_xor a b : word_ok a -> word_ok b -> word_ok (xor_bytes a b).
Proof.
  intros [La Wa] [Lb Wb]. split; [rewrite xor_bytes_length_min; lia | now apply xor_bytes_wf].
Qed.

Lemma word_ok_sub w : length w = 4%nat -> word_ok (sub_word w).
Proof. intros L. split; [unfold sub_word; now rewrite map_length | apply wf_map_sbox]. Qed.

Lemma rot_word_length w : length (rot_word w) = length w.
Proof. destruct w; simpl; [reflexivity|]. rewrite app_length. simpl. lia. Qed.

Lemma xtime_lt x : x < 256 -> xtime x < 256.
Proof. exact (g2_lt x). Qed.

Lemma ke_loop_ok fuel : forall nk i rc acc, rc < 256 -> (0 < nk)%nat -> (nk <= length acc)%nat ->
  Forall word_ok acc -> Forall word_ok (ke_loop fuel nk i rc acc).
Proof.
  induction fuel as [|f IH]; intros nk i rc acc Hrc Hnk Hlen Hacc; cbn [ke_loop].
  - now apply Forall_rev.
  - assert (Hprev : word_ok (hd [] acc)).
    { destruct acc as [|p acc']; [simpl in Hlen; lia|]. inversion Hacc; assumption. }
    assert (Hback : word_ok (nth (nk - 1) acc [])).
    { rewrite Forall_forall in Hacc. apply Hacc. apply nth_In. lia. }
    assert (Hrcw : word_ok [rc; 0; 0; 0]).
    { split; [reflexivity|]. unfold wf_bytes, wf_byte. repeat constructor; try assumption; lia. }
    destruct (Nat.eqb (Nat.modulo i nk) 0).
    + apply IH; auto using xtime_lt; [cbn [length]; lia|]. constructor; [|assumption].
      apply word_ok_xor; [assumption|]. apply word_ok_xor; [|assumption].
      apply word_ok_sub. rewrite rot_word_length. apply Hprev.
    + destruct (Nat.ltb 6 nk && Nat.eqb (Nat.modulo i nk) 4).
      * apply IH; auto; [cbn [length]; lia|]. constructor; [|assumption].
        apply word_ok_xor; [assumption|]. apply word_ok_sub, Hprev.
      * apply IH; auto; [cbn [length]; lia|]. constructor; [|assumption]. now apply word_ok_xor.
Qed.

Lemma concat_length_uniform {A} (k : nat) (bs : list (list A)) :
  Forall (fun b => length b = k) bs -> length (concat bs) = (k * length bs)%nat.
Proof. induction 1 as [|b bs Hb _ IH]; simpl; [lia|]. rewrite app_length, IH, Hb. lia. Qed.

Lemma key_words_ok key : aes_key_ok key = true -> wf_bytes key -> Forall word_ok (key_words key).
Proof.
  intros Hk W. unfold aes_key_ok in Hk.
  assert (Hq : exists q, length key = (q * 4)%nat /\ (0 < q)%nat /\ Nat.div (length key) 4 = q).
  { apply orb_true_iff in Hk as [Hk|Hk]; [apply orb_true_iff in Hk as [Hk|Hk]|]; apply Nat.eqb_eq in Hk; rewrite Hk.
    - exists 4%nat. repeat split; lia.
    - exists 6%nat. repeat split; lia.
    - exists 8%nat. repeat split; lia. }
  destruct Hq as (q & Hl & Hq0 & Hd). unfold key_words. rewrite Hd.
  pose proof (chunks_full 4 key q ltac:(lia) Hl) as Hfull.
  pose proof (wf_chunks 4 key W) as Hwf.
  assert (Hc : Forall word_ok (chunks 4 key)).
  { rewrite Forall_forall in *. intros x Hx. split; auto. }
  apply ke_loop_ok; try lia.
  - rewrite rev_length.
    pose proof (concat_length_uniform 4 _ Hfull) as E. rewrite concat_chunks in E by lia. lia.
  - now apply Forall_rev.
Qed.

Lemma rk_of_words_ok n : forall ws, (length ws <= n)%nat -> Forall word_ok ws -> Forall okb (rk_of_words ws).
Proof.
  induction n as [|n IH]; intros ws Hl H.
  - destruct ws; [constructor | simpl in Hl; lia].
  - destruct ws as [|a [|b [|c [|d t]]]]; cbn [rk_of_words]; try constructor.
    + inversion H as [|? ? [La Wa] H1]; subst. inversion H1 as [|? ? [Lb Wb] H2]; subst.
      inversion H2 as [|? ? [Lc Wc] H3]; subst. inversion H3 as [|? ? [Ld Wd] H4]; subst.
      split; [rewrite !app_length; lia | auto using wf_bytes_app].
    + apply IH; [cbn [length] in Hl; lia|].
      inversion H as [|? ? _ H1]; subst. inversion H1 as [|? ? _ H2]; subst.
      inversion H2 as [|? ? _ H3]; subst. inversion H3 as [|? ? _ H4]; subst. exact H4.
Qed.

Lemma key_expansion_ok key : aes_key_ok key = true -> wf_bytes key -> Forall okb (key_expansion key).
Proof. intros Hk W. unfold key_expansion. eapply rk_of_words_ok; [reflexivity|]. now apply key_words_ok. Qed.

(* the closed block-cipher law of the concrete AES *)
Theorem aes_dec_enc key b : aes_key_ok key = true -> wf_bytes key -> okb b ->
  aes_dec key (aes_enc key b) = b /\ okb (aes_enc key b).
Proof.
  intros Hk W Hb. unfold aes_dec, aes_enc. apply inv_cipher_cipher_rks; [now apply key_expansion_ok | assumption].
Qed.

Example aes_dec_enc_nonvacuous : aes_key_ok (repeat 7 24) = true /\ wf_bytes (repeat 7 24) /\ okb (repeat 200 16).
Proof.
  split; [reflexivity|]. split; [|split; [reflexivity|]]; unfold wf_bytes; apply Forall_forall; intros x Hx;
    apply repeat_spec in Hx; subst; unfold wf_byte; lia.
Qed.

(* ------------------------------------------------------------------ SM4: decryption = encryption with reversed round keys *)
Lemma rev4_involutive s : rev4 (rev4 s) = s.
Proof. destruct s as [[[a b] c] d]. reflexivity. Qed.

Lemma sm4_round_rev F s rk : sm4_round F (rev4 (sm4_round F s rk)) rk = rev4 s.
Proof.
  destruct s as [[[a b] c] d]. cbn [sm4_round rev4]. f_equal.
  replace (N.lxor (N.lxor (N.lxor d c) b) rk) with (N.lxor (N.lxor (N.lxor b c) d) rk).
  - rewrite N.lxor_assoc, N.lxor_nilpotent, N.lxor_0_r. reflexivity.
  - f_equal. apply N.bits_inj. intros n. rewrite !N.lxor_spec.
    destruct (N.testbit b n), (N.testbit c n), (N.testbit d n); reflexivity.
Qed.

Lemma sm4_fold_rev F rks : forall x,
  fold_left (sm4_round F) (rev rks) (rev4 (fold_left (sm4_round F) rks x)) = rev4 x.
Proof.
  induction rks as [|rk t IH]; intros x; [reflexivity|].
  cbn [rev fold_left]. rewrite fold_left_app. cbn [fold_left]. rewrite IH. apply sm4_round_rev.
Qed.

Theorem sm4_words_dec_enc rks x : sm4_crypt_words (rev rks) (sm4_crypt_words rks x) = x.
Proof. unfold sm4_crypt_words. rewrite sm4_fold_rev. apply rev4_involutive. Qed.

(* ------------------------------------------------------------------ CRC: the register update splits over concatenation *)
Theorem crc_update_app p reg a b : crc_update p reg (a ++ b) = crc_update p (crc_update p reg a) b.
Proof. unfold crc_update. apply fold_left_app. Qed.

Theorem crc_app p a b : crc p (a ++ b) = crc_finish p (crc_update p (crc_update p (crc_init p) a) b).
Proof. unfold crc. now rewrite crc_update_app. Qed.

(* ------------------------------------------------------------------ CCM: decrypt (encrypt p) = Some p *)
Lemma pad16_mult l : exists q, length (pad16 l) = (q * 16)%nat.
Proof.
  unfold pad16, BS. pose proof (Nat.div_mod (length l) 16 ltac:(lia)) as Hd.
  pose proof (Nat.mod_upper_bound (length l) 16 ltac:(lia)) as Hu.
  destruct (Nat.modulo (length l) 16) as [|r] eqn:Er.
  - exists (Nat.div (length l) 16). lia.
  - exists (S (Nat.div (length l) 16)). unfold zeros. rewrite app_length, repeat_length. lia.
Qed.

Lemma eqb_list_refl a : eqb_list a a = true.
Proof. now apply eqb_list_spec. Qed.

Section CcmTheorems.
Variable E : list N -> list N.
Hypothesis E_len : forall b, length b = 16%nat -> length (E b) = 16%nat.

Lemma ccm_ctr_block_length nonce i : (length nonce <= 14)%nat -> length (ccm_ctr_block nonce i) = 16%nat.
Proof. intros H. unfold ccm_ctr_block. cbn [length]. rewrite app_length, be_enc_length. lia. Qed.

Lemma ccm_b0_length nonce t a n : (length nonce <= 14)%nat -> length (ccm_b0 nonce t a n) = 16%nat.
Proof. intros H. unfold ccm_b0. cbn [length]. rewrite app_length, be_enc_length. lia. Qed.

Lemma ccm_stream_involutive nonce bs : (length nonce <= 14)%nat -> forall i,
  Forall (fun b => (length b <= 16)%nat) bs -> ccm_stream E nonce i (ccm_stream E nonce i bs) = bs.
Proof.
  intros Hn. induction bs as [|b bs IH]; intros i H; [reflexivity|].
  inversion H; subst. simpl. rewrite xor_bytes_cancel by (rewrite E_len; auto using ccm_ctr_block_length).
  f_equal. apply IH; auto.
Qed.

Lemma ccm_stream_shape nonce bs : (length nonce <= 14)%nat -> forall i,
  Forall (fun b => (length b <= 16)%nat) bs ->
  Forall2 (fun a b => length a = length b) bs (ccm_stream E nonce i bs).
Proof.
  intros Hn. induction bs as [|b bs IH]; intros i H; simpl; [constructor|].
  inversion H; subst. constructor; [|apply IH; auto].
  rewrite xor_bytes_length_min, E_len by auto using ccm_ctr_block_length. lia.
Qed.

Lemma ccm_crypt_involutive nonce d : (length nonce <= 14)%nat -> ccm_crypt E nonce (ccm_crypt E nonce d) = d.
Proof.
  intros Hn. unfold ccm_crypt, BS.
  pose proof (chunked_chunks 16 d ltac:(lia)) as Hc.
  pose proof (chunked_le _ _ Hc) as Hl.
  rewrite chunks_concat_chunked; try lia.
  - rewrite ccm_stream_involutive by assumption. apply concat_chunks. lia.
  - eapply chunked_same_shape; [|exact Hc]. now apply ccm_stream_shape.
Qed.

Lemma ccm_crypt_length nonce d : (length nonce <= 14)%nat -> length (ccm_crypt E nonce d) = length d.
Proof.
  intros Hn. unfold ccm_crypt, BS.
  pose proof (chunked_le _ _ (chunked_chunks 16 d ltac:(lia))) as Hl.
  rewrite <- (concat_chunks 16 d) at 2 by lia. apply concat_length_same_shape. now apply ccm_stream_shape.
Qed.

Lemma cbc_mac_fold_length bs : Forall (fun b => length b = 16%nat) bs -> forall acc, length acc = 16%nat ->
  length (fold_left (fun acc b => E (xor_bytes b acc)) bs acc) = 16%nat.
Proof.
  induction 1 as [|b bs Hb _ IH]; intros acc Ha; [assumption|].
  simpl. apply IH. apply E_len. rewrite xor_bytes_length_min. lia.
Qed.

Lemma ccm_aad_blocks a : Forall (fun b => length b = 16%nat) (chunks BS (ccm_aad_enc a)).
Proof.
  unfold ccm_aad_enc, BS. destruct (nlen a =? 0); [constructor|].
  match goal with |- context [pad16 ?x] => destruct (pad16_mult x) as [q Hq] end.
  eapply chunks_full; [lia | exact Hq].
Qed.

Lemma ccm_tag_length nonce aad t p : (length nonce <= 14)%nat -> (t <= 16)%nat ->
  length (ccm_tag E nonce aad t p) = t.
Proof.
  intros Hn Ht. unfold ccm_tag. rewrite xor_bytes_length_min, firstn_length.
  rewrite E_len by now apply ccm_ctr_block_length.
  unfold cbc_mac. rewrite cbc_mac_fold_length; [lia| |reflexivity].
  constructor; [now apply ccm_b0_length|]. apply Forall_app. split; [apply ccm_aad_blocks|].
  destruct (pad16_mult p) as [q Hq]. eapply chunks_full; [unfold BS; lia | exact Hq].
Qed.

Theorem ccm_dec_enc_l nonce aad t p : (length nonce <= 14)%nat -> (t <= 16)%nat ->
  ccm_decrypt E nonce aad t (ccm_encrypt E nonce aad t p) = Some p.
Proof.
  intros Hn Ht. unfold ccm_decrypt, ccm_encrypt.
  pose proof (ccm_tag_length nonce aad t p Hn Ht) as Lt.
  pose proof (ccm_crypt_length nonce p Hn) as Lc.
  rewrite app_length, Lt, Lc.
  replace (Nat.ltb (length p + t) t) with false by (symmetry; apply Nat.ltb_ge; lia).
  replace (length p + t - t)%nat with (length (ccm_crypt E nonce p)) by lia.
  rewrite firstn_app, Nat.sub_diag, firstn_all. simpl firstn. rewrite app_nil_r.
  rewrite skipn_app, Nat.sub_diag, skipn_all. simpl.
  rewrite ccm_crypt_involutive by assumption. now rewrite eqb_list_refl.
Qed.
End CcmTheorems.

(* ------------------------------------------------------------------ XTS (with ciphertext stealing) *)
Lemma xts_mul_alpha_ok t : okb (xts_mul_alpha t).
Proof. unfold xts_mul_alpha, BS. split; [apply le_enc_length | apply le_enc_wf]. Qed.

Inductive xts_shape : list (list N) -> Prop :=
| xs_nil : xts_shape []
| xs_one b : okb b -> xts_shape [b]
| xs_steal b l : okb b -> wf_bytes l -> (length l < 16)%nat -> xts_shape [b; l]
| xs_cons b b' t : okb b -> okb b' -> xts_shape (b' :: t) -> xts_shape (b :: b' :: t).

Lemma xts_shape_of_chunked bs : chunked 16 bs -> Forall wf_bytes bs ->
  (match bs with [] => True | b :: _ => length b = 16%nat end) -> xts_shape bs.
Proof.
  induction bs as [|b t IH]; intros Hc Hw Hh; [constructor|].
  inversion Hw as [|? ? Wb Wt]; subst.
  destruct t as [|b' t']; [constructor; split; assumption|].
  cbn [chunked] in Hc. destruct Hc as [Lb Hc]. inversion Wt as [|? ? Wb' Wt']; subst.
  destruct t' as [|b'' t''].
  - cbn [chunked] in Hc. destruct (Nat.eq_dec (length b') 16) as [E16|N16].
    + apply xs_cons; [split; assumption | split; assumption | constructor; split; assumption].
    + apply xs_steal; [split; assumption | assumption | lia].
  - assert (Lb' : length b' = 16%nat) by (cbn [chunked] in Hc; tauto).
    apply xs_cons; [split; assumption | split; assumption |]. apply IH; assumption.
Qed.

Lemma chunks_hd_full (m : list N) : (16 <= length m)%nat ->
  match chunks 16 m with [] => True | b :: _ => length b = 16%nat end.
Proof.
  intros H. unfold chunks. destruct m as [|x m]; [simpl in H; lia|].
  cbn [length chunks_fuel]. rewrite firstn_length. cbn [length] in *. lia.
Qed.

Section XtsTheorems.
Variable E D : list N -> list N.
Hypothesis DE : forall b, okb b -> D (E b) = b.
Hypothesis E_ok : forall b, okb b -> okb (E b).

Lemma xts_block_ok t b : okb t -> okb b -> okb (xts_block E t b).
Proof. intros Ht Hb. unfold xts_block. apply okb_xor; [|assumption]. apply E_ok. now apply okb_xor. Qed.

Lemma xts_block_inv t b : okb t -> okb b -> xts_block D t (xts_block E t b) = b.
Proof.
  intros Ht Hb. unfold xts_block.
  assert (Hx : okb (xor_bytes b t)) by now apply okb_xor.
  pose proof (E_ok _ Hx) as He.
  rewrite xor_bytes_cancel by (destruct He, Ht; lia). rewrite DE by assumption.
  apply xor_bytes_cancel. destruct Hb, Ht; lia.
Qed.

Lemma steal_pp_ok (l cc : list N) : wf_bytes l -> (length l < 16)%nat -> okb cc -> okb (l ++ skipn (length l) cc).
Proof.
  intros Wl Ll [Lc Wc]. split.
  - rewrite app_length, skipn_length. lia.
  - apply wf_bytes_app; [assumption | now apply wf_bytes_skipn].
Qed.

Lemma xts_enc_head bs : xts_shape bs -> forall t, okb t ->
  match bs with
  | [] => True
  | _ :: _ => exists c r, xts_blocks E false t bs = c :: r /\ okb c
  end.
Proof.
  induction 1 as [|b Hb|b l Hb Wl Ll|b b' t' Hb Hb' Hs IH]; intros t Ht; [exact I| | |].
  - exists (xts_block E t b), []. split; [reflexivity | now apply xts_block_ok].
  - cbn [xts_blocks]. replace (Nat.ltb (length l) BS) with true by (symmetry; apply Nat.ltb_lt; unfold BS; lia).
    eexists _, _. split; [reflexivity|]. apply xts_block_ok; [apply xts_mul_alpha_ok|].
    apply steal_pp_ok; auto. now apply xts_block_ok.
  - assert (G : xts_blocks E false t (b :: b' :: t') = xts_block E t b :: xts_blocks E false (xts_mul_alpha t) (b' :: t')).
    { cbn [xts_blocks]. destruct t' as [|b'' t'']; [|reflexivity].
      replace (Nat.ltb (length b') BS) with false by (symmetry; apply Nat.ltb_ge; destruct Hb'; unfold BS; lia). reflexivity. }
    rewrite G. eexists _, _. split; [reflexivity | now apply xts_block_ok].
Qed.

Lemma xts_blocks_dec_enc bs : xts_shape bs -> forall t, okb t ->
  xts_blocks D true t (xts_blocks E false t bs) = bs.
Proof.
  induction 1 as [|b Hb|b l Hb Wl Ll|b b' t' Hb Hb' Hs IH]; intros t Ht; [reflexivity| | |].
  - cbn [xts_blocks]. now rewrite xts_block_inv.
  - cbn [xts_blocks]. replace (Nat.ltb (length l) BS) with true by (symmetry; apply Nat.ltb_lt; unfold BS; lia).
    pose proof (xts_block_ok t b Ht Hb) as Hcc.
    pose proof (steal_pp_ok l _ Wl Ll Hcc) as Hpp.
    assert (Lf : length (firstn (length l) (xts_block E t b)) = length l)
      by (rewrite firstn_length; destruct Hcc; lia).
    cbn [xts_blocks]. rewrite Lf.
    replace (Nat.ltb (length l) BS) with true by (symmetry; apply Nat.ltb_lt; unfold BS; lia).
    rewrite xts_block_inv by (auto using xts_mul_alpha_ok).
    rewrite skipn_app, Nat.sub_diag, skipn_all. cbn [app skipn].
    rewrite firstn_skipn. rewrite xts_block_inv by assumption.
    rewrite firstn_app, Nat.sub_diag, firstn_all. cbn [firstn]. now rewrite app_nil_r.
  - assert (G : xts_blocks E false t (b :: b' :: t') = xts_block E t b :: xts_blocks E false (xts_mul_alpha t) (b' :: t')).
    { cbn [xts_blocks]. destruct t' as [|b'' t'']; [|reflexivity].
      replace (Nat.ltb (length b') BS) with false by (symmetry; apply Nat.ltb_ge; destruct Hb'; unfold BS; lia). reflexivity. }
    rewrite G.
    destruct (xts_enc_head _ Hs (xts_mul_alpha t) (xts_mul_alpha_ok t)) as (c & r & Ec & Hc).
    specialize (IH (xts_mul_alpha t) (xts_mul_alpha_ok t)). rewrite Ec in *.
    assert (G2 : xts_blocks D true t (xts_block E t b :: c :: r) =
                 xts_block D t (xts_block E t b) :: xts_blocks D true (xts_mul_alpha t) (c :: r)).
    { cbn [xts_blocks]. destruct r as [|c' r']; [|reflexivity].
      replace (Nat.ltb (length c) BS) with false by (symmetry; apply Nat.ltb_ge; destruct Hc; unfold BS; lia). reflexivity. }
    rewrite G2, IH, xts_block_inv by assumption. reflexivity.
Qed.

Lemma xts_enc_shape bs : xts_shape bs -> forall t, okb t ->
  Forall2 (fun a b => length a = length b) bs (xts_blocks E false t bs).
Proof.
  induction 1 as [|b Hb|b l Hb Wl Ll|b b' t' Hb Hb' Hs IH]; intros t Ht; [constructor| | |].
  - cbn [xts_blocks]. constructor; [|constructor]. destruct (xts_block_ok t b Ht Hb), Hb. lia.
  - cbn [xts_blocks]. replace (Nat.ltb (length l) BS) with true by (symmetry; apply Nat.ltb_lt; unfold BS; lia).
    pose proof (xts_block_ok t b Ht Hb) as Hcc.
    pose proof (steal_pp_ok l _ Wl Ll Hcc) as Hpp.
    pose proof (xts_block_ok _ _ (xts_mul_alpha_ok t) Hpp) as Hc1.
    constructor; [destruct Hc1, Hb; lia|]. constructor; [|constructor].
    rewrite firstn_length. destruct Hcc. lia.
  - assert (G : xts_blocks E false t (b :: b' :: t') = xts_block E t b :: xts_blocks E false (xts_mul_alpha t) (b' :: t')).
    { cbn [xts_blocks]. destruct t' as [|b'' t'']; [|reflexivity].
      replace (Nat.ltb (length b') BS) with false by (symmetry; apply Nat.ltb_ge; destruct Hb'; unfold BS; lia). reflexivity. }
    rewrite G. constructor; [destruct (xts_block_ok t b Ht Hb), Hb; lia|]. apply IH, xts_mul_alpha_ok.
Qed.

(* E2 keys the tweak; any function producing a well-formed block will do *)
Theorem xts_dec_enc_l (E2 : list N -> list N) tweak m :
  okb (E2 tweak) -> wf_bytes m -> (16 <= length m)%nat ->
  xts_crypt D E2 true tweak (xts_crypt E E2 false tweak m) = m.
Proof.
  intros Ht W L. unfold xts_crypt, BS.
  pose proof (chunked_chunks 16 m ltac:(lia)) as Hc.
  assert (Hs : xts_shape (chunks 16 m)).
  { apply xts_shape_of_chunked; [assumption | now apply wf_chunks | now apply chunks_hd_full]. }
  rewrite chunks_concat_chunked; try lia.
  - rewrite xts_blocks_dec_enc by assumption. apply concat_chunks. lia.
  - eapply chunked_same_shape; [|exact Hc]. now apply xts_enc_shape.
Qed.

Lemma xts_enc_length (E2 : list N -> list N) tweak m :
  okb (E2 tweak) -> wf_bytes m -> (16 <= length m)%nat ->
  length (xts_crypt E E2 false tweak m) = length m.
Proof.
  intros Ht W L. unfold xts_crypt, BS.
  assert (Hs : xts_shape (chunks 16 m)).
  { apply xts_shape_of_chunked; [apply chunked_chunks; lia | now apply wf_chunks | now apply chunks_hd_full]. }
  rewrite <- (concat_chunks 16 m) at 2 by lia. apply concat_length_same_shape. now apply xts_enc_shape.
Qed.
End XtsTheorems.

(* ------------------------------------------------------------------ RFC 3394: unwrap (wrap k) = Some k *)
Definition ok8 (w : list N) : Prop := length w = 8%nat /\ wf_bytes w.

Lemma kw_pass_length E rs : forall a t, length (snd (kw_pass E a t rs)) = length rs.
Proof.
  induction rs as [|r rest IH]; intros a t; [reflexivity|].
  cbn [kw_pass]. specialize (IH (xor_bytes (firstn 8 (E (a ++ r))) (be_enc 8 t)) (t + 1)).
  destruct (kw_pass E _ (t + 1) rest) as [a'' rest']. cbn [snd length] in *. now rewrite IH.
Qed.

Lemma kw_unpass_app D l1 : forall a t l2,
  kw_unpass D a t (l1 ++ l2) =
  let '(a1, o1) := kw_unpass D a t l1 in
  let '(a2, o2) := kw_unpass D a1 (t - nlen l1) l2 in (a2, o1 ++ o2).
Proof.
  induction l1 as [|r rest IH]; intros a t l2.
  - cbn [app kw_unpass]. unfold nlen. cbn [length]. rewrite N.sub_0_r. now destruct (kw_unpass D a t l2).
  - cbn [app kw_unpass]. rewrite IH.
    destruct (kw_unpass D (firstn 8 (D (xor_bytes a (be_enc 8 t) ++ r))) (t - 1) rest) as [a1 o1].
    replace (t - nlen (r :: rest)) with (t - 1 - nlen rest) by (unfold nlen; cbn [length]; lia).
    destruct (kw_unpass D a1 (t - 1 - nlen rest) l2) as [a2 o2]. reflexivity.
Qed.

Lemma be_enc8_ok t : ok8 (be_enc 8 t).
Proof. split; [apply be_enc_length | apply be_enc_wf]. Qed.

Lemma ok8_app a r : ok8 a -> ok8 r -> okb (a ++ r).
Proof. intros [La Wa] [Lr Wr]. split; [rewrite app_length; lia | now apply wf_bytes_app]. Qed.

Lemma split8 (a r : list N) : length a = 8%nat -> firstn 8 (a ++ r) = a /\ skipn 8 (a ++ r) = r.
Proof.
  intros La. split.
  - rewrite firstn_app, La, Nat.sub_diag, firstn_O, app_nil_r. apply firstn_all2. lia.
  - rewrite skipn_app, La, Nat.sub_diag, skipn_O. rewrite skipn_all2 by lia. reflexivity.
Qed.

Section KwTheorems.
Variable E D : list N -> list N.
Hypothesis DE : forall b, okb b -> D (E b) = b.
Hypothesis E_ok : forall b, okb b -> okb (E b).

Lemma kw_step_ok a r t : ok8 a -> ok8 r ->
  ok8 (xor_bytes (firstn 8 (E (a ++ r))) (be_enc 8 t)) /\ ok8 (skipn 8 (E (a ++ r))).
Proof.
  intros Ha Hr. destruct (E_ok _ (ok8_app a r Ha Hr)) as [Lb Wb]. split; split.
  - rewrite xor_bytes_length_min, firstn_length, be_enc_length. lia.
  - apply xor_bytes_wf; [now apply wf_bytes_firstn | apply be_enc_wf].
  - rewrite skipn_length. lia.
  - now apply wf_bytes_skipn.
Qed.

Lemma kw_pass_ok rs : forall a t, ok8 a -> Forall ok8 rs ->
  ok8 (fst (kw_pass E a t rs)) /\ Forall ok8 (snd (kw_pass E a t rs)).
Proof.
  induction rs as [|r rest IH]; intros a t Ha H; [split; [assumption | constructor]|].
  inversion H as [|? ? Hr Hrest]; subst. cbn [kw_pass].
  destruct (kw_step_ok a r t Ha Hr) as [H1 H2].
  specialize (IH _ (t + 1) H1 Hrest).
  destruct (kw_pass E _ (t + 1) rest) as [a'' rest']. cbn [fst snd] in *. destruct IH. split; [assumption | now constructor].
Qed.

Lemma kw_pass_unpass rs : forall a t, ok8 a -> Forall ok8 rs ->
  kw_unpass D (fst (kw_pass E a t rs)) (t + nlen rs - 1) (rev (snd (kw_pass E a t rs))) = (a, rev rs).
Proof.
  induction rs as [|r rest IH]; intros a t Ha H; [reflexivity|].
  inversion H as [|? ? Hr Hrest]; subst. cbn [kw_pass].
  destruct (kw_step_ok a r t Ha Hr) as [H1 H2].
  set (b := E (a ++ r)) in *. set (a1 := xor_bytes (firstn 8 b) (be_enc 8 t)) in *.
  specialize (IH a1 (t + 1) H1 Hrest).
  pose proof (kw_pass_length E rest a1 (t + 1)) as Hl.
  destruct (kw_pass E a1 (t + 1) rest) as [a'' rest']. cbn [fst snd] in *.
  cbn [rev]. rewrite kw_unpass_app.
  replace (t + nlen (r :: rest) - 1) with (t + 1 + nlen rest - 1) by (unfold nlen; cbn [length]; lia).
  rewrite IH.
  replace (t + 1 + nlen rest - 1 - nlen (rev rest')) with t by (unfold nlen; rewrite rev_length, Hl; lia).
  cbn [kw_unpass]. unfold a1.
  assert (Lf : length (firstn 8 b) = 8%nat).
  { rewrite firstn_length. destruct (E_ok _ (ok8_app a r Ha Hr)) as [Lb _]. fold b in Lb. lia. }
  rewrite xor_bytes_cancel by (rewrite be_enc_length; lia).
  rewrite firstn_skipn. unfold b. rewrite DE by now apply ok8_app.
  destruct Ha as [La _]. destruct (split8 a r La) as [-> ->]. reflexivity.
Qed.

Lemma kw_passes_snoc j : forall a t rs,
  kw_passes E (S j) a t rs =
  kw_pass E (fst (kw_passes E j a t rs)) (t + N.of_nat j * nlen rs) (snd (kw_passes E j a t rs)).
Proof.
  induction j as [|j IH]; intros a t rs.
  - cbn [kw_passes fst snd]. rewrite N.mul_0_l, N.add_0_r. now destruct (kw_pass E a t rs).
  - change (kw_passes E (S (S j)) a t rs) with
      (let '(a', rs') := kw_pass E a t rs in kw_passes E (S j) a' (t + nlen rs) rs').
    change (kw_passes E (S j) a t rs) with
      (let '(a', rs') := kw_pass E a t rs in kw_passes E j a' (t + nlen rs) rs').
    pose proof (kw_pass_length E rs a t) as Hl.
    destruct (kw_pass E a t rs) as [a' rs']. cbn [snd] in Hl.
    rewrite IH. f_equal.
    unfold nlen. rewrite Hl, Nat2N.inj_succ, N.mul_succ_l. lia.
Qed.

Lemma kw_passes_ok j : forall a t rs, ok8 a -> Forall ok8 rs ->
  ok8 (fst (kw_passes E j a t rs)) /\ Forall ok8 (snd (kw_passes E j a t rs)) /\
  length (snd (kw_passes E j a t rs)) = length rs.
Proof.
  induction j as [|j IH]; intros a t rs Ha H; [cbn; auto|].
  cbn [kw_passes]. destruct (kw_pass_ok rs a t Ha H) as [H1 H2].
  pose proof (kw_pass_length E rs a t) as Hl.
  destruct (kw_pass E a t rs) as [a' rs']. cbn [fst snd] in *.
  destruct (IH a' (t + nlen rs) rs' H1 H2) as (I1 & I2 & I3). split; [exact I1 | split; [exact I2 | lia]].
Qed.

Lemma kw_passes_unpasses j : forall a t rs, ok8 a -> Forall ok8 rs ->
  kw_unpasses D j (fst (kw_passes E j a t rs)) (t + N.of_nat j * nlen rs - 1) (rev (snd (kw_passes E j a t rs))) = (a, rev rs).
Proof.
  induction j as [|j IH]; intros a t rs Ha H; [reflexivity|].
  rewrite kw_passes_snoc.
  destruct (kw_passes_ok j a t rs Ha H) as (O1 & O2 & O3).
  specialize (IH a t rs Ha H).
  destruct (kw_passes E j a t rs) as [a1 rs1]. cbn [fst snd] in *.
  pose proof (kw_pass_unpass rs1 a1 (t + N.of_nat j * nlen rs) O1 O2) as P.
  pose proof (kw_pass_length E rs1 a1 (t + N.of_nat j * nlen rs)) as Hl.
  destruct (kw_pass E a1 (t + N.of_nat j * nlen rs) rs1) as [a2 rs2]. cbn [fst snd] in *.
  cbn [kw_unpasses].
  replace (t + N.of_nat (S j) * nlen rs - 1) with (t + N.of_nat j * nlen rs + nlen rs1 - 1)
    by (unfold nlen; rewrite O3, Nat2N.inj_succ, N.mul_succ_l; lia).
  rewrite P.
  replace (t + N.of_nat j * nlen rs + nlen rs1 - 1 - nlen (rev rs2)) with (t + N.of_nat j * nlen rs - 1)
    by (unfold nlen; rewrite rev_length, Hl; lia).
  exact IH.
Qed.

Lemma kw_iv_ok : ok8 kw_iv.
Proof.
  split; [reflexivity|]. unfold kw_iv, wf_bytes. apply Forall_forall. intros x Hx.
  apply repeat_spec in Hx. subst. unfold wf_byte. lia.
Qed.

Theorem unwrap_wrap_l data : wf_bytes data -> Nat.modulo (length data) 8 = 0%nat ->
  kw_unwrap D (kw_wrap E data) = Some data.
Proof.
  intros W M. destruct (mod_mult_exists _ 8 ltac:(lia) M) as [q Hq].
  assert (Hcs : Forall ok8 (chunks 8 data)).
  { pose proof (chunks_full 8 data q ltac:(lia) Hq) as F1. pose proof (wf_chunks 8 data W) as F2.
    rewrite Forall_forall in *. intros x Hx. split; auto. }
  unfold kw_wrap, kw_unwrap.
  pose proof (kw_passes_unpasses 6 kw_iv 1 (chunks 8 data) kw_iv_ok Hcs) as P.
  destruct (kw_passes_ok 6 kw_iv 1 (chunks 8 data) kw_iv_ok Hcs) as ([La Wa] & O2 & O3).
  destruct (kw_passes E 6 kw_iv 1 (chunks 8 data)) as [a rs]. cbn [fst snd] in *.
  destruct (split8 a (concat rs) La) as [-> ->].
  rewrite chunks_concat; [|lia|eapply Forall_impl; [|exact O2]; now intros x [Lx _]].
  replace (6 * nlen rs) with (1 + N.of_nat 6 * nlen (chunks 8 data) - 1) by (unfold nlen; rewrite O3; lia).
  rewrite P. rewrite eqb_list_refl, rev_involutive, concat_chunks by lia. reflexivity.
Qed.
End KwTheorems.

(* ------------------------------------------------------------------ SM4 on byte blocks *)
Definition w32 (x : N) : Prop := x < 2 ^ 32.
Definition w4_ok (s : w4) : Prop := let '(a, b, c, d) := s in w32 a /\ w32 b /\ w32 c /\ w32 d.

Lemma lor_lt_pow2 a b n : a < 2 ^ n -> b < 2 ^ n -> N.lor a b < 2 ^ n.
Proof.
  intros Ha Hb.
  destruct (N.eq_dec (N.lor a b) 0) as [E|E]; [rewrite E; apply N.neq_0_lt_0, N.pow_nonzero; lia|].
  apply N.log2_lt_pow2; [lia|]. rewrite N.log2_lor.
  destruct (N.eq_dec a 0) as [Ea|Ea]; destruct (N.eq_dec b 0) as [Eb|Eb]; subst.
  - simpl in E. congruence.
  - rewrite N.max_r by (simpl; lia). apply N.log2_lt_pow2; lia.
  - rewrite N.max_l by (simpl; lia). apply N.log2_lt_pow2; lia.
  - apply N.max_lub_lt; apply N.log2_lt_pow2; lia.
Qed.

Lemma sm4_sbox_lt x : sm4_sbox x < 256.
Proof. apply N.ltb_lt. apply (tbl_all_get (fun v => v <? 256)). vm_compute. reflexivity. Qed.

Lemma shiftr_w32 x k : w32 x -> w32 (N.shiftr x k).
Proof.
  unfold w32. intros H. rewrite N.shiftr_div_pow2.
  eapply N.le_lt_trans; [|exact H]. apply N.div_le_upper_bound; [apply N.pow_nonzero; lia|].
  assert (2 ^ k <> 0) by (apply N.pow_nonzero; lia). nia.
Qed.

Lemma rotl32_w32 n x : w32 x -> w32 (rotl32 n x).
Proof.
  intros H. unfold rotl32, w32. apply lor_lt_pow2; [|now apply shiftr_w32].
  change m32 with (N.ones 32). rewrite N.land_ones. apply N.mod_lt. apply N.pow_nonzero. lia.
Qed.

Lemma sm4_tau_w32 a : w32 (sm4_tau a).
Proof.
  unfold sm4_tau, w32.
  assert (S : forall v k, v < 256 -> k <= 24 -> N.shiftl v k < 2 ^ 32).
  { intros v k Hv Hk. rewrite N.shiftl_mul_pow2.
    assert (2 ^ k <= 2 ^ 24) by (apply N.pow_le_mono_r; lia).
    change (2 ^ 32) with (256 * 2 ^ 24). nia. }
  repeat apply lor_lt_pow2; try (apply S; [apply sm4_sbox_lt | lia]).
  pose proof (sm4_sbox_lt (N.land a 255)). change (2 ^ 32) with 4294967296. lia.
Qed.

Lemma lxor_w32 a b : w32 a -> w32 b -> w32 (N.lxor a b).
Proof. apply lxor_lt_pow2. Qed.

Lemma sm4_T_w32 x : w32 (sm4_T x).
Proof.
  unfold sm4_T, sm4_L. pose proof (sm4_tau_w32 x) as H.
  repeat apply lxor_w32; auto using rotl32_w32.
Qed.

Lemma sm4_round_ok s rk : w4_ok s -> w4_ok (sm4_round sm4_T s rk).
Proof.
  destruct s as [[[a b] c] d]. intros (Ha & Hb & Hc & Hd). cbn [sm4_round w4_ok].
  repeat split; auto. apply lxor_w32; [assumption | apply sm4_T_w32].
Qed.

Lemma sm4_fold_ok rks : forall s, w4_ok s -> w4_ok (fold_left (sm4_round sm4_T) rks s).
Proof. induction rks as [|rk t IH]; intros s H; [assumption|]. cbn [fold_left]. apply IH. now apply sm4_round_ok. Qed.

Lemma rev4_ok s : w4_ok s -> w4_ok (rev4 s).
Proof. destruct s as [[[a b] c] d]. cbn. tauto. Qed.

Lemma words4_bytes4 s : w4_ok s -> words4 (bytes4 s) = s.
Proof.
  destruct s as [[[a b] c] d]. intros (Ha & Hb & Hc & Hd). unfold words4, bytes4.
  assert (L4 : forall x, exists p q r s, be_enc 4 x = [p; q; r; s]).
  { intros x. pose proof (be_enc_length 4 x) as L. destruct (be_enc 4 x) as [|p [|q [|r [|s [|? ?]]]]]; try discriminate L. eauto. }
  destruct (L4 a) as (a0 & a1 & a2 & a3 & Ea). destruct (L4 b) as (b0 & b1 & b2 & b3 & Eb).
  destruct (L4 c) as (c0 & c1 & c2 & c3 & Ec). destruct (L4 d) as (d0 & d1 & d2 & d3 & Ed).
  rewrite Ea, Eb, Ec, Ed. cbn [app firstn skipn]. rewrite <- Ea, <- Eb, <- Ec, <- Ed.
  rewrite !be_dec_enc_small by assumption. reflexivity.
Qed.

Lemma bytes4_ok s : okb (bytes4 s).
Proof.
  destruct s as [[[a b] c] d]. unfold bytes4. split.
  - rewrite !app_length, !be_enc_length. reflexivity.
  - apply wf_bytes_app; [apply be_enc_wf|]. apply wf_bytes_app; [apply be_enc_wf|]. apply wf_bytes_app; apply be_enc_wf.
Qed.

Lemma words4_ok b : okb b -> w4_ok (words4 b).
Proof.
  intros [L W]. unfold words4, w4_ok, w32.
  assert (B : forall l : list N, wf_bytes l -> (length l <= 4)%nat -> be_dec l < 2 ^ 32).
  { intros l Wl Ll. unfold be_dec. eapply N.lt_le_trans; [apply le_dec_bound; unfold wf_bytes; now apply Forall_rev|].
    apply N.pow_le_mono_r; [lia|]. rewrite rev_length. lia. }
  repeat split; apply B; auto using wf_bytes_firstn, wf_bytes_skipn; rewrite firstn_length; lia.
Qed.

Lemma bytes4_words4 b : okb b -> bytes4 (words4 b) = b.
Proof.
  intros H. destruct16 b H. wf_inv W. unfold words4, bytes4. cbn [firstn skipn].
  assert (R : forall x y z w, x < 256 -> y < 256 -> z < 256 -> w < 256 -> be_enc 4 (be_dec [x; y; z; w]) = [x; y; z; w]).
  { intros. apply (be_enc_dec [x; y; z; w]). unfold wf_bytes, wf_byte. repeat constructor; assumption. }
  rewrite !R by assumption. reflexivity.
Qed.

Theorem sm4_bytes_dec_enc rks b : okb b ->
  sm4_crypt_rks (rev rks) (sm4_crypt_rks rks b) = b /\ okb (sm4_crypt_rks rks b).
Proof.
  intros Hb. split; [|apply bytes4_ok]. unfold sm4_crypt_rks.
  rewrite words4_bytes4.
  - rewrite sm4_words_dec_enc. now apply bytes4_words4.
  - unfold sm4_crypt_words. apply rev4_ok, sm4_fold_ok, words4_ok, Hb.
Qed.

Theorem sm4_dec_enc_l key b : okb b -> sm4_dec key (sm4_enc key b) = b /\ okb (sm4_enc key b).
Proof. intros Hb. unfold sm4_dec, sm4_enc. now apply sm4_bytes_dec_enc. Qed.

(* ------------------------------------------------------------------ lengths (no well-formedness needed) *)
Lemma shift_rows_length s : length s = 16%nat -> length (shift_rows s) = 16%nat.
Proof. intros L. do 16 (destruct s as [|? s]; [discriminate L|]); destruct s; [|discriminate L]. reflexivity. Qed.
Lemma mix_columns_length s : length s = 16%nat -> length (mix_columns s) = 16%nat.
Proof. intros L. do 16 (destruct s as [|? s]; [discriminate L|]); destruct s; [|discriminate L]. reflexivity. Qed.
Lemma sub_bytes_length s : length (sub_bytes s) = length s.
Proof. apply map_length. Qed.
Lemma ark_length k s : length k = 16%nat -> length s = 16%nat -> length (add_round_key k s) = 16%nat.
Proof. intros. unfold add_round_key. rewrite xor_bytes_length_min. lia. Qed.

Lemma enc_loop_length rks : Forall (fun k => length k = 16%nat) rks -> forall s, length s = 16%nat ->
  length (enc_loop rks s) = 16%nat.
Proof.
  induction 1 as [|k more Hk _ IH]; intros s Hs; [assumption|].
  cbn [enc_loop]. destruct more.
  - unfold aes_final. apply ark_length; auto. apply shift_rows_length. now rewrite sub_bytes_length.
  - apply IH. unfold aes_round. apply ark_length; auto.
    apply mix_columns_length, shift_rows_length. now rewrite sub_bytes_length.
Qed.

Lemma cipher_rks_length rks b : Forall (fun k => length k = 16%nat) rks -> length b = 16%nat ->
  length (cipher_rks rks b) = 16%nat.
Proof.
  intros H Hb. destruct H as [|k0 rest Hk0 Hrest]; [assumption|].
  unfold cipher_rks. apply enc_loop_length; auto. now apply ark_length.
Qed.

Lemma aes_enc_length key b : aes_key_ok key = true -> wf_bytes key -> length b = 16%nat ->
  length (cipher_rks (key_expansion key) b) = 16%nat.
Proof.
  intros Hk W Hb. apply cipher_rks_length; auto.
  eapply Forall_impl; [|apply key_expansion_ok; assumption]. now intros k [L _].
Qed.

Section EcbLength.
Variable E : list N -> list N.
Hypothesis E_ok : forall b, okb b -> okb (E b).
Lemma ecb_length m : wf_bytes m -> Nat.modulo (length m) 16 = 0%nat ->
  length (ecb E m) = length m /\ wf_bytes (ecb E m).
Proof.
  intros W M. unfold ecb, BS. pose proof (okb_chunks m W M) as H.
  pose proof (ecb_blocks_ok E E_ok _ H) as Hc. split.
  - rewrite (concat_length_uniform 16) by (eapply Forall_impl; [|exact Hc]; now intros b [L _]).
    unfold ecb_blocks. rewrite map_length.
    rewrite <- (concat_chunks 16 m) at 2 by lia.
    rewrite (concat_length_uniform 16) by (eapply Forall_impl; [|exact H]; now intros b [L _]). reflexivity.
  - apply wf_bytes_concat. eapply Forall_impl; [|exact Hc]. now intros b [_ Hw].
Qed.
End EcbLength.

Section KwLength.
Variable E : list N -> list N.
Hypothesis E_ok : forall b, okb b -> okb (E b).
Lemma kw_wrap_length data : wf_bytes data -> Nat.modulo (length data) 8 = 0%nat ->
  length (kw_wrap E data) = (8 + length data)%nat /\ wf_bytes (kw_wrap E data).
Proof.
  intros W M. destruct (mod_mult_exists _ 8 ltac:(lia) M) as [q Hq].
  assert (Hcs : Forall ok8 (chunks 8 data)).
  { pose proof (chunks_full 8 data q ltac:(lia) Hq) as F1. pose proof (wf_chunks 8 data W) as F2.
    rewrite Forall_forall in *. intros x Hx. split; auto. }
  unfold kw_wrap.
  destruct (kw_passes_ok E E_ok 6 kw_iv 1 (chunks 8 data) kw_iv_ok Hcs) as ([La Wa] & O2 & O3).
  destruct (kw_passes E 6 kw_iv 1 (chunks 8 data)) as [a rs]. cbn [fst snd] in *.
  assert (L8 : Forall (fun b : list N => length b = 8%nat) rs) by (eapply Forall_impl; [|exact O2]; now intros x [Lx _]).
  assert (L8' : Forall (fun b : list N => length b = 8%nat) (chunks 8 data)) by (eapply Forall_impl; [|exact Hcs]; now intros x [Lx _]).
  split.
  - rewrite app_length, La, (concat_length_uniform 8 rs L8), O3.
    rewrite <- (concat_chunks 8 data) at 2 by lia. rewrite (concat_length_uniform 8 _ L8'). reflexivity.
  - apply wf_bytes_app; [assumption|]. apply wf_bytes_concat. eapply Forall_impl; [|exact O2]. now intros x [_ Wx].
Qed.
End KwLength.
