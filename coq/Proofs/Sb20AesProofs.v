(* Proofs/Sb20AesProofs.v -- C04, Secure Binary 2.0: property statements (cipher-parametric and concrete CryptoRef AES)
   and kernel-evaluated instances. *)
From Coq Require Import ZArith NArith List Bool Lia.
Require Import Value Bytes BytesProofs GenSb2 GenSb20 Sha2 Aes Modes Hmac KeyWrap Crc Sb2Model Sb20Model.
Require Import Sb2Proofs Sb2AesProofs Sb20Proofs.
Import ListNotations.
Local Open Scope N_scope.

Definition aes_keys_ok20 (y : sb20in) : Prop :=
  aes_key_ok (y_kek y) = true /\ wf_bytes (y_kek y) /\ wf_bytes (y_dek y) /\ wf_bytes (y_mac y).

Lemma aes_dom_of20 y : aes_keys_ok20 y -> aes_dom (y_kek y) (y_dek y ++ y_mac y).
Proof. intros (H1 & H2 & H3 & H4). split; [assumption|]. split; [assumption|]. now apply wf_bytes_app. Qed.

Definition rom20_concl (r : rom20_out) (y : sb20in) (file : list N) : Prop :=
  t_secs r = spec_of (y_secs y) /\ t_signed r = y_signed y /\ t_pv r = y_pv y /\ t_cv r = y_cv y /\
  t_build r = y_build y /\ t_ts r = y_ts y /\ t_sig r = sigpart y /\
  file = firstn (t_signed_len r) file ++ sigpart y /\ length (firstn (t_signed_len r) file) = t_signed_len r /\
    t_boot_index r = 0%nat /\ hdr_first_boot_section_id file = option_map s_uid (hd_error (y_secs y)).

(* ---------------- cipher-parametric statements *)
Lemma rom20_build_thm :
  forall (E D : list N -> list N -> list N),
  (forall k b, length (E k b) = 16%nat) -> (forall k b, length b = 16%nat -> D k (E k b) = b) ->
  forall y file, wf_sb20 y -> build20_gen E y = Ok file ->
  exists r, rom20 E D (y_sigsize y) (y_kek y) file = Some r /\
    t_secs r = spec_of (y_secs y) /\ t_signed r = y_signed y /\ t_pv r = y_pv y /\ t_cv r = y_cv y /\
    t_build r = y_build y /\ t_ts r = y_ts y /\ t_sig r = sigpart y /\
    file = firstn (t_signed_len r) file ++ sigpart y /\ length (firstn (t_signed_len r) file) = t_signed_len r /\
    t_boot_index r = 0%nat /\ hdr_first_boot_section_id file = option_map s_uid (hd_error (y_secs y)).
Proof.
  intros E D HE HD y file W H.
  exact (rom20_build_lemma E D HE (fun _ _ => True) (KW_of_DE E D HE HD) y file W I H).
Qed.

Lemma spsdk_parse20_build_thm :
  forall (E D : list N -> list N -> list N),
  (forall k b, length (E k b) = 16%nat) -> (forall k b, length b = 16%nat -> D k (E k b) = b) ->
  forall y file, wf_sb20 y -> bcd3 (y_pv y) = true -> bcd3 (y_cv y) = true -> aes_key_ok (y_kek y) = true ->
  build20_gen E y = Ok file ->
  exists oss, Forall2 sec_obs_rel (y_secs y) oss /\
    parse20 E D true (y_kek y) file =
    Ok (mkParsed20 (y_signed y) (y_pv y) (y_cv y) (y_build y) (y_ts y / 1000000 * 1000000) (y_nonce y) (y_dek y) (y_mac y) oss
                   (length file - length (sigpart y))).
Proof.
  intros E D HE HD y file W Hp Hc Hk H.
  exact (spsdk_parse20_build_lemma E D HE (fun _ _ => True) (KW_of_DE E D HE HD) y file W I Hp Hc Hk H).
Qed.

Lemma counter_agreement20_thm :
  forall (E D : list N -> list N -> list N),
  (forall k b, length (E k b) = 16%nat) -> (forall k b, length b = 16%nat -> D k (E k b) = b) ->
  forall y file, wf_sb20 y -> build20_gen E y = Ok file ->
  exists pre bs, file = pre ++ bs ++ sigpart y /\ (length pre mod 16 = 0)%nat /\
    (y_signed y = true -> exists hp, length hp = 16%nat /\
        slice pre 208 224 = xblock (E (y_dek y)) (y_nonce y) (ctr_of_nonce (y_nonce y) + N.of_nat (208 / 16)) hp) /\
    secs_export (E (y_dek y)) (y_mac y) (y_nonce y) (ctr_of_nonce (y_nonce y) + N.of_nat (length pre / 16)) (y_secs y) = Ok bs /\
    rom_sections (E (y_dek y)) (S (length file)) (y_mac y) (y_nonce y) (pre ++ bs) (length pre) (length pre + length bs)
      = Some (spec_of (y_secs y)).
Proof.
  intros E D HE HD y file W H.
  exact (counter_agreement20_lemma E D HE (fun _ _ => True) (KW_of_DE E D HE HD) y file W I H).
Qed.

Lemma coverage20_thm :
  forall (E D : list N -> list N -> list N),
  (forall k b, length (E k b) = 16%nat) -> (forall k b, length b = 16%nat -> D k (E k b) = b) ->
  forall y file, wf_sb20 y -> build20_gen E y = Ok file ->
  exists hb kb0 csb bs,
    file = hb ++ hmac256 (y_mac y) hb ++ (kb0 ++ y_pad2 y) ++ csb ++ bs ++ sigpart y /\
    length hb = 96%nat /\ length kb0 = 72%nat /\ length (y_pad2 y) = 8%nat /\
    kw_unwrap (D (y_kek y)) kb0 = Some (y_dek y ++ y_mac y) /\
    (if y_signed y
     then exists ench cbb, length ench = 16%nat /\ length cbb = cb_raw_size (y_cb y) /\
                           csb = ench ++ hmac256 (y_mac y) ench ++ hmac256 (y_mac y) cbb ++ cbb
     else csb = []) /\
    covered (y_mac y) bs (length (y_secs y)) /\
    length (sigpart y) = (if y_signed y then y_sigsize y else 0%nat).
Proof.
  intros E D HE HD y file W H.
  exact (coverage20_lemma E D HE (fun _ _ => True) (KW_of_DE E D HE HD) y file W I H).
Qed.

(* ---------------- concrete AES *)
Lemma rom20_build_aes_thm :
  forall y file, wf_sb20 y -> aes_keys_ok20 y -> build20 y = Ok file ->
  exists r, rom20_aes (y_sigsize y) (y_kek y) file = Some r /\
    t_secs r = spec_of (y_secs y) /\ t_signed r = y_signed y /\ t_pv r = y_pv y /\ t_cv r = y_cv y /\
    t_build r = y_build y /\ t_ts r = y_ts y /\ t_sig r = sigpart y /\
    file = firstn (t_signed_len r) file ++ sigpart y /\ length (firstn (t_signed_len r) file) = t_signed_len r /\
    t_boot_index r = 0%nat /\ hdr_first_boot_section_id file = option_map s_uid (hd_error (y_secs y)).
Proof.
  intros y file W K H.
  exact (rom20_build_lemma sbE sbD sbE_length aes_dom KW_aes y file W (aes_dom_of20 y K) H).
Qed.

Lemma spsdk_parse20_build_aes_thm :
  forall y file, wf_sb20 y -> aes_keys_ok20 y -> bcd3 (y_pv y) = true -> bcd3 (y_cv y) = true -> build20 y = Ok file ->
  exists oss, Forall2 sec_obs_rel (y_secs y) oss /\
    spsdk_parse20 true (y_kek y) file =
    Ok (mkParsed20 (y_signed y) (y_pv y) (y_cv y) (y_build y) (y_ts y / 1000000 * 1000000) (y_nonce y) (y_dek y) (y_mac y) oss
                   (length file - length (sigpart y))).
Proof.
  intros y file W K Hp Hc H.
  exact (spsdk_parse20_build_lemma sbE sbD sbE_length aes_dom KW_aes y file W (aes_dom_of20 y K) Hp Hc (proj1 K) H).
Qed.

Lemma counter_agreement20_aes_thm :
  forall y file, wf_sb20 y -> aes_keys_ok20 y -> build20 y = Ok file ->
  exists pre bs, file = pre ++ bs ++ sigpart y /\ (length pre mod 16 = 0)%nat /\
    (y_signed y = true -> exists hp, length hp = 16%nat /\
        slice pre 208 224 = xblock (sbE (y_dek y)) (y_nonce y) (ctr_of_nonce (y_nonce y) + N.of_nat (208 / 16)) hp) /\
    secs_export (sbE (y_dek y)) (y_mac y) (y_nonce y) (ctr_of_nonce (y_nonce y) + N.of_nat (length pre / 16)) (y_secs y) = Ok bs /\
    rom_sections (sbE (y_dek y)) (S (length file)) (y_mac y) (y_nonce y) (pre ++ bs) (length pre) (length pre + length bs)
      = Some (spec_of (y_secs y)).
Proof.
  intros y file W K H.
  exact (counter_agreement20_lemma sbE sbD sbE_length aes_dom KW_aes y file W (aes_dom_of20 y K) H).
Qed.

(* ---------------- SB 2.1: first boot section *)
Lemma rom21_first_boot_section_thm :
  forall (E D : list N -> list N -> list N),
  (forall k b, length (E k b) = 16%nat) -> (forall k b, length b = 16%nat -> D k (E k b) = b) ->
  forall x file, wf_sbin x -> build21_gen E true x = Ok file ->
  exists r, rom21_boot E D (x_sigsize x) (x_kek x) file = Some (r, 0%nat) /\
     r_secs r = spec_of (x_secs x) /\ r_flags r = x_flags x /\ r_pv r = x_pv x /\ r_cv r = x_cv x /\
     r_build r = x_build x /\ r_ts r = x_ts x /\ r_major r = 2 /\ r_minor r = 1 /\
     r_sig r = x_sig x /\ r_signed_len r = signed_len_of x /\
     hdr_first_boot_section_id file = option_map s_uid (hd_error (x_secs x)).
Proof.
  intros E D HE HD x file W H.
  exact (rom21_boot_build_lemma E D HE (fun _ _ => True) (KW_of_DE E D HE HD) x file W I H).
Qed.

Lemma rom21_first_boot_section_aes_thm :
  forall x file, wf_sbin x -> aes_keys_ok x -> build21 x = Ok file ->
  exists r, rom21_boot_aes (x_sigsize x) (x_kek x) file = Some (r, 0%nat) /\
     r_secs r = spec_of (x_secs x) /\ r_flags r = x_flags x /\ r_pv r = x_pv x /\ r_cv r = x_cv x /\
     r_build r = x_build x /\ r_ts r = x_ts x /\ r_major r = 2 /\ r_minor r = 1 /\
     r_sig r = x_sig x /\ r_signed_len r = signed_len_of x /\
     hdr_first_boot_section_id file = option_map s_uid (hd_error (x_secs x)).
Proof.
  intros x file W K H.
  exact (rom21_boot_build_lemma sbE sbD sbE_length aes_dom KW_aes x file W (aes_dom_of x K) H).
Qed.

(* ---------------- kernel-evaluated instances (the premises are satisfiable; signed and unsigned) *)
Definition demo20 (signed : bool) : sb20in :=
  mkSb20 signed (map N.of_nat (seq 0 32)) (repeat 160 32) (repeat 11 32) (map N.of_nat (seq 0 16)) (zeros 8) (zeros 8)
         633315200000000 (1, 2, 3) (4, 5, 6) 7 demo_secs (mkCb 0 [[48; 130; 1; 2]] (zeros 128)) 16 (repeat 170 16).

Lemma demo20_wf signed : wf_sb20 (demo20 signed) /\ aes_keys_ok20 (demo20 signed).
Proof.
  split.
  - unfold wf_sb20, demo20, demo_secs, secs_wf, ver_ok. cbn [y_secs y_dek y_mac y_pad2 y_sig y_sigsize y_signed y_pv y_cv fst snd].
    repeat split; try reflexivity; repeat constructor.
  - unfold aes_keys_ok20, demo20. cbn [y_kek y_dek y_mac]. split; [reflexivity|].
    repeat split; apply wf_bytesb_spec; reflexivity.
Qed.

Example demo20_rom_accepts :
  forall signed, exists file r p,
    build20 (demo20 signed) = Ok file /\ rom20_aes 16 (y_kek (demo20 signed)) file = Some r /\
    t_secs r = spec_of demo_secs /\ t_signed r = signed /\
    spsdk_parse20 true (y_kek (demo20 signed)) file = Ok p /\ length (q_secs p) = 2%nat /\ q_signed p = signed.
Proof.
  intros [|]; (eexists; eexists; eexists; split; [vm_compute; reflexivity|]; split; [vm_compute; reflexivity|];
  split; [vm_compute; reflexivity|]; split; [vm_compute; reflexivity|]; split; [vm_compute; reflexivity|]; vm_compute; repeat split).
Qed.
