(* Proofs/AhabProofs.v -- lemmas about Model/AhabModel.v (C06). *)
From Coq Require Import ZArith NArith List Bool Lia ZifyBool.
Require Import Value Bytes BytesProofs Sha2 Aes Modes CryptoProofs GenMisc GenAhab AhabModel.
Import ListNotations.
Local Open Scope Z_scope.
Ltac Zify.zify_post_hook ::= Z.to_euclidean_division_equations.

(* ------------------------------------------------------------------ basics *)
Lemma le_length w z : length (le w z) = w.
Proof. apply le_enc_length. Qed.

Lemma fits_spec w z : fits w z = true <-> 0 <= z < 2 ^ (8 * Z.of_nat w).
Proof. unfold fits. rewrite andb_true_iff, Z.leb_le, Z.ltb_lt. tauto. Qed.

Lemma fits_N w z : fits w z = true -> (Z.to_N z < 2 ^ (8 * N.of_nat w))%N.
Proof.
  intros H. apply fits_spec in H. destruct H as [H0 H1].
  apply N2Z.inj_lt. rewrite Z2N.id by assumption. rewrite N2Z.inj_pow, N2Z.inj_mul, nat_N_Z. exact H1.
Qed.

(* reading back a field that sits, as exported, at a literal position *)
Lemma rd_field l off w z :
  slice l off (off + w) = le w z -> fits w z = true -> rd l off w = z.
Proof.
  intros Hs Hf. unfold rd. rewrite Hs. unfold le. rewrite le_dec_enc_small by now apply fits_N.
  apply Z2N.id. apply fits_spec in Hf. lia.
Qed.

Lemma firstn_app_exact {A} (h t : list A) n : length h = n -> firstn n (h ++ t) = h.
Proof. intros <-. rewrite firstn_app, Nat.sub_diag, firstn_all. simpl. apply app_nil_r. Qed.

Lemma skipn_app_exact {A} (h t : list A) n : length h = n -> skipn n (h ++ t) = t.
Proof. intros <-. rewrite skipn_app, Nat.sub_diag, skipn_all. reflexivity. Qed.

Lemma fit_s_exact n l : length l = n -> fit_s n l = l.
Proof. intros H. unfold fit_s. rewrite <- H, firstn_all, Nat.sub_diag. simpl. apply app_nil_r. Qed.

Lemma fit_s_length n l : length (fit_s n l) = n.
Proof. unfold fit_s. rewrite app_length, firstn_length, repeat_length. lia. Qed.

(* ------------------------------------------------------------------ layouts agree with the struct formats of the source *)
Lemma layouts_match_source_l :
  gen_fmt_container = [1; 2; 1; 4; 2; 1; 1; 2; 2] /\ gen_fmt_iae = [4; 4; 8; 8; 4; 4; 64; 32] /\
  gen_fmt_sigblock = [1; 2; 1; 2; 2; 2; 2; 4] /\ gen_fmt_srk_record = [1; 2; 1; 1; 1; 1; 1; 4] /\
  gen_fmt_srk_table = [1; 2; 1] /\ gen_fmt_signature = [1; 2; 1; 4] /\ gen_fmt_blob = [1; 2; 1; 1; 1; 1; 1] /\
  (forall v l f s u n o, length (header_bytes_raw v l f s u n o) = Z.to_nat (fold_right Z.add 0%Z gen_fmt_container)) /\
  (forall e, length (iae_bytes e) = Z.to_nat (fold_right Z.add 0%Z gen_fmt_iae)) /\
  (forall v sb, length (sigblock_header v sb) = Z.to_nat (fold_right Z.add 0%Z gen_fmt_sigblock)) /\
  (forall r, length (srk_rec_bytes r) = (Z.to_nat (fold_right Z.add 0%Z gen_fmt_srk_record) + length (sr_params r))%nat) /\
  (forall n s, length (signature_bytes n s) = (Z.to_nat (fold_right Z.add 0%Z gen_fmt_signature) + length s)%nat) /\
  (forall b, length (blob_bytes b) = (Z.to_nat (fold_right Z.add 0%Z gen_fmt_blob) + length (b_keyblob b))%nat).
Proof.
  repeat split; try reflexivity; intros;
    unfold header_bytes_raw, iae_bytes, sigblock_header, srk_rec_bytes, signature_bytes, blob_bytes;
    try destruct (key_sizes _); rewrite ?app_length, ?le_length, ?fit_s_length; simpl; lia.
Qed.

(* ------------------------------------------------------------------ image array entry: parse (export e) = e *)
Definition iae_wire (e : iae) : iae :=
  {| i_raw_off := i_raw_off e; i_size := i_size e; i_load := i_load e; i_entry := i_entry e; i_flags := i_flags e;
     i_meta := i_meta e; i_hash := i_hash e; i_iv := i_iv e; i_image := []; i_plain := []; i_gap := 0; i_size_align := 0;
     i_ele := false |}.

Lemma iae_roundtrip_l e rest :
  iae_fmt_ok e = true -> length (i_hash e) = 64%nat -> length (i_iv e) = 32%nat ->
  iae_parse (iae_bytes e ++ rest) = iae_wire e.
Proof.
  intros Hf Hh Hi. unfold iae_fmt_ok in Hf. do 5 (apply andb_true_iff in Hf; destruct Hf as [Hf ?]).
  unfold iae_parse, iae_wire, iae_bytes. rewrite (fit_s_exact 64) by assumption. rewrite (fit_s_exact 32) by assumption.
  f_equal.
  - apply rd_field; [reflexivity | assumption].
  - apply rd_field; [reflexivity | assumption].
  - apply rd_field; [reflexivity | assumption].
  - apply rd_field; [reflexivity | assumption].
  - apply rd_field; [reflexivity | assumption].
  - apply rd_field; [reflexivity | assumption].
  - unfold slice. change (96 - 32)%nat with 64%nat.
    change (skipn 32 ((le 4 (i_raw_off e) ++ le 4 (i_size e) ++ le 8 (i_load e) ++ le 8 (i_entry e) ++ le 4 (i_flags e) ++
                        le 4 (i_meta e) ++ i_hash e ++ i_iv e) ++ rest)) with ((i_hash e ++ i_iv e) ++ rest).
    rewrite <- app_assoc. now apply firstn_app_exact.
  - unfold slice. change (128 - 96)%nat with 32%nat.
    change (skipn 96 ((le 4 (i_raw_off e) ++ le 4 (i_size e) ++ le 8 (i_load e) ++ le 8 (i_entry e) ++ le 4 (i_flags e) ++
                        le 4 (i_meta e) ++ i_hash e ++ i_iv e) ++ rest)) with (skipn 64 ((i_hash e ++ i_iv e) ++ rest)).
    rewrite <- app_assoc. rewrite skipn_app_exact by assumption. now apply firstn_app_exact.
Qed.

Example iae_roundtrip_nonvacuous :
  let e := {| i_raw_off := 8192; i_size := 1024; i_load := 2 ^ 64 - 8; i_entry := 4096; i_flags := 275; i_meta := 0;
              i_hash := repeat 7%N 64; i_iv := repeat 0%N 32; i_image := []; i_plain := []; i_gap := 0; i_size_align := 0;
              i_ele := false |} in
  iae_fmt_ok e = true /\ length (i_hash e) = 64%nat /\ length (i_iv e) = 32%nat.
Proof. vm_compute. repeat split. Qed.

(* ------------------------------------------------------------------ container header *)
Lemma header_roundtrip_l v2 length flags sw fuse nimg sbo_ rest :
  fits 2 length = true -> fits 4 flags = true -> fits 2 sw = true -> fits 1 fuse = true -> fits 1 nimg = true ->
  fits 2 sbo_ = true -> length <= 16 + zlen' rest ->
  header_parse v2 (header_bytes_raw (gen_version_container v2) length flags sw fuse nimg sbo_ ++ rest)
  = Ok (length, flags, sw, fuse, nimg, sbo_).
Proof.
  intros H1 H2 H3 H4 H5 H6 Hl. unfold header_parse, head_ok, header_bytes_raw.
  set (l := (le 1 (gen_version_container v2) ++ _) ++ rest).
  assert (Ev : fits 1 (gen_version_container v2) = true) by (destruct v2; reflexivity).
  assert (Et : fits 1 gen_tag_container = true) by reflexivity.
  assert (R0 : rd l 0 1 = gen_version_container v2) by (apply rd_field; [reflexivity | assumption]).
  assert (R3 : rd l 3 1 = gen_tag_container) by (apply rd_field; [reflexivity | assumption]).
  assert (R1 : rd l 1 2 = length) by (apply rd_field; [reflexivity | assumption]).
  assert (Ll : zlen' l = 16 + zlen' rest).
  { unfold l, zlen'. rewrite !app_length, !le_length. lia. }
  rewrite R0, R3, R1. cbn [existsb]. rewrite Z.eqb_refl, Z.eqb_refl. cbn [orb andb].
  replace (Nat.leb 16 (List.length l)) with true by (symmetry; apply Nat.leb_le; unfold zlen' in Ll; lia).
  replace (length <=? zlen' l) with true by (symmetry; apply Z.leb_le; lia). cbn [andb].
  repeat f_equal; apply rd_field; (reflexivity || assumption).
Qed.

Lemma slice_firstn {A} (l : list A) a b n : (b <= n)%nat -> slice (firstn n l) a b = slice l a b.
Proof.
  intros H. unfold slice. rewrite skipn_firstn_comm, firstn_firstn. f_equal. lia.
Qed.

(* the parser never reads the reserved half word at offset 14: a flip there cannot change the parsed object *)
Lemma header_parse_ignores_reserved v2 l l' :
  length l = length l' -> firstn 14 l = firstn 14 l' -> header_parse v2 l = header_parse v2 l'.
Proof.
  intros HL HF. unfold header_parse, head_ok, rd, zlen'. rewrite HL.
  assert (S : forall a b, (b <= 14)%nat -> slice l a b = slice l' a b).
  { intros a b Hb. rewrite <- (slice_firstn l a b 14), <- (slice_firstn l' a b 14) by assumption. now rewrite HF. }
  rewrite !(S _ _) by (simpl; lia). reflexivity.
Qed.

Lemma le_enc_dec_Z l w : wf_bytes l -> length l = w -> le w (Z.of_N (le_dec l)) = l.
Proof. intros W <-. unfold le. rewrite N2Z.id. now apply le_enc_dec. Qed.

Lemma wf_slice l a b : wf_bytes l -> wf_bytes (slice l a b).
Proof. intros W. unfold slice. now apply wf_bytes_firstn, wf_bytes_skipn. Qed.

(* what a parsed header re-exports: bytes 0..11 as read, the signature block offset recomputed, the reserved half word zero *)
Lemma reexport_normalises_header_l v2 l h :
  wf_bytes l -> header_parse v2 l = Ok h ->
  header_reexport v2 h
  = firstn 12 l ++ le 2 (zalign (16 + rd l 11 1 * 128) gen_container_alignment) ++ [0%N; 0%N].
Proof.
  intros W. unfold header_parse, head_ok.
  destruct (Nat.leb 16 (length l)) eqn:HL; [|discriminate]. apply Nat.leb_le in HL.
  destruct (rd l 3 1 =? gen_tag_container) eqn:HT; [|discriminate]. apply Z.eqb_eq in HT.
  cbn [existsb]. rewrite orb_false_r.
  destruct (Z.eqb (rd l 0 1) (gen_version_container v2)) eqn:HV; [|discriminate]. apply Z.eqb_eq in HV.
  destruct (rd l 1 2 <=? zlen' l); [|discriminate]. cbn [andb]. intros E. inversion E; subst h; clear E.
  unfold header_reexport, header_bytes_raw. rewrite <- HV, <- HT. unfold rd.
  rewrite !le_enc_dec_Z by (try apply wf_slice; try assumption; rewrite slice_length by lia; reflexivity).
  do 16 (destruct l as [|? l]; [simpl in HL; lia|]). reflexivity.
Qed.

Lemma nth_firstn_lt {A} (d : A) : forall n i (l : list A), (i < n)%nat -> nth i (firstn n l) d = nth i l d.
Proof.
  induction n as [|n IH]; intros i l H; [lia|]. destruct l as [|a t]; [now destruct i|].
  destruct i as [|i]; [reflexivity|]. cbn [firstn nth]. apply IH. lia.
Qed.

(* the "Signed data as parsed" record: for ANY parser, if a byte inside the signed range is changed and the parser still
   returns the same object, the record fails -- so the change is reported by a parse error, a changed object, or the record *)
Lemma tamper_signed_range_reported_l v2 (parse : list N -> res container) b b' c :
  parse b = Ok c -> signed_as_parsed v2 b c = true ->
  (exists i, (i < length (signed_data v2 c))%nat /\ nth i b 0%N <> nth i b' 0%N) ->
  match parse b' with Err _ => True | Ok c' => c' = c -> signed_as_parsed v2 b' c' = false end.
Proof.
  intros _ HS (i & Hi & Hn). destruct (parse b') as [c'|]; [|exact I]. intros ->.
  unfold signed_as_parsed in *. apply eqb_list_spec in HS.
  destruct (eqb_list (signed_data v2 c) (firstn (length (signed_data v2 c)) b')) eqn:E; [|reflexivity].
  apply eqb_list_spec in E. exfalso. apply Hn.
  rewrite <- (nth_firstn_lt 0%N _ i b Hi), <- (nth_firstn_lt 0%N _ i b' Hi). now rewrite <- HS, <- E.
Qed.

(* the concrete header parser: a flip confined to the reserved half word is not seen by the parser (same object) and is
   therefore reported by the record; any other change of the 16 header bytes is reported by one of the three *)
Lemma tamper_header_reported_l v2 l l' h :
  header_parse v2 l = Ok h -> header_as_parsed v2 l h = true -> length l = length l' -> firstn 16 l <> firstn 16 l' ->
  (match header_parse v2 l' with Err _ => True | Ok h' => h' = h -> header_as_parsed v2 l' h' = false end) /\
  (firstn 14 l = firstn 14 l' -> header_parse v2 l' = Ok h /\ header_as_parsed v2 l' h = false).
Proof.
  intros HP HS HL HD.
  assert (K : header_as_parsed v2 l' h = false).
  { unfold header_as_parsed in *. apply eqb_list_spec in HS.
    destruct (eqb_list (header_reexport v2 h) (firstn 16 l')) eqn:E; [|reflexivity].
    apply eqb_list_spec in E. exfalso. apply HD. now rewrite <- HS, <- E. }
  split.
  - destruct (header_parse v2 l') as [h'|]; [|exact I]. now intros ->.
  - intros H14. split; [|exact K]. rewrite <- HP. symmetry. now apply header_parse_ignores_reserved.
Qed.

Example tamper_header_nonvacuous :
  let l := [0; 16; 0; 135; 2; 0; 0; 0; 7; 0; 3; 0; 16; 0; 0; 0]%N in
  let l' := [0; 16; 0; 135; 2; 0; 0; 0; 7; 0; 3; 0; 16; 0; 1; 0]%N in
  header_parse false l = Ok (16, 2, 7, 3, 0, 16) /\ header_as_parsed false l (16, 2, 7, 3, 0, 16) = true /\
  firstn 14 l = firstn 14 l' /\ firstn 16 l <> firstn 16 l'.
Proof. repeat split; try reflexivity. vm_compute. intros E; discriminate E. Qed.


(* ------------------------------------------------------------------ verifier range checks *)
Lemma check_passes_spec n f k lo hi v : (k = 0 \/ k = 1) ->
  check_passes (n, f, k, lo, hi) v = true <-> lo <= v <= hi.
Proof.
  intros [-> | ->]; unfold check_passes, py_check_range; simpl.
  - destruct (v <? lo) eqn:E1, (hi <? v) eqn:E2; simpl; split; intros; try discriminate; try reflexivity; lia.
  - destruct (v <? lo) eqn:E1, (hi <? v) eqn:E2; simpl; split; intros; try discriminate; try reflexivity; lia.
Qed.

Lemma failing_checks_In fld chks id :
  In id (failing_checks fld chks) <-> exists chk, In chk chks /\ chk_name chk = id /\ check_passes chk (fld (chk_field chk)) = false.
Proof.
  unfold failing_checks. rewrite in_map_iff. split.
  - intros (chk & E & H). apply filter_In in H as [H1 H2]. exists chk. repeat split; auto. now apply negb_true_iff in H2.
  - intros (chk & H1 & E & H2). exists chk. split; auto. apply filter_In. split; auto. now apply negb_true_iff.
Qed.

Lemma verify_flags_each_field_l :
  (forall c id, In id (failing_checks (cfield c) gen_container_checks) <->
     (id = 0 /\ ~ 0 <= c_flags c <= 2 ^ 32 - 1) \/ (id = 1 /\ ~ 0 <= flag_used_srk (c_flags c) <= 3) \/
     (id = 2 /\ ~ 0 <= flag_revoke (c_flags c) <= 15) \/ (id = 3 /\ ~ 0 <= c_sw c <= 2 ^ 16 - 1) \/
     (id = 4 /\ ~ 0 <= c_fuse c <= 2 ^ 8 - 1) \/ (id = 5 /\ ~ 0 <= sbo c <= 65535)) /\
  (forall e id, In id (failing_checks (ifield e) gen_iae_checks) <->
     (id = 10 /\ ~ 0 <= i_raw_off e <= 2 ^ 32 - 1) \/ (id = 11 /\ ~ 0 <= i_size e <= 2 ^ 32 - 1) \/
     (id = 12 /\ ~ 0 <= i_load e <= 2 ^ 64 - 1) \/ (id = 13 /\ ~ 0 <= i_entry e <= 2 ^ 64 - 1) \/
     (id = 14 /\ ~ 0 <= i_flags e <= 2 ^ 32 - 1) \/ (id = 15 /\ ~ 0 <= i_meta e <= 2 ^ 32 - 1)).
Proof.
  split; intros x id; rewrite failing_checks_In; split.
  - intros (chk & Hin & <- & Hf). unfold gen_container_checks in Hin. simpl in Hin.
    repeat (destruct Hin as [<- | Hin]; [ apply not_true_iff_false in Hf; rewrite check_passes_spec in Hf by (auto); simpl in Hf |- *; tauto |]).
    destruct Hin.
  - intros H.
    destruct H as [[-> H]|[[-> H]|[[-> H]|[[-> H]|[[-> H]|[-> H]]]]]];
      [exists (hd (0,0,0,0,0) (filter (fun chk => chk_name chk =? 0) gen_container_checks)) | exists (hd (0,0,0,0,0) (filter (fun chk => chk_name chk =? 1) gen_container_checks))
      | exists (hd (0,0,0,0,0) (filter (fun chk => chk_name chk =? 2) gen_container_checks)) | exists (hd (0,0,0,0,0) (filter (fun chk => chk_name chk =? 3) gen_container_checks))
      | exists (hd (0,0,0,0,0) (filter (fun chk => chk_name chk =? 4) gen_container_checks)) | exists (hd (0,0,0,0,0) (filter (fun chk => chk_name chk =? 5) gen_container_checks))];
      (split; [simpl; tauto | split; [reflexivity | apply not_true_iff_false; simpl hd; rewrite check_passes_spec by auto; exact H]]).
  - intros (chk & Hin & <- & Hf). unfold gen_iae_checks in Hin. simpl in Hin.
    repeat (destruct Hin as [<- | Hin]; [ apply not_true_iff_false in Hf; rewrite check_passes_spec in Hf by (auto); simpl in Hf |- *; tauto |]).
    destruct Hin.
  - intros H.
    destruct H as [[-> H]|[[-> H]|[[-> H]|[[-> H]|[[-> H]|[-> H]]]]]];
      [exists (hd (0,0,0,0,0) (filter (fun chk => chk_name chk =? 10) gen_iae_checks)) | exists (hd (0,0,0,0,0) (filter (fun chk => chk_name chk =? 11) gen_iae_checks))
      | exists (hd (0,0,0,0,0) (filter (fun chk => chk_name chk =? 12) gen_iae_checks)) | exists (hd (0,0,0,0,0) (filter (fun chk => chk_name chk =? 13) gen_iae_checks))
      | exists (hd (0,0,0,0,0) (filter (fun chk => chk_name chk =? 14) gen_iae_checks)) | exists (hd (0,0,0,0,0) (filter (fun chk => chk_name chk =? 15) gen_iae_checks))];
      (split; [simpl; tauto | split; [reflexivity | apply not_true_iff_false; simpl hd; rewrite check_passes_spec by auto; exact H]]).
Qed.

(* ------------------------------------------------------------------ offsets *)
Lemma zalign_ge n a : 0 < a -> n <= zalign n a.
Proof. intros H. unfold zalign. nia. Qed.

Lemma zalign_mod n a : 0 < a -> zalign n a mod a = 0.
Proof. intros H. unfold zalign. apply Z.mod_mul. lia. Qed.

Lemma valid_align_pos p e : 0 < Z.max (valid_alignment p e) (p_min_align p).
Proof. unfold valid_alignment. destruct (i_ele e); lia. Qed.

Lemma valid_offset_ge p e x : x <= valid_offset p e x.
Proof. apply zalign_ge, valid_align_pos. Qed.

(* (absolute offset, size, gap) of the images of one container *)
Definition spans1 (coff : Z) (l : list iae) : list (Z * Z * Z) := map (fun e => (i_raw_off e + coff, i_size e, i_gap e)) l.
Definition spans (cs : list container) : list (Z * Z * Z) := concat (map (fun c => spans1 (c_coff c) (c_images c)) cs).

(* every image starts at or after the end (+ gap) of the previous one, the first one at or after lo *)
Fixpoint gchain (lo : Z) (l : list (Z * Z * Z)) : Prop :=
  match l with [] => True | (a, s, g) :: t => lo <= a /\ gchain (a + s + g) t end.
Fixpoint gend (lo : Z) (l : list (Z * Z * Z)) : Z := match l with [] => lo | (a, s, g) :: t => gend (a + s + g) t end.
Fixpoint all_after (hi : Z) (l : list (Z * Z * Z)) : Prop :=
  match l with [] => True | (a, _, _) :: t => hi <= a /\ all_after hi t end.
Fixpoint pairwise_disjoint (l : list (Z * Z * Z)) : Prop :=
  match l with [] => True | (a, s, _) :: t => all_after (a + s) t /\ pairwise_disjoint t end.
Definition nonneg (l : list (Z * Z * Z)) : Prop := Forall (fun x => 0 <= snd (fst x) /\ 0 <= snd x) l.

Lemma gchain_mono lo lo' l : lo' <= lo -> gchain lo l -> gchain lo' l.
Proof. destruct l as [|[[a s] g] t]; simpl; [auto|]. intros H [H1 H2]. split; [lia|assumption]. Qed.

Lemma gchain_app lo l1 l2 : gchain lo (l1 ++ l2) <-> gchain lo l1 /\ gchain (gend lo l1) l2.
Proof.
  revert lo; induction l1 as [|[[a s] g] t IH]; intros lo; simpl; [tauto|]. rewrite IH. tauto.
Qed.

Lemma gend_app lo l1 l2 : gend lo (l1 ++ l2) = gend (gend lo l1) l2.
Proof. revert lo; induction l1 as [|[[a s] g] t IH]; intros lo; simpl; [reflexivity|apply IH]. Qed.

Lemma gchain_all_after lo l : nonneg l -> gchain lo l -> all_after lo l.
Proof.
  revert lo; induction l as [|[[a s] g] t IH]; intros lo N; simpl; [auto|].
  inversion N as [|? ? [Hs Hg] Nt]; subst; simpl in *. intros [H1 H2]. split; [assumption|].
  apply IH; [assumption|]. eapply gchain_mono; [|exact H2]. lia.
Qed.

Lemma gchain_disjoint lo l : nonneg l -> gchain lo l -> pairwise_disjoint l.
Proof.
  revert lo; induction l as [|[[a s] g] t IH]; intros lo N; simpl; [auto|].
  inversion N as [|? ? [Hs Hg] Nt]; subst; simpl in *. intros [H1 H2]. split.
  - apply gchain_all_after; [assumption|]. eapply gchain_mono; [|exact H2]. lia.
  - eapply IH; eauto.
Qed.

(* side condition for preset offsets: a preset image must not start before the running offset *)
Fixpoint presets_ok (p : params) (coff off : Z) (l : list iae) : Prop :=
  match l with
  | [] => True
  | e :: t => let abs := i_raw_off e + coff in
              if 0 <? abs then off <= abs /\ presets_ok p coff (valid_offset p e (abs + i_size e + i_gap e)) t
              else presets_ok p coff (valid_offset p e (off + i_size e + i_gap e)) t
  end.

Lemma assign_images_chain p coff : forall l off,
  presets_ok p coff off l ->
  let r := assign_images p coff off l in
  gchain off (spans1 coff (snd r)) /\ gend off (spans1 coff (snd r)) <= fst r /\
  map (fun e => (i_size e, i_gap e)) (snd r) = map (fun e => (i_size e, i_gap e)) l.
Proof.
  induction l as [|e t IH]; intros off HP; cbn [assign_images]; [simpl; repeat split; lia|].
  cbn [presets_ok] in HP. destruct (0 <? i_raw_off e + coff) eqn:E.
  - destruct HP as [H1 H2]. specialize (IH _ H2).
    destruct (assign_images p coff (valid_offset p e (i_raw_off e + coff + i_size e + i_gap e)) t) as [off' t'] eqn:ER.
    cbn [fst snd] in *. destruct IH as (I1 & I2 & I3). cbn [spans1 map gchain gend]. fold (spans1 coff t'). repeat split.
    + assumption.
    + eapply gchain_mono; [|exact I1]. apply valid_offset_ge.
    + etransitivity; [|exact I2]. clear. generalize (valid_offset_ge p e (i_raw_off e + coff + i_size e + i_gap e)).
      generalize (valid_offset p e (i_raw_off e + coff + i_size e + i_gap e)) as v. intros v Hv.
      destruct (spans1 coff t') as [|[[a s] g] q]; simpl; [lia|lia].
    + f_equal. exact I3.
  - specialize (IH _ HP).
    destruct (assign_images p coff (valid_offset p e (off + i_size e + i_gap e)) t) as [off' t'] eqn:ER.
    cbn [fst snd] in *. destruct IH as (I1 & I2 & I3). cbn [spans1 map gchain gend set_off i_raw_off i_size i_gap].
    fold (spans1 coff t'). replace (off - coff + coff) with off by lia. repeat split.
    + lia.
    + eapply gchain_mono; [|exact I1]. apply valid_offset_ge.
    + etransitivity; [|exact I2]. generalize (valid_offset_ge p e (off + i_size e + i_gap e)).
      generalize (valid_offset p e (off + i_size e + i_gap e)) as v. intros v Hv.
      destruct (spans1 coff t') as [|[[a s] g] q]; simpl; lia.
    + f_equal. exact I3.
Qed.

Fixpoint presets_ok_all (p : params) (off : Z) (cs : list container) : Prop :=
  match cs with
  | [] => True
  | c :: t => presets_ok p (c_coff c) off (c_images c)
              /\ presets_ok_all p (fst (assign_images p (c_coff c) off (c_images c))) t
  end.

Definition size_gap (cs : list container) := map (fun c => map (fun e => (i_size e, i_gap e)) (c_images c)) cs.

Lemma assign_offsets_chain p : forall cs off,
  presets_ok_all p off cs ->
  gchain off (spans (assign_offsets p off cs)) /\ size_gap (assign_offsets p off cs) = size_gap cs.
Proof.
  induction cs as [|c t IH]; intros off HP; cbn [assign_offsets]; [simpl; auto|].
  destruct HP as [H1 H2]. pose proof (assign_images_chain p (c_coff c) (c_images c) off H1) as A.
  destruct (assign_images p (c_coff c) off (c_images c)) as [off' l'] eqn:E. cbn [fst snd] in *.
  destruct A as (A1 & A2 & A3). specialize (IH _ H2) as [I1 I2].
  unfold spans, size_gap in *. cbn [map concat set_images c_coff c_images]. split.
  - apply gchain_app. split; [assumption|]. eapply gchain_mono; [|exact I1]. assumption.
  - f_equal; assumption.
Qed.

Lemma nonneg_of_size_gap cs cs' :
  size_gap cs' = size_gap cs ->
  (forall c e, In c cs -> In e (c_images c) -> 0 <= i_size e /\ 0 <= i_gap e) -> nonneg (spans cs').
Proof.
  revert cs; induction cs' as [|c' t' IH]; intros [|c t] E H; try discriminate; [constructor|].
  unfold size_gap in E. cbn [map] in E. injection E as E1 E2. unfold spans. cbn [map concat]. unfold nonneg.
  apply Forall_app. split.
  - assert (Hc : forall e, In e (c_images c) -> 0 <= i_size e /\ 0 <= i_gap e) by (intros; eapply H; [left; reflexivity|assumption]).
    clear -E1 Hc. revert E1 Hc. generalize (c_images c) as l. generalize (c_coff c') as k.
    induction (c_images c') as [|e' q IHq]; intros k [|e l] E1 Hc; try discriminate; [constructor|].
    cbn [map] in E1. injection E1 as F1 F2 F3. cbn [spans1 map]. constructor.
    + simpl. rewrite F1, F2. apply Hc. now left.
    + apply (IHq k l F3). intros x Hx. apply Hc. now right.
  - apply (IH t E2). intros c0 e0 Hc0. apply H. now right.
Qed.

Lemma auto_presets_ok p coff : forall l off, (forall e, In e l -> i_raw_off e + coff <= 0) -> presets_ok p coff off l.
Proof.
  induction l as [|e t IH]; intros off H; cbn [presets_ok]; [exact I|].
  replace (0 <? i_raw_off e + coff) with false by (symmetry; apply Z.ltb_ge; apply H; now left).
  apply IH. intros x Hx. apply H. now right.
Qed.

Lemma auto_presets_ok_all p : forall cs off,
  (forall c e, In c cs -> In e (c_images c) -> i_raw_off e + c_coff c <= 0) -> presets_ok_all p off cs.
Proof.
  induction cs as [|c t IH]; intros off H; cbn [presets_ok_all]; [exact I|]. split.
  - apply auto_presets_ok. intros e He. apply (H c e); [now left|assumption].
  - apply IH. intros c0 e0 Hc0. apply H. now right.
Qed.

(* images whose offset is assigned automatically: pairwise disjoint, in configuration order, none before the start address *)
Lemma offsets_disjoint_l p cs :
  (forall c e, In c cs -> In e (c_images c) -> i_raw_off e + c_coff c <= 0 /\ 0 <= i_size e /\ 0 <= i_gap e) ->
  let sp := spans (assign_offsets p (p_start p) cs) in
  gchain (p_start p) sp /\ pairwise_disjoint sp /\ all_after (p_start p) sp /\
  size_gap (assign_offsets p (p_start p) cs) = size_gap cs.
Proof.
  intros H sp.
  destruct (assign_offsets_chain p cs (p_start p)) as [C S].
  { apply auto_presets_ok_all. intros c e Hc He. now apply (H c e). }
  assert (N : nonneg sp) by (apply (nonneg_of_size_gap cs); [assumption|]; intros c e Hc He; now apply (H c e)).
  repeat split; try assumption.
  - eapply gchain_disjoint; eassumption.
  - now apply gchain_all_after.
Qed.

(* explicit (preset) offsets: the same conclusion under the stated side condition *)
Lemma preset_offsets_disjoint_l p cs :
  (forall c e, In c cs -> In e (c_images c) -> 0 <= i_size e /\ 0 <= i_gap e) ->
  presets_ok_all p (p_start p) cs ->
  let sp := spans (assign_offsets p (p_start p) cs) in
  gchain (p_start p) sp /\ pairwise_disjoint sp /\ all_after (p_start p) sp.
Proof.
  intros H HP sp. destruct (assign_offsets_chain p cs (p_start p) HP) as [C S].
  assert (N : nonneg sp) by (apply (nonneg_of_size_gap cs); assumption).
  repeat split; try assumption.
  - eapply gchain_disjoint; eassumption.
  - now apply gchain_all_after.
Qed.

(* the side condition is necessary: a preset below the running offset yields overlapping images (witness) *)
Example preset_overlap_witness :
  let p := params_of (nth 16 gen_families (0, 0, [], 1, 1, false, [])) 4 false in
  let mk raw := {| i_raw_off := raw; i_size := 1024; i_load := 0; i_entry := 0; i_flags := 0; i_meta := 0; i_hash := []; i_iv := [];
                   i_image := []; i_plain := []; i_gap := 0; i_size_align := 0; i_ele := false |} in
  let c := {| c_version := 0; c_flags := 0; c_fuse := 0; c_sw := 0; c_length := 0; c_coff := 0; c_images := [mk 0; mk 8704];
              c_sb := sigblock_update [] None None |} in
  spans (assign_offsets p (p_start p) [c]) = [(8192, 1024, 0); (8704, 1024, 0)].
Proof. reflexivity. Qed.

(* ------------------------------------------------------------------ image entries: hash and IV *)
Definition iae_body (e : iae) : iae := set_off e 0.

Lemma assign_images_body p coff : forall l off, map iae_body (snd (assign_images p coff off l)) = map iae_body l.
Proof.
  induction l as [|e t IH]; intros off; cbn [assign_images]; [reflexivity|].
  destruct (0 <? i_raw_off e + coff).
  - specialize (IH (valid_offset p e (i_raw_off e + coff + i_size e + i_gap e))).
    destruct (assign_images p coff _ t) as [o t']. cbn [snd map] in *. now rewrite IH.
  - specialize (IH (valid_offset p e (off + i_size e + i_gap e))).
    destruct (assign_images p coff _ t) as [o t']. cbn [snd map] in *. rewrite IH. reflexivity.
Qed.

Lemma assign_offsets_body p : forall cs off,
  map (fun c => (c_coff c, c_sb c, map iae_body (c_images c))) (assign_offsets p off cs)
  = map (fun c => (c_coff c, c_sb c, map iae_body (c_images c))) cs.
Proof.
  induction cs as [|c t IH]; intros off; cbn [assign_offsets]; [reflexivity|].
  pose proof (assign_images_body p (c_coff c) (c_images c) off) as B.
  destruct (assign_images p (c_coff c) off (c_images c)) as [o l']. cbn [snd] in B.
  cbn [map set_images c_coff c_sb c_images]. now rewrite B, IH.
Qed.

Lemma map_res_In {A B} (f : A -> res B) : forall l l' y, map_res f l = Ok l' -> In y l' -> exists x, In x l /\ f x = Ok y.
Proof.
  induction l as [|a t IH]; intros l' y H Hy; cbn [map_res] in H.
  - inversion H; subst. destruct Hy.
  - destruct (f a) as [b|] eqn:Fa; [|discriminate]. cbn [bind] in H.
    destruct (map_res f t) as [t'|] eqn:Ft; [|discriminate]. cbn [bind] in H. inversion H; subst.
    destruct Hy as [<-|Hy]; [exists a; split; [now left|assumption]|].
    destruct (IH _ _ eq_refl Hy) as (x & Hx & Fx). exists x. split; [now right|assumption].
Qed.

Definition entry_hash_ok (v2 : bool) (e : iae) : Prop :=
  exists m h, extend_to (i_size e) (i_image e) = Ok m /\ hash_of (flags_hash v2 (i_flags e)) m = Ok h /\
              i_hash e = h ++ repeat 0%N (64 - length h) /\
              i_size e = valid_size (i_ele e) (i_size_align e) (i_image e).

Lemma iae_update_hash v2 e e' : i_hash e = [] -> iae_update v2 e = Ok e' -> entry_hash_ok v2 e'.
Proof.
  intros Hh. unfold iae_update. rewrite Hh.
  destruct (extend_to (valid_size (i_ele e) (i_size_align e) (i_image e)) (i_image e)) as [m|] eqn:Em; [|discriminate].
  cbn [bind]. destruct (hash_of (flags_hash v2 (i_flags e)) m) as [h|] eqn:Eh; [|discriminate]. cbn [bind].
  intros E. inversion E; subst e'; clear E. exists m, h. cbn. repeat split; assumption.
Qed.

Lemma entry_hash_body v2 e e' : iae_body e = iae_body e' -> entry_hash_ok v2 e -> entry_hash_ok v2 e'.
Proof.
  unfold iae_body, set_off. intros E. inversion E. unfold entry_hash_ok. destruct e, e'; cbn in *; subst. auto.
Qed.

Lemma container_build_images p ix cc c e :
  container_build p ix cc = Ok c -> In e (c_images c) ->
  exists ic, In ic (cc_images cc) /\
             iae_update (p_v2 p) (iae_encrypt (p_v2 p) (option_map blob_of_cfg (cc_blob cc)) (build_iae p (p_csize p * ix) ic)) = Ok e.
Proof.
  unfold container_build. destruct (srk_of_keys _ _) as [rs|]; [|discriminate]. cbn [bind].
  destruct (map_res _ _) as [imgs|] eqn:EM; [|discriminate]. cbn [bind]. intros E He. inversion E; subst c; clear E. cbn in He.
  destruct (map_res_In _ _ _ _ EM He) as (x & Hx & Fx). apply in_map_iff in Hx as (ic & <- & Hic). eauto.
Qed.

Lemma build_all_In p : forall l ix cs c, build_all p ix l = Ok cs -> In c cs ->
  exists cc k, In cc l /\ container_build p k cc = Ok c.
Proof.
  induction l as [|cc t IH]; intros ix cs c H Hc; cbn [build_all] in H.
  - inversion H; subst. destruct Hc.
  - destruct (container_build p ix cc) as [c0|] eqn:E0; [|discriminate]. cbn [bind] in H.
    destruct (build_all p (ix + 1) t) as [cs0|] eqn:E1; [|discriminate]. cbn [bind] in H. inversion H; subst.
    destruct Hc as [<-|Hc]; [exists cc, ix; split; [now left|assumption]|].
    destruct (IH _ _ _ E1 Hc) as (cc' & k & H1 & H2). exists cc', k. split; [now right|assumption].
Qed.

(* membership through assign_offsets: same container data, same entry up to the offset *)
Lemma assign_offsets_In p cs off c' e' :
  In c' (assign_offsets p off cs) -> In e' (c_images c') ->
  exists c e, In c cs /\ In e (c_images c) /\ iae_body e = iae_body e' /\ c_sb c = c_sb c' /\ c_coff c = c_coff c'.
Proof.
  intros Hc He. pose proof (assign_offsets_body p cs off) as B.
  apply (in_map (fun c => (c_coff c, c_sb c, map iae_body (c_images c)))) in Hc. rewrite B in Hc.
  apply in_map_iff in Hc as (c & Ec & Hc). inversion Ec as [[E1 E2 E3]].
  apply (in_map iae_body) in He. rewrite <- E3 in He. apply in_map_iff in He as (e & Ee & He). exists c, e. auto.
Qed.

Lemma entry_hash_l p l cs c e :
  ahab_update p l = Ok cs -> In c cs -> In e (c_images c) -> entry_hash_ok (p_v2 p) e.
Proof.
  unfold ahab_update. destruct (build_all p 0 l) as [cs0|] eqn:EB; [|discriminate]. cbn [bind]. intros E Hc He.
  inversion E; subst cs; clear E.
  destruct (assign_offsets_In _ _ _ _ _ Hc He) as (c0 & e0 & Hc0 & He0 & Eb & _ & _).
  destruct (build_all_In _ _ _ _ _ EB Hc0) as (cc & k & _ & Hb).
  destruct (container_build_images _ _ _ _ _ Hb He0) as (ic & _ & Hu).
  eapply entry_hash_body; [exact Eb|]. eapply iae_update_hash; [|exact Hu].
  unfold iae_encrypt. destruct (option_map blob_of_cfg (cc_blob cc)); [destruct (flags_enc _ _)|]; reflexivity.
Qed.

(* ------------------------------------------------------------------ IV = SHA-256(plain), and the DEK decrypts *)
Lemma sha256_shape m : length (sha256 m) = 32%nat /\ wf_bytes (sha256 m).
Proof.
  unfold sha256, sha2, digest_bytes. destruct (sha2_blocks cfg256 H256 (pad cfg256 m)) as [[[[[[[a b] c] d] e] f] g] h].
  cbn [map concat wbytes cfg256]. split.
  - rewrite firstn_length, !app_length, !be_enc_length. reflexivity.
  - apply wf_bytes_firstn. repeat (apply wf_bytes_app; [apply be_enc_wf|]). constructor.
Qed.

Lemma wf_repeat0 n : wf_bytes (repeat 0%N n).
Proof. apply Forall_forall. intros x Hx. apply repeat_spec in Hx. subst. unfold wf_byte. lia. Qed.

Lemma pad_to_wf a l : wf_bytes l -> wf_bytes (pad_to a l).
Proof. intros W. unfold pad_to. apply wf_bytes_app; [assumption|apply wf_repeat0]. Qed.

Lemma pad_to_mod a l : 0 < a -> Z.of_nat (length (pad_to a l)) mod a = 0.
Proof.
  intros H. unfold pad_to. rewrite app_length, repeat_length, Nat2Z.inj_add.
  pose proof (zalign_ge (zlen' l) a H). rewrite Z2Nat.id by lia. unfold zlen' in *.
  replace (Z.of_nat (length l) + (zalign (Z.of_nat (length l)) a - Z.of_nat (length l))) with (zalign (Z.of_nat (length l)) a) by lia.
  now apply zalign_mod.
Qed.

Lemma pad_to_16 l : Nat.modulo (length (pad_to 16 l)) 16 = 0%nat.
Proof.
  apply Nat2Z.inj. rewrite Nat2Z.inj_mod. change (Z.of_nat 16) with 16. rewrite pad_to_mod by lia. reflexivity.
Qed.

Lemma blob_decrypt_encrypt dek iv plain :
  aes_key_ok dek = true -> wf_bytes dek -> okb iv -> wf_bytes plain ->
  blob_decrypt dek iv (blob_encrypt dek iv plain) = pad_to 16 plain.
Proof.
  intros Hk Wk Hiv Wp. unfold blob_decrypt, blob_encrypt.
  apply (cbc_dec_enc_l (aes_enc dek) (aes_dec dek)).
  - intros b Hb. now apply aes_dec_enc.
  - intros b Hb. now apply aes_dec_enc.
  - assumption.
  - now apply pad_to_wf.
  - apply pad_to_16.
Qed.

Lemma iae_update_fields v2 e e' : iae_update v2 e = Ok e' ->
  i_flags e' = i_flags e /\ i_image e' = i_image e /\ i_plain e' = i_plain e /\
  i_iv e' = (if forallb (N.eqb 0) (i_iv e) && flags_enc v2 (i_flags e) then sha256 (i_plain e) else i_iv e).
Proof.
  unfold iae_update.
  match goal with |- bind ?X _ = _ -> _ => destruct X as [h|] end; [|discriminate].
  cbn [bind]. intros E. inversion E; subst e'. cbn. auto.
Qed.

Lemma iae_encrypt_flags v2 b e : i_flags (iae_encrypt v2 b e) = i_flags e.
Proof. unfold iae_encrypt. destruct b; [destruct (flags_enc v2 (i_flags e))|]; reflexivity. Qed.

Lemma iv_is_plain_hash_and_decrypts_l p ix cc c e bits dek kid :
  container_build p ix cc = Ok c -> In e (c_images c) -> flags_enc (p_v2 p) (i_flags e) = true ->
  cc_blob cc = Some (bits, dek, kid) -> aes_key_ok dek = true -> wf_bytes dek ->
  (forall ic, In ic (cc_images cc) -> wf_bytes (ic_data ic)) ->
  i_iv e = sha256 (i_plain e) /\
  blob_decrypt dek (skipn 16 (i_iv e)) (i_image e) = pad_to 16 (i_plain e) /\
  exists ic, In ic (cc_images cc) /\ i_plain e = pad_to (p_size_align p) (ic_data ic).
Proof.
  intros Hb He Hf Hbl Hk Wk Wd. destruct (container_build_images _ _ _ _ _ Hb He) as (ic & Hic & Hu).
  rewrite Hbl in Hu. cbn [option_map blob_of_cfg] in Hu.
  set (e0 := build_iae p (p_csize p * ix) ic) in *.
  apply iae_update_fields in Hu. destruct Hu as (U1 & U2 & U3 & U4).
  assert (Fe : flags_enc (p_v2 p) (i_flags e0) = true).
  { rewrite <- Hf, U1, iae_encrypt_flags. reflexivity. }
  assert (Iv0 : i_iv e0 = sha256 (i_plain e0)).
  { unfold e0, build_iae. cbn [i_iv i_plain i_flags]. unfold e0, build_iae in Fe. cbn [i_flags] in Fe. now rewrite Fe. }
  unfold iae_encrypt in U1, U2, U3, U4. rewrite Fe in U1, U2, U3, U4. cbn [i_image i_plain i_iv i_flags b_dek] in U1, U2, U3, U4.
  assert (Iv : i_iv e = sha256 (i_plain e0)).
  { rewrite U4. destruct (forallb (N.eqb 0) (i_iv e0) && flags_enc (p_v2 p) (i_flags e0)); [reflexivity|assumption]. }
  rewrite U3, Iv, U2. split; [reflexivity|]. split.
  - rewrite Iv0. apply blob_decrypt_encrypt; try assumption.
    + destruct (sha256_shape (i_plain e0)) as [L W]. split; [rewrite skipn_length, L; reflexivity|now apply wf_bytes_skipn].
    + unfold e0, build_iae. cbn [i_plain]. apply pad_to_wf. now apply Wd.
  - exists ic. split; [assumption|reflexivity].
Qed.

(* ------------------------------------------------------------------ placement of pieces in a buffer *)
Lemma slice_app_l {A} (p r : list A) x y : (y <= length p)%nat -> slice (p ++ r) x y = slice p x y.
Proof.
  intros H. unfold slice. rewrite skipn_app, firstn_app, skipn_length.
  replace (y - x - (length p - x))%nat with 0%nat by lia. simpl. apply app_nil_r.
Qed.

Lemma slice_app_r {A} (p r : list A) x y : (length p <= x)%nat -> slice (p ++ r) x y = slice r (x - length p) (y - length p).
Proof. intros H. unfold slice. rewrite skipn_app, skipn_all2 by lia. simpl. f_equal. lia. Qed.

Lemma skipn_skipn' {A} (l : list A) : forall x b, skipn x (skipn b l) = skipn (x + b) l.
Proof.
  intros x b. revert l. induction b as [|b IH]; intros l; [now rewrite Nat.add_0_r|].
  destruct l as [|a t]; [now rewrite !skipn_nil|]. rewrite Nat.add_succ_r. cbn [skipn]. apply IH.
Qed.

Lemma slice_skipn {A} (l : list A) b x y : slice (skipn b l) x y = slice l (x + b) (y + b).
Proof. unfold slice. rewrite skipn_skipn'. f_equal. lia. Qed.

Lemma slice_full {A} (l : list A) : slice l 0 (length l) = l.
Proof. unfold slice. simpl. rewrite Nat.sub_0_r. apply firstn_all. Qed.

Definition pl (b : list N) (x : nat * list N) : list N := py_set b (fst x) (fst x + length (snd x)) (snd x).
Definition inb (n : nat) (x : nat * list N) : Prop := (fst x + length (snd x) <= n)%nat.
Definition disj (x y : nat * list N) : Prop :=
  (fst x + length (snd x) <= fst y)%nat \/ (fst y + length (snd y) <= fst x)%nat.

Lemma pl_length b x : inb (length b) x -> length (pl b x) = length b.
Proof. unfold inb, pl, py_set. intros H. rewrite !app_length, firstn_length, skipn_length. lia. Qed.

Lemma pl_own b x : inb (length b) x -> slice (pl b x) (fst x) (fst x + length (snd x)) = snd x.
Proof.
  unfold inb. intros H. unfold pl, py_set. rewrite slice_app_r by (rewrite firstn_length; lia). rewrite firstn_length.
  replace (Nat.min (fst x) (length b)) with (fst x) by lia. rewrite Nat.sub_diag.
  replace (fst x + length (snd x) - fst x)%nat with (length (snd x)) by lia.
  rewrite slice_app_l by lia. apply slice_full.
Qed.

Lemma pl_before b x u v : (v <= fst x)%nat -> inb (length b) x -> slice (pl b x) u v = slice b u v.
Proof.
  unfold inb. intros H1 H2. unfold pl, py_set. rewrite slice_app_l by (rewrite firstn_length; lia). now apply slice_firstn.
Qed.

Lemma pl_after b x u v : (fst x + length (snd x) <= u)%nat -> inb (length b) x -> slice (pl b x) u v = slice b u v.
Proof.
  unfold inb. intros H1 H2. unfold pl, py_set. rewrite app_assoc.
  rewrite slice_app_r by (rewrite app_length, firstn_length; lia). rewrite app_length, firstn_length.
  replace (Nat.min (fst x) (length b)) with (fst x) by lia.
  replace (Nat.max (fst x) (fst x + length (snd x))) with (fst x + length (snd x))%nat by lia.
  rewrite slice_skipn. unfold slice. f_equal; [lia|f_equal; lia].
Qed.

Lemma fold_pl_length l : forall b, Forall (inb (length b)) l -> length (fold_left pl l b) = length b.
Proof.
  induction l as [|y t IH]; intros b H; simpl; [reflexivity|]. inversion H; subst.
  rewrite IH; rewrite pl_length by assumption; auto.
Qed.

Lemma fold_pl_keep l : forall b x, Forall (inb (length b)) l -> Forall (disj x) l ->
  slice (fold_left pl l b) (fst x) (fst x + length (snd x)) = slice b (fst x) (fst x + length (snd x)).
Proof.
  induction l as [|y t IH]; intros b x H D; simpl; [reflexivity|]. inversion H; inversion D; subst.
  rewrite IH; try (rewrite pl_length by assumption); auto.
  match goal with Hd : disj x y |- _ => destruct Hd as [Hd|Hd] end; [apply pl_before | apply pl_after]; assumption.
Qed.

Lemma fold_pl_read l1 x l2 b :
  Forall (inb (length b)) (l1 ++ x :: l2) -> Forall (disj x) l2 ->
  slice (fold_left pl (l1 ++ x :: l2) b) (fst x) (fst x + length (snd x)) = snd x.
Proof.
  intros H D. apply Forall_app in H as [H1 H2]. inversion H2 as [|? ? Hx H3]; subst.
  rewrite fold_left_app. cbn [fold_left].
  assert (L1 : length (fold_left pl l1 b) = length b) by now apply fold_pl_length.
  rewrite fold_pl_keep; [| rewrite pl_length by (now rewrite L1); now rewrite L1 | assumption].
  apply pl_own. now rewrite L1.
Qed.

(* pieces as the model places them: (offset, declared size, bytes) *)
Definition p_off (x : Z * Z * list N) : Z := fst (fst x).
Definition p_size (x : Z * Z * list N) : Z := snd (fst x).
Definition npiece (x : Z * Z * list N) : nat * list N := (Z.to_nat (p_off x), fit_image (p_size x) (snd x)).
Fixpoint pw {A} (R : A -> A -> Prop) (l : list A) : Prop := match l with [] => True | x :: t => Forall (R x) t /\ pw R t end.
Definition zdisj (x y : Z * Z * list N) : Prop := p_off x + p_size x <= p_off y \/ p_off y + p_size y <= p_off x.
Definition piece_in (total : Z) (x : Z * Z * list N) : Prop := 0 <= p_off x /\ zlen' (snd x) <= p_size x /\ p_off x + p_size x <= total.
Definition pieces_ok (total : Z) (L : list (Z * Z * list N)) : Prop := Forall (piece_in total) L /\ pw zdisj L.

Lemma fit_image_length size d : zlen' d <= size -> zlen' (fit_image size d) = size.
Proof.
  intros H. unfold fit_image. destruct (zlen' d =? size) eqn:E; [now apply Z.eqb_eq in E|].
  unfold py_set, zlen' in *. cbn [firstn app]. rewrite app_length, skipn_length, repeat_length. lia.
Qed.

Lemma place_piece_pl b x : 0 <= p_off x -> place_piece b x = pl b (npiece x).
Proof.
  intros H. unfold place_piece, place, pl, npiece. cbn [fst snd]. fold (p_off x) (p_size x). f_equal.
  unfold zlen'. rewrite Z2Nat.inj_add, Nat2Z.id by lia. reflexivity.
Qed.

Lemma place_all_pl l : forall b, Forall (fun x => 0 <= p_off x) l -> place_all b l = fold_left pl (map npiece l) b.
Proof.
  unfold place_all. induction l as [|x t IH]; intros b H; [reflexivity|]. inversion H; subst. cbn [fold_left map].
  rewrite place_piece_pl by assumption. now apply IH.
Qed.

Lemma pw_split {A} (R : A -> A -> Prop) l1 x l2 : pw R (l1 ++ x :: l2) -> Forall (R x) l2.
Proof. induction l1 as [|y t IH]; simpl; intros [H1 H2]; [assumption|now apply IH]. Qed.

Lemma npiece_inb total x : 0 <= total -> piece_in total x -> inb (Z.to_nat total) (npiece x).
Proof.
  intros Ht (H1 & H2 & H3). unfold inb, npiece. cbn [fst snd]. pose proof (fit_image_length _ _ H2) as L. unfold zlen' in L. lia.
Qed.

Lemma npiece_disj total x y : piece_in total x -> piece_in total y -> zdisj x y -> disj (npiece x) (npiece y).
Proof.
  intros (A1 & A2 & A3) (B1 & B2 & B3) D. unfold disj, npiece. cbn [fst snd].
  pose proof (fit_image_length _ _ A2) as LA. pose proof (fit_image_length _ _ B2) as LB. unfold zlen' in LA, LB.
  destruct D; [left|right]; lia.
Qed.

(* reading back any piece after all have been placed *)
Lemma place_all_read total L b x :
  0 <= total -> length b = Z.to_nat total -> pieces_ok total L -> In x L ->
  zslice (place_all b L) (p_off x) (p_off x + p_size x) = fit_image (p_size x) (snd x).
Proof.
  intros Ht Lb [HF HP] Hx. rewrite place_all_pl by (eapply Forall_impl; [|exact HF]; intros a (Ha & _); exact Ha).
  apply in_split in Hx as (l1 & l2 & ->). rewrite map_app. cbn [map].
  assert (Px : piece_in total x) by (apply Forall_app in HF as [_ HF2]; now inversion HF2).
  pose proof (fit_image_length _ _ (proj1 (proj2 Px))) as LX.
  unfold zslice. replace (Z.to_nat (p_off x + p_size x)) with (fst (npiece x) + length (snd (npiece x)))%nat
    by (unfold npiece; cbn [fst snd]; unfold zlen' in LX; destruct Px as (P1 & P2 & P3); lia).
  change (Z.to_nat (p_off x)) with (fst (npiece x)). rewrite fold_pl_read; [reflexivity| |].
  - rewrite Lb. change (npiece x :: map npiece l2) with (map npiece (x :: l2)). rewrite <- map_app.
    apply Forall_map. eapply Forall_impl; [|exact HF]. intros a Ha. now apply npiece_inb.
  - apply Forall_map. pose proof (pw_split _ _ _ _ HP) as D. apply Forall_app in HF as [_ HF2]. inversion HF2 as [|? ? _ HF3]; subst.
    clear -D HF3 Px. induction l2 as [|y t IH]; constructor; inversion D; inversion HF3; subst.
    + eapply npiece_disj; eassumption.
    + now apply IH.
Qed.

(* ------------------------------------------------------------------ the exported file: every entry points at its image *)
Lemma pairwise_ok_pw : forall (l : list (Z * Z * list N)), pairwise_ok (map fst l) = true -> pw zdisj l.
Proof.
  induction l as [|x t IH]; cbn [map pairwise_ok pw]; [auto|]. intros H. apply andb_true_iff in H as [H1 H2]. split; [|now apply IH].
  clear -H1. induction t as [|y q IHq]; [constructor|]. cbn [map forallb] in H1. apply andb_true_iff in H1 as [A B].
  constructor; [|now apply IHq]. unfold iv_overlap in A. rewrite negb_involutive in A. apply orb_true_iff in A.
  unfold zdisj, p_off, p_size. destruct A as [A|A]; apply Z.ltb_lt in A; [left|right]; lia.
Qed.

Lemma all_images_In cs c e : In c cs -> In e (c_images c) -> In (img_abs c e, i_size e, i_image e) (all_images cs).
Proof.
  intros Hc He. unfold all_images. apply in_concat. eexists. split; [apply in_map_iff; exists c; split; [reflexivity|assumption]|].
  apply in_map_iff. exists e. auto.
Qed.

Lemma layout_ok_pieces p cs :
  layout_ok p cs = true -> zlen' (containers_block p cs) = start_real p cs ->
  (forall c e, In c cs -> In e (c_images c) -> zlen' (i_image e) <= i_size e) ->
  pieces_ok (ahab_len p cs) ((0, zlen' (containers_block p cs), containers_block p cs) :: all_images cs).
Proof.
  intros H HB HS. unfold layout_ok in H. apply andb_true_iff in H as [H H4]. apply andb_true_iff in H as [H H3]. rewrite HB. split.
  - cbn [forallb] in H3. apply andb_true_iff in H3 as [F0 F]. constructor.
    + unfold fits_in in F0. cbn [fst snd] in F0. apply andb_true_iff in F0 as [_ F0]. apply Z.ltb_lt in F0.
      unfold piece_in, p_off, p_size. cbn [fst snd]. rewrite HB. lia.
    + assert (G : forall x, In x (all_images cs) -> zlen' (snd x) <= p_size x).
      { intros x Hx. unfold all_images in Hx. apply in_concat in Hx as (l & Hl & Hx). apply in_map_iff in Hl as (c & <- & Hc).
        apply in_map_iff in Hx as (e & <- & He). cbn. now apply (HS c e). }
      revert F G. generalize (all_images cs) as L. induction L as [|x t IH]; intros F G; [constructor|].
      cbn [map forallb] in F. apply andb_true_iff in F as [Fx Ft]. constructor; [|apply IH; [assumption|intros; apply G; now right]].
      unfold fits_in in Fx. apply andb_true_iff in Fx as [A B]. apply Z.leb_le in A. apply Z.ltb_lt in B.
      unfold piece_in. fold (p_off x) (p_size x) in A, B. repeat split; [assumption|apply G; now left|lia].
  - apply (pairwise_ok_pw ((0, start_real p cs, containers_block p cs) :: all_images cs)). exact H4.
Qed.

Lemma entry_points_at_image_l p cs :
  layout_ok p cs = true -> zlen' (containers_block p cs) = start_real p cs ->
  (forall c e, In c cs -> In e (c_images c) -> zlen' (i_image e) <= i_size e) ->
  forall c e, In c cs -> In e (c_images c) ->
  zslice (ahab_bytes p cs) (img_abs c e) (img_abs c e + i_size e) = fit_image (i_size e) (i_image e).
Proof.
  intros H HB HS c e Hc He. pose proof (layout_ok_pieces p cs H HB HS) as P.
  assert (T : 0 <= ahab_len p cs).
  { destruct P as [P _]. inversion P as [|? ? (A1 & A2 & A3) _]; subst. unfold p_off, p_size, zlen' in *. cbn [fst snd] in *. lia. }
  unfold ahab_bytes.
  apply (place_all_read (ahab_len p cs) _ _ (img_abs c e, i_size e, i_image e) T); [apply repeat_length | exact P |].
  right. now apply all_images_In.
Qed.

Lemma fit_image_extend size d : zlen' d <= size -> extend_to size d = Ok (fit_image size d).
Proof.
  intros H. unfold extend_to, fit_image. replace (size <? zlen' d) with false by (symmetry; apply Z.ltb_ge; lia).
  destruct (zlen' d =? size) eqn:E.
  - apply Z.eqb_eq in E. rewrite E, Z.sub_diag. simpl. now rewrite app_nil_r.
  - unfold py_set, zlen' in *. cbn [firstn app]. f_equal. f_equal. rewrite Nat.max_0_l.
    replace (Z.to_nat (size - Z.of_nat (length d))) with (Z.to_nat size - length d)%nat by lia.
    generalize (Z.to_nat size) as n. generalize (length d) as k. clear.
    induction k as [|k IH]; intros n; [now rewrite Nat.sub_0_r|]. destruct n as [|n]; [reflexivity|]. cbn [repeat skipn]. rewrite <- IH. reflexivity.
Qed.

(* ------------------------------------------------------------------ signature block and container as placements *)
Lemma place_pl' b off len d : 0 <= off -> len = zlen' d -> place b off len d = pl b (Z.to_nat off, d).
Proof. intros H ->. unfold place, pl. cbn [fst snd]. f_equal. unfold zlen'. lia. Qed.

Lemma srk_rec_bytes_len r : zlen' (srk_rec_bytes r) = srk_rec_len r.
Proof. unfold zlen', srk_rec_len, srk_rec_bytes. destruct (key_sizes (sr_ksize r)). rewrite !app_length, !le_length. unfold zlen'. lia. Qed.

Lemma srk_table_bytes_len v2 L rs : zlen' (srk_table_bytes v2 L rs) = srk_table_len rs.
Proof.
  unfold srk_table_bytes, srk_table_len, zlen'. rewrite !app_length, !le_length.
  induction rs as [|r t IH]; [reflexivity|]. cbn [map concat fold_right]. rewrite app_length.
  pose proof (srk_rec_bytes_len r) as R. unfold zlen' in R. lia.
Qed.

Lemma signature_bytes_len L s : zlen' (signature_bytes L s) = 8 + zlen' s.
Proof. unfold signature_bytes, zlen'. rewrite !app_length, !le_length. lia. Qed.

Lemma srk_table_len_pos rs : 4 <= srk_table_len rs.
Proof. unfold srk_table_len. induction rs as [|r t IH]; cbn [fold_right]; [lia|]. unfold srk_rec_len, zlen' in *. lia. Qed.

Lemma sigblock_bytes_pieces v2 rs s bl :
  rs <> [] -> (forall b, bl = Some b -> zlen' (blob_bytes b) = b_length b) ->
  let sb := sigblock_update rs (Some s) bl in
  sigblock_bytes v2 sb
  = fold_left pl ([(0%nat, sigblock_header v2 sb); (16%nat, srk_table_bytes v2 (srk_table_len rs) rs);
                   (Z.to_nat (sb_sig_off sb), signature_bytes (8 + zlen' s) s)]
                  ++ match bl with Some b => [(Z.to_nat (sb_blob_off sb), blob_bytes b)] | None => [] end)
              (repeat 0%N (Z.to_nat (sb_length sb))).
Proof.
  intros Hr Hb sb. destruct rs as [|r rt]; [contradiction|]. pose proof (srk_table_len_pos (r :: rt)) as TP.
  assert (A8 : 0 < gen_container_alignment) by reflexivity.
  destruct bl as [b|]; unfold sigblock_bytes; subst sb;
    cbn [sigblock_update sb_srk sb_sig sb_blob sb_srk_length sb_sig_length sb_length sb_srk_off sb_sig_off sb_blob_off];
    change (zalign (0 + zalign 16 gen_container_alignment) gen_container_alignment) with 16.
  all: rewrite !place_pl'; try reflexivity;
    try (now rewrite signature_bytes_len); try (now rewrite srk_table_bytes_len); try (symmetry; now apply Hb);
    pose proof (zalign_ge (zalign (16 + srk_table_len (r :: rt)) gen_container_alignment + (8 + zlen' s)) _ A8);
    pose proof (zalign_ge (16 + srk_table_len (r :: rt)) _ A8); unfold zlen' in *; lia.
Qed.

Lemma fold_pl_prefix l : forall b n, Forall (inb (length b)) l -> Forall (fun y => (n <= fst y)%nat) l ->
  firstn n (fold_left pl l b) = firstn n b.
Proof.
  induction l as [|y t IH]; intros b n H D; simpl; [reflexivity|]. inversion H; inversion D; subst.
  rewrite IH; try (rewrite pl_length by assumption); auto.
  pose proof (pl_before b y 0 n ltac:(assumption) ltac:(assumption)) as P. unfold slice in P. cbn [skipn] in P.
  now rewrite Nat.sub_0_r in P.
Qed.

Definition blob_ok (bl : option blob) : Prop := forall b, bl = Some b -> zlen' (blob_bytes b) = b_length b.

Lemma blob_of_cfg_len bits dek kid : 0 <= bits ->
  zlen' (blob_bytes (blob_of_cfg (bits, dek, kid))) = b_length (blob_of_cfg (bits, dek, kid)).
Proof.
  intros H.
  assert (E1 : b_length (blob_of_cfg (bits, dek, kid)) = 56 + bits / 8) by reflexivity.
  assert (E2 : b_keyblob (blob_of_cfg (bits, dek, kid)) = repeat 0%N (Z.to_nat (48 + bits / 8))) by reflexivity.
  unfold blob_bytes, zlen'. rewrite E1, E2, !app_length, !le_length, repeat_length. lia.
Qed.

Lemma blob_of_cfg_ok bits dek kid : 0 <= bits -> blob_ok (Some (blob_of_cfg (bits, dek, kid))).
Proof. intros H b E. injection E as <-. now apply blob_of_cfg_len. Qed.

Definition sb_pieces (v2 : bool) (rs : list srk_rec) (s : list N) (bl : option blob) : list (nat * list N) :=
  let sb := sigblock_update rs (Some s) bl in
  [(0%nat, sigblock_header v2 sb); (16%nat, srk_table_bytes v2 (srk_table_len rs) rs);
   (Z.to_nat (sb_sig_off sb), signature_bytes (8 + zlen' s) s)]
  ++ match bl with Some b => [(Z.to_nat (sb_blob_off sb), blob_bytes b)] | None => [] end.

(* arithmetic of SignatureBlock.update_fields for a signed container *)
Lemma sigblock_update_facts rs s bl : rs <> [] -> blob_ok bl ->
  let sb := sigblock_update rs (Some s) bl in
  sb_srk_off sb = 16 /\ sb_srk sb = rs /\ sb_srk_length sb = srk_table_len rs /\ sb_sig sb = Some s /\
  16 + srk_table_len rs <= sb_sig_off sb /\ sb_sig_off sb + 8 + zlen' s <= sb_length sb /\
  Forall (inb (Z.to_nat (sb_length sb))) (sb_pieces false rs s bl) /\
  (forall v2, map (fun x => (fst x, length (snd x))) (sb_pieces v2 rs s bl) = map (fun x => (fst x, length (snd x))) (sb_pieces false rs s bl)) /\
  match bl with
  | Some b => sb_sig_off sb + 8 + zlen' s <= sb_blob_off sb /\ sb_blob_off sb + b_length b = sb_length sb
  | None => True
  end.
Proof.
  intros Hr Hb sb. destruct rs as [|r rt]; [contradiction|]. pose proof (srk_table_len_pos (r :: rt)) as TP.
  assert (A8 : 0 < gen_container_alignment) by reflexivity.
  pose proof (zalign_ge (16 + srk_table_len (r :: rt)) _ A8) as G1.
  pose proof (zalign_ge (zalign (16 + srk_table_len (r :: rt)) gen_container_alignment + (8 + zlen' s)) _ A8) as G2.
  pose proof (srk_table_bytes_len false (srk_table_len (r :: rt)) (r :: rt)) as LT.
  pose proof (signature_bytes_len (8 + zlen' s) s) as LS.
  assert (LV : forall v2, map (fun x => (fst x, length (snd x))) (sb_pieces v2 (r :: rt) s bl)
                          = map (fun x => (fst x, length (snd x))) (sb_pieces false (r :: rt) s bl)).
  { intros v2. unfold sb_pieces. rewrite !map_app. cbn [map fst snd]. f_equal.
    all: try (repeat f_equal; unfold sigblock_header, srk_table_bytes; rewrite ?app_length, ?le_length; reflexivity). }
  destruct bl as [b|]; subst sb; unfold sb_pieces;
    cbn [sigblock_update sb_srk sb_sig sb_blob sb_srk_length sb_sig_length sb_length sb_srk_off sb_sig_off sb_blob_off app];
    change (zalign (0 + zalign 16 gen_container_alignment) gen_container_alignment) with 16.
  - pose proof (Hb b eq_refl) as LB.
    repeat split; try reflexivity; try (exact LV); try (unfold zlen' in *; lia).
    repeat constructor; unfold inb; cbn [fst snd]; unfold zlen' in *; try lia.
    change (length (sigblock_header false _)) with 16%nat. lia.
  - repeat split; try reflexivity; try (exact LV); try (unfold zlen' in *; lia).
    repeat constructor; unfold inb; cbn [fst snd]; unfold zlen' in *; try lia.
    change (length (sigblock_header false _)) with 16%nat. lia.
Qed.

Lemma Forall_inb_shape n (l l' : list (nat * list N)) :
  map (fun x => (fst x, length (snd x))) l = map (fun x => (fst x, length (snd x))) l' -> Forall (inb n) l' -> Forall (inb n) l.
Proof.
  revert l'; induction l as [|x t IH]; intros [|y q] E H; try discriminate; [constructor|].
  cbn [map] in E. injection E as E1 E2 E3. inversion H; subst. constructor; [|now apply (IH q)].
  unfold inb in *. rewrite E1, E2. assumption.
Qed.

Lemma sbo_val c : sbo c = 16 + zlen' (c_images c) * 128.
Proof. unfold sbo, zalign. change gen_container_alignment with 8. lia. Qed.

Lemma iaes_length l : length (concat (map iae_bytes l)) = (128 * length l)%nat.
Proof.
  induction l as [|e t IH]; [reflexivity|]. cbn [map concat]. rewrite app_length, IH.
  replace (length (iae_bytes e)) with 128%nat; [cbn [length]; lia|]. unfold iae_bytes. rewrite !app_length, !le_length, !fit_s_length. reflexivity.
Qed.

Definition container_head (c : container) : list N := header_bytes c ++ concat (map iae_bytes (c_images c)).

Lemma container_head_length c : length (container_head c) = Z.to_nat (sbo c).
Proof.
  unfold container_head. rewrite app_length, iaes_length, sbo_val. unfold header_bytes, header_bytes_raw, zlen'.
  rewrite !app_length, !le_length. lia.
Qed.

(* AHABContainer.export = header ++ image array ++ signature block (++ what is left of the zero buffer) *)
Lemma container_bytes_split v2 c :
  0 <= sb_length (c_sb c) ->
  exists rest, container_bytes v2 c = container_head c ++ sigblock_bytes v2 (c_sb c) ++ rest.
Proof.
  intros H. unfold container_bytes. fold (container_head c). pose proof (container_head_length c) as LH.
  set (N0 := Z.to_nat (zalign (header_length c) gen_container_alignment)).
  assert (A8 : 0 < gen_container_alignment) by reflexivity.
  assert (HN : (Z.to_nat (sbo c) <= N0)%nat).
  { unfold N0. pose proof (zalign_ge (header_length c) _ A8). unfold header_length in *. rewrite sbo_val in *. unfold zlen' in *. lia. }
  unfold py_set at 2. cbn [firstn app]. rewrite Nat.max_0_l.
  unfold py_set. rewrite firstn_app_exact by assumption. eexists. reflexivity.
Qed.

Lemma sigblock_bytes_length v2 rs s bl : rs <> [] -> blob_ok bl ->
  length (sigblock_bytes v2 (sigblock_update rs (Some s) bl)) = Z.to_nat (sb_length (sigblock_update rs (Some s) bl)).
Proof.
  intros Hr Hb. rewrite sigblock_bytes_pieces by assumption. fold (sb_pieces v2 rs s bl).
  destruct (sigblock_update_facts rs s bl Hr Hb) as (_ & _ & _ & _ & _ & _ & HF & HV & _).
  rewrite fold_pl_length; rewrite repeat_length; [reflexivity|]. eapply Forall_inb_shape; [apply HV|exact HF].
Qed.

Definition set_sb (c : container) (sb : sigblock) : container :=
  {| c_version := c_version c; c_flags := c_flags c; c_fuse := c_fuse c; c_sw := c_sw c; c_length := c_length c;
     c_coff := c_coff c; c_images := c_images c; c_sb := sb |}.

(* the first sig_off bytes of the signature block do not depend on the signature bytes *)
Lemma sigblock_prefix v2 rs s bl : rs <> [] -> blob_ok bl ->
  let sb := sigblock_update rs (Some s) bl in
  firstn (Z.to_nat (sb_sig_off sb)) (sigblock_bytes v2 sb)
  = firstn (Z.to_nat (sb_sig_off sb))
      (fold_left pl [(0%nat, sigblock_header v2 sb); (16%nat, srk_table_bytes v2 (srk_table_len rs) rs)]
                 (repeat 0%N (Z.to_nat (sb_length sb)))).
Proof.
  intros Hr Hb sb. unfold sb. rewrite sigblock_bytes_pieces by assumption. fold sb.
  destruct (sigblock_update_facts rs s bl Hr Hb) as (_ & _ & _ & _ & F5 & F6 & HF & HV & F9). fold sb in F5, F6, HF, F9.
  pose proof (Forall_inb_shape _ _ _ (HV v2) HF) as HF'. unfold sb_pieces in HF'. fold sb in HF'.
  change ([(0%nat, sigblock_header v2 sb); (16%nat, srk_table_bytes v2 (srk_table_len rs) rs);
           (Z.to_nat (sb_sig_off sb), signature_bytes (8 + zlen' s) s)] ++
          match bl with Some b => [(Z.to_nat (sb_blob_off sb), blob_bytes b)] | None => [] end)
    with ([(0%nat, sigblock_header v2 sb); (16%nat, srk_table_bytes v2 (srk_table_len rs) rs)] ++
          ((Z.to_nat (sb_sig_off sb), signature_bytes (8 + zlen' s) s) ::
           match bl with Some b => [(Z.to_nat (sb_blob_off sb), blob_bytes b)] | None => [] end)) in *.
  rewrite fold_left_app. apply Forall_app in HF' as [H1 H2]. apply fold_pl_prefix.
  - rewrite fold_pl_length; rewrite repeat_length; assumption.
  - constructor; [cbn [fst]; lia|]. destruct bl as [b|]; constructor; [|constructor]. cbn [fst]. destruct F9 as [F9 _].
    pose proof (srk_table_len_pos rs). unfold zlen' in *. lia.
Qed.

Lemma signed_range_l v2 c rs s s' bl :
  rs <> [] -> blob_ok bl -> c_sb c = sigblock_update rs (Some s) bl -> length s' = length s ->
  signed_data v2 c = container_head c ++ firstn (Z.to_nat (sb_sig_off (c_sb c))) (sigblock_bytes v2 (c_sb c)) /\
  signed_data v2 (set_sb c (sigblock_update rs (Some s') bl)) = signed_data v2 c /\
  sb_srk_off (c_sb c) = 16 /\ 16 + srk_table_len rs <= sb_sig_off (c_sb c).
Proof.
  intros Hr Hb Hs Hl.
  assert (SD : forall c0 s0, c_sb c0 = sigblock_update rs (Some s0) bl ->
            signed_data v2 c0 = container_head c0 ++ firstn (Z.to_nat (sb_sig_off (c_sb c0))) (sigblock_bytes v2 (c_sb c0))).
  { intros c0 s0 E0. destruct (sigblock_update_facts rs s0 bl Hr Hb) as (_ & F2 & _ & F4 & F5 & F6 & _). rewrite <- E0 in *.
    unfold signed_data. rewrite F4, F2. destruct rs as [|r rt]; [contradiction|].
    destruct (container_bytes_split v2 c0) as [rest ->]; [pose proof (srk_table_len_pos (r :: rt)); unfold zlen' in *; lia|].
    pose proof (container_head_length c0) as LH. pose proof (srk_table_len_pos (r :: rt)).
    rewrite Z2Nat.inj_add by (rewrite ?sbo_val; unfold zlen'; lia). rewrite <- LH.
    rewrite firstn_app_2. f_equal. rewrite firstn_app.
    replace (Z.to_nat (sb_sig_off (c_sb c0)) - length (sigblock_bytes v2 (c_sb c0)))%nat with 0%nat.
    - cbn [firstn]. apply app_nil_r.
    - rewrite E0, sigblock_bytes_length by assumption. rewrite <- E0. unfold zlen' in *. lia. }
  split; [exact (SD c s Hs)|]. split.
  - rewrite (SD (set_sb c (sigblock_update rs (Some s') bl)) s' eq_refl), (SD c s Hs).
    unfold container_head, header_bytes, sbo, header_length.
    cbn [set_sb c_sb c_images c_version c_length c_flags c_sw c_fuse]. rewrite Hs. rewrite !sigblock_prefix by assumption.
    destruct rs as [|r rt]; [contradiction|].
    destruct bl as [b|]; unfold sigblock_header, sigblock_update, zlen';
      cbn [sb_length sb_srk_off sb_sig_off sb_cert_off sb_blob_off sb_blob]; rewrite Hl; reflexivity.
  - destruct (sigblock_update_facts rs s bl Hr Hb) as (F1 & _ & _ & _ & F5 & _). rewrite <- Hs in *. auto.
Qed.

Lemma srk_hash_of_exported_table_l v2 c rs s bl :
  rs <> [] -> blob_ok bl -> c_sb c = sigblock_update rs (Some s) bl ->
  srk_hash v2 (c_sb c)
  = sha256 (zslice (container_bytes v2 c) (sbo c + sb_srk_off (c_sb c)) (sbo c + sb_srk_off (c_sb c) + srk_table_len rs)).
Proof.
  intros Hr Hb Hs. destruct (sigblock_update_facts rs s bl Hr Hb) as (F1 & F2 & F3 & F4 & F5 & F6 & HF & HV & F9). rewrite <- Hs in *.
  unfold srk_hash. rewrite F2, F3, F1. destruct rs as [|r rt] eqn:ER; [contradiction|]. rewrite <- ER in *. f_equal.
  pose proof (srk_table_len_pos rs) as TP.
  destruct (container_bytes_split v2 c) as [rest ->]; [unfold zlen' in *; lia|].
  pose proof (container_head_length c) as LH. unfold zslice.
  rewrite !Z2Nat.inj_add by (rewrite ?sbo_val; unfold zlen'; lia). rewrite <- LH.
  rewrite slice_app_r by lia. replace (length (container_head c) + Z.to_nat 16 - length (container_head c))%nat with 16%nat by lia.
  replace (length (container_head c) + Z.to_nat 16 + Z.to_nat (srk_table_len rs) - length (container_head c))%nat
    with (16 + Z.to_nat (srk_table_len rs))%nat by lia.
  assert (LSB : length (sigblock_bytes v2 (c_sb c)) = Z.to_nat (sb_length (c_sb c))) by (rewrite Hs; now apply sigblock_bytes_length).
  rewrite slice_app_l by (rewrite LSB; unfold zlen' in *; lia).
  rewrite Hs, sigblock_bytes_pieces by assumption.
  pose proof (Forall_inb_shape _ _ _ (HV v2) HF) as HF'. unfold sb_pieces in HF'. rewrite <- Hs in *.
  pose proof (srk_table_bytes_len v2 (srk_table_len rs) rs) as LT. unfold zlen' in LT.
  set (x := (16%nat, srk_table_bytes v2 (srk_table_len rs) rs)).
  replace (16 + Z.to_nat (srk_table_len rs))%nat with (fst x + length (snd x))%nat by (unfold x; cbn [fst snd]; lia).
  change 16%nat with (fst x) at 1.
  change ([(0%nat, sigblock_header v2 (c_sb c)); x; (Z.to_nat (sb_sig_off (c_sb c)), signature_bytes (8 + zlen' s) s)] ++
          match bl with Some b => [(Z.to_nat (sb_blob_off (c_sb c)), blob_bytes b)] | None => [] end)
    with ([(0%nat, sigblock_header v2 (c_sb c))] ++ x ::
          ((Z.to_nat (sb_sig_off (c_sb c)), signature_bytes (8 + zlen' s) s) ::
           match bl with Some b => [(Z.to_nat (sb_blob_off (c_sb c)), blob_bytes b)] | None => [] end)) in *.
  rewrite fold_pl_read; [reflexivity | rewrite repeat_length; exact HF' |].
  constructor.
  - left. unfold x. cbn [fst snd]. unfold zlen' in *. lia.
  - destruct bl as [b|]; constructor; [|constructor]. left. unfold x. cbn [fst snd]. destruct F9 as [F9 _]. unfold zlen' in *. lia.
Qed.

(* ------------------------------------------------------------------ hash field = hash of the bytes the entry points at *)
Lemma entry_hash_ok_size v2 e : entry_hash_ok v2 e -> zlen' (i_image e) <= i_size e.
Proof.
  intros (m & h & Hm & _). unfold extend_to in Hm. destruct (i_size e <? zlen' (i_image e)) eqn:E; [discriminate|].
  apply Z.ltb_ge in E. lia.
Qed.

Lemma entry_hash_in_file_l p l cs :
  ahab_update p l = Ok cs -> layout_ok p cs = true -> zlen' (containers_block p cs) = start_real p cs ->
  forall c e, In c cs -> In e (c_images c) ->
  exists h, hash_of (flags_hash (p_v2 p) (i_flags e)) (zslice (ahab_bytes p cs) (img_abs c e) (img_abs c e + i_size e)) = Ok h /\
            i_hash e = h ++ repeat 0%N (64 - length h).
Proof.
  intros HU HL HB c e Hc He.
  assert (HS : forall c0 e0, In c0 cs -> In e0 (c_images c0) -> zlen' (i_image e0) <= i_size e0).
  { intros c0 e0 H0 H1. eapply entry_hash_ok_size, entry_hash_l; eassumption. }
  rewrite (entry_points_at_image_l p cs HL HB HS c e Hc He).
  destruct (entry_hash_l p l cs c e HU Hc He) as (m & h & Hm & Hh & Hf & _). exists h. split; [|assumption].
  rewrite fit_image_extend in Hm by (now apply (HS c e)). now inversion Hm; subst.
Qed.

(* the hypotheses are satisfiable: a two-container image of the database family mimxrt1189 *)
Definition demo_image (seed : N) : image_cfg :=
  {| ic_data := gen_bytes 16 seed 3%N; ic_offset := 0; ic_load := 4096; ic_entry := 4096; ic_type := 3; ic_core := 1; ic_hash := 0;
     ic_enc := false; ic_boot := 0; ic_cpu := 0; ic_mu := 0; ic_part := 0; ic_gap := 0; ic_size_align := 0 |}.
Definition demo_cfg : list container_cfg :=
  [ {| cc_srk_set := 0; cc_used := 0; cc_revoke := 0; cc_gdet := 0; cc_fuse := 1; cc_sw := 2; cc_keys := []; cc_flag_ca := false;
       cc_sigmode := 0; cc_sig := []; cc_sig_ok := false; cc_blob := None; cc_images := [demo_image 1; demo_image 9] |};
    {| cc_srk_set := 2; cc_used := 1; cc_revoke := 0; cc_gdet := 0; cc_fuse := 0; cc_sw := 0;
       cc_keys := [KEcc 256 5 6; KEcc 256 7 8; KEcc 256 9 10; KEcc 256 11 12]; cc_flag_ca := false;
       cc_sigmode := 1; cc_sig := repeat 7%N 64; cc_sig_ok := true; cc_blob := None; cc_images := [demo_image 5] |} ].
Definition demo_params : params := params_of (nth 17 gen_families (0, 0, [], 1, 1, false, [])) 4 false.

Example entry_hash_nonvacuous :
  exists cs, ahab_update demo_params demo_cfg = Ok cs /\ layout_ok demo_params cs = true /\
             zlen' (containers_block demo_params cs) = start_real demo_params cs /\
             is_ok (ahab_export demo_params demo_cfg) = true /\
             map (fun c => map (img_abs c) (c_images c)) cs = [[8192; 9216]; [10240]].
Proof. eexists. split; [vm_compute; reflexivity|]. vm_compute. repeat split. Qed.

(* ------------------------------------------------------------------ automatic offsets are aligned *)
Definition off_align (p : params) (e : iae) : Z := Z.max (valid_alignment p e) (p_min_align p).
(* every image starts on the alignment boundary required by the image before it (the very first one on `al`) *)
Fixpoint achain (p : params) (coff al : Z) (l : list iae) : Prop :=
  match l with [] => True | e :: t => (i_raw_off e + coff) mod al = 0 /\ achain p coff (off_align p e) t end.
Fixpoint last_al (p : params) (al : Z) (l : list iae) : Z := match l with [] => al | e :: t => last_al p (off_align p e) t end.
Fixpoint achain_all (p : params) (al : Z) (cs : list container) : Prop :=
  match cs with [] => True | c :: t => achain p (c_coff c) al (c_images c) /\ achain_all p (last_al p al (c_images c)) t end.

Lemma assign_images_aligned p coff : forall l off al,
  (forall e, In e l -> i_raw_off e + coff <= 0) -> off mod al = 0 ->
  let r := assign_images p coff off l in
  achain p coff al (snd r) /\ fst r mod last_al p al l = 0 /\ last_al p al (snd r) = last_al p al l.
Proof.
  induction l as [|e t IH]; intros off al H Ha; cbn [assign_images]; [simpl; auto|].
  replace (0 <? i_raw_off e + coff) with false by (symmetry; apply Z.ltb_ge; apply H; now left).
  specialize (IH (valid_offset p e (off + i_size e + i_gap e)) (off_align p e)).
  destruct (assign_images p coff (valid_offset p e (off + i_size e + i_gap e)) t) as [off' t'] eqn:ER. cbn [fst snd] in *.
  destruct IH as (I1 & I2 & I3); [intros x Hx; apply H; now right | apply zalign_mod, valid_align_pos |].
  cbn [achain last_al set_off i_raw_off]. replace (off - coff + coff) with off by lia.
  change (off_align p (set_off e (off - coff))) with (off_align p e). auto.
Qed.

Lemma offsets_aligned_l p : forall cs off al,
  (forall c e, In c cs -> In e (c_images c) -> i_raw_off e + c_coff c <= 0) -> off mod al = 0 ->
  achain_all p al (assign_offsets p off cs).
Proof.
  induction cs as [|c t IH]; intros off al H Ha; cbn [assign_offsets]; [exact I|].
  pose proof (assign_images_aligned p (c_coff c) (c_images c) off al) as A.
  destruct (assign_images p (c_coff c) off (c_images c)) as [off' l'] eqn:E. cbn [fst snd] in A.
  destruct A as (A1 & A2 & A3); [intros e He; apply (H c e); [now left|assumption] | assumption |].
  cbn [achain_all set_images c_coff c_images]. split; [assumption|]. rewrite A3. apply IH; [|assumption].
  intros c0 e0 Hc0. apply H. now right.
Qed.

(* ------------------------------------------------------------------ sweep over the database: every family / target memory / version *)
Definition fam_ok (fam : gen_family) : bool :=
  let '(_, _, types, _, _, _, _) := fam in
  forallb (fun tm => forallb (fun ty =>
    let p := params_of fam tm (ty =? 2) in
    (p_start p mod 1024 =? 0) && (0 <? p_tm_align p) && (0 <? p_min_align p) && (0 <? p_size_align p) && (0 <? p_max_cnt p)
    && (0 <? p_max_img p) && (p_max_cnt p <=? 4)
    && ((ty =? 2) || (p_max_cnt p * p_csize p <=? p_start p))) types) [0; 2; 3; 4].

Lemma families_wf_l : forall fam, In fam gen_families -> fam_ok fam = true.
Proof. apply forallb_forall. vm_compute. reflexivity. Qed.

Example tamper_signed_range_nonvacuous :
  exists cs c, ahab_update demo_params demo_cfg = Ok cs /\ nth_error cs 1 = Some c /\
               (0 <? zlen' (signed_data false c)) = true /\ signed_as_parsed false (container_bytes false c) c = true.
Proof. eexists. eexists. split; [vm_compute; reflexivity|]. split; [reflexivity|]. vm_compute. split; reflexivity. Qed.
