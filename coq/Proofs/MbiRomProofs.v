(* Proofs/MbiRomProofs.v -- C02: every image the export model (Model/MbiModel.v with the real primitives of
   Model/MbiRomModel.v) produces passes the checks of the independent ROM model.  Depends on MbiProofs (C01, IVT lemmas),
   CryptoProofs / SymWrapProofs (C09). *)
From Coq Require Import ZArith NArith List Bool Lia.
Require Import Value Bytes BytesProofs Crc Sha2 Hmac Aes Modes CryptoProofs SymWrapModel SymWrapProofs.
Require Import MbiMixinModel GenMbi MbiModel MbiProofs MbiRomModel.
Import ListNotations.
Ltac Zify.zify_post_hook ::= Z.to_euclidean_division_equations.
Local Open Scope nat_scope.

(* ------------------------------------------------------------------ CRC: the builder's two-call CRC is the standard CRC-32/MPEG-2 *)
Lemma crc_bits_bridge n c : mbi_crc_bits n c = crc_bits n 32 79764919 c.
Proof. revert c; induction n as [|n IH]; intros c; [reflexivity|]. cbn [mbi_crc_bits crc_bits]. rewrite IH. reflexivity. Qed.
Lemma crc_byte_bridge c b : mbi_crc_byte c b = crc_byte CRC32_MPEG2 c b.
Proof. unfold mbi_crc_byte, crc_byte. rewrite crc_bits_bridge. reflexivity. Qed.
Lemma crc_from_bridge init d : mbi_crc32_from init d = crc_update CRC32_MPEG2 init d.
Proof.
  unfold mbi_crc32_from, crc_update. revert init; induction d as [|b d IH]; intros init; [reflexivity|].
  cbn [fold_left]. rewrite IH, crc_byte_bridge. reflexivity.
Qed.
Lemma crc_finish_mpeg r : crc_finish CRC32_MPEG2 r = r.
Proof. unfold crc_finish. cbn. apply N.lxor_0_r. Qed.
Lemma crc_bridge_l (a b : list N) :
  mbi_crc32_mpeg a = crc CRC32_MPEG2 a /\ mbi_crc32_from (mbi_crc32_mpeg a) b = crc CRC32_MPEG2 (a ++ b).
Proof.
  unfold mbi_crc32_mpeg, crc. rewrite !crc_from_bridge, !crc_finish_mpeg. split; [reflexivity|].
  now rewrite crc_update_app.
Qed.

(* ------------------------------------------------------------------ lists *)
Lemma firstn_app_le {A} (a b : list A) n : n <= length a -> firstn n (a ++ b) = firstn n a.
Proof. intros H. rewrite firstn_app. replace (n - length a) with 0 by lia. simpl. apply app_nil_r. Qed.
Lemma skipn_app_le {A} (a b : list A) n : n <= length a -> skipn n (a ++ b) = skipn n a ++ b.
Proof. intros H. rewrite skipn_app. replace (n - length a) with 0 by lia. reflexivity. Qed.
Lemma firstn_app_ge {A} (a b : list A) n : length a <= n -> firstn n (a ++ b) = a ++ firstn (n - length a) b.
Proof. intros H. rewrite firstn_app. now rewrite firstn_all2 by lia. Qed.
Lemma skipn_app_ge {A} (a b : list A) n : length a <= n -> skipn n (a ++ b) = skipn (n - length a) b.
Proof. intros H. rewrite skipn_app. now rewrite skipn_all2 by lia. Qed.
Lemma firstn_app_exact {A} (a b : list A) : firstn (length a) (a ++ b) = a.
Proof. rewrite firstn_app_le by lia. apply firstn_all. Qed.
Lemma skipn_app_exact {A} (a b : list A) : skipn (length a) (a ++ b) = b.
Proof. rewrite skipn_app_ge by lia. now rewrite Nat.sub_diag. Qed.
Lemma slice_app_mid {A} (a w b : list A) : slice (a ++ w ++ b) (length a) (length a + length w) = w.
Proof. unfold slice. rewrite skipn_app_exact. replace (length a + length w - length a) with (length w) by lia. apply firstn_app_exact. Qed.
Lemma slice_app_l {A} (a b : list A) i j : j <= length a -> slice (a ++ b) i j = slice a i j.
Proof.
  intros H. unfold slice. destruct (Nat.le_gt_cases i (length a)) as [L|L].
  - rewrite skipn_app_le by lia. apply firstn_app_le. rewrite skipn_length. lia.
  - replace (j - i) with 0 by lia. reflexivity.
Qed.
Lemma slice_app_r {A} (a b : list A) i j : length a <= i -> slice (a ++ b) i j = slice b (i - length a) (j - length a).
Proof. intros H. unfold slice. rewrite skipn_app_ge by lia. f_equal. lia. Qed.
Lemma slice_0 {A} (a : list A) j : slice a 0 j = firstn j a.
Proof. unfold slice. simpl. now rewrite Nat.sub_0_r. Qed.
Lemma slice_all {A} (a : list A) i : slice a i (length a) = skipn i a.
Proof. unfold slice. rewrite <- (skipn_length i a). apply firstn_all. Qed.
Lemma slice_length' {A} (a : list A) i j : i <= j -> j <= length a -> length (slice a i j) = j - i.
Proof. intros H1 H2. unfold slice. rewrite firstn_length, skipn_length. lia. Qed.
Lemma firstn_slice_cat {A} (a : list A) i j : i <= j -> firstn i a ++ slice a i j = firstn j a.
Proof.
  intros H. unfold slice. rewrite <- (firstn_skipn i a) at 3. rewrite firstn_app.
  destruct (Nat.le_gt_cases i (length a)) as [L|L].
  - rewrite firstn_length. replace (Nat.min i (length a)) with i by lia. rewrite (firstn_firstn a). replace (Nat.min j i) with i by lia. reflexivity.
  - rewrite !(firstn_all2 a) by lia. rewrite skipn_all2 by lia. now rewrite !firstn_nil.
Qed.
Lemma skipn_add {A} (a : list A) i k : skipn (i + k) a = skipn k (skipn i a).
Proof. revert a; induction i as [|i IH]; intros a; [reflexivity|]. destruct a as [|h a]; [now rewrite !skipn_nil|]. simpl. apply IH. Qed.
Lemma slice_skipn_cat {A} (a : list A) i j : i <= j -> slice a i j ++ skipn j a = skipn i a.
Proof.
  intros H. unfold slice. replace j with (i + (j - i)) at 2 by lia. rewrite skipn_add. apply firstn_skipn.
Qed.

(* bytearray slice assignment inside the first part of a concatenation *)
Lemma wr_split off w d : off + length w <= length d -> wr off w d = firstn off d ++ w ++ skipn (off + length w) d.
Proof. reflexivity. Qed.
Lemma wr_app off w d t : off + length w <= length d -> wr off w d ++ t = firstn off d ++ w ++ (skipn (off + length w) d ++ t).
Proof. intros H. unfold wr, splice. now rewrite <- !app_assoc. Qed.

(* ------------------------------------------------------------------ small facts about the export model *)
Lemma has_in c m : has c m = true -> In m (c_mixins c).
Proof.
  unfold has. intros H. apply existsb_exists in H as (m' & Hi & He). unfold mixin_eqb in He. apply Z.eqb_eq in He.
  assert (m = m') by (destruct m, m'; try reflexivity; discriminate He). now subst.
Qed.
Lemma flat_cons (a : list N) t : flat (a :: t) = a ++ flat t.
Proof. reflexivity. Qed.
Lemma flat_app (a b : image) : flat (a ++ b) = flat a ++ flat b.
Proof. unfold flat. apply concat_app. Qed.
Lemma flat_tz_segment x : flat (tz_segment x) = tz_export (m_tz x).
Proof. unfold tz_segment, flat. destruct (tz_export (m_tz x)); simpl; [reflexivity|now rewrite app_nil_r]. Qed.
Lemma crc_write_head s t w : 40 <= length s -> crc_write (s :: t) 0 w = Some (wr OFF_CRC w s :: t).
Proof.
  intros H. cbn [crc_write]. replace (Nat.leb 0 OFF_CRC && Nat.leb OFF_CRC (0 + length s)) with true
    by (symmetry; rewrite off_crc_eq; apply andb_true_iff; split; apply Nat.leb_le; lia).
  now rewrite Nat.sub_0_r.
Qed.
Lemma rd32_app o (a b : list N) : o + 4 <= length a -> rd32 o (a ++ b) = rd32 o a.
Proof. intros H. unfold rd32. f_equal. f_equal. rewrite skipn_app_le by lia. apply firstn_app_le. rewrite skipn_length. lia. Qed.
Lemma rd32_app_r o (a b : list N) : length a <= o -> rd32 o (a ++ b) = rd32 (o - length a) b.
Proof. intros H. unfold rd32. now rewrite skipn_app_ge by lia. Qed.

(* ------------------------------------------------------------------ validate gives the per-mixin facts *)
Lemma validate_in_mix c x l m : validate_in c x l = Ok tt -> In m l -> mix_validate c x m = Ok tt.
Proof.
  induction l as [|a l IH]; intros V I; [destruct I|]. cbn [validate_in] in V.
  destruct (mix_validate c x a) as [[]|] eqn:E; cbn [bind] in V; [|discriminate].
  destruct I as [->|I]; [assumption|auto].
Qed.
Lemma validate_mix c x m : validate c x = Ok tt -> has c m = true -> mix_validate c x m = Ok tt.
Proof. intros V H. eapply validate_in_mix; [exact V|now apply has_in]. Qed.
Lemma validate_app_len c x : validate c x = Ok tt -> has c MixinApp = true -> 56 <= length (m_app x).
Proof.
  intros V H. pose proof (validate_mix c x MixinApp V H) as M. cbn [mix_validate] in M.
  destruct (Nat.ltb (length (m_app x)) MIN_APP) eqn:E; [discriminate|]. apply Nat.ltb_ge in E. exact E.
Qed.

Lemma export_inv k c x img : export_mbi k c x = Ok img ->
  supported c = true /\ validate c x = Ok tt /\
  exists raw enc enc2 sg fin, collect c x = Ok raw /\ encrypt k c x raw = Ok enc /\ post_encrypt c x enc = Ok enc2 /\
    MbiModel.sign k c x enc2 = Ok sg /\ finalize k c x (fst sg) (snd sg) = Ok fin /\ img = flat fin.
Proof.
  unfold export_mbi, export_image. intros E.
  destruct (supported c); cbn [negb] in E; [|discriminate]. split; [reflexivity|].
  destruct (validate c x) as [[]|]; cbn [bind] in E; [|discriminate]. split; [reflexivity|].
  destruct (collect c x) as [raw|] eqn:E1; cbn [bind] in E; [|discriminate].
  destruct (encrypt k c x raw) as [enc|] eqn:E2; cbn [bind] in E; [|discriminate].
  destruct (post_encrypt c x enc) as [enc2|] eqn:E3; cbn [bind] in E; [|discriminate].
  destruct (MbiModel.sign k c x enc2) as [sg|] eqn:E4; cbn [bind] in E; [|discriminate].
  destruct (finalize k c x (fst sg) (snd sg)) as [fin|] eqn:E5; cbn [res_map] in E; [|discriminate].
  injection E as <-. exists raw, enc, enc2, sg, fin. auto 10.
Qed.

(* ------------------------------------------------------------------ well-formed inputs / class kinds *)
Definition wf_input (x : mbi) : Prop := (0 <= m_subtype x < 4)%Z /\ (0 <= m_imgver x < 65536)%Z /\ m_table x = None.

Definition prov_is (c : mbi_class) (s : stage) (m : option mixin) : bool := (opt_mixin_id (provider c s) =? opt_mixin_id m)%Z.
Lemma prov_is_eq c s m : prov_is c s m = true -> provider c s = m.
Proof.
  unfold prov_is. intros H. apply Z.eqb_eq in H. destruct (provider c s) as [p|], m as [m|]; cbn [opt_mixin_id] in H.
  - f_equal. destruct p, m; try reflexivity; discriminate H.
  - destruct p; discriminate H.
  - destruct m; discriminate H.
  - reflexivity.
Qed.

(* ------------------------------------------------------------------ sums over a duplicate-free mixin list *)
Definition hasl (l : list mixin) (m : mixin) : bool := existsb (mixin_eqb m) l.
Lemma sum_single (f : mixin -> Z) a : sumz (map (fun m => if mixin_eqb m a then f m else 0%Z) all_mixins) = f a.
Proof. destruct a; cbn; lia. Qed.
Lemma sumz_add (f g : mixin -> Z) l : sumz (map (fun m => (f m + g m)%Z) l) = (sumz (map f l) + sumz (map g l))%Z.
Proof. induction l as [|a l IH]; [reflexivity|]. cbn [map sumz fold_right] in *. fold (sumz (map f l)) (sumz (map g l)) (sumz (map (fun m => (f m + g m)%Z) l)). lia. Qed.
Lemma mixin_eqb_sym a b : mixin_eqb a b = mixin_eqb b a.
Proof. unfold mixin_eqb. apply Z.eqb_sym. Qed.
Lemma mixin_eqb_eq a b : mixin_eqb a b = true -> a = b.
Proof. unfold mixin_eqb. intros H. apply Z.eqb_eq in H. destruct a, b; try reflexivity; discriminate H. Qed.
Lemma sumz_zero {A} (l : list A) : sumz (map (fun _ => 0%Z) l) = 0%Z.
Proof. induction l as [|a l IH]; [reflexivity|]. unfold sumz in *. cbn [map fold_right]. lia. Qed.
Lemma sumz_nodup (f : mixin -> Z) l : nodupb l = true ->
  sumz (map f l) = sumz (map (fun m => if hasl l m then f m else 0%Z) all_mixins).
Proof.
  induction l as [|a l IH]; intros ND.
  - unfold hasl. cbn [map existsb]. now rewrite sumz_zero.
  - cbn [nodupb] in ND. apply andb_true_iff in ND as [NA ND]. apply negb_true_iff in NA.
    cbn [map sumz fold_right]. fold (sumz (map f l)). rewrite (IH ND).
    rewrite <- (sum_single f a) at 1. rewrite <- sumz_add. f_equal. apply map_ext. intros m.
    unfold hasl. cbn [existsb]. destruct (mixin_eqb m a) eqn:E.
    + apply mixin_eqb_eq in E. subst m. rewrite NA. cbn [orb]. lia.
    + cbn [orb]. lia.
Qed.

Lemma if_same0 (b : bool) : (if b then 0%Z else 0%Z) = 0%Z.
Proof. destruct b; reflexivity. Qed.
Definition tzl (x : mbi) : Z := zlen (tz_export (m_tz x)).
Definition hz (c : mbi_class) (m : mixin) (v : Z) : Z := if has c m then v else 0%Z.
Lemma total_len_expand c x : nodupb (c_mixins c) = true -> m_table x = None ->
  total_len c x =
  (hz c MixinApp (zlen (m_app x)) + hz c MixinTrustZone (tzl x) + hz c MixinTrustZoneMandatory (tzl x) +
   hz c MixinManifestCrc (mix_len x MixinManifestCrc) + hz c MixinManifestDigest (mix_len x MixinManifestDigest) +
   hz c MixinCertBlockV1 (mix_len x MixinCertBlockV1) + hz c MixinCertBlockV21 (mix_len x MixinCertBlockV21) +
   hz c MixinKeyStore (opt_len (m_ks x)) + hz c MixinHmac (mix_len x MixinHmac) + hz c MixinHmacMandatory (mix_len x MixinHmacMandatory))%Z.
Proof.
  intros ND HT. unfold total_len. rewrite (sumz_nodup _ _ ND). unfold hz, has, hasl, tzl.
  cbn [all_mixins map sumz fold_right mix_len]. rewrite HT.
  rewrite ?if_same0. ring.
Qed.
Lemma total_len_for_cert_expand c x : nodupb (c_mixins c) = true -> m_table x = None ->
  total_len_for_cert c x =
  (hz c MixinApp (zlen (m_app x)) + hz c MixinTrustZone (tzl x) + hz c MixinTrustZoneMandatory (tzl x) +
   hz c MixinManifestCrc (mix_len x MixinManifestCrc) + hz c MixinManifestDigest (mix_len x MixinManifestDigest) +
   hz c MixinCertBlockV1 (mix_len x MixinCertBlockV1) + hz c MixinCertBlockV21 (mix_len x MixinCertBlockV21))%Z.
Proof.
  intros ND HT. unfold total_len_for_cert. rewrite (sumz_nodup _ _ ND). unfold hz, has, hasl, tzl.
  cbn [all_mixins map sumz fold_right mix_len legacy_len]. rewrite HT.
  rewrite ?if_same0. ring.
Qed.
Lemma app_len_expand c x : nodupb (c_mixins c) = true -> m_table x = None -> app_len c x = hz c MixinApp (zlen (m_app x)).
Proof.
  intros ND HT. unfold app_len. rewrite (sumz_nodup _ _ ND). unfold hz, has, hasl.
  cbn [all_mixins map sumz fold_right mix_app_len]. rewrite HT.
  rewrite ?if_same0. ring.
Qed.

(* ------------------------------------------------------------------ stages that a class does not provide *)
Lemma encrypt_none k c x im : provider c SEncrypt = None -> encrypt k c x im = Ok im.
Proof. intros P. unfold encrypt. now rewrite P. Qed.
Lemma post_encrypt_none c x im : provider c SPostEncrypt = None -> post_encrypt c x im = Ok im.
Proof. intros P. unfold post_encrypt. now rewrite P. Qed.
Lemma finalize_none k c x im dts : provider c SFinalize = None -> finalize k c x im dts = Ok im.
Proof. intros P. unfold finalize. now rewrite P. Qed.
Lemma reloc_none c x start : m_table x = None -> reloc_segment c x start = Ok [].
Proof. intros H. unfold reloc_segment. rewrite H. now destruct (has_attr c AAppTable). Qed.

Definition no_auth_mixins (c : mbi_class) : bool :=
  negb (has c MixinManifestCrc) && negb (has c MixinManifestDigest) && negb (has c MixinCertBlockV1) &&
  negb (has c MixinCertBlockV21) && negb (has c MixinKeyStore) && negb (has c MixinHmac) && negb (has c MixinHmacMandatory).

(* CRC classes: application (+ TrustZone), CRC written into IVT word 0x28, total length written into word 0x20 *)
Definition k_crc (c : mbi_class) : bool :=
  supported c && nodupb (c_mixins c) && has c MixinApp && has_attr c AIvtTable && no_auth_mixins c &&
  ((prov_is c SCollect (Some ExportMixinAppTrustZone) && xorb (has c MixinTrustZone) (has c MixinTrustZoneMandatory)) ||
   (prov_is c SCollect (Some ExportMixinApp) && negb (has c MixinTrustZone) && negb (has c MixinTrustZoneMandatory))) &&
  prov_is c SEncrypt None && prov_is c SPostEncrypt None && prov_is c SFinalize None &&
  prov_is c SSign (Some ExportMixinCrcSign) && prov_is c SUpdateIvt (Some MixinIvt) && ((c_type c =? 2) || (c_type c =? 5))%Z.
Definition crc_tz (c : mbi_class) (x : mbi) : list N :=
  if prov_is c SCollect (Some ExportMixinAppTrustZone) then tz_export (m_tz x) else [].

Lemma collect_app_ok c x : 56 <= length (m_app x) -> has_attr c AIvtTable = true -> m_table x = None ->
  forall app', update_ivt c x (m_app x) (total_len c x) 0 = Ok app' -> collect_app c x = Ok [app'].
Proof.
  intros L HI HT app' U. unfold collect_app. destruct (m_app x) as [|b t] eqn:Ea; [simpl in L; lia|].
  rewrite HI, U. cbn [bind]. rewrite (reloc_none c x _ HT). reflexivity.
Qed.

Lemma export_crc_shape k c x img : k_crc c = true -> m_table x = None -> export_mbi k c x = Ok img ->
  56 <= length (m_app x) /\
  exists app', update_ivt c x (m_app x) (total_len c x) 0 = Ok app' /\
    img = wr 40 (le_enc 4 (mbi_crc32_from (mbi_crc32_mpeg (firstn 40 (app' ++ crc_tz c x))) (skipn 44 (app' ++ crc_tz c x)))) app'
          ++ crc_tz c x.
Proof.
  intros K HT E. unfold k_crc in K. do 11 (apply andb_true_iff in K as [K ?]).
  rename H into KT, H0 into PU, H1 into PS, H2 into PF, H3 into PP, H4 into PE, H5 into KC, H6 into NA, H7 into HI, H8 into HA, H9 into ND.
  apply prov_is_eq in PU, PS, PF, PP, PE.
  destruct (export_inv k c x img E) as (_ & V & raw & enc & enc2 & sg & fin & E1 & E2 & E3 & E4 & E5 & ->).
  pose proof (validate_app_len c x V HA) as L. split; [exact L|].
  rewrite (encrypt_none k c x raw PE) in E2. injection E2 as <-.
  rewrite (post_encrypt_none c x raw PP) in E3. injection E3 as <-.
  rewrite (finalize_none k c x _ _ PF) in E5. injection E5 as <-.
  assert (CA : exists app', update_ivt c x (m_app x) (total_len c x) 0 = Ok app' /\ raw = app' :: (match crc_tz c x with [] => [] | d => [d] end)).
  { unfold crc_tz. unfold collect in E1. apply orb_true_iff in KC as [KC|KC].
    - apply andb_true_iff in KC as [KC _]. rewrite KC. apply prov_is_eq in KC. rewrite KC in E1.
      destruct (update_ivt c x (m_app x) (total_len c x) 0) as [app'|] eqn:U.
      + rewrite (collect_app_ok c x L HI HT app' U) in E1. cbn [bind] in E1. injection E1 as <-. exists app'. split; [reflexivity|].
        unfold tz_segment. reflexivity.
      + exfalso. unfold collect_app in E1. destruct (m_app x) as [|b t]; [simpl in L; lia|]. rewrite HI, U in E1. discriminate E1.
    - apply andb_true_iff in KC as [KC _]. apply andb_true_iff in KC as [KC _]. pose proof KC as KC'. apply prov_is_eq in KC. rewrite KC in E1.
      assert (X : prov_is c SCollect (Some ExportMixinAppTrustZone) = false).
      { unfold prov_is. rewrite KC. reflexivity. }
      rewrite X.
      destruct (update_ivt c x (m_app x) (total_len c x) 0) as [app'|] eqn:U.
      + rewrite (collect_app_ok c x L HI HT app' U) in E1. injection E1 as <-. exists app'. auto.
      + exfalso. unfold collect_app in E1. destruct (m_app x) as [|b t]; [simpl in L; lia|]. rewrite HI, U in E1. discriminate E1. }
  destruct CA as (app' & U & ->). exists app'. split; [exact U|].
  assert (La : length app' = length (m_app x)) by (eapply update_ivt_length; eassumption).
  assert (FT : flat (match crc_tz c x with [] => [] | d => [d] end) = crc_tz c x).
  { destruct (crc_tz c x); [reflexivity|]. unfold flat. simpl. now rewrite app_nil_r. }
  unfold MbiModel.sign in E4. rewrite PS in E4. rewrite flat_cons in E4.
  match type of E4 with context [crc_write _ 0 ?w] => remember w as cw eqn:Ecw end.
  rewrite crc_write_head in E4 by lia. injection E4 as <-. cbn [fst]. rewrite flat_cons.
  rewrite off_crc_eq in *. change (40 + 4) with 44 in Ecw. subst cw. f_equal; [|exact FT]. do 5 f_equal; f_equal; exact FT.
Qed.

Lemma skipn_app_len {A} (w r : list A) n : length w = n -> skipn n (w ++ r) = r.
Proof. intros <-. apply skipn_app_exact. Qed.
Lemma firstn_app_len {A} (w r : list A) n : length w = n -> firstn n (w ++ r) = w.
Proof. intros <-. apply firstn_app_exact. Qed.

Lemma crc_region_wr (a w t : list N) : 56 <= length a -> length w = 4 ->
  crc_region (wr 40 w a ++ t) = firstn 40 (a ++ t) ++ skipn 44 (a ++ t) /\ slice (wr 40 w a ++ t) 40 44 = w.
Proof.
  intros L Lw. rewrite wr_app by lia. rewrite Lw. change (40 + 4) with 44.
  assert (L40 : length (firstn 40 a) = 40) by (rewrite firstn_length; lia).
  split.
  - unfold crc_region. rewrite firstn_app_le by lia. rewrite firstn_all2 by lia.
    rewrite skipn_app_ge by lia. rewrite L40. change (44 - 40) with 4.
    rewrite (skipn_app_len w _ 4 Lw).
    rewrite firstn_app_le by lia. now rewrite skipn_app_le by lia.
  - unfold slice. rewrite (skipn_app_len _ _ 40 L40). change (44 - 40) with 4. apply firstn_app_len, Lw.
Qed.

Lemma eqb_list_refl' a : eqb_list a a = true.
Proof. now apply eqb_list_spec. Qed.

Lemma crc_ok_shape (a t : list N) : 56 <= length a ->
  rom_crc_ok (wr 40 (le_enc 4 (mbi_crc32_from (mbi_crc32_mpeg (firstn 40 (a ++ t))) (skipn 44 (a ++ t)))) a ++ t) = true.
Proof.
  intros L. unfold rom_crc_ok.
  destruct (crc_region_wr a (le_enc 4 (mbi_crc32_from (mbi_crc32_mpeg (firstn 40 (a ++ t))) (skipn 44 (a ++ t)))) t L
              (le_enc_length _ _)) as [-> ->].
  destruct (crc_bridge_l (firstn 40 (a ++ t)) (skipn 44 (a ++ t))) as [_ ->]. apply eqb_list_refl'.
Qed.

Lemma land63_type c x : (0 <= c_type c < 64)%Z -> wf_input x -> Z.land (create_flags c x) 63 = c_type c.
Proof. intros H (H1 & H2 & _). now destruct (flags_decode_lemma c x H H1 H2) as (_ & E & _). Qed.

Lemma hz_true c m v : has c m = true -> hz c m v = v. Proof. unfold hz. now intros ->. Qed.
Lemma hz_false c m v : has c m = false -> hz c m v = 0%Z. Proof. unfold hz. now intros ->. Qed.

Lemma crc_total_len c x : k_crc c = true -> m_table x = None -> total_len c x = (zlen (m_app x) + zlen (crc_tz c x))%Z.
Proof.
  intros K HT. unfold k_crc in K. do 11 (apply andb_true_iff in K as [K ?]).
  rename H5 into KC, H6 into NA, H8 into HA, H9 into ND.
  rewrite (total_len_expand c x ND HT). unfold no_auth_mixins in NA. do 6 (apply andb_true_iff in NA as [NA ?]).
  repeat match goal with H : negb _ = true |- _ => apply negb_true_iff in H end.
  rewrite (hz_true c MixinApp _ HA).
  rewrite (hz_false c MixinManifestCrc), (hz_false c MixinManifestDigest), (hz_false c MixinCertBlockV1), (hz_false c MixinCertBlockV21),
    (hz_false c MixinKeyStore), (hz_false c MixinHmac), (hz_false c MixinHmacMandatory) by assumption.
  unfold crc_tz, hz, tzl. apply orb_true_iff in KC as [KC|KC].
  - apply andb_true_iff in KC as [KC X]. rewrite KC.
    destruct (has c MixinTrustZone), (has c MixinTrustZoneMandatory); try discriminate X; lia.
  - apply andb_true_iff in KC as [KC X2]. apply andb_true_iff in KC as [KC X1]. apply negb_true_iff in X1, X2. rewrite X1, X2.
    apply prov_is_eq in KC. unfold prov_is. rewrite KC. cbn. unfold zlen. simpl. lia.
Qed.

Theorem crc_ok_l k c x img cfg keys :
  k_crc c = true -> wf_input x -> In (c_type c) (r_types cfg) -> export_mbi k c x = Ok img ->
  rom_crc_ok img = true /\
  rom_mbi cfg keys img = Some {| ro_plain := img; ro_msg := crc_region img; ro_obl := [] |}.
Proof.
  intros K WI TY E. pose proof WI as (WI1 & WI2 & HT).
  destruct (export_crc_shape k c x img K HT E) as (L & app' & U & SH).
  pose proof (crc_total_len c x K HT) as TL.
  unfold k_crc in K. do 11 (apply andb_true_iff in K as [K ?]).
  rename H into KT, H0 into PU. apply prov_is_eq in PU.
  assert (CT : (c_type c = 2 \/ c_type c = 5)%Z).
  { apply orb_true_iff in KT as [X|X]; apply Z.eqb_eq in X; auto. }
  assert (La : length app' = length (m_app x)) by (eapply update_ivt_length; eassumption).
  destruct (ivt_words c x (m_app x) (total_len c x) 0 app' L U) as (IW1 & IW2 & _ & _).
  assert (RC : rom_crc_ok img = true) by (rewrite SH; apply crc_ok_shape; lia).
  split; [exact RC|].
  assert (Li : length img = length (m_app x) + length (crc_tz c x)).
  { rewrite SH, app_length, wr_length; rewrite ?le_enc_length; lia. }
  assert (R32 : rd32 32 img = zlen img).
  { rewrite SH. rewrite rd32_app by (rewrite wr_length; rewrite ?le_enc_length; lia).
    rewrite rd32_wr_other by (rewrite ?le_enc_length; lia). rewrite off_len_eq in IW1. rewrite IW1.
    unfold ivt_total. rewrite PU, TL. rewrite <- SH. unfold zlen. rewrite Li. lia. }
  assert (R36 : rd32 36 img = create_flags c x).
  { rewrite SH. rewrite rd32_app by (rewrite wr_length; rewrite ?le_enc_length; lia).
    rewrite rd32_wr_other by (rewrite ?le_enc_length; lia). rewrite off_flags_eq in IW2. exact IW2. }
  unfold rom_mbi.
  assert (L56 : Nat.ltb (length img) 56 = false) by (apply Nat.ltb_ge; lia).
  rewrite L56, R36.
  assert (CT' : (0 <= c_type c < 64)%Z) by (destruct CT as [-> | ->]; lia).
  rewrite (land63_type c x CT' WI).
  assert (EX : existsb (Z.eqb (c_type c)) (r_types cfg) = true).
  { apply existsb_exists. exists (c_type c). split; [assumption|apply Z.eqb_refl]. }
  rewrite EX. cbn [negb]. rewrite R32, Z.eqb_refl. cbn [negb].
  destruct CT as [CT|CT]; rewrite CT, RC; reflexivity.
Qed.

(* ------------------------------------------------------------------ HMAC / key store insertion behind the 64-byte header *)
Definition ks_bytes (x : mbi) : list N := match m_ks x with Some b => b | None => [] end.
Lemma flat_hmac_block x hm : flat (hmac_block x hm) = hm ++ ks_bytes x.
Proof. unfold hmac_block, ks_bytes, flat. destruct (m_ks x); simpl; now rewrite ?app_nil_r. Qed.
Lemma between_done x hm im : forall off, hmac_insert_between x hm im off true = im.
Proof. induction im as [|s t IH]; intros off; [reflexivity|]. cbn [hmac_insert_between]. rewrite andb_false_r. cbn [orb app]. now rewrite IH. Qed.
Lemma offsets_past im : forall off, 64 < off -> existsb (Nat.eqb HMAC_OFF) (offsets_from im off) = false.
Proof.
  induction im as [|s t IH]; intros off H; [reflexivity|]. cbn [offsets_from existsb]. rewrite IH by lia.
  change HMAC_OFF with 64. replace (Nat.eqb 64 off) with false by (symmetry; apply Nat.eqb_neq; lia). reflexivity.
Qed.
Lemma split_past x hm im : forall off, 64 < off -> hmac_insert_split x hm im off = im.
Proof.
  induction im as [|s t IH]; intros off H; [reflexivity|]. cbn [hmac_insert_split]. change HMAC_OFF with 64.
  replace (Nat.leb off 64) with false by (symmetry; apply Nat.leb_gt; lia). cbn [andb app]. now rewrite IH by lia.
Qed.

Definition hmac_value (k : crypto) (x : mbi) (hdr : list N) : list N :=
  match m_hmac x with Some (kb :: kt) => k_hmac k (kb :: kt) hdr | _ => [] end.

Lemma finalize_hmac_flat k c x a s t dts :
  provider c SFinalize = Some ExportMixinHmacKeyStoreFinalize -> (64 <= app_len c x)%Z -> 64 <= length a ->
  exists fin, finalize k c x (a :: s :: t) dts = Ok fin /\
    flat fin = firstn 64 (flat (a :: s :: t)) ++ hmac_value k x (firstn 64 (flat (a :: s :: t))) ++ ks_bytes x ++ skipn 64 (flat (a :: s :: t)).
Proof.
  intros PF AL La. unfold finalize. rewrite PF. change HMAC_OFF with 64. change (Z.of_nat 64) with 64%Z.
  replace (app_len c x <? 64)%Z with false by (symmetry; apply Z.ltb_ge; lia).
  fold (hmac_value k x (firstn 64 (flat (a :: s :: t)))). set (hm := hmac_value k x (firstn 64 (flat (a :: s :: t)))).
  rewrite !flat_cons. cbn [offsets_from existsb]. change (Nat.eqb 64 0) with false. cbn [orb]. rewrite Nat.add_0_l.
  destruct (Nat.eqb 64 (length a)) eqn:E64.
  - apply Nat.eqb_eq in E64. cbn [orb]. eexists. split; [reflexivity|].
    cbn [hmac_insert_between]. change HMAC_OFF with 64. change (Nat.eqb 0 64) with false. cbn [andb orb app]. rewrite Nat.add_0_l.
    rewrite <- E64. rewrite Nat.eqb_refl. cbn [andb negb orb]. rewrite between_done.
    rewrite flat_cons, flat_app, flat_hmac_block, flat_cons.
    rewrite firstn_app_len by (symmetry; exact E64). rewrite skipn_app_len by (symmetry; exact E64).
    now rewrite <- !app_assoc.
  - apply Nat.eqb_neq in E64. rewrite offsets_past by lia. cbn [orb].
    replace (existsb (Nat.eqb 64) (offsets_from t (length a + length s))) with false
      by (symmetry; apply (offsets_past t); lia).
    eexists. split; [reflexivity|].
    cbn [hmac_insert_split]. change HMAC_OFF with 64. cbn [Nat.leb]. rewrite Nat.add_0_l, Nat.sub_0_r.
    replace (Nat.ltb 64 (length a)) with true by (symmetry; apply Nat.ltb_lt; lia). cbn [andb].
    replace (Nat.leb (length a) 64) with false by (symmetry; apply Nat.leb_gt; lia). cbn [andb].
    rewrite (split_past x hm t) by lia.
    rewrite !flat_app, flat_hmac_block. unfold flat at 1 2 3. cbn [concat]. rewrite !app_nil_r.
    rewrite firstn_app_le by lia. rewrite skipn_app_le by lia. now rewrite <- !app_assoc.
Qed.

(* ------------------------------------------------------------------ bounded length fields *)
Lemma wnat_eq lim z : (z <= Z.of_nat lim)%Z -> wnat lim z = Z.to_nat z.
Proof. intros H. unfold wnat. f_equal. lia. Qed.
Lemma wnat_le lim z : wnat lim z <= lim -> (z <= Z.of_nat lim)%Z.
Proof. unfold wnat. intros H. destruct (Z.le_gt_cases z (Z.of_nat lim)) as [L|L]; [exact L|]. rewrite Z.min_r in H by lia. lia. Qed.
Lemma wnat_zlen {A} lim (l : list A) : length l <= lim -> wnat lim (zlen l) = length l.
Proof. intros H. rewrite wnat_eq by (unfold zlen; lia). unfold zlen. apply Nat2Z.id. Qed.
Lemma align4_ge n : n <= align4 n.
Proof. unfold align4. pose proof (Nat.div_mod (n + 3) 4 ltac:(lia)). pose proof (Nat.mod_upper_bound (n + 3) 4 ltac:(lia)). lia. Qed.

(* ------------------------------------------------------------------ ROM side: a signed image with certificate block v1 *)
Lemma rom_cb_v1_inv cb info : rom_cb_v1 cb = Some info ->
  32 <= length cb /\ length cb = align4 (32 + natz (rd32 28 cb) + 128) /\ c1_il info = rd32 20 cb /\ (rd32 28 cb <= zlen cb)%Z.
Proof.
  unfold rom_cb_v1. intros H.
  destruct (Nat.ltb (length cb) 32) eqn:E1; [discriminate|]. apply Nat.ltb_ge in E1.
  destruct (negb (eqb_list (firstn 4 cb) CERT_MAGIC_B)); [discriminate|].
  destruct (negb (rd32 8 cb =? 32)%Z); [discriminate|].
  destruct (Nat.eqb (wnat (length cb) (rd32 24 cb)) 0 || Nat.ltb 4 (wnat (length cb) (rd32 24 cb))); [discriminate|].
  destruct (negb (Nat.eqb (length cb) (align4 (32 + wnat (length cb) (rd32 28 cb) + 128)))) eqn:E2; [discriminate|].
  apply negb_false_iff, Nat.eqb_eq in E2.
  destruct (cb1_certs (wnat (length cb) (rd32 24 cb)) cb 32 (32 + wnat (length cb) (rd32 28 cb))) as [[cs e]|]; [|discriminate].
  destruct (negb (Nat.eqb e (32 + wnat (length cb) (rd32 28 cb)))); [discriminate|]. injection H as <-.
  assert (B : (rd32 28 cb <= Z.of_nat (length cb))%Z).
  { apply wnat_le. pose proof (align4_ge (32 + wnat (length cb) (rd32 28 cb) + 128)). lia. }
  rewrite (wnat_eq _ _ B) in E2. auto.
Qed.

Definition v1_obl (info : cb1_info) (msg sig : list N) : list obligation :=
  chain_obl info ++ [ImageSig 1 (last (c1_certs info) []) msg sig].

(* s = hdr-app | certificate block | trailer | signature ; trailer = TrustZone data (plain) or header copy + IV + TrustZone (encrypted) *)
Lemma rom_v1_layout cfg keys ty (a cbb tr sig : list N) info :
  min_off cfg ty <= length a -> rd32 40 a = zlen a -> 44 <= length a ->
  rom_cb_v1 cbb = Some info -> c1_il info = zlen (a ++ cbb ++ tr) ->
  sha256 (concat (c1_table info)) = rk_rkth keys ->
  length tr = (if (ty =? 3)%Z then 72 else 0) + (if tz_custom a then r_tzsize cfg else 0) -> sig <> [] ->
  let s := a ++ cbb ++ tr ++ sig in
  let msg := a ++ cbb ++ tr in
  let off := length a in let cbsize := length cbb in
  rom_signed_v1 cfg keys ty s =
    if (ty =? 3)%Z
    then let plain := ctr_xcrypt (aes_enc_block (rom_image_key cfg keys)) (rom_iv s off cbsize) (rom_cipher s off cbsize (length msg)) in
         if ivt_agree plain s then Some {| ro_plain := plain; ro_msg := msg; ro_obl := v1_obl info msg sig |} else None
    else Some {| ro_plain := msg; ro_msg := msg; ro_obl := v1_obl info msg sig |}.
Proof.
  intros MO W40 L44 CB IL RK LT SN s msg off cbsize.
  destruct (rom_cb_v1_inv cbb info CB) as (L32 & LCB & ILE & B28).
  unfold rom_signed_v1.
  assert (Ls : length s = off + cbsize + length tr + length sig) by (unfold s; rewrite !app_length; lia).
  assert (O : wnat (length s) (rd32 40 s) = off).
  { unfold s at 2. rewrite rd32_app by lia. rewrite W40. apply wnat_zlen. lia. }
  rewrite O.
  replace (Nat.ltb off (min_off cfg ty)) with false by (symmetry; apply Nat.ltb_ge; exact MO).
  replace (Nat.ltb (length s) (off + 32)) with false by (symmetry; apply Nat.ltb_ge; lia). cbn [orb].
  assert (R28 : rd32 (off + 28) s = rd32 28 cbb).
  { unfold s. rewrite rd32_app_r by lia. replace (off + 28 - length a) with 28 by lia. apply rd32_app. lia. }
  rewrite R28. rewrite (wnat_eq (length s) (rd32 28 cbb)) by (unfold zlen in B28; fold cbsize in B28; lia).
  fold (natz (rd32 28 cbb)). rewrite <- LCB. fold cbsize.
  replace (Nat.ltb (length s) (off + cbsize)) with false by (symmetry; apply Nat.ltb_ge; lia).
  assert (SL : slice s off (off + cbsize) = cbb).
  { unfold s. apply slice_app_mid. }
  rewrite SL, CB. rewrite RK, eqb_list_refl'. cbn [negb].
  assert (ILn : wnat (length s) (c1_il info) = length msg).
  { rewrite IL. apply wnat_zlen. unfold s, msg. rewrite !app_length. lia. }
  rewrite ILn.
  assert (TZ : tz_custom s = tz_custom a).
  { unfold tz_custom, rom_word, s. now rewrite rd32_app by lia. }
  rewrite TZ.
  assert (Lm : length msg = off + cbsize + length tr) by (unfold msg; rewrite !app_length; lia).
  replace (Nat.eqb (length msg) (off + cbsize + (if (ty =? 3)%Z then 72 else 0) + (if tz_custom a then r_tzsize cfg else 0))) with true
    by (symmetry; apply Nat.eqb_eq; lia).
  assert (SG : 0 < length sig) by (destruct sig; [congruence|simpl; lia]).
  replace (Nat.ltb (length msg) (length s)) with true by (symmetry; apply Nat.ltb_lt; lia). cbn [negb orb].
  assert (FM : firstn (length msg) s = msg).
  { unfold s. replace (a ++ cbb ++ tr ++ sig) with (msg ++ sig) by (unfold msg; now rewrite <- !app_assoc). apply firstn_app_exact. }
  assert (SM : skipn (length msg) s = sig).
  { unfold s. replace (a ++ cbb ++ tr ++ sig) with (msg ++ sig) by (unfold msg; now rewrite <- !app_assoc). apply skipn_app_exact. }
  rewrite FM, SM. fold (v1_obl info msg sig). reflexivity.
Qed.

(* ------------------------------------------------------------------ certificate-block-v1 classes (RSA) *)
Ltac split_andb :=
  repeat match goal with
         | H : (_ && _)%bool = true |- _ => apply andb_true_iff in H; destruct H
         end.
Ltac norm_bools :=
  repeat match goal with
         | H : negb _ = true |- _ => apply negb_true_iff in H
         | H : prov_is _ _ _ = true |- _ => apply prov_is_eq in H
         | H : (_ =? _)%Z = true |- _ => apply Z.eqb_eq in H
         end.

Definition v1_common (c : mbi_class) : bool :=
  supported c && nodupb (c_mixins c) && has c MixinApp && has c MixinCertBlockV1 && negb (has c MixinCertBlockV21) &&
  negb (has c MixinManifestCrc) && negb (has c MixinManifestDigest) && has c MixinTrustZone &&
  negb (has c MixinTrustZoneMandatory) && negb (has c MixinHmac) && has_attr c ATrustZone &&
  prov_is c SSign (Some ExportMixinRsaSign) && prov_is c SUpdateIvt (Some MixinIvt).
(* signed XIP (LPC55S0x/1x/2x/6x, RT5xx/6xx, MCXW23x, NHS52S04) *)
Definition k_v1 (c : mbi_class) : bool :=
  v1_common c && prov_is c SCollect (Some ExportMixinAppTrustZoneCertBlock) && prov_is c SEncrypt None &&
  prov_is c SPostEncrypt None && prov_is c SFinalize None && negb (has c MixinKeyStore) && negb (has c MixinHmacMandatory) &&
  (c_type c =? 4)%Z.
(* signed load-to-RAM with header HMAC and optional key store (RT5xx/6xx) *)
Definition k_v1h (c : mbi_class) : bool :=
  v1_common c && prov_is c SCollect (Some ExportMixinAppTrustZoneCertBlock) && prov_is c SEncrypt None &&
  prov_is c SPostEncrypt None && prov_is c SFinalize (Some ExportMixinHmacKeyStoreFinalize) && has c MixinKeyStore &&
  has c MixinHmacMandatory && has_attr c AKeyStore && (c_type c =? 1)%Z.
(* encrypted load-to-RAM (RT5xx/6xx) *)
Definition k_enc (c : mbi_class) : bool :=
  v1_common c && prov_is c SCollect (Some ExportMixinAppTrustZoneCertBlockEncrypt) &&
  prov_is c SEncrypt (Some ExportMixinAppTrustZoneCertBlockEncrypt) &&
  prov_is c SPostEncrypt (Some ExportMixinAppTrustZoneCertBlockEncrypt) &&
  prov_is c SFinalize (Some ExportMixinHmacKeyStoreFinalize) && has c MixinKeyStore &&
  has c MixinHmacMandatory && has c MixinCtrInitVector && has_attr c AKeyStore && (c_type c =? 3)%Z.

Definition cb_v1_ok (pre post : list N) (certs table : list (list N)) : Prop :=
  length pre = 20 /\
  forall w, length w = 4 ->
    rom_cb_v1 (pre ++ w ++ post) = Some {| c1_il := rd32 20 (pre ++ w ++ post); c1_certs := certs; c1_table := table |}.
Definition tz_ok (tzsize : nat) (x : mbi) : Prop := match m_tz x with TzCustom d => length d = tzsize | _ => True end.
Definition hmac_len (x : mbi) : Z := match m_hmac x with Some _ => 32%Z | None => 0%Z end.

Lemma v1_lens c x : v1_common c = true -> m_table x = None ->
  total_len_for_cert c x = (zlen (m_app x) + tzl x + mix_len x MixinCertBlockV1)%Z /\
  app_len c x = zlen (m_app x) /\
  total_len c x = (zlen (m_app x) + tzl x + mix_len x MixinCertBlockV1 + hz c MixinKeyStore (opt_len (m_ks x)) +
                   hz c MixinHmacMandatory (hmac_len x))%Z.
Proof.
  intros K HT. unfold v1_common in K. split_andb. norm_bools.
  rewrite (total_len_for_cert_expand c x), (app_len_expand c x), (total_len_expand c x) by assumption.
  repeat match goal with H : has c ?m = true |- _ => rewrite !(hz_true c m) by exact H; clear H end.
  repeat match goal with H : has c ?m = false |- _ => rewrite !(hz_false c m) by exact H; clear H end.
  repeat split; try lia. unfold hz, hmac_len. cbn [mix_len]. change (Z.of_nat HMAC_SZ) with 32%Z. destruct (m_hmac x); lia.
Qed.

Lemma cert_export_v1 pre post sg il cbb : cert_export (CertV1 pre post sg) il = Ok cbb ->
  exists w, length w = 4 /\ Z.of_N (le_dec w) = il /\ cbb = pre ++ w ++ post /\ (0 < il)%Z.
Proof.
  unfold cert_export. destruct (il <=? 0)%Z eqn:E; [discriminate|]. apply Z.leb_gt in E.
  destruct (u32 il) as [w|] eqn:U; cbn [bind]; [|discriminate]. intros H. injection H as <-.
  exists w. split; [eapply u32_length; eassumption|]. split; [now apply u32_value in U|]. auto.
Qed.

(* the flags word tells whether TrustZone preset data is carried *)
Lemma tz_custom_flags c x (a : list N) : (0 <= c_type c < 64)%Z -> wf_input x -> has_attr c ATrustZone = true ->
  rd32 36 a = create_flags c x -> tz_custom a = match m_tz x with TzCustom _ => true | _ => false end.
Proof.
  intros CT (H1 & H2 & _) HA R. unfold tz_custom, rom_word. rewrite R.
  destruct (flags_decode_lemma c x CT H1 H2) as (_ & _ & E & _).
  change G_IVT_IMAGE_FLAGS_TZ_TYPE_SHIFT with 13%Z in E. change G_IVT_IMAGE_FLAGS_TZ_TYPE_MASK with 3%Z in E. rewrite E.
  unfold has_tz. rewrite HA. cbn [orb]. destruct (m_tz x); reflexivity.
Qed.
Lemma tz_len_ok tzsize x : tz_ok tzsize x ->
  length (tz_export (m_tz x)) = if (match m_tz x with TzCustom _ => true | _ => false end) then tzsize else 0.
Proof. unfold tz_ok. destruct (m_tz x); simpl; auto. Qed.

Lemma collect_v1 c x raw : v1_common c = true -> provider c SCollect = Some ExportMixinAppTrustZoneCertBlock ->
  m_table x = None -> 56 <= length (m_app x) -> collect c x = Ok raw ->
  exists pre post sg app' cbb, m_cert x = Some (CertV1 pre post sg) /\
    update_ivt c x (m_app x) (total_len c x + Z.of_nat sg) (app_len c x) = Ok app' /\
    cert_export (CertV1 pre post sg) (total_len_for_cert c x) = Ok cbb /\
    raw = [app'; cbb] ++ tz_segment x.
Proof.
  intros K PC HT L E. unfold collect in E. rewrite PC in E.
  destruct (m_app x) as [|b t] eqn:Ea; [simpl in L; lia|]. rewrite <- Ea in *.
  destruct (m_cert x) as [[pre post sg|]|]; try discriminate E.
  destruct (cert_export (CertV1 pre post sg) (total_len_for_cert c x)) as [cbb|] eqn:CE; cbn [bind] in E; [|discriminate].
  destruct (update_ivt c x (m_app x) (total_len c x + Z.of_nat sg) (app_len c x)) as [app'|] eqn:U; cbn [bind] in E; [|discriminate].
  rewrite (reloc_none c x _ HT) in E. cbn [bind] in E. injection E as <-.
  exists pre, post, sg, app', cbb. auto.
Qed.

Lemma sign_rsa k c x raw : provider c SSign = Some ExportMixinRsaSign ->
  MbiModel.sign k c x raw = Ok (raw ++ [k_sign k (flat raw)], flat raw).
Proof. intros P. unfold MbiModel.sign. now rewrite P. Qed.
Lemma flat_v1_raw app' cbb x : flat ([app'; cbb] ++ tz_segment x) = app' ++ cbb ++ tz_export (m_tz x).
Proof. rewrite flat_app, flat_tz_segment. unfold flat. simpl. now rewrite app_nil_r, <- app_assoc. Qed.
Lemma flat_snoc (im : image) (s : list N) : flat (im ++ [s]) = flat im ++ s.
Proof. rewrite flat_app. unfold flat at 2. simpl. now rewrite app_nil_r. Qed.
Lemma in_existsb_z (t : Z) l : In t l -> existsb (Z.eqb t) l = true.
Proof. intros H. apply existsb_exists. exists t. split; [assumption|apply Z.eqb_refl]. Qed.

(* facts shared by the three certificate-block-v1 kinds after the collect stage *)
Lemma v1_words c x pre post sg app' cbb total :
  v1_common c = true -> (c_type c = 4 \/ c_type c = 1 \/ c_type c = 3)%Z -> wf_input x -> 56 <= length (m_app x) ->
  update_ivt c x (m_app x) total (app_len c x) = Ok app' ->
  cert_export (CertV1 pre post sg) (total_len_for_cert c x) = Ok cbb -> length pre = 20 ->
  length app' = length (m_app x) /\ rd32 32 app' = total /\ rd32 36 app' = create_flags c x /\ rd32 40 app' = zlen app' /\
  Z.land (create_flags c x) 63 = c_type c /\
  tz_custom app' = (match m_tz x with TzCustom _ => true | _ => false end) /\
  rd32 20 cbb = total_len_for_cert c x /\
  zlen cbb = mix_len (set_cert x (Some (CertV1 pre post sg))) MixinCertBlockV1.
Proof.
  intros K CT WI L U CE LP. pose proof WI as (_ & _ & HT).
  destruct (v1_lens c x K HT) as (_ & AL & _).
  unfold v1_common in K. split_andb. norm_bools.
  assert (CT' : (0 <= c_type c < 64)%Z) by lia.
  assert (La : length app' = length (m_app x)) by (eapply update_ivt_length; eassumption).
  destruct (ivt_words c x (m_app x) total (app_len c x) app' L U) as (I1 & I2 & I3 & _).
  rewrite off_len_eq in I1. rewrite off_flags_eq in I2. rewrite off_crc_eq in I3.
  unfold ivt_total in I1. match goal with H : provider c SUpdateIvt = _ |- _ => rewrite H in I1 end.
  unfold ivt_crc in I3. replace (c_type c =? 0)%Z with false in I3 by (symmetry; apply Z.eqb_neq; lia).
  destruct (cert_export_v1 pre post sg _ cbb CE) as (w & Lw & Vw & -> & _).
  repeat split; try assumption.
  - rewrite I3, AL. unfold zlen. now rewrite La.
  - now apply land63_type.
  - apply (tz_custom_flags c x); assumption.
  - rewrite rd32_app_r by lia. rewrite LP, Nat.sub_diag. rewrite rd32_app by lia.
    unfold rd32. cbn [skipn]. rewrite firstn_all2 by lia. exact Vw.
  - unfold zlen. cbn [mix_len set_cert m_cert cert_size]. rewrite !app_length, Lw. lia.
Qed.

Theorem v1_accept_l sign c x img cfg keys pre post sg certs table :
  k_v1 c = true -> wf_input x -> m_cert x = Some (CertV1 pre post sg) -> cb_v1_ok pre post certs table ->
  rk_rkth keys = sha256 (concat table) -> r_cb cfg = CbV1 -> In 4%Z (r_types cfg) -> tz_ok (r_tzsize cfg) x ->
  (forall m, length (sign m) = sg) -> 0 < sg ->
  export_mbi (real_crypto sign) c x = Ok img ->
  exists msg, img = msg ++ sign msg /\
    rd32 32 img = zlen img /\ rd32 (natz (rd32 40 img) + 20) img = zlen msg /\
    rom_mbi cfg keys img =
    Some {| ro_plain := msg; ro_msg := msg;
            ro_obl := v1_obl {| c1_il := zlen msg; c1_certs := certs; c1_table := table |} msg (sign msg) |}.
Proof.
  intros K WI MC (LP & CBOK) RK RCB TY TZ SL SG E. pose proof WI as (_ & _ & HT).
  unfold k_v1 in K. apply andb_true_iff in K as [K CT]. do 6 (apply andb_true_iff in K as [K ?]).
  rename H into NHM, H0 into NKS, H1 into PF, H2 into PP, H3 into PE, H4 into PC. norm_bools.
  pose proof K as K0. unfold v1_common in K0. split_andb. norm_bools.
  destruct (export_inv _ c x img E) as (_ & V & raw & enc & enc2 & sgn & fin & E1 & E2 & E3 & E4 & E5 & ->).
  assert (L : 56 <= length (m_app x)) by (apply (validate_app_len c x V); assumption).
  destruct (collect_v1 c x raw K PC HT L E1) as (pre' & post' & sg' & app' & cbb & MC' & U & CE & ->).
  rewrite MC in MC'. injection MC' as <- <- <-.
  rewrite (encrypt_none _ c x _ PE) in E2. injection E2 as <-.
  rewrite (post_encrypt_none c x _ PP) in E3. injection E3 as <-.
  rewrite sign_rsa in E4 by assumption. injection E4 as <-. cbn [fst snd] in E5.
  rewrite (finalize_none _ c x _ _ PF) in E5. injection E5 as <-.
  change (k_sign (real_crypto sign)) with sign. rewrite !flat_cons, flat_snoc, !flat_tz_segment.
  set (tzb := tz_export (m_tz x)). set (msg := app' ++ cbb ++ tzb).
  replace (app' ++ cbb ++ tzb ++ sign msg) with (msg ++ sign msg) by (unfold msg; now rewrite <- !app_assoc).
  exists msg. split; [reflexivity|].
  destruct (v1_words c x pre post sg app' cbb _ K (or_introl CT) WI L U CE LP) as (La & R32 & R36 & R40 & T63 & TZC & R20 & LCB).
  destruct (v1_lens c x K HT) as (TLC & AL & TL).
  rewrite (hz_false c MixinKeyStore), (hz_false c MixinHmacMandatory) in TL by assumption.
  replace (mix_len x MixinCertBlockV1) with (zlen cbb) in TLC, TL by (rewrite LCB; cbn [mix_len set_cert m_cert]; now rewrite MC).
  destruct (cert_export_v1 pre post sg _ cbb CE) as (w & Lw & Vw & Ecb & _).
  assert (Lmsg : zlen msg = total_len_for_cert c x).
  { rewrite TLC. unfold msg, tzl, tzb. unfold zlen. rewrite !app_length, La. lia. }
  assert (Limg : zlen (msg ++ sign msg) = (total_len c x + Z.of_nat sg)%Z).
  { rewrite TL. unfold msg, tzl, tzb. unfold zlen. rewrite !app_length, SL, La. lia. }
  unfold rom_mbi.
  assert (L56 : Nat.ltb (length (msg ++ sign msg)) 56 = false).
  { apply Nat.ltb_ge. unfold msg. rewrite !app_length. lia. }
  rewrite L56.
  assert (R36' : rd32 36 (msg ++ sign msg) = create_flags c x).
  { unfold msg. rewrite <- !app_assoc. rewrite rd32_app by lia. exact R36. }
  assert (R32' : rd32 32 (msg ++ sign msg) = zlen (msg ++ sign msg)).
  { rewrite Limg. unfold msg. rewrite <- !app_assoc. rewrite rd32_app by lia. exact R32. }
  split; [exact R32'|]. split.
  { replace (msg ++ sign msg) with (app' ++ cbb ++ tzb ++ sign msg) by (unfold msg; now rewrite <- !app_assoc).
    rewrite (rd32_app 40) by lia. rewrite R40. unfold natz, zlen at 1. rewrite Nat2Z.id.
    rewrite rd32_app_r by lia. replace (length app' + 20 - length app') with 20 by lia.
    destruct (cert_export_v1 pre post sg _ cbb CE) as (w0 & Lw0 & _ & Ecb0 & _).
    rewrite rd32_app by (rewrite Ecb0, !app_length; lia). rewrite R20. now rewrite Lmsg. }
  rewrite R36', T63, CT, (in_existsb_z 4%Z _ TY), R32', Z.eqb_refl.
  cbv beta iota delta [Z.eqb Pos.eqb orb negb].
  unfold rom_strip, has_hmac. cbv beta iota delta [Z.eqb Pos.eqb orb]. rewrite andb_false_r. rewrite RCB.
  unfold msg. rewrite <- !app_assoc.
  pose proof (CBOK w Lw) as CB1. rewrite <- Ecb in CB1.
  rewrite (rom_v1_layout cfg keys 4%Z app' cbb tzb (sign (app' ++ cbb ++ tzb))
             {| c1_il := rd32 20 cbb; c1_certs := certs; c1_table := table |}).
  - cbv beta iota delta [Z.eqb Pos.eqb]. fold msg. rewrite R20, <- Lmsg. reflexivity.
  - unfold min_off, has_hmac. cbv beta iota delta [Z.eqb Pos.eqb orb]. rewrite andb_false_r. lia.
  - exact R40.
  - lia.
  - exact CB1.
  - cbn [c1_il]. rewrite R20. fold msg. now rewrite Lmsg.
  - cbn [c1_table]. now rewrite RK.
  - cbv beta iota delta [Z.eqb Pos.eqb]. rewrite TZC. unfold tzb. rewrite (tz_len_ok _ x TZ). lia.
  - intros X. pose proof (SL (app' ++ cbb ++ tzb)) as Y. rewrite X in Y. simpl in Y. lia.
Qed.

(* ------------------------------------------------------------------ header authentication (HMAC + key store) *)
Lemma rom_digest_bytes_length c s : length (digest_bytes c s) = 8 * wbytes c.
Proof.
  destruct s as [[[[[[[a b] cc] d] e] f] g] h]. unfold digest_bytes. cbn [map concat].
  rewrite !app_length, !be_enc_length. simpl. lia.
Qed.
Lemma rom_sha256_length m : length (sha256 m) = 32.
Proof. unfold sha256, sha2. rewrite firstn_length, rom_digest_bytes_length. reflexivity. Qed.
Lemma rom_sha384_length m : length (sha384 m) = 48.
Proof. unfold sha384, sha2. rewrite firstn_length, rom_digest_bytes_length. reflexivity. Qed.
Lemma rom_sha512_length m : length (sha512 m) = 64.
Proof. unfold sha512, sha2. rewrite firstn_length, rom_digest_bytes_length. reflexivity. Qed.
Lemma hmac_sha256_length k d : length (hmac_sha256 k d) = 32.
Proof. unfold hmac_sha256, hmac_gen. apply rom_sha256_length. Qed.

Lemma nlen_32 (k : list N) : length k = 32 -> nlen k = 32%N.
Proof. intros H. unfold nlen. now rewrite H. Qed.
(* the builder's HMAC (KeyStore.derive_hmac_key + hmac) is the ROM's: HMAC-SHA256 under AES-ECB(user key, 0^16) *)
Lemma real_hmac_eq key hdr : length key = 32 -> real_hmac key hdr = hmac_sha256 (rom_hmac_key key) hdr.
Proof.
  intros L. unfold real_hmac. destruct (keystore_derivations_l key (nlen_32 key L)) as (-> & _). reflexivity.
Qed.
(* ... and the image key: AES-ECB(master key, 1|0^15) || AES-ECB(master key, 2|0^15) *)
Lemma real_enc_key_eq key : length key = 32 -> SymWrapModel.derive_enc_image_key key = Ok (rom_enc_key key).
Proof. intros L. destruct (keystore_derivations_l key (nlen_32 key L)) as (_ & -> & _). reflexivity. Qed.

Lemma rom_strip_layout cfg keys ty (s hm ksb : list N) :
  has_hmac cfg ty = true -> 64 <= length s -> hm = hmac_sha256 (rom_hmac_key (rk_user keys)) (firstn 64 s) ->
  length ksb = (if ks_flag s then KS_SIZE else 0) ->
  let img := firstn 64 s ++ hm ++ ksb ++ skipn 64 s in
  firstn 64 img = firstn 64 s /\ rom_hmac_ok (rk_user keys) img = true /\ rom_strip cfg keys ty img = Some s.
Proof.
  intros HH L EH LK img.
  assert (L64 : length (firstn 64 s) = 64) by (rewrite firstn_length; lia).
  assert (LH : length hm = 32) by (subst hm; apply hmac_sha256_length).
  assert (F : firstn 64 img = firstn 64 s) by (unfold img; now apply firstn_app_len).
  assert (KF : ks_flag img = ks_flag s).
  { unfold ks_flag, rom_word. f_equal. unfold img. rewrite rd32_app by lia.
    rewrite <- (firstn_skipn 64 s) at 2. now rewrite rd32_app by lia. }
  assert (RH : rom_hmac_ok (rk_user keys) img = true).
  { unfold rom_hmac_ok. rewrite F, <- EH. unfold img, slice. rewrite (skipn_app_len _ _ 64 L64). change (96 - 64) with 32.
    rewrite (firstn_app_len _ _ 32 LH). apply eqb_list_refl'. }
  split; [exact F|]. split; [exact RH|].
  unfold rom_strip. rewrite HH, RH. cbn [negb]. unfold strip_len. rewrite KF.
  assert (SK : skipn (if ks_flag s then 96 + KS_SIZE else 96) img = skipn 64 s).
  { unfold img. replace (if ks_flag s then 96 + KS_SIZE else 96) with (64 + (32 + length ksb)) by (rewrite LK; destruct (ks_flag s); reflexivity).
    rewrite skipn_add, (skipn_app_len _ _ 64 L64), skipn_add, (skipn_app_len _ _ 32 LH). now apply skipn_app_len. }
  assert (LI : length img = 64 + 32 + length ksb + (length s - 64)).
  { unfold img. rewrite !app_length, L64, LH, skipn_length. lia. }
  replace (Nat.ltb (length img) (if ks_flag s then 96 + KS_SIZE else 96)) with false
    by (symmetry; apply Nat.ltb_ge; rewrite LI, LK; destruct (ks_flag s); lia).
  rewrite F, SK, firstn_skipn. reflexivity.
Qed.

Lemma ks_flag_flags c x (a : list N) : (0 <= c_type c < 64)%Z -> wf_input x -> has_attr c AKeyStore = true ->
  rd32 36 a = create_flags c x -> ks_flag a = truthy_ks (m_ks x).
Proof.
  intros CT (H1 & H2 & _) HA R. unfold ks_flag, zbit, rom_word. rewrite R.
  destruct (flags_decode_lemma c x CT H1 H2) as (_ & _ & _ & _ & _ & E & _).
  change G_KEY_STORE_FLAG with 32768%Z in E. rewrite E, HA. reflexivity.
Qed.
Definition ks_wf (x : mbi) : Prop := match m_ks x with Some (b :: t) => length (b :: t) = KS_SIZE | _ => True end.
Lemma ks_len_ok x : ks_wf x -> length (ks_bytes x) = if truthy_ks (m_ks x) then KS_SIZE else 0.
Proof. unfold ks_wf, ks_bytes, truthy_ks. destruct (m_ks x) as [[|b t]|]; auto. Qed.
Lemma validate_hmac_key c x : validate c x = Ok tt -> has c MixinHmacMandatory = true ->
  exists key, m_hmac x = Some key /\ length key = 32 /\ key <> [].
Proof.
  intros V H. pose proof (validate_mix c x MixinHmacMandatory V H) as M. cbn [mix_validate] in M.
  destruct (m_hmac x) as [[|b k]|]; try discriminate M. exists (b :: k). split; [reflexivity|].
  change (natz G_HMAC_KEY_LENGTH) with 32 in M.
  destruct (Nat.eqb (length (b :: k)) 32) eqn:E; [|discriminate]. apply Nat.eqb_eq in E. split; [exact E|discriminate].
Qed.

Lemma finalize_hmac_app_len k c x im dts fin : provider c SFinalize = Some ExportMixinHmacKeyStoreFinalize ->
  finalize k c x im dts = Ok fin -> (64 <= app_len c x)%Z.
Proof.
  intros PF E. unfold finalize in E. rewrite PF in E. change (Z.of_nat HMAC_OFF) with 64%Z in E.
  destruct (app_len c x <? 64)%Z eqn:X; [discriminate|]. now apply Z.ltb_ge in X.
Qed.
Lemma hmac_value_real sign x key hdr : m_hmac x = Some key -> key <> [] -> length key = 32 ->
  hmac_value (real_crypto sign) x hdr = hmac_sha256 (rom_hmac_key key) hdr.
Proof.
  intros H NE L. unfold hmac_value. rewrite H. destruct key as [|b t]; [congruence|]. cbn [k_hmac real_crypto].
  now apply real_hmac_eq.
Qed.

Theorem v1h_accept_l sign c x img cfg keys pre post sg certs table :
  k_v1h c = true -> wf_input x -> m_cert x = Some (CertV1 pre post sg) -> cb_v1_ok pre post certs table ->
  rk_rkth keys = sha256 (concat table) -> r_cb cfg = CbV1 -> r_hmac cfg = true -> In 1%Z (r_types cfg) ->
  tz_ok (r_tzsize cfg) x -> ks_wf x -> m_hmac x = Some (rk_user keys) ->
  (forall m, length (sign m) = sg) -> 0 < sg ->
  export_mbi (real_crypto sign) c x = Ok img ->
  exists msg, let s := msg ++ sign msg in
    img = firstn 64 s ++ hmac_sha256 (rom_hmac_key (rk_user keys)) (firstn 64 s) ++ ks_bytes x ++ skipn 64 s /\
    firstn 64 img = firstn 64 s /\ 64 <= length msg /\
    rom_hmac_ok (rk_user keys) img = true /\
    rom_mbi cfg keys img =
    Some {| ro_plain := msg; ro_msg := msg;
            ro_obl := v1_obl {| c1_il := zlen msg; c1_certs := certs; c1_table := table |} msg (sign msg) |}.
Proof.
  intros K WI MC (LP & CBOK) RK RCB RH TY TZ KW MH SL SG E. pose proof WI as (_ & _ & HT).
  unfold k_v1h in K. apply andb_true_iff in K as [K CT]. do 7 (apply andb_true_iff in K as [K ?]).
  rename H into HAK, H0 into HHM, H1 into HKS, H2 into PF, H3 into PP, H4 into PE, H5 into PC. norm_bools.
  pose proof K as K0. unfold v1_common in K0. split_andb. norm_bools.
  destruct (export_inv _ c x img E) as (_ & V & raw & enc & enc2 & sgn & fin & E1 & E2 & E3 & E4 & E5 & ->).
  assert (L : 56 <= length (m_app x)) by (apply (validate_app_len c x V); assumption).
  destruct (validate_hmac_key c x V HHM) as (key & MH' & LK & NK). rewrite MH in MH'. injection MH' as <-.
  destruct (collect_v1 c x raw K PC HT L E1) as (pre' & post' & sg' & app' & cbb & MC' & U & CE & ->).
  rewrite MC in MC'. injection MC' as <- <- <-.
  rewrite (encrypt_none _ c x _ PE) in E2. injection E2 as <-.
  rewrite (post_encrypt_none c x _ PP) in E3. injection E3 as <-.
  rewrite sign_rsa in E4 by assumption. injection E4 as <-. unfold fst, snd in E5.
  change (k_sign (real_crypto sign)) with sign in E5. rewrite !flat_tz_segment in E5.
  set (tzb := tz_export (m_tz x)) in *. set (msg := app' ++ cbb ++ tzb) in *.
  pose proof (finalize_hmac_app_len _ c x _ _ fin PF E5) as AL64.
  destruct (v1_words c x pre post sg app' cbb _ K (or_intror (or_introl CT)) WI L U CE LP) as (La & R32 & R36 & R40 & T63 & TZC & R20 & LCB).
  destruct (v1_lens c x K HT) as (TLC & AL & TL).
  assert (La64 : 64 <= length app') by (rewrite AL in AL64; unfold zlen in AL64; lia).
  destruct (finalize_hmac_flat (real_crypto sign) c x app' cbb (tz_segment x ++ [sign msg]) msg PF AL64 La64) as (fin' & F1 & F2).
  rewrite F1 in E5. injection E5 as <-. rewrite F2. clear F1 F2.
  rewrite !flat_cons, flat_snoc, flat_tz_segment. fold tzb.
  replace (app' ++ cbb ++ tzb ++ sign msg) with (msg ++ sign msg) by (unfold msg; now rewrite <- !app_assoc).
  rewrite (hmac_value_real sign x (rk_user keys) _ MH NK LK).
  exists msg. cbv zeta. split; [reflexivity|].
  rewrite (hz_true c MixinKeyStore), (hz_true c MixinHmacMandatory) in TL by assumption.
  replace (mix_len x MixinCertBlockV1) with (zlen cbb) in TLC, TL by (rewrite LCB; cbn [mix_len set_cert m_cert]; now rewrite MC).
  destruct (cert_export_v1 pre post sg _ cbb CE) as (w & Lw & Vw & Ecb & _).
  assert (Lmsg : zlen msg = total_len_for_cert c x).
  { rewrite TLC. unfold msg, tzl, tzb. unfold zlen. rewrite !app_length, La. lia. }
  set (s := msg ++ sign msg).
  assert (Ls : 64 <= length s) by (unfold s, msg; rewrite !app_length; lia).
  assert (R36s : rd32 36 s = create_flags c x).
  { unfold s, msg. rewrite <- !app_assoc. rewrite rd32_app by lia. exact R36. }
  assert (CT' : (0 <= c_type c < 64)%Z) by lia.
  assert (KF : ks_flag s = truthy_ks (m_ks x)) by (apply (ks_flag_flags c x); assumption).
  assert (HH : has_hmac cfg 1%Z = true) by (unfold has_hmac; rewrite RH; reflexivity).
  destruct (rom_strip_layout cfg keys 1%Z s (hmac_sha256 (rom_hmac_key (rk_user keys)) (firstn 64 s)) (ks_bytes x) HH Ls eq_refl)
    as (F64 & RHO & RS).
  { rewrite KF. now apply ks_len_ok. }
  split; [exact F64|]. split; [unfold msg; rewrite !app_length; lia|]. split; [exact RHO|].
  set (img := firstn 64 s ++ hmac_sha256 (rom_hmac_key (rk_user keys)) (firstn 64 s) ++ ks_bytes x ++ skipn 64 s) in *.
  assert (Limg : zlen img = (total_len c x + Z.of_nat sg)%Z).
  { rewrite TL. unfold img, zlen, tzl, hmac_len. rewrite MH. rewrite !app_length, hmac_sha256_length, firstn_length, skipn_length.
    unfold s, msg. rewrite !app_length, SL, La. fold tzb.
    assert (OL : opt_len (m_ks x) = Z.of_nat (length (ks_bytes x))).
    { unfold opt_len, ks_bytes, zlen. destruct (m_ks x); reflexivity. }
    rewrite OL. unfold zlen. lia. }
  assert (RI : forall o, o + 4 <= 64 -> rd32 o img = rd32 o app').
  { intros o Ho. unfold img. rewrite rd32_app by (rewrite firstn_length; lia).
    unfold s, msg. rewrite <- !app_assoc. rewrite firstn_app_le by lia. unfold rd32. f_equal. f_equal.
    rewrite <- (firstn_skipn 64 app') at 2. rewrite skipn_app_le by (rewrite firstn_length; lia).
    rewrite firstn_app_le; [reflexivity|]. rewrite skipn_length, firstn_length. lia. }
  unfold rom_mbi.
  assert (L56 : Nat.ltb (length img) 56 = false).
  { apply Nat.ltb_ge. unfold img. rewrite !app_length, firstn_length. lia. }
  rewrite L56, (RI 36) by lia. rewrite R36, T63, CT, (in_existsb_z 1%Z _ TY), (RI 32) by lia.
  rewrite R32, <- Limg, Z.eqb_refl.
  cbv beta iota delta [Z.eqb Pos.eqb orb negb].
  rewrite RS, RCB. unfold s, msg. rewrite <- !app_assoc.
  pose proof (CBOK w Lw) as CB1. rewrite <- Ecb in CB1.
  rewrite (rom_v1_layout cfg keys 1%Z app' cbb tzb (sign (app' ++ cbb ++ tzb))
             {| c1_il := rd32 20 cbb; c1_certs := certs; c1_table := table |}).
  - cbv beta iota delta [Z.eqb Pos.eqb]. fold msg. rewrite R20, <- Lmsg. reflexivity.
  - unfold min_off. rewrite HH. exact La64.
  - exact R40.
  - lia.
  - exact CB1.
  - cbn [c1_il]. rewrite R20. fold msg. now rewrite Lmsg.
  - cbn [c1_table]. now rewrite RK.
  - cbv beta iota delta [Z.eqb Pos.eqb]. rewrite TZC. unfold tzb. rewrite (tz_len_ok _ x TZ). lia.
  - intros X. pose proof (SL (app' ++ cbb ++ tzb)) as Y. rewrite X in Y. simpl in Y. lia.
Qed.


(* ------------------------------------------------------------------ certificate-block-v2.1 classes (ECC, manifest) *)
Definition k_v21 (c : mbi_class) : bool :=
  supported c && nodupb (c_mixins c) && has c MixinApp && has c MixinCertBlockV21 && negb (has c MixinCertBlockV1) &&
  xorb (has c MixinManifestCrc) (has c MixinManifestDigest) && negb (has c MixinTrustZone) &&
  negb (has c MixinTrustZoneMandatory) && negb (has c MixinKeyStore) && negb (has c MixinHmac) &&
  negb (has c MixinHmacMandatory) && prov_is c SCollect (Some ExportMixinAppCertBlockManifest) &&
  prov_is c SEncrypt None && prov_is c SPostEncrypt None && prov_is c SSign (Some ExportMixinEccSign) &&
  prov_is c SFinalize (Some ExportMixinAppCertBlockManifest) && prov_is c SUpdateIvt (Some MixinIvt) &&
  ((c_type c =? 4) || (c_type c =? 8) || (c_type c =? 1))%Z.

(* every class of the database (regenerated on every run): plain, or not modelled (BCA / cert block Vx: MC56F81xxx, MCXC),
   or exactly one of the protected kinds the theorems quantify over *)
Definition b2n (b : bool) : nat := if b then 1 else 0.
Definition kind_count (c : mbi_class) : nat := b2n (k_crc c) + b2n (k_v1 c) + b2n (k_v1h c) + b2n (k_enc c) + b2n (k_v21 c).
Definition class_covered (c : mbi_class) : bool :=
  if negb (supported c) then Nat.eqb (kind_count c) 0
  else if (c_type c =? 0)%Z then Nat.eqb (kind_count c) 0 else Nat.eqb (kind_count c) 1.
Lemma kinds_cover_database_l : forallb class_covered gen_compositions = true.
Proof. vm_compute. reflexivity. Qed.
Definition kinds_histogram : list nat :=
  map (fun k => length (filter k gen_compositions)) [k_crc; k_v1; k_v1h; k_enc; k_v21; (fun c => negb (supported c))].

(* ------------------------------------------------------------------ projections used by the property theorems *)
Lemma certblock_lengths_v1_l sign c x img cfg keys pre post sg certs table :
  k_v1 c = true -> wf_input x -> m_cert x = Some (CertV1 pre post sg) -> cb_v1_ok pre post certs table ->
  rk_rkth keys = sha256 (concat table) -> r_cb cfg = CbV1 -> In 4%Z (r_types cfg) -> tz_ok (r_tzsize cfg) x ->
  (forall m, length (sign m) = sg) -> 0 < sg ->
  export_mbi (real_crypto sign) c x = Ok img ->
  exists msg, img = msg ++ sign msg /\ length (sign msg) = sg /\
    rd32 32 img = zlen img /\ rd32 (natz (rd32 40 img) + 20) img = zlen msg.
Proof.
  intros K WI MC CB RK RCB TY TZ SL SG E.
  destruct (v1_accept_l sign c x img cfg keys pre post sg certs table K WI MC CB RK RCB TY TZ SL SG E) as (msg & A & B & C & _).
  exists msg. auto.
Qed.

Lemma crc_decompose (img : list N) : 44 <= length img -> img = firstn 40 img ++ slice img 40 44 ++ skipn 44 img.
Proof. intros L. rewrite slice_skipn_cat by lia. symmetry. apply firstn_skipn. Qed.

(* coverage: the exported file is exactly [authenticated bytes] + [authenticator fields] *)
Lemma coverage_crc_l k c x img cfg keys :
  k_crc c = true -> wf_input x -> In (c_type c) (r_types cfg) -> export_mbi k c x = Ok img ->
  exists r, rom_mbi cfg keys img = Some r /\ ro_msg r = firstn 40 img ++ skipn 44 img /\
    img = firstn 40 img ++ slice img 40 44 ++ skipn 44 img /\
    slice img 40 44 = le_enc 4 (crc CRC32_MPEG2 (ro_msg r)).
Proof.
  intros K WI TY E. destruct (crc_ok_l k c x img cfg keys K WI TY E) as (RC & RM).
  eexists. split; [exact RM|]. cbn [ro_msg]. split; [reflexivity|].
  pose proof WI as (_ & _ & HT). destruct (export_crc_shape k c x img K HT E) as (L & app' & U & SH).
  assert (La : length app' = length (m_app x)) by (eapply update_ivt_length; eassumption).
  split.
  - apply crc_decompose. rewrite SH, app_length, wr_length; rewrite ?le_enc_length; lia.
  - unfold rom_crc_ok in RC. apply eqb_list_spec in RC. now rewrite RC.
Qed.

(* ------------------------------------------------------------------ the hypotheses are satisfiable: concrete instances *)
Definition demo_pre : list N := [99; 101; 114; 116; 1; 0; 0; 0; 32; 0; 0; 0; 0; 0; 0; 0; 1; 0; 0; 0]%N.
Definition demo_post : list N := ([1; 0; 0; 0; 8; 0; 0; 0; 4; 0; 0; 0; 48; 2; 5; 0] ++ zeros 128)%N.
Definition demo_certs : list (list N) := [[48; 2; 5; 0]%N].
Definition demo_table : list (list N) := [zeros 32; zeros 32; zeros 32; zeros 32].
Lemma demo_cb_ok : cb_v1_ok demo_pre demo_post demo_certs demo_table.
Proof.
  split; [reflexivity|]. intros w Lw.
  destruct w as [|a [|b [|cc [|d [|e t]]]]]; try discriminate Lw. vm_compute. reflexivity.
Qed.
Definition demo_app (n : nat) : list N := map N.of_nat (seq 1 n).
Definition demo_x (n : nat) : mbi :=
  {| m_app := demo_app n; m_load := 4096; m_imgver := 0; m_subtype := 0; m_fwver := 0; m_tz := TzEnabled; m_hwkey := false;
     m_ks := None; m_hmac := None; m_iv := []; m_table := None; m_cert := None; m_digest := 0 |}.
Definition demo_sign (sg : nat) : list N -> list N := fun m => firstn sg (sha256 m ++ zeros sg).
Definition demo_c_crc : mbi_class := {| c_type := 5; c_mixins := [MixinApp; MixinIvt; MixinTrustZone; ExportMixinAppTrustZone; ExportMixinCrcSign] |}.
Definition demo_c_v1 : mbi_class :=
  {| c_type := 4; c_mixins := [MixinApp; MixinIvt; MixinTrustZone; MixinCertBlockV1; ExportMixinAppTrustZoneCertBlock; ExportMixinRsaSign] |}.
Definition demo_c_v1h : mbi_class :=
  {| c_type := 1; c_mixins := [MixinApp; MixinRelocTable; MixinLoadAddress; MixinIvt; MixinTrustZone; MixinCertBlockV1; MixinHmacMandatory;
                               MixinKeyStore; MixinHwKey; ExportMixinAppTrustZoneCertBlock; ExportMixinRsaSign; ExportMixinHmacKeyStoreFinalize] |}.
Lemma demo_wf n : wf_input (demo_x n).
Proof. unfold wf_input, demo_x. cbn. repeat split; lia. Qed.
Example demo_crc_instance :
  k_crc demo_c_crc = true /\ wf_input (demo_x 60) /\ is_ok (export_mbi (real_crypto (demo_sign 0)) demo_c_crc (demo_x 60)) = true.
Proof. split; [vm_compute; reflexivity|]. split; [apply demo_wf|vm_compute; reflexivity]. Qed.
Example demo_v1_instance :
  let x := set_cert (demo_x 60) (Some (CertV1 demo_pre demo_post 256)) in
  k_v1 demo_c_v1 = true /\ wf_input x /\ tz_ok 464 x /\ (forall m, length (demo_sign 256 m) = 256) /\
  is_ok (export_mbi (real_crypto (demo_sign 256)) demo_c_v1 x) = true.
Proof.
  cbv zeta. split; [vm_compute; reflexivity|]. split; [apply demo_wf|]. split; [exact I|]. split; [|vm_compute; reflexivity].
  intros m. unfold demo_sign. rewrite firstn_length, app_length, rom_sha256_length, zeros_length. reflexivity.
Qed.
Example demo_v1h_instance :
  let x := set_hmac (set_cert (demo_x 80) (Some (CertV1 demo_pre demo_post 256))) (Some (zeros 32)) in
  k_v1h demo_c_v1h = true /\ wf_input x /\ ks_wf x /\
  is_ok (export_mbi (real_crypto (demo_sign 256)) demo_c_v1h x) = true.
Proof. cbv zeta. split; [vm_compute; reflexivity|]. split; [apply demo_wf|]. split; [exact I|vm_compute; reflexivity]. Qed.

(* ------------------------------------------------------------------ encrypted load-to-RAM images *)
Lemma skipn_wr off w d n : off + length w <= n -> off + length w <= length d -> skipn n (wr off w d) = skipn n d.
Proof.
  intros H1 H2. unfold wr, splice.
  assert (L : length (firstn off d) = off) by (rewrite firstn_length; lia).
  rewrite skipn_app_ge by lia. rewrite L. rewrite skipn_app_ge by lia.
  rewrite <- skipn_add. f_equal. lia.
Qed.
Lemma update_ivt_tail c x d total cc d' : 56 <= length d -> update_ivt c x d total cc = Ok d' -> skipn 56 d' = skipn 56 d.
Proof.
  intros L H. apply update_ivt_inv in H as (wf & wt & wc & wl & H1 & H2 & H3 & H4 & ->).
  apply u32_length in H1, H2, H3, H4.
  destruct (ivt_chain_lengths d wf wt wc wl H1 H2 H3 H4 L) as (A1 & A2 & A3 & A4).
  rewrite skipn_wr by lia. rewrite skipn_wr by lia. rewrite skipn_wr by lia. apply skipn_wr; lia.
Qed.
Lemma nth_slice (l : list N) a b i : i < b - a -> nth i (slice l a b) 0%N = nth (a + i) l 0%N.
Proof. intros H. unfold slice. rewrite nth_firstn'. replace (i <? b - a) with true by (symmetry; apply Nat.ltb_lt; lia). apply nth_skipn'. Qed.
(* the four header words depend on the class, the settings, the total length and the cert offset only *)
Lemma update_ivt_same_words c x d1 d2 total cc d1' d2' : 56 <= length d1 -> 56 <= length d2 ->
  update_ivt c x d1 total cc = Ok d1' -> update_ivt c x d2 total cc = Ok d2' ->
  slice d1' 32 44 = slice d2' 32 44 /\ slice d1' 52 56 = slice d2' 52 56.
Proof.
  intros L1 L2 U1 U2. pose proof (update_ivt_length _ _ _ _ _ _ L1 U1) as N1. pose proof (update_ivt_length _ _ _ _ _ _ L2 U2) as N2.
  apply update_ivt_inv in U1 as (wf & wt & wc & wl & H1 & H2 & H3 & H4 & E1).
  apply update_ivt_inv in U2 as (wf' & wt' & wc' & wl' & H1' & H2' & H3' & H4' & E2).
  rewrite H1 in H1'. rewrite H2 in H2'. rewrite H3 in H3'. rewrite H4 in H4'.
  injection H1' as <-. injection H2' as <-. injection H3' as <-. injection H4' as <-.
  apply u32_length in H1, H2, H3, H4.
  destruct (ivt_chain_lengths d1 wf wt wc wl H1 H2 H3 H4 L1) as (A1 & A2 & A3 & A4).
  destruct (ivt_chain_lengths d2 wf wt wc wl H1 H2 H3 H4 L2) as (B1 & B2 & B3 & B4).
  split; apply list_eq_nth; rewrite ?slice_length' by lia; try reflexivity; intros i Hi; rewrite !nth_slice by lia;
    rewrite E1, E2; repeat (rewrite nth_wr by lia); rewrite H1, H2, H3, H4; decide_ltb; try reflexivity; lia.
Qed.

Lemma okb_block1 : okb (1%N :: zeros 15) /\ okb (2%N :: zeros 15).
Proof. split; split; try reflexivity; repeat constructor. Qed.
Lemma rom_enc_key_ok key : length key = 32 -> wf_bytes key ->
  aes_key_ok (rom_enc_key key) = true /\ wf_bytes (rom_enc_key key).
Proof.
  intros L W. assert (K : aes_key_ok key = true) by (unfold aes_key_ok; rewrite L; reflexivity).
  destruct okb_block1 as [O1 O2].
  pose proof (aes_E_ok key K W (1%N :: zeros 15) O1) as X1. pose proof (aes_E_ok key K W (2%N :: zeros 15) O2) as X2.
  destruct X1 as [L1 W1]. destruct X2 as [L2 W2].
  unfold rom_enc_key, aes_enc_block. change (cipher_rks (key_expansion key)) with (aesE key).
  split; [unfold aes_key_ok; rewrite app_length, L1, L2; reflexivity|now apply wf_bytes_app].
Qed.
(* the builder's AES-CTR under the (derived) key, and the ROM's decryption of it *)
Lemma real_ctr_roundtrip (key : list N) (derive : bool) (iv p : list N) : length key = 32 -> wf_bytes key -> length iv = 16 ->
  let k' := if derive then rom_enc_key key else key in
  real_ctr key derive iv p = ctr_xcrypt (aes_enc_block k') iv p /\
  length (real_ctr key derive iv p) = length p /\
  ctr_xcrypt (aes_enc_block k') iv (real_ctr key derive iv p) = p.
Proof.
  intros L W LI k'. assert (K : aes_key_ok key = true) by (unfold aes_key_ok; rewrite L; reflexivity).
  assert (K' : aes_key_ok k' = true /\ wf_bytes k').
  { unfold k'. destruct derive; [now apply rom_enc_key_ok|auto]. }
  destruct K' as [K1 K2].
  assert (E : real_ctr key derive iv p = ctr_xcrypt (aes_enc_block k') iv p).
  { unfold real_ctr. replace (if derive then match SymWrapModel.derive_enc_image_key key with Ok k => k | Err _ => [] end else key) with k'
      by (unfold k'; destruct derive; [now rewrite real_enc_key_eq|reflexivity]).
    unfold aes_ctr_crypt. rewrite K1, LI. reflexivity. }
  split; [exact E|]. rewrite E. change (aes_enc_block k') with (aesE k'). split.
  - apply ctr_length; [apply (aes_E_len k' K1 K2)|exact LI].
  - apply ctr_involutive_l; [apply (aes_E_len k' K1 K2)|exact LI].
Qed.

Lemma collect_enc c x raw : provider c SCollect = Some ExportMixinAppTrustZoneCertBlockEncrypt ->
  m_table x = None -> 56 <= length (m_app x) -> collect c x = Ok raw ->
  exists pre post sg app_p, m_cert x = Some (CertV1 pre post sg) /\
    update_ivt c x (m_app x) (total_len c x + Z.of_nat sg + 56 + 16) (app_len c x) = Ok app_p /\
    raw = [app_p] ++ tz_segment x.
Proof.
  intros PC HT L E. unfold collect in E. rewrite PC in E.
  destruct (m_app x) as [|b t] eqn:Ea; [simpl in L; lia|]. rewrite <- Ea in *.
  destruct (m_cert x) as [[pre post sg|]|]; try discriminate E.
  destruct (update_ivt c x (m_app x) (total_len c x + Z.of_nat sg + 56 + 16) (app_len c x)) as [app_p|] eqn:U; cbn [bind] in E; [|discriminate].
  rewrite (reloc_none c x _ HT) in E. cbn [bind] in E. injection E as <-.
  exists pre, post, sg, app_p. auto.
Qed.
Lemma validate_iv c x : validate c x = Ok tt -> has c MixinCtrInitVector = true -> length (m_iv x) = 16.
Proof.
  intros V H. pose proof (validate_mix c x MixinCtrInitVector V H) as M. cbn [mix_validate] in M.
  change IV_SZ with 16 in M. destruct (Nat.eqb (length (m_iv x)) 16) eqn:E; [|discriminate]. now apply Nat.eqb_eq in E.
Qed.
Lemma post_encrypt_enc c x pre post sg (C : list N) enc2 :
  provider c SPostEncrypt = Some ExportMixinAppTrustZoneCertBlockEncrypt -> m_cert x = Some (CertV1 pre post sg) ->
  post_encrypt c x [C] = Ok enc2 ->
  exists enc_ivt cbb,
    update_ivt c x (firstn 64 C) (total_len c x + Z.of_nat sg + 56 + 16) (app_len c x) = Ok enc_ivt /\
    cert_export (CertV1 pre post sg) (zlen C + Z.of_nat (cert_size (CertV1 pre post sg)) + 56 + zlen (m_iv x)) = Ok cbb /\
    enc2 = [enc_ivt; slice C 64 (natz (app_len c x)); cbb; firstn 56 C; m_iv x]
           ++ (match tz_export (m_tz x) with [] => [] | _ => [skipn (natz (app_len c x)) C] end).
Proof.
  intros PP MC E. unfold post_encrypt in E. rewrite PP, MC in E. change HMAC_OFF with 64 in E.
  replace (flat [C]) with C in E by (unfold flat; simpl; now rewrite app_nil_r).
  destruct (update_ivt c x (firstn 64 C) (total_len c x + Z.of_nat sg + 56 + 16) (app_len c x)) as [enc_ivt|] eqn:U; cbn [bind] in E; [|discriminate].
  destruct (cert_export (CertV1 pre post sg) (zlen C + Z.of_nat (cert_size (CertV1 pre post sg)) + 56 + zlen (m_iv x))) as [cbb|] eqn:CE;
    cbn [bind] in E; [|discriminate].
  injection E as <-. exists enc_ivt, cbb. auto.
Qed.

Lemma firstn_plus {A} (l : list A) a b : firstn (a + b) l = firstn a l ++ firstn b (skipn a l).
Proof. revert l; induction a as [|a IH]; intros l; [reflexivity|]. destruct l as [|h l]; [now rewrite !firstn_nil|]. simpl. now rewrite IH. Qed.
Lemma slice_cat {A} (l : list A) i j k : i <= j -> j <= k -> slice l i j ++ slice l j k = slice l i k.
Proof.
  intros H1 H2. unfold slice.
  assert (X : skipn j l = skipn (j - i) (skipn i l)) by (rewrite <- skipn_add; f_equal; lia). rewrite X.
  replace (k - i) with ((j - i) + (k - j)) by lia. now rewrite firstn_plus.
Qed.

(* the ROM reassembles the ciphertext: encrypted header copy | rest of the first 64 bytes | body | encrypted TrustZone *)
Lemma rom_enc_layout (C enc_ivt cbb iv sig : list N) alen :
  64 <= alen -> alen <= length C -> length enc_ivt = 64 -> skipn 56 enc_ivt = slice C 56 64 -> length iv = 16 ->
  let a := enc_ivt ++ slice C 64 alen in
  let tr := firstn 56 C ++ iv ++ skipn alen C in
  let s := a ++ cbb ++ tr ++ sig in
  length a = alen /\ length tr = 72 + (length C - alen) /\
  rom_cipher s alen (length cbb) (length (a ++ cbb ++ tr)) = C /\ rom_iv s alen (length cbb) = iv.
Proof.
  intros H1 H2 LE SK LI a tr s.
  assert (La : length a = alen) by (unfold a; rewrite app_length, LE, slice_length'; lia).
  assert (L56 : length (firstn 56 C) = 56) by (rewrite firstn_length; lia).
  assert (Lt : length tr = 72 + (length C - alen)) by (unfold tr; rewrite !app_length, L56, LI, skipn_length; lia).
  split; [exact La|]. split; [exact Lt|].
  assert (S1 : forall i j, slice s (alen + length cbb + i) (alen + length cbb + j) = slice (tr ++ sig) i j).
  { intros i j. unfold s. rewrite slice_app_r by lia. rewrite La.
    replace (alen + length cbb + i - alen) with (length cbb + i) by lia. replace (alen + length cbb + j - alen) with (length cbb + j) by lia.
    rewrite slice_app_r by lia. f_equal; lia. }
  split.
  - unfold rom_cipher.
    replace (alen + length cbb) with (alen + length cbb + 0) at 1 by lia. rewrite S1.
    replace (length (a ++ cbb ++ tr)) with (alen + length cbb + length tr) by (rewrite !app_length, La; lia). rewrite S1.
    rewrite slice_0. rewrite firstn_app_le by lia. unfold tr at 1. rewrite (firstn_app_len _ _ 56 L56).
    rewrite slice_app_l by lia. rewrite slice_all.
    assert (T72 : skipn 72 tr = skipn alen C).
    { unfold tr. change 72 with (56 + 16). rewrite skipn_add, (skipn_app_len _ _ 56 L56). now apply skipn_app_len. }
    rewrite T72.
    assert (S2 : slice s 56 alen = slice C 56 alen).
    { unfold s. rewrite slice_app_l by lia. rewrite <- La at 1. rewrite slice_all. unfold a. rewrite skipn_app_le by lia.
      rewrite SK. apply slice_cat; lia. }
    rewrite S2. rewrite app_assoc, firstn_slice_cat by lia. apply firstn_skipn.
  - unfold rom_iv. rewrite (S1 56 72). rewrite slice_app_l by lia. unfold tr, slice.
    rewrite (skipn_app_len _ _ 56 L56). change (72 - 56) with 16. now apply firstn_app_len.
Qed.

Theorem enc_accept_l sign c x img cfg keys pre post sg certs table :
  k_enc c = true -> wf_input x -> m_cert x = Some (CertV1 pre post sg) -> cb_v1_ok pre post certs table ->
  rk_rkth keys = sha256 (concat table) -> r_cb cfg = CbV1 -> r_hmac cfg = true -> In 3%Z (r_types cfg) ->
  tz_ok (r_tzsize cfg) x -> ks_wf x -> r_ks cfg = ks_truthy_obj (m_ks x) -> m_hmac x = Some (rk_user keys) -> wf_bytes (rk_user keys) ->
  (forall m, length (sign m) = sg) -> 0 < sg ->
  export_mbi (real_crypto sign) c x = Ok img ->
  exists raw msg, let s := msg ++ sign msg in
    collect c x = Ok raw /\
    img = firstn 64 s ++ hmac_sha256 (rom_hmac_key (rk_user keys)) (firstn 64 s) ++ ks_bytes x ++ skipn 64 s /\
    rom_hmac_ok (rk_user keys) img = true /\
    rom_mbi cfg keys img =
    Some {| ro_plain := flat raw; ro_msg := msg;
            ro_obl := v1_obl {| c1_il := zlen msg; c1_certs := certs; c1_table := table |} msg (sign msg) |}.
Proof.
  intros K WI MC (LP & CBOK) RK RCB RH TY TZ KW KN MH WK SL SG E. pose proof WI as (_ & _ & HT).
  unfold k_enc in K. apply andb_true_iff in K as [K CT]. do 8 (apply andb_true_iff in K as [K ?]).
  rename H into HAK, H0 into HIV, H1 into HHM, H2 into HKS, H3 into PF, H4 into PP, H5 into PE, H6 into PC. norm_bools.
  pose proof K as K0. unfold v1_common in K0. split_andb. norm_bools.
  destruct (export_inv _ c x img E) as (_ & V & raw & enc & enc2 & sgn & fin & E1 & E2 & E3 & E4 & E5 & ->).
  assert (L : 56 <= length (m_app x)) by (apply (validate_app_len c x V); assumption).
  destruct (validate_hmac_key c x V HHM) as (key & MH' & LK & NK). rewrite MH in MH'. injection MH' as <-.
  pose proof (validate_iv c x V HIV) as LIV.
  destruct (collect_enc c x raw PC HT L E1) as (pre' & post' & sg' & app_p & MC' & U & ->).
  rewrite MC in MC'. injection MC' as <- <- <-.
  exists ([app_p] ++ tz_segment x).
  (* encrypt *)
  unfold encrypt in E2. rewrite PE, MH in E2.
  destruct (rk_user keys) as [|kb kt] eqn:EK; [congruence|]. rewrite <- EK in *.
  destruct (m_iv x) as [|ib it] eqn:EI; [simpl in LIV; lia|]. rewrite <- EI in *.
  rewrite EK in E2. rewrite <- EK in E2. injection E2 as <-.
  change (k_ctr (real_crypto sign)) with real_ctr in E3. rewrite ?flat_cons, ?flat_tz_segment in E3.
  replace (flat ([app_p] ++ tz_segment x)) with (app_p ++ tz_export (m_tz x)) in * by (rewrite flat_app, flat_tz_segment; unfold flat; simpl; now rewrite app_nil_r).
  set (tzb := tz_export (m_tz x)) in *. set (P := app_p ++ tzb) in *.
  set (derive := enc_derive x) in *.
  destruct (real_ctr_roundtrip (rk_user keys) derive (m_iv x) P LK WK LIV) as (_ & LC & RT).
  set (C := real_ctr (rk_user keys) derive (m_iv x) P) in *.
  destruct (post_encrypt_enc c x pre post sg C enc2 PP MC E3) as (enc_ivt & cbb & U2 & CE & ->).
  rewrite sign_rsa in E4 by assumption.
  match type of E4 with Ok ?v = Ok _ => assert (SGN : sgn = v) by congruence end. subst sgn. clear E4. unfold fst, snd in E5.
  change (k_sign (real_crypto sign)) with sign in E5.
  pose proof (finalize_hmac_app_len _ c x _ _ fin PF E5) as AL64.
  destruct (v1_lens c x K HT) as (TLC & AL & TL).
  assert (Lap : length app_p = length (m_app x)) by (eapply update_ivt_length; eassumption).
  set (alen := natz (app_len c x)) in *.
  assert (ALn : alen = length (m_app x)) by (unfold alen, natz; rewrite AL; unfold zlen; apply Nat2Z.id).
  assert (A64 : 64 <= alen) by (rewrite ALn; rewrite AL in AL64; unfold zlen in AL64; lia).
  assert (LCn : length C = alen + length tzb) by (rewrite LC; unfold P; rewrite app_length; lia).
  assert (LF : 56 <= length (firstn 64 C)) by (rewrite firstn_length; lia).
  assert (Lei : length enc_ivt = 64).
  { rewrite (update_ivt_length _ _ _ _ _ _ LF U2), firstn_length. lia. }
  assert (SK : skipn 56 enc_ivt = slice C 56 64).
  { rewrite (update_ivt_tail _ _ _ _ _ _ LF U2). unfold slice. rewrite <- (firstn_skipn 56 C) at 1.
    rewrite firstn_app_ge by (rewrite firstn_length; lia). rewrite firstn_length. replace (Nat.min 56 (length C)) with 56 by lia.
    rewrite skipn_app_len by (rewrite firstn_length; lia). reflexivity. }
  (* the sub-image list handed to finalize *)
  set (tail := match tz_export (m_tz x) with [] => [] | _ :: _ => [skipn alen C] end) in *.
  assert (FTl : flat tail = skipn alen C).
  { unfold tail. fold tzb. destruct tzb as [|t0 tt] eqn:Etz; [|unfold flat; simpl; now rewrite app_nil_r].
    unfold flat. simpl. symmetry. apply skipn_all2. simpl in LCn. lia. }
  set (a := enc_ivt ++ slice C 64 alen). set (tr := firstn 56 C ++ m_iv x ++ skipn alen C).
  set (msg := a ++ cbb ++ tr).
  assert (FE : flat ([enc_ivt; slice C 64 alen; cbb; firstn 56 C; m_iv x] ++ tail) = msg).
  { rewrite flat_app, FTl. unfold flat. cbn [concat]. rewrite app_nil_r. unfold msg, a, tr. now rewrite <- !app_assoc. }
  rewrite FE in E5.
  change (([enc_ivt; slice C 64 alen; cbb; firstn 56 C; m_iv x] ++ tail) ++ [sign msg])
    with (enc_ivt :: slice C 64 alen :: ([cbb; firstn 56 C; m_iv x] ++ tail) ++ [sign msg]) in E5.
  assert (Le64 : 64 <= length enc_ivt) by lia.
  destruct (finalize_hmac_flat (real_crypto sign) c x enc_ivt (slice C 64 alen) (([cbb; firstn 56 C; m_iv x] ++ tail) ++ [sign msg]) msg PF AL64 Le64)
    as (fin' & F1 & F2).
  rewrite F1 in E5. injection E5 as <-. rewrite F2. clear F1 F2.
  assert (FS : flat (enc_ivt :: slice C 64 alen :: ([cbb; firstn 56 C; m_iv x] ++ tail) ++ [sign msg]) = msg ++ sign msg).
  { rewrite !flat_cons, flat_snoc, flat_app, FTl. unfold flat. cbn [concat]. rewrite app_nil_r.
    unfold msg, a, tr. now rewrite <- !app_assoc. }
  rewrite FS. rewrite (hmac_value_real sign x (rk_user keys) _ MH NK LK).
  exists msg. cbv zeta. split; [exact E1|]. split; [reflexivity|].
  (* lengths and header words *)
  destruct (rom_enc_layout C enc_ivt cbb (m_iv x) (sign msg) alen A64 ltac:(lia) Lei SK LIV) as (La & Ltr & RCIPH & RIV).
  fold a tr in La, Ltr, RCIPH, RIV. fold msg in RCIPH.
  destruct (ivt_words c x (firstn 64 C) _ (app_len c x) enc_ivt LF U2) as (I1 & I2 & I3 & _).
  rewrite off_len_eq in I1. rewrite off_flags_eq in I2. rewrite off_crc_eq in I3.
  unfold ivt_total in I1. match goal with H : provider c SUpdateIvt = _ |- _ => rewrite H in I1 end.
  unfold ivt_crc in I3. replace (c_type c =? 0)%Z with false in I3 by (symmetry; apply Z.eqb_neq; lia).
  assert (CT' : (0 <= c_type c < 64)%Z) by lia.
  assert (T63 : Z.land (create_flags c x) 63 = c_type c) by (now apply land63_type).
  assert (Ra : forall o, o + 4 <= 64 -> rd32 o a = rd32 o enc_ivt) by (intros o Ho; unfold a; apply rd32_app; lia).
  assert (TZC : tz_custom a = match m_tz x with TzCustom _ => true | _ => false end).
  { apply (tz_custom_flags c x); try assumption. rewrite Ra by lia. exact I2. }
  destruct (cert_export_v1 pre post sg _ cbb CE) as (w & Lw & Vw & Ecb & _).
  assert (Lcb : zlen cbb = Z.of_nat (cert_size (CertV1 pre post sg))).
  { unfold zlen. rewrite Ecb. cbn [cert_size]. rewrite !app_length, Lw. lia. }
  assert (R20 : rd32 20 cbb = zlen msg).
  { rewrite Ecb. rewrite rd32_app_r by lia. rewrite LP, Nat.sub_diag. rewrite rd32_app by lia.
    unfold rd32. cbn [skipn]. rewrite firstn_all2 by lia. rewrite Vw.
    unfold msg. unfold zlen. rewrite !app_length, La, Ltr, LCn. rewrite <- Lcb. unfold zlen. rewrite LIV. lia. }
  set (s := msg ++ sign msg).
  assert (Ls : 64 <= length s) by (unfold s, msg; rewrite !app_length; lia).
  assert (Rs : forall o, o + 4 <= 64 -> rd32 o s = rd32 o enc_ivt).
  { intros o Ho. unfold s, msg. rewrite <- !app_assoc. rewrite rd32_app by lia. now apply Ra. }
  assert (KF : ks_flag s = truthy_ks (m_ks x)).
  { apply (ks_flag_flags c x); try assumption. rewrite Rs by lia. exact I2. }
  assert (HH : has_hmac cfg 3%Z = true) by (unfold has_hmac; rewrite RH; reflexivity).
  destruct (rom_strip_layout cfg keys 3%Z s (hmac_sha256 (rom_hmac_key (rk_user keys)) (firstn 64 s)) (ks_bytes x) HH Ls eq_refl)
    as (F64 & RHO & RS).
  { rewrite KF. now apply ks_len_ok. }
  split; [exact RHO|].
  set (img := firstn 64 s ++ hmac_sha256 (rom_hmac_key (rk_user keys)) (firstn 64 s) ++ ks_bytes x ++ skipn 64 s) in *.
  rewrite (hz_true c MixinKeyStore), (hz_true c MixinHmacMandatory) in TL by assumption.
  assert (Limg : zlen img = (total_len c x + Z.of_nat sg + 56 + 16)%Z).
  { rewrite TL. unfold img, zlen, tzl, hmac_len. rewrite MH. rewrite !app_length, hmac_sha256_length, firstn_length, skipn_length.
    unfold s, msg. rewrite !app_length, SL, La, Ltr, LCn. fold tzb. cbn [mix_len]. rewrite MC.
    assert (OL : opt_len (m_ks x) = Z.of_nat (length (ks_bytes x))).
    { unfold opt_len, ks_bytes, zlen. destruct (m_ks x); reflexivity. }
    rewrite OL. unfold zlen in Lcb. rewrite <- Lcb. rewrite ALn. unfold zlen. lia. }
  assert (RI : forall o, o + 4 <= 64 -> rd32 o img = rd32 o enc_ivt).
  { intros o Ho. unfold img. rewrite rd32_app by (rewrite firstn_length; lia).
    rewrite <- (Rs o Ho). unfold rd32. f_equal. f_equal.
    rewrite <- (firstn_skipn 64 s) at 2. rewrite skipn_app_le by (rewrite firstn_length; lia).
    rewrite firstn_app_le; [reflexivity|]. rewrite skipn_length, firstn_length. lia. }
  unfold rom_mbi.
  assert (L56 : Nat.ltb (length img) 56 = false).
  { apply Nat.ltb_ge. unfold img. rewrite !app_length, firstn_length. lia. }
  rewrite L56, (RI 36) by lia. rewrite I2, T63, CT, (in_existsb_z 3%Z _ TY), (RI 32) by lia.
  rewrite I1, <- Limg, Z.eqb_refl.
  cbv beta iota delta [Z.eqb Pos.eqb orb negb].
  rewrite RS, RCB. unfold s, msg. rewrite <- !app_assoc.
  pose proof (CBOK w Lw) as CB1. rewrite <- Ecb in CB1.
  rewrite (rom_v1_layout cfg keys 3%Z a cbb tr (sign (a ++ cbb ++ tr))
             {| c1_il := rd32 20 cbb; c1_certs := certs; c1_table := table |}).
  - cbv beta iota delta [Z.eqb Pos.eqb]. cbv zeta. fold msg. rewrite La, RCIPH, RIV.
    (* the ROM's image key is the builder's *)
    assert (KEY : rom_image_key cfg keys = (if derive then rom_enc_key (rk_user keys) else rk_user keys)).
    { unfold rom_image_key. rewrite KN. unfold derive, enc_derive. destruct (ks_truthy_obj (m_ks x)); reflexivity. }
    rewrite KEY, RT.
    assert (IA : ivt_agree P (a ++ cbb ++ tr ++ sign msg) = true).
    { unfold ivt_agree.
      destruct (update_ivt_same_words c x (m_app x) (firstn 64 C) _ _ app_p enc_ivt L LF U U2) as (W1 & W2).
      assert (X1 : slice P 32 44 = slice app_p 32 44) by (unfold P; apply slice_app_l; lia).
      assert (X2 : slice P 52 56 = slice app_p 52 56) by (unfold P; apply slice_app_l; lia).
      assert (Y1 : slice (a ++ cbb ++ tr ++ sign msg) 32 44 = slice enc_ivt 32 44).
      { rewrite slice_app_l by lia. unfold a. apply slice_app_l. lia. }
      assert (Y2 : slice (a ++ cbb ++ tr ++ sign msg) 52 56 = slice enc_ivt 52 56).
      { rewrite slice_app_l by lia. unfold a. apply slice_app_l. lia. }
      rewrite X1, X2, Y1, Y2, W1, W2, !eqb_list_refl'. reflexivity. }
    rewrite IA. rewrite R20. reflexivity.
  - unfold min_off. rewrite HH. lia.
  - rewrite Ra by lia. rewrite I3, AL. unfold zlen. now rewrite La, ALn.
  - lia.
  - exact CB1.
  - cbn [c1_il]. exact R20.
  - cbn [c1_table]. now rewrite RK.
  - cbv beta iota delta [Z.eqb Pos.eqb]. rewrite TZC, Ltr, LCn. unfold tzb. rewrite (tz_len_ok _ x TZ). lia.
  - intros X. pose proof (SL (a ++ cbb ++ tr)) as Y. rewrite X in Y. simpl in Y. lia.
Qed.

(* ------------------------------------------------------------------ ROM side: certificate block v2.1 + manifest *)
Definition cb_v21_ok (rkth body : list N) (info : cb21_info) : Prop :=
  16 <= length body /\ firstn 8 body = CHDR_B /\ rd32 8 body = zlen body /\
  rom_cb_v21_body rkth body (length body) = Some info.
Lemma rom_cb_v21_body_size rkth cb size info : rom_cb_v21_body rkth cb size = Some info -> c2_size info = size.
Proof.
  unfold rom_cb_v21_body. intros H.
  repeat match type of H with
         | (if ?b then _ else _) = Some _ => destruct b; try discriminate H
         end; injection H as <-; reflexivity.
Qed.
Lemma rom_cb_v21_ctx rkth body info (a rest : list N) : cb_v21_ok rkth body info ->
  rom_cb_v21 rkth (a ++ body ++ rest) (length a) = Some info /\ c2_size info = length body.
Proof.
  intros (L16 & MG & SZ & BD). split; [|eapply rom_cb_v21_body_size; eassumption].
  unfold rom_cb_v21.
  replace (Nat.ltb (length (a ++ body ++ rest)) (length a + 16)) with false
    by (symmetry; apply Nat.ltb_ge; rewrite !app_length; lia).
  assert (S8 : slice (a ++ body ++ rest) (length a) (length a + 8) = CHDR_B).
  { rewrite slice_app_r by lia. rewrite Nat.sub_diag. replace (length a + 8 - length a) with 8 by lia.
    rewrite slice_0. rewrite firstn_app_le by lia. exact MG. }
  rewrite S8, eqb_list_refl'. cbn [negb].
  assert (R8 : rd32 (length a + 8) (a ++ body ++ rest) = rd32 8 body).
  { rewrite rd32_app_r by lia. replace (length a + 8 - length a) with 8 by lia. apply rd32_app. lia. }
  rewrite R8, SZ. rewrite wnat_zlen by (rewrite !app_length; lia).
  replace (Nat.ltb (length (a ++ body ++ rest)) (length a + length body)) with false
    by (symmetry; apply Nat.ltb_ge; rewrite !app_length; lia).
  rewrite slice_app_mid. exact BD.
Qed.

Lemma rd32_at (p w r : list N) : length w = 4 -> rd32 (length p) (p ++ w ++ r) = Z.of_N (le_dec w).
Proof. intros L. rewrite rd32_app_r by lia. rewrite Nat.sub_diag. unfold rd32. cbn [skipn]. now rewrite (firstn_app_len _ _ 4 L). Qed.
Lemma le_dec_enc4 v : (v < 4294967296)%N -> le_dec (le_enc 4 v) = v.
Proof. intros H. apply le_dec_enc_small. exact H. Qed.

Definition manifest_bytes (w2 : list N) (mlen mflags : N) (tzb w5 : list N) : list N :=
  IMGM_B ++ le_enc 4 65536 ++ w2 ++ le_enc 4 mlen ++ le_enc 4 mflags ++ tzb ++ w5.
Lemma manifest_bytes_split w2 l f t w :
  manifest_bytes w2 l f t w = (IMGM_B ++ le_enc 4 65536 ++ w2 ++ le_enc 4 l ++ le_enc 4 f ++ t) ++ w.
Proof. unfold manifest_bytes. now rewrite <- !app_assoc. Qed.
Definition klen_of (info : cb21_info) : nat := if (c2_alg info =? 2)%Z then 32 else 48.
Definition v21_obl (info : cb21_info) (msg sig : list N) : list obligation :=
  c2_obl info ++ [ImageSig (c2_alg info) (c2_pub info) msg sig].

(* the structural part of the ROM's walk: certificate block, manifest header, positions of signature and digest *)
Lemma rom_v21_layout cfg keys ty (a body w2 tzb w5 sig dg : list N) (mlen mflags : N) info :
  min_off cfg ty <= length a -> rd32 40 a = zlen a -> 44 <= length a ->
  cb_v21_ok (rk_rkth keys) body info -> length w2 = 4 ->
  length tzb = (if tz_custom a then r_tzsize cfg else 0) ->
  length w5 = (if r_mcrc cfg then 4 else 0) -> N.to_nat mlen = 20 + length tzb + length w5 ->
  (mlen < 4294967296)%N -> (mflags < 4294967296)%N -> length sig = 2 * klen_of info ->
  let mf := manifest_bytes w2 mlen mflags tzb w5 in
  let msg := a ++ body ++ mf in
  let s := msg ++ sig ++ dg in
  rom_signed_v21 cfg keys ty s =
    if r_mcrc cfg && negb (eqb_list (le_enc 4 (crc CRC32_MPEG2 (firstn (length msg - 4) msg))) w5 && (Z.of_N mflags =? 0)%Z)
    then None
    else if (if negb (r_mcrc cfg) && zbit (Z.of_N mflags) 2147483648
             then let alg := Z.land (Z.of_N mflags) 15 in
                  ((alg =? 1) || (alg =? 2) || (alg =? 3))%Z && (Z.of_N mflags =? 2147483648 + alg)%Z &&
                  (alg =? c2_alg info - 1)%Z && eqb_list dg (hash_by alg msg)
             else (r_mcrc cfg || (Z.of_N mflags =? 0)%Z) && Nat.eqb (length dg) 0)
         then Some {| ro_plain := msg; ro_msg := msg; ro_obl := v21_obl info msg sig |}
         else None.
Proof.
  intros MO W40 L44 CB Lw2 LT Lw5 ML MB FB LS mf msg s.
  unfold rom_signed_v21.
  assert (Es : s = a ++ body ++ (mf ++ sig ++ dg)) by (unfold s, msg; now rewrite <- !app_assoc).
  assert (O : wnat (length s) (rd32 40 s) = length a).
  { rewrite Es at 2. rewrite rd32_app by lia. rewrite W40. apply wnat_zlen. rewrite Es, !app_length. lia. }
  rewrite O. replace (Nat.ltb (length a) (min_off cfg ty)) with false by (symmetry; apply Nat.ltb_ge; exact MO).
  destruct (rom_cb_v21_ctx (rk_rkth keys) body info a (mf ++ sig ++ dg) CB) as (CBE & CSZ).
  rewrite Es at 1. rewrite CBE, CSZ.
  set (m0 := length a + length body).
  assert (Lmf : length mf = 20 + length tzb + length w5).
  { unfold mf, manifest_bytes. rewrite !app_length, !le_enc_length, Lw2. reflexivity. }
  assert (Lmsg : length msg = m0 + length mf) by (unfold msg, m0; rewrite !app_length; lia).
  assert (Lsx : length s = m0 + length mf + length sig + length dg) by (unfold s; rewrite !app_length; lia).
  replace (Nat.ltb (length s) (m0 + 20)) with false by (symmetry; apply Nat.ltb_ge; lia).
  (* manifest header words *)
  assert (SM : slice s m0 (m0 + 4) = IMGM_B).
  { assert (X : s = (a ++ body) ++ IMGM_B ++ ((le_enc 4 65536 ++ w2 ++ le_enc 4 mlen ++ le_enc 4 mflags ++ tzb ++ w5) ++ sig ++ dg)).
    { unfold s, msg, mf, manifest_bytes. now rewrite <- !app_assoc. }
    rewrite X. unfold m0. rewrite <- app_length. change 4 with (length IMGM_B). apply slice_app_mid. }
  rewrite SM. change (eqb_list IMGM_B IMGM_B) with true. cbn [negb].
  assert (R4 : rd32 (m0 + 4) s = 65536%Z).
  { assert (X : exists r, s = (a ++ body ++ IMGM_B) ++ le_enc 4 65536 ++ r).
    { eexists. unfold s, msg, mf, manifest_bytes. rewrite <- !app_assoc. reflexivity. }
    destruct X as (r & X). rewrite X. replace (m0 + 4) with (length (a ++ body ++ IMGM_B)) by (unfold m0; rewrite !app_length; simpl; lia).
    rewrite rd32_at by apply le_enc_length. reflexivity. }
  rewrite R4. change (65536 =? 65536)%Z with true. cbn [negb].
  assert (R12 : rd32 (m0 + 12) s = Z.of_N mlen).
  { assert (X : exists r, s = (a ++ body ++ IMGM_B ++ le_enc 4 65536 ++ w2) ++ le_enc 4 mlen ++ r).
    { eexists. unfold s, msg, mf, manifest_bytes. rewrite <- !app_assoc. reflexivity. }
    destruct X as (r & X). rewrite X.
    replace (m0 + 12) with (length (a ++ body ++ IMGM_B ++ le_enc 4 65536 ++ w2))
      by (unfold m0; rewrite !app_length, !le_enc_length, Lw2; simpl; lia).
    rewrite rd32_at by apply le_enc_length. now rewrite le_dec_enc4. }
  assert (R16 : rd32 (m0 + 16) s = Z.of_N mflags).
  { assert (X : exists r, s = (a ++ body ++ IMGM_B ++ le_enc 4 65536 ++ w2 ++ le_enc 4 mlen) ++ le_enc 4 mflags ++ r).
    { eexists. unfold s, msg, mf, manifest_bytes. rewrite <- !app_assoc. reflexivity. }
    destruct X as (r & X). rewrite X.
    replace (m0 + 16) with (length (a ++ body ++ IMGM_B ++ le_enc 4 65536 ++ w2 ++ le_enc 4 mlen))
      by (unfold m0; rewrite !app_length, !le_enc_length, Lw2; simpl; lia).
    rewrite rd32_at by apply le_enc_length. now rewrite le_dec_enc4. }
  rewrite R12, R16.
  assert (TZ : tz_custom s = tz_custom a).
  { unfold tz_custom, rom_word. rewrite Es. now rewrite rd32_app by lia. }
  rewrite TZ. rewrite <- LT.
  assert (MLn : wnat (length s) (Z.of_N mlen) = length mf).
  { rewrite wnat_eq by (rewrite <- (N2Nat.id mlen), nat_N_Z, ML; lia). rewrite <- Z_N_nat, N2Z.id. rewrite ML, Lmf. reflexivity. }
  rewrite MLn.
  replace (Nat.eqb (length mf) (20 + length tzb + (if r_mcrc cfg then 4 else 0))) with true
    by (symmetry; apply Nat.eqb_eq; rewrite Lmf, Lw5; reflexivity).
  cbn [negb]. rewrite <- Lmsg.
  replace (Nat.ltb (length s) (length msg)) with false by (symmetry; apply Nat.ltb_ge; lia).
  assert (FM : firstn (length msg) s = msg) by (unfold s; apply firstn_app_exact).
  assert (F4 : firstn (length msg - 4) s = firstn (length msg - 4) msg) by (unfold s; apply firstn_app_le; lia).
  assert (SL5 : r_mcrc cfg = true -> slice s (length msg - 4) (length msg) = w5).
  { intros RM. rewrite RM in Lw5. unfold s. rewrite slice_app_l by lia. rewrite slice_all.
    unfold msg, mf, manifest_bytes. rewrite !app_assoc. apply skipn_app_len. rewrite !app_length, !le_enc_length, Lw2, Lw5.
    lia. }
  rewrite F4. fold (klen_of info).
  assert (SS : slice s (length msg) (length msg + 2 * klen_of info) = sig).
  { unfold s. rewrite <- LS. apply slice_app_mid. }
  assert (SD : skipn (length msg + 2 * klen_of info) s = dg).
  { unfold s. rewrite <- LS. rewrite app_assoc. rewrite <- app_length. apply skipn_app_exact. }
  rewrite SS, SD, FM.
  replace (Nat.ltb (length s) (length msg + 2 * klen_of info)) with false by (symmetry; apply Nat.ltb_ge; lia).
  replace (Nat.eqb (length s) (length msg + 2 * klen_of info)) with (Nat.eqb (length dg) 0).
  2:{ destruct (Nat.eqb (length dg) 0) eqn:X; symmetry; [apply Nat.eqb_eq in X; apply Nat.eqb_eq; lia|apply Nat.eqb_neq in X; apply Nat.eqb_neq; lia]. }
  fold (v21_obl info msg sig).
  destruct (r_mcrc cfg) eqn:RM.
  - rewrite (SL5 eq_refl). reflexivity.
  - reflexivity.
Qed.

(* ------------------------------------------------------------------ export side: certificate block v2.1 + manifest *)
Lemma u32_enc v w : u32 v = Ok w -> w = le_enc 4 (Z.to_N v) /\ (0 <= v < 4294967296)%Z.
Proof.
  unfold u32. destruct ((0 <=? v)%Z && (v <? 4294967296)%Z) eqn:E; [|discriminate]. intros H. injection H as <-.
  apply andb_true_iff in E as [E1 E2]. apply Z.leb_le in E1. apply Z.ltb_lt in E2. auto.
Qed.
Definition mf_total (c : mbi_class) (x : mbi) : Z := (20 + zlen (tz_export (m_tz x)) + (if has c MixinManifestCrc then 4 else 0))%Z.
Definition mf_flags (c : mbi_class) (x : mbi) : Z := if has c MixinManifestCrc then 0%Z else manifest_flags (m_digest x).
Lemma manifest_export_inv c x crc mf : manifest_export c x crc = Ok mf ->
  exists w2 w5, u32 (m_fwver x) = Ok w2 /\ length w2 = 4 /\
    mf = manifest_bytes w2 (Z.to_N (mf_total c x)) (Z.to_N (mf_flags c x)) (tz_export (m_tz x)) w5 /\
    (0 <= mf_total c x < 4294967296)%Z /\ (0 <= mf_flags c x < 4294967296)%Z /\
    (if has c MixinManifestCrc then w5 = le_enc 4 (Z.to_N crc) /\ (0 <= crc < 4294967296)%Z else w5 = []).
Proof.
  unfold manifest_export. fold (mf_total c x) (mf_flags c x).
  change (u32 G_MANIFEST_MAGIC) with (Ok IMGM_B). change (u32 G_MANIFEST_FORMAT_VERSION) with (Ok (le_enc 4 65536)). cbn [bind].
  destruct (u32 (m_fwver x)) as [w2|] eqn:U2; cbn [bind]; [|discriminate].
  destruct (u32 (mf_total c x)) as [w3|] eqn:U3; cbn [bind]; [|discriminate].
  destruct (u32 (mf_flags c x)) as [w4|] eqn:U4; cbn [bind]; [|discriminate].
  pose proof (u32_length _ _ U2) as L2. apply u32_enc in U3 as [-> R3]. apply u32_enc in U4 as [-> R4].
  destruct (has c MixinManifestCrc).
  - destruct (u32 crc) as [w5|] eqn:U5; cbn [bind]; [|discriminate]. apply u32_enc in U5 as [-> R5].
    intros H. exists w2, (le_enc 4 (Z.to_N crc)). split; [reflexivity|]. split; [exact L2|]. split; [unfold manifest_bytes; congruence|auto].
  - cbn [bind]. intros H. exists w2, []. split; [reflexivity|]. split; [exact L2|]. split; [unfold manifest_bytes; congruence|auto].
Qed.

Lemma collect_v21 c x raw : provider c SCollect = Some ExportMixinAppCertBlockManifest ->
  56 <= length (m_app x) -> collect c x = Ok raw ->
  exists cb app' cbb mf0 mf, m_cert x = Some cb /\ digest_guard c x cb = Ok tt /\
    update_ivt c x (m_app x) (total_len c x) (app_len c x) = Ok app' /\ cert_export cb 1 = Ok cbb /\
    manifest_export c x 0 = Ok mf0 /\
    (if has c MixinManifestCrc
     then manifest_export c x (Z.of_N (mbi_crc32_mpeg (drop_last 4 (app' ++ cbb ++ mf0)))) = Ok mf else mf = mf0) /\
    raw = [app'; cbb; mf].
Proof.
  intros PC L E. unfold collect in E. rewrite PC in E.
  destruct (m_app x) as [|b t] eqn:Ea; [simpl in L; lia|]. rewrite <- Ea in *.
  destruct (m_cert x) as [cb|]; [|discriminate E].
  destruct (digest_guard c x cb) as [[]|] eqn:G; cbn [bind] in E; [|discriminate].
  destruct (update_ivt c x (m_app x) (total_len c x) (app_len c x)) as [app'|] eqn:U; cbn [bind] in E; [|discriminate].
  destruct (cert_export cb 1) as [cbb|] eqn:CE; cbn [bind] in E; [|discriminate].
  destruct (manifest_export c x 0) as [mf0|] eqn:M0; cbn [bind] in E; [|discriminate].
  destruct (has c MixinManifestCrc) eqn:HC.
  - destruct (manifest_export c x (Z.of_N (mbi_crc32_mpeg (drop_last 4 (app' ++ cbb ++ mf0))))) as [mf|] eqn:M1; cbn [bind] in E; [|discriminate].
    injection E as <-. exists cb, app', cbb, mf0, mf. auto 10.
  - injection E as <-. exists cb, app', cbb, mf0, mf0. auto 10.
Qed.

(* the digest check of collect_data: algorithm of a digest manifest = hash type of the signature size *)
Definition sig_alg (cb : cert) : Z :=
  let sg := Z.of_nat (cert_sig cb) in if (sg =? 64)%Z then 1%Z else if (sg =? 96)%Z then 2%Z else if (sg =? 132)%Z then 3%Z else 0%Z.
Lemma hash_type_of_sig_alg cb : hash_type_of_sig (cert_sig cb) = if (sig_alg cb =? 0)%Z then None else Some (sig_alg cb).
Proof.
  unfold hash_type_of_sig, sig_alg. cbv zeta.
  destruct (Nat.eqb_spec (cert_sig cb) 64) as [->|N1]; [reflexivity|].
  replace (Z.of_nat (cert_sig cb) =? 64)%Z with false by (symmetry; apply Z.eqb_neq; lia).
  destruct (Nat.eqb_spec (cert_sig cb) 96) as [->|N2]; [reflexivity|].
  replace (Z.of_nat (cert_sig cb) =? 96)%Z with false by (symmetry; apply Z.eqb_neq; lia).
  destruct (Nat.eqb_spec (cert_sig cb) 132) as [->|N3]; [reflexivity|].
  replace (Z.of_nat (cert_sig cb) =? 132)%Z with false by (symmetry; apply Z.eqb_neq; lia). reflexivity.
Qed.
Lemma digest_guard_unfold c x cb : has c MixinManifestDigest = true -> (m_digest x <> 0)%Z ->
  digest_guard c x cb = if ((sig_alg cb =? 0) || negb (sig_alg cb =? m_digest x))%Z then Err E_REJECT else Ok tt.
Proof. intros HD D0. unfold digest_guard. rewrite HD. apply Z.eqb_neq in D0. rewrite D0. reflexivity. Qed.
Lemma digest_guard_ok c x cb : has c MixinManifestDigest = true -> digest_guard c x cb = Ok tt ->
  (m_digest x = 0 \/ hash_type_of_sig (cert_sig cb) = Some (m_digest x))%Z.
Proof.
  intros HD G. destruct (Z.eq_dec (m_digest x) 0) as [D0|D0]; [now left|]. right.
  rewrite (digest_guard_unfold c x cb HD D0) in G. rewrite hash_type_of_sig_alg.
  destruct (Z.eqb_spec (sig_alg cb) 0); cbn [orb] in G; [discriminate|].
  destruct (Z.eqb_spec (sig_alg cb) (m_digest x)) as [->|]; cbn [negb] in G; [reflexivity|discriminate].
Qed.

Lemma tz_custom_flags' c x (a : list N) : (0 <= c_type c < 64)%Z -> wf_input x -> has_tz c = true ->
  rd32 36 a = create_flags c x -> tz_custom a = match m_tz x with TzCustom _ => true | _ => false end.
Proof.
  intros CT (H1 & H2 & _) HA R. unfold tz_custom, rom_word. rewrite R.
  destruct (flags_decode_lemma c x CT H1 H2) as (_ & _ & E & _).
  change G_IVT_IMAGE_FLAGS_TZ_TYPE_SHIFT with 13%Z in E. change G_IVT_IMAGE_FLAGS_TZ_TYPE_MASK with 3%Z in E. rewrite E, HA.
  destruct (m_tz x); reflexivity.
Qed.
Lemma hash_by_length alg d : (alg = 1 \/ alg = 2 \/ alg = 3)%Z -> Z.of_nat (length (hash_by alg d)) = hash_size alg.
Proof.
  intros [-> | [-> | ->]]; unfold hash_by, hash_size; cbn [Z.eqb Pos.eqb];
    rewrite ?rom_sha256_length, ?rom_sha384_length, ?rom_sha512_length; reflexivity.
Qed.
Lemma real_hash_by alg d : (alg = 1 \/ alg = 2 \/ alg = 3)%Z -> real_hash alg d = hash_by alg d.
Proof. intros [-> | [-> | ->]]; reflexivity. Qed.


Lemma rom_cb_v21_body_alg rkth cb size info : rom_cb_v21_body rkth cb size = Some info -> (c2_alg info = 2 \/ c2_alg info = 3)%Z.
Proof.
  unfold rom_cb_v21_body. intros H. cbv zeta in H.
  set (typ := Z.land (rd32 12 cb) 15) in *.
  match type of H with context [Z.land (rd32 ?e cb) 15] => set (ityp := Z.land (rd32 e cb) 15) in * end.
  destruct (negb ((typ =? 1) || (typ =? 2))%Z) eqn:T; [discriminate|].
  assert (TT : (typ = 1 \/ typ = 2)%Z).
  { apply negb_false_iff, orb_true_iff in T as [T|T]; apply Z.eqb_eq in T; auto. }
  clearbody typ ityp.
  repeat match type of H with
         | (if ?b then _ else _) = Some _ => destruct b eqn:?; try discriminate H
         end; injection H as <-; cbn [c2_alg]; lia.
Qed.

Lemma andb_assoc_dup (a d : bool) : (a && negb d && negb d) = (a && negb d).
Proof. destruct a, d; reflexivity. Qed.
Definition v21_digest (c : mbi_class) (x : mbi) (msg : list N) : list N :=
  if has c MixinManifestDigest && negb (m_digest x =? 0)%Z then hash_by (m_digest x) msg else [].

Theorem v21_accept_l sign c x img cfg keys body sg info :
  k_v21 c = true -> wf_input x -> m_cert x = Some (CertV21 body sg) -> cb_v21_ok (rk_rkth keys) body info ->
  r_cb cfg = CbV21 -> r_hmac cfg = false -> r_mcrc cfg = has c MixinManifestCrc -> In (c_type c) (r_types cfg) ->
  tz_ok (r_tzsize cfg) x -> (0 <= m_digest x <= 3)%Z ->
  sg = 2 * klen_of info -> (forall m, length (sign m) = sg) ->
  export_mbi (real_crypto sign) c x = Ok img ->
  exists msg, img = msg ++ sign msg ++ v21_digest c x msg /\
    rom_mbi cfg keys img = Some {| ro_plain := msg; ro_msg := msg; ro_obl := v21_obl info msg (sign msg) |}.
Proof.
  intros K WI MC CB RCB RH RMC TY TZ DG SGE SL E. pose proof WI as (_ & _ & HT).
  unfold k_v21 in K. apply andb_true_iff in K as [K CT]. do 16 (apply andb_true_iff in K as [K ?]).
  rename H into PU, H0 into PF, H1 into PS, H2 into PP, H3 into PE, H4 into PC, H5 into NHM, H6 into NH, H7 into NKS,
    H8 into NTM, H9 into NT, H10 into XM, H11 into NC1, H12 into HC21, H13 into HA, H14 into ND. norm_bools.
  assert (CTV : (c_type c = 4 \/ c_type c = 8 \/ c_type c = 1)%Z).
  { apply orb_true_iff in CT as [CT|CT]; [apply orb_true_iff in CT as [CT|CT]|]; apply Z.eqb_eq in CT; auto. }
  destruct (export_inv _ c x img E) as (_ & V & raw & enc & enc2 & sgn & fin & E1 & E2 & E3 & E4 & E5 & ->).
  assert (L : 56 <= length (m_app x)) by (apply (validate_app_len c x V); assumption).
  destruct (collect_v21 c x raw PC L E1) as (cb & app' & cbb & mf0 & mf & MC' & G & U & CE & M0 & M1 & ->).
  rewrite MC in MC'. injection MC' as <-. cbn [cert_export] in CE. injection CE as <-.
  assert (DM : has c MixinManifestDigest = true -> (m_digest x = 0 \/ m_digest x = c2_alg info - 1)%Z).
  { intros HD. destruct (digest_guard_ok c x _ HD G) as [D0|DH]; [now left|]. right. cbn [cert_sig] in DH.
    destruct CB as (_ & _ & _ & BD). destruct (rom_cb_v21_body_alg _ _ _ _ BD) as [A|A];
      unfold klen_of in SGE; rewrite A in SGE; cbn in SGE; subst sg; cbn in DH; injection DH as <-; lia. }
  rewrite (encrypt_none _ c x _ PE) in E2. injection E2 as <-.
  rewrite (post_encrypt_none c x _ PP) in E3. injection E3 as <-.
  unfold MbiModel.sign in E4. rewrite PS in E4.
  match type of E4 with Ok ?v = Ok _ => assert (SGN : sgn = v) by congruence end. subst sgn. clear E4. unfold fst, snd in E5.
  change (k_sign (real_crypto sign)) with sign in E5.
  assert (FR : flat [app'; body; mf] = app' ++ body ++ mf) by (unfold flat; simpl; now rewrite app_nil_r).
  rewrite FR in E5. set (msg := app' ++ body ++ mf) in *.
  assert (HM : has_manifest c = true).
  { unfold has_manifest. destruct (has c MixinManifestCrc), (has c MixinManifestDigest); try discriminate XM; reflexivity. }
  (* finalize: optional digest *)
  assert (IMG : flat fin = msg ++ sign msg ++ v21_digest c x msg).
  { unfold finalize in E5. rewrite PF in E5. unfold v21_digest.
    assert (MFZ : (manifest_flags (m_digest x) =? 0)%Z = (m_digest x =? 0)%Z).
    { unfold manifest_flags. destruct (m_digest x =? 0)%Z eqn:X; [reflexivity|].
      apply Z.eqb_neq in X. apply Z.eqb_neq. change G_MANIFEST_DIGEST_PRESENT_FLAG with 2147483648%Z.
      assert (D : (m_digest x = 1 \/ m_digest x = 2 \/ m_digest x = 3)%Z) by lia.
      destruct D as [-> | [-> | ->]]; discriminate. }
    rewrite MFZ in E5. rewrite andb_assoc_dup in E5.
    destruct (has c MixinManifestDigest && negb (m_digest x =? 0)%Z) eqn:CD.
    - rewrite PS in E5.
      match type of E5 with Ok ?v = Ok _ => assert (FIN : fin = v) by congruence end. rewrite FIN.
      rewrite flat_snoc, flat_snoc, FR. change (k_hash (real_crypto sign)) with real_hash.
      rewrite real_hash_by; [now rewrite <- app_assoc|]. apply andb_true_iff in CD as [_ CD]. apply negb_true_iff, Z.eqb_neq in CD. lia.
    - match type of E5 with Ok ?v = Ok _ => assert (FIN : fin = v) by congruence end. rewrite FIN.
      rewrite flat_snoc, FR, app_nil_r. reflexivity. }
  rewrite IMG. exists msg. split; [reflexivity|].
  (* header words *)
  destruct (ivt_words c x (m_app x) (total_len c x) (app_len c x) app' L U) as (I1 & I2 & I3 & _).
  rewrite off_len_eq in I1. rewrite off_flags_eq in I2. rewrite off_crc_eq in I3.
  unfold ivt_total in I1. rewrite PU in I1.
  unfold ivt_crc in I3. replace (c_type c =? 0)%Z with false in I3 by (symmetry; apply Z.eqb_neq; lia).
  assert (La : length app' = length (m_app x)) by (eapply update_ivt_length; eassumption).
  assert (CT' : (0 <= c_type c < 64)%Z) by lia.
  assert (T63 : Z.land (create_flags c x) 63 = c_type c) by (now apply land63_type).
  assert (HTZ : has_tz c = true) by (unfold has_tz; rewrite HM; apply orb_true_r).
  assert (TZC : tz_custom app' = match m_tz x with TzCustom _ => true | _ => false end) by (now apply (tz_custom_flags' c x)).
  rewrite (app_len_expand c x ND HT), (hz_true c MixinApp _ HA) in I3.
  (* manifest structure *)
  set (tzb := tz_export (m_tz x)) in *.
  assert (MFS : exists w2 w5, length w2 = 4 /\ mf = manifest_bytes w2 (Z.to_N (mf_total c x)) (Z.to_N (mf_flags c x)) tzb w5 /\
            (0 <= mf_total c x < 4294967296)%Z /\ (0 <= mf_flags c x < 4294967296)%Z /\
            length w5 = (if has c MixinManifestCrc then 4 else 0) /\
            (has c MixinManifestCrc = true -> w5 = le_enc 4 (crc CRC32_MPEG2 (firstn (length msg - 4) msg)))).
  { destruct (manifest_export_inv c x 0 mf0 M0) as (w2 & w50 & UW & Lw2 & EM0 & R1 & R2 & W50).
    destruct (has c MixinManifestCrc) eqn:HC.
    - destruct (manifest_export_inv c x _ mf M1) as (w2' & w5 & UW' & Lw2' & EM & _ & _ & W5). rewrite HC in W5. destruct W5 as [W5 _].
      rewrite UW in UW'. injection UW' as <-. destruct W50 as [W50 _].
      exists w2, w5. repeat split; try assumption; try lia.
      + rewrite W5. apply le_enc_length.
      + intros _. rewrite W5, N2Z.id. f_equal.
        destruct (crc_bridge_l (drop_last 4 (app' ++ body ++ mf0)) []) as [-> _]. f_equal.
        unfold drop_last. unfold msg. rewrite EM, EM0. rewrite !manifest_bytes_split.
        assert (A5 : length w50 = 4) by (rewrite W50; apply le_enc_length).
        assert (B5 : length w5 = 4) by (rewrite W5; apply le_enc_length).
        rewrite !(app_assoc body), !(app_assoc app').
        rewrite !(app_length _ w50), !(app_length _ w5), A5, B5.
        rewrite !Nat.add_sub. now rewrite !firstn_app_exact.
    - subst mf. exists w2, w50. repeat split; try assumption; try lia. now rewrite W50. }
  destruct MFS as (w2 & w5 & Lw2 & EM & R1 & R2 & Lw5 & W5C).
  assert (Ltz : length tzb = if tz_custom app' then r_tzsize cfg else 0) by (rewrite TZC; unfold tzb; now apply tz_len_ok).
  assert (MLn : N.to_nat (Z.to_N (mf_total c x)) = 20 + length tzb + length w5).
  { rewrite Z_N_nat. unfold mf_total. fold tzb. rewrite Lw5. unfold zlen. destruct (has c MixinManifestCrc); lia. }
  assert (Lmf : length mf = 20 + length tzb + length w5).
  { rewrite EM. unfold manifest_bytes. rewrite !app_length, !le_enc_length, Lw2. reflexivity. }
  (* total length *)
  assert (Ld : Z.of_nat (length (v21_digest c x msg)) =
               (if has c MixinManifestDigest && negb (m_digest x =? 0)%Z then hash_size (m_digest x) else 0)%Z).
  { unfold v21_digest. destruct (has c MixinManifestDigest && negb (m_digest x =? 0)%Z) eqn:CD; [|reflexivity].
    apply hash_by_length. apply andb_true_iff in CD as [_ CD]. apply negb_true_iff, Z.eqb_neq in CD. lia. }
  assert (TL : total_len c x = zlen (msg ++ sign msg ++ v21_digest c x msg)).
  { rewrite (total_len_expand c x ND HT). rewrite (hz_true c MixinApp _ HA), (hz_true c MixinCertBlockV21 _ HC21).
    rewrite (hz_false c MixinTrustZone), (hz_false c MixinTrustZoneMandatory), (hz_false c MixinCertBlockV1), (hz_false c MixinKeyStore),
      (hz_false c MixinHmac), (hz_false c MixinHmacMandatory) by assumption.
    unfold zlen at 2. rewrite !app_length, SL. rewrite Nat2Z.inj_add, Nat2Z.inj_add, Ld.
    unfold msg. rewrite !app_length, La, Lmf. cbn [mix_len]. rewrite MC. cbn [cert_size cert_sig]. fold tzb. unfold hz, zlen.
    change G_MANIFEST_DIGEST_PRESENT_FLAG with 2147483648%Z.
    assert (PB : (Z.land (manifest_flags (m_digest x)) 2147483648 =? 0)%Z = (m_digest x =? 0)%Z).
    { unfold manifest_flags. change G_MANIFEST_DIGEST_PRESENT_FLAG with 2147483648%Z.
      assert (D : (m_digest x = 0 \/ m_digest x = 1 \/ m_digest x = 2 \/ m_digest x = 3)%Z) by lia.
      destruct D as [-> | [-> | [-> | ->]]]; reflexivity. }
    rewrite PB. rewrite Lw5.
    destruct (has c MixinManifestCrc), (has c MixinManifestDigest); try discriminate XM; cbn [andb];
      destruct (m_digest x =? 0)%Z; cbn [negb]; lia. }
  set (img := msg ++ sign msg ++ v21_digest c x msg) in *.
  assert (RI : forall o, o + 4 <= 56 -> rd32 o img = rd32 o app').
  { intros o Ho. unfold img, msg. rewrite <- !app_assoc. apply rd32_app. lia. }
  unfold rom_mbi.
  assert (L56 : Nat.ltb (length img) 56 = false).
  { apply Nat.ltb_ge. unfold img, msg. rewrite !app_length. lia. }
  rewrite L56, (RI 36), I2, T63, (in_existsb_z _ _ TY), (RI 32), I1, TL, Z.eqb_refl by lia.
  assert (NS : rom_strip cfg keys (c_type c) img = Some img).
  { unfold rom_strip, has_hmac. now rewrite RH. }
  assert (TYB : ((c_type c =? 0) = false /\ ((c_type c =? 2) || (c_type c =? 5)) = false /\
                 negb ((c_type c =? 1) || (c_type c =? 3) || (c_type c =? 4) || (c_type c =? 8)) = false /\ (c_type c =? 3) = false)%Z).
  { destruct CTV as [-> | [-> | ->]]; repeat split; reflexivity. }
  destruct TYB as (B0 & B1 & B2 & B3). rewrite B0, B1, B2, NS, RCB, B3. cbn [negb].
  assert (LAY := rom_v21_layout cfg keys (c_type c) app' body w2 tzb w5 (sign msg) (v21_digest c x msg)
             (Z.to_N (mf_total c x)) (Z.to_N (mf_flags c x)) info).
  cbv zeta in LAY. rewrite <- EM in LAY. fold msg in LAY. fold img in LAY. rewrite LAY; clear LAY.
  - (* the two variants of the tail check *)
    rewrite RMC. rewrite !Z2N.id by lia.
    destruct (has c MixinManifestCrc) eqn:HC.
    + assert (HD : has c MixinManifestDigest = false) by (destruct (has c MixinManifestDigest); [discriminate XM|reflexivity]).
      rewrite (W5C eq_refl), eqb_list_refl'. unfold mf_flags. rewrite HC. cbn [andb negb Z.eqb orb].
      unfold v21_digest. rewrite HD. reflexivity.
    + assert (HD : has c MixinManifestDigest = true) by (destruct (has c MixinManifestDigest); [reflexivity|discriminate XM]).
      cbn [andb negb orb]. unfold mf_flags. rewrite HC. unfold v21_digest. rewrite HD. cbn [andb].
      unfold manifest_flags. change G_MANIFEST_DIGEST_PRESENT_FLAG with 2147483648%Z.
      destruct (DM HD) as [D0|D1].
      * rewrite D0. reflexivity.
      * assert (D : (m_digest x = 0 \/ m_digest x = 1 \/ m_digest x = 2 \/ m_digest x = 3)%Z) by lia.
        destruct D as [D|[D|[D|D]]]; rewrite D in *; cbn; rewrite <- ?D1; try reflexivity; rewrite eqb_list_refl'; reflexivity.
  - unfold min_off, has_hmac. rewrite RH. cbn [andb]. lia.
  - rewrite I3. unfold zlen. now rewrite La.
  - lia.
  - exact CB.
  - exact Lw2.
  - exact Ltz.
  - rewrite RMC. exact Lw5.
  - exact MLn.
  - lia.
  - lia.
  - rewrite SL. exact SGE.
Qed.

(* ------------------------------------------------------------------ instances and refutation witnesses for the remaining kinds *)
Definition demo_c_enc : mbi_class :=
  {| c_type := 3; c_mixins := [MixinApp; MixinRelocTable; MixinLoadAddress; MixinIvt; MixinTrustZone; MixinCertBlockV1; MixinHwKey; MixinKeyStore;
                               MixinHmacMandatory; MixinCtrInitVector; ExportMixinAppTrustZoneCertBlockEncrypt; ExportMixinRsaSign;
                               ExportMixinHmacKeyStoreFinalize] |}.
Definition demo_c_v21 : mbi_class :=
  {| c_type := 4; c_mixins := [MixinApp; MixinIvt; MixinLoadAddress; MixinCertBlockV21; MixinManifestDigest;
                               ExportMixinAppCertBlockManifest; ExportMixinEccSign] |}.
Definition demo_key : list N := map N.of_nat (seq 100 32).
Definition demo_x_enc (ks : option (list N)) : mbi :=
  set_ks (set_iv (set_hmac (set_cert (demo_x 80) (Some (CertV1 demo_pre demo_post 256))) (Some demo_key)) (map N.of_nat (seq 7 16))) ks.
Definition demo_cfg_enc (ks : bool) : rom_cfg := {| r_cb := CbV1; r_hmac := true; r_tzsize := 464; r_mcrc := false; r_types := [3%Z]; r_ks := ks |}.
Definition demo_keys_enc : rom_keys := {| rk_rkth := sha256 (concat demo_table); rk_user := demo_key |}.
Definition rom_accepts (cfg : rom_cfg) (keys : rom_keys) (r : res (list N)) : bool :=
  match r with Ok img => match rom_mbi cfg keys img with Some _ => true | None => false end | Err _ => false end.

Example demo_enc_instance :
  k_enc demo_c_enc = true /\ wf_input (demo_x_enc None) /\ ks_wf (demo_x_enc None) /\
  rom_accepts (demo_cfg_enc false) demo_keys_enc (export_mbi (real_crypto (demo_sign 256)) demo_c_enc (demo_x_enc None)) = true.
Proof. split; [vm_compute; reflexivity|]. split; [apply demo_wf|]. split; [exact I|vm_compute; reflexivity]. Qed.
(* the key source decides the image key: an image built WITHOUT key store is refused by a device that takes the user key from
   its key store, and an image built for the KEYSTORE source (here: key store object without embedded data) is refused by a
   device that derives the key from the master key; each is accepted by the matching device *)
Example demo_enc_key_source :
  rom_accepts (demo_cfg_enc true) demo_keys_enc (export_mbi (real_crypto (demo_sign 256)) demo_c_enc (demo_x_enc None)) = false /\
  rom_accepts (demo_cfg_enc true) demo_keys_enc (export_mbi (real_crypto (demo_sign 256)) demo_c_enc (demo_x_enc (Some []))) = true /\
  rom_accepts (demo_cfg_enc false) demo_keys_enc (export_mbi (real_crypto (demo_sign 256)) demo_c_enc (demo_x_enc (Some []))) = false.
Proof. repeat split; vm_compute; reflexivity. Qed.

(* certificate block v2.1 with one P-256 root key, no ISK: "chdr" 1 0 2 0 | size 80 | flags 0x80000011 | X || Y *)
Definition demo_body21 : list N := (CHDR_B ++ le_enc 4 80 ++ le_enc 4 2147483665 ++ zeros 64)%N.
Definition demo_info21 : cb21_info := {| c2_size := 80; c2_obl := []; c2_alg := 2; c2_pub := zeros 64 |}.
Definition demo_keys21 : rom_keys := {| rk_rkth := sha256 (zeros 64); rk_user := [] |}.
Definition demo_cfg21 : rom_cfg := {| r_cb := CbV21; r_hmac := false; r_tzsize := 1100; r_mcrc := false; r_types := [4%Z]; r_ks := false |}.
Definition demo_x21 (dg : Z) : mbi :=
  {| m_app := demo_app 60; m_load := 0; m_imgver := 0; m_subtype := 0; m_fwver := 7; m_tz := TzEnabled; m_hwkey := false;
     m_ks := None; m_hmac := None; m_iv := []; m_table := None; m_cert := Some (CertV21 demo_body21 64); m_digest := dg |}.
Lemma demo_cb21_ok : cb_v21_ok (rk_rkth demo_keys21) demo_body21 demo_info21.
Proof. split; [cbn; lia|]. split; [reflexivity|]. split; [vm_compute; reflexivity|vm_compute; reflexivity]. Qed.
Example demo_v21_instance :
  k_v21 demo_c_v21 = true /\ wf_input (demo_x21 1) /\ klen_of demo_info21 = 32 /\
  rom_accepts demo_cfg21 demo_keys21 (export_mbi (real_crypto (demo_sign 64)) demo_c_v21 (demo_x21 1)) = true /\
  rom_accepts demo_cfg21 demo_keys21 (export_mbi (real_crypto (demo_sign 64)) demo_c_v21 (demo_x21 0)) = true.
Proof.
  split; [vm_compute; reflexivity|]. split; [unfold wf_input, demo_x21; cbn; repeat split; lia|]. split; [reflexivity|].
  split; vm_compute; reflexivity.
Qed.
(* ------------------------------------------------------------------ the manifest digest algorithm is checked at export *)
(* a digest algorithm other than the hash of the signing key is refused with an SPSDK error: nothing is exported *)
Lemma digest_alg_refused_l k c x cb :
  supported c = true -> validate c x = Ok tt -> has c MixinApp = true ->
  provider c SCollect = Some ExportMixinAppCertBlockManifest ->
  has c MixinManifestDigest = true -> m_cert x = Some cb -> (m_digest x <> 0)%Z ->
  hash_type_of_sig (cert_sig cb) <> Some (m_digest x) -> export_c02 k c x = Err E_REJECT.
Proof.
  intros S V HA PC HD MC D0 HT. pose proof (validate_app_len c x V HA) as L.
  unfold export_c02, export_mbi, export_image. rewrite S, V. cbn [negb bind]. unfold collect. rewrite PC, MC.
  destruct (m_app x) as [|b t]; [simpl in L; lia|].
  assert (G : digest_guard c x cb = Err E_REJECT).
  { rewrite (digest_guard_unfold c x cb HD D0). rewrite hash_type_of_sig_alg in HT.
    destruct (Z.eqb_spec (sig_alg cb) 0); cbn [orb]; [reflexivity|].
    destruct (Z.eqb_spec (sig_alg cb) (m_digest x)) as [E|]; cbn [negb]; [rewrite E in HT; congruence|reflexivity]. }
  rewrite G. reflexivity.
Qed.
Example digest_alg_refused_instance :
  export_c02 (real_crypto (demo_sign 64)) demo_c_v21 (demo_x21 2) = Err E_REJECT /\
  is_ok (export_c02 (real_crypto (demo_sign 64)) demo_c_v21 (demo_x21 1)) = true.
Proof. split; vm_compute; reflexivity. Qed.

Theorem v21_accept_c02_l sign c x img cfg keys body sg info :
  k_v21 c = true -> wf_input x -> m_cert x = Some (CertV21 body sg) -> cb_v21_ok (rk_rkth keys) body info ->
  r_cb cfg = CbV21 -> r_hmac cfg = false -> r_mcrc cfg = has c MixinManifestCrc -> In (c_type c) (r_types cfg) ->
  tz_ok (r_tzsize cfg) x -> (0 <= m_digest x <= 3)%Z ->
  sg = 2 * klen_of info -> (forall m, length (sign m) = sg) ->
  export_c02 (real_crypto sign) c x = Ok img ->
  exists msg, img = msg ++ sign msg ++ v21_digest c x msg /\
    rom_mbi cfg keys img = Some {| ro_plain := msg; ro_msg := msg; ro_obl := v21_obl info msg (sign msg) |}.
Proof. exact (v21_accept_l sign c x img cfg keys body sg info). Qed.
