(* Proofs/MbiRomProofs.v -- C02: every image the export model (Model/MbiModel.v with the real primitives of
   Model/MbiRomModel.v) produces passes the checks of the independent ROM model.  Depends on MbiProofs / MbiRtProofs (C01),
   CryptoProofs / SymWrapProofs (C09). *)
From Coq Require Import ZArith NArith List Bool Lia.
Require Import Value Bytes BytesProofs Crc Sha2 Hmac Aes Modes CryptoProofs SymWrapModel SymWrapProofs.
Require Import MbiMixinModel GenMbi MbiModel MbiProofs MbiRtProofs MbiRomModel.
Import ListNotations.
Ltac Zify.zify_post_hook ::= Z.to_euclidean_division_equations.
Local Open Scope nat_scope.

(* ------------------------------------------------------------------ CRC: the builder's two-call CRC is the standard CRC-32/MPEG-2 *)
Lemma crc_bits_bridge n c : mbi_crc_bits n c = crc_bits n 32 79764919 c.
Proof. revert c; induction n as [|n IH]; intros c; [reflexivity|]. cbn [mbi_crc_bits crc_bits]. rewrite IH. reflexivity. Qed.
Lemma crc_byte_bridge c b : mbi_crc_byte c b = crc_byte CRC32_MPEG2 c b.
Proof. unfold mbi_crc_byte, crc_byte. rewrite crc_bits_bridge. reflexivity. Qed.
Lemma crc_from_bridge init d : mbi_crc32_from init d = crc_update CRC32_MPEG2 init d.
Proof.
  unfold mbi_crc32_from, crc_update. revert init; induction d as [|b d IH]; intros init; [reflexivity|].
  cbn [fold_left]. rewrite IH, crc_byte_bridge. reflexivity.
Qed.
Lemma crc_finish_mpeg r : crc_finish CRC32_MPEG2 r = r.
Proof. unfold crc_finish. cbn. apply N.lxor_0_r. Qed.
Lemma crc_bridge_l (a b : list N) :
  mbi_crc32_mpeg a = crc CRC32_MPEG2 a /\ mbi_crc32_from (mbi_crc32_mpeg a) b = crc CRC32_MPEG2 (a ++ b).
Proof.
  unfold mbi_crc32_mpeg, crc. rewrite !crc_from_bridge, !crc_finish_mpeg. split; [reflexivity|].
  now rewrite crc_update_app.
Qed.

(* ------------------------------------------------------------------ lists *)
Lemma firstn_app_le {A} (a b : list A) n : n <= length a -> firstn n (a ++ b) = firstn n a.
Proof. intros H. rewrite firstn_app. replace (n - length a) with 0 by lia. simpl. apply app_nil_r. Qed.
Lemma skipn_app_le {A} (a b : list A) n : n <= length a -> skipn n (a ++ b) = skipn n a ++ b.
Proof. intros H. rewrite skipn_app. replace (n - length a) with 0 by lia. reflexivity. Qed.
Lemma firstn_app_ge {A} (a b : list A) n : length a <= n -> firstn n (a ++ b) = a ++ firstn (n - length a) b.
Proof. intros H. rewrite firstn_app. now rewrite firstn_all2 by lia. Qed.
Lemma skipn_app_ge {A} (a b : list A) n : length a <= n -> skipn n (a ++ b) = skipn (n - length a) b.
Proof. intros H. rewrite skipn_app. now rewrite skipn_all2 by lia. Qed.
Lemma firstn_app_exact {A} (a b : list A) : firstn (length a) (a ++ b) = a.
Proof. rewrite firstn_app_le by lia. apply firstn_all. Qed.
Lemma skipn_app_exact {A} (a b : list A) : skipn (length a) (a ++ b) = b.
Proof. rewrite skipn_app_ge by lia. now rewrite Nat.sub_diag. Qed.
Lemma slice_app_mid {A} (a w b : list A) : slice (a ++ w ++ b) (length a) (length a + length w) = w.
Proof. unfold slice. rewrite skipn_app_exact. replace (length a + length w - length a) with (length w) by lia. apply firstn_app_exact. Qed.
Lemma slice_app_l {A} (a b : list A) i j : j <= length a -> slice (a ++ b) i j = slice a i j.
Proof.
  intros H. unfold slice. destruct (Nat.le_gt_cases i (length a)) as [L|L].
  - rewrite skipn_app_le by lia. apply firstn_app_le. rewrite skipn_length. lia.
  - replace (j - i) with 0 by lia. reflexivity.
Qed.
Lemma slice_app_r {A} (a b : list A) i j : length a <= i -> slice (a ++ b) i j = slice b (i - length a) (j - length a).
Proof. intros H. unfold slice. rewrite skipn_app_ge by lia. f_equal. lia. Qed.
Lemma slice_0 {A} (a : list A) j : slice a 0 j = firstn j a.
Proof. unfold slice. simpl. now rewrite Nat.sub_0_r. Qed.
Lemma slice_all {A} (a : list A) i : slice a i (length a) = skipn i a.
Proof. unfold slice. rewrite <- (skipn_length i a). apply firstn_all. Qed.
Lemma slice_length' {A} (a : list A) i j : i <= j -> j <= length a -> length (slice a i j) = j - i.
Proof. intros H1 H2. unfold slice. rewrite firstn_length, skipn_length. lia. Qed.
Lemma firstn_slice_cat {A} (a : list A) i j : i <= j -> firstn i a ++ slice a i j = firstn j a.
Proof.
  intros H. unfold slice. rewrite <- (firstn_skipn i a) at 3. rewrite firstn_app.
  destruct (Nat.le_gt_cases i (length a)) as [L|L].
  - rewrite firstn_length. replace (Nat.min i (length a)) with i by lia. rewrite (firstn_firstn a). replace (Nat.min j i) with i by lia. reflexivity.
  - rewrite !(firstn_all2 a) by lia. rewrite skipn_all2 by lia. now rewrite !firstn_nil.
Qed.
Lemma skipn_add {A} (a : list A) i k : skipn (i + k) a = skipn k (skipn i a).
Proof. revert a; induction i as [|i IH]; intros a; [reflexivity|]. destruct a as [|h a]; [now rewrite !skipn_nil|]. simpl. apply IH. Qed.
Lemma slice_skipn_cat {A} (a : list A) i j : i <= j -> slice a i j ++ skipn j a = skipn i a.
Proof.
  intros H. unfold slice. replace j with (i + (j - i)) at 2 by lia. rewrite skipn_add. apply firstn_skipn.
Qed.

(* bytearray slice assignment inside the first part of a concatenation *)
Lemma wr_split off w d : off + length w <= length d -> wr off w d = firstn off d ++ w ++ skipn (off + length w) d.
Proof. reflexivity. Qed.
Lemma wr_app off w d t : off + length w <= length d -> wr off w d ++ t = firstn off d ++ w ++ (skipn (off + length w) d ++ t).
Proof. intros H. unfold wr, splice. now rewrite <- !app_assoc. Qed.

(* ------------------------------------------------------------------ validate gives the per-mixin facts *)
Lemma validate_in_mix c x l m : validate_in c x l = Ok tt -> In m l -> mix_validate c x m = Ok tt.
Proof.
  induction l as [|a l IH]; intros V I; [destruct I|]. cbn [validate_in] in V.
  destruct (mix_validate c x a) as [[]|] eqn:E; cbn [bind] in V; [|discriminate].
  destruct I as [->|I]; [assumption|auto].
Qed.
Lemma validate_mix c x m : validate c x = Ok tt -> has c m = true -> mix_validate c x m = Ok tt.
Proof. intros V H. eapply validate_in_mix; [exact V|now apply has_in]. Qed.
Lemma validate_app_len c x : validate c x = Ok tt -> has c MixinApp = true -> 56 <= length (m_app x).
Proof.
  intros V H. pose proof (validate_mix c x MixinApp V H) as M. cbn [mix_validate] in M.
  destruct (Nat.ltb (length (m_app x)) MIN_APP) eqn:E; [discriminate|]. apply Nat.ltb_ge in E. exact E.
Qed.

Lemma export_inv k c x img : export_mbi k c x = Ok img ->
  supported c = true /\ validate c x = Ok tt /\
  exists raw enc enc2 sg fin, collect c x = Ok raw /\ encrypt k c x raw = Ok enc /\ post_encrypt c x enc = Ok enc2 /\
    MbiModel.sign k c x enc2 = Ok sg /\ finalize k c x (fst sg) (snd sg) = Ok fin /\ img = flat fin.
Proof.
  unfold export_mbi, export_image. intros E.
  destruct (supported c); cbn [negb] in E; [|discriminate]. split; [reflexivity|].
  destruct (validate c x) as [[]|]; cbn [bind] in E; [|discriminate]. split; [reflexivity|].
  destruct (collect c x) as [raw|] eqn:E1; cbn [bind] in E; [|discriminate].
  destruct (encrypt k c x raw) as [enc|] eqn:E2; cbn [bind] in E; [|discriminate].
  destruct (post_encrypt c x enc) as [enc2|] eqn:E3; cbn [bind] in E; [|discriminate].
  destruct (MbiModel.sign k c x enc2) as [sg|] eqn:E4; cbn [bind] in E; [|discriminate].
  destruct (finalize k c x (fst sg) (snd sg)) as [fin|] eqn:E5; cbn [res_map] in E; [|discriminate].
  injection E as <-. exists raw, enc, enc2, sg, fin. auto 10.
Qed.

(* ------------------------------------------------------------------ well-formed inputs / class kinds *)
Definition wf_input (x : mbi) : Prop := (0 <= m_subtype x < 4)%Z /\ (0 <= m_imgver x < 65536)%Z /\ m_table x = None.

Definition prov_is (c : mbi_class) (s : stage) (m : option mixin) : bool := (opt_mixin_id (provider c s) =? opt_mixin_id m)%Z.
Lemma prov_is_eq c s m : prov_is c s m = true -> provider c s = m.
Proof.
  unfold prov_is. intros H. apply Z.eqb_eq in H. destruct (provider c s) as [p|], m as [m|]; cbn [opt_mixin_id] in H.
  - f_equal. destruct p, m; try reflexivity; discriminate H.
  - destruct p; discriminate H.
  - destruct m; discriminate H.
  - reflexivity.
Qed.

(* CRC classes: application (+ TrustZone), CRC written into IVT word 0x28, total length written into word 0x20 *)
Definition k_crc (c : mbi_class) : bool :=
  wf_plain_crc c && nodupb (c_mixins c) && negb (has c MixinTrustZone && has c MixinTrustZoneMandatory) &&
  prov_is c SSign (Some ExportMixinCrcSign) && prov_is c SUpdateIvt (Some MixinIvt) && ((c_type c =? 2) || (c_type c =? 5))%Z.

Lemma export_crc_shape k c x img :
  wf_plain_crc c = true -> provider c SSign = Some ExportMixinCrcSign -> 56 <= length (m_app x) -> m_table x = None ->
  export_mbi k c x = Ok img ->
  exists app', update_ivt c x (m_app x) (total_len c x) 0 = Ok app' /\
    img = wr OFF_CRC (le_enc 4 (mbi_crc32_from (mbi_crc32_mpeg (firstn OFF_CRC (app' ++ tz_part c x)))
                                               (skipn (OFF_CRC + 4) (app' ++ tz_part c x)))) app' ++ tz_part c x.
Proof.
  intros W PS L HT E. pose proof W as W0. unfold wf_plain_crc in W.
  repeat (apply andb_true_iff in W as [W ?]).
  rename H into Wd, H0 into Wc, H1 into Wt2, H2 into Wt1, H3 into Wi, H4 into Wa.
  unfold export_mbi, export_image in E. unfold supported in E. rewrite (supported_plain _ W) in E. cbn [negb] in E.
  destruct (validate c x) as [[]|] eqn:V; cbn [bind] in E; [|discriminate].
  pose proof (provider_none_plain (c_mixins c) SEncrypt W) as PE. pose proof (provider_none_plain (c_mixins c) SPostEncrypt W) as PP.
  pose proof (provider_none_plain (c_mixins c) SFinalize W) as PF. cbn in PE, PP, PF.
  assert (CA : exists app', update_ivt c x (m_app x) (total_len c x) 0 = Ok app' /\ collect_app c x = Ok [app']).
  { unfold collect, collect_app in *. destruct (m_app x) as [|b t] eqn:Ea; [simpl in L; lia|]. rewrite Wi in *.
    destruct (update_ivt c x (b :: t) (total_len c x) 0) as [app'|] eqn:U.
    - exists app'. split; [reflexivity|]. cbn [bind]. unfold reloc_segment. rewrite HT. destruct (has_attr c AAppTable); reflexivity.
    - exfalso. destruct (provider c SCollect) as [[]|]; try discriminate Wc; cbn [bind] in E; discriminate E. }
  destruct CA as (app' & U & CA). exists app'. split; [assumption|].
  assert (La : length app' = length (m_app x)) by (eapply update_ivt_length; eassumption).
  assert (COL : collect c x = Ok ([app'] ++ (if has_attr c ATrustZone then tz_segment x else []))).
  { unfold collect. destruct (provider c SCollect) as [[]|]; try discriminate Wc; rewrite CA; cbn [bind].
    - apply negb_true_iff in Wc. rewrite Wc. reflexivity.
    - rewrite Wc. reflexivity. }
  rewrite COL in E. cbn [bind] in E.
  unfold encrypt, provider in E. rewrite PE in E. cbn [bind] in E.
  unfold post_encrypt, provider in E. rewrite PP in E. cbn [bind] in E.
  assert (FT : flat (if has_attr c ATrustZone then tz_segment x else []) = tz_part c x).
  { unfold tz_part. destruct (has_attr c ATrustZone); [apply flat_tz_segment|reflexivity]. }
  unfold MbiModel.sign in E. rewrite PS in E.
  change ([app'] ++ (if has_attr c ATrustZone then tz_segment x else []))
    with (app' :: (if has_attr c ATrustZone then tz_segment x else [])) in E.
  rewrite flat_cons in E.
  match type of E with context [crc_write _ 0 ?w] => remember w as cw eqn:Ecw end.
  rewrite crc_write_head in E by lia.
  cbn [bind fst snd] in E. unfold finalize, provider in E. rewrite PF in E. cbn [res_map] in E. injection E as <-.
  subst cw. rewrite <- FT. reflexivity.
Qed.

Lemma skipn_app_len {A} (w r : list A) n : length w = n -> skipn n (w ++ r) = r.
Proof. intros <-. apply skipn_app_exact. Qed.
Lemma firstn_app_len {A} (w r : list A) n : length w = n -> firstn n (w ++ r) = w.
Proof. intros <-. apply firstn_app_exact. Qed.

Lemma crc_region_wr (a w t : list N) : 56 <= length a -> length w = 4 ->
  crc_region (wr 40 w a ++ t) = firstn 40 (a ++ t) ++ skipn 44 (a ++ t) /\ slice (wr 40 w a ++ t) 40 44 = w.
Proof.
  intros L Lw. rewrite wr_app by lia. rewrite Lw. change (40 + 4) with 44.
  assert (L40 : length (firstn 40 a) = 40) by (rewrite firstn_length; lia).
  split.
  - unfold crc_region. rewrite firstn_app_le by lia. rewrite firstn_all2 by lia.
    rewrite skipn_app_ge by lia. rewrite L40. change (44 - 40) with 4.
    rewrite (skipn_app_len w _ 4 Lw).
    rewrite firstn_app_le by lia. now rewrite skipn_app_le by lia.
  - unfold slice. rewrite (skipn_app_len _ _ 40 L40). change (44 - 40) with 4. apply firstn_app_len, Lw.
Qed.

Lemma eqb_list_refl' a : eqb_list a a = true.
Proof. now apply eqb_list_spec. Qed.

Lemma crc_ok_shape (a t : list N) : 56 <= length a ->
  rom_crc_ok (wr 40 (le_enc 4 (mbi_crc32_from (mbi_crc32_mpeg (firstn 40 (a ++ t))) (skipn 44 (a ++ t)))) a ++ t) = true.
Proof.
  intros L. unfold rom_crc_ok.
  destruct (crc_region_wr a (le_enc 4 (mbi_crc32_from (mbi_crc32_mpeg (firstn 40 (a ++ t))) (skipn 44 (a ++ t)))) t L
              (le_enc_length _ _)) as [-> ->].
  destruct (crc_bridge_l (firstn 40 (a ++ t)) (skipn 44 (a ++ t))) as [_ ->]. apply eqb_list_refl'.
Qed.

Lemma k_crc_facts c : k_crc c = true ->
  wf_plain_crc c = true /\ nodupb (c_mixins c) = true /\ (has c MixinTrustZone && has c MixinTrustZoneMandatory) = false /\
  provider c SSign = Some ExportMixinCrcSign /\ provider c SUpdateIvt = Some MixinIvt /\ (c_type c = 2 \/ c_type c = 5)%Z /\
  has c MixinApp = true.
Proof.
  unfold k_crc. intros H. do 5 (apply andb_true_iff in H as [H ?]).
  apply negb_true_iff in H3. apply prov_is_eq in H2, H1. apply orb_true_iff in H0.
  repeat split; try assumption.
  - destruct H0 as [E|E]; apply Z.eqb_eq in E; auto.
  - unfold wf_plain_crc in H. repeat (apply andb_true_iff in H as [H ?]). assumption.
Qed.

Lemma rd32_land63_type c x : (0 <= c_type c < 64)%Z -> wf_input x -> Z.land (create_flags c x) 63 = c_type c.
Proof. intros H (H1 & H2 & _). now destruct (flags_decode_lemma c x H H1 H2) as (_ & E & _). Qed.

Theorem crc_ok_l k c x img cfg keys :
  k_crc c = true -> wf_input x -> In (c_type c) (r_types cfg) -> export_mbi k c x = Ok img ->
  rom_crc_ok img = true /\
  rom_mbi cfg keys img = Some {| ro_plain := img; ro_msg := crc_region img; ro_obl := [] |}.
Proof.
  intros K WI TY E. destruct (k_crc_facts c K) as (W & ND & NB & PS & PU & CT & HA).
  destruct (export_inv k c x img E) as (_ & V & _). pose proof (validate_app_len c x V HA) as L.
  pose proof WI as (WI1 & WI2 & HT).
  destruct (export_crc_shape k c x img W PS L HT E) as (app' & U & SH).
  destruct (len_is_sum_plain_crc k c x img W ND NB L HT E) as (LEN & W32 & W36 & _).
  assert (La : length app' = length (m_app x)) by (eapply update_ivt_length; eassumption).
  assert (RC : rom_crc_ok img = true).
  { rewrite SH. rewrite off_crc_eq. change (40 + 4) with 44. apply crc_ok_shape. lia. }
  split; [exact RC|].
  unfold rom_mbi. 
  assert (L56 : Nat.ltb (length img) 56 = false).
  { apply Nat.ltb_ge. rewrite SH, app_length, off_crc_eq, wr_length; rewrite ?le_enc_length; lia. }
  rewrite L56. rewrite off_flags_eq in W36. rewrite W36.
  assert (CT' : (0 <= c_type c < 64)%Z) by (destruct CT as [-> | ->]; lia).
  rewrite (rd32_land63_type c x CT' WI).
  assert (EX : existsb (Z.eqb (c_type c)) (r_types cfg) = true).
  { apply existsb_exists. exists (c_type c). split; [assumption|apply Z.eqb_refl]. }
  rewrite EX. cbn [negb].
  rewrite off_len_eq, PU in W32. rewrite W32, Z.eqb_refl. cbn [negb].
  destruct CT as [CT|CT]; rewrite CT, RC; reflexivity.
Qed.

(* ------------------------------------------------------------------ sums over a duplicate-free mixin list *)
Lemma sum_single (f : mixin -> Z) a : sumz (map (fun m => if mixin_eqb m a then f m else 0%Z) all_mixins) = f a.
Proof. destruct a; cbn; lia. Qed.
Lemma sumz_add (f g : mixin -> Z) l : sumz (map (fun m => (f m + g m)%Z) l) = (sumz (map f l) + sumz (map g l))%Z.
Proof. induction l as [|a l IH]; [reflexivity|]. cbn [map sumz fold_right] in *. fold (sumz (map f l)) (sumz (map g l)) (sumz (map (fun m => (f m + g m)%Z) l)). lia. Qed.
Lemma mixin_eqb_sym a b : mixin_eqb a b = mixin_eqb b a.
Proof. unfold mixin_eqb. apply Z.eqb_sym. Qed.
Lemma mixin_eqb_eq a b : mixin_eqb a b = true -> a = b.
Proof. unfold mixin_eqb. intros H. apply Z.eqb_eq in H. destruct a, b; try reflexivity; discriminate H. Qed.
Lemma sumz_zero {A} (l : list A) : sumz (map (fun _ => 0%Z) l) = 0%Z.
Proof. induction l as [|a l IH]; [reflexivity|]. unfold sumz in *. cbn [map fold_right]. lia. Qed.
Lemma sumz_nodup (f : mixin -> Z) l : nodupb l = true ->
  sumz (map f l) = sumz (map (fun m => if hasl l m then f m else 0%Z) all_mixins).
Proof.
  induction l as [|a l IH]; intros ND.
  - unfold hasl. cbn [map existsb]. now rewrite sumz_zero.
  - cbn [nodupb] in ND. apply andb_true_iff in ND as [NA ND]. apply negb_true_iff in NA.
    cbn [map sumz fold_right]. fold (sumz (map f l)). rewrite (IH ND).
    rewrite <- (sum_single f a) at 1. rewrite <- sumz_add. f_equal. apply map_ext. intros m.
    unfold hasl. cbn [existsb]. destruct (mixin_eqb m a) eqn:E.
    + apply mixin_eqb_eq in E. subst m. rewrite NA. cbn [orb]. lia.
    + cbn [orb]. lia.
Qed.

Lemma if_same0 (b : bool) : (if b then 0%Z else 0%Z) = 0%Z.
Proof. destruct b; reflexivity. Qed.
Definition tzl (x : mbi) : Z := zlen (tz_export (m_tz x)).
Definition hz (c : mbi_class) (m : mixin) (v : Z) : Z := if has c m then v else 0%Z.
Lemma total_len_expand c x : nodupb (c_mixins c) = true -> m_table x = None ->
  total_len c x =
  (hz c MixinApp (zlen (m_app x)) + hz c MixinTrustZone (tzl x) + hz c MixinTrustZoneMandatory (tzl x) +
   hz c MixinManifestCrc (mix_len x MixinManifestCrc) + hz c MixinManifestDigest (mix_len x MixinManifestDigest) +
   hz c MixinCertBlockV1 (mix_len x MixinCertBlockV1) + hz c MixinCertBlockV21 (mix_len x MixinCertBlockV21) +
   hz c MixinKeyStore (opt_len (m_ks x)) + hz c MixinHmac (mix_len x MixinHmac) + hz c MixinHmacMandatory (mix_len x MixinHmacMandatory))%Z.
Proof.
  intros ND HT. unfold total_len. rewrite (sumz_nodup _ _ ND). unfold hz, has, hasl, tzl.
  cbn [all_mixins map sumz fold_right mix_len]. rewrite HT.
  rewrite ?if_same0. ring.
Qed.
Lemma total_len_for_cert_expand c x : nodupb (c_mixins c) = true -> m_table x = None ->
  total_len_for_cert c x =
  (hz c MixinApp (zlen (m_app x)) + hz c MixinTrustZone (tzl x) + hz c MixinTrustZoneMandatory (tzl x) +
   hz c MixinManifestCrc (mix_len x MixinManifestCrc) + hz c MixinManifestDigest (mix_len x MixinManifestDigest) +
   hz c MixinCertBlockV1 (mix_len x MixinCertBlockV1) + hz c MixinCertBlockV21 (mix_len x MixinCertBlockV21))%Z.
Proof.
  intros ND HT. unfold total_len_for_cert. rewrite (sumz_nodup _ _ ND). unfold hz, has, hasl, tzl.
  cbn [all_mixins map sumz fold_right mix_len legacy_len]. rewrite HT.
  rewrite ?if_same0. ring.
Qed.
Lemma app_len_expand c x : nodupb (c_mixins c) = true -> m_table x = None -> app_len c x = hz c MixinApp (zlen (m_app x)).
Proof.
  intros ND HT. unfold app_len. rewrite (sumz_nodup _ _ ND). unfold hz, has, hasl.
  cbn [all_mixins map sumz fold_right mix_app_len]. rewrite HT.
  rewrite ?if_same0. ring.
Qed.
