(* Proofs/FlashEncProofs.v -- lemmas for C13 (flash encryption: OTFAD, IEE, BEE). *)
From Coq Require Import ZArith NArith List Bool Lia.
Require Import Value Bytes BytesProofs GenMisc MiscModel MiscProofs Aes Modes KeyWrap Crc CryptoProofs GenFlashEnc FlashEncModel.
Import ListNotations.
Local Open Scope Z_scope.
Ltac Zify.zify_post_hook ::= Z.to_euclidean_division_equations.

(* ================================================================== walking a byte string in units === *)
Lemma zlen_app {A} (x y : list A) : zlen (x ++ y) = zlen x + zlen y.
Proof. unfold zlen. rewrite app_length. lia. Qed.
Lemma zlen_nonneg {A} (x : list A) : 0 <= zlen x.
Proof. unfold zlen. lia. Qed.

Lemma walk_fuel_enough {A} (f : Z -> list N -> A) unit f1 : forall f2 addr data,
  (length data <= f1)%nat -> (length data <= f2)%nat -> (0 < unit)%nat ->
  walk f unit f1 addr data = walk f unit f2 addr data.
Proof.
  induction f1 as [|f1 IH]; intros f2 addr data H1 H2 Hu.
  - destruct data; simpl in *; [|lia]. destruct f2; reflexivity.
  - destruct f2 as [|f2].
    + destruct data; simpl in *; [reflexivity | lia].
    + cbn [walk]. destruct data as [|b data]; [reflexivity|].
      f_equal. apply IH; try assumption; rewrite skipn_length; cbn [length] in *; lia.
Qed.

Lemma pieces_nil {A} (f : Z -> list N -> A) unit addr : pieces f unit addr [] = [].
Proof. reflexivity. Qed.

Lemma pieces_cons {A} (f : Z -> list N -> A) unit addr data :
  (0 < unit)%nat -> data <> [] ->
  pieces f unit addr data =
  f addr (firstn unit data) :: pieces f unit (addr + zlen (firstn unit data)) (skipn unit data).
Proof.
  intros Hu Hd. unfold pieces. destruct data as [|b data]; [congruence|].
  cbn [length walk]. f_equal. apply walk_fuel_enough; try assumption; rewrite skipn_length; cbn [length]; lia.
Qed.

Lemma pieces_single {A} (f : Z -> list N -> A) unit addr data :
  (0 < unit)%nat -> data <> [] -> (length data <= unit)%nat -> pieces f unit addr data = [f addr data].
Proof.
  intros Hu Hd Hl. rewrite pieces_cons by assumption.
  rewrite firstn_all2 by lia. rewrite skipn_all2 by lia. reflexivity.
Qed.

(* a piece boundary can be moved to any multiple of the unit: "depends only on the absolute address" *)
Lemma pieces_app {A} (f : Z -> list N -> A) unit q : forall addr x y,
  (0 < unit)%nat -> length x = (q * unit)%nat ->
  pieces f unit addr (x ++ y) = pieces f unit addr x ++ pieces f unit (addr + zlen x) y.
Proof.
  induction q as [|q IH]; intros addr x y Hu Hx.
  - destruct x; [|simpl in Hx; lia]. simpl. unfold zlen. simpl. now rewrite Z.add_0_r.
  - assert (Hxl : (unit <= length x)%nat) by (simpl in Hx; lia).
    assert (Hne : x <> []) by (intros ->; simpl in Hxl; lia).
    assert (Hne' : x ++ y <> []) by (destruct x; [congruence | discriminate]).
    rewrite (pieces_cons f unit addr (x ++ y)) by assumption.
    rewrite (pieces_cons f unit addr x) by assumption.
    rewrite firstn_app, skipn_app.
    replace (unit - length x)%nat with 0%nat by lia. simpl. rewrite app_nil_r.
    f_equal. rewrite IH; try assumption.
    + f_equal. f_equal. rewrite <- Z.add_assoc, <- zlen_app, firstn_skipn. reflexivity.
    + rewrite skipn_length. simpl in Hx. lia.
Qed.

Lemma seq_concat_app a b :
  seq_concat (a ++ b) =
  match seq_concat a with
  | Ok x => match seq_concat b with Ok y => Ok (x ++ y) | Err k => Err k end
  | Err k => Err k
  end.
Proof.
  induction a as [|r a IH]; simpl.
  - destruct (seq_concat b); reflexivity.
  - destruct r as [x|k]; [|reflexivity]. rewrite IH.
    destruct (seq_concat a); [|reflexivity]. destruct (seq_concat b); [|reflexivity]. now rewrite app_assoc.
Qed.

(* the general "address only" statement for every walk of this file *)
Lemma walk_address_only_l (g : Z -> list N -> res (list N)) unit q base x y :
  (0 < unit)%nat -> length x = (q * unit)%nat ->
  seq_concat (pieces g unit base (x ++ y)) =
  match seq_concat (pieces g unit base x) with
  | Ok cx => match seq_concat (pieces g unit (base + zlen x) y) with Ok cy => Ok (cx ++ cy) | Err k => Err k end
  | Err k => Err k
  end.
Proof. intros Hu Hx. rewrite (pieces_app g unit q) by assumption. apply seq_concat_app. Qed.

Lemma concat_pieces_app (f : Z -> list N -> list N) unit q addr x y :
  (0 < unit)%nat -> length x = (q * unit)%nat ->
  concat (pieces f unit addr (x ++ y)) = concat (pieces f unit addr x) ++ concat (pieces f unit (addr + zlen x) y).
Proof. intros Hu Hx. rewrite (pieces_app f unit q) by assumption. apply concat_app. Qed.

(* extensionality inside the walked address range *)
Lemma walk_ext_range {A} (f f' : Z -> list N -> A) unit fuel : forall addr data,
  (forall a b, addr <= a < addr + zlen data -> f a b = f' a b) ->
  walk f unit fuel addr data = walk f' unit fuel addr data.
Proof.
  induction fuel as [|fu IH]; intros addr data H; [reflexivity|].
  cbn [walk]. destruct data as [|b data]; [reflexivity|].
  f_equal.
  - apply H. unfold zlen. cbn [length]. lia.
  - apply IH. intros a c Ha. apply H.
    pose proof (zlen_nonneg (firstn unit (b :: data))).
    assert (zlen (firstn unit (b :: data)) + zlen (skipn unit (b :: data)) = zlen (b :: data))
      by (rewrite <- zlen_app, firstn_skipn; reflexivity).
    lia.
Qed.

Lemma pieces_ext_range {A} (f f' : Z -> list N -> A) unit addr data :
  (forall a b, addr <= a < addr + zlen data -> f a b = f' a b) ->
  pieces f unit addr data = pieces f' unit addr data.
Proof. apply walk_ext_range. Qed.

Lemma concat_walk_id unit fuel : forall addr data, (length data <= fuel)%nat -> (0 < unit)%nat ->
  concat (walk (fun _ b => b) unit fuel addr data) = data.
Proof.
  induction fuel as [|fu IH]; intros addr data H Hu.
  - destruct data; simpl in *; [reflexivity | lia].
  - cbn [walk]. destruct data as [|b data]; [reflexivity|].
    cbn [concat]. rewrite IH; try assumption.
    + apply firstn_skipn.
    + rewrite skipn_length. cbn [length] in *. lia.
Qed.

Lemma concat_pieces_id unit addr data : (0 < unit)%nat -> concat (pieces (fun _ b => b) unit addr data) = data.
Proof. intros. apply concat_walk_id; auto. Qed.

(* a block-wise inverse: h undoes f on every block of a string made of whole blocks *)
Lemma pieces_inverse (f h : Z -> list N -> list N) (u : nat) (q : nat) : forall a d,
  (0 < u)%nat -> length d = (q * u)%nat ->
  (forall j b, (j < q)%nat -> length b = u ->
     length (f (a + Z.of_nat (j * u)) b) = u /\ h (a + Z.of_nat (j * u)) (f (a + Z.of_nat (j * u)) b) = b) ->
  concat (pieces h u a (concat (pieces f u a d))) = d /\ length (concat (pieces f u a d)) = length d.
Proof.
  induction q as [|q IH]; intros a d Hu Hd H.
  - destruct d; [|simpl in Hd; lia]. split; reflexivity.
  - assert (Hdl : (u <= length d)%nat) by (simpl in Hd; lia).
    assert (Hne : d <> []) by (intros ->; simpl in Hdl; lia).
    rewrite (pieces_cons f u a d) by assumption.
    assert (Hf : length (firstn u d) = u) by (rewrite firstn_length; lia).
    destruct (H 0%nat (firstn u d) ltac:(lia) Hf) as [L0 I0].
    simpl in L0, I0. rewrite Z.add_0_r in L0, I0.
    cbn [concat].
    assert (Hz : zlen (firstn u d) = Z.of_nat u) by (unfold zlen; now rewrite Hf).
    rewrite Hz.
    destruct (IH (a + Z.of_nat u) (skipn u d) Hu) as [I1 L1].
    + rewrite skipn_length. simpl in Hd. lia.
    + intros j b Hj Hb.
      replace (a + Z.of_nat u + Z.of_nat (j * u)) with (a + Z.of_nat (S j * u)) by (simpl; lia).
      apply H; [lia | assumption].
    + split.
      * rewrite (concat_pieces_app h u 1); try assumption; [|simpl; lia].
        rewrite (pieces_single h u a) ; try assumption; try lia.
        -- cbn [concat]. rewrite app_nil_r, I0.
           replace (zlen (f a (firstn u d))) with (Z.of_nat u) by (unfold zlen; now rewrite L0).
           rewrite I1. apply firstn_skipn.
        -- intros E. rewrite E in L0. simpl in L0. lia.
      * rewrite app_length, L0, L1, skipn_length. lia.
Qed.

(* regrouping a fine walk (unit u) by coarse units k*u *)
Lemma pieces_regroup (f : Z -> list N -> list N) (u k : nat) fuel : forall a d,
  (0 < u)%nat -> (0 < k)%nat -> (length d <= fuel)%nat ->
  concat (pieces f u a d) = concat (pieces (fun a' p => concat (pieces f u a' p)) (k * u) a d).
Proof.
  induction fuel as [|fu IH]; intros a d Hu Hk Hf.
  - destruct d; [reflexivity | simpl in Hf; lia].
  - destruct d as [|b d']; [reflexivity|].
    set (d := b :: d') in *.
    assert (Hku : (0 < k * u)%nat) by nia.
    rewrite (pieces_cons _ (k * u) a d) by (try assumption; discriminate).
    cbn [concat].
    destruct (Nat.le_gt_cases (length d) (k * u)) as [Hle|Hgt].
    + rewrite firstn_all2 by assumption. rewrite skipn_all2 by assumption. simpl. now rewrite app_nil_r.
    + rewrite <- (firstn_skipn (k * u) d) at 1.
      assert (Hl : length (firstn (k * u) d) = (k * u)%nat) by (rewrite firstn_length; lia).
      rewrite (concat_pieces_app f u k) by assumption.
      f_equal. apply IH; try assumption. rewrite skipn_length. subst d. cbn [length] in *. lia.
Qed.

(* ---------------- a walk of encrypting pieces, related piece by piece to a result ---------------- *)
Section WalkInduction.
Variable g : Z -> list N -> res (list N).
Variable unit : nat.
Variable al : Z -> Prop.                        (* alignment invariant of the piece addresses *)
Variable top : Z.                               (* address just behind the image *)
Variable piece_ok : Z -> list N -> list N -> Prop.
Variable P : Z -> list N -> list N -> Prop.
Variable good : list N -> Prop.                 (* a property of the image inherited by its pieces *)
Hypothesis good_firstn : forall n l, good l -> good (firstn n l).
Hypothesis good_skipn : forall n l, good l -> good (skipn n l).
Hypothesis Hunit : (0 < unit)%nat.
Hypothesis al_step : forall a, al a -> al (a + Z.of_nat unit).
Hypothesis g_ok : forall a p, al a -> p <> [] -> (length p <= unit)%nat -> a + zlen p <= top ->
  (length p = unit \/ a + zlen p = top) -> good p -> exists c, g a p = Ok c /\ piece_ok a p c.
Hypothesis P_nil : forall a, P a [] [].
Hypothesis P_last : forall a p c, al a -> p <> [] -> (length p <= unit)%nat -> a + zlen p = top -> piece_ok a p c -> P a p c.
Hypothesis P_step : forall a p c rest out, al a -> length p = unit -> piece_ok a p c -> rest <> [] ->
  P (a + Z.of_nat unit) rest out -> P a (p ++ rest) (c ++ out).

Lemma walk_induction fuel : forall base data, (length data <= fuel)%nat -> al base -> base + zlen data = top ->
  good data -> exists out, seq_concat (pieces g unit base data) = Ok out /\ P base data out.
Proof.
  induction fuel as [|fu IH]; intros base data Hf Hal Htop Hgood.
  - destruct data; [|simpl in Hf; lia]. exists []. split; [reflexivity | apply P_nil].
  - destruct data as [|b d']; [exists []; split; [reflexivity | apply P_nil]|].
    remember (b :: d') as data eqn:Hdata.
    assert (Hne : data <> []) by (subst data; discriminate).
    assert (Hlen : length data = S (length d')) by (subst data; reflexivity).
    clear Hdata.
    pose proof (good_firstn unit data Hgood) as Hg1. pose proof (good_skipn unit data Hgood) as Hg2.
    rewrite (pieces_cons g unit base data) by assumption.
    destruct (Nat.le_gt_cases (length data) unit) as [Hle|Hgt].
    + rewrite firstn_all2 by assumption. rewrite skipn_all2 by assumption. rewrite pieces_nil.
      assert (Hle2 : base + zlen data <= top) by (rewrite Htop; apply Z.le_refl).
      destruct (g_ok base data Hal Hne Hle Hle2 (or_intror Htop) Hgood) as (c & Hc & Hok).
      exists c. simpl. rewrite Hc. rewrite app_nil_r. split; [reflexivity|]. now apply P_last.
    + assert (Hl : length (firstn unit data) = unit) by (rewrite firstn_length; lia).
      assert (Hz : zlen (firstn unit data) = Z.of_nat unit) by (unfold zlen; now rewrite Hl).
      assert (Hsplit : zlen (firstn unit data) + zlen (skipn unit data) = zlen data)
        by (rewrite <- zlen_app, firstn_skipn; reflexivity).
      assert (Hrest : skipn unit data <> []).
      { intros E. apply (f_equal (@length N)) in E. rewrite skipn_length in E. change (length (@nil N)) with 0%nat in E. lia. }
      pose proof (zlen_nonneg (skipn unit data)).
      destruct (g_ok base (firstn unit data) Hal) as (c & Hc & Hok); try lia; try assumption.
      { intros E. rewrite E in Hl. simpl in Hl. lia. }
      rewrite Hz.
      destruct (IH (base + Z.of_nat unit) (skipn unit data)) as (out & Ho & HP).
      { rewrite skipn_length. lia. }
      { now apply al_step. }
      { lia. }
      { assumption. }
      exists (c ++ out). cbn [seq_concat]. rewrite Hc, Ho. split; [reflexivity|].
      rewrite <- (firstn_skipn unit data) at 1. now apply P_step.
Qed.
End WalkInduction.

(* ---------------- encrypting walk followed by a per-unit hardware model ---------------- *)
Section WalkRoundtrip.
Variable g : Z -> list N -> res (list N).
Variable hu : Z -> list N -> list N.            (* the hardware on one unit fetched at an aligned address *)
Variable unit : nat.
Variable al : Z -> Prop.
Variable top : Z.
Variable Q : Z -> Prop.                         (* "this address is outside every active region" *)
Variable good : list N -> Prop.
Hypothesis good_firstn : forall n l, good l -> good (firstn n l).
Hypothesis good_skipn : forall n l, good l -> good (skipn n l).
Hypothesis Hunit : (0 < unit)%nat.
Hypothesis al_step : forall a, al a -> al (a + Z.of_nat unit).

Definition rt_piece (a : Z) (p c : list N) : Prop :=
  (length p <= length c <= unit)%nat /\ (length p = unit -> length c = unit) /\
  length (hu a c) = length c /\ firstn (length p) (hu a c) = p /\
  (forall i, (i < length p)%nat -> Q (a + Z.of_nat i) -> nth i c 0%N = nth i p 0%N).

Definition rt_whole (base : Z) (data out : list N) : Prop :=
  (length data <= length out)%nat /\
  firstn (length data) (concat (pieces hu unit base out)) = data /\
  (forall i, (i < length data)%nat -> Q (base + Z.of_nat i) -> nth i out 0%N = nth i data 0%N).

Hypothesis g_ok : forall a p, al a -> p <> [] -> (length p <= unit)%nat -> a + zlen p <= top ->
  (length p = unit \/ a + zlen p = top) -> good p -> exists c, g a p = Ok c /\ rt_piece a p c.

Lemma walk_roundtrip base data : al base -> base + zlen data = top -> good data ->
  exists out, seq_concat (pieces g unit base data) = Ok out /\ rt_whole base data out.
Proof.
  intros Hal Htop Hgood.
  apply (walk_induction g unit al top rt_piece rt_whole good good_firstn good_skipn Hunit al_step g_ok)
    with (fuel := length data); try assumption; try lia.
  - intros a. repeat split; simpl; intros; lia.
  - intros a p c Ha Hp Hl _ (L1 & L2 & L3 & L4 & L5).
    assert (Hc : c <> []) by (intros ->; destruct p; [congruence | simpl in L1; lia]).
    repeat split; try lia.
    + rewrite pieces_single by (try assumption; lia). cbn [concat]. now rewrite app_nil_r.
    + exact L5.
  - intros a p c rest out Ha Hp (L1 & L2 & L3 & L4 & L5) Hrest (R1 & R2 & R3).
    specialize (L2 Hp).
    assert (Hzc : zlen c = Z.of_nat unit) by (unfold zlen; now rewrite L2).
    repeat split.
    + rewrite !app_length. lia.
    + rewrite (concat_pieces_app hu unit 1) by (try assumption; simpl; lia).
      assert (Hc : c <> []) by (intros ->; simpl in L2; lia).
      rewrite pieces_single by (try assumption; lia). cbn [concat]. rewrite app_nil_r.
      rewrite app_length, firstn_app, L3, L2, Hp.
      rewrite firstn_all2 by lia.
      replace (unit + length rest - unit)%nat with (length rest) by lia.
      rewrite Hzc, R2. f_equal.
      rewrite <- L4. rewrite Hp. symmetry. apply firstn_all2. lia.
    + intros i Hi HQ. rewrite app_length in Hi.
      destruct (Nat.lt_ge_cases i unit) as [Hlt|Hge].
      * rewrite !app_nth1 by lia. apply L5; [lia | assumption].
      * rewrite !app_nth2 by lia. rewrite L2, Hp. apply R3; [lia|].
        replace (a + Z.of_nat unit + Z.of_nat (i - unit)) with (a + Z.of_nat i) by lia. exact HQ.
Qed.
End WalkRoundtrip.

(* ---------------- the grid walk (first piece up to the next unit boundary, then whole units) ---------------- *)
Lemma lor_1023 x : Z.lor x 1023 = 1024 * (x / 1024) + 1023.
Proof.
  assert (H1 : Z.lor x 1023 = Z.lor (Z.ldiff x 1023) 1023).
  { apply Z.bits_inj'. intros n Hn. rewrite !Z.lor_spec, Z.ldiff_spec.
    destruct (Z.testbit x n), (Z.testbit 1023 n); reflexivity. }
  assert (H2 : Z.land (Z.ldiff x 1023) 1023 = 0).
  { apply Z.bits_inj'. intros n Hn. rewrite Z.land_spec, Z.ldiff_spec, Z.bits_0.
    destruct (Z.testbit x n), (Z.testbit 1023 n); reflexivity. }
  rewrite H1, <- (Z.lxor_lor _ _ H2), <- (Z.add_nocarry_lxor _ _ H2).
  change 1023 with (Z.ones 10) at 1. rewrite Z.ldiff_ones_r by lia.
  rewrite Z.shiftl_mul_pow2, Z.shiftr_div_pow2 by lia. change (2 ^ 10) with 1024. lia.
Qed.

Lemma neg_mod_cases base U : 0 < U ->
  (base mod U = 0 /\ (- base) mod U = 0) \/ (base mod U <> 0 /\ (- base) mod U = U - base mod U).
Proof.
  intros HU. destruct (Z.eq_dec (base mod U) 0) as [E|E].
  - left. split; [exact E|]. apply Z.mod_opp_l_z; [lia | exact E].
  - right. split; [exact E|]. apply Z.mod_opp_l_nz; [lia | exact E].
Qed.

Lemma neg_mod_aligns base U : 0 < U -> (base + (- base) mod U) mod U = 0.
Proof.
  intros HU. destruct (neg_mod_cases base U HU) as [[E1 E2]|[E1 E2]]; rewrite E2.
  - now rewrite Z.add_0_r.
  - replace (base + (U - base mod U)) with ((base - base mod U) + 1 * U) by lia.
    rewrite Z_mod_plus_full. rewrite Zminus_mod, Z.mod_mod, Z.sub_diag by lia. reflexivity.
Qed.

Lemma neg_mod_16 base kk : 0 < kk -> base mod 16 = 0 -> ((- base) mod (16 * kk)) mod 16 = 0.
Proof.
  intros Hk H16. rewrite (Z.mod_eq (- base) (16 * kk)) by lia.
  apply Z.mod_divide; [lia|]. apply Z.divide_sub_r.
  - apply Z.divide_opp_r. apply Z.mod_divide; [lia | exact H16].
  - apply Z.divide_mul_l. apply Z.divide_mul_l. apply Z.divide_refl.
Qed.

Section GridRoundtrip.
Variable g : Z -> list N -> res (list N).
Variable hb : Z -> list N -> list N.            (* the hardware on one 16-byte fetch *)
Variable unit k : nat.
Hypothesis Hk : unit = (k * 16)%nat.
Hypothesis Hk0 : (0 < k)%nat.
Variable Q : Z -> Prop.
Variable good : list N -> Prop.
Hypothesis good_firstn : forall n l, good l -> good (firstn n l).
Hypothesis good_skipn : forall n l, good l -> good (skipn n l).

Definition ghu (a : Z) (c : list N) : list N := concat (pieces hb 16 a c).

(* a piece that lies inside one unit of the grid *)
Definition grid_piece (a : Z) (p c : list N) : Prop :=
  (length p <= length c)%nat /\ a mod Z.of_nat unit + zlen c <= Z.of_nat unit /\
  (Nat.modulo (length p) 16 = 0%nat -> length c = length p) /\
  length (ghu a c) = length c /\ firstn (length p) (ghu a c) = p /\
  (forall i, (i < length p)%nat -> Q (a + Z.of_nat i) -> nth i c 0%N = nth i p 0%N).

Hypothesis g_ok : forall a p, 0 <= a -> a mod 16 = 0 -> p <> [] -> a mod Z.of_nat unit + zlen p <= Z.of_nat unit ->
  good p -> exists c, g a p = Ok c /\ grid_piece a p c.

Definition grid_whole (base : Z) (data out : list N) : Prop :=
  (length data <= length out)%nat /\
  firstn (length data) (concat (pieces hb 16 base out)) = data /\
  (forall i, (i < length data)%nat -> Q (base + Z.of_nat i) -> nth i out 0%N = nth i data 0%N).

Lemma grid_aligned b d : 0 <= b -> b mod Z.of_nat unit = 0 -> good d ->
  exists out, seq_concat (pieces g unit b d) = Ok out /\ grid_whole b d out.
Proof.
  intros Hb Hal Hg.
  assert (Hu : (0 < unit)%nat) by lia.
  destruct (walk_roundtrip g ghu unit (fun a => 0 <= a /\ a mod Z.of_nat unit = 0) (b + zlen d) Q good
              good_firstn good_skipn Hu) with (base := b) (data := d) as (out & Ho & R1 & R2 & R3);
    try (split; assumption); try reflexivity; try assumption.
  - intros a [A1 A2]. split; [lia|].
    replace (a + Z.of_nat unit) with (a + 1 * Z.of_nat unit) by lia. rewrite Z_mod_plus_full. exact A2.
  - intros a p [A1 A2] Hp Hl _ _ Hgp.
    destruct (g_ok a p A1) as (c & Hc & G1 & G2 & G3 & G4 & G5 & G6); try assumption.
    + rewrite Hk in A2. lia.
    + rewrite A2. unfold zlen. lia.
    + exists c. split; [exact Hc|]. unfold rt_piece. rewrite A2 in G2. unfold zlen in G2.
      repeat split; try assumption; try lia.
  - exists out. split; [exact Ho|]. split; [exact R1|]. split; [|exact R3].
    rewrite (pieces_regroup hb 16 k (length out)) by lia. rewrite <- Hk. exact R2.
Qed.

Lemma grid_roundtrip base data : 0 <= base -> base mod 16 = 0 -> good data ->
  exists out, seq_concat (grid_pieces g unit base data) = Ok out /\ grid_whole base data out.
Proof.
  intros Hb H16 Hg. unfold grid_pieces.
  assert (HU : Z.of_nat unit = 16 * Z.of_nat k) by lia.
  assert (HUp : 0 < Z.of_nat unit) by lia.
  pose proof (Z.mod_pos_bound (- base) (Z.of_nat unit) HUp) as Hmb.
  pose proof (zlen_nonneg data) as Hzd.
  destruct (grid_first unit base data) as [|n] eqn:Ef.
  - (* no first piece *)
    cbn [app]. rewrite Z.add_0_r. change (skipn 0 data) with data.
    unfold grid_first in Ef.
    destruct (Z.eq_dec (zlen data) 0) as [Hz|Hz].
    + assert (data = []) by (apply length_zero_iff_nil; unfold zlen in Hz; lia). subst data.
      exists []. split; [reflexivity|]. repeat split; simpl; intros; lia.
    + apply grid_aligned; try assumption.
      assert (Hm0 : (- base) mod Z.of_nat unit = 0) by lia.
      destruct (neg_mod_cases base (Z.of_nat unit) HUp) as [[E1 _]|[_ E2]]; [exact E1|].
      pose proof (Z.mod_pos_bound base (Z.of_nat unit) HUp). lia.
  - set (f := S n) in *. unfold grid_first in Ef.
    assert (Hf1 : (f <= length data)%nat) by (unfold zlen in Ef; lia).
    assert (Hf2 : Z.of_nat f <= (- base) mod Z.of_nat unit) by lia.
    set (p0 := firstn f data). set (rest := skipn f data).
    assert (Lp0 : length p0 = f) by (unfold p0; rewrite firstn_length; lia).
    assert (Hp0 : p0 <> []) by (intros E0; rewrite E0 in Lp0; simpl in Lp0; lia).
    assert (Hin : base mod Z.of_nat unit + zlen p0 <= Z.of_nat unit).
    { unfold zlen. rewrite Lp0. destruct (neg_mod_cases base (Z.of_nat unit) HUp) as [[_ E2]|[_ E2]]; lia. }
    destruct (g_ok base p0 Hb H16 Hp0 Hin (good_firstn f data Hg)) as (c0 & Hc0 & G1 & G2 & G3 & G4 & G5 & G6).
    rewrite seq_concat_app. cbn [seq_concat]. rewrite Hc0, app_nil_r.
    assert (Hdata : data = p0 ++ rest) by (unfold p0, rest; now rewrite firstn_skipn).
    destruct (Nat.eq_dec (length rest) 0) as [Er|Er].
    + (* the image ends inside the first unit *)
      apply length_zero_iff_nil in Er. rewrite Er in *. rewrite pieces_nil. cbn [seq_concat]. rewrite app_nil_r in Hdata |- *. exists c0. split; [reflexivity|].
      rewrite Hdata. repeat split; try assumption.
    + (* whole units follow: the first piece ends on the grid and has a multiple of 16 bytes *)
      assert (Hlr : (0 < length rest)%nat) by lia.
      assert (Hrl : length rest = (length data - f)%nat) by (unfold rest; apply skipn_length).
      assert (Hfe : Z.of_nat f = (- base) mod Z.of_nat unit) by (unfold zlen in Ef; lia).
      assert (Hf16 : Nat.modulo f 16 = 0%nat).
      { apply Nat2Z.inj. rewrite Nat2Z.inj_mod. rewrite Hfe, HU. change (Z.of_nat 16) with 16.
        change (Z.of_nat 0) with 0. apply neg_mod_16; lia. }
      assert (Lc0 : length c0 = f) by (rewrite <- Lp0; apply G3; now rewrite Lp0).
      destruct (mod_mult_exists f 16 ltac:(lia) Hf16) as [q Hq].
      destruct (grid_aligned (base + Z.of_nat f) rest) as (outr & Hor & R1 & R2 & R3).
      { lia. } { rewrite Hfe. now apply neg_mod_aligns. } { unfold rest. now apply good_skipn. }
      rewrite Hor. exists (c0 ++ outr). split; [reflexivity|].
      rewrite Hdata. repeat split.
      * rewrite !app_length. lia.
      * rewrite (concat_pieces_app hb 16 q) by (try lia; rewrite Lc0; exact Hq).
        fold (ghu base c0).
        replace (zlen c0) with (Z.of_nat f) by (unfold zlen; now rewrite Lc0).
        rewrite app_length, firstn_app, G4, Lc0, Lp0.
        rewrite firstn_all2 by lia.
        replace (f + length rest - f)%nat with (length rest) by lia.
        rewrite R2. f_equal. rewrite <- G5. rewrite Lp0. symmetry. apply firstn_all2. lia.
      * intros i Hi HQ. rewrite app_length in Hi.
        destruct (Nat.lt_ge_cases i f) as [Hlt|Hge].
        -- rewrite !app_nth1 by lia. apply G6; [lia | assumption].
        -- rewrite !app_nth2 by lia. rewrite Lc0, Lp0. apply R3; [lia|].
           replace (base + Z.of_nat f + Z.of_nat (i - f)) with (base + Z.of_nat i) by lia. exact HQ.
Qed.
End GridRoundtrip.

(* address-only for the grid walk: cutting at a multiple of the unit behind a grid-aligned prefix *)
Lemma grid_pieces_aligned {A} (f : Z -> list N -> A) unit base data :
  (0 < unit)%nat -> base mod Z.of_nat unit = 0 -> grid_pieces f unit base data = pieces f unit base data.
Proof.
  intros Hu Hal. unfold grid_pieces, grid_first.
  rewrite (Z.mod_opp_l_z base (Z.of_nat unit)) by (try assumption; lia).
  pose proof (zlen_nonneg data). rewrite Z.min_r by lia. simpl. now rewrite Z.add_0_r.
Qed.

(* ================================================================== small facts ======================= *)
Lemma pad16_cases l : (pad16 l = l /\ Nat.modulo (length l) 16 = 0%nat) \/
                      (exists k, (0 < k < 16)%nat /\ pad16 l = l ++ zeros k /\ Nat.modulo (length l + k) 16 = 0%nat).
Proof.
  unfold pad16, BS. destruct (Nat.modulo (length l) 16) eqn:E; [left; auto|].
  right. exists (16 - S n)%nat.
  pose proof (Nat.mod_upper_bound (length l) 16 ltac:(lia)) as Hb.
  pose proof (Nat.div_mod (length l) 16 ltac:(lia)) as Hd.
  repeat split; try lia.
  replace (length l + (16 - S n))%nat with ((length l / 16 + 1) * 16)%nat by lia.
  apply Nat.mod_mul. lia.
Qed.

Lemma zeros_length k : length (zeros k) = k.
Proof. apply repeat_length. Qed.

Lemma pad16_length_ge l : (length l <= length (pad16 l))%nat.
Proof. destruct (pad16_cases l) as [[-> _]|(k & _ & -> & _)]; [lia|]. rewrite app_length. lia. Qed.
Lemma pad16_length_mod l : Nat.modulo (length (pad16 l)) 16 = 0%nat.
Proof. destruct (pad16_cases l) as [[-> H]|(k & _ & -> & H)]; [exact H|]. now rewrite app_length, zeros_length. Qed.
Lemma pad16_prefix l : firstn (length l) (pad16 l) = l.
Proof.
  destruct (pad16_cases l) as [[-> _]|(k & _ & -> & _)]; [apply firstn_all|].
  rewrite firstn_app, Nat.sub_diag, firstn_all. simpl. apply app_nil_r.
Qed.
Lemma pad16_le l m : (length l <= m)%nat -> Nat.modulo m 16 = 0%nat -> (length (pad16 l) <= m)%nat.
Proof.
  intros Hl Hm. destruct (pad16_cases l) as [[-> _]|(k & Hk & -> & H)]; [lia|].
  rewrite app_length, zeros_length.
  pose proof (Nat.div_mod m 16 ltac:(lia)). pose proof (Nat.div_mod (length l + k) 16 ltac:(lia)).
  destruct (Nat.le_gt_cases (length l + k) m); [assumption|]. exfalso.
  assert ((length l + k) / 16 <= m / 16)%nat by (apply Nat.div_le_mono; lia). nia.
Qed.
Lemma pad16_nonnil l : l <> [] -> pad16 l <> [].
Proof. intros H E. pose proof (pad16_length_ge l). rewrite E in H0. destruct l; [congruence | simpl in H0; lia]. Qed.
Lemma pad16_nth i l : (i < length l)%nat -> nth i (pad16 l) 0%N = nth i l 0%N.
Proof.
  intros Hi. destruct (pad16_cases l) as [[-> _]|(k & _ & -> & _)]; [reflexivity|]. now rewrite app_nth1.
Qed.

Lemma swap8_length b : length b = 16%nat -> length (swap8 b) = 16%nat.
Proof. intros H. unfold swap8. rewrite app_length, !rev_length, firstn_length, skipn_length. lia. Qed.
Lemma swap8_invol b : length b = 16%nat -> swap8 (swap8 b) = b.
Proof.
  intros H. do 17 (destruct b as [|? b]; try discriminate). reflexivity.
Qed.

Lemma be32_length z : length (be32 z) = 4%nat.
Proof. apply be_enc_length. Qed.
Lemma le32_length z : length (le32 z) = 4%nat.
Proof. apply le_enc_length. Qed.

(* ================================================================== OTFAD ============================= *)




Lemma flags_cases f : 0 <= f < 8 -> f = 0 \/ f = 1 \/ f = 2 \/ f = 3 \/ f = 4 \/ f = 5 \/ f = 6 \/ f = 7.
Proof. lia. Qed.

Lemma ef_nonzero k : kb_wf k ->
  kb_end_with_flags k = Z.lor (Z.lor (Z.land (kb_end k - 1) (Z.lnot 7)) (kb_flags k)) 1016.
Proof.
  intros (_ & H0 & _ & H1 & _). unfold kb_end_with_flags.
  destruct (kb_end k =? 0) eqn:E; [apply Z.eqb_eq in E; lia | reflexivity].
Qed.

Lemma ef_shift k : kb_wf k -> Z.shiftr (kb_end_with_flags k) 10 = (kb_end k - 1) / 1024.
Proof.
  intros W. rewrite (ef_nonzero k W). destruct W as (_ & _ & _ & _ & _ & Hf).
  rewrite !Z.shiftr_lor, Z.shiftr_land.
  change (Z.shiftr (Z.lnot 7) 10) with (-1). change (Z.shiftr 1016 10) with 0.
  rewrite Z.land_m1_r, Z.lor_0_r.
  replace (Z.shiftr (kb_flags k) 10) with 0.
  - rewrite Z.lor_0_r. rewrite Z.shiftr_div_pow2 by lia. reflexivity.
  - rewrite Z.shiftr_div_pow2 by lia. symmetry. apply Z.div_small. change (2 ^ 10) with 1024. lia.
Qed.

Lemma ef_bit k n : kb_wf k -> 0 <= n < 3 -> Z.testbit (kb_end_with_flags k) n = Z.testbit (kb_flags k) n.
Proof.
  intros W Hn. rewrite (ef_nonzero k W).
  rewrite !Z.lor_spec, Z.land_spec, Z.lnot_spec by lia.
  assert (n = 0 \/ n = 1 \/ n = 2) as [-> | [-> | ->]] by lia; simpl;
    rewrite andb_false_r, orb_false_r; reflexivity.
Qed.

Lemma ef_range k : kb_wf k -> 0 <= kb_end_with_flags k < 4294967296.
Proof.
  intros W. pose proof (ef_shift k W) as H. rewrite Z.shiftr_div_pow2 in H by lia. change (2 ^ 10) with 1024 in H.
  destruct W as (_ & H0 & _ & H1 & H2 & Hf). lia.
Qed.

Lemma oc_hit_blob k a : kb_wf k -> oc_hit (octx_of_blob k) a = Z.testbit (kb_flags k) 0 && kb_covers k a.
Proof.
  intros W. unfold oc_hit, kb_covers. cbn [octx_of_blob oc_w0 oc_w1].
  rewrite (ef_bit k 0 W) by lia. rewrite (ef_shift k W).
  rewrite !Z.shiftr_div_pow2 by lia. change (2 ^ 10) with 1024. now rewrite andb_assoc.
Qed.

Lemma oc_ade_blob k : kb_wf k -> oc_ade (octx_of_blob k) = Z.testbit (kb_flags k) 1.
Proof. intros W. unfold oc_ade. cbn [octx_of_blob oc_w1]. apply ef_bit; [assumption | lia]. Qed.

Lemma kb_is_encrypted_bits k : kb_wf k -> kb_is_encrypted k = Z.testbit (kb_flags k) 0 && Z.testbit (kb_flags k) 1.
Proof.
  intros (_ & _ & _ & _ & _ & Hf). unfold kb_is_encrypted.
  destruct (flags_cases _ Hf) as [E|[E|[E|[E|[E|[E|[E|E]]]]]]]; rewrite E; reflexivity.
Qed.

Lemma kb_covers_unit k a a' : a' / 1024 = a / 1024 -> kb_covers k a' = kb_covers k a.
Proof. intros H. unfold kb_covers. now rewrite H. Qed.

(* SPSDK's test on a piece inside one 1 KiB unit is the hardware's region test *)
Lemma kb_matches_covers k a L :
  kb_wf k -> 0 <= a -> 1 <= L -> a mod 1024 + L <= 1024 ->
  kb_matches k a (a + L - 1) = kb_covers k a.
Proof.
  intros (_ & H0 & H1 & H2 & H3 & _) Ha HL Hin.
  unfold kb_matches, kb_contains, kb_covers. rewrite lor_1023.
  apply eq_true_iff_eq. rewrite !andb_true_iff, !Z.leb_le. lia.
Qed.

Lemma blob_fold_nomatch {B} (M : B -> bool) enc L l r :
  (forall k, In k l -> M k = false) -> blob_fold M enc L l r = Ok r.
Proof.
  induction l as [|k l IH]; intros H; [reflexivity|].
  cbn [blob_fold]. rewrite (H k (or_introl eq_refl)). apply IH. intros k' Hk'. apply H. now right.
Qed.

Lemma otfad_piece_sel (E : cipher) blobs swap a p :
  Forall kb_wf blobs -> blobs_disjoint blobs -> 0 <= a -> p <> [] -> a mod 1024 + zlen p <= 1024 ->
  otfad_piece E blobs swap a p =
  match find (fun k => kb_covers k a) blobs with
  | Some k => if kb_is_encrypted k then kb_encrypt_image E k a p swap a else Ok p
  | None => Ok p
  end.
Proof.
  intros W D Ha Hp Hin. unfold otfad_piece.
  assert (HL : 1 <= zlen p) by (unfold zlen; destruct p; [congruence | simpl length; lia]).
  assert (Gen : forall r, blob_fold (fun k => kb_matches k a (a + zlen p - 1) && kb_is_encrypted k)
                  (fun k => kb_encrypt_image E k a p swap a) (length p) blobs r =
                match find (fun k => kb_covers k a) blobs with
                | Some k => if kb_is_encrypted k
                            then match kb_encrypt_image E k a p swap a with Ok d => Ok (d ++ skipn (length p) r) | Err e => Err e end
                            else Ok r
                | None => Ok r
                end).
  { induction blobs as [|k l IH]; intros r; [reflexivity|].
    inversion W as [|? ? Wk Wl]; subst. inversion D as [|? ? Dk Dl]; subst.
    cbn [blob_fold find].
    rewrite (kb_matches_covers k a (zlen p) Wk Ha HL Hin).
    destruct (kb_covers k a) eqn:Ec.
    - assert (Hno : forall k', In k' l -> kb_matches k' a (a + zlen p - 1) && kb_is_encrypted k' = false).
      { intros k' Hk'. rewrite Forall_forall in Dk, Wl.
        rewrite (kb_matches_covers k' a (zlen p) (Wl _ Hk') Ha HL Hin).
        now rewrite (Dk k' Hk' a Ec). }
      cbn [andb]. destruct (kb_is_encrypted k).
      + destruct (kb_encrypt_image E k a p swap a); [|reflexivity]. now apply blob_fold_nomatch.
      + now apply blob_fold_nomatch.
    - cbn [andb]. now apply IH. }
  rewrite Gen. destruct (find (fun k => kb_covers k a) blobs) as [k|]; [|reflexivity].
  destruct (kb_is_encrypted k); [|reflexivity].
  destruct (kb_encrypt_image E k a p swap a); [|reflexivity].
  now rewrite skipn_all, app_nil_r.
Qed.

(* what the hardware does to one 16-byte block inside the region of blob k *)
Definition hwk (E : cipher) (k : kblob) (swap : bool) (a : Z) (c : list N) : list N :=
  let ks := E (kb_key k) (oc_counter (octx_of_blob k) a) in
  if swap then swap8 (xor_bytes (swap8 c) ks) else xor_bytes c ks.

Lemma find_hit_none l a : Forall kb_wf l -> (forall k, In k l -> kb_covers k a = false) ->
  find (fun x => oc_hit x a) (map octx_of_blob l) = None.
Proof.
  induction l as [|k l IH]; intros W H; [reflexivity|]. inversion W; subst.
  cbn [map find]. rewrite oc_hit_blob by assumption. rewrite (H k (or_introl eq_refl)), andb_false_r.
  apply IH; [assumption|]. intros k' Hk'. apply H. now right.
Qed.

Lemma otfad_hw_block_sel (E : cipher) blobs swap a c :
  Forall kb_wf blobs -> blobs_disjoint blobs ->
  otfad_hw_block E (map octx_of_blob blobs) swap a c =
  match find (fun k => kb_covers k a) blobs with
  | Some k => if kb_is_encrypted k then hwk E k swap a c else c
  | None => c
  end.
Proof.
  intros W D. unfold otfad_hw_block.
  induction blobs as [|k l IH]; [reflexivity|].
  inversion W as [|? ? Wk Wl]; subst. inversion D as [|? ? Dk Dl]; subst.
  cbn [map find]. rewrite oc_hit_blob by assumption.
  destruct (kb_covers k a) eqn:Ec.
  - rewrite (kb_is_encrypted_bits k Wk).
    destruct (Z.testbit (kb_flags k) 0) eqn:E0; cbn [andb].
    + rewrite (oc_ade_blob k Wk). destruct (Z.testbit (kb_flags k) 1); reflexivity.
    + rewrite find_hit_none; [reflexivity | assumption|].
      intros k' Hk'. rewrite Forall_forall in Dk. now apply Dk.
  - rewrite andb_false_r. now apply IH.
Qed.

Lemma find_covers_unit l a a' : a' / 1024 = a / 1024 ->
  find (fun k => kb_covers k a') l = find (fun k => kb_covers k a) l.
Proof.
  intros H. induction l as [|k l IH]; [reflexivity|]. cbn [find]. rewrite (kb_covers_unit k a a' H).
  destruct (kb_covers k a); [reflexivity | exact IH].
Qed.

Section OtfadImage.
Variable E : cipher.

Lemma kb_counter_eq k a : length (kb_ctr k) = 8%nat -> a mod 16 = 0 ->
  oc_counter (octx_of_blob k) a = kb_nonce12 (kb_ctr k) ++ be32 a /\ length (oc_counter (octx_of_blob k) a) = 16%nat.
Proof.
  intros Hc Ha. unfold oc_counter, kb_nonce12. cbn [octx_of_blob oc_ctr].
  replace (16 * (a / 16)) with a by lia. split.
  - rewrite <- !app_assoc. rewrite (app_assoc (firstn 4 (kb_ctr k))), firstn_skipn. reflexivity.
  - rewrite !app_length, xor_bytes_length_min, firstn_length, skipn_length, be32_length, Hc. reflexivity.
Qed.

Lemma kb_block_inverse k swap a b :
  (forall x, length x = 16%nat -> length (E (kb_key k) x) = 16%nat) ->
  length (kb_ctr k) = 8%nat -> a mod 16 = 0 -> length b = 16%nat ->
  length (kb_block (E (kb_key k)) (kb_nonce12 (kb_ctr k)) swap a b) = 16%nat /\
  hwk E k swap a (kb_block (E (kb_key k)) (kb_nonce12 (kb_ctr k)) swap a b) = b.
Proof.
  intros E_len Hc Ha Hb. destruct (kb_counter_eq k a Hc Ha) as [Eq Len].
  unfold hwk, kb_block. rewrite Eq. rewrite Eq in Len.
  set (ks := E (kb_key k) (kb_nonce12 (kb_ctr k) ++ be32 a)).
  assert (Hks : length ks = 16%nat) by (apply E_len; exact Len).
  destruct swap.
  - assert (L1 : length (xor_bytes (swap8 b) ks) = 16%nat)
      by (rewrite xor_bytes_length_min, swap8_length, Hks; auto).
    split; [now apply swap8_length|].
    rewrite swap8_invol by assumption. rewrite xor_bytes_cancel by (rewrite swap8_length, Hks; auto).
    now apply swap8_invol.
  - split; [rewrite xor_bytes_length_min, Hb, Hks; reflexivity|].
    apply xor_bytes_cancel. rewrite Hb, Hks. auto.
Qed.

Variable blobs : list kblob.
Variable swap : bool.
(* the block cipher maps 16-byte blocks to 16-byte blocks under the keys in use (no invertibility needed: CTR) *)
Hypothesis E_len : forall k, In k blobs -> forall x, length x = 16%nat -> length (E (kb_key k) x) = 16%nat.
Hypothesis W : Forall kb_wf blobs.
Hypothesis Dj : blobs_disjoint blobs.

Definition otfad_hu (a : Z) (c : list N) : list N :=
  concat (pieces (otfad_hw_block E (map octx_of_blob blobs) swap) 16 a c).

Lemma otfad_hu_sel a c : 0 <= a -> a mod 1024 + zlen c <= 1024 ->
  otfad_hu a c =
  match find (fun k => kb_covers k a) blobs with
  | Some k => if kb_is_encrypted k then concat (pieces (hwk E k swap) 16 a c) else c
  | None => c
  end.
Proof.
  intros Ha Hin. unfold otfad_hu.
  assert (Hr : forall a' b, a <= a' < a + zlen c ->
            otfad_hw_block E (map octx_of_blob blobs) swap a' b =
            match find (fun k => kb_covers k a) blobs with
            | Some k => if kb_is_encrypted k then hwk E k swap a' b else b
            | None => b
            end).
  { intros a' b Hr. rewrite otfad_hw_block_sel by assumption.
    rewrite (find_covers_unit blobs a a'); [reflexivity|]. lia. }
  rewrite (pieces_ext_range _ _ 16 a c Hr).
  destruct (find (fun k => kb_covers k a) blobs) as [k|].
  - destruct (kb_is_encrypted k); [reflexivity|]. apply concat_pieces_id. lia.
  - apply concat_pieces_id. lia.
Qed.

Lemma grid_piece_id a p : p <> [] -> a mod 1024 + zlen p <= 1024 -> otfad_hu a p = p ->
  grid_piece (otfad_hw_block E (map octx_of_blob blobs) swap) 1024 (otfad_outside blobs) a p p.
Proof.
  intros Hp Hin Hh. unfold grid_piece, ghu. fold (otfad_hu a p). rewrite Hh.
  repeat split; try lia; auto. apply firstn_all.
Qed.

Lemma otfad_piece_ok a p :
  0 <= a -> a mod 16 = 0 -> p <> [] -> a mod 1024 + zlen p <= 1024 ->
  exists c, otfad_piece E blobs swap a p = Ok c /\
            grid_piece (otfad_hw_block E (map octx_of_blob blobs) swap) 1024 (otfad_outside blobs) a p c.
Proof.
  intros Ha H16 Hp Hin.
  rewrite (otfad_piece_sel E blobs swap a p W Dj Ha Hp Hin).
  destruct (find (fun k => kb_covers k a) blobs) as [k|] eqn:Ef.
  2:{ exists p. split; [reflexivity|]. apply grid_piece_id; try assumption.
      rewrite otfad_hu_sel by assumption. now rewrite Ef. }
  destruct (kb_is_encrypted k) eqn:Ee.
  2:{ exists p. split; [reflexivity|]. apply grid_piece_id; try assumption.
      rewrite otfad_hu_sel by assumption. now rewrite Ef, Ee. }
  destruct (find_some _ _ Ef) as [Hin' Hcov].
  pose proof (proj1 (Forall_forall _ _) W k Hin') as Wk.
  destruct Wk as (Hc & H0 & H1 & H2 & H3 & H5).
  set (d := pad16 p).
  assert (Hd1 : (length p <= length d)%nat) by apply pad16_length_ge.
  assert (Hd2 : (length d <= Z.to_nat (1024 - a mod 1024))%nat).
  { apply pad16_le; [unfold zlen in Hin; lia|].
    apply Nat2Z.inj. rewrite Nat2Z.inj_mod, Z2Nat.id by lia. change (Z.of_nat 16) with 16. change (Z.of_nat 0) with 0. lia. }
  assert (Hd3 : Nat.modulo (length d) 16 = 0%nat) by apply pad16_length_mod.
  assert (Hd4 : a mod 1024 + zlen d <= 1024) by (unfold zlen; lia).
  destruct (mod_mult_exists _ 16 ltac:(lia) Hd3) as [q Hq].
  unfold kb_covers in Hcov. apply andb_true_iff in Hcov. destruct Hcov as [Hc1 Hc2].
  apply Z.leb_le in Hc1, Hc2.
  assert (Ecv : (if a =? 0 then kb_start k else a) = a).
  { destruct (a =? 0) eqn:E0; [|reflexivity]. apply Z.eqb_eq in E0. lia. }
  assert (Henc : kb_encrypt_image E k a p swap a =
                 Ok (concat (pieces (kb_block (E (kb_key k)) (kb_nonce12 (kb_ctr k)) swap) 16 a d))).
  { unfold kb_encrypt_image. fold d.
    replace (a mod 16 =? 0) with true by (symmetry; apply Z.eqb_eq; lia).
    rewrite Hc. cbn [Nat.eqb negb]. rewrite Ecv. reflexivity. }
  rewrite Henc. eexists. split; [reflexivity|].
  destruct (pieces_inverse (kb_block (E (kb_key k)) (kb_nonce12 (kb_ctr k)) swap) (hwk E k swap) 16 q a d
              ltac:(lia) Hq) as [Inv Len].
  { intros j b Hj Hb. apply kb_block_inverse; [now apply E_len | assumption | lia | assumption]. }
  set (c := concat (pieces (kb_block (E (kb_key k)) (kb_nonce12 (kb_ctr k)) swap) 16 a d)) in *.
  assert (Hzc : zlen c = zlen d) by (unfold zlen; now rewrite Len).
  assert (Hh : otfad_hu a c = d).
  { rewrite otfad_hu_sel by (try assumption; lia). rewrite Ef, Ee. exact Inv. }
  unfold grid_piece, ghu. fold (otfad_hu a c). rewrite Hh, Len. repeat split; try lia.
  - intros Hm. unfold d. destruct (pad16_cases p) as [[-> _]|(kk & Hkk & _ & Hmm)]; [reflexivity|].
    exfalso. rewrite Nat.add_mod, Hm, Nat.add_0_l, Nat.mod_mod, Nat.mod_small in Hmm by lia. lia.
  - apply pad16_prefix.
  - intros i Hi HQ. exfalso.
    assert (Hcv : kb_covers k (a + Z.of_nat i) = true).
    { rewrite (kb_covers_unit k a) by (unfold zlen in Hin; lia). unfold kb_covers. apply andb_true_iff. split; now apply Z.leb_le. }
    rewrite (HQ k Hin' Hcv) in Ee. discriminate.
Qed.

(* the whole image, every 16-byte aligned base *)
Lemma otfad_decrypts_l img base :
  0 <= base -> base mod 16 = 0 ->
  exists out, otfad_encrypt_image E blobs img base swap = Ok out /\
              (length img <= length out)%nat /\
              firstn (length img) (otfad_hw E (map octx_of_blob blobs) swap base out) = img /\
              (forall i, (i < length img)%nat -> otfad_outside blobs (base + Z.of_nat i) -> nth i out 0%N = nth i img 0%N).
Proof.
  intros Hb H16.
  destruct (grid_roundtrip (otfad_piece E blobs swap) (otfad_hw_block E (map octx_of_blob blobs) swap) 1024 64 eq_refl
              ltac:(lia) (otfad_outside blobs) (fun _ => True) ltac:(auto) ltac:(auto)) with (base := base) (data := img)
    as (out & Ho & R); try assumption; try exact I.
  - intros a p A1 A2 Hp Hin _. now apply otfad_piece_ok.
  - exists out. split; [exact Ho | exact R].
Qed.
End OtfadImage.

(* ================================================================== list surgery helpers =============== *)
Lemma firstn_app_exact {A} n (a b : list A) : length a = n -> firstn n (a ++ b) = a.
Proof. intros <-. rewrite firstn_app, Nat.sub_diag, firstn_all. simpl. apply app_nil_r. Qed.
Lemma skipn_app_exact {A} n (a b : list A) : length a = n -> skipn n (a ++ b) = b.
Proof. intros <-. rewrite skipn_app, Nat.sub_diag, skipn_all. reflexivity. Qed.

Lemma le32_dec z : 0 <= z < 4294967296 -> Z.of_N (le_dec (le32 z)) = z.
Proof.
  intros H. unfold le32. rewrite le_dec_enc_small; [lia|]. change (2 ^ (8 * N.of_nat 4))%N with 4294967296%N. lia.
Qed.

Lemma swap_groups_invol48 cnt l : In cnt [2; 4; 8; 16]%nat -> length l = 48%nat -> swap_groups cnt (swap_groups cnt l) = l.
Proof.
  intros Hc Hl. do 49 (destruct l as [|? l]; try discriminate).
  destruct Hc as [<-|[<-|[<-|[<-|[]]]]]; reflexivity.
Qed.
Lemma swap_groups_length48 cnt l : In cnt [2; 4; 8; 16]%nat -> length l = 48%nat -> length (swap_groups cnt l) = 48%nat.
Proof.
  intros Hc Hl. do 49 (destruct l as [|? l]; try discriminate).
  destruct Hc as [<-|[<-|[<-|[<-|[]]]]]; reflexivity.
Qed.

Lemma rnd4_wf : wf_bytes (rnd 4) /\ length (rnd 4) = 4%nat.
Proof. split; [|reflexivity]. unfold wf_bytes, wf_byte. repeat constructor. Qed.

(* ================================================================== OTFAD key blob ===================== *)

Lemma kb_plain_shape k : kb_codec_wf k ->
  exists zf, length zf = 4%nat /\ wf_bytes zf /\
    let hdr := kb_key k ++ kb_ctr k ++ le32 (kb_start k) ++ le32 (kb_end_with_flags k) in
    kb_plain k = Ok (hdr ++ zf ++ le_enc 4 (crc CRC32_MPEG2 hdr) ++ zeros 24) /\ length hdr = 32%nat.
Proof.
  intros (W & Lk & Wk & Wc & Hz & Hcf).
  pose proof (ef_range k W) as He. destruct W as (Lc & H0 & H1 & H2 & H3 & H5).
  assert (Lh : length (kb_key k ++ kb_ctr k ++ le32 (kb_start k) ++ le32 (kb_end_with_flags k)) = 32%nat)
    by (rewrite !app_length, !le32_length, Lk, Lc; reflexivity).
  assert (U : negb (u32_ok (kb_start k)) || negb (u32_ok (kb_end_with_flags k)) = false).
  { unfold u32_ok. apply orb_false_iff. split; apply negb_false_iff, andb_true_iff; split;
      try apply Z.leb_le; try apply Z.ltb_lt; lia. }
  assert (L64 : forall h zf c, length h = 32%nat -> length zf = 4%nat ->
                  length (h ++ zf ++ le_enc 4 c ++ zeros 24) = 64%nat).
  { intros h zf c Hh Hzf. rewrite !app_length, Hh, Hzf, le_enc_length, zeros_length. reflexivity. }
  unfold kb_plain. rewrite U, Hcf.
  destruct (kb_zero k) as [|z0 zt] eqn:Ez.
  - exists (rnd 4). destruct rnd4_wf as [R1 R2]. repeat split; try assumption.
    cbv zeta. rewrite L64 by assumption. reflexivity.
  - destruct Hz as [Hz|[Lz Wz]]; [discriminate|].
    exists (z0 :: zt). repeat split; try assumption.
    rewrite Lz. cbn [Nat.eqb negb]. cbv zeta. rewrite L64 by assumption. reflexivity.
Qed.

Section OtfadKeyBlob.
Variable E D : cipher.
Variable kek : list N.
Hypothesis DE : forall b, okb b -> D kek (E kek b) = b.
Hypothesis E_ok : forall b, okb b -> okb (E kek b).

Lemma otfad_keyblob_unwrap_l k cnt :
  kb_codec_wf k -> length kek = 16%nat -> In cnt [0; 2; 4; 8; 16] ->
  exists rec, kb_export E k kek cnt = Ok rec /\ length rec = 64%nat /\
              otfad_unwrap D kek cnt rec = Some (octx_of_blob k).
Proof.
  intros Wc Lkek Hcnt.
  destruct (kb_plain_shape k Wc) as (zf & Lz & Wz & Hp & Lh). cbv zeta in Hp, Lh.
  destruct Wc as (W & Lk & Wk & Wct & _ & _).
  pose proof (ef_range k W) as He. pose proof W as (Lc & H0 & H1 & H2 & H3 & H5).
  set (hdr := kb_key k ++ kb_ctr k ++ le32 (kb_start k) ++ le32 (kb_end_with_flags k)) in *.
  set (crcb := le_enc 4 (crc CRC32_MPEG2 hdr)) in *.
  set (p40 := hdr ++ zf ++ crcb).
  assert (L40 : length p40 = 40%nat) by (unfold p40, crcb; rewrite !app_length, Lh, Lz, le_enc_length; reflexivity).
  assert (F40 : firstn 40 (hdr ++ zf ++ crcb ++ zeros 24) = p40).
  { unfold p40. rewrite (app_assoc zf), (app_assoc hdr). apply firstn_app_exact. exact L40. }
  assert (W40 : wf_bytes p40).
  { unfold p40, hdr, crcb. repeat apply wf_bytes_app; try assumption; apply le_enc_wf. }
  destruct (kw_wrap_length (E kek) E_ok p40 W40 ltac:(rewrite L40; reflexivity)) as [Lw Ww].
  rewrite L40 in Lw. change (8 + 40)%nat with 48%nat in Lw.
  set (wrap := kw_wrap (E kek) p40) in *.
  pose proof (unwrap_wrap_l (E kek) (D kek) DE E_ok p40 W40 ltac:(rewrite L40; reflexivity)) as Hun.
  fold wrap in Hun.
  (* the parsed fields *)
  assert (Hctx : octx_of_plain p40 = octx_of_blob k).
  { unfold octx_of_plain, octx_of_blob, p40, hdr. f_equal.
    - rewrite <- !app_assoc. now apply firstn_app_exact.
    - rewrite <- !app_assoc. rewrite skipn_app_exact by assumption. now apply firstn_app_exact.
    - rewrite <- !app_assoc. rewrite (app_assoc (kb_key k)).
      rewrite skipn_app_exact by (rewrite app_length, Lk, Lc; reflexivity).
      rewrite firstn_app_exact by apply le32_length. apply le32_dec. lia.
    - rewrite <- !app_assoc. rewrite (app_assoc (kb_key k)), (app_assoc (kb_key k ++ kb_ctr k)).
      rewrite skipn_app_exact by (rewrite !app_length, le32_length, Lk, Lc; reflexivity).
      rewrite firstn_app_exact by apply le32_length. now apply le32_dec. }
  assert (Hcrc : eqb_list (firstn 4 (skipn 36 p40)) (le_enc 4 (crc CRC32_MPEG2 (firstn 32 p40))) = true).
  { apply eqb_list_spec. unfold p40.
    rewrite (firstn_app_exact 32) by assumption.
    rewrite (app_assoc hdr). rewrite skipn_app_exact by (rewrite app_length, Lh, Lz; reflexivity).
    apply firstn_all2. unfold crcb. rewrite le_enc_length. lia. }
  unfold kb_export, otfad_unwrap. rewrite Lkek. cbn [Nat.eqb negb]. rewrite Hp, F40. fold wrap.
  assert (Al : forall w, length w = 48%nat -> align_zero 64 w = w ++ zeros 16 /\ firstn 48 (w ++ zeros 16) = w).
  { intros w Hw. unfold align_zero. rewrite Hw. split; [reflexivity | now apply firstn_app_exact]. }
  destruct Hcnt as [<-|Hcnt].
  - cbn [Z.gtb Z.compare]. destruct (Al wrap Lw) as [A1 A2]. rewrite A1. eexists. split; [reflexivity|].
    split; [rewrite app_length, Lw; reflexivity|]. rewrite A2, Hun, Hcrc, Hctx. reflexivity.
  - assert (Hn : In (Z.to_nat cnt) [2; 4; 8; 16]%nat /\ (cnt >? 0) = true).
    { destruct Hcnt as [<-|[<-|[<-|[<-|[]]]]]; simpl; auto 10. }
    destruct Hn as [Hn Hg]. rewrite Hg.
    pose proof (swap_groups_length48 _ wrap Hn Lw) as Ls.
    destruct (Al _ Ls) as [A1 A2]. rewrite A1. eexists. split; [reflexivity|].
    split; [rewrite app_length, Ls; reflexivity|].
    rewrite A2, (swap_groups_invol48 _ wrap Hn Lw), Hun, Hcrc, Hctx. reflexivity.
Qed.
End OtfadKeyBlob.

(* ================================================================== "address only" instances ========== *)
(* cutting the image anywhere on the absolute grid *)
Lemma grid_pieces_app {A} (f : Z -> list N -> A) unit base x y :
  (0 < unit)%nat -> (base + zlen x) mod Z.of_nat unit = 0 ->
  grid_pieces f unit base (x ++ y) = grid_pieces f unit base x ++ grid_pieces f unit (base + zlen x) y.
Proof.
  intros Hu Hcut. set (U := Z.of_nat unit) in *. assert (HU : 0 < U) by (unfold U; lia).
  rewrite (grid_pieces_aligned f unit (base + zlen x) y Hu Hcut).
  set (m := (- base) mod U).
  pose proof (Z.mod_pos_bound (- base) U HU) as Hm. fold m in Hm.
  pose proof (neg_mod_aligns base U HU) as Hal. fold m in Hal.
  pose proof (zlen_nonneg x) as Hx0.
  assert (Hdiv : (U | zlen x - m)).
  { replace (zlen x - m) with ((base + zlen x) - (base + m)) by lia.
    apply Z.divide_sub_r; apply Z.mod_divide; try lia; assumption. }
  destruct Hdiv as [z Hz].
  assert (Hz0 : 0 <= z) by nia.
  assert (Hxm : zlen x = m + Z.of_nat (Z.to_nat z * unit)) by (rewrite Nat2Z.inj_mul, Z2Nat.id by lia; fold U; lia).
  unfold grid_pieces, grid_first. fold U. fold m.
  rewrite zlen_app. pose proof (zlen_nonneg y) as Hy0.
  rewrite !Z.min_r by lia.
  assert (Hmx : (Z.to_nat m <= length x)%nat) by (unfold zlen in Hxm; lia).
  rewrite firstn_app, skipn_app. replace (Z.to_nat m - length x)%nat with 0%nat by lia.
  cbn [firstn skipn]. rewrite app_nil_r.
  rewrite <- app_assoc. f_equal.
  rewrite (pieces_app f unit (Z.to_nat z)); try assumption.
  - f_equal. f_equal. rewrite Z2Nat.id by lia. unfold zlen. rewrite skipn_length.
    unfold zlen in Hxm. lia.
  - rewrite skipn_length. unfold zlen in Hxm. lia.
Qed.

Lemma grid_address_only_l (g : Z -> list N -> res (list N)) unit base x y :
  (0 < unit)%nat -> (base + zlen x) mod Z.of_nat unit = 0 ->
  seq_concat (grid_pieces g unit base (x ++ y)) =
  match seq_concat (grid_pieces g unit base x) with
  | Ok cx => match seq_concat (grid_pieces g unit (base + zlen x) y) with Ok cy => Ok (cx ++ cy) | Err k => Err k end
  | Err k => Err k
  end.
Proof. intros Hu Hcut. rewrite grid_pieces_app by assumption. apply seq_concat_app. Qed.

Lemma otfad_address_only_l (E : cipher) blobs swap base x y :
  (base + zlen x) mod 1024 = 0 ->
  otfad_encrypt_image E blobs (x ++ y) base swap =
  match otfad_encrypt_image E blobs x base swap with
  | Ok cx => match otfad_encrypt_image E blobs y (base + zlen x) swap with Ok cy => Ok (cx ++ cy) | Err k => Err k end
  | Err k => Err k
  end.
Proof. intros H. unfold otfad_encrypt_image, U1K. apply (grid_address_only_l _ 1024); [lia | exact H]. Qed.

Lemma otfad_hw_block_outside (E : cipher) blobs swap a c :
  Forall kb_wf blobs -> blobs_disjoint blobs -> otfad_outside blobs a ->
  otfad_hw_block E (map octx_of_blob blobs) swap a c = c.
Proof.
  intros W D HQ. rewrite otfad_hw_block_sel by assumption.
  destruct (find (fun k => kb_covers k a) blobs) as [k|] eqn:Ef; [|reflexivity].
  destruct (find_some _ _ Ef) as [Hin Hc]. now rewrite (HQ k Hin Hc).
Qed.

Lemma otfad_keyblob_unwrap_full (E D : cipher) kek k cnt :
  (forall b, okb b -> D kek (E kek b) = b) -> (forall b, okb b -> okb (E kek b)) ->
  kb_codec_wf k -> length kek = 16%nat -> In cnt [0; 2; 4; 8; 16] ->
  exists rec c, kb_export E k kek cnt = Ok rec /\ length rec = 64%nat /\ otfad_unwrap D kek cnt rec = Some c /\
                oc_key c = kb_key k /\ oc_ctr c = kb_ctr k /\ oc_w0 c = kb_start k /\
                Z.shiftr (oc_w1 c) 10 = (kb_end k - 1) / 1024 /\
                (forall n, 0 <= n < 3 -> Z.testbit (oc_w1 c) n = Z.testbit (kb_flags k) n).
Proof.
  intros DE Eok Wc Lk Hc.
  destruct (otfad_keyblob_unwrap_l E D kek DE Eok k cnt Wc Lk Hc) as (rec & H1 & H2 & H3).
  exists rec, (octx_of_blob k). destruct Wc as (W & _).
  repeat split; try assumption; try reflexivity.
  - now apply ef_shift.
  - intros n Hn. now apply ef_bit.
Qed.

(* ================================================================== integer codecs =================== *)
Local Open Scope N_scope.
Lemma le_dec_app a b : le_dec (a ++ b) = le_dec a + 2 ^ (8 * N.of_nat (length a)) * le_dec b.
Proof.
  induction a as [|x a IH]; [cbn [app le_dec length N.of_nat]; rewrite N.mul_0_r; change (2 ^ 0) with 1; lia|].
  cbn [app le_dec length]. rewrite IH.
  replace (8 * N.of_nat (S (length a))) with (8 + 8 * N.of_nat (length a)) by lia.
  rewrite N.pow_add_r. change (2 ^ 8) with 256. lia.
Qed.

Lemma le_enc_add_high w a b : le_enc w (a + 2 ^ (8 * N.of_nat w) * b) = le_enc w a.
Proof.
  revert a b. induction w as [|w IH]; intros a b; [reflexivity|].
  cbn [le_enc].
  replace (8 * N.of_nat (S w)) with (8 + 8 * N.of_nat w) by lia.
  rewrite N.pow_add_r. change (2 ^ 8) with 256.
  replace (a + 256 * 2 ^ (8 * N.of_nat w) * b) with (a + (2 ^ (8 * N.of_nat w) * b) * 256) by lia.
  rewrite N.mod_add by lia. rewrite N.div_add by lia. now rewrite IH.
Qed.

Lemma le_enc_app w1 w2 n : le_enc (w1 + w2) n = le_enc w1 n ++ le_enc w2 (n / 2 ^ (8 * N.of_nat w1)).
Proof.
  revert n. induction w1 as [|w1 IH]; intros n.
  - simpl. now rewrite N.div_1_r.
  - cbn [plus le_enc app]. rewrite IH. f_equal. f_equal.
    replace (8 * N.of_nat (S w1)) with (8 + 8 * N.of_nat w1) by lia.
    rewrite N.pow_add_r. change (2 ^ 8) with 256. now rewrite N.div_div by (try apply N.pow_nonzero; lia).
Qed.

(* the 128-bit big-endian increment of `cryptography` only touches the low word while it does not wrap *)
Lemma inc_be_low x m : length x = 12%nat -> wf_bytes x -> m + 1 < 4294967296 ->
  inc_be (x ++ be_enc 4 m) = x ++ be_enc 4 (m + 1).
Proof.
  intros Lx Wx Hm. unfold inc_be. rewrite app_length, be_enc_length, Lx.
  change (12 + 4)%nat with (4 + 12)%nat.
  unfold be_enc at 1, be_dec. rewrite rev_app_distr. unfold be_enc at 1. rewrite rev_involutive.
  rewrite le_dec_app, le_enc_length.
  rewrite le_dec_enc_small by (change (2 ^ (8 * N.of_nat 4)) with 4294967296; lia).
  change (2 ^ (8 * N.of_nat 4)) with 4294967296.
  rewrite le_enc_app. rewrite rev_app_distr.
  change (2 ^ (8 * N.of_nat 4)) with 4294967296.
  replace (m + 4294967296 * le_dec (rev x) + 1) with ((m + 1) + 4294967296 * le_dec (rev x)) by lia.
  f_equal.
  - replace ((m + 1 + 4294967296 * le_dec (rev x)) / 4294967296) with (le_dec (rev x)).
    + change (le_dec (rev x)) with (be_dec x). change (rev (le_enc 12 (be_dec x))) with (be_enc 12 (be_dec x)).
      rewrite <- Lx. now apply be_enc_dec.
    + rewrite N.mul_comm, N.div_add by lia. rewrite N.div_small by lia. reflexivity.
  - change 4294967296 with (2 ^ (8 * N.of_nat 4)). rewrite le_enc_add_high. reflexivity.
Qed.
Local Close Scope N_scope.

Lemma be32_mod x : 0 <= x -> be32 (x mod M32) = be32 x.
Proof.
  intros Hx. unfold be32, be_enc. f_equal.
  rewrite (Z.div_mod x M32) at 2 by (unfold M32; lia).
  assert (H1 : 0 <= x mod M32) by (apply Z.mod_pos_bound; unfold M32; lia).
  assert (H2 : 0 <= x / M32) by (apply Z.div_pos; unfold M32; lia).
  replace (Z.to_N (M32 * (x / M32) + x mod M32)) with (Z.to_N (x mod M32) + 2 ^ (8 * N.of_nat 4) * Z.to_N (x / M32))%N.
  - now rewrite le_enc_add_high.
  - change (2 ^ (8 * N.of_nat 4))%N with 4294967296%N. unfold M32 in *. lia.
Qed.


(* ================================================================== IEE =============================== *)
Lemma blob_fold_sel {B} (M C : B -> bool) (enc : B -> res (list N)) L (blobs : list B) r :
  (forall k, In k blobs -> M k = C k) ->
  ForallOrdPairs (fun k1 k2 => C k1 = true -> C k2 = false) blobs ->
  blob_fold M enc L blobs r =
  match find C blobs with
  | Some k => match enc k with Ok d => Ok (d ++ skipn L r) | Err e => Err e end
  | None => Ok r
  end.
Proof.
  revert r. induction blobs as [|k l IH]; intros r HM D; [reflexivity|].
  inversion D as [|? ? Dk Dl]; subst. cbn [blob_fold find].
  rewrite (HM k (or_introl eq_refl)). destruct (C k) eqn:Ec.
  - destruct (enc k); [|reflexivity]. apply blob_fold_nomatch.
    intros k' Hk'. rewrite (HM k' (or_intror Hk')). rewrite Forall_forall in Dk. now apply Dk.
  - apply IH; [|assumption]. intros k' Hk'. apply HM. now right.
Qed.

Lemma word_rev_fuel fuel l : concat (map (@rev N) (chunks_fuel fuel 4 l)) = rev_longs_fuel fuel l.
Proof.
  revert l. induction fuel as [|f IH]; intros l; [reflexivity|].
  cbn [chunks_fuel rev_longs_fuel]. destruct l as [|b l]; [reflexivity|].
  cbn [map concat]. now rewrite IH.
Qed.
Lemma reverse_bytes_in_longs_word_rev l : Nat.modulo (length l) 4 = 0%nat -> reverse_bytes_in_longs l = Ok (word_rev l).
Proof.
  intros H. unfold reverse_bytes_in_longs, word_rev, chunks. rewrite H. cbn [Nat.eqb]. now rewrite word_rev_fuel.
Qed.

Lemma walk_shift {A} (f : Z -> list N -> A) u fuel delta : forall a d,
  walk f u fuel (a + delta) d = walk (fun x => f (x + delta)) u fuel a d.
Proof.
  induction fuel as [|fu IH]; intros a d; [reflexivity|].
  cbn [walk]. destruct d as [|b d]; [reflexivity|]. f_equal.
  rewrite <- IH. f_equal. lia.
Qed.
Lemma pieces_shift {A} (f : Z -> list N -> A) u delta a d :
  pieces f u (a + delta) d = pieces (fun x => f (x + delta)) u a d.
Proof. apply walk_shift. Qed.

Lemma ib_matches_covers b a L : ib_wf b -> a mod 4096 = 0 -> 1 <= L <= 4096 ->
  ib_matches b a (a + L) = ib_covers b a.
Proof.
  intros (H0 & H1 & H2 & H3 & H4 & _) Ha HL. unfold ib_matches, ib_contains, ib_covers.
  apply eq_true_iff_eq. rewrite !andb_true_iff, !Z.leb_le, Z.ltb_lt. lia.
Qed.

Lemma find_map {A B} (f : A -> B) (P : B -> bool) l : find P (map f l) = option_map f (find (fun x => P (f x)) l).
Proof. induction l as [|x l IH]; [reflexivity|]. cbn [map find]. destruct (P (f x)); [reflexivity | exact IH]. Qed.

Lemma okblock_okb x : okblock x <-> okb x.
Proof. reflexivity. Qed.

Lemma pad16_wf p : wf_bytes p -> wf_bytes (pad16 p).
Proof.
  intros W. destruct (pad16_cases p) as [[-> _]|(k & _ & -> & _)]; [assumption|].
  apply wf_bytes_app; [assumption|]. unfold wf_bytes, zeros. apply Forall_forall. intros x Hx.
  apply repeat_spec in Hx. subst. unfold wf_byte. lia.
Qed.

Lemma le_enc16_okb n : okb (le_enc 16 n).
Proof. split; [apply le_enc_length | apply le_enc_wf]. Qed.

Lemma iblobs_disjoint_at blobs a : iblobs_disjoint blobs ->
  ForallOrdPairs (fun b1 b2 => ib_covers b1 a = true -> ib_covers b2 a = false) blobs.
Proof.
  induction 1 as [|b l Hb Hl IH]; constructor; [|assumption].
  eapply Forall_impl; [|exact Hb]. intros b2 H. apply H.
Qed.

Section IeeImage.
Variable E D : cipher.
Variable blobs : list iblob.
Hypothesis W : Forall ib_wf blobs.
Hypothesis Dj : iblobs_disjoint blobs.
Hypothesis CO : Forall (ib_cipher_ok E D) blobs.

Definition iee_hu := iee_hw_unit E D (map ictx_of_blob blobs).

Lemma iee_piece_sel a p : a mod 4096 = 0 -> p <> [] -> (length p <= 4096)%nat ->
  iee_piece E blobs a p =
  match find (fun b => ib_covers b a) blobs with
  | Some b => ib_encrypt_image E b a p
  | None => Ok p
  end.
Proof.
  intros Ha Hp Hl. unfold iee_piece.
  assert (HL : 1 <= zlen p <= 4096) by (unfold zlen; destruct p; [congruence | simpl length in *; lia]).
  rewrite (blob_fold_sel _ (fun b => ib_covers b a)).
  - destruct (find (fun b => ib_covers b a) blobs) as [b|]; [|reflexivity].
    destruct (ib_encrypt_image E b a p); [|reflexivity]. now rewrite skipn_all, app_nil_r.
  - intros b Hb. rewrite Forall_forall in W. now apply ib_matches_covers; [apply W| |].
  - now apply iblobs_disjoint_at.
Qed.

Lemma iee_hu_sel a c :
  iee_hu a c =
  match find (fun b => ib_covers b a) blobs with
  | Some b => iee_hw_unit E D [ictx_of_blob b] a c
  | None => c
  end.
Proof.
  unfold iee_hu, iee_hw_unit. rewrite find_map. cbn [find].
  change (fun x : iblob => ic_hit (ictx_of_blob x) a) with (fun b => ib_covers b a).
  destruct (find (fun b => ib_covers b a) blobs) as [b|] eqn:Ef; [|reflexivity].
  cbn [option_map]. destruct (find_some _ _ Ef) as [_ Hc].
  change (ic_hit (ictx_of_blob b) a) with (ib_covers b a). now rewrite Hc.
Qed.

(* XTS sector *)
Lemma iee_xts_piece b a p :
  In b blobs -> ib_mode b = MODE_XTS -> 0 <= a -> a mod 4096 = 0 -> ib_covers b a = true ->
  p <> [] -> (length p <= 4096)%nat -> wf_bytes p ->
  exists c, ib_encrypt_image E b a p = Ok c /\ length c = length (pad16 p) /\
            iee_hw_unit E D [ictx_of_blob b] a c = pad16 p.
Proof.
  intros Hin Hm Ha Hal Hcov Hp Hl Wp.
  rewrite Forall_forall in W, CO. pose proof (W b Hin) as (H0 & H1 & H2 & H3 & H4 & K1 & K2 & _).
  pose proof (CO b Hin) as Hco. unfold ib_cipher_ok in Hco. rewrite Hm, Z.eqb_refl in Hco.
  destruct Hco as (DE & E1 & E2).
  set (d := pad16 p).
  assert (Hd0 : d <> []) by now apply pad16_nonnil.
  assert (Hd2 : (length d <= 4096)%nat) by (apply pad16_le; [assumption | reflexivity]).
  assert (Hd3 : Nat.modulo (length d) 16 = 0%nat) by apply pad16_length_mod.
  assert (Hd4 : (16 <= length d)%nat).
  { destruct (mod_mult_exists _ 16 ltac:(lia) Hd3) as [q Hq]. destruct q; [|lia].
    destruct d; [congruence | simpl in Hq; lia]. }
  assert (Wd : wf_bytes d) by now apply pad16_wf.
  assert (Htw : iee_tweak a = le_enc 16 (Z.to_N (a / 4096))).
  { unfold iee_tweak. rewrite Z.shiftr_div_pow2 by lia. reflexivity. }
  assert (Hokt : okb (E (word_rev (ib_key2 b)) (le_enc 16 (Z.to_N (a / 4096))))) by (apply E2, le_enc16_okb).
  unfold ib_encrypt_image.
  replace (a mod 16 =? 0) with true by (symmetry; apply Z.eqb_eq; lia). cbn [negb]. fold d.
  assert (Hbp : (ib_mode b =? MODE_BYPASS) = false) by (rewrite Hm; reflexivity). rewrite Hbp.
  assert (Hctr : mode_is_ctr (ib_mode b) = false) by (rewrite Hm; reflexivity). rewrite Hctr.
  unfold ib_encrypt_xts. rewrite !reverse_bytes_in_longs_word_rev by assumption.
  rewrite pieces_single by (unfold U4K; try assumption; lia). cbn [concat]. rewrite app_nil_r, Htw.
  eexists. split; [reflexivity|]. split.
  - apply (xts_enc_length (E (word_rev (ib_key1 b))) E1); assumption.
  - unfold iee_hw_unit. cbn [find]. change (ic_hit (ictx_of_blob b) a) with (ib_covers b a). rewrite Hcov.
    cbn [ictx_of_blob ic_mode ic_key1 ic_key2]. rewrite Hm, Z.eqb_refl.
    apply (xts_dec_enc_l (E (word_rev (ib_key1 b))) (D (word_rev (ib_key1 b))) DE E1); assumption.
Qed.
(* AES-CTR with address binding; the 32-bit counter word wraps on both sides *)
Lemma iee_ctr_piece b a p :
  In b blobs -> ib_mode b = MODE_CTR_ADDR -> 0 <= a -> a mod 4096 = 0 -> ib_covers b a = true ->
  p <> [] -> (length p <= 4096)%nat ->
  exists c, ib_encrypt_image E b a p = Ok c /\ length c = length (pad16 p) /\
            iee_hw_unit E D [ictx_of_blob b] a c = pad16 p.
Proof.
  intros Hin Hm Ha Hal Hcov Hp Hl.
  rewrite Forall_forall in W, CO. pose proof (W b Hin) as (H0 & H1 & H2 & H3 & H4 & K1 & K2 & Hmode).
  destruct Hmode as [Hx|[[_ L2]|Hx]]; [rewrite Hx in Hm; discriminate| |rewrite Hx in Hm; discriminate].
  pose proof (CO b Hin) as Elen. unfold ib_cipher_ok in Elen. rewrite Hm in Elen.
  change (MODE_CTR_ADDR =? MODE_XTS) with false in Elen. rewrite Z.eqb_refl in Elen.
  set (d := pad16 p).
  assert (Hd3 : Nat.modulo (length d) 16 = 0%nat) by apply pad16_length_mod.
  destruct (mod_mult_exists _ 16 ltac:(lia) Hd3) as [q Hq].
  set (nonce := word_rev (ib_key2 b)).
  assert (Ln : length nonce = 16%nat).
  { unfold nonce. pose proof (reverse_bytes_in_longs_word_rev _ K2) as Hr.
    unfold reverse_bytes_in_longs in Hr. rewrite K2 in Hr. cbn [Nat.eqb] in Hr. injection Hr as <-.
    rewrite rev_longs_length by lia. exact L2. }
  set (n0 := Z.of_N (be_dec (skipn 12 nonce))).
  assert (Hn0 : 0 <= n0) by (unfold n0; lia).
  unfold ib_covers in Hcov. apply andb_true_iff in Hcov. destruct Hcov as [Hc1 Hc2].
  apply Z.leb_le in Hc1. apply Z.ltb_lt in Hc2.
  assert (Hsh : Z.shiftr a 4 = a / 16) by (rewrite Z.shiftr_div_pow2 by lia; reflexivity).
  unfold ib_encrypt_image.
  replace (a mod 16 =? 0) with true by (symmetry; apply Z.eqb_eq; lia). cbn [negb]. fold d.
  assert (Hbp : (ib_mode b =? MODE_BYPASS) = false) by (rewrite Hm; reflexivity). rewrite Hbp.
  assert (Hctr : mode_is_ctr (ib_mode b) = true) by (rewrite Hm; reflexivity). rewrite Hctr.
  unfold ib_encrypt_ctr. rewrite !reverse_bytes_in_longs_word_rev by assumption. fold nonce.
  rewrite Ln. cbn [Nat.eqb negb]. fold n0. rewrite Hsh.
  set (key := word_rev (ib_key1 b)) in *.
  replace (16 * (n0 + a / 16)) with (a + 16 * n0) by lia.
  rewrite pieces_shift.
  destruct (pieces_inverse
              (fun x => ib_ctr_block (E key) (firstn 12 nonce) (x + 16 * n0))
              (fun ba blk => xor_bytes blk (E key (firstn 12 nonce ++ be32 ((n0 + ba / 16) mod M32))))
              16 q a d ltac:(lia) Hq) as [Inv Len].
  { intros j blk Hj Hb. unfold ib_ctr_block.
    replace ((a + Z.of_nat (j * 16) + 16 * n0) / 16) with (n0 + a / 16 + Z.of_nat j) by lia.
    replace (n0 + (a + Z.of_nat (j * 16)) / 16) with (n0 + a / 16 + Z.of_nat j) by lia.
    rewrite be32_mod by lia.
    assert (Lks : length (E key (firstn 12 nonce ++ be32 (n0 + a / 16 + Z.of_nat j))) = 16%nat).
    { apply Elen. rewrite app_length, firstn_length, be32_length, Ln. reflexivity. }
    split; [rewrite xor_bytes_length_min, Hb, Lks; reflexivity|].
    apply xor_bytes_cancel. rewrite Hb, Lks. auto. }
  eexists. split; [reflexivity|]. split; [exact Len|].
  unfold iee_hw_unit, ic_hit, ictx_of_blob. cbn [find ic_start ic_end ic_mode ic_key1 ic_key2].
  replace ((ib_start b <=? a) && (a <? ib_end b)) with true
    by (symmetry; apply andb_true_iff; split; [apply Z.leb_le | apply Z.ltb_lt]; assumption).
  rewrite Hm. change (MODE_CTR_ADDR =? MODE_XTS) with false. rewrite Z.eqb_refl.
  fold nonce. fold n0. fold key. exact Inv.
Qed.

Lemma iee_rt_id a p : p <> [] -> (length p <= 4096)%nat -> iee_hu a p = p ->
  rt_piece iee_hu 4096 (iee_outside blobs) a p p.
Proof. intros Hp Hl Hh. unfold rt_piece. rewrite Hh. repeat split; try lia; auto. apply firstn_all. Qed.

Lemma iee_piece_ok a p :
  0 <= a -> a mod 4096 = 0 -> p <> [] -> (length p <= 4096)%nat -> wf_bytes p ->
  exists c, iee_piece E blobs a p = Ok c /\ rt_piece iee_hu 4096 (iee_outside blobs) a p c.
Proof.
  intros Ha Hal Hp Hl Wp.
  rewrite iee_piece_sel by assumption.
  destruct (find (fun b => ib_covers b a) blobs) as [b|] eqn:Ef.
  2:{ exists p. split; [reflexivity|]. apply iee_rt_id; try assumption. rewrite iee_hu_sel. now rewrite Ef. }
  destruct (find_some _ _ Ef) as [Hin Hcov].
  pose proof (proj1 (Forall_forall _ _) W b Hin) as (_ & _ & _ & _ & _ & _ & _ & Hmode).
  destruct Hmode as [Hm|[[Hm _]|Hm]].
  3:{ (* Bypass: SPSDK leaves the piece as it is and so does the hardware *)
      assert (Hb : ib_encrypt_image E b a p = Ok p).
      { unfold ib_encrypt_image. replace (a mod 16 =? 0) with true by (symmetry; apply Z.eqb_eq; lia).
        cbn [negb]. now rewrite Hm, Z.eqb_refl. }
      exists p. split; [exact Hb|]. apply iee_rt_id; try assumption.
      rewrite iee_hu_sel, Ef. unfold iee_hw_unit, ic_hit, ictx_of_blob. cbn [find ic_start ic_end ic_mode].
      change ((ib_start b <=? a) && (a <? ib_end b)) with (ib_covers b a). rewrite Hcov, Hm. reflexivity. }
  all: assert (Hcase : exists c, ib_encrypt_image E b a p = Ok c /\ length c = length (pad16 p) /\
                            iee_hw_unit E D [ictx_of_blob b] a c = pad16 p)
         by (first [now apply iee_xts_piece | now apply iee_ctr_piece]).
  all: destruct Hcase as (c & Hc & Lc & Hh); exists c; (split; [exact Hc|]).
  all: assert (Hhu : iee_hu a c = pad16 p) by (rewrite iee_hu_sel, Ef; exact Hh).
  all: pose proof (pad16_length_ge p) as Hpg; pose proof (pad16_le p 4096 Hl eq_refl) as Hpl.
  all: unfold rt_piece; rewrite Hhu, Lc; repeat split; try lia; try apply pad16_prefix.
  all: intros i Hi HQ; exfalso.
  all: assert (Hcv : ib_covers b (a + Z.of_nat i) = true)
         by (pose proof (proj1 (Forall_forall _ _) W b Hin) as (H0 & H1 & H2 & H3 & H4 & _);
             unfold ib_covers in *; apply andb_true_iff in Hcov; destruct Hcov as [C1 C2];
             apply Z.leb_le in C1; apply Z.ltb_lt in C2; apply andb_true_iff;
             split; [apply Z.leb_le | apply Z.ltb_lt]; lia).
  all: rewrite (HQ b Hin) in Hcv; discriminate.
Qed.
End IeeImage.

(* the whole image at a 4 KiB-aligned address *)
Lemma iee_decrypts_aligned (E D : cipher) blobs img base :
  Forall ib_wf blobs -> iblobs_disjoint blobs -> Forall (ib_cipher_ok E D) blobs ->
  wf_bytes img -> 0 <= base -> base mod 4096 = 0 ->
  exists out, iee_encrypt_image E blobs img base = Ok out /\
              (length img <= length out)%nat /\
              firstn (length img) (iee_hw E D (map ictx_of_blob blobs) base out) = img /\
              (forall i, (i < length img)%nat -> iee_outside blobs (base + Z.of_nat i) -> nth i out 0%N = nth i img 0%N).
Proof.
  intros W Dj CO Wi Hb Hal.
  destruct (walk_roundtrip (iee_piece E blobs) (iee_hu E D blobs) 4096 (fun a => 0 <= a /\ a mod 4096 = 0)
              (base + zlen img) (iee_outside blobs) wf_bytes wf_bytes_firstn wf_bytes_skipn ltac:(lia))
    with (base := base) (data := img)
    as (out & Ho & R1 & R2 & R3); try (split; assumption); try reflexivity; try assumption.
  - intros a [A1 A2]. split; lia.
  - intros a p [A1 A2] Hp Hl Htop Hlast Wp. now apply (iee_piece_ok E D blobs W Dj CO).
  - exists out. unfold iee_encrypt_image, iee_hw, U4K. repeat split; assumption.
Qed.

Definition iee_wit (mode : Z) (key2 : list N) : iblob :=
  {| ib_lock := 89; ib_keyattr := 90; ib_mode := mode; ib_start := 4096; ib_end := 8192;
     ib_key1 := le_enc 16 1; ib_key2 := key2; ib_po := 0 |}.

Lemma iee_address_only_l (E : cipher) blobs base x y q :
  length x = (q * 4096)%nat ->
  iee_encrypt_image E blobs (x ++ y) base =
  match iee_encrypt_image E blobs x base with
  | Ok cx => match iee_encrypt_image E blobs y (base + zlen x) with Ok cy => Ok (cx ++ cy) | Err k => Err k end
  | Err k => Err k
  end.
Proof. intros H. unfold iee_encrypt_image, U4K. apply (walk_address_only_l _ 4096 q); [lia | exact H]. Qed.


(* ================================================================== BEE =============================== *)

Lemma ctr_xcrypt_nil F c : ctr_xcrypt F c [] = [].
Proof. reflexivity. Qed.

Lemma ctr_xcrypt_cons F c b d : length b = 16%nat ->
  ctr_xcrypt F c (b ++ d) = xor_bytes b (F c) ++ ctr_xcrypt F (inc_be c) d.
Proof. intros Hb. unfold ctr_xcrypt, BS. rewrite chunks_cons by (try assumption; lia). reflexivity. Qed.

(* AES-CTR of `cryptography` over whole blocks = one keystream block per 16-byte address step *)
Lemma ctr_xcrypt_pieces (F : list N -> list N) n12 q : forall n d,
  length n12 = 12%nat -> wf_bytes n12 -> length d = (q * 16)%nat -> 0 <= n -> n + Z.of_nat q <= 4294967296 ->
  ctr_xcrypt F (n12 ++ be32 n) d =
  concat (pieces (fun x blk => xor_bytes blk (F (n12 ++ be32 (x / 16)))) 16 (16 * n) d).
Proof.
  induction q as [|q IH]; intros n d L12 W12 Hd Hn Hq.
  - destruct d; [reflexivity | simpl in Hd; lia].
  - assert (Hdl : (16 <= length d)%nat) by (simpl in Hd; lia).
    assert (Hne : d <> []) by (intros ->; simpl in Hdl; lia).
    rewrite (pieces_cons _ 16 (16 * n) d) by (try assumption; lia).
    assert (Hf : length (firstn 16 d) = 16%nat) by (rewrite firstn_length; lia).
    rewrite <- (firstn_skipn 16 d) at 1. rewrite ctr_xcrypt_cons by assumption.
    cbn [concat]. replace (16 * n / 16) with n by lia. f_equal.
    replace (zlen (firstn 16 d)) with 16 by (unfold zlen; rewrite Hf; reflexivity).
    replace (16 * n + 16) with (16 * (n + 1)) by lia.
    destruct q as [|q'].
    + assert (Hs : skipn 16 d = []) by (apply length_zero_iff_nil; rewrite skipn_length; simpl in Hd; lia).
      rewrite Hs. reflexivity.
    + unfold be32. rewrite inc_be_low; try assumption; try lia.
      replace (Z.to_N n + 1)%N with (Z.to_N (n + 1)) by lia.
      apply IH; try assumption; try lia. rewrite skipn_length. simpl in Hd |- *. lia.
Qed.

Lemma pad16_rnd_cases l : (pad16_rnd l = l /\ Nat.modulo (length l) 16 = 0%nat) \/
                          (exists k, (0 < k < 16)%nat /\ pad16_rnd l = l ++ rnd k /\ Nat.modulo (length l + k) 16 = 0%nat).
Proof.
  unfold pad16_rnd. destruct (Nat.modulo (length l) 16) eqn:E; [left; auto|].
  right. exists (16 - S n)%nat.
  pose proof (Nat.mod_upper_bound (length l) 16 ltac:(lia)) as Hb.
  pose proof (Nat.div_mod (length l) 16 ltac:(lia)) as Hd.
  repeat split; try lia.
  replace (length l + (16 - S n))%nat with ((length l / 16 + 1) * 16)%nat by lia.
  apply Nat.mod_mul. lia.
Qed.
Lemma rnd_length k : length (rnd k) = k.
Proof. unfold rnd. now rewrite map_length, seq_length. Qed.
Lemma pad16_rnd_length_ge l : (length l <= length (pad16_rnd l))%nat.
Proof. destruct (pad16_rnd_cases l) as [[-> _]|(k & _ & -> & _)]; [lia|]. rewrite app_length. lia. Qed.
Lemma pad16_rnd_length_mod l : Nat.modulo (length (pad16_rnd l)) 16 = 0%nat.
Proof. destruct (pad16_rnd_cases l) as [[-> H]|(k & _ & -> & H)]; [exact H|]. now rewrite app_length, rnd_length. Qed.
Lemma pad16_rnd_prefix l : firstn (length l) (pad16_rnd l) = l.
Proof.
  destruct (pad16_rnd_cases l) as [[-> _]|(k & _ & -> & _)]; [apply firstn_all|].
  rewrite firstn_app, Nat.sub_diag, firstn_all. simpl. apply app_nil_r.
Qed.
Lemma pad16_rnd_le l m : (length l <= m)%nat -> Nat.modulo m 16 = 0%nat -> (length (pad16_rnd l) <= m)%nat.
Proof.
  intros Hl Hm. destruct (pad16_rnd_cases l) as [[-> _]|(k & Hk & -> & H)]; [lia|].
  rewrite app_length, rnd_length.
  pose proof (Nat.div_mod m 16 ltac:(lia)). pose proof (Nat.div_mod (length l + k) 16 ltac:(lia)).
  destruct (Nat.le_gt_cases (length l + k) m); [assumption|]. exfalso.
  assert ((length l + k) / 16 <= m / 16)%nat by (apply Nat.div_le_mono; lia). nia.
Qed.

(* hull of the FAC regions *)
Lemma fold_min_le_init fs : forall m, fold_left (fun m f => Z.min m (fc_start f)) fs m <= m.
Proof. induction fs as [|f fs IH]; intros m; simpl; [lia|]. specialize (IH (Z.min m (fc_start f))). lia. Qed.
Lemma fold_min_le fs f : In f fs -> forall m, fold_left (fun m f => Z.min m (fc_start f)) fs m <= fc_start f.
Proof.
  induction fs as [|g fs IH]; intros Hin m; [contradiction|]. simpl. destruct Hin as [->|Hin].
  - pose proof (fold_min_le_init fs (Z.min m (fc_start f))). lia.
  - now apply IH.
Qed.
Lemma fold_max_ge_init fs : forall m, m <= fold_left (fun m f => Z.max m (fc_end f)) fs m.
Proof. induction fs as [|f fs IH]; intros m; simpl; [lia|]. specialize (IH (Z.max m (fc_end f))). lia. Qed.
Lemma fold_max_ge fs f : In f fs -> forall m, fc_end f <= fold_left (fun m f => Z.max m (fc_end f)) fs m.
Proof.
  induction fs as [|g fs IH]; intros Hin m; [contradiction|]. simpl. destruct Hin as [->|Hin].
  - pose proof (fold_max_ge_init fs (Z.max m (fc_end f))). lia.
  - now apply IH.
Qed.

Lemma find_existsb {A} (P : A -> bool) l : existsb P l = true -> exists x, find P l = Some x.
Proof.
  induction l as [|x l IH]; [discriminate|]. cbn [existsb find]. destruct (P x); [eauto | exact IH].
Qed.
Lemma find_none_existsb {A} (P : A -> bool) l : existsb P l = false -> find P l = None.
Proof.
  induction l as [|x l IH]; [reflexivity|]. cbn [existsb find]. destruct (P x); [discriminate | exact IH].
Qed.

Lemma bee_block_uncovered (E : cipher) h a data :
  bh_wf h -> bh_covers h a = false -> (length data <= 1024)%nat -> bee_encrypt_block E h a data = Ok data.
Proof.
  intros (Hm & Lk & _) Hc Hl. unfold bee_encrypt_block.
  replace (Nat.ltb 1024 (length data)) with false by (symmetry; apply Nat.ltb_ge; assumption).
  destruct (bh_hull h) as [hs he]. destruct ((hs <=? a) && (a <? he)); [|reflexivity].
  rewrite Hm, Lk. cbn [Z.eqb Pos.eqb Nat.eqb negb].
  unfold bh_covers in Hc. pose proof (find_none_existsb _ _ Hc) as Hf. unfold fac_covers in Hf. rewrite Hf. reflexivity.
Qed.

Lemma bee_block_covered (E : cipher) h a data :
  bh_wf h -> bh_covers h a = true -> 0 <= a -> a mod 1024 + zlen data <= 1024 ->
  bee_encrypt_block E h a data =
  Ok (ctr_xcrypt (E (bh_swkey h)) (firstn 12 (bh_counter h) ++ be32 (a / 16)) (pad16_rnd data)).
Proof.
  intros (Hm & Lk & Lc & Wc & Hz & Wf) Hc Ha Hunit. unfold bee_encrypt_block.
  replace (Nat.ltb 1024 (length data)) with false by (symmetry; apply Nat.ltb_ge; unfold zlen in Hunit; lia).
  unfold bh_covers in Hc. destruct (find_existsb _ _ Hc) as [f Hf].
  destruct (find_some _ _ Hf) as [Hin Hcov].
  rewrite Forall_forall in Wf. pose proof (Wf f Hin) as (F0 & F1 & F2 & F3 & F4).
  unfold fac_covers in Hcov. apply andb_true_iff in Hcov. destruct Hcov as [C1 C2].
  apply Z.leb_le in C1. apply Z.ltb_lt in C2. unfold fc_end in *.
  assert (Hhull : let '(hs, he) := bh_hull h in (hs <=? a) && (a <? he) = true).
  { unfold bh_hull. destruct (bh_facs h) as [|g fs] eqn:Efs; [contradiction|].
    pose proof (fold_min_le _ f Hin 4294967295). pose proof (fold_max_ge _ f Hin 0). unfold fc_end in *.
    apply andb_true_iff. split; [apply Z.leb_le | apply Z.ltb_lt]; lia. }
  destruct (bh_hull h) as [hs he]. rewrite Hhull.
  rewrite Hm, Lk. cbn [Z.eqb Pos.eqb Nat.eqb negb].
  change (fun f0 : fac => (fc_start f0 <=? a) && (a <? fc_start f0 + fc_len f0)) with (fun f0 => fac_covers f0 a) in *.
  unfold fac_covers, fc_end in Hf |- *. rewrite Hf.
  replace (a + zlen data >? fc_start f + fc_len f) with false
    by (symmetry; rewrite Z.gtb_ltb; apply Z.ltb_ge; unfold zlen in *; lia).
  rewrite Lc, Hz. cbn [Nat.eqb negb].
  change (Z.of_N (be_dec [0%N; 0%N; 0%N; 0%N])) with 0. rewrite Z.shiftr_div_pow2 by lia. change (2 ^ 4) with 16.
  reflexivity.
Qed.

Lemma fac_covers_unit f a a' : fac_wf f -> a' / 1024 = a / 1024 -> fac_covers f a' = fac_covers f a.
Proof.
  intros (F0 & F1 & F2 & F3 & F4) H. unfold fac_covers, fc_end.
  apply eq_true_iff_eq. rewrite !andb_true_iff, !Z.leb_le, !Z.ltb_lt. lia.
Qed.
Lemma bh_covers_unit h a a' : bh_wf h -> a' / 1024 = a / 1024 -> bh_covers h a' = bh_covers h a.
Proof.
  intros (_ & _ & _ & _ & _ & Wf) H. unfold bh_covers.
  induction Wf as [|f fs Hf _ IH]; [reflexivity|]. cbn [existsb]. now rewrite (fac_covers_unit f a a' Hf H), IH.
Qed.

Lemma bc_hit_bctx h a : bc_hit (bctx_of h) a = bh_covers h a.
Proof.
  unfold bc_hit, bh_covers, bctx_of. cbn [bc_regions].
  induction (bh_facs h) as [|f fs IH]; [reflexivity|]. cbn [map existsb fst snd]. now rewrite IH.
Qed.

Lemma bheaders_disjoint_at hs a : bheaders_disjoint hs ->
  ForallOrdPairs (fun h1 h2 => bh_covers h1 a = true -> bh_covers h2 a = false) hs.
Proof.
  induction 1 as [|h l Hh Hl IH]; constructor; [|assumption].
  eapply Forall_impl; [|exact Hh]. intros h2 H. apply H.
Qed.

Section BeeImage.
Variable E : cipher.
Variable ohs : list (option bhdr).
Hypothesis W : Forall bh_wf (bee_actives ohs).
Hypothesis Dj : bheaders_disjoint (bee_actives ohs).
Hypothesis E_len : forall h, In h (bee_actives ohs) -> forall x, length x = 16%nat -> length (E (bh_swkey h) x) = 16%nat.

Definition bee_enc1 (h : bhdr) (a : Z) (blk : list N) : list N :=
  ctr_xcrypt (E (bh_swkey h)) (firstn 12 (bh_counter h) ++ be32 (a / 16)) (pad16_rnd blk).
Definition bee_dec1 (h : bhdr) (a : Z) (blk : list N) : list N :=
  xor_bytes blk (E (bh_swkey h) (firstn 12 (bh_counter h) ++ be32 ((Z.of_N (be_dec (skipn 12 (bh_counter h))) + a / 16) mod M32))).

Lemma bee_piece_uncovered l a blk :
  Forall bh_wf (bee_actives l) -> (forall h, In h (bee_actives l) -> bh_covers h a = false) ->
  (length blk <= 1024)%nat -> bee_piece E l a blk = Ok blk.
Proof.
  induction l as [|o l IH]; intros Wl Hc Hl; [reflexivity|].
  destruct o as [h|]; cbn [bee_piece].
  - unfold bee_actives in *. cbn [map concat app] in *. inversion Wl; subst.
    rewrite bee_block_uncovered; try assumption; [|apply Hc; now left].
    apply IH; try assumption. intros h' Hh'. apply Hc. now right.
  - apply IH; assumption.
Qed.

Lemma bee_piece_sel a blk : 0 <= a -> a mod 1024 + zlen blk <= 1024 ->
  bee_piece E ohs a blk =
  Ok (match find (fun h => bh_covers h a) (bee_actives ohs) with Some h => bee_enc1 h a blk | None => blk end).
Proof.
  intros Ha Hin. assert (Hl : (length blk <= 1024)%nat) by (unfold zlen in Hin; lia).
  pose proof (bheaders_disjoint_at _ a Dj) as Dja. clear Dj.
  induction ohs as [|o l IH]; [reflexivity|].
  destruct o as [h|]; cbn [bee_piece].
  - unfold bee_actives in *. cbn [map concat app find] in *.
    inversion W as [|? ? Wh Wl]; subst. inversion Dja as [|? ? Dh Dl]; subst.
    destruct (bh_covers h a) eqn:Ec.
    + rewrite bee_block_covered by assumption. fold (bee_enc1 h a blk).
      apply bee_piece_uncovered; try assumption.
      * intros h' Hh'. rewrite Forall_forall in Dh. now apply Dh.
      * unfold bee_enc1. rewrite ctr_length.
        -- apply pad16_rnd_le; [assumption | reflexivity].
        -- apply E_len. now left.
        -- destruct Wh as (_ & _ & Lc & _). rewrite app_length, firstn_length, be32_length, Lc. reflexivity.
    + rewrite bee_block_uncovered by assumption. apply IH; try assumption.
      intros h' Hh'. apply E_len. now right.
  - apply IH; assumption.
Qed.

Lemma bee_hw_block_uncovered hs a blk : (forall h, In h hs -> bh_covers h a = false) ->
  bee_hw_block E (map bctx_of hs) a blk = blk.
Proof.
  induction hs as [|h l IH]; intros Hc; [reflexivity|]. cbn [bee_hw_block map fold_right].
  unfold bee_hw_engine at 1. rewrite bc_hit_bctx, (Hc h (or_introl eq_refl)).
  apply IH. intros h' Hh'. apply Hc. now right.
Qed.

Lemma bee_hw_block_sel hs a blk : bheaders_disjoint hs ->
  bee_hw_block E (map bctx_of hs) a blk =
  match find (fun h => bh_covers h a) hs with Some h => bee_dec1 h a blk | None => blk end.
Proof.
  intros D. pose proof (bheaders_disjoint_at _ a D) as Da. clear D.
  induction hs as [|h l IH]; [reflexivity|]. inversion Da as [|? ? Dh Dl]; subst.
  cbn [map find]. change (bee_hw_block E (bctx_of h :: map bctx_of l) a blk)
    with (bee_hw_engine E (bctx_of h) a (bee_hw_block E (map bctx_of l) a blk)).
  unfold bee_hw_engine. rewrite bc_hit_bctx. destruct (bh_covers h a) eqn:Ec.
  - rewrite bee_hw_block_uncovered; [reflexivity|]. intros h' Hh'. rewrite Forall_forall in Dh. now apply Dh.
  - now apply IH.
Qed.

Definition bee_hu (a : Z) (c : list N) : list N := concat (pieces (bee_hw_block E (map bctx_of (bee_actives ohs))) 16 a c).

Lemma find_bh_covers_unit hs a a' : Forall bh_wf hs -> a' / 1024 = a / 1024 ->
  find (fun h => bh_covers h a') hs = find (fun h => bh_covers h a) hs.
Proof.
  intros Wh H. induction Wh as [|h l Hh _ IH]; [reflexivity|]. cbn [find].
  rewrite (bh_covers_unit h a a' Hh H). destruct (bh_covers h a); [reflexivity | exact IH].
Qed.

Lemma bee_hu_sel a c : 0 <= a -> a mod 1024 + zlen c <= 1024 ->
  bee_hu a c =
  match find (fun h => bh_covers h a) (bee_actives ohs) with
  | Some h => concat (pieces (bee_dec1 h) 16 a c)
  | None => c
  end.
Proof.
  intros Ha Hin. unfold bee_hu.
  assert (Hr : forall a' b, a <= a' < a + zlen c ->
            bee_hw_block E (map bctx_of (bee_actives ohs)) a' b =
            match find (fun h => bh_covers h a) (bee_actives ohs) with Some h => bee_dec1 h a' b | None => b end).
  { intros a' b Hr. rewrite bee_hw_block_sel by assumption.
    rewrite (find_bh_covers_unit _ a a'); [reflexivity | assumption|]. lia. }
  rewrite (pieces_ext_range _ _ 16 a c Hr).
  destruct (find (fun h => bh_covers h a) (bee_actives ohs)); [reflexivity|]. apply concat_pieces_id. lia.
Qed.

Lemma bee_piece_ok a p : 0 <= a -> a mod 16 = 0 -> p <> [] -> a mod 1024 + zlen p <= 1024 ->
  exists c, bee_piece E ohs a p = Ok c /\
            grid_piece (bee_hw_block E (map bctx_of (bee_actives ohs))) 1024 (bee_outside (bee_actives ohs)) a p c.
Proof.
  intros Ha H16 Hp Hin. rewrite bee_piece_sel by assumption. eexists. split; [reflexivity|].
  destruct (find (fun h => bh_covers h a) (bee_actives ohs)) as [h|] eqn:Ef.
  2:{ unfold grid_piece, ghu. fold (bee_hu a p). rewrite bee_hu_sel by assumption. rewrite Ef.
      repeat split; try lia; auto. apply firstn_all. }
  destruct (find_some _ _ Ef) as [Hin' Hcov].
  pose proof (proj1 (Forall_forall _ _) W h Hin') as Wh. pose proof Wh as (Hm & Lk & Lc & Wc & Hz & Wf).
  set (d := pad16_rnd p).
  assert (Hd1 : (length p <= length d)%nat) by apply pad16_rnd_length_ge.
  assert (Hd2 : (length d <= Z.to_nat (1024 - a mod 1024))%nat).
  { apply pad16_rnd_le; [unfold zlen in Hin; lia|].
    apply Nat2Z.inj. rewrite Nat2Z.inj_mod, Z2Nat.id by lia. change (Z.of_nat 16) with 16. change (Z.of_nat 0) with 0. lia. }
  assert (Hd3 : Nat.modulo (length d) 16 = 0%nat) by apply pad16_rnd_length_mod.
  assert (Hd4 : a mod 1024 + zlen d <= 1024) by (unfold zlen; lia).
  destruct (mod_mult_exists _ 16 ltac:(lia) Hd3) as [q Hq].
  (* a < 2^32 because it lies in a FAC region *)
  assert (Ha32 : a < 4294967295).
  { unfold bh_covers in Hcov. apply existsb_exists in Hcov. destruct Hcov as (f & Hf & Hc).
    rewrite Forall_forall in Wf. pose proof (Wf f Hf) as (F0 & F1 & F2 & F3 & F4).
    unfold fac_covers, fc_end in *. apply andb_true_iff in Hc. destruct Hc as [C1 C2].
    apply Z.leb_le in C1. apply Z.ltb_lt in C2. lia. }
  set (n12 := firstn 12 (bh_counter h)).
  assert (L12 : length n12 = 12%nat) by (unfold n12; rewrite firstn_length, Lc; reflexivity).
  assert (W12 : wf_bytes n12) by (unfold n12; now apply wf_bytes_firstn).
  assert (Henc : bee_enc1 h a p =
                 concat (pieces (fun x blk => xor_bytes blk (E (bh_swkey h) (n12 ++ be32 (x / 16)))) 16 a d)).
  { unfold bee_enc1. fold n12. fold d. rewrite (ctr_xcrypt_pieces _ n12 q); try assumption; try (unfold zlen in Hd4; lia).
    replace (16 * (a / 16)) with a by lia. reflexivity. }
  rewrite Henc.
  destruct (pieces_inverse (fun x blk => xor_bytes blk (E (bh_swkey h) (n12 ++ be32 (x / 16)))) (bee_dec1 h) 16 q a d
              ltac:(lia) Hq) as [Inv Len].
  { intros j blk Hj Hb. unfold bee_dec1. fold n12. rewrite Hz.
    change (Z.of_N (be_dec [0%N; 0%N; 0%N; 0%N])) with 0.
    replace ((0 + (a + Z.of_nat (j * 16)) / 16) mod M32) with ((a + Z.of_nat (j * 16)) / 16)
      by (unfold M32; rewrite Z.mod_small; unfold zlen in Hd4; lia).
    assert (Lks : length (E (bh_swkey h) (n12 ++ be32 ((a + Z.of_nat (j * 16)) / 16))) = 16%nat).
    { apply E_len; [assumption|]. rewrite app_length, L12, be32_length. reflexivity. }
    split; [rewrite xor_bytes_length_min, Hb, Lks; reflexivity|].
    apply xor_bytes_cancel. rewrite Hb, Lks. auto. }
  set (c := concat (pieces (fun x blk => xor_bytes blk (E (bh_swkey h) (n12 ++ be32 (x / 16)))) 16 a d)) in *.
  assert (Hh : bee_hu a c = d).
  { rewrite bee_hu_sel by (try assumption; unfold zlen in *; lia). rewrite Ef. exact Inv. }
  unfold grid_piece, ghu. fold (bee_hu a c). rewrite Hh, Len. repeat split; try (unfold zlen in *; lia).
  - intros Hmo. unfold d. destruct (pad16_rnd_cases p) as [[-> _]|(kk & Hkk & _ & Hmm)]; [reflexivity|].
    exfalso. rewrite Nat.add_mod, Hmo, Nat.add_0_l, Nat.mod_mod, Nat.mod_small in Hmm by lia. lia.
  - apply pad16_rnd_prefix.
  - intros i Hi HQ. exfalso.
    assert (Hcv : bh_covers h (a + Z.of_nat i) = true)
      by (rewrite (bh_covers_unit h a) by (try assumption; unfold zlen in Hin; lia); exact Hcov).
    rewrite (HQ h Hin') in Hcv. discriminate.
Qed.

(* the whole image, every 16-byte aligned base *)
Lemma bee_decrypts_l img base : 0 <= base -> base mod 16 = 0 ->
  exists out, bee_export_image E ohs img base = Ok out /\
              (length img <= length out)%nat /\
              firstn (length img) (bee_hw E (map bctx_of (bee_actives ohs)) base out) = img /\
              (forall i, (i < length img)%nat -> bee_outside (bee_actives ohs) (base + Z.of_nat i) ->
                         nth i out 0%N = nth i img 0%N).
Proof.
  intros Hb H16.
  destruct (grid_roundtrip (bee_piece E ohs) (bee_hw_block E (map bctx_of (bee_actives ohs))) 1024 64 eq_refl
              ltac:(lia) (bee_outside (bee_actives ohs)) (fun _ => True) ltac:(auto) ltac:(auto))
    with (base := base) (data := img) as (out & Ho & R); try assumption; try exact I.
  - intros a p A1 A2 Hp Hin _. now apply bee_piece_ok.
  - exists out. split; [exact Ho | exact R].
Qed.
End BeeImage.

(* ---------------- BEE: the premises are satisfiable ---------------- *)
Definition bee_wit : bhdr :=
  {| bh_counter := le_enc 12 7 ++ [0; 0; 0; 0]%N; bh_mode := 1; bh_lock := 0;
     bh_facs := [{| fc_start := 4096; fc_len := 4096; fc_level := 0 |}];
     bh_swkey := le_enc 16 1; bh_kibkey := le_enc 16 2; bh_kibiv := le_enc 16 3 |}.

Lemma bee_wit_wf : Forall bh_wf (bee_actives [Some bee_wit]) /\ bheaders_disjoint (bee_actives [Some bee_wit]).
Proof.
  split.
  - constructor; [|constructor]. unfold bh_wf, bee_wit. cbn. repeat split; try reflexivity.
    + unfold wf_bytes, wf_byte. repeat constructor.
    + constructor; [|constructor]. unfold fac_wf, fc_end. cbn. repeat split; lia.
  - constructor; constructor.
Qed.

Lemma bee_address_only_l (E : cipher) ohs base x y :
  (base + zlen x) mod 1024 = 0 ->
  bee_export_image E ohs (x ++ y) base =
  match bee_export_image E ohs x base with
  | Ok cx => match bee_export_image E ohs y (base + zlen x) with Ok cy => Ok (cx ++ cy) | Err k => Err k end
  | Err k => Err k
  end.
Proof. intros H. unfold bee_export_image, U1K. apply (grid_address_only_l _ 1024); [lia | exact H]. Qed.

(* ================================================================== BEE / IEE key material: crypto layer ==== *)
Lemma zeros_wf k : wf_bytes (zeros k).
Proof. unfold wf_bytes, zeros. apply Forall_forall. intros x Hx. apply repeat_spec in Hx. subst. unfold wf_byte. lia. Qed.
Lemma le32_wf z : wf_bytes (le32 z).
Proof. apply le_enc_wf. Qed.
Lemma extend_to_length n l : (length l <= n)%nat -> length (extend_to n l) = n.
Proof. intros H. unfold extend_to. rewrite app_length, zeros_length. lia. Qed.
Lemma extend_to_wf n l : wf_bytes l -> wf_bytes (extend_to n l).
Proof. intros H. unfold extend_to. apply wf_bytes_app; [assumption | apply zeros_wf]. Qed.
Lemma wf_bytes_rev l : wf_bytes l -> wf_bytes (rev l).
Proof. unfold wf_bytes. apply Forall_rev. Qed.

Lemma fac_exports_length fs : length (concat (map fac_export fs)) = (32 * length fs)%nat.
Proof.
  induction fs as [|f fs IH]; [reflexivity|]. cbn [map concat length]. rewrite app_length, IH.
  unfold fac_export. rewrite !app_length, !le32_length, zeros_length. lia.
Qed.
Lemma fac_exports_wf fs : wf_bytes (concat (map fac_export fs)).
Proof.
  induction fs as [|f fs IH]; [constructor|]. cbn [map concat]. apply wf_bytes_app; [|exact IH].
  unfold fac_export. repeat apply wf_bytes_app; try apply le32_wf. apply zeros_wf.
Qed.

Lemma prdb_export_shape h p : wf_bytes (bh_counter h) -> prdb_export h = Ok p -> length p = 256%nat /\ wf_bytes p.
Proof.
  intros Wc. unfold prdb_export. destruct (prdb_ok h) eqn:Eok; [|discriminate]. cbn [negb].
  destruct (u32_ok (bh_lock h)); [|discriminate]. cbn [negb]. destruct (bh_hull h) as [hs he].
  intros H. assert (HH : forall (x y : list N), @Ok (list N) x = Ok y -> x = y) by (intros x y E0; now injection E0).
  apply HH in H. subst p. clear HH.
  unfold prdb_ok in Eok. destruct (match bh_facs h with [] => (0, 0) | _ :: _ => bh_hull h end) as [a b].
  rewrite !andb_true_iff in Eok. destruct Eok as (((((((_ & _) & _) & Lc) & _) & _) & Ln) & _).
  apply Nat.eqb_eq in Lc. apply Nat.leb_le in Ln. split.
  - apply extend_to_length. rewrite !app_length, !le32_length, rev_length, Lc, zeros_length, fac_exports_length. lia.
  - apply extend_to_wf. repeat apply wf_bytes_app; try apply le32_wf; try apply zeros_wf.
    + now apply wf_bytes_rev.
    + apply fac_exports_wf.
Qed.

Lemma concat_okb_length bs : Forall okb bs -> length (concat bs) = (16 * length bs)%nat.
Proof. induction 1 as [|b bs [Lb _] _ IH]; [reflexivity|]. cbn [concat length]. rewrite app_length, IH, Lb. lia. Qed.

Lemma ecb_length (E : list N -> list N) m : (forall b, okb b -> okb (E b)) -> wf_bytes m -> Nat.modulo (length m) 16 = 0%nat ->
  length (ecb E m) = length m.
Proof.
  intros E_ok Wm Hm. pose proof (okb_chunks m Wm Hm) as Hc.
  assert (Hc' : Forall okb (ecb_blocks E (chunks 16 m))).
  { unfold ecb_blocks. apply Forall_forall. intros x Hx. apply in_map_iff in Hx. destruct Hx as (y & <- & Hy).
    apply E_ok. rewrite Forall_forall in Hc. now apply Hc. }
  unfold ecb, BS. rewrite (concat_okb_length _ Hc'). unfold ecb_blocks. rewrite map_length.
  pose proof (concat_okb_length _ Hc) as H1. rewrite concat_chunks in H1 by lia. symmetry. exact H1.
Qed.

(* the encrypted BEE region header decrypts, with the SW key, to the KIB and, with the KIB key / IV, to the plain PRDB *)
Lemma bee_header_unwrap_partial_l (E D : cipher) h hdr :
  (forall x, okb x -> D (bh_swkey h) (E (bh_swkey h) x) = x) -> (forall x, okb x -> okb (E (bh_swkey h) x)) ->
  (forall x, okb x -> D (bh_kibkey h) (E (bh_kibkey h) x) = x) -> (forall x, okb x -> okb (E (bh_kibkey h) x)) ->
  wf_bytes (bh_counter h) -> wf_bytes (bh_kibkey h) -> wf_bytes (bh_kibiv h) ->
  bee_header_export E h = Ok hdr ->
  exists prdb, prdb_export h = Ok prdb /\ length hdr = 512%nat /\
               ecb (D (bh_swkey h)) (firstn 32 hdr) = bh_kibkey h ++ bh_kibiv h /\
               cbc_dec (D (bh_kibkey h)) (bh_kibiv h) (firstn 256 (skipn 128 hdr)) = prdb.
Proof.
  intros DE1 EO1 DE2 EO2 Wc Wk Wi H. unfold bee_header_export in H.
  destruct (Nat.eqb (length (bh_kibkey h)) 16) eqn:Lk; [|discriminate]. apply Nat.eqb_eq in Lk.
  destruct (Nat.eqb (length (bh_kibiv h)) 16) eqn:Li; [|discriminate]. apply Nat.eqb_eq in Li. cbn [negb] in H.
  destruct (prdb_export h) as [prdb|] eqn:Ep; [|discriminate].
  destruct (Nat.eqb (length (bh_swkey h)) 16) eqn:Ls; [|discriminate]. cbn [negb] in H.
  assert (HH : forall (x y : list N), @Ok (list N) x = Ok y -> x = y) by (intros x y E0; now injection E0).
  apply HH in H. subst hdr. clear HH.
  destruct (prdb_export_shape h prdb Wc Ep) as [Lp Wp].
  set (kib := bh_kibkey h ++ bh_kibiv h).
  assert (Lkib : length kib = 32%nat) by (unfold kib; rewrite app_length, Lk, Li; reflexivity).
  assert (Wkib : wf_bytes kib) by (unfold kib; now apply wf_bytes_app).
  assert (Okiv : okb (bh_kibiv h)) by (split; assumption).
  set (ekib := ecb (E (bh_swkey h)) kib).
  assert (Lek : length ekib = 32%nat).
  { unfold ekib. rewrite ecb_length; try assumption. rewrite Lkib. reflexivity. }
  destruct (cbc_enc_length (E (bh_kibkey h)) EO2 (bh_kibiv h) prdb Okiv Wp ltac:(rewrite Lp; reflexivity)) as [Lc Wcb].
  set (eprdb := cbc_enc (E (bh_kibkey h)) (bh_kibiv h) prdb) in *. rewrite Lp in Lc.
  exists prdb. split; [reflexivity|]. split.
  - apply extend_to_length. rewrite app_length, extend_to_length, Lc; lia.
  - unfold extend_to. rewrite Lek. rewrite <- !app_assoc. split.
    + rewrite firstn_app_exact by assumption. unfold ekib.
      apply (ecb_dec_enc_l (E (bh_swkey h)) (D (bh_swkey h)) DE1 EO1); [assumption | rewrite Lkib; reflexivity].
    + rewrite (app_assoc ekib). rewrite skipn_app_exact by (rewrite app_length, Lek, zeros_length; reflexivity).
      rewrite firstn_app_exact by assumption. unfold eprdb.
      apply (cbc_dec_enc_l (E (bh_kibkey h)) (D (bh_kibkey h)) DE2 EO2); [assumption | assumption | rewrite Lp; reflexivity].
Qed.

Lemma align_zero_wf k l : wf_bytes l -> wf_bytes (align_zero k l).
Proof.
  intros H. unfold align_zero. destruct (Nat.modulo (length l) k); [assumption|].
  apply wf_bytes_app; [assumption | apply zeros_wf].
Qed.

Lemma ib_plain_wf b p : wf_bytes (ib_key1 b) -> wf_bytes (ib_key2 b) -> ib_plain b = Ok p -> wf_bytes p.
Proof.
  intros W1 W2. unfold ib_plain.
  destruct (byte_ok (ib_lock b) && byte_ok (ib_keyattr b) && byte_ok (ib_mode b) && u32_ok (ib_po b)
            && u32_ok (ib_start b) && u32_ok (ib_end b)) eqn:Eok; [|discriminate]. cbn [negb].
  intros H. assert (HH : forall (x y : list N), @Ok (list N) x = Ok y -> x = y) by (intros x y E0; now injection E0).
  apply HH in H. subst p. clear HH.
  rewrite !andb_true_iff in Eok. destruct Eok as (((((B1 & B2) & B3) & _) & _) & _).
  unfold byte_ok in B1, B2, B3. rewrite andb_true_iff, Z.leb_le, Z.ltb_lt in B1, B2, B3.
  repeat apply wf_bytes_app; try apply le32_wf; try apply le_enc_wf; try (apply align_zero_wf; assumption).
  unfold wf_bytes, wf_byte. repeat constructor; lia.
Qed.

Lemma res_concat_map_wf {B} (f : B -> res (list N)) l t :
  (forall b p, In b l -> f b = Ok p -> wf_bytes p) -> res_concat_map f l = Ok t -> wf_bytes t.
Proof.
  revert t. induction l as [|b l IH]; intros t Hf H.
  - cbn in H. assert (t = []) by congruence. subst. constructor.
  - cbn [res_concat_map] in H. destruct (f b) as [x|] eqn:Ex; [|discriminate].
    destruct (res_concat_map f l) as [y|] eqn:Ey; [|discriminate].
    assert (t = x ++ y) by congruence. subst. apply wf_bytes_app.
    + apply (Hf b x); [now left | assumption].
    + apply IH; [|reflexivity]. intros b' p Hb'. apply Hf. now right.
Qed.

(* the encrypted IEE key blob table decrypts (AES-XTS, word-reversed IBKEKs, tweak = sector of the table address) to
   the plain table of Iee.get_key_blobs *)
Lemma iee_keyblob_unwrap_partial_l (E D : cipher) blobs kek1 kek2 addr table :
  (forall x, okb x -> D (word_rev kek1) (E (word_rev kek1) x) = x) -> (forall x, okb x -> okb (E (word_rev kek1) x)) ->
  (forall x, okb x -> okb (E (word_rev kek2) x)) ->
  Forall (fun b => wf_bytes (ib_key1 b) /\ wf_bytes (ib_key2 b)) blobs ->
  iee_encrypt_key_blobs E blobs kek1 kek2 addr = Ok table ->
  exists plain, iee_get_key_blobs blobs = Ok plain /\ length table = length plain /\
                xts_crypt (D (word_rev kek1)) (E (word_rev kek2)) true (le_enc 16 (Z.to_N (addr / 4096))) table = plain.
Proof.
  intros DE EO1 EO2 Wb H. unfold iee_encrypt_key_blobs in H.
  destruct (iee_get_key_blobs blobs) as [plain|] eqn:Eg; [|discriminate].
  assert (Wp : wf_bytes plain).
  { unfold iee_get_key_blobs in Eg. destruct (res_concat_map ib_plain blobs) as [t|] eqn:Et; [|discriminate].
    assert (plain = align_zero 384 t) by congruence. subst. apply align_zero_wf.
    apply (res_concat_map_wf ib_plain blobs t); [|assumption].
    intros b p Hb Hp. rewrite Forall_forall in Wb. destruct (Wb b Hb). now apply (ib_plain_wf b). }
  unfold reverse_bytes_in_longs in H.
  destruct (Nat.eqb (Nat.modulo (length kek1) 4) 0) eqn:K1; [|discriminate].
  destruct (Nat.eqb (Nat.modulo (length kek2) 4) 0) eqn:K2; [|discriminate].
  destruct (Nat.ltb (length plain) 16) eqn:Lp; [discriminate|]. apply Nat.ltb_ge in Lp.
  assert (R1 : rev_longs_fuel (length kek1) kek1 = word_rev kek1) by (unfold word_rev, chunks; now rewrite word_rev_fuel).
  assert (R2 : rev_longs_fuel (length kek2) kek2 = word_rev kek2) by (unfold word_rev, chunks; now rewrite word_rev_fuel).
  rewrite R1, R2 in H.
  assert (HH : forall (x y : list N), @Ok (list N) x = Ok y -> x = y) by (intros x y E0; now injection E0).
  apply HH in H. subst table. clear HH.
  assert (Htw : iee_tweak addr = le_enc 16 (Z.to_N (addr / 4096))).
  { unfold iee_tweak. rewrite Z.shiftr_div_pow2 by lia. reflexivity. }
  rewrite Htw.
  assert (Hokt : okb (E (word_rev kek2) (le_enc 16 (Z.to_N (addr / 4096))))) by (apply EO2, le_enc16_okb).
  exists plain. split; [reflexivity|]. split.
  - apply (xts_enc_length (E (word_rev kek1)) EO1); assumption.
  - apply (xts_dec_enc_l (E (word_rev kek1)) (D (word_rev kek1)) DE EO1); assumption.
Qed.

(* ================================================================== the premises hold for the concrete AES ===== *)
Lemma aes_cipher_laws key : aes_key_ok key = true -> wf_bytes key ->
  (forall b, okb b -> aes_d key (aes_c key b) = b) /\ (forall b, okb b -> okb (aes_c key b)) /\
  (forall x, length x = 16%nat -> length (aes_c key x) = 16%nat).
Proof.
  intros Hk Wk. repeat split.
  - intros b Hb. exact (proj1 (aes_dec_enc key b Hk Wk Hb)).
  - exact (proj1 (proj2 (aes_dec_enc key b Hk Wk H))).
  - exact (proj2 (proj2 (aes_dec_enc key b Hk Wk H))).
  - intros x Hx. now apply aes_enc_length.
Qed.

Lemma otfad_keyblob_unwrap_aes_l kek k cnt :
  kb_codec_wf k -> length kek = 16%nat -> wf_bytes kek -> In cnt [0; 2; 4; 8; 16] ->
  exists rec c, kb_export aes_c k kek cnt = Ok rec /\ length rec = 64%nat /\ otfad_unwrap aes_d kek cnt rec = Some c /\
                oc_key c = kb_key k /\ oc_ctr c = kb_ctr k /\ oc_w0 c = kb_start k /\
                Z.shiftr (oc_w1 c) 10 = (kb_end k - 1) / 1024 /\
                (forall n, 0 <= n < 3 -> Z.testbit (oc_w1 c) n = Z.testbit (kb_flags k) n).
Proof.
  intros Wc Lk Wk Hc.
  assert (Hok : aes_key_ok kek = true) by (unfold aes_key_ok; rewrite Lk; reflexivity).
  destruct (aes_cipher_laws kek Hok Wk) as (DE & EO & _).
  now apply otfad_keyblob_unwrap_full.
Qed.

Lemma otfad_decrypts_aes_l blobs swap img base :
  Forall kb_wf blobs -> blobs_disjoint blobs ->
  (forall k, In k blobs -> length (kb_key k) = 16%nat /\ wf_bytes (kb_key k)) ->
  0 <= base -> base mod 16 = 0 ->
  exists out, otfad_encrypt_image aes_c blobs img base swap = Ok out /\
              (length img <= length out)%nat /\
              firstn (length img) (otfad_hw aes_c (map octx_of_blob blobs) swap base out) = img /\
              (forall i, (i < length img)%nat -> otfad_outside blobs (base + Z.of_nat i) -> nth i out 0%N = nth i img 0%N).
Proof.
  intros W D HK Hb Hal. apply otfad_decrypts_l; try assumption.
  intros k Hin x Hx'. destruct (HK k Hin) as [Lk Wk].
  assert (Hok : aes_key_ok (kb_key k) = true) by (unfold aes_key_ok; rewrite Lk; reflexivity).
  now apply (aes_cipher_laws (kb_key k) Hok Wk).
Qed.

(* the cipher premises of the IEE theorem are satisfiable: they hold for the concrete AES *)
Lemma ib_cipher_ok_aes b :
  aes_key_ok (word_rev (ib_key1 b)) = true -> wf_bytes (word_rev (ib_key1 b)) ->
  aes_key_ok (word_rev (ib_key2 b)) = true -> wf_bytes (word_rev (ib_key2 b)) ->
  ib_cipher_ok aes_c aes_d b.
Proof.
  intros K1 W1 K2 W2. unfold ib_cipher_ok.
  destruct (aes_cipher_laws _ K1 W1) as (DE & EO & EL). destruct (aes_cipher_laws _ K2 W2) as (_ & EO2 & _).
  destruct (ib_mode b =? MODE_XTS); [split; [exact DE | split; [exact EO | exact EO2]] |].
  destruct (ib_mode b =? MODE_CTR_ADDR); [exact EL | exact I].
Qed.

Example ib_premises_instance :
  let b := iee_wit MODE_XTS (le_enc 16 2) in ib_wf b /\ ib_cipher_ok aes_c aes_d b.
Proof.
  cbv zeta. split.
  - unfold ib_wf, iee_wit. cbn. repeat split; lia.
  - apply ib_cipher_ok_aes; try reflexivity; unfold wf_bytes, wf_byte; cbn; repeat constructor.
Qed.

(* (T1) the constants used by the hand model are the ones found in the source on this run *)
Example flashenc_constants_tied :
  Z.of_nat U1K = src_otfad_unit /\ Z.of_nat U1K = src_bee_unit /\ Z.of_nat U4K = src_iee_unit /\ Z.of_nat U4K = src_iee_xts_unit /\
  src_otfad_start_mask = 1023 /\ src_otfad_end_mask = 1016 /\ src_otfad_flag_mask = 7 /\ src_otfad_flag_ade = 2 /\
  src_otfad_flag_vld = 1 /\ src_otfad_key_size = 16 /\ src_otfad_ctr_size = 8 /\ src_otfad_blob_size = 64 /\
  src_otfad_block = 16 /\ src_iee_block = 16 /\ src_iee_start_mask = 1023 /\ src_iee_table_size = 384 /\
  MODE_BYPASS = src_iee_mode_bypass /\ MODE_XTS = src_iee_mode_xts /\ MODE_CTR_ADDR = src_iee_mode_ctr_addr /\
  MODE_CTR_NOADDR = src_iee_mode_ctr_noaddr /\ MODE_CTR_KS = src_iee_mode_ctr_ks /\
  KEYATTR_128_256 = src_iee_attr_128 /\ KEYATTR_256_512 = src_iee_attr_256 /\
  src_iee_tag = 1229276482 /\ src_iee_version = 1442906112 /\
  src_bee_mask = 1023 /\ src_bee_mode_ctr = 1 /\ src_bee_tagl = 1598505300 /\ src_bee_tagh = 1380206661 /\
  src_bee_version = 1442906112 /\ src_bee_fac_regions = 4 /\ src_bee_prdb_size = 256 /\ src_bee_prdb_offset = 128 /\
  src_bee_header_size = 512.
Proof. repeat split; reflexivity. Qed.

(* bypass mode = data left as they are *)
Lemma iee_bypass_identity_l (E : cipher) b img base :
  ib_wf b -> ib_mode b = MODE_BYPASS -> 0 <= base -> base mod 4096 = 0 ->
  ib_start b <= base -> base + zlen img <= ib_end b ->
  iee_encrypt_image E [b] img base = Ok img.
Proof.
  intros Wb Hm Hb Hal Hs He.
  assert (Gok : forall a p, a mod 4096 = 0 /\ ib_start b <= a -> p <> [] -> (length p <= 4096)%nat ->
                 a + zlen p <= base + zlen img -> (length p = 4096%nat \/ a + zlen p = base + zlen img) -> True ->
                 exists c, iee_piece E [b] a p = Ok c /\ c = p).
  { intros a p [A1 A2] Hp Hl Htop _ _. exists p. split; [|reflexivity].
    unfold iee_piece. cbn [blob_fold].
    assert (HL : 1 <= zlen p) by (unfold zlen; destruct p; [congruence | simpl length; lia]).
    replace (ib_matches b a (a + zlen p)) with true.
    + unfold ib_encrypt_image. replace (a mod 16 =? 0) with true by (symmetry; apply Z.eqb_eq; lia).
      cbn [negb]. rewrite Hm, Z.eqb_refl. now rewrite skipn_all, app_nil_r.
    + symmetry. unfold ib_matches, ib_contains. rewrite !andb_true_iff, !Z.leb_le. lia. }
  assert (Hstep : forall a, a mod 4096 = 0 /\ ib_start b <= a ->
                  (a + Z.of_nat 4096) mod 4096 = 0 /\ ib_start b <= a + Z.of_nat 4096) by (intros a [A1 A2]; split; lia).
  destruct (walk_induction (iee_piece E [b]) 4096 (fun a => a mod 4096 = 0 /\ ib_start b <= a) (base + zlen img)
              (fun _ p c => c = p) (fun _ d o => o = d) (fun _ => True) ltac:(auto) ltac:(auto) ltac:(lia) Hstep Gok)
    with (fuel := length img) (base := base) (data := img) as (out & Ho & HP).
  all: try (intros; subst; reflexivity); try lia; try exact I; try (split; assumption).
  subst out. exact Ho.
Qed.
