(* Proofs/FlashEncProofs.v -- lemmas for C13 (flash encryption: OTFAD, IEE, BEE). *)
From Coq Require Import ZArith NArith List Bool Lia.
Require Import Value Bytes BytesProofs GenMisc MiscModel Aes Modes KeyWrap Crc CryptoProofs FlashEncModel.
Import ListNotations.
Local Open Scope Z_scope.
Ltac Zify.zify_post_hook ::= Z.to_euclidean_division_equations.

(* ================================================================== walking a byte string in units === *)
Lemma zlen_app {A} (x y : list A) : zlen (x ++ y) = zlen x + zlen y.
Proof. unfold zlen. rewrite app_length. lia. Qed.
Lemma zlen_nonneg {A} (x : list A) : 0 <= zlen x.
Proof. unfold zlen. lia. Qed.

Lemma walk_fuel_enough {A} (f : Z -> list N -> A) unit f1 : forall f2 addr data,
  (length data <= f1)%nat -> (length data <= f2)%nat -> (0 < unit)%nat ->
  walk f unit f1 addr data = walk f unit f2 addr data.
Proof.
  induction f1 as [|f1 IH]; intros f2 addr data H1 H2 Hu.
  - destruct data; simpl in *; [|lia]. destruct f2; reflexivity.
  - destruct f2 as [|f2].
    + destruct data; simpl in *; [reflexivity | lia].
    + cbn [walk]. destruct data as [|b data]; [reflexivity|].
      f_equal. apply IH; try assumption; rewrite skipn_length; cbn [length] in *; lia.
Qed.

Lemma pieces_nil {A} (f : Z -> list N -> A) unit addr : pieces f unit addr [] = [].
Proof. reflexivity. Qed.

Lemma pieces_cons {A} (f : Z -> list N -> A) unit addr data :
  (0 < unit)%nat -> data <> [] ->
  pieces f unit addr data =
  f addr (firstn unit data) :: pieces f unit (addr + zlen (firstn unit data)) (skipn unit data).
Proof.
  intros Hu Hd. unfold pieces. destruct data as [|b data]; [congruence|].
  cbn [length walk]. f_equal. apply walk_fuel_enough; try assumption; rewrite skipn_length; cbn [length]; lia.
Qed.

Lemma pieces_single {A} (f : Z -> list N -> A) unit addr data :
  (0 < unit)%nat -> data <> [] -> (length data <= unit)%nat -> pieces f unit addr data = [f addr data].
Proof.
  intros Hu Hd Hl. rewrite pieces_cons by assumption.
  rewrite firstn_all2 by lia. rewrite skipn_all2 by lia. reflexivity.
Qed.

(* a piece boundary can be moved to any multiple of the unit: "depends only on the absolute address" *)
Lemma pieces_app {A} (f : Z -> list N -> A) unit q : forall addr x y,
  (0 < unit)%nat -> length x = (q * unit)%nat ->
  pieces f unit addr (x ++ y) = pieces f unit addr x ++ pieces f unit (addr + zlen x) y.
Proof.
  induction q as [|q IH]; intros addr x y Hu Hx.
  - destruct x; [|simpl in Hx; lia]. simpl. unfold zlen. simpl. now rewrite Z.add_0_r.
  - assert (Hxl : (unit <= length x)%nat) by (simpl in Hx; lia).
    assert (Hne : x <> []) by (intros ->; simpl in Hxl; lia).
    assert (Hne' : x ++ y <> []) by (destruct x; [congruence | discriminate]).
    rewrite (pieces_cons f unit addr (x ++ y)) by assumption.
    rewrite (pieces_cons f unit addr x) by assumption.
    rewrite firstn_app, skipn_app.
    replace (unit - length x)%nat with 0%nat by lia. simpl. rewrite app_nil_r.
    f_equal. rewrite IH; try assumption.
    + f_equal. f_equal. rewrite <- Z.add_assoc, <- zlen_app, firstn_skipn. reflexivity.
    + rewrite skipn_length. simpl in Hx. lia.
Qed.

Lemma seq_concat_app a b :
  seq_concat (a ++ b) =
  match seq_concat a with
  | Ok x => match seq_concat b with Ok y => Ok (x ++ y) | Err k => Err k end
  | Err k => Err k
  end.
Proof.
  induction a as [|r a IH]; simpl.
  - destruct (seq_concat b); reflexivity.
  - destruct r as [x|k]; [|reflexivity]. rewrite IH.
    destruct (seq_concat a); [|reflexivity]. destruct (seq_concat b); [|reflexivity]. now rewrite app_assoc.
Qed.

(* the general "address only" statement for every walk of this file *)
Lemma walk_address_only_l (g : Z -> list N -> res (list N)) unit q base x y :
  (0 < unit)%nat -> length x = (q * unit)%nat ->
  seq_concat (pieces g unit base (x ++ y)) =
  match seq_concat (pieces g unit base x) with
  | Ok cx => match seq_concat (pieces g unit (base + zlen x) y) with Ok cy => Ok (cx ++ cy) | Err k => Err k end
  | Err k => Err k
  end.
Proof. intros Hu Hx. rewrite (pieces_app g unit q) by assumption. apply seq_concat_app. Qed.

Lemma concat_pieces_app (f : Z -> list N -> list N) unit q addr x y :
  (0 < unit)%nat -> length x = (q * unit)%nat ->
  concat (pieces f unit addr (x ++ y)) = concat (pieces f unit addr x) ++ concat (pieces f unit (addr + zlen x) y).
Proof. intros Hu Hx. rewrite (pieces_app f unit q) by assumption. apply concat_app. Qed.

(* extensionality inside the walked address range *)
Lemma walk_ext_range {A} (f f' : Z -> list N -> A) unit fuel : forall addr data,
  (forall a b, addr <= a < addr + zlen data -> f a b = f' a b) ->
  walk f unit fuel addr data = walk f' unit fuel addr data.
Proof.
  induction fuel as [|fu IH]; intros addr data H; [reflexivity|].
  cbn [walk]. destruct data as [|b data]; [reflexivity|].
  f_equal.
  - apply H. unfold zlen. cbn [length]. lia.
  - apply IH. intros a c Ha. apply H.
    pose proof (zlen_nonneg (firstn unit (b :: data))).
    assert (zlen (firstn unit (b :: data)) + zlen (skipn unit (b :: data)) = zlen (b :: data))
      by (rewrite <- zlen_app, firstn_skipn; reflexivity).
    lia.
Qed.

Lemma pieces_ext_range {A} (f f' : Z -> list N -> A) unit addr data :
  (forall a b, addr <= a < addr + zlen data -> f a b = f' a b) ->
  pieces f unit addr data = pieces f' unit addr data.
Proof. apply walk_ext_range. Qed.

Lemma concat_walk_id unit fuel : forall addr data, (length data <= fuel)%nat -> (0 < unit)%nat ->
  concat (walk (fun _ b => b) unit fuel addr data) = data.
Proof.
  induction fuel as [|fu IH]; intros addr data H Hu.
  - destruct data; simpl in *; [reflexivity | lia].
  - cbn [walk]. destruct data as [|b data]; [reflexivity|].
    cbn [concat]. rewrite IH; try assumption.
    + apply firstn_skipn.
    + rewrite skipn_length. cbn [length] in *. lia.
Qed.

Lemma concat_pieces_id unit addr data : (0 < unit)%nat -> concat (pieces (fun _ b => b) unit addr data) = data.
Proof. intros. apply concat_walk_id; auto. Qed.

(* a block-wise inverse: h undoes f on every block of a string made of whole blocks *)
Lemma pieces_inverse (f h : Z -> list N -> list N) (u : nat) (q : nat) : forall a d,
  (0 < u)%nat -> length d = (q * u)%nat ->
  (forall j b, (j < q)%nat -> length b = u ->
     length (f (a + Z.of_nat (j * u)) b) = u /\ h (a + Z.of_nat (j * u)) (f (a + Z.of_nat (j * u)) b) = b) ->
  concat (pieces h u a (concat (pieces f u a d))) = d /\ length (concat (pieces f u a d)) = length d.
Proof.
  induction q as [|q IH]; intros a d Hu Hd H.
  - destruct d; [|simpl in Hd; lia]. split; reflexivity.
  - assert (Hdl : (u <= length d)%nat) by (simpl in Hd; lia).
    assert (Hne : d <> []) by (intros ->; simpl in Hdl; lia).
    rewrite (pieces_cons f u a d) by assumption.
    assert (Hf : length (firstn u d) = u) by (rewrite firstn_length; lia).
    destruct (H 0%nat (firstn u d) ltac:(lia) Hf) as [L0 I0].
    simpl in L0, I0. rewrite Z.add_0_r in L0, I0.
    cbn [concat].
    assert (Hz : zlen (firstn u d) = Z.of_nat u) by (unfold zlen; now rewrite Hf).
    rewrite Hz.
    destruct (IH (a + Z.of_nat u) (skipn u d) Hu) as [I1 L1].
    + rewrite skipn_length. simpl in Hd. lia.
    + intros j b Hj Hb.
      replace (a + Z.of_nat u + Z.of_nat (j * u)) with (a + Z.of_nat (S j * u)) by (simpl; lia).
      apply H; [lia | assumption].
    + split.
      * rewrite (concat_pieces_app h u 1); try assumption; [|simpl; lia].
        rewrite (pieces_single h u a) ; try assumption; try lia.
        -- cbn [concat]. rewrite app_nil_r, I0.
           replace (zlen (f a (firstn u d))) with (Z.of_nat u) by (unfold zlen; now rewrite L0).
           rewrite I1. apply firstn_skipn.
        -- intros E. rewrite E in L0. simpl in L0. lia.
      * rewrite app_length, L0, L1, skipn_length. lia.
Qed.

(* regrouping a fine walk (unit u) by coarse units k*u *)
Lemma pieces_regroup (f : Z -> list N -> list N) (u k : nat) fuel : forall a d,
  (0 < u)%nat -> (0 < k)%nat -> (length d <= fuel)%nat ->
  concat (pieces f u a d) = concat (pieces (fun a' p => concat (pieces f u a' p)) (k * u) a d).
Proof.
  induction fuel as [|fu IH]; intros a d Hu Hk Hf.
  - destruct d; [reflexivity | simpl in Hf; lia].
  - destruct d as [|b d']; [reflexivity|].
    set (d := b :: d') in *.
    assert (Hku : (0 < k * u)%nat) by nia.
    rewrite (pieces_cons _ (k * u) a d) by (try assumption; discriminate).
    cbn [concat].
    destruct (Nat.le_gt_cases (length d) (k * u)) as [Hle|Hgt].
    + rewrite firstn_all2 by assumption. rewrite skipn_all2 by assumption. simpl. now rewrite app_nil_r.
    + rewrite <- (firstn_skipn (k * u) d) at 1.
      assert (Hl : length (firstn (k * u) d) = (k * u)%nat) by (rewrite firstn_length; lia).
      rewrite (concat_pieces_app f u k) by assumption.
      f_equal. apply IH; try assumption. rewrite skipn_length. subst d. cbn [length] in *. lia.
Qed.

(* ---------------- a walk of encrypting pieces, related piece by piece to a result ---------------- *)
Section WalkInduction.
Variable g : Z -> list N -> res (list N).
Variable unit : nat.
Variable al : Z -> Prop.                        (* alignment invariant of the piece addresses *)
Variable top : Z.                               (* address just behind the image *)
Variable piece_ok : Z -> list N -> list N -> Prop.
Variable P : Z -> list N -> list N -> Prop.
Hypothesis Hunit : (0 < unit)%nat.
Hypothesis al_step : forall a, al a -> al (a + Z.of_nat unit).
Hypothesis g_ok : forall a p, al a -> p <> [] -> (length p <= unit)%nat -> a + zlen p <= top ->
  (length p = unit \/ a + zlen p = top) -> exists c, g a p = Ok c /\ piece_ok a p c.
Hypothesis P_nil : forall a, P a [] [].
Hypothesis P_last : forall a p c, al a -> p <> [] -> (length p <= unit)%nat -> a + zlen p = top -> piece_ok a p c -> P a p c.
Hypothesis P_step : forall a p c rest out, al a -> length p = unit -> piece_ok a p c -> rest <> [] ->
  P (a + Z.of_nat unit) rest out -> P a (p ++ rest) (c ++ out).

Lemma walk_induction fuel : forall base data, (length data <= fuel)%nat -> al base -> base + zlen data = top ->
  exists out, seq_concat (pieces g unit base data) = Ok out /\ P base data out.
Proof.
  induction fuel as [|fu IH]; intros base data Hf Hal Htop.
  - destruct data; [|simpl in Hf; lia]. exists []. split; [reflexivity | apply P_nil].
  - destruct data as [|b d']; [exists []; split; [reflexivity | apply P_nil]|].
    set (data := b :: d') in *.
    assert (Hne : data <> []) by discriminate.
    rewrite (pieces_cons g unit base data) by assumption.
    destruct (Nat.le_gt_cases (length data) unit) as [Hle|Hgt].
    + rewrite firstn_all2 by assumption. rewrite skipn_all2 by assumption. rewrite pieces_nil.
      assert (Hle2 : base + zlen data <= top) by (rewrite Htop; apply Z.le_refl).
      destruct (g_ok base data Hal Hne Hle Hle2 (or_intror Htop)) as (c & Hc & Hok).
      exists c. simpl. rewrite Hc. rewrite app_nil_r. split; [reflexivity|]. now apply P_last.
    + assert (Hl : length (firstn unit data) = unit) by (rewrite firstn_length; lia).
      assert (Hz : zlen (firstn unit data) = Z.of_nat unit) by (unfold zlen; now rewrite Hl).
      assert (Hsplit : zlen (firstn unit data) + zlen (skipn unit data) = zlen data)
        by (rewrite <- zlen_app, firstn_skipn; reflexivity).
      assert (Hrest : skipn unit data <> []).
      { intros E. apply (f_equal (@length N)) in E. rewrite skipn_length in E. simpl in E. lia. }
      pose proof (zlen_nonneg (skipn unit data)).
      destruct (g_ok base (firstn unit data) Hal) as (c & Hc & Hok); try lia.
      { intros E. rewrite E in Hl. simpl in Hl. lia. }
      { left; assumption. }
      rewrite Hz.
      destruct (IH (base + Z.of_nat unit) (skipn unit data)) as (out & Ho & HP).
      { rewrite skipn_length. subst data. cbn [length] in *. lia. }
      { now apply al_step. }
      { lia. }
      exists (c ++ out). cbn [seq_concat]. rewrite Hc, Ho. split; [reflexivity|].
      rewrite <- (firstn_skipn unit data) at 1. now apply P_step.
Qed.
End WalkInduction.
