From Coq Require Import ZArith NArith List Bool Lia.
Require Import Value Bytes BytesProofs Sha2 GenRot RotModel.
