(* Proofs/RotProofs.v -- lemmas about Model/RotModel.v (C03). *)
From Coq Require Import ZArith NArith List Bool Lia.
Require Import Value Bytes BytesProofs Sha2 GenRot RotModel.
Import ListNotations.
Ltac Zify.zify_post_hook ::= Z.to_euclidean_division_equations.
Local Open Scope N_scope.

(* ====================================================================================== *)
(* encoders, sizes                                                                          *)
(* ====================================================================================== *)
Lemma le_encf_eq w n : le_encf w n = le_enc w n.
Proof.
  revert n; induction w as [|w IH]; intros n; [reflexivity|].
  cbn [le_encf le_enc]. rewrite IH. f_equal.
  - change 255 with (N.ones 8). rewrite N.land_ones. reflexivity.
  - rewrite N.shiftr_div_pow2. reflexivity.
Qed.
Lemma be_encf_eq w n : be_encf w n = be_enc w n.
Proof. unfold be_encf, be_enc. now rewrite le_encf_eq. Qed.
Lemma be_encf_length w n : length (be_encf w n) = w.
Proof. rewrite be_encf_eq. apply be_enc_length. Qed.
Lemma be_encf_wf w n : wf_bytes (be_encf w n).
Proof. rewrite be_encf_eq. apply be_enc_wf. Qed.

Lemma rsize_upper n : n < 2 ^ N.size n.
Proof. apply N.size_gt. Qed.
Lemma rsize_lower n : n <> 0 -> 2 ^ (N.size n - 1) <= n.
Proof.
  intros Hn. pose proof (N.size_le n) as H.
  assert (Hs : N.size n <> 0) by (destruct n; [contradiction|simpl; discriminate]).
  replace (N.size n) with (N.succ (N.size n - 1)) in H by lia.
  rewrite N.pow_succ_r' in H.
  destruct n as [|p]; [contradiction|]. simpl N.succ_double in H. lia.
Qed.
Lemma rsize_le_iff n k : N.size n <= k <-> n < 2 ^ k.
Proof.
  split; intros H.
  - eapply N.lt_le_trans; [apply rsize_upper|]. apply N.pow_le_mono_r; lia.
  - destruct (N.eq_dec n 0) as [->|Hn]; [simpl; lia|].
    destruct (N.le_gt_cases (N.size n) k) as [|Hgt]; [assumption|exfalso].
    pose proof (rsize_lower n Hn) as HL.
    assert (2 ^ k <= 2 ^ (N.size n - 1)) by (apply N.pow_le_mono_r; lia). lia.
Qed.

Lemma to_bytes_ok len v : v < 2 ^ (8 * N.of_nat len) -> to_bytes len v = Ok (be_encf len v).
Proof. intros H. unfold to_bytes. apply rsize_le_iff in H. apply N.leb_le in H. now rewrite H. Qed.
Lemma to_bytes_inv len v b : to_bytes len v = Ok b -> b = be_encf len v /\ v < 2 ^ (8 * N.of_nat len).
Proof.
  unfold to_bytes. destruct (N.size v <=? 8 * N.of_nat len) eqn:E; [|discriminate].
  intros H; inversion H; subst. split; [reflexivity|]. apply rsize_le_iff. now apply N.leb_le.
Qed.

Lemma byte_len_bound v : v < 2 ^ (8 * N.of_nat (byte_len v)).
Proof.
  eapply N.lt_le_trans; [apply rsize_upper|]. apply N.pow_le_mono_r; [lia|].
  unfold byte_len. rewrite N2Nat.id. lia.
Qed.
Lemma be_dec_be_min v : be_dec (be_min v) = v.
Proof. unfold be_min. rewrite be_encf_eq. apply be_dec_enc_small. apply byte_len_bound. Qed.
(* minimality: no shorter big-endian string holds v *)
Lemma be_min_minimal v w : (w < byte_len v)%nat -> be_dec (be_encf w v) <> v.
Proof.
  intros Hw. rewrite be_encf_eq, be_dec_enc.
  assert (Hv : v <> 0).
  { intros ->. unfold byte_len in Hw. simpl in Hw. lia. }
  pose proof (rsize_lower v Hv) as HL.
  assert (HP : 2 ^ (8 * N.of_nat w) <= 2 ^ (N.size v - 1)).
  { apply N.pow_le_mono_r; [lia|]. unfold byte_len in Hw. lia. }
  intros E. assert (v mod 2 ^ (8 * N.of_nat w) < 2 ^ (8 * N.of_nat w)) by (apply N.mod_lt; apply N.pow_nonzero; lia).
  lia.
Qed.

(* ====================================================================================== *)
(* hashes                                                                                   *)
(* ====================================================================================== *)
Lemma digest_bytes_length c s : length (digest_bytes c s) = (8 * wbytes c)%nat.
Proof.
  destruct s as [[[[[[[a b] cc] d] e] f] g] h]. unfold digest_bytes. cbn [map concat].
  rewrite !app_length, !be_enc_length. simpl. lia.
Qed.
Lemma sha256_length m : length (sha256 m) = 32%nat.
Proof. unfold sha256, sha2. rewrite firstn_length, digest_bytes_length. reflexivity. Qed.
Lemma sha384_length m : length (sha384 m) = 48%nat.
Proof. unfold sha384, sha2. rewrite firstn_length, digest_bytes_length. reflexivity. Qed.
Lemma sha512_length m : length (sha512 m) = 64%nat.
Proof. unfold sha512, sha2. rewrite firstn_length, digest_bytes_length. reflexivity. Qed.
Lemma hash_length a m : length (hash a m) = hlen a.
Proof. destruct a; [apply sha256_length|apply sha384_length|apply sha512_length]. Qed.
Lemma nlen_sha256 m : nlen (sha256 m) = 32.
Proof. unfold nlen. now rewrite sha256_length. Qed.
(* from here on the hash functions are black boxes for unification (vm_compute still evaluates them) *)
Global Opaque sha256 sha384 sha512.

(* ====================================================================================== *)
(* lists                                                                                    *)
(* ====================================================================================== *)
Lemma firstn_app_len {A} (a b : list A) n : n = length a -> firstn n (a ++ b) = a.
Proof. intros ->. rewrite firstn_app, Nat.sub_diag, firstn_all. simpl. apply app_nil_r. Qed.
Lemma skipn_app_len {A} (a b : list A) n : n = length a -> skipn n (a ++ b) = b.
Proof. intros ->. rewrite skipn_app, Nat.sub_diag, skipn_all. reflexivity. Qed.
Lemma nlen_app {A} (a b : list A) : nlen (a ++ b) = nlen a + nlen b.
Proof. unfold nlen. rewrite app_length. lia. Qed.
Lemma nlen_nat {A} (a : list A) : N.to_nat (nlen a) = length a.
Proof. unfold nlen. apply Nat2N.id. Qed.

Lemma map_res_ok {A B} (f : A -> res B) (g : A -> B) l :
  (forall a, In a l -> f a = Ok (g a)) -> map_res f l = Ok (map g l).
Proof.
  induction l as [|a t IH]; intros H; [reflexivity|].
  cbn [map_res map]. rewrite (H a (or_introl eq_refl)). rewrite IH; [reflexivity|].
  intros b Hb. apply H. now right.
Qed.
Lemma map_res_ext {A B} (f g : A -> res B) l : (forall a, In a l -> f a = g a) -> map_res f l = map_res g l.
Proof.
  induction l as [|a t IH]; intros H; [reflexivity|].
  cbn [map_res]. rewrite (H a (or_introl eq_refl)). rewrite IH; [reflexivity|]. intros b Hb. apply H. now right.
Qed.

(* ====================================================================================== *)
(* per-key hashes and RKHT.from_keys                                                        *)
(* ====================================================================================== *)
Definition key_ok (k : key) : Prop :=
  match k with
  | KRsa _ _ => True
  | KEcc c x y => x < 2 ^ (8 * N.of_nat (coord_size c)) /\ y < 2 ^ (8 * N.of_nat (coord_size c))
  end.
Definition is_rsa (k : key) : Prop := match k with KRsa _ _ => True | _ => False end.
Definition is_ecc (c : N) (k : key) : Prop := match k with KEcc c' _ _ => c' = c | _ => False end.
(* the key sets the RKHT classes accept: RSA keys, or ECC keys of one curve P-256 / P-384 *)
Definition uniform (ks : list key) : Prop :=
  Forall is_rsa ks \/ exists c, (c = 256 \/ c = 384) /\ Forall (is_ecc c) ks.

Lemma raw_key_ecc c x y : key_ok (KEcc c x y) ->
  raw_key (KEcc c x y) = Ok (be_encf (coord_size c) x ++ be_encf (coord_size c) y).
Proof. intros [Hx Hy]. unfold raw_key. rewrite (to_bytes_ok _ _ Hx), (to_bytes_ok _ _ Hy). reflexivity. Qed.

Lemma calc_key_hash_spec k a : key_ok k -> key_halg k = Ok a -> calc_key_hash k = Ok (rkh_spec k).
Proof.
  destruct k as [n e|c x y]; intros Hk Ha; [reflexivity|].
  destruct Hk as [Hx Hy]. unfold calc_key_hash. rewrite (to_bytes_ok _ _ Hy), (to_bytes_ok _ _ Hx). cbn [bind].
  unfold key_halg in *. unfold rkh_spec.
  destruct (c =? 256); [inversion Ha; reflexivity|]. destruct (c =? 384); [inversion Ha; reflexivity|discriminate].
Qed.

Lemma rkh_spec_length k : length (rkh_spec k) = match k with KEcc c _ _ => if c =? 256 then 32%nat else if c =? 384 then 48%nat else 64%nat | _ => 32%nat end.
Proof.
  destruct k as [n e|c x y]; [apply sha256_length|]. unfold rkh_spec.
  destruct (c =? 256); [apply sha256_length|]. destruct (c =? 384); [apply sha384_length|apply sha512_length].
Qed.

Lemma uniform_halg ks k0 : uniform (k0 :: ks) ->
  exists a0, key_halg k0 = Ok a0 /\ forall k, In k (k0 :: ks) -> key_halg k = Ok a0 /\ same_class k0 k = true.
Proof.
  intros [H|(c & Hc & H)].
  - exists A256. rewrite Forall_forall in H. pose proof (H k0 (or_introl eq_refl)) as H0.
    destruct k0; [|contradiction]. split; [reflexivity|]. intros k Hk. specialize (H k Hk). destruct k; [|contradiction]. split; reflexivity.
  - rewrite Forall_forall in H. pose proof (H k0 (or_introl eq_refl)) as H0.
    destruct k0 as [|c0 x0 y0]; [contradiction|]. simpl in H0. subst c0.
    exists (if c =? 256 then A256 else A384). split.
    + unfold key_halg. destruct Hc as [-> | ->]; reflexivity.
    + intros k Hk. specialize (H k Hk). destruct k as [|c1 x1 y1]; [contradiction|]. simpl in H. subst c1.
      split; [|reflexivity]. unfold key_halg. destruct Hc as [-> | ->]; reflexivity.
Qed.

Lemma halg_eqb_refl a : halg_eqb a a = true.
Proof. destruct a; reflexivity. Qed.

Lemma rkht_from_keys_ok ks : uniform ks -> Forall key_ok ks -> (length ks <= 4)%nat ->
  rkht_from_keys ks = Ok (map rkh_spec ks).
Proof.
  intros HU HK HL. destruct ks as [|k0 t]; [reflexivity|].
  destruct (uniform_halg t k0 HU) as (a0 & H0 & Hall).
  unfold rkht_from_keys.
  assert (E1 : forallb (same_class k0) (k0 :: t) = true).
  { apply forallb_forall. intros k Hk. apply (Hall k Hk). }
  rewrite E1. cbn [negb]. rewrite H0.
  assert (E2 : forallb (fun k => match key_halg k with Ok a => halg_eqb a a0 | Err _ => false end) (k0 :: t) = true).
  { apply forallb_forall. intros k Hk. destruct (Hall k Hk) as [-> _]. apply halg_eqb_refl. }
  rewrite E2. cbn [negb].
  rewrite (map_res_ok calc_key_hash rkh_spec).
  - cbn [bind]. unfold nlen. rewrite map_length.
    destruct (4 <? N.of_nat (length (k0 :: t))) eqn:E; [apply N.ltb_lt in E; lia|reflexivity].
  - intros k Hk. rewrite Forall_forall in HK. apply (calc_key_hash_spec k a0); [apply HK, Hk|apply (Hall k Hk)].
Qed.

(* every hash of an accepted RSA / P-256 set is 32 bytes: RKHTv1.__init__ passes *)
Definition v1_set (ks : list key) : Prop := Forall is_rsa ks \/ Forall (is_ecc 256) ks.
Lemma v1_set_uniform ks : v1_set ks -> uniform ks.
Proof. intros [H|H]; [now left|right; exists 256; split; [now left|assumption]]. Qed.
Lemma v1_hash_len ks k : v1_set ks -> In k ks -> length (rkh_spec k) = 32%nat.
Proof.
  intros [H|H] Hk; rewrite Forall_forall in H; specialize (H k Hk); rewrite rkh_spec_length;
    destruct k as [|c x y]; try contradiction; try reflexivity. simpl in H. subst c. reflexivity.
Qed.
Lemma rkht_v1_ok ks : v1_set ks -> Forall key_ok ks -> (length ks <= 4)%nat -> rkht_v1 ks = Ok (map rkh_spec ks).
Proof.
  intros HV HK HL. unfold rkht_v1. rewrite rkht_from_keys_ok by (try apply v1_set_uniform; assumption). cbn [bind].
  assert (E : forallb (fun h => nlen h =? g_rkh_size) (map rkh_spec ks) = true).
  { apply forallb_forall. intros h Hh. apply in_map_iff in Hh as (k & <- & Hk).
    unfold nlen. rewrite (v1_hash_len ks k HV Hk). reflexivity. }
  now rewrite E.
Qed.

(* RKHTv1.export of up to four 32-byte hashes = the hashes followed by zero slots *)
Lemma export_v1_spec (hs : list (list N)) : (length hs <= 4)%nat -> (forall h, In h hs -> length h = 32%nat) ->
  export_v1 hs = concat hs ++ zeros (32 * (4 - length hs)).
Proof.
  intros HL HH. unfold export_v1. change (N.to_nat g_rkht_size) with 4%nat. cbn [seq map concat].
  assert (S : forall i h, nth_error hs i = Some h -> slot_v1 hs i = h).
  { intros i h E. unfold slot_v1. rewrite E. pose proof (HH h (nth_error_In _ _ E)) as L. destruct h; [discriminate|reflexivity]. }
  assert (Z : forall i, nth_error hs i = None -> slot_v1 hs i = zeros 32).
  { intros i E. unfold slot_v1. now rewrite E. }
  destruct hs as [|h0 [|h1 [|h2 [|h3 [|h4 t]]]]]; cbn [length] in HL; try lia.
  - rewrite !Z by reflexivity. reflexivity.
  - rewrite (S 0%nat h0), !Z by reflexivity. cbn [concat length Nat.sub Nat.mul]. rewrite !app_nil_r. reflexivity.
  - rewrite (S 0%nat h0), (S 1%nat h1), !Z by reflexivity. cbn [concat length]. rewrite ?app_nil_r, <- ?app_assoc. reflexivity.
  - rewrite (S 0%nat h0), (S 1%nat h1), (S 2%nat h2), !Z by reflexivity. cbn [concat length]. rewrite ?app_nil_r, <- ?app_assoc. reflexivity.
  - rewrite (S 0%nat h0), (S 1%nat h1), (S 2%nat h2), (S 3%nat h3) by reflexivity. cbn [concat length]. rewrite ?app_nil_r, <- ?app_assoc. reflexivity.
Qed.

Lemma rkth_v1_spec ks : v1_set ks -> (length ks <= 4)%nat -> rkth_v1 (map rkh_spec ks) = rot_spec_v1 ks.
Proof.
  intros HV HL. unfold rkth_v1, rot_spec_v1. rewrite export_v1_spec.
  - now rewrite map_length.
  - now rewrite map_length.
  - intros h Hh. apply in_map_iff in Hh as (k & <- & Hk). apply (v1_hash_len ks k HV Hk).
Qed.

Lemma convert_all_plain ks : convert_all (map (fun k => (k, SPlain)) ks) = Ok (map (fun k => (k, false)) ks).
Proof. unfold convert_all. rewrite map_res_ok with (g := fun p : key * supply => (fst p, false)); [now rewrite map_map|]. intros [k s] H. apply in_map_iff in H as (k' & E & _). inversion E; subst. reflexivity. Qed.

Lemma rot_v1_plain ks : v1_set ks -> Forall key_ok ks -> (length ks <= 4)%nat ->
  rot_v1 (map (fun k => (k, SPlain)) ks) = Ok (rot_spec_v1 ks).
Proof.
  intros HV HK HL. unfold rot_v1. rewrite convert_all_plain. cbn [bind]. rewrite map_map. cbn [fst]. rewrite map_id.
  rewrite rkht_v1_ok by assumption. cbn [bind]. now rewrite rkth_v1_spec.
Qed.

(* ---- the other cert-block-v1 paths *)
Lemma key_hash256_v1 ks k : v1_set ks -> Forall key_ok ks -> In k ks -> key_hash256 k = Ok (rkh_spec k).
Proof.
  intros HV HK Hk. rewrite Forall_forall in HK. specialize (HK k Hk).
  destruct HV as [H|H]; rewrite Forall_forall in H; specialize (H k Hk); destruct k as [n e|c x y]; try contradiction.
  - unfold key_hash256, raw_key, rkh_spec. cbn [bind]. reflexivity.
  - simpl in H. subst c. unfold key_hash256. rewrite raw_key_ecc by assumption. cbn [bind]. unfold rkh_spec.
    change (256 =? 256) with true. cbv iota. unfold hash. reflexivity.
Qed.
Lemma cb1_rkh_ok ks : v1_set ks -> Forall key_ok ks -> (length ks <= 4)%nat ->
  cb1_rkh_of_keys (map Some ks) = Ok (map rkh_spec ks).
Proof.
  intros HV HK HL. unfold cb1_rkh_of_keys. unfold nlen. rewrite map_length.
  destruct (4 <? N.of_nat (length ks)) eqn:E; [apply N.ltb_lt in E; lia|].
  rewrite map_res_ok with (g := fun o : option key => match o with Some k => rkh_spec k | None => zeros 32 end).
  - now rewrite map_map.
  - intros o Ho. apply in_map_iff in Ho as (k & <- & Hk). apply (key_hash256_v1 ks k HV HK Hk).
Qed.

Lemma pfr_v1_ok ks : v1_set ks -> Forall key_ok ks -> (length ks <= 4)%nat -> ks <> [] ->
  pfr_rotkh 1 256 ks = Ok (rot_spec_v1 ks).
Proof.
  intros HV HK HL HN. unfold pfr_rotkh. change (1 =? 1) with true. cbv iota.
  rewrite rkht_v1_ok by assumption. cbn [bind]. destruct ks as [|k0 t]; [contradiction|]. cbn [map].
  assert (L : nlen (rkh_spec k0) = 32).
  { unfold nlen. rewrite (v1_hash_len (k0 :: t) k0 HV (or_introl eq_refl)). reflexivity. }
  rewrite L. change (256 <? 8 * 32) with false. cbv iota. cbn [bind].
  change (rkh_spec k0 :: map rkh_spec t) with (map rkh_spec (k0 :: t)). rewrite rkth_v1_spec by assumption.
  unfold rot_spec_v1 at 2. rewrite sha256_length. change (N.to_nat (256 / 8) - 32)%nat with 0%nat. simpl zeros.
  now rewrite app_nil_r.
Qed.

(* debug credential, RSA: the exponent is written in exactly three bytes *)
Definition rsa_e3 (k : key) : Prop := match k with KRsa _ e => byte_len e = 3%nat | _ => False end.
Lemma dc_rsa_item_ok k : rsa_e3 k -> dc_rsa_item k = Ok (rkh_spec k).
Proof.
  destruct k as [n e|]; [|contradiction]. intros H. simpl in H. unfold dc_rsa_item.
  assert (B : e < 2 ^ (8 * N.of_nat 3)) by (rewrite <- H; apply byte_len_bound).
  rewrite (to_bytes_ok _ _ B). cbn [bind]. unfold rkh_spec, be_min. now rewrite H.
Qed.
Lemma rsa_e3_is_rsa ks : Forall rsa_e3 ks -> Forall is_rsa ks.
Proof. apply Forall_impl. intros [|] H; [exact I|contradiction]. Qed.
Lemma concat_len32 (hs : list (list N)) : (forall h, In h hs -> length h = 32%nat) -> length (concat hs) = (32 * length hs)%nat.
Proof.
  induction hs as [|h t IH]; intros H; [reflexivity|]. cbn [concat length]. rewrite app_length, (H h (or_introl eq_refl)), IH; [lia|].
  intros x Hx. apply H. now right.
Qed.
Lemma dc_rsa_ok ks : Forall rsa_e3 ks -> (length ks <= 4)%nat -> dc_rsa_hash ks = Ok (rot_spec_v1 ks).
Proof.
  intros HE HL. unfold dc_rsa_hash, dc_rsa_meta. unfold nlen.
  destruct (4 <? N.of_nat (length ks)) eqn:E; [apply N.ltb_lt in E; lia|].
  rewrite (map_res_ok dc_rsa_item rkh_spec).
  - cbn [bind]. unfold rot_spec_v1. do 2 f_equal. rewrite concat_len32.
    + rewrite map_length. do 2 f_equal. lia.
    + intros h Hh. apply in_map_iff in Hh as (k & <- & Hk).
      apply (v1_hash_len ks k (or_introl (rsa_e3_is_rsa ks HE)) Hk).
  - intros k Hk. rewrite Forall_forall in HE. apply dc_rsa_item_ok, HE, Hk.
Qed.

Lemma rsa_key_ok ks : Forall is_rsa ks -> Forall key_ok ks.
Proof. apply Forall_impl. intros [|] H; [exact I|contradiction]. Qed.

(* ---- cert block v1: every tool path gives the documented value *)
Lemma paths_agree_v1_lemma (ks : list key) :
  Forall is_rsa ks -> (length ks <= 4)%nat ->
  rot_v1 (map (fun k => (k, SPlain)) ks) = Ok (rot_spec_v1 ks)
  /\ (exists hs, cb1_rkh_of_keys (map Some ks) = Ok hs /\
        forall mj mn fl bn il certs, cb1_rkth {| c1_major := mj; c1_minor := mn; c1_flags := fl; c1_build := bn;
                                               c1_image_length := il; c1_certs := certs; c1_rkh := hs |} = rot_spec_v1 ks)
  /\ (ks <> [] -> pfr_rotkh 1 256 ks = Ok (rot_spec_v1 ks))
  /\ (Forall rsa_e3 ks -> dc_rsa_hash ks = Ok (rot_spec_v1 ks)).
Proof.
  intros HR HL. pose proof (rsa_key_ok ks HR) as HK. assert (HV : v1_set ks) by (now left).
  split; [apply rot_v1_plain; assumption|]. split.
  - exists (map rkh_spec ks). split; [apply cb1_rkh_ok; assumption|]. intros. unfold cb1_rkth. cbn [c1_rkh]. now apply rkth_v1_spec.
  - split; [intros HN; apply pfr_v1_ok; assumption|]. intros HE. now apply dc_rsa_ok.
Qed.
Example paths_agree_v1_nontrivial : Forall is_rsa [KRsa 143 65537; KRsa 187 65537] /\ Forall rsa_e3 [KRsa 143 65537; KRsa 187 65537].
Proof. split; repeat constructor. Qed.

(* without the three-byte exponent the debug-credential path disagrees (e = 3) *)
Lemma dc_rsa_e3_refuted : exists k, is_rsa k /\ ~ rsa_e3 k /\ dc_rsa_hash [k] <> rot_v1 [(k, SPlain)].
Proof.
  exists (KRsa 143 3). split; [exact I|]. split.
  - simpl. vm_compute. discriminate.
  - vm_compute. discriminate.
Qed.

(* ====================================================================================== *)
(* cert block v2.1 paths                                                                    *)
(* ====================================================================================== *)
Definition ecc_set (c : N) (ks : list key) : Prop := (c = 256 \/ c = 384) /\ Forall (is_ecc c) ks.
Lemma ecc_set_uniform c ks : ecc_set c ks -> uniform ks.
Proof. intros [Hc H]. right. exists c. now split. Qed.
Definition halg_c (c : N) : halg := if c =? 256 then A256 else A384.

Lemma ecc_hash_len c ks k : ecc_set c ks -> In k ks -> rkh_spec k = hash (halg_c c) (match k with KEcc _ x y => be_encf (coord_size c) x ++ be_encf (coord_size c) y | _ => [] end)
  /\ length (rkh_spec k) = hlen (halg_c c).
Proof.
  intros [Hc H] Hk. rewrite Forall_forall in H. specialize (H k Hk). destruct k as [|c1 x y]; [contradiction|]. simpl in H. subst c1.
  unfold rkh_spec, halg_c. destruct Hc as [-> | ->]; cbn; split; try reflexivity; apply hash_length.
Qed.

Lemma rkth_v21_spec c ks : ecc_set c ks -> ks <> [] -> rkth_v21 (map rkh_spec ks) = Ok (rot_spec_v21 ks).
Proof.
  intros HS HN. destruct ks as [|k0 [|k1 t]]; [contradiction|reflexivity|].
  cbn [map rkth_v21]. destruct (ecc_hash_len c _ k0 HS (or_introl eq_refl)) as [_ L0].
  unfold nlen. rewrite L0.
  assert (EH : halg_of_len (N.of_nat (hlen (halg_c c))) = Ok (halg_c c)).
  { destruct HS as [[-> | ->] _]; reflexivity. }
  rewrite EH. cbn [bind]. unfold export_v21, nlen. cbn [length].
  replace (1 <? N.of_nat (S (S (length (map rkh_spec t))))) with true by (symmetry; apply N.ltb_lt; lia).
  unfold rot_spec_v21. destruct HS as [Hc H]. inversion H as [|? ? H0 _]; subst.
  destruct k0 as [|c0 x0 y0]; [contradiction|]. simpl in H0. subst c0.
  destruct Hc as [-> | ->]; reflexivity.
Qed.

Lemma rot_v21_plain c ks : ecc_set c ks -> Forall key_ok ks -> (length ks <= 4)%nat -> ks <> [] ->
  rot_v21 (map (fun k => (k, SPlain)) ks) = Ok (rot_spec_v21 ks).
Proof.
  intros HS HK HL HN. unfold rot_v21. rewrite convert_all_plain. cbn [bind]. rewrite map_map. cbn [fst]. rewrite map_id.
  rewrite rkht_from_keys_ok by (try apply (ecc_set_uniform c); assumption). cbn [bind]. now apply (rkth_v21_spec c).
Qed.

Lemma ecc_only_set c ks : ecc_set c ks -> ecc_only ks = true.
Proof.
  intros [_ H]. unfold ecc_only. apply forallb_forall. intros k Hk. rewrite Forall_forall in H. specialize (H k Hk).
  destruct k; [contradiction|reflexivity].
Qed.

Lemma rkr_calc_ok c ca used ks : ecc_set c ks -> Forall key_ok ks -> (length ks <= 4)%nat -> (N.to_nat used < length ks)%nat ->
  exists k pub, nth_error ks (N.to_nat used) = Some k /\ raw_key k = Ok pub /\
    rkr_calc ca used ks = Ok (N.lor (N.lor (N.lor (if ca then 2 ^ 31 else 0) (N.shiftl used 8)) (N.shiftl (nlen ks) 4)) (curve_nibble c),
                              map rkh_spec ks, pub).
Proof.
  intros HS HK HL HU. destruct (nth_error ks (N.to_nat used)) as [k|] eqn:EN; [|apply nth_error_None in EN; lia].
  pose proof (nth_error_In _ _ EN) as Hk.
  assert (KO : key_ok k) by (rewrite Forall_forall in HK; now apply HK).
  destruct HS as [Hc HF]. assert (HS : ecc_set c ks) by (now split).
  assert (Ek : is_ecc c k) by (rewrite Forall_forall in HF; now apply HF).
  destruct k as [|c1 x y]; [contradiction|]. simpl in Ek. subst c1.
  exists (KEcc c x y), (be_encf (coord_size c) x ++ be_encf (coord_size c) y). split; [reflexivity|]. split; [now apply raw_key_ecc|].
  unfold rkr_calc. destruct ks as [|k0 t]; [simpl in HU; lia|].
  rewrite (ecc_only_set c _ HS). cbn [negb].
  rewrite rkht_from_keys_ok by (try apply (ecc_set_uniform c); assumption). cbn [bind]. rewrite EN. rewrite raw_key_ecc by assumption. cbn [bind].
  inversion HF as [|? ? H0 _]; subst. destruct k0 as [|c0 x0 y0]; [contradiction|]. simpl in H0. subst c0. reflexivity.
Qed.

Lemma cb21_rkth_ok c ca used ks isk fam : ecc_set c ks -> Forall key_ok ks -> (length ks <= 4)%nat -> (N.to_nat used < length ks)%nat ->
  cb21_rkth {| b_ca := ca; b_used := used; b_keys := ks; b_isk := isk; b_family := fam |} = Ok (rot_spec_v21 ks).
Proof.
  intros HS HK HL HU. destruct (rkr_calc_ok c ca used ks HS HK HL HU) as (k & pub & _ & _ & E).
  unfold cb21_rkth. cbn [b_ca b_used b_keys]. rewrite E. cbn [bind]. apply (rkth_v21_spec c); [assumption|].
  intros ->. simpl in HU. lia.
Qed.

Lemma pfr_v21_ok c ks : ecc_set c ks -> Forall key_ok ks -> (length ks <= 4)%nat -> ks <> [] ->
  pfr_rotkh 21 384 ks = Ok (rot_spec_v21 ks ++ zeros (48 - length (rot_spec_v21 ks))).
Proof.
  intros HS HK HL HN. unfold pfr_rotkh. change (21 =? 1) with false. cbv iota.
  rewrite rkht_from_keys_ok by (try apply (ecc_set_uniform c); assumption). cbn [bind]. destruct ks as [|k0 t]; [contradiction|]. cbn [map].
  destruct (ecc_hash_len c _ k0 HS (or_introl eq_refl)) as [_ L0]. unfold nlen at 1. rewrite L0.
  assert (W : (384 <? 8 * N.of_nat (hlen (halg_c c))) = false) by (destruct HS as [[-> | ->] _]; reflexivity).
  rewrite W. change (rkh_spec k0 :: map rkh_spec t) with (map rkh_spec (k0 :: t)).
  rewrite (rkth_v21_spec c) by assumption. reflexivity.
Qed.

(* debug credential, ECC *)
Lemma div_mul_cancel_nat n : n <> 0 -> 32 * n / n = 32 /\ 48 * n / n = 48.
Proof. intros H. split; apply N.div_mul; assumption. Qed.
Lemma concat_len_k (k : nat) (hs : list (list N)) : (forall h, In h hs -> length h = k) -> length (concat hs) = (k * length hs)%nat.
Proof.
  induction hs as [|h t IH]; intros H; [simpl; lia|]. cbn [concat length]. rewrite app_length, (H h (or_introl eq_refl)), IH; [lia|].
  intros x Hx. apply H. now right.
Qed.

Lemma dc_ecc_ok c ks rot_id : ecc_set c ks -> Forall key_ok ks -> (length ks <= 4)%nat -> (N.to_nat rot_id < length ks)%nat ->
  dc_ecc_hash ks rot_id = Ok (rot_spec_v21 ks).
Proof.
  intros HS HK HL HU. destruct HS as [Hc HF]. assert (HS : ecc_set c ks) by (now split).
  unfold dc_ecc_hash, dc_ecc_items. destruct ks as [|k0 t] eqn:EK; [simpl in HU; lia|]. rewrite <- EK in *.
  assert (E1 : forallb (fun k => match k with KEcc _ _ _ => true | _ => false end) ks = true).
  { apply forallb_forall. intros k Hk. rewrite Forall_forall in HF. specialize (HF k Hk). destruct k; [contradiction|reflexivity]. }
  assert (KB : forall k, In k ks -> key_bits k = c).
  { intros k Hk. rewrite Forall_forall in HF. specialize (HF k Hk). destruct k; [contradiction|exact HF]. }
  assert (K0 : key_bits k0 = c) by (apply KB; rewrite EK; now left).
  assert (I0 : is_ecc c k0) by (rewrite Forall_forall in HF; apply HF; rewrite EK; now left).
  rewrite EK at 1. rewrite <- EK. rewrite E1. cbn [negb]. rewrite K0.
  assert (E2 : forallb (fun k => N.of_nat (coord_size (key_bits k)) =? N.of_nat (coord_size c)) ks = true).
  { apply forallb_forall. intros k Hk. rewrite (KB k Hk). apply N.eqb_refl. }
  rewrite E2. cbn [negb].
  assert (EH : dc_hash_of_size (N.of_nat (coord_size c)) = Ok (halg_c c)) by (destruct Hc as [-> | ->]; reflexivity).
  rewrite EH. cbn [bind].
  assert (LN : (4 <? nlen ks) || (nlen ks <? rot_id + 1) = false).
  { unfold nlen. apply orb_false_iff. split; [apply N.ltb_ge; lia|apply N.ltb_ge; lia]. }
  destruct (1 <? nlen ks) eqn:E1n.
  - rewrite (map_res_ok _ rkh_spec).
    2:{ intros k Hk. assert (KO : key_ok k) by (rewrite Forall_forall in HK; now apply HK).
        destruct (ecc_hash_len c ks k HS Hk) as [EQ _]. rewrite EQ.
        assert (B : is_ecc c k) by (rewrite Forall_forall in HF; now apply HF).
        destruct k as [|c1 x y]; [contradiction|]. simpl in B. subst c1. rewrite raw_key_ecc by assumption. reflexivity. }
    cbn [bind]. rewrite LN.
    assert (E1m : (1 <? nlen (map rkh_spec ks)) = true) by (unfold nlen in *; now rewrite map_length).
    rewrite E1m.
    assert (LC : length (concat (map rkh_spec ks)) = (hlen (halg_c c) * length ks)%nat).
    { rewrite (concat_len_k (hlen (halg_c c))); [now rewrite map_length|].
      intros h Hh. apply in_map_iff in Hh as (k & <- & Hk). apply (ecc_hash_len c ks k HS Hk). }
    destruct (concat (map rkh_spec ks)) as [|b0 tb] eqn:EC.
    { exfalso. simpl in LC. rewrite EK in LC. simpl in LC. destruct Hc as [-> | ->]; simpl in LC; lia. }
    rewrite <- EC.
    assert (RS : rot_spec_v21 ks = hash (halg_c c) (concat (map rkh_spec ks))).
    { rewrite EK. rewrite EK in E1n. destruct t as [|k1 t']; [unfold nlen in E1n; simpl in E1n; discriminate|].
      unfold rot_spec_v21. destruct k0 as [|c0 x0 y0]; [contradiction|]. simpl in I0. subst c0.
      destruct Hc as [-> | ->]; reflexivity. }
    now rewrite RS.
  - cbn [bind]. rewrite LN. change (nlen (@nil (list N))) with 0. change (1 <? 0) with false. cbv iota.
    assert (L1 : ks = [k0]).
    { rewrite EK. destruct t; [reflexivity|]. rewrite EK in E1n. unfold nlen in E1n. simpl in E1n. apply N.ltb_ge in E1n. lia. }
    assert (R0 : N.to_nat rot_id = 0%nat) by (rewrite L1 in HU; simpl in HU; lia).
    rewrite R0, L1. cbn [nth_error].
    assert (KO : key_ok k0) by (rewrite Forall_forall in HK; apply HK; rewrite EK; now left).
    destruct k0 as [|c0 x0 y0]; [contradiction|]. simpl in I0. subst c0.
    rewrite raw_key_ecc by assumption. unfold key_halg, rot_spec_v21, rkh_spec. destruct Hc as [-> | ->]; reflexivity.
Qed.

Lemma paths_agree_v21_lemma (c : N) (ks : list key) :
  (c = 256 \/ c = 384) -> Forall (is_ecc c) ks -> Forall key_ok ks -> ks <> [] -> (length ks <= 4)%nat ->
  rot_v21 (map (fun k => (k, SPlain)) ks) = Ok (rot_spec_v21 ks)
  /\ (forall ca used isk fam, (N.to_nat used < length ks)%nat ->
        cb21_rkth {| b_ca := ca; b_used := used; b_keys := ks; b_isk := isk; b_family := fam |} = Ok (rot_spec_v21 ks))
  /\ (forall rot_id, (N.to_nat rot_id < length ks)%nat -> dc_ecc_hash ks rot_id = Ok (rot_spec_v21 ks))
  /\ pfr_rotkh 21 384 ks = Ok (rot_spec_v21 ks ++ zeros (48 - length (rot_spec_v21 ks))).
Proof.
  intros Hc HF HK HN HL. assert (HS : ecc_set c ks) by (now split).
  split; [now apply (rot_v21_plain c)|]. split; [intros; now apply (cb21_rkth_ok c)|].
  split; [intros; now apply (dc_ecc_ok c)|now apply (pfr_v21_ok c)].
Qed.

(* ====================================================================================== *)
(* independence of the signer (used root index, certificates) -- for ALL key lists          *)
(* ====================================================================================== *)
Lemma map_res_in {A B} (f : A -> res B) l r a : map_res f l = Ok r -> In a l -> exists b, f a = Ok b.
Proof.
  revert r; induction l as [|x t IH]; intros r H Ha; [contradiction|].
  cbn [map_res] in H. destruct (f x) as [b|] eqn:Ex; [|discriminate]. destruct (map_res f t) as [bs|] eqn:Et; [|discriminate].
  destruct Ha as [->|Ha]; [now exists b|]. apply (IH bs eq_refl Ha).
Qed.
Lemma calc_ok_raw_ok k h : calc_key_hash k = Ok h -> exists p, raw_key k = Ok p.
Proof.
  destruct k as [n e|c x y]; intros H; [eexists; reflexivity|].
  unfold calc_key_hash in H. destruct (to_bytes (coord_size c) y) as [yb|] eqn:Ey; [|discriminate].
  cbn [bind] in H. destruct (to_bytes (coord_size c) x) as [xb|] eqn:Ex; [|discriminate].
  unfold raw_key. rewrite Ex, Ey. eexists; reflexivity.
Qed.
Lemma rkht_from_keys_in ks hs k : rkht_from_keys ks = Ok hs -> In k ks -> exists p, raw_key k = Ok p.
Proof.
  intros H Hk. unfold rkht_from_keys in H. destruct ks as [|k0 t] eqn:EK; [contradiction|]. rewrite <- EK in *.
  destruct (negb (forallb (same_class k0) ks)); [discriminate|]. destruct (key_halg k0); [|discriminate].
  destruct (negb _); [discriminate|]. destruct (map_res calc_key_hash ks) as [hs'|] eqn:EM; [|discriminate].
  destruct (map_res_in _ _ _ k EM Hk) as (h & Eh). apply (calc_ok_raw_ok k h Eh).
Qed.

Lemma cb21_rkth_general ca used ks isk fam : (N.to_nat used < length ks)%nat ->
  cb21_rkth {| b_ca := ca; b_used := used; b_keys := ks; b_isk := isk; b_family := fam |}
  = if ecc_only ks then bind (rkht_from_keys ks) rkth_v21 else Err 1.
Proof.
  intros HU. unfold cb21_rkth, rkr_calc. cbn [b_ca b_used b_keys]. destruct ks as [|k0 t] eqn:EK; [simpl in HU; lia|]. rewrite <- EK in *.
  destruct (ecc_only ks); cbn [negb bind]; [|reflexivity].
  destruct (rkht_from_keys ks) as [hs|] eqn:ER; cbn [bind]; [|reflexivity].
  destruct (nth_error ks (N.to_nat used)) as [k|] eqn:EN; [|apply nth_error_None in EN; lia].
  destruct (rkht_from_keys_in ks hs k ER (nth_error_In _ _ EN)) as (p & Ep). rewrite Ep. reflexivity.
Qed.

Lemma independent_of_signer_lemma :
  (forall b b', b_keys b = b_keys b' -> (N.to_nat (b_used b) < length (b_keys b))%nat ->
                (N.to_nat (b_used b') < length (b_keys b))%nat -> cb21_rkth b = cb21_rkth b')
  /\ (forall b b', c1_rkh b = c1_rkh b' -> cb1_rkth b = cb1_rkth b' /\ cb1_fuses b = cb1_fuses b').
Proof.
  split.
  - intros [ca u ks isk fam] [ca' u' ks' isk' fam'] E H1 H2. cbn [b_keys b_used] in *. subst ks'.
    now rewrite !cb21_rkth_general.
  - intros b b' E. unfold cb1_fuses, cb1_rkth. rewrite E. split; reflexivity.
Qed.

(* ====================================================================================== *)
(* NXP raw keys: fixed-width coordinates, minimal RSA numbers, decode(encode) = id           *)
(* ====================================================================================== *)
Definition raw_ok (k : key) : Prop :=
  match k with
  | KRsa n e => (byte_len n = 256 \/ byte_len n = 384 \/ byte_len n = 512)%nat /\ (byte_len e = 3 \/ byte_len e = 4)%nat
  | KEcc c x y => (c = 256 \/ c = 384 \/ c = 521) /\ on_curve c x y = true
  end.

Lemma curve_p_bound c : c = 256 \/ c = 384 \/ c = 521 -> curve_p c <= 2 ^ (8 * N.of_nat (coord_size c)).
Proof. intros [-> | [-> | ->]]; vm_compute; discriminate. Qed.

Lemma on_curve_key_ok c x y : c = 256 \/ c = 384 \/ c = 521 -> on_curve c x y = true -> key_ok (KEcc c x y).
Proof.
  intros Hc H. unfold on_curve in H. apply andb_true_iff in H as [H _]. apply andb_true_iff in H as [Hx Hy].
  apply N.ltb_lt in Hx, Hy. pose proof (curve_p_bound c Hc). split; lia.
Qed.

Lemma be_dec_be_encf w v : v < 2 ^ (8 * N.of_nat w) -> be_dec (be_encf w v) = v.
Proof. intros H. rewrite be_encf_eq. now apply be_dec_enc_small. Qed.

Lemma raw_roundtrip_ecc c x y : raw_ok (KEcc c x y) -> bind (raw_key (KEcc c x y)) raw_decode = Ok (KEcc c x y).
Proof.
  intros [Hc HO]. pose proof (on_curve_key_ok c x y Hc HO) as [Hx Hy].
  rewrite raw_key_ecc by (split; assumption). cbn [bind]. unfold raw_decode.
  set (cs := coord_size c) in *.
  assert (L : length (be_encf cs x ++ be_encf cs y) = (2 * cs)%nat) by (rewrite app_length, !be_encf_length; lia).
  unfold nlen. rewrite L.
  replace (2 * cs / 2)%nat with cs by (rewrite Nat.mul_comm, Nat.div_mul; lia).
  rewrite firstn_app_len, skipn_app_len by (now rewrite be_encf_length).
  rewrite !be_dec_be_encf by assumption.
  destruct Hc as [-> | [-> | ->]]; subst cs; cbn [coord_size]; simpl N.of_nat; cbv iota beta; cbn [N.eqb Pos.eqb]; now rewrite HO.
Qed.

Lemma be_min_length v : length (be_min v) = byte_len v.
Proof. apply be_encf_length. Qed.

Lemma raw_roundtrip_rsa n e : raw_ok (KRsa n e) -> bind (raw_key (KRsa n e)) raw_decode = Ok (KRsa n e).
Proof.
  intros [Hn He]. cbn [raw_key bind]. unfold raw_decode.
  assert (L : length (be_min n ++ be_min e) = (byte_len n + byte_len e)%nat) by (now rewrite app_length, !be_min_length).
  unfold nlen. rewrite L.
  assert (D : forall m, byte_len n = m -> firstn m (be_min n ++ be_min e) = be_min n /\ skipn m (be_min n ++ be_min e) = be_min e).
  { intros m Hm. split; [apply firstn_app_len|apply skipn_app_len]; now rewrite be_min_length. }
  destruct Hn as [Hn | [Hn | Hn]]; destruct He as [He | He]; rewrite Hn, He; cbn -[be_min firstn skipn be_dec];
    match goal with |- context [firstn ?m _] => destruct (D m Hn) as [-> ->] end; now rewrite !be_dec_be_min.
Qed.

Lemma raw_key_roundtrip_lemma k : raw_ok k -> bind (raw_key k) raw_decode = Ok k.
Proof. destruct k; [apply raw_roundtrip_rsa|apply raw_roundtrip_ecc]. Qed.
(* P-256 base point is a valid key with this property; so is any 2048-bit modulus with e = 65537 *)
Example raw_ok_nontrivial :
  raw_ok (KEcc 256 0x6B17D1F2E12C4247F8BCE6E563A440F277037D812DEB33A0F4A13945D898C296 0x4FE342E2FE1A7F9B8EE7EB4A7C0F9E162BCE33576B315ECECBB6406837BF51F5)
  /\ raw_ok (KRsa (2 ^ 2047 + 1) 65537).
Proof. split; [split; [now left|vm_compute; reflexivity]|split; [left; vm_compute; reflexivity|left; vm_compute; reflexivity]]. Qed.

Lemma leading_zero_safe_lemma :
  (forall c x y, x < 2 ^ (8 * N.of_nat (coord_size c)) -> y < 2 ^ (8 * N.of_nat (coord_size c)) ->
     exists r, raw_key (KEcc c x y) = Ok r /\ length r = (2 * coord_size c)%nat /\
               be_dec (firstn (coord_size c) r) = x /\ be_dec (skipn (coord_size c) r) = y)
  /\ (forall n e, exists r, raw_key (KRsa n e) = Ok r /\ r = be_min n ++ be_min e /\
        be_dec (be_min n) = n /\ be_dec (be_min e) = e /\
        (forall w, (w < byte_len n)%nat -> be_dec (be_encf w n) <> n) /\ (forall w, (w < byte_len e)%nat -> be_dec (be_encf w e) <> e)).
Proof.
  split.
  - intros c x y Hx Hy. eexists. split; [apply raw_key_ecc; now split|].
    split; [rewrite app_length, !be_encf_length; lia|].
    rewrite firstn_app_len, skipn_app_len by (now rewrite be_encf_length). now rewrite !be_dec_be_encf.
  - intros n e. eexists. split; [reflexivity|]. split; [reflexivity|].
    split; [apply be_dec_be_min|]. split; [apply be_dec_be_min|]. split; intros w; apply be_min_minimal.
Qed.

(* ====================================================================================== *)
(* independence of the way a key is supplied (cert block v1 / v2.1 RoT types)               *)
(* ====================================================================================== *)
Definition supply_ok (p : key * supply) : Prop :=
  match snd p with SPlain => True | SCaBytes => True | SRaw => raw_ok (fst p) | SCaObj => True end.

Lemma convert_key_ok p : supply_ok p -> exists ca, convert_key p = Ok (fst p, ca).
Proof.
  destruct p as [k s]. unfold supply_ok, convert_key. cbn [fst snd]. destruct s; intros H; try contradiction.
  - now exists false.
  - exists false. pose proof (raw_key_roundtrip_lemma k H) as E. destruct (raw_key k) as [d|]; [|discriminate]. cbn [bind] in *. now rewrite E.
  - now exists true.
  - now exists true.
Qed.
Lemma convert_all_ok inp : Forall supply_ok inp -> exists r, convert_all inp = Ok r /\ map fst r = map fst inp.
Proof.
  induction inp as [|p t IH]; intros H; [exists []; split; reflexivity|].
  inversion H as [|? ? Hp Ht]; subst. destruct (IH Ht) as (r & Er & Em). destruct (convert_key_ok p Hp) as (ca & Ec).
  exists ((fst p, ca) :: r). unfold convert_all in *. cbn [map_res]. rewrite Ec, Er. split; [reflexivity|]. cbn [map fst]. now rewrite Em.
Qed.

Lemma independent_of_supply_lemma inp inp' :
  Forall supply_ok inp -> Forall supply_ok inp' -> map fst inp = map fst inp' ->
  rot_v1 inp = rot_v1 inp' /\ rot_v1_export inp = rot_v1_export inp' /\ rot_v21 inp = rot_v21 inp' /\ rot_v21_export inp = rot_v21_export inp'.
Proof.
  intros H H' E. destruct (convert_all_ok inp H) as (r & Er & Em). destruct (convert_all_ok inp' H') as (r' & Er' & Em').
  unfold rot_v1, rot_v1_export, rot_v21, rot_v21_export. rewrite Er, Er'. cbn [bind]. rewrite Em, Em', E. repeat split; reflexivity.
Qed.
Example supply_ok_nontrivial : Forall supply_ok [(KRsa (2 ^ 2047 + 1) 65537, SRaw); (KRsa 7 3, SCaBytes); (KRsa 7 3, SPlain); (KRsa 7 3, SCaObj)].
Proof. repeat constructor; apply raw_ok_nontrivial. Qed.

(* ====================================================================================== *)
(* AHAB SRK tables: the hash depends on the CA attribute the key picked up on the way in     *)
(* ====================================================================================== *)
Definition p256_g : key :=
  KEcc 256 0x6B17D1F2E12C4247F8BCE6E563A440F277037D812DEB33A0F4A13945D898C296 0x4FE342E2FE1A7F9B8EE7EB4A7C0F9E162BCE33576B315ECECBB6406837BF51F5.

Lemma ahab_supply_dependence_lemma :
  exists ks h1 h2,
    length ks = 4%nat /\
    rot_ahab ahab1 (map (fun k => (k, SPlain)) ks) = Ok h1 /\
    rot_ahab ahab1 (map (fun k => (k, SCaBytes)) ks) = Ok h2 /\ h1 <> h2.
Proof.
  exists [p256_g; p256_g; p256_g; p256_g]. eexists. eexists. split; [reflexivity|].
  split; [vm_compute; reflexivity|]. split; [vm_compute; reflexivity|]. discriminate.
Qed.
Lemma ahab2_supply_dependence_lemma :
  exists ks h1 h2,
    rot_ahab ahab2 (map (fun k => (k, SPlain)) ks) = Ok h1 /\
    rot_ahab ahab2 (map (fun k => (k, SCaBytes)) ks) = Ok h2 /\ h1 <> h2.
Proof.
  exists [p256_g; p256_g; p256_g; p256_g]. eexists. eexists.
  split; [vm_compute; reflexivity|]. split; [vm_compute; reflexivity|]. discriminate.
Qed.

(* outside the known class (no CA certificate among the inputs) the AHAB paths depend on the keys only *)
Definition no_ca (p : key * supply) : Prop := match snd p with SPlain => True | SRaw => raw_ok (fst p) | _ => False end.
Lemma convert_all_no_ca inp : Forall no_ca inp -> convert_all inp = Ok (map (fun k => (k, false)) (map fst inp)).
Proof.
  induction inp as [|[k s] t IH]; intros H; [reflexivity|]. inversion H as [|? ? Hp Ht]; subst.
  unfold convert_all in *. cbn [map_res map fst]. rewrite (IH Ht).
  unfold no_ca in Hp. cbn [fst snd] in Hp. destruct s; try contradiction.
  - reflexivity.
  - unfold convert_key. cbn [fst snd]. pose proof (raw_key_roundtrip_lemma k Hp) as E. destruct (raw_key k) as [d|]; [|discriminate].
    cbn [bind] in *. rewrite E. reflexivity.
Qed.
Lemma ahab_except_known_lemma c inp inp' :
  Forall no_ca inp -> Forall no_ca inp' -> map fst inp = map fst inp' ->
  rot_ahab c inp = rot_ahab c inp' /\ rot_ahab_export c inp = rot_ahab_export c inp'.
Proof.
  intros H H' E. unfold rot_ahab, rot_ahab_export. rewrite (convert_all_no_ca _ H), (convert_all_no_ca _ H'), E. split; reflexivity.
Qed.

(* ====================================================================================== *)
(* HAB: entry layout with the constants of the source resolved                              *)
(* ====================================================================================== *)
Lemma hab_fuses_spec_lemma :
  (forall n e ca, hab_item (KRsa n e, ca) =
     Ok ([225] ++ be16 (12 + nlen (be_min n) + nlen (be_min e)) ++ [33] ++ [0; 0; 0; if ca then 128 else 0]
         ++ be16 (nlen (be_min n)) ++ be16 (nlen (be_min e)) ++ be_min n ++ be_min e))
  /\ (forall ks items, map_res hab_item ks = Ok items -> hab_fuses ks = Ok (sha256 (concat (map sha256 items))))
  /\ (forall ks ks', map fst ks = map fst ks' -> map snd ks = map snd ks' -> hab_fuses ks = hab_fuses ks').
Proof.
  split; [intros; reflexivity|]. split.
  - intros ks items E. unfold hab_fuses. rewrite E. reflexivity.
  - intros ks ks' E1 E2. assert (ks = ks').
    { revert ks' E1 E2. induction ks as [|[k c] t IH]; intros [|[k' c'] t'] E1 E2; try discriminate; [reflexivity|].
      cbn in E1, E2. inversion E1; inversion E2; subst. f_equal. now apply IH. }
    now subst.
Qed.

(* ====================================================================================== *)
(* root key record flags                                                                    *)
(* ====================================================================================== *)
Definition rkr_flags (ca : bool) (used n nib : N) : N :=
  N.lor (N.lor (N.lor (if ca then 2 ^ 31 else 0) (N.shiftl used 8)) (N.shiftl n 4)) nib.
Definition range16 : list N := [0; 1; 2; 3; 4; 5; 6; 7; 8; 9; 10; 11; 12; 13; 14; 15].
Definition flags_check : bool :=
  forallb (fun ca => forallb (fun used => forallb (fun n => forallb (fun nib =>
    let f := rkr_flags ca used n nib in
    Bool.eqb (N.testbit f 31) ca && (N.shiftr (N.land f 3840) 8 =? used) && (N.shiftr (N.land f 240) 4 =? n) && (N.land f 15 =? nib))
    range16) range16) range16) [true; false].
Lemma flags_check_true : flags_check = true.
Proof. vm_compute. reflexivity. Qed.
Lemma in_range16 x : x < 16 -> In x range16.
Proof.
  intros H. assert (D : x = 0 \/ x = 1 \/ x = 2 \/ x = 3 \/ x = 4 \/ x = 5 \/ x = 6 \/ x = 7 \/ x = 8 \/ x = 9 \/ x = 10 \/ x = 11
                        \/ x = 12 \/ x = 13 \/ x = 14 \/ x = 15) by lia.
  unfold range16. repeat (destruct D as [->|D]; [simpl; tauto|]). subst. simpl; tauto.
Qed.
Lemma flags_decode ca used n nib : used < 16 -> n < 16 -> nib < 16 ->
  let f := rkr_flags ca used n nib in
  N.testbit f 31 = ca /\ N.shiftr (N.land f 3840) 8 = used /\ N.shiftr (N.land f 240) 4 = n /\ N.land f 15 = nib.
Proof.
  intros Hu Hn Hb. pose proof flags_check_true as C. unfold flags_check in C.
  rewrite forallb_forall in C. specialize (C ca (ltac:(destruct ca; simpl; tauto))).
  rewrite forallb_forall in C. specialize (C used (in_range16 _ Hu)).
  rewrite forallb_forall in C. specialize (C n (in_range16 _ Hn)).
  rewrite forallb_forall in C. specialize (C nib (in_range16 _ Hb)).
  cbv zeta in *. apply andb_true_iff in C as [C C4]. apply andb_true_iff in C as [C C3]. apply andb_true_iff in C as [C1 C2].
  apply N.eqb_eq in C2, C3, C4. apply Bool.eqb_prop in C1. auto.
Qed.

Lemma flags_describe_lemma c ca used ks :
  ecc_set c ks -> Forall key_ok ks -> (length ks <= 4)%nat -> (N.to_nat used < length ks)%nat ->
  exists f hs pub k,
    rkr_calc ca used ks = Ok (f, hs, pub) /\ nth_error ks (N.to_nat used) = Some k /\ raw_key k = Ok pub /\
    N.testbit f 31 = ca /\ N.shiftr (N.land f 3840) 8 = used /\ N.shiftr (N.land f 240) 4 = nlen ks /\
    N.land f 15 = (if c =? 256 then 1 else 2).
Proof.
  intros HS HK HL HU. destruct (rkr_calc_ok c ca used ks HS HK HL HU) as (k & pub & EN & ER & E).
  eexists. exists (map rkh_spec ks), pub, k. split; [exact E|]. split; [exact EN|]. split; [exact ER|].
  assert (Hu : used < 16) by lia. assert (Hn : nlen ks < 16) by (unfold nlen; lia).
  assert (Hb : curve_nibble c < 16 /\ curve_nibble c = (if c =? 256 then 1 else 2)) by (destruct HS as [[-> | ->] _]; split; vm_compute; reflexivity).
  destruct Hb as [Hb Eb]. rewrite <- Eb. apply (flags_decode ca used (nlen ks) (curve_nibble c) Hu Hn Hb).
Qed.

(* ====================================================================================== *)
(* database facts (regenerated on every run)                                                *)
(* ====================================================================================== *)
Definition fam_ok (row : list N * (N * (N * (N * N)))) : bool :=
  let '(_, (rt, (cls, (lim, al)))) := row in
  existsb (N.eqb rt) [1; 21; 3; 4; 5; 6] && (if rt =? 6 then cls =? 0 else (cls =? rt) && existsb (N.eqb rt) g_rot_classes)
  && (al mod 4 =? 0) && negb (al =? 0).
Definition pfr_ok (row : list N * (N * N)) : bool :=
  let '(_, (w, v)) := row in ((w =? 0) && (v =? 0)) || ((v =? 1) && (w =? 256)) || ((v =? 21) && (w =? 384)).
Lemma db_rot_types_known_lemma : Forall (fun r => fam_ok r = true) g_families /\ Forall (fun r => pfr_ok r = true) g_pfr.
Proof. split; apply Forall_forall; apply forallb_forall; vm_compute; reflexivity. Qed.

(* with a family the user data length is a multiple of 4: the offset-less heuristic of IskCertificate.parse cannot fire *)
Lemma family_data_safe_lemma row i :
  In row g_families -> isk_check (Some (fst (snd (snd (snd row))), snd (snd (snd (snd row))))) i = Ok tt ->
  (key_bits (i_key i) = 256 \/ key_bits (i_key i) = 384) ->
  N.land (isk_sig_offset i) g_isk_heur_mask <> g_isk_heur_magic.
Proof.
  intros Hin Hc Hk. destruct db_rot_types_known_lemma as [HF _]. rewrite Forall_forall in HF. specialize (HF row Hin).
  destruct row as [nm [rt [cls [lim al]]]]. cbn [fst snd] in *. unfold fam_ok in HF.
  apply andb_true_iff in HF as [HF Hnz]. apply andb_true_iff in HF as [_ Hal]. apply N.eqb_eq in Hal. apply negb_true_iff, N.eqb_neq in Hnz.
  unfold isk_check in Hc. destruct (i_key i) as [|c x y] eqn:EK; [discriminate|].
  destruct (lim <? nlen (i_user_data i)); [discriminate|]. destruct (nlen (i_user_data i) mod al =? 0) eqn:EM; [|discriminate].
  apply N.eqb_eq in EM. unfold isk_sig_offset. rewrite EK. cbn [key_bits] in *.
  change g_isk_heur_mask with (N.ones 16). rewrite N.land_ones. change g_isk_heur_magic with 19779. change (2 ^ 16) with 65536.
  set (L := nlen (i_user_data i)) in *.
  assert (L4 : L mod 4 = 0).
  { assert (al = 4 * (al / 4)) by (pose proof (N.div_mod al 4); lia). assert (L = al * (L / al)) by (pose proof (N.div_mod L al Hnz); lia).
    rewrite H0, H, <- N.mul_assoc, N.mul_comm. apply N.mod_mul. lia. }
  destruct Hk as [-> | ->]; cbn [coord_size]; simpl N.of_nat; lia.
Qed.

(* without a family limit the heuristic does fire: a valid block that does not survive export/parse *)
Definition heur_block : cb21_in :=
  {| b_ca := false; b_used := 0; b_keys := [p256_g; p256_g]; b_family := None;
     b_isk := Some {| i_constraints := 0; i_key := p256_g; i_user_data := repeat 165 (N.to_nat 19703) |} |}.
Lemma heuristic_refuted_lemma :
  N.land (12 + 19703 + 64) g_isk_heur_mask = g_isk_heur_magic /\
  match cb21_export (fun _ => repeat 1 64%nat) heur_block with
  | Ok (ex, _) => match cb21_parse ex with Ok _ => false | Err _ => true end
  | Err _ => false
  end = true.
Proof. split; vm_compute; reflexivity. Qed.

(* ====================================================================================== *)
(* what the ISK signature covers                                                            *)
(* ====================================================================================== *)
Lemma isk_signed_range_lemma sign b ex msgs :
  cb21_export sign b = Ok (ex, msgs) ->
  match (if b_ca b then None else b_isk b) with
  | None => msgs = []
  | Some i =>
      exists f hs rp k pub hdr,
        rkr_calc (b_ca b) (b_used b) (b_keys b) = Ok (f, hs, rp) /\
        nth_error (b_keys b) (N.to_nat (b_used b)) = Some k /\ raw_key k = Ok rp /\
        raw_key (i_key i) = Ok pub /\
        let msg := (le32 f ++ export_v21 hs ++ rp)
                   ++ (le32 (isk_sig_offset i) ++ le32 (i_constraints i) ++ le32 (isk_flags i)) ++ pub ++ i_user_data i in
        msgs = [msg] /\ length hdr = 12%nat /\ ex = hdr ++ msg ++ sign msg
  end.
Proof.
  unfold cb21_export. destruct (if b_ca b then None else b_isk b) as [i|] eqn:EI.
  - destruct (isk_check (b_family b) i); [|discriminate]. cbn [bind].
    destruct (rkr_calc (b_ca b) (b_used b) (b_keys b)) as [[[f hs] rp]|] eqn:ER; [|discriminate]. cbn [bind].
    destruct (raw_key (i_key i)) as [pub|] eqn:EP; [|discriminate]. cbn [bind].
    unfold isk_tbs, isk_head, rkr_bytes.
    match goal with |- context [sign ?m] => set (msg := m) end.
    destruct (sign msg) as [|s0 st] eqn:ES; [discriminate|].
    intros H. injection H as Hex Hm.
    assert (exists k, nth_error (b_keys b) (N.to_nat (b_used b)) = Some k /\ raw_key k = Ok rp) as (k & EN & EK).
    { unfold rkr_calc in ER. destruct (b_keys b) as [|k0 t]; [discriminate|]. destruct (negb _); [discriminate|].
      destruct (rkht_from_keys (k0 :: t)); [|discriminate]. cbn [bind] in ER.
      destruct (nth_error (k0 :: t) (N.to_nat (b_used b))) as [k|]; [|discriminate]. exists k. split; [reflexivity|].
      destruct (raw_key k); [|discriminate]. cbn [bind] in ER. injection ER as _ _ <-. reflexivity. }
    exists f, hs, rp, k, pub.
    exists (g_cb21_magic ++ le16 (snd g_cb21_version) ++ le16 (fst g_cb21_version)
            ++ le32 (g_cb21_hdr_size + nlen (le32 f ++ export_v21 hs ++ rp)
                     + nlen ((le32 (isk_sig_offset i) ++ le32 (i_constraints i) ++ le32 (isk_flags i)) ++ pub ++ i_user_data i ++ s0 :: st))).
    split; [reflexivity|]. split; [exact EN|]. split; [exact EK|]. split; [reflexivity|].
    cbv zeta. fold msg. split; [now rewrite <- Hm|]. split.
    + unfold le16, le32. rewrite !app_length, !le_enc_length. reflexivity.
    + rewrite ES, <- Hex. unfold msg. rewrite <- !app_assoc. reflexivity.
  - cbn [bind]. destruct (rkr_calc _ _ _); [|discriminate]. cbn [bind]. intros H. injection H as _ <-. reflexivity.
Qed.

(* since the repair of C03-F5 the v2 table accepts RSA keys: the model computes a hash for four RSA-2048 keys *)
Lemma ahab2_rsa_accepted_lemma :
  exists h t, rot_ahab ahab2 (map (fun k => (k, SPlain)) (repeat (KRsa (2 ^ 2047 + 1) 65537) 4)) = Ok h /\
              rot_ahab_export ahab2 (map (fun k => (k, SPlain)) (repeat (KRsa (2 ^ 2047 + 1) 65537) 4)) = Ok t /\
              length h = 64%nat /\ length t = (4 + 4 * (12 + 64))%nat.
Proof. eexists. eexists. split; [vm_compute; reflexivity|]. split; [vm_compute; reflexivity|]. split; reflexivity. Qed.

(* debug credential, P-521 (RotMetaEcc subclass with HASH_SIZE 66): the table of SHA-512 key hashes is hashed with SHA-512 *)
Example dc_ecc_p521_table :
  dc_ecc_hash [KEcc 521 1 2; KEcc 521 3 4] 1 =
  Ok (sha512 (sha512 (be_encf 66 1 ++ be_encf 66 2) ++ sha512 (be_encf 66 3 ++ be_encf 66 4))).
Proof. vm_compute. reflexivity. Qed.
