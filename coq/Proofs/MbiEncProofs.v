(* Proofs/MbiEncProofs.v -- C01: parse (export x) = x for the encrypted + signed load-to-RAM class kind.
   The cipher is any function k_ctr that preserves the length and is an involution for fixed key / IV (AES-CTR is:
   CryptoProofs.ctr involution); no other property of the cipher is used. *)
From Coq Require Import ZArith NArith List Bool Lia.
Require Import Value Bytes BytesProofs MbiMixinModel GenMbi MbiModel MbiProofs MbiRtProofs MbiKindsProofs.
Require Modes CryptoProofs.
Import ListNotations.
Ltac Zify.zify_post_hook ::= Z.to_euclidean_division_equations.
Local Open Scope Z_scope.

(* what the TrustZone mixin reads from the (still encrypted) image: custom data are re-read after decryption *)
Definition tz_seen (x : mbi) (g : list N) : tz := match m_tz x with TzCustom _ => TzCustom g | t => t end.

Lemma upd_set_tz x t dek m st : (m <> MixinTrustZone /\ m <> MixinTrustZoneMandatory /\ is_manifest_mixin m = false) ->
  upd (set_tz x t) dek m st = upd x dek m st.
Proof. intros (H1 & H2 & H3). destruct m; try reflexivity; try congruence; discriminate H3. Qed.

Lemma rounds_state_set_tz c x t dek :
  set_tz (rounds_state c (set_tz x t) dek) (if existsb is_tz_giver (c_mixins c) then m_tz x else TzEnabled) = rounds_state c x dek.
Proof. unfold rounds_state. apply mbi_ext; reflexivity. Qed.

Lemma skipn_ext (a : nat) : forall (l1 l2 : list N), length l1 = length l2 ->
  (forall i, (a <= i)%nat -> nth i l1 0%N = nth i l2 0%N) -> skipn a l1 = skipn a l2.
Proof.
  induction a as [|a IH]; intros l1 l2 HL H.
  - cbn [skipn]. apply (nth_ext l1 l2 0%N 0%N HL). intros i _. apply H. lia.
  - destruct l1 as [|h1 t1], l2 as [|h2 t2]; try discriminate HL; [reflexivity|]. cbn [skipn]. apply IH.
    + simpl in HL. lia.
    + intros i Hi. apply (H (Datatypes.S i)). lia.
Qed.

Lemma set_tz_same (x : mbi) : set_tz x (m_tz x) = x.
Proof. destruct x; reflexivity. Qed.

Theorem roundtrip_enc k c x tzsize sigsz dek im pre post sg :
  wf_enc c = true ->
  (56 <= length (m_app x))%nat -> (length (m_app x) mod 4 = 0)%nat ->
  0 <= m_subtype x < 4 -> 0 <= m_imgver x < 65536 ->
  m_cert x = Some (CertV1 pre post sg) -> cert1_wf pre post -> sigsz = sg -> (0 < sg)%nat ->
  (forall d, length (k_sign k d) = sg) -> (forall key data, length (k_hmac k key data) = 32%nat) ->
  (forall key dv iv d, length (k_ctr k key dv iv d) = length d) ->
  (forall key dv iv d, k_ctr k key dv iv (k_ctr k key dv iv d) = d) ->
  (forall b, m_ks x = Some b -> length b = 1424%nat /\ has_attr c AKeyStore = true) ->
  (forall d, m_tz x = TzCustom d -> length d = tzsize /\ (0 < tzsize)%nat) ->
  (forall es, m_table x = Some es -> has_attr c AAppTable = true /\ entries_ok es) ->
  dek = m_hmac x ->
  export_mbi k c x = Ok im ->
  parse_mbi k c tzsize sigsz dek im = Ok (parsed c x dek).
Proof.
  intros W L L4 R2 R3 HC CW SGE SGP KS KH KC KI KSL HZ HTb DEK E.
  destruct (export_enc_shape k c x im pre post sg W L HC KH KS KC KSL R2 R3 E)
    as (app' & tb & cb & enc_ivt & kb & kt & HK & HIV & U & TB & UI & CB & Ge & -> & FREV).
  cbv zeta in UI, CB, FREV |- *.
  pose proof W as W'. unfold wf_enc in W'. wf_split W'.
  rename W0 into Pfin, W1 into Psign, W2 into Ppost, W3 into Penc, W4 into Pdis, W5 into Pcol, W6 into Wiv, W7 into Whm,
         W8 into Wtz, W9 into Wv1, W10 into Wt2, W11 into Wt1, W12 into Wi, W13 into Wa, W14 into Wnd.
  apply Z.eqb_eq in Psign, Pdis, Pcol, Pfin, Penc, Ppost. apply opt_id_eq in Psign, Pdis, Pcol, Pfin, Penc, Ppost.
  assert (R1 : 0 <= c_type c < 64) by (apply Z.ltb_lt in Wt1; apply Z.ltb_lt in Wt2; lia).
  assert (T0 : c_type c <> 0) by (apply Z.ltb_lt in Wt1; lia).
  assert (SUP : existsb unsupported_mixin (c_mixins c) = false) by (apply (supported_if _ allowed_enc W'); intros m Hm; apply (enc_def_none m Hm)).
  destruct (givers_enc _ W') as (G1 & G2 & G3 & G4 & G5 & G6 & G7 & G8).
  set (P := app' ++ tb ++ tzb_of x) in *.
  set (EE := k_ctr k (kb :: kt) (enc_derive x) (m_iv x) P) in *.
  set (alen := natz (app_len c x)) in *.
  assert (La : length app' = length (m_app x)) by (eapply update_ivt_length; eassumption).
  pose proof (app_len_table c x tb app' Wnd Wa La TB) as AL.
  assert (NAL : alen = (length app' + length tb)%nat) by (unfold alen; rewrite AL; unfold natz, zlen; rewrite <- Nat2Z.inj_add, Nat2Z.id; lia).
  assert (A64 : (64 <= alen)%nat) by (unfold alen, natz; lia).
  assert (LE : length EE = (alen + length (tzb_of x))%nat) by (unfold EE; rewrite KC; unfold P; rewrite !app_length; lia).
  assert (Lei : length enc_ivt = 64%nat).
  { rewrite (update_ivt_length c x (firstn 64 EE) (total_len c x + Z.of_nat sg + 56 + 16) (app_len c x) enc_ivt) by (try exact UI; rewrite firstn_length; lia).
    rewrite firstn_length. lia. }
  destruct (ivt_words c x (firstn 64 EE) (total_len c x + Z.of_nat sg + 56 + 16) (app_len c x) enc_ivt) as (IW1 & IW2 & IW3 & IW4);
    [rewrite firstn_length; lia | exact UI|].
  assert (IW3' : rd32 OFF_CRC enc_ivt = app_len c x) by (rewrite IW3; unfold ivt_crc; destruct (Z.eqb_spec (c_type c) 0); [contradiction|reflexivity]).
  destruct (ivt_untouched c x (firstn 64 EE) (total_len c x + Z.of_nat sg + 56 + 16) (app_len c x) enc_ivt) as [_ UT];
    [rewrite firstn_length; lia | exact UI|].
  set (iv := m_iv x) in *.
  assert (Liv : length iv = 16%nat).
  { unfold export_mbi, export_image, supported in E. rewrite SUP in E. cbn [negb] in E.
    destruct (validate c x) as [[]|] eqn:V; cbn [bind] in E; [|discriminate]. unfold validate in V.
    pose proof (validate_in_mix c x _ MixinCtrInitVector V (has_in c _ Wiv)) as Q. unfold mix_validate in Q. fold iv in Q.
    destruct (Nat.eqb (length iv) IV_SZ) eqn:Q2; [apply Nat.eqb_eq in Q2; exact Q2 | discriminate Q]. }
  set (T1 := cb ++ firstn 56 EE ++ iv ++ skipn alen EE) in *.
  set (G0 := enc_ivt ++ sub EE 64 alen ++ T1).
  assert (GE : enc_inner k enc_ivt EE cb iv alen = G0 ++ k_sign k G0) by reflexivity.
  set (sig := k_sign k G0) in *. set (G := G0 ++ sig) in *. rewrite GE in *.
  assert (Lsig : length sig = sg) by apply KS.
  assert (Lsub : length (sub EE 64 alen) = (alen - 64)%nat) by (unfold sub; apply slice_length; lia).
  destruct (cert_v1_parse_export pre post sg _ cb (firstn 56 EE ++ iv ++ skipn alen EE ++ sig) CW CB) as [CP Lcb].
  assert (Lskip : length (skipn alen EE) = length (tzb_of x)) by (rewrite skipn_length; lia).
  assert (L56 : length (firstn 56 EE) = 56%nat) by (rewrite firstn_length; lia).
  assert (LT1 : length T1 = (length cb + 56 + 16 + length (tzb_of x))%nat) by (unfold T1; rewrite !app_length, L56, Liv, Lskip; lia).
  assert (LG0 : length G0 = (alen + length T1)%nat) by (unfold G0; rewrite !app_length, Lei, Lsub; lia).
  assert (LG : length G = (alen + length T1 + sg)%nat) by (unfold G; rewrite app_length, LG0, Lsig; lia).
  set (hm := k_hmac k (kb :: kt) (firstn 64 G)) in *. set (HB := hmac_bytes x hm) in *.
  set (data := firstn 64 G ++ HB ++ skipn 64 G) in *.
  assert (LHB : length HB = (32 + match m_ks x with Some _ => 1424 | None => 0 end)%nat).
  { unfold HB, hmac_bytes. rewrite app_length. unfold hm. rewrite KH. destruct (m_ks x) as [b0|] eqn:Eb; [destruct (KSL b0 eq_refl) as [-> _]|]; reflexivity. }
  set (S := length HB).
  assert (Ldata : length data = (length G + S)%nat) by (unfold data, S; rewrite !app_length, firstn_length, skipn_length; lia).
  assert (HMA : has_attr c AHmacKey = true) by (rewrite has_attr_gives, G3; exact Whm).
  assert (HACB : has_attr c ACertBlock = true) by (rewrite has_attr_gives, G6; exact Wv1).
  assert (PFX : forall o, (o + 4 <= 56)%nat -> rd32 o data = rd32 o enc_ivt).
  { intros o Ho. unfold data. rewrite rd32_inserted by lia. unfold G, G0. rewrite <- !app_assoc. apply rd32_app. lia. }
  assert (SKP : forall n, (64 <= n)%nat -> skipn (n + S) data = skipn n G) by (intros n Hn; unfold data, S; apply skipn_inserted; lia).
  assert (DF : get_flags data = create_flags c x) by (unfold get_flags; rewrite PFX by (rewrite off_flags_eq; lia); exact IW2).
  assert (DL : rd32 OFF_LOAD data = ivt_load c x) by (rewrite PFX by (rewrite off_load_eq; lia); exact IW4).
  pose proof (flags_decode_lemma c x R1 R2 R3) as (_ & _ & FT & _ & _ & F5 & _).
  assert (KSF : flag_set data G_KEY_STORE_FLAG = match m_ks x with Some _ => true | None => false end).
  { unfold flag_set. rewrite DF, F5. destruct (m_ks x) as [b0|] eqn:Eb; [|now rewrite andb_false_r].
    destruct (KSL b0 eq_refl) as [Lb ->]. destruct b0; [simpl in Lb; lia | reflexivity]. }
  assert (SHIFT : hmac_ks_shift c data = Z.of_nat S).
  { unfold hmac_ks_shift, S. rewrite HMA, KSF, LHB. change (Z.of_nat HMAC_SZ) with 32. change (Z.of_nat KS_SZ) with 1424. destruct (m_ks x); lia. }
  assert (TL : total_len c x + Z.of_nat sg + 56 + 16 = zlen data).
  { unfold total_len. rewrite (sum_len_enc x (c_mixins c) (Z.of_nat (length cb)) W' Wnd).
    2:{ intros cb0 Hcb0. rewrite HC in Hcb0. injection Hcb0 as <-. cbn [cert_size]. destruct CW as (Wp & _). rewrite Lcb, Wp. lia. }
    unfold has in *. unfold hasl. rewrite Wa, Wv1, Whm, HC, HK. unfold zlen. rewrite Ldata, LG, LT1, NAL, La. unfold S.
    assert (TBL : Z.of_nat (length tb) = if existsb (mixin_eqb MixinRelocTable) (c_mixins c) then (match m_table x with Some es => table_len es | None => 0 end) else 0).
    { unfold table_part in TB. rewrite has_attr_gives, has_attr_table_plain in TB. unfold hasl in TB.
      destruct (existsb (mixin_eqb MixinRelocTable) (c_mixins c)); [|now inversion TB].
      destruct (m_table x) as [es|]; [|now inversion TB]. symmetry. eapply table_export_len; [eassumption|apply zlen_nonneg]. }
    rewrite <- TBL. fold (zlen (tz_export (m_tz x))). unfold tzb_of.
    assert (KSZ : (if existsb (mixin_eqb MixinKeyStore) (c_mixins c) then opt_len (m_ks x) else 0)
                  = Z.of_nat (match m_ks x with Some _ => 1424 | None => 0 end)).
    { destruct (m_ks x) as [b0|] eqn:Eb; [|destruct (existsb (mixin_eqb MixinKeyStore) (c_mixins c)); reflexivity].
      destruct (KSL b0 eq_refl) as [Lb HAk]. rewrite has_attr_gives, G4 in HAk. unfold hasl in HAk. rewrite HAk. cbn [opt_len]. unfold zlen. now rewrite Lb. }
    rewrite KSZ, LHB.
    destruct (existsb (mixin_eqb MixinTrustZone) (c_mixins c)), (existsb (mixin_eqb MixinTrustZoneMandatory) (c_mixins c));
      try discriminate Wtz; unfold zlen; lia. }
  assert (Ld56 : (56 <= length data)%nat) by (rewrite Ldata, LG; lia).
  assert (OFF : get_cert_block_offset c data = Ok (app_len c x)).
  { unfold get_cert_block_offset. rewrite (check_total_ok c data (total_len c x + Z.of_nat sg + 56 + 16)); try assumption.
    - cbn [bind]. rewrite PFX by (rewrite off_crc_eq; lia). now rewrite IW3'.
    - rewrite PFX by (rewrite off_len_eq; lia). exact IW1.
    - lia.
    - rewrite TL. apply zlen_nonneg. }
  assert (ALZ : app_len c x = Z.of_nat alen) by (unfold alen, natz; lia).
  assert (SKC : skipn (natz (app_len c x + hmac_ks_shift c data)) data = cb ++ firstn 56 EE ++ iv ++ skipn alen EE ++ sig).
  { rewrite SHIFT, ALZ. replace (natz (Z.of_nat alen + Z.of_nat S)) with (alen + S)%nat by (unfold natz; lia).
    rewrite SKP by lia. unfold G, G0, T1. rewrite <- !app_assoc. rewrite (app_assoc enc_ivt). apply skipn_app_exact'.
    rewrite app_length, Lei, Lsub. lia. }
  set (otz := (alen + length cb + S)%nat).
  set (g := sub data otz (otz + tzsize)).
  set (x' := set_tz x (tz_seen x g)).
  assert (CS : cert_size (CertV1 pre post sg) = length cb) by (cbn [cert_size]; destruct CW as (Wp & _); rewrite Lcb, Wp; lia).
  assert (PO : parse_ok c x' dek tzsize sigsz data (c_mixins c)).
  { intros m Hi st Inv Wt.
    assert (Hal : allowed_enc m = true) by (eapply forallb_forall in W'; eauto).
    destruct (simple_mixin m) eqn:Sm.
    { unfold x'. rewrite upd_set_tz by (destruct m; try discriminate Sm; repeat split; discriminate). now apply mix_parse_simple. }
    assert (CST : pre_parsed_cert m = true -> m_cert st = Some (CertV1 pre post sg)).
    { intros PPm. unfold waits in Wt. rewrite HACB, PPm in Wt. cbn [andb] in Wt.
      destruct (m_cert st) as [cb0|] eqn:Ec; [|discriminate Wt]. destruct Inv as [N|Ei]; [congruence|].
      change (m_cert x') with (m_cert x) in Ei. rewrite Ec, HC in Ei. exact Ei. }
    assert (TZP : m = MixinTrustZone \/ m = MixinTrustZoneMandatory ->
                  mix_parse c tzsize sigsz dek data m st = Ok (upd x' dek m st)).
    { intros Hm. assert (HTZ : has_tz c = true).
      { unfold has_tz. rewrite (has_tz_mixin_attr c m Hi Hm). reflexivity. }
      assert (Ec : m_cert st = Some (CertV1 pre post sg)) by (apply CST; destruct Hm as [-> | ->]; reflexivity).
      destruct Hm as [-> | ->]; unfold mix_parse, upd; rewrite DF, FT, HTZ, HACB, Ec; change (m_tz x') with (tz_seen x g); unfold tz_seen;
        (destruct (m_tz x) as [|d|] eqn:Et; cbn [tz_tag]; try reflexivity;
         change (G_TZ_CUSTOM =? G_TZ_CUSTOM) with true; cbv iota; rewrite OFF; cbn [bind];
         destruct (HZ d eq_refl) as [Ld Lz];
         rewrite CS, SHIFT, ALZ;
         replace (natz (Z.of_nat alen + Z.of_nat (length cb) + Z.of_nat S)) with otz by (unfold otz, natz; lia);
         fold g;
         assert (Lg : length g = tzsize)
           by (unfold g, sub; rewrite slice_length; [lia | rewrite Ldata, LG, LT1; unfold tzb_of; rewrite Et; cbn [tz_export]; unfold otz; lia]);
         unfold tz_from_binary; rewrite Lg, Nat.ltb_irrefl, <- Lg, firstn_all; reflexivity). }
    destruct m; try discriminate Hal; try discriminate Sm.
    - apply TZP; now left.
    - apply TZP; now right.
    - (* MixinCertBlockV1 *)
      unfold mix_parse, upd. rewrite OFF. cbn [bind]. rewrite SKC, SGE, CP. cbn [bind]. change (m_cert x') with (m_cert x). now rewrite HC.
    - (* MixinKeyStore *)
      unfold mix_parse, upd. change (m_ks x') with (m_ks x). rewrite KSF. destruct (m_ks x) as [b0|] eqn:Eb; [|reflexivity].
      destruct (KSL b0 eq_refl) as [Lb HAk].
      replace (sub data (HMAC_OFF + HMAC_SZ) (HMAC_OFF + HMAC_SZ + KS_SZ)) with b0.
      + destruct b0 as [|n0 t0]; [simpl in Lb; lia|]. change KS_SZ with 1424%nat. rewrite Lb, Nat.eqb_refl. reflexivity.
      + unfold data, HB, hmac_bytes. rewrite Eb.
        change (HMAC_OFF + HMAC_SZ)%nat with 96%nat. change KS_SZ with 1424%nat.
        replace (firstn 64 G ++ (hm ++ b0) ++ skipn 64 G) with ((firstn 64 G ++ hm) ++ b0 ++ skipn 64 G) by (now rewrite <- !app_assoc).
        symmetry. apply sub_mid'; rewrite !app_length, firstn_length; unfold hm; rewrite KH; lia.
    - (* MixinCtrInitVector *)
      unfold mix_parse, upd. rewrite (CST eq_refl), OFF. cbn [bind]. change (m_iv x') with iv. do 2 f_equal.
      rewrite CS, SHIFT, ALZ.
      replace (natz (Z.of_nat alen + Z.of_nat (length cb) + 56 + Z.of_nat S)) with ((alen + length cb + 56) + S)%nat by (unfold natz; lia).
      change IV_SZ with 16%nat.
      replace (alen + length cb + 56 + S + 16)%nat with ((alen + length cb + 56 + 16) + S)%nat by lia.
      unfold data, S. rewrite sub_inserted by lia. unfold G, G0, T1. rewrite <- !app_assoc.
      rewrite (app_assoc enc_ivt), (app_assoc (enc_ivt ++ _)), (app_assoc ((enc_ivt ++ _) ++ _)).
      apply sub_mid'; rewrite !app_length, Lei, Lsub, L56, ?Liv; lia. }
  assert (NE : c_mixins c <> []).
  { apply has_in in Wa. destruct (c_mixins c) as [|m t]; [contradiction|congruence]. }
  unfold parse_mbi. unfold supported. rewrite SUP. cbn [negb].
  rewrite (rounds_result c x' dek tzsize sigsz data NE PO)
    by (intros _; split; [rewrite G5; exact Wv1 | change (m_cert x') with (m_cert x); eauto]).
  cbn [bind].
  set (st := rounds_state c x' dek).
  assert (STC : m_cert st = Some (CertV1 pre post sg))
    by (unfold st, rounds_state; cbn [m_cert]; rewrite G5; unfold hasl; unfold has in Wv1; now rewrite Wv1).
  rewrite (FREV st). cbn [bind].
  assert (SR : sign_revert c st (G0 ++ sig) = Ok G0).
  { unfold sign_revert. rewrite Psign, STC. destruct (G0 ++ sig) as [|a0 r0] eqn:Q.
    - apply (f_equal (@length N)) in Q. rewrite app_length, Lsig in Q. simpl in Q. lia.
    - rewrite <- Q. destruct sg as [|sg']; [lia|]. f_equal. apply drop_last_app'. now rewrite Lsig. }
  unfold G. rewrite SR. cbn [bind].
  assert (TAIL : skipn 56 enc_ivt = sub EE 56 64).
  { rewrite <- skipn_firstn_sub. apply skipn_ext; [rewrite Lei, firstn_length; lia|].
    intros i Hi. apply UT; lia. }
  assert (PER : post_encrypt_revert c st G0 = Ok EE).
  { unfold post_encrypt_revert. rewrite Ppost, STC. f_equal. rewrite CS.
    replace (natz (rd32 OFF_CRC G0)) with alen
      by (unfold G0; rewrite rd32_app by (rewrite off_crc_eq; lia); rewrite IW3'; reflexivity).
    replace (sub G0 (alen + length cb) (alen + length cb + 56)) with (firstn 56 EE).
    2:{ unfold G0, T1. rewrite (app_assoc enc_ivt), (app_assoc (enc_ivt ++ _)). symmetry.
        apply sub_mid'; rewrite !app_length, Lei, Lsub, ?L56; lia. }
    replace (sub G0 56 alen) with (sub EE 56 64 ++ sub EE 64 alen).
    2:{ unfold G0. rewrite <- (firstn_skipn 56 enc_ivt) at 1. rewrite TAIL, <- !app_assoc. rewrite (app_assoc (sub EE 56 64)). symmetry.
        apply sub_mid'; [rewrite firstn_length; lia|].
        rewrite firstn_length, app_length, Lsub. unfold sub. rewrite slice_length by lia. lia. }
    replace (skipn (alen + length cb + 56 + 16) G0) with (skipn alen EE).
    2:{ unfold G0, T1. rewrite (app_assoc enc_ivt), (app_assoc (enc_ivt ++ _)), (app_assoc ((enc_ivt ++ _) ++ _)), (app_assoc (((enc_ivt ++ _) ++ _) ++ _)).
        symmetry. apply skipn_app_exact'. rewrite !app_length, Lei, Lsub, L56, Liv. lia. }
    rewrite <- app_assoc. apply split4. exact A64. }
  rewrite PER. cbn [bind].
  assert (STK : m_ks st = m_ks x).
  { unfold st, rounds_state; cbn [m_ks]. change (m_ks x') with (m_ks x).
    destruct (m_ks x) as [b0|] eqn:Eb; [destruct (KSL b0 eq_refl) as [_ ->]; reflexivity | destruct (has_attr c AKeyStore); reflexivity]. }
  assert (ER : encrypt_revert k c st EE = Ok P).
  { unfold encrypt_revert. rewrite Penc.
    assert (SH : m_hmac st = Some (kb :: kt)).
    { unfold st, rounds_state; cbn [m_hmac]. rewrite G7. unfold hasl. unfold has in Whm. rewrite Whm, DEK. exact HK. }
    assert (SI : m_iv st = iv).
    { unfold st, rounds_state; cbn [m_iv]. rewrite has_attr_gives, G8. unfold hasl. unfold has in Wiv. rewrite Wiv. reflexivity. }
    rewrite SH, SI. unfold enc_derive at 1. rewrite STK. fold (enc_derive x).
    assert (MN : forall (l : list N) (a b : res (list N)), (0 < length l)%nat -> match l with _ :: _ => a | [] => b end = a)
      by (intros [|? ?] ? ? ?; [simpl in *; lia | reflexivity]).
    cbv iota. rewrite MN by lia. f_equal. unfold EE. apply KI. }
  rewrite ER. cbn [bind].
  assert (GIV : existsb is_tz_giver (c_mixins c) = true).
  { rewrite G1. unfold hasl. unfold has in Wtz.
    destruct (existsb (mixin_eqb MixinTrustZone) (c_mixins c)), (existsb (mixin_eqb MixinTrustZoneMandatory) (c_mixins c));
      try discriminate Wtz; reflexivity. }
  assert (STZ : m_tz st = tz_seen x g) by (unfold st, rounds_state; cbn [m_tz]; rewrite GIV; reflexivity).
  assert (RTZ : m_tz (rounds_state c x dek) = m_tz x) by (unfold rounds_state; cbn [m_tz]; rewrite GIV; reflexivity).
  assert (DT : (if tz_is_custom (m_tz st)
                then bind (tz_from_binary tzsize (match tzsize with O => P | _ => take_last tzsize P end)) (fun t => Ok (set_tz st t))
                else Ok st) = Ok (rounds_state c x dek) /\ cut_tz (rounds_state c x dek) P = app' ++ tb).
  { rewrite STZ. unfold cut_tz. rewrite RTZ. unfold tz_seen. unfold st, x', tz_seen, P, tzb_of.
    destruct (m_tz x) as [|d|] eqn:Et; cbn [tz_is_custom tz_export].
    - rewrite <- Et, set_tz_same, !app_nil_r. split; reflexivity.
    - destruct (HZ d eq_refl) as [Ld Lz]. destruct tzsize as [|n]; [lia|]. rewrite <- Ld.
      rewrite (app_assoc app' tb), take_last_app. unfold tz_from_binary. rewrite Nat.ltb_irrefl, firstn_all. cbn [bind].
      split.
      + f_equal. rewrite <- (rounds_state_set_tz c x (TzCustom g) dek). rewrite GIV, Et. reflexivity.
      + destruct d as [|d0 dr] eqn:Ed; [simpl in Ld; lia|]. rewrite <- Ed. apply drop_last_app.
    - rewrite <- Et, set_tz_same, !app_nil_r. split; reflexivity. }
  destruct DT as [DT1 DT2].
  unfold disassemble. rewrite Pdis, DT1. cbn [bind]. rewrite DT2.
  destruct (ivt_words c x (m_app x) _ _ app' L U) as (_ & IWA & _ & _).
  rewrite (reloc_cut_ok c x (rounds_state c x dek) app' tb R1 R2 R3 Wi) by (try assumption; try lia; reflexivity). cbn [bind fst snd].
  assert (CL : clean_ivt app' = clean_ivt (m_app x)) by (eapply clean_update; eassumption).
  rewrite CL, pad4_id by (rewrite clean_ivt_length; assumption). reflexivity.
Qed.

Lemma wf_enc_ivt c : wf_enc c = true -> has_attr c AIvtTable = true.
Proof. intros W. unfold wf_enc in W. wf_split W. assumption. Qed.

Lemma roundtrip_enc_full :
  forall (k : crypto) (c : mbi_class) (x : mbi) (tzsize sigsz : nat) (dek : option (list N)) (im pre post : list N) (sg : nat),
    wf_enc c = true ->
    (56 <= length (m_app x))%nat -> (length (m_app x) mod 4 = 0)%nat ->
    0 <= m_subtype x < 4 -> 0 <= m_imgver x < 65536 ->
    m_cert x = Some (CertV1 pre post sg) -> cert1_wf pre post -> sigsz = sg -> (0 < sg)%nat ->
    (forall d, length (k_sign k d) = sg) -> (forall key data, length (k_hmac k key data) = 32%nat) ->
    (forall key dv iv d, length (k_ctr k key dv iv d) = length d) ->
    (forall key dv iv d, k_ctr k key dv iv (k_ctr k key dv iv d) = d) ->
    (forall b, m_ks x = Some b -> length b = 1424%nat /\ has_attr c AKeyStore = true) ->
    (forall d, m_tz x = TzCustom d -> length d = tzsize /\ (0 < tzsize)%nat) ->
    (forall es, m_table x = Some es -> has_attr c AAppTable = true /\ entries_ok es) ->
    dek = m_hmac x ->
    export_mbi k c x = Ok im ->
    parse_mbi k c tzsize sigsz dek im = Ok (parsed c x dek) /\
    (canonical c x dek -> parsed c x dek = set_app x (clean_ivt (m_app x)) /\ export_mbi k c (parsed c x dek) = Ok im).
Proof.
  intros. split; [eapply roundtrip_enc; eassumption|].
  intros C. split; [now apply parsed_canonical | apply reexport_parsed; auto using wf_enc_ivt].
Qed.

(* ------------------------------------------------------------------ the cipher instantiated: CTR mode (coq/Crypto/Modes.v)
   over ANY block function with 16-byte output.  Length preservation and involution are theorems of CTR mode
   (CryptoProofs.ctr_length, ctr_involutive_l): nothing is assumed about the block cipher itself.
   (An IV that is not 16 bytes long is refused by mix_validate before any encryption; ctr_of is the identity there.) *)
Definition ctr_of (F : list N -> bool -> list N -> list N) (key : list N) (dv : bool) (iv d : list N) : list N :=
  if Nat.eqb (length iv) 16 then Modes.ctr_xcrypt (F key dv) iv d else d.

Lemma ctr_of_length F : (forall key dv b, length b = 16%nat -> length (F key dv b) = 16%nat) ->
  forall key dv iv d, length (ctr_of F key dv iv d) = length d.
Proof.
  intros HF key dv iv d. unfold ctr_of. destruct (Nat.eqb (length iv) 16) eqn:E; [|reflexivity].
  apply Nat.eqb_eq in E. apply CryptoProofs.ctr_length; [apply HF | exact E].
Qed.
Lemma ctr_of_involutive F : (forall key dv b, length b = 16%nat -> length (F key dv b) = 16%nat) ->
  forall key dv iv d, ctr_of F key dv iv (ctr_of F key dv iv d) = d.
Proof.
  intros HF key dv iv d. unfold ctr_of. destruct (Nat.eqb (length iv) 16) eqn:E; [|reflexivity].
  apply Nat.eqb_eq in E. apply CryptoProofs.ctr_involutive_l; [apply HF | exact E].
Qed.

Theorem roundtrip_enc_ctr :
  forall (F : list N -> bool -> list N -> list N) (k : crypto) (c : mbi_class) (x : mbi) (tzsize sigsz : nat)
         (dek : option (list N)) (im pre post : list N) (sg : nat),
    k_ctr k = ctr_of F -> (forall key dv b, length b = 16%nat -> length (F key dv b) = 16%nat) ->
    wf_enc c = true ->
    (56 <= length (m_app x))%nat -> (length (m_app x) mod 4 = 0)%nat ->
    0 <= m_subtype x < 4 -> 0 <= m_imgver x < 65536 ->
    m_cert x = Some (CertV1 pre post sg) -> cert1_wf pre post -> sigsz = sg -> (0 < sg)%nat ->
    (forall d, length (k_sign k d) = sg) -> (forall key data, length (k_hmac k key data) = 32%nat) ->
    (forall b, m_ks x = Some b -> length b = 1424%nat /\ has_attr c AKeyStore = true) ->
    (forall d, m_tz x = TzCustom d -> length d = tzsize /\ (0 < tzsize)%nat) ->
    (forall es, m_table x = Some es -> has_attr c AAppTable = true /\ entries_ok es) ->
    dek = m_hmac x ->
    export_mbi k c x = Ok im ->
    parse_mbi k c tzsize sigsz dek im = Ok (parsed c x dek).
Proof.
  intros F k c x tzsize sigsz dek im pre post sg HK HF. intros.
  eapply roundtrip_enc; try eassumption; rewrite HK; [apply ctr_of_length | apply ctr_of_involutive]; exact HF.
Qed.

(* the hypotheses are satisfiable: the encrypted class of the database (mimxrt5xx/6xx load-to-RAM, encrypted) *)
Example wf_enc_instance :
  wf_enc {| c_type := 3; c_mixins := [MixinApp; MixinRelocTable; MixinLoadAddress; MixinIvt; MixinTrustZone; MixinCertBlockV1; MixinHwKey;
                                      MixinKeyStore; MixinHmacMandatory; MixinCtrInitVector; ExportMixinAppTrustZoneCertBlockEncrypt;
                                      ExportMixinRsaSign; ExportMixinHmacKeyStoreFinalize] |} = true.
Proof. vm_compute. reflexivity. Qed.
