(* Proofs/MbiBcaProofs.v -- C01 extension: the BCA / FCF based images (Model/MbiBcaModel.v). *)
From Coq Require Import ZArith NArith List Bool Lia.
Require Import Value Bytes BytesProofs MbiMixinModel GenMbi MbiModel MbiProofs MbiRtProofs MbiKindsProofs MbiSweepProofs MbiBcaModel.
Import ListNotations.
Ltac Zify.zify_post_hook ::= Z.to_euclidean_division_equations.
Local Open Scope Z_scope.

(* ------------------------------------------------------------------ BinaryImage: sub-images that follow each other *)
Definition ocat (im : oimage) : list N := concat (map snd im).
Fixpoint contig_from (n : nat) (im : oimage) : Prop :=
  match im with [] => True | p :: t => fst p = n /\ contig_from (n + length (snd p)) t end.

Definition omax (a : nat) (p : nat * list N) : nat := Nat.max a (fst p + length (snd p)).
Definition osplice (buf : list N) (p : nat * list N) : list N := splice buf (fst p) (snd p).

Lemma zeros_split a b : zeros (a + b) = zeros a ++ zeros b.
Proof. unfold zeros. apply repeat_app. Qed.

Lemma olen_fold im : forall a, fold_left omax im a =
                               Nat.max a (fold_left omax im 0%nat).
Proof.
  induction im as [|p t IH]; intros a; cbn [fold_left]; [lia|]. rewrite IH. rewrite (IH (omax 0 p)). unfold omax. lia.
Qed.
Lemma olen_contig im : forall n, contig_from n im ->
  fold_left omax im n = (n + length (ocat im))%nat.
Proof.
  induction im as [|p t IH]; intros n H; cbn [fold_left ocat map concat]; [cbn; lia|].
  destruct H as [H1 H2]. unfold omax at 2. rewrite H1. replace (Nat.max n (n + length (snd p))) with (n + length (snd p))%nat by lia.
  rewrite (IH _ H2). unfold ocat. rewrite app_length. lia.
Qed.
Lemma olen_contig0 im : contig_from 0 im -> olen im = length (ocat im).
Proof. intros H. unfold olen. change (fold_left omax im 0%nat = length (ocat im)). now rewrite (olen_contig im 0 H). Qed.

Lemma splice_at_end (P d : list N) r : (length d <= r)%nat ->
  splice (P ++ zeros r) (length P) d = (P ++ d) ++ zeros (r - length d).
Proof.
  intros H. unfold splice. rewrite firstn_app, firstn_all, Nat.sub_diag, firstn_O, app_nil_r.
  rewrite skipn_app, skipn_all2 by lia. cbn [app].
  replace (length P + length d - length P)%nat with (length d) by lia.
  unfold zeros. replace r with (length d + (r - length d))%nat at 1 by lia. rewrite repeat_app, skipn_app, skipn_all2 by (rewrite repeat_length; lia).
  rewrite repeat_length, Nat.sub_diag. cbn [skipn app]. now rewrite <- app_assoc.
Qed.

Lemma oexport_contig_gen im : forall P, contig_from (length P) im ->
  fold_left osplice im (P ++ zeros (length (ocat im))) = P ++ ocat im.
Proof.
  induction im as [|p t IH]; intros P H; cbn [fold_left ocat map concat]; [cbn; now rewrite app_nil_r|].
  destruct H as [H1 H2]. unfold osplice at 2. rewrite H1. fold (ocat t). rewrite app_length.
  rewrite splice_at_end by lia. replace (length (snd p) + length (ocat t) - length (snd p))%nat with (length (ocat t)) by lia.
  rewrite IH by (now rewrite app_length). now rewrite <- app_assoc.
Qed.
Theorem oexport_contig im : contig_from 0 im -> oexport im = ocat im.
Proof.
  intros H. unfold oexport. rewrite (olen_contig0 im H). exact (oexport_contig_gen im [] H).
Qed.

Lemma contig_app im : forall n d, contig_from n im -> contig_from n (im ++ [((n + length (ocat im))%nat, d)]).
Proof.
  induction im as [|p t IH]; intros n d H; cbn [app contig_from ocat map concat fst snd].
  - split; [cbn; lia|exact I].
  - destruct H as [H1 H2]. split; [exact H1|]. fold (ocat t). rewrite app_length.
    replace (n + (length (snd p) + length (ocat t)))%nat with ((n + length (snd p)) + length (ocat t))%nat by lia. now apply IH.
Qed.
Lemma contig_oappend im d : contig_from 0 im -> contig_from 0 (oappend im d) /\ ocat (oappend im d) = ocat im ++ d.
Proof.
  intros H. unfold oappend. rewrite (olen_contig0 im H). split; [exact (contig_app im 0 d H)|].
  unfold ocat. rewrite map_app, concat_app. cbn. now rewrite app_nil_r.
Qed.
Lemma contig_fold_oappend l : forall im, contig_from 0 im ->
  contig_from 0 (fold_left oappend l im) /\ ocat (fold_left oappend l im) = ocat im ++ concat l.
Proof.
  induction l as [|d t IH]; intros im H; cbn [fold_left concat]; [now rewrite app_nil_r|].
  destruct (contig_oappend im d H) as [H1 H2]. destruct (IH _ H1) as [H3 H4]. split; [exact H3|]. rewrite H4, H2. now rewrite <- app_assoc.
Qed.

(* replacing the bytes of a sub-image by as many bytes keeps the sub-images in place *)
Lemma contig_oreplace im : forall n i d, contig_from n im -> length d = length (obinary im i) -> (i < length im)%nat ->
  contig_from n (oreplace im i d).
Proof.
  induction im as [|p t IH]; intros n i d H L Hi; [simpl in Hi; lia|].
  destruct p as [o b]. destruct H as [H1 H2]. destruct i as [|j]; cbn [oreplace contig_from fst snd] in *.
  - unfold obinary in L. cbn in L. split; [exact H1|]. now rewrite L.
  - split; [exact H1|]. apply IH; [exact H2 | exact L | simpl in Hi; lia].
Qed.

(* ------------------------------------------------------------------ the eleven slices of collect_data *)
Lemma sub_cat (l : list N) a b c : (a <= b)%nat -> (b <= c)%nat -> sub l a b ++ sub l b c = sub l a c.
Proof.
  intros H1 H2. unfold sub, slice.
  replace (c - a)%nat with ((b - a) + (c - b))%nat by lia.
  rewrite <- (firstn_skipn (b - a) (firstn (b - a + (c - b)) (skipn a l))).
  rewrite firstn_firstn. replace (Nat.min (b - a) (b - a + (c - b))) with (b - a)%nat by lia. f_equal.
  rewrite skipn_firstn_comm. replace (b - a + (c - b) - (b - a))%nat with (c - b)%nat by lia. f_equal.
  rewrite <- skipn_add. f_equal. lia.
Qed.
Lemma sub_skipn_cat (l : list N) a b : (a <= b)%nat -> sub l a b ++ skipn b l = skipn a l.
Proof.
  intros H. unfold sub, slice. rewrite <- (firstn_skipn (b - a) (skipn a l)) at 2. f_equal. rewrite <- skipn_add. f_equal. lia.
Qed.
Lemma sub_0 (l : list N) b : sub l 0 b = firstn b l.
Proof. unfold sub, slice. now rewrite Nat.sub_0_r. Qed.

Lemma slices_shape (b : list N) :
  contig_from 0 (slices b false) /\ ocat (slices b false) = b /\ length (slices b false) = 11%nat /\
  obinary (slices b false) I_BCA = sub b O_BCA O_FCF.
Proof.
  unfold slices. cbv beta iota.
  set (l := [sub b 0 O_DIGEST; sub b O_DIGEST O_SIG; sub b O_SIG O_BCA; sub b O_BCA O_FCF; sub b O_FCF O_ISK;
             sub b O_ISK O_ISKH; sub b O_ISKH O_WPCH; sub b O_WPCH O_WPCM; sub b O_WPCM O_DUK] ++ [sub b O_DUK O_DATA; skipn O_DATA b]).
  destruct (contig_fold_oappend l [] I) as [C E]. split; [exact C|]. split.
  - rewrite E. unfold l. cbn [ocat map concat app].
    rewrite app_nil_r.
    change O_DIGEST with 864%nat; change O_SIG with 896%nat; change O_BCA with 960%nat; change O_FCF with 1024%nat;
    change O_ISK with 1040%nat; change O_ISKH with 1184%nat; change O_WPCH with 1504%nat; change O_WPCM with 1536%nat;
    change O_DUK with 2048%nat; change O_DATA with 3072%nat.
    rewrite !app_assoc.
    rewrite sub_cat by lia. rewrite sub_cat by lia. rewrite sub_cat by lia. rewrite sub_cat by lia. rewrite sub_cat by lia.
    rewrite sub_cat by lia. rewrite sub_cat by lia. rewrite sub_cat by lia. rewrite sub_cat by lia.
    rewrite sub_skipn_cat by lia. reflexivity.
  - split; reflexivity.
Qed.

Lemma contig_off_ge im : forall n i o old, contig_from n im -> nth_error im i = Some (o, old) -> (n <= o)%nat.
Proof.
  induction im as [|p t IH]; intros n i o old H E; [destruct i; discriminate|].
  destruct H as [H1 H2]. destruct i as [|j]; cbn [nth_error] in E.
  - injection E as ->. cbn in H1. lia.
  - specialize (IH _ _ _ _ H2 E). lia.
Qed.
Lemma oreplace_ocat im : forall n i o old d, contig_from n im -> nth_error im i = Some (o, old) ->
  ocat (oreplace im i d) = firstn (o - n) (ocat im) ++ d ++ skipn (o - n + length old) (ocat im).
Proof.
  induction im as [|p t IH]; intros n i o old d H E; [destruct i; discriminate|].
  destruct p as [o' b']. destruct H as [H1 H2]. cbn [fst snd] in *. destruct i as [|j].
  - cbn [nth_error] in E. injection E as -> ->. cbn [oreplace ocat map concat snd]. subst n. rewrite Nat.sub_diag.
    cbn [firstn app Nat.add]. rewrite skipn_app, skipn_all, Nat.sub_diag. reflexivity.
  - cbn [nth_error] in E. pose proof (contig_off_ge _ _ _ _ _ H2 E) as G.
    cbn [oreplace ocat map concat snd]. fold (ocat t) (ocat (oreplace t j d)).
    rewrite (IH _ _ _ _ d H2 E).
    rewrite firstn_app, (firstn_all2 b') by lia. rewrite skipn_app, (skipn_all2 b') by lia. cbn [app].
    rewrite <- app_assoc. do 2 f_equal; [f_equal; lia|]. f_equal. f_equal. lia.
Qed.

Lemma nth_error_fold_oappend l : forall im i, (i < length im)%nat -> nth_error (fold_left oappend l im) i = nth_error im i.
Proof.
  induction l as [|d t IH]; intros im i H; cbn [fold_left]; [reflexivity|].
  rewrite IH by (unfold oappend; rewrite app_length; simpl; lia). unfold oappend. now rewrite nth_error_app1.
Qed.
Lemma fold_oappend_length l : forall im, length (fold_left oappend l im) = (length im + length l)%nat.
Proof.
  induction l as [|d t IH]; intros im; cbn [fold_left length]; [lia|]. rewrite IH. unfold oappend. rewrite app_length. simpl. lia.
Qed.

Lemma slices_bca_entry (b : list N) : (1024 <= length b)%nat ->
  nth_error (slices b false) I_BCA = Some (960%nat, sub b O_BCA O_FCF).
Proof.
  intros L. unfold slices. cbv beta iota.
  change ([sub b 0 O_DIGEST; sub b O_DIGEST O_SIG; sub b O_SIG O_BCA; sub b O_BCA O_FCF; sub b O_FCF O_ISK;
           sub b O_ISK O_ISKH; sub b O_ISKH O_WPCH; sub b O_WPCH O_WPCM; sub b O_WPCM O_DUK] ++ [sub b O_DUK O_DATA; skipn O_DATA b])
    with ([sub b 0 O_DIGEST; sub b O_DIGEST O_SIG; sub b O_SIG O_BCA] ++
          (sub b O_BCA O_FCF :: [sub b O_FCF O_ISK; sub b O_ISK O_ISKH; sub b O_ISKH O_WPCH; sub b O_WPCH O_WPCM; sub b O_WPCM O_DUK;
                                  sub b O_DUK O_DATA; skipn O_DATA b])).
  rewrite fold_left_app. set (im3 := fold_left oappend [sub b 0 O_DIGEST; sub b O_DIGEST O_SIG; sub b O_SIG O_BCA] []).
  destruct (contig_fold_oappend [sub b 0 O_DIGEST; sub b O_DIGEST O_SIG; sub b O_SIG O_BCA] [] I) as [C E]. fold im3 in C, E.
  assert (L3 : length im3 = 3%nat) by (unfold im3; rewrite fold_oappend_length; reflexivity).
  match goal with |- nth_error (fold_left oappend (?a :: ?r) ?i) _ = _ =>
    change (fold_left oappend (a :: r) i) with (fold_left oappend r (oappend i a)) end.
  rewrite nth_error_fold_oappend by (unfold oappend; rewrite app_length, L3; simpl; unfold I_BCA; lia).
  unfold oappend, I_BCA. rewrite nth_error_app2 by lia. rewrite L3. cbn [Nat.sub nth_error]. f_equal. f_equal.
  rewrite (olen_contig0 im3 C), E. cbn [ocat map concat app]. rewrite !app_length. unfold sub. rewrite !slice_length; cbn [length].
  all: change O_DIGEST with 864%nat; change O_SIG with 896%nat; change O_BCA with 960%nat; lia.
Qed.

(* ------------------------------------------------------------------ the kinds plain / CRC-in-BCA (mc56f81xxx, mwct20xx) *)
Definition allowed_fcf (m : mixin) : bool :=
  match m with MixinApp | MixinBcaTable | MixinFcfObsolete | ExportMixinAppFcf | ExportMixinCrcSignBca => true | _ => false end.
Definition wf_bca_fcf (c : mbi_class) : bool :=
  forallb allowed_fcf (c_mixins c) && has c MixinApp && has c MixinFcfObsolete && no_other_stage c &&
  (opt_mixin_id (provider c SCollect) =? mixin_id ExportMixinAppFcf) &&
  (opt_mixin_id (provider c SDisassemble) =? mixin_id ExportMixinAppFcf) &&
  ((opt_mixin_id (provider c SSign) =? 0) || (opt_mixin_id (provider c SSign) =? mixin_id ExportMixinCrcSignBca)).

Lemma update_fcf_props x app : (1040 <= length app)%nat -> 0 <= b_lifecycle x < 256 ->
  exists b, update_fcf x app = Ok b /\
  length b = length app /\
  (forall i, i <> O_LC -> nth i b 0%N = nth i app 0%N) /\
  nth O_LC b 0%N = (if b_lifecycle x =? 255 then nth O_LC app 0%N else Z.to_N (b_lifecycle x)).
Proof.
  intros L R. unfold update_fcf. change O_LC with 1036%nat. destruct (b_lifecycle x =? 255) eqn:E; [exists app; repeat split; reflexivity|].
  replace (Nat.leb (length app) 1036) with false by (symmetry; apply Nat.leb_gt; lia).
  eexists. split; [reflexivity|].
  split; [apply splice_length; simpl; lia|]. split.
  - intros i Hi. rewrite nth_splice by (simpl; lia). cbn [length].
    destruct (i <? 1036)%nat eqn:E1; [reflexivity|]. destruct (i <? 1036 + 1)%nat eqn:E2; [|reflexivity].
    apply Nat.ltb_ge in E1. apply Nat.ltb_lt in E2. lia.
  - rewrite nth_splice by (simpl; lia). cbn [length]. replace (1036 <? 1036)%nat with false by (symmetry; apply Nat.ltb_irrefl).
    replace (1036 <? 1036 + 1)%nat with true by (symmetry; apply Nat.ltb_lt; lia). now rewrite Nat.sub_diag.
Qed.

Lemma parse_mixins_fcf q data l : forall st, forallb allowed_fcf l = true ->
  parse_mixins_b q data l st =
  Ok (if existsb (mixin_eqb MixinFcfObsolete) l then set_b_lifecycle st (lifecycle_of data) else st).
Proof.
  induction l as [|m t IH]; intros st H; [reflexivity|]. cbn [forallb] in H. apply andb_true_iff in H as [H1 H2].
  cbn [parse_mixins_b existsb].
  destruct m; try discriminate H1; cbn [mix_parse_b bind mixin_eqb mixin_id Z.eqb Pos.eqb orb]; rewrite (IH _ H2); try reflexivity.
  destruct (existsb (mixin_eqb MixinFcfObsolete) t); reflexivity.
Qed.

Lemma ok_inj {A} (a b : A) : @Ok A a = Ok b -> a = b.
Proof. congruence. Qed.

Theorem export_bca_fcf_shape k c x im :
  wf_bca_fcf c = true -> (1040 <= length (b_app x))%nat -> 0 <= b_lifecycle x < 256 ->
  export_b k c x = Ok im ->
  exists b, update_fcf x (b_app x) = Ok b /\
  (provider c SSign = None -> im = b) /\
  (provider c SSign = Some ExportMixinCrcSignBca ->
   exists wc ws wn, u32 (Z.of_N (mbi_crc32_mpeg (skipn O_DATA b))) = Ok wc /\ u32 G_BCA_IMG_DATA_START = Ok ws /\
                    u32 (zlen (skipn O_DATA b)) = Ok wn /\
                    im = firstn 960 b ++ wr 8 wn (wr 4 ws (wr 12 wc (sub b O_BCA O_FCF))) ++ skipn 1024 b).
Proof.
  intros W L R E. unfold wf_bca_fcf in W. wf_split W.
  rename W0 into Wsign, W1 into Wdis, W2 into Wcol, W3 into Wno, W4 into Wfcf, W5 into Wapp.
  apply Z.eqb_eq in Wcol, Wdis. apply opt_id_eq in Wcol, Wdis.
  destruct (update_fcf_props x (b_app x) L R) as (b & UF & Lb & _ & _). exists b. split; [exact UF|].
  unfold export_b in E. rewrite Wno in E. cbn [negb] in E.
  apply bind_ok in E as ([] & _ & E). apply bind_ok in E as (im0 & C & E). apply bind_ok in E as (im1 & S & E). apply ok_inj in E. subst im.
  unfold collect_b in C. rewrite Wcol in C. destruct (b_app x) as [|a0 r0] eqn:Ea; [simpl in L; lia|]. rewrite <- Ea in *.
  rewrite UF in C. cbn [bind] in C. apply ok_inj in C. subst im0.
  destruct (slices_shape b) as (CT & OC & LN & OB).
  split.
  - intros Pn. unfold sign_b in S. rewrite Pn in S. apply ok_inj in S. subst im1. rewrite (oexport_contig _ CT). exact OC.
  - intros Pc. unfold sign_b in S. rewrite Pc in S. rewrite OB in S.
    rewrite (oexport_contig _ CT), OC in S.
    assert (Lbca : length (sub b O_BCA O_FCF) = 64%nat) by (unfold sub; rewrite slice_length; change O_BCA with 960%nat; change O_FCF with 1024%nat; lia).
    destruct (sub b O_BCA O_FCF) as [|h0 t0] eqn:Eb; [simpl in Lbca; lia|]. rewrite <- Eb in *.
    replace (Nat.ltb (length (sub b O_BCA O_FCF)) 16) with false in S by (symmetry; apply Nat.ltb_ge; lia).
    apply bind_ok in S as (wc & Uc & S). apply bind_ok in S as (ws & Us & S). apply bind_ok in S as (wn & Un & S). apply ok_inj in S. subst im1.
    exists wc, ws, wn. repeat split; try assumption.
    pose proof (u32_length _ _ Uc) as Lc. pose proof (u32_length _ _ Us) as Ls. pose proof (u32_length _ _ Un) as Ln.
    assert (Lnew : length (splice (splice (splice (sub b O_BCA O_FCF) 12 wc) 4 ws) 8 wn) = length (obinary (slices b false) I_BCA)).
    { assert (L1 : length (splice (sub b O_BCA O_FCF) 12 wc) = 64%nat) by (rewrite splice_length; lia).
      assert (L2 : length (splice (splice (sub b O_BCA O_FCF) 12 wc) 4 ws) = 64%nat) by (rewrite splice_length; lia).
      rewrite OB, splice_length; lia. }
    rewrite (oexport_contig _ (contig_oreplace _ 0 I_BCA _ CT Lnew ltac:(rewrite LN; unfold I_BCA; lia))).
    rewrite (oreplace_ocat _ 0 I_BCA 960 (sub b O_BCA O_FCF) _ CT (slices_bca_entry b ltac:(lia))).
    rewrite OC, Lbca. reflexivity.
Qed.

(* reading a word that lies inside the middle part of a ++ m ++ r *)
Lemma rd32_mid (a m r : list N) o : (o + 4 <= length m)%nat -> rd32 (length a + o) (a ++ m ++ r) = rd32 o m.
Proof.
  intros H. unfold rd32. f_equal. f_equal. rewrite skipn_add, skipn_app, skipn_all, Nat.sub_diag. cbn [app skipn].
  rewrite skipn_app. replace (o - length m)%nat with 0%nat by lia. cbn [skipn].
  rewrite firstn_app, skipn_length. replace (4 - (length m - o))%nat with 0%nat by lia. cbn [firstn]. apply app_nil_r.
Qed.
Lemma rd32_mid' (a m r : list N) o n : n = (length a + o)%nat -> (o + 4 <= length m)%nat -> rd32 n (a ++ m ++ r) = rd32 o m.
Proof. intros ->. apply rd32_mid. Qed.
Lemma nth_mid (a m r : list N) i :
  nth i (a ++ m ++ r) 0%N = if (i <? length a)%nat then nth i a 0%N
                            else if (i <? length a + length m)%nat then nth (i - length a) m 0%N
                            else nth (i - length a - length m) r 0%N.
Proof.
  destruct (i <? length a)%nat eqn:E1.
  - apply Nat.ltb_lt in E1. now rewrite app_nth1.
  - apply Nat.ltb_ge in E1. rewrite app_nth2 by lia. destruct (i <? length a + length m)%nat eqn:E2.
    + apply Nat.ltb_lt in E2. now rewrite app_nth1 by lia.
    + apply Nat.ltb_ge in E2. now rewrite app_nth2 by lia.
Qed.

Theorem roundtrip_bca_fcf k q c x im :
  wf_bca_fcf c = true -> (1040 <= length (b_app x))%nat -> In (b_lifecycle x) lifecycle_tags ->
  export_b k c x = Ok im ->
  length im = length (b_app x) /\
  (forall i, i <> O_LC -> ~ (964 <= i < 976)%nat -> nth i im 0%N = nth i (b_app x) 0%N) /\
  (provider c SSign = None -> forall i, i <> O_LC -> nth i im 0%N = nth i (b_app x) 0%N) /\
  nth O_LC im 0%N = (if b_lifecycle x =? 255 then nth O_LC (b_app x) 0%N else Z.to_N (b_lifecycle x)) /\
  (provider c SSign = Some ExportMixinCrcSignBca ->
   rd32 964 im = G_BCA_IMG_DATA_START /\ rd32 968 im = zlen (skipn O_DATA im) /\
   rd32 972 im = Z.of_N (mbi_crc32_mpeg (skipn O_DATA im))) /\
  parse_b q c im = Ok (set_b_app (set_b_lifecycle bx_default (lifecycle_of im)) (pad4 im)) /\
  (b_lifecycle x <> 255 -> lifecycle_of im = b_lifecycle x).
Proof.
  intros W L LT E.
  assert (R : 0 <= b_lifecycle x < 256) by (unfold lifecycle_tags in LT; simpl in LT; lia).
  destruct (export_bca_fcf_shape k c x im W L R E) as (b & UF & SN & SC).
  destruct (update_fcf_props x (b_app x) L R) as (b' & UF' & Lb & NB & NL).
  rewrite UF in UF'. apply ok_inj in UF'. subst b'.
  pose proof W as W'. unfold wf_bca_fcf in W'. wf_split W'.
  rename W0 into Wsign, W1 into Wdis, W2 into Wcol, W3 into Wno, W4 into Wfcf, W5 into Wapp.
  apply Z.eqb_eq in Wdis. apply opt_id_eq in Wdis.
  (* facts about the image, by case on the signing stage *)
  assert (F : length im = length b /\ (forall i, ~ (964 <= i < 976)%nat -> nth i im 0%N = nth i b 0%N) /\
              (provider c SSign = None -> im = b) /\
              (provider c SSign = Some ExportMixinCrcSignBca ->
               rd32 964 im = G_BCA_IMG_DATA_START /\ rd32 968 im = zlen (skipn O_DATA im) /\
               rd32 972 im = Z.of_N (mbi_crc32_mpeg (skipn O_DATA im)))).
  { apply orb_true_iff in Wsign as [Ws|Ws]; apply Z.eqb_eq in Ws.
    - assert (Pn : provider c SSign = None) by (destruct (provider c SSign) as [m|]; [destruct m; discriminate Ws|reflexivity]).
      rewrite (SN Pn). split; [reflexivity|]. split; [intros; reflexivity|]. split; [reflexivity|]. intros Pc. rewrite Pc in Pn. discriminate Pn.
    - apply opt_id_eq in Ws. destruct (SC Ws) as (wc & ws & wn & Uc & Us & Un & ->).
      pose proof (u32_length _ _ Uc) as Lc. pose proof (u32_length _ _ Us) as Ls. pose proof (u32_length _ _ Un) as Ln.
      set (bca := sub b O_BCA O_FCF) in *.
      assert (Lbca : length bca = 64%nat) by (unfold bca, sub; rewrite slice_length; change O_BCA with 960%nat; change O_FCF with 1024%nat; lia).
      assert (L1 : length (wr 12 wc bca) = 64%nat) by (rewrite wr_length; lia).
      assert (L2 : length (wr 4 ws (wr 12 wc bca)) = 64%nat) by (rewrite wr_length; lia).
      assert (L3 : length (wr 8 wn (wr 4 ws (wr 12 wc bca))) = 64%nat) by (rewrite wr_length; lia).
      assert (Lf : length (firstn 960 b) = 960%nat) by (rewrite firstn_length; lia).
      assert (SK : skipn O_DATA (firstn 960 b ++ wr 8 wn (wr 4 ws (wr 12 wc bca)) ++ skipn 1024 b) = skipn O_DATA b).
      { change O_DATA with (1024 + 2048)%nat. rewrite app_assoc, skipn_add.
        rewrite skipn_app. rewrite (skipn_all2 (n:=1024) (firstn 960 b ++ wr 8 wn (wr 4 ws (wr 12 wc bca)))) by (rewrite app_length, Lf, L3; lia). rewrite app_length, Lf, L3.
        replace (1024 - (960 + 64))%nat with 0%nat by lia. cbn [skipn app]. exact (eq_sym (skipn_add b 1024 2048)). }
      split; [rewrite !app_length, Lf, L3, skipn_length; lia|]. split; [|split].
      + intros i Hi. rewrite nth_mid, Lf, L3.
        destruct (i <? 960)%nat eqn:E1; [now rewrite nth_firstn', E1|]. apply Nat.ltb_ge in E1.
        destruct (i <? 960 + 64)%nat eqn:E2.
        * apply Nat.ltb_lt in E2. rewrite nth_wr by lia. rewrite Ln.
          destruct (i - 960 <? 8)%nat eqn:E3.
          { apply Nat.ltb_lt in E3. rewrite nth_wr by lia. rewrite Ls.
            destruct (i - 960 <? 4)%nat eqn:E4; [|apply Nat.ltb_ge in E4; replace (i - 960 <? 4 + 4)%nat with true by (symmetry; apply Nat.ltb_lt; lia); lia].
            apply Nat.ltb_lt in E4. rewrite nth_wr by lia. replace (i - 960 <? 12)%nat with true by (symmetry; apply Nat.ltb_lt; lia).
            unfold bca, sub, slice. rewrite nth_firstn'. replace (i - 960 <? O_FCF - O_BCA)%nat with true by (symmetry; apply Nat.ltb_lt; change O_FCF with 1024%nat; change O_BCA with 960%nat; lia).
            rewrite nth_skipn'. f_equal. change O_BCA with 960%nat. lia. }
          { apply Nat.ltb_ge in E3. destruct (i - 960 <? 8 + 4)%nat eqn:E5; [apply Nat.ltb_lt in E5; lia|]. apply Nat.ltb_ge in E5.
            rewrite nth_wr by lia. rewrite Ls. replace (i - 960 <? 4)%nat with false by (symmetry; apply Nat.ltb_ge; lia).
            replace (i - 960 <? 4 + 4)%nat with false by (symmetry; apply Nat.ltb_ge; lia).
            rewrite nth_wr by lia. rewrite Lc. replace (i - 960 <? 12)%nat with false by (symmetry; apply Nat.ltb_ge; lia).
            destruct (i - 960 <? 12 + 4)%nat eqn:E6; [apply Nat.ltb_lt in E6; lia|].
            unfold bca, sub, slice. rewrite nth_firstn'. replace (i - 960 <? O_FCF - O_BCA)%nat with true by (symmetry; apply Nat.ltb_lt; change O_FCF with 1024%nat; change O_BCA with 960%nat; lia).
            rewrite nth_skipn'. f_equal. change O_BCA with 960%nat. lia. }
        * apply Nat.ltb_ge in E2. rewrite nth_skipn'. f_equal. lia.
      + intros Pn. rewrite Ws in Pn. discriminate Pn.
      + intros _. rewrite SK.
        rewrite (rd32_mid' (firstn 960 b) (wr 8 wn (wr 4 ws (wr 12 wc bca))) (skipn 1024 b) 4 964) by (rewrite ?Lf; lia).
        rewrite (rd32_mid' (firstn 960 b) (wr 8 wn (wr 4 ws (wr 12 wc bca))) (skipn 1024 b) 8 968) by (rewrite ?Lf; lia).
        rewrite (rd32_mid' (firstn 960 b) (wr 8 wn (wr 4 ws (wr 12 wc bca))) (skipn 1024 b) 12 972) by (rewrite ?Lf; lia).
        split; [|split].
        * rewrite rd32_wr_other by lia. rewrite rd32_wr_same by lia. apply (u32_value _ _ Us).
        * rewrite rd32_wr_same by lia. apply (u32_value _ _ Un).
        * rewrite rd32_wr_other by lia. rewrite rd32_wr_other by lia. rewrite rd32_wr_same by lia. apply (u32_value _ _ Uc). }
  destruct F as (F1 & F2 & F3 & F4).
  assert (NLC : nth O_LC im 0%N = nth O_LC b 0%N) by (apply F2; change O_LC with 1036%nat; lia).
  split; [lia|]. split; [intros i H1 H2; rewrite F2 by exact H2; now apply NB|].
  split; [intros Pn i Hi; rewrite (F3 Pn); now apply NB|]. split; [now rewrite NLC|]. split; [exact F4|].
  assert (LO : lifecycle_of im = (if existsb (Z.eqb (Z.of_N (nth O_LC im 0%N))) lifecycle_tags then Z.of_N (nth O_LC im 0%N) else 255)).
  { unfold lifecycle_of. rewrite (nth_error_nth' im 0%N) by (change O_LC with 1036%nat; lia). reflexivity. }
  split.
  - unfold parse_b. rewrite Wno. cbn [negb]. rewrite parse_mixins_fcf by assumption.
    unfold has in Wfcf. rewrite Wfcf. cbn [bind]. rewrite Wdis. reflexivity.
  - intros NE. rewrite LO, NLC, NL. apply Z.eqb_neq in NE. rewrite NE. rewrite Z2N.id by lia.
    replace (existsb (Z.eqb (b_lifecycle x)) lifecycle_tags) with true; [reflexivity|].
    symmetry. apply existsb_exists. exists (b_lifecycle x). split; [exact LT | apply Z.eqb_refl].
Qed.


(* ------------------------------------------------------------------ every offer of the database: under a round-trip theorem,
   or one of two named kinds that are modelled (MbiBcaModel.v, exact correspondence on every run) but have no round-trip theorem:
   - kind_vx   (mc56f818xx / mwct20d2 signed, certificate block Vx): Mbi_ExportMixinEccSignVx replaces sub-images by shorter
     strings (zero fill), which the concatenation lemmas below do not cover yet;
   - kind_mcxc (mcxc plain with BCA / FCF objects): the register level canonical form of the two areas belongs to C11 / C12,
     and parse does not find the class for most payloads (finding C01-F11). *)
Definition kind_vx (c : mbi_class) : bool := bca_kind c && has c MixinCertBlockVx.
Definition kind_mcxc (c : mbi_class) : bool := bca_kind c && (has c MixinBca || has c MixinFcf).
Definition under_roundtrip_theorem (c : mbi_class) : bool :=
  wf_plain_crc c || wf_v1 c || wf_v21 c || wf_enc c || wf_bca_fcf c.
Definition offer_class_ok (c : mbi_class) : bool :=
  (under_roundtrip_theorem c && negb (kind_vx c) && negb (kind_mcxc c)) ||
  (negb (under_roundtrip_theorem c) && xorb (kind_vx c) (kind_mcxc c)).
Lemma offers_classified_all : forallb offer_class_ok gen_compositions = true.
Proof. vm_compute. reflexivity. Qed.
Lemma offers_classified : forall c, In c gen_compositions ->
  (under_roundtrip_theorem c = true /\ kind_vx c = false /\ kind_mcxc c = false) \/
  (under_roundtrip_theorem c = false /\ xorb (kind_vx c) (kind_mcxc c) = true).
Proof.
  intros c H. pose proof (proj1 (forallb_forall offer_class_ok gen_compositions) offers_classified_all c H) as K.
  unfold offer_class_ok in K. apply orb_true_iff in K as [K|K].
  - apply andb_true_iff in K as [K K3]. apply andb_true_iff in K as [K1 K2]. left. repeat split; [exact K1 | now apply negb_true_iff | now apply negb_true_iff].
  - apply andb_true_iff in K as [K1 K2]. right. split; [now apply negb_true_iff | exact K2].
Qed.
Lemma offers_counted :
  count_offers (fun _ => true) = (count_offers under_roundtrip_theorem + count_offers kind_vx + count_offers kind_mcxc)%nat /\
  (0 < count_offers wf_bca_fcf)%nat.
Proof. vm_compute. split; [reflexivity | lia]. Qed.


(* the repaired refusals (findings C01-F14, C01-F15): a life cycle on an application that ends before the life-cycle byte,
   and CRC signing of an application that ends inside the first 16 bytes of the Boot Config Area, are not exported *)
Theorem bca_fcf_refusals k c x im :
  wf_bca_fcf c = true -> export_b k c x = Ok im ->
  (b_lifecycle x <> 255 -> (O_LC < length (b_app x))%nat) /\
  (provider c SSign = Some ExportMixinCrcSignBca -> b_lifecycle x = 255 -> (O_BCA + 16 <= length (b_app x))%nat).
Proof.
  intros W E. unfold wf_bca_fcf in W. wf_split W.
  rename W0 into Wsign, W1 into Wdis, W2 into Wcol, W3 into Wno, W4 into Wfcf, W5 into Wapp.
  apply Z.eqb_eq in Wcol. apply opt_id_eq in Wcol.
  unfold export_b in E. rewrite Wno in E. cbn [negb] in E.
  apply bind_ok in E as ([] & _ & E). apply bind_ok in E as (im0 & C & E). apply bind_ok in E as (im1 & S & E).
  unfold collect_b in C. rewrite Wcol in C. destruct (b_app x) as [|a0 r0] eqn:Ea; [discriminate C|]. rewrite <- Ea in *.
  apply bind_ok in C as (b & UF & C). apply ok_inj in C. subst im0.
  split.
  - intros NE. unfold update_fcf in UF. apply Z.eqb_neq in NE. rewrite NE in UF.
    destruct (Nat.leb (length (b_app x)) O_LC) eqn:Q; [discriminate UF|]. apply Nat.leb_gt in Q. exact Q.
  - intros Pc LC. unfold update_fcf in UF. rewrite LC in UF. cbn in UF. apply ok_inj in UF. subst b.
    unfold sign_b in S. rewrite Pc in S. destruct (slices_shape (b_app x)) as (CT & OC & LN & OB). rewrite OB in S.
    destruct (sub (b_app x) O_BCA O_FCF) as [|h0 t0] eqn:Eb; [discriminate S|]. rewrite <- Eb in *.
    destruct (Nat.ltb (length (sub (b_app x) O_BCA O_FCF)) 16) eqn:Q; [discriminate S|]. apply Nat.ltb_ge in Q.
    unfold sub, slice in Q. rewrite firstn_length, skipn_length in Q. lia.
Qed.
