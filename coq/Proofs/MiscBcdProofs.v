(* Proofs/MiscBcdProofs.v -- C20: spsdk.sbfile.misc.BcdVersion3 (from_str / __str__) as modelled in
   MiscModel.v: string round trips, the documented form d{1,4}.d{1,4}.d{1,4} has its BCD reading, and what is
   accepted is always a valid BCD triple read from exactly three dot-separated parts of at most 4 characters;
   everything else is Err 1. *)
From Coq Require Import ZArith NArith List Bool Lia ZifyBool.
Require Import Value Bytes BytesProofs GenMisc MiscModel MiscProofs.
Import ListNotations.
Local Open Scope Z_scope.

(* ====================================================================== SPECIFICATION *)
(* a valid BCD component: four decimal digits d3 d2 d1 d0, one per nibble *)
Definition bcd_valid (v : Z) : Prop :=
  exists d3 d2 d1 d0, 0 <= d3 <= 9 /\ 0 <= d2 <= 9 /\ 0 <= d1 <= 9 /\ 0 <= d0 <= 9 /\
    v = ((d3 * 16 + d2) * 16 + d1) * 16 + d0.

(* the documented component text: one to four decimal digits *)
Definition dec_str (a : list N) : Prop :=
  (1 <= length a <= 4)%nat /\ Forall (fun ch => (48 <= ch <= 57)%N) a.
(* its BCD reading: each decimal digit becomes one nibble *)
Definition bcd_read (a : list N) : Z := fold_left (fun acc ch => acc * 16 + (Z.of_N ch - 48)) a 0.
(* canonical text: no superfluous leading zero (what __str__ prints) *)
Definition canonical (a : list N) : Prop := a = [48%N] \/ (exists c t, a = c :: t /\ c <> 48%N).

Definition dotted (a b c : list N) : list N := a ++ [46%N] ++ b ++ [46%N] ++ c.
Definition nodot (a : list N) : Prop := forall ch, In ch a -> ch <> 46%N.

(* ====================================================================== sweeps over the finite domains *)
Lemma bcd_check_range v : bcd_check v = true -> 0 <= v <= 39321.
Proof. unfold bcd_check. intros H. repeat (apply andb_true_iff in H; destruct H as [H ?]). lia. Qed.

Definition nodotb (a : list N) : bool := negb (existsb (N.eqb 46) a).
Lemma nodotb_spec a : nodotb a = true -> nodot a.
Proof.
  unfold nodotb, nodot. intros H ch Hin ->. apply negb_true_iff in H.
  assert (existsb (N.eqb 46) a = true); [|congruence].
  apply existsb_exists. exists 46%N. split; [assumption|reflexivity].
Qed.

Definition recompose (v : Z) : Z :=
  ((Z.land (Z.shiftr v 12) 15 * 16 + Z.land (Z.shiftr v 8) 15) * 16 + Z.land (Z.shiftr v 4) 15) * 16 + Z.land v 15.

Definition comp_ok (v : Z) : bool :=
  implb (bcd_check v)
    (match bcd_num_from_str (hex_upper v) with Ok v' => v' =? v | Err _ => false end
     && nodotb (hex_upper v) && (recompose v =? v)).

Lemma comp_sweep : forallb comp_ok (zrange 39322) = true.
Proof. vm_compute. reflexivity. Qed.

Lemma comp_roundtrip v : bcd_check v = true ->
  bcd_num_from_str (hex_upper v) = Ok v /\ nodot (hex_upper v) /\ recompose v = v.
Proof.
  intros H. pose proof (bcd_check_range v H) as Hr.
  pose proof comp_sweep as S. rewrite forallb_forall in S.
  specialize (S v (in_zrange 39322 v ltac:(lia))). unfold comp_ok in S. rewrite H in S. cbn [implb] in S.
  apply andb_true_iff in S as [S S3]. apply andb_true_iff in S as [S1 S2].
  destruct (bcd_num_from_str (hex_upper v)) as [v'|]; [|discriminate].
  split; [f_equal; lia|]. split; [now apply nodotb_spec|lia].
Qed.

Definition digs : list N := [48; 49; 50; 51; 52; 53; 54; 55; 56; 57]%N.
Lemma in_digs c : (48 <= c <= 57)%N -> In c digs.
Proof.
  intros H.
  assert (E : (c = 48 \/ c = 49 \/ c = 50 \/ c = 51 \/ c = 52 \/ c = 53 \/ c = 54 \/ c = 55 \/ c = 56 \/ c = 57)%N) by lia.
  unfold digs. cbn [In]. intuition.
Qed.

Definition canonicalb (a : list N) : bool :=
  match a with [48%N] => true | c :: _ => negb (N.eqb c 48) | [] => false end.
Definition str_ok (a : list N) : bool :=
  match bcd_num_from_str a with Ok v => (v =? bcd_read a) && bcd_check v | Err _ => false end
  && implb (canonicalb a) (eqb_list (hex_upper (bcd_read a)) a).

Lemma str_sweep :
  forallb (fun c1 => str_ok [c1] &&
    forallb (fun c2 => str_ok [c1; c2] &&
      forallb (fun c3 => str_ok [c1; c2; c3] &&
        forallb (fun c4 => str_ok [c1; c2; c3; c4]) digs) digs) digs) digs = true.
Proof. vm_compute. reflexivity. Qed.

Lemma dec_str_ok a : dec_str a -> str_ok a = true.
Proof.
  intros [Hl Hf]. pose proof str_sweep as S. rewrite forallb_forall in S.
  destruct a as [|c1 a]; [simpl in Hl; lia|]. inversion Hf as [|? ? H1 Hf1]; subst.
  specialize (S c1 (in_digs c1 H1)). apply andb_true_iff in S as [S1 S].
  destruct a as [|c2 a]; [exact S1|]. inversion Hf1 as [|? ? H2 Hf2]; subst.
  rewrite forallb_forall in S. specialize (S c2 (in_digs c2 H2)). apply andb_true_iff in S as [S2 S].
  destruct a as [|c3 a]; [exact S2|]. inversion Hf2 as [|? ? H3 Hf3]; subst.
  rewrite forallb_forall in S. specialize (S c3 (in_digs c3 H3)). apply andb_true_iff in S as [S3 S].
  destruct a as [|c4 a]; [exact S3|]. inversion Hf3 as [|? ? H4 Hf4]; subst.
  rewrite forallb_forall in S. specialize (S c4 (in_digs c4 H4)).
  destruct a as [|c5 a]; [exact S|]. simpl in Hl. lia.
Qed.

Lemma canonicalb_spec a : canonical a -> canonicalb a = true.
Proof.
  intros [->|(c & t & -> & Hc)]; [reflexivity|]. unfold canonicalb.
  destruct (N.eqb c 48) eqn:E; [apply N.eqb_eq in E; congruence|].
  destruct c as [|p]; [reflexivity|]. repeat (destruct p as [p|p|]; try reflexivity); destruct t; reflexivity.
Qed.

Lemma dec_str_component a : dec_str a ->
  bcd_num_from_str a = Ok (bcd_read a) /\ bcd_check (bcd_read a) = true /\ nodot a /\
  (canonical a -> hex_upper (bcd_read a) = a).
Proof.
  intros H. pose proof (dec_str_ok a H) as S. unfold str_ok in S.
  apply andb_true_iff in S as [S1 S2].
  destruct (bcd_num_from_str a) as [v|]; [|discriminate].
  apply andb_true_iff in S1 as [S1 S1'].
  assert (v = bcd_read a) by lia. subst v.
  split; [reflexivity|]. split; [assumption|]. split.
  - destruct H as [_ Hf]. rewrite Forall_forall in Hf. intros ch Hin ->. specialize (Hf _ Hin). lia.
  - intros Hc. rewrite (canonicalb_spec a Hc) in S2. cbn [implb] in S2. now apply eqb_list_spec.
Qed.

(* ====================================================================== str.split(".") *)
Lemma split_dot_nodot a : forall rest cur, nodot a -> split_dot (a ++ rest) cur = split_dot rest (rev a ++ cur).
Proof.
  induction a as [|c a IH]; intros rest cur Hn; [reflexivity|].
  cbn [app split_dot]. assert (Hc : N.eqb c 46 = false).
  { apply N.eqb_neq. apply Hn. now left. }
  rewrite Hc. rewrite IH by (intros ch Hin; apply Hn; now right).
  cbn [rev]. now rewrite <- app_assoc.
Qed.

Lemma split_dot_three a b c : nodot a -> nodot b -> nodot c -> split_dot (dotted a b c) [] = [a; b; c].
Proof.
  intros Ha Hb Hc. unfold dotted.
  rewrite split_dot_nodot by assumption. cbn [app split_dot]. change (N.eqb 46 46) with true. cbv iota.
  rewrite app_nil_r, rev_involutive. f_equal.
  rewrite split_dot_nodot by assumption. cbn [app split_dot]. change (N.eqb 46 46) with true. cbv iota.
  rewrite app_nil_r, rev_involutive. f_equal.
  rewrite <- (app_nil_r c). rewrite split_dot_nodot by assumption. cbn [split_dot].
  now rewrite !app_nil_r, rev_involutive.
Qed.

Fixpoint join (l : list (list N)) : list N :=
  match l with
  | [] => []
  | a :: t => match t with [] => a | _ => a ++ 46%N :: join t end
  end.

Lemma split_dot_nonempty s cur : split_dot s cur <> [].
Proof. revert cur. induction s as [|c t IH]; intros cur; cbn; [discriminate|]. destruct (N.eqb c 46); [discriminate|apply IH]. Qed.

Lemma split_dot_join s : forall cur, join (split_dot s cur) = rev cur ++ s.
Proof.
  induction s as [|c t IH]; intros cur; cbn [split_dot].
  - cbn. now rewrite app_nil_r.
  - destruct (N.eqb c 46) eqn:E.
    + apply N.eqb_eq in E. subst c. cbn [join].
      destruct (split_dot t []) as [|x l] eqn:Et; [now apply split_dot_nonempty in Et|].
      rewrite <- Et, IH. reflexivity.
    + rewrite IH. cbn [rev]. now rewrite <- app_assoc.
Qed.

Lemma split_dot_parts s : forall cur, nodot cur -> Forall nodot (split_dot s cur).
Proof.
  induction s as [|c t IH]; intros cur Hc; cbn [split_dot].
  - constructor; [|constructor]. intros ch Hin. apply Hc. now apply in_rev.
  - destruct (N.eqb c 46) eqn:E.
    + constructor; [intros ch Hin; apply Hc; now apply in_rev|]. apply IH. intros ch [].
    + apply IH. intros ch [<-|Hin]; [now apply N.eqb_neq|now apply Hc].
Qed.

Lemma split_dot_count s : forall cur, length (split_dot s cur) = S (count_occ N.eq_dec s 46%N).
Proof.
  induction s as [|c t IH]; intros cur; cbn [split_dot]; [reflexivity|].
  destruct (N.eqb c 46) eqn:E.
  - apply N.eqb_eq in E. subst c. cbn [length]. rewrite IH. now rewrite count_occ_cons_eq.
  - apply N.eqb_neq in E. rewrite IH. now rewrite count_occ_cons_neq.
Qed.

(* ====================================================================== main lemmas *)
Lemma bcd_check_valid v : bcd_check v = true <-> bcd_valid v.
Proof.
  split.
  - intros H. destruct (comp_roundtrip v H) as (_ & _ & Hr).
    unfold bcd_check in H. repeat (apply andb_true_iff in H; destruct H as [H ?]).
    exists (Z.land (Z.shiftr v 12) 15), (Z.land (Z.shiftr v 8) 15), (Z.land (Z.shiftr v 4) 15), (Z.land v 15).
    assert (forall w, 0 <= Z.land w 15).
    { intros w. apply Z.land_nonneg. right. lia. }
    pose proof (H5 (Z.shiftr v 12)). pose proof (H5 (Z.shiftr v 8)). pose proof (H5 (Z.shiftr v 4)). pose proof (H5 v).
    unfold recompose in Hr.
    repeat split; try assumption; try (apply Z.leb_le; assumption). symmetry. exact Hr.
  - intros (d3 & d2 & d1 & d0 & H3 & H2 & H1 & H0 & ->).
    assert (Hs : forallb (fun d3 => forallb (fun d2 => forallb (fun d1 => forallb (fun d0 =>
              bcd_check (((d3 * 16 + d2) * 16 + d1) * 16 + d0)) (zrange 10)) (zrange 10)) (zrange 10)) (zrange 10) = true)
      by (vm_compute; reflexivity).
    rewrite forallb_forall in Hs. specialize (Hs d3 (in_zrange 10 d3 ltac:(lia))).
    rewrite forallb_forall in Hs. specialize (Hs d2 (in_zrange 10 d2 ltac:(lia))).
    rewrite forallb_forall in Hs. specialize (Hs d1 (in_zrange 10 d1 ltac:(lia))).
    rewrite forallb_forall in Hs. exact (Hs d0 (in_zrange 10 d0 ltac:(lia))).
Qed.

Lemma bcd_from_dotted a b c : nodot a -> nodot b -> nodot c ->
  bcd_from_str (dotted a b c) =
    match bcd_num_from_str a with
    | Err e => Err e
    | Ok x => match bcd_num_from_str b with
              | Err e => Err e
              | Ok y => match bcd_num_from_str c with Err e => Err e | Ok z => Ok (x, y, z) end
              end
    end.
Proof. intros Ha Hb Hc. unfold bcd_from_str. now rewrite split_dot_three. Qed.

(* 1. object -> text -> object *)
Lemma bcd_roundtrip_l x y z : bcd_valid x -> bcd_valid y -> bcd_valid z ->
  bcd_from_str (bcd_to_str (x, y, z)) = Ok (x, y, z).
Proof.
  intros Hx Hy Hz. apply bcd_check_valid in Hx, Hy, Hz.
  destruct (comp_roundtrip x Hx) as (Ex & Nx & _).
  destruct (comp_roundtrip y Hy) as (Ey & Ny & _).
  destruct (comp_roundtrip z Hz) as (Ez & Nz & _).
  change (bcd_to_str (x, y, z)) with (dotted (hex_upper x) (hex_upper y) (hex_upper z)).
  rewrite bcd_from_dotted by assumption. now rewrite Ex, Ey, Ez.
Qed.

(* 2. the documented text form has its BCD reading; canonical text is printed back unchanged *)
Lemma bcd_from_str_documented_l a b c : dec_str a -> dec_str b -> dec_str c ->
  bcd_from_str (dotted a b c) = Ok (bcd_read a, bcd_read b, bcd_read c) /\
  bcd_valid (bcd_read a) /\ bcd_valid (bcd_read b) /\ bcd_valid (bcd_read c) /\
  (canonical a -> canonical b -> canonical c ->
     bcd_to_str (bcd_read a, bcd_read b, bcd_read c) = dotted a b c).
Proof.
  intros Ha Hb Hc.
  destruct (dec_str_component a Ha) as (Ea & Va & Na & Ca).
  destruct (dec_str_component b Hb) as (Eb & Vb & Nb & Cb).
  destruct (dec_str_component c Hc) as (Ec & Vc & Nc & Cc).
  split; [rewrite bcd_from_dotted by assumption; now rewrite Ea, Eb, Ec|].
  split; [now apply bcd_check_valid|]. split; [now apply bcd_check_valid|]. split; [now apply bcd_check_valid|].
  intros Xa Xb Xc.
  change (bcd_to_str (bcd_read a, bcd_read b, bcd_read c))
    with (dotted (hex_upper (bcd_read a)) (hex_upper (bcd_read b)) (hex_upper (bcd_read c))).
  now rewrite Ca, Cb, Cc.
Qed.

(* 3. whatever is accepted is a valid triple read from exactly three parts of at most 4 characters;
      every other input is rejected with the SPSDK error class *)
Lemma bcd_num_total a : (exists v, bcd_num_from_str a = Ok v /\ bcd_check v = true /\ (length a <= 4)%nat)
                        \/ bcd_num_from_str a = Err 1%N.
Proof.
  unfold bcd_num_from_str. destruct (Nat.ltb 4 (length a)) eqn:E; [now right|].
  destruct (py_int16_text a) as [v|]; [|now right].
  destruct (bcd_check v) eqn:Ec; [|now right].
  left. exists v. apply Nat.ltb_ge in E. auto.
Qed.

Lemma bcd_from_str_accepts_only_l s x y z : bcd_from_str s = Ok (x, y, z) ->
  bcd_valid x /\ bcd_valid y /\ bcd_valid z /\
  exists a b c, s = dotted a b c /\ nodot a /\ nodot b /\ nodot c /\
    (length a <= 4)%nat /\ (length b <= 4)%nat /\ (length c <= 4)%nat /\
    bcd_num_from_str a = Ok x /\ bcd_num_from_str b = Ok y /\ bcd_num_from_str c = Ok z.
Proof.
  unfold bcd_from_str. intros H.
  pose proof (split_dot_join s []) as Hj. pose proof (split_dot_parts s [] ltac:(intros ch [])) as Hp.
  destruct (split_dot s []) as [|a [|b [|c [|e l]]]]; try discriminate.
  destruct (bcd_num_total a) as [(x' & Ea & Va & La)|Ea]; rewrite Ea in H; [|discriminate].
  destruct (bcd_num_total b) as [(y' & Eb & Vb & Lb)|Eb]; rewrite Eb in H; [|discriminate].
  destruct (bcd_num_total c) as [(z' & Ec & Vc & Lc)|Ec]; rewrite Ec in H; [|discriminate].
  injection H as <- <- <-.
  split; [now apply bcd_check_valid|]. split; [now apply bcd_check_valid|]. split; [now apply bcd_check_valid|].
  exists a, b, c. inversion Hp as [|? ? Pa Hp1]; subst. inversion Hp1 as [|? ? Pb Hp2]; subst.
  inversion Hp2 as [|? ? Pc _]; subst.
  cbn in Hj. split; [symmetry; exact Hj|]. auto 12.
Qed.

Lemma bcd_from_str_total_l s : (exists v, bcd_from_str s = Ok v) \/ bcd_from_str s = Err 1%N.
Proof.
  unfold bcd_from_str. destruct (split_dot s []) as [|a [|b [|c [|e l]]]]; try (now right).
  destruct (bcd_num_total a) as [(x' & Ea & _)|Ea]; rewrite Ea; [|now right].
  destruct (bcd_num_total b) as [(y' & Eb & _)|Eb]; rewrite Eb; [|now right].
  destruct (bcd_num_total c) as [(z' & Ec & _)|Ec]; rewrite Ec; [|now right].
  left. eexists; reflexivity.
Qed.

Lemma bcd_from_str_wrong_parts_l s : count_occ N.eq_dec s 46%N <> 2%nat -> bcd_from_str s = Err 1%N.
Proof.
  intros H. unfold bcd_from_str. pose proof (split_dot_count s []) as Hc.
  destruct (split_dot s []) as [|a [|b [|c [|e l]]]]; try reflexivity.
  simpl in Hc. lia.
Qed.

Lemma bcd_from_str_long_part_l a b c : nodot a -> nodot b -> nodot c ->
  (4 < length a \/ 4 < length b \/ 4 < length c)%nat -> bcd_from_str (dotted a b c) = Err 1%N.
Proof.
  intros Ha Hb Hc H. rewrite bcd_from_dotted by assumption.
  destruct (bcd_num_total a) as [(x' & Ea & _ & La)|Ea]; rewrite Ea; [|reflexivity].
  destruct (bcd_num_total b) as [(y' & Eb & _ & Lb)|Eb]; rewrite Eb; [|reflexivity].
  destruct (bcd_num_total c) as [(z' & Ec & _ & Lc)|Ec]; rewrite Ec; [|reflexivity].
  lia.
Qed.

(* ====================================================================== the hypotheses are satisfiable *)
Example bcd_ex1 : bcd_valid 0x9999 /\ bcd_valid 0 /\ bcd_valid 0x1234.
Proof. repeat split; apply bcd_check_valid; reflexivity. Qed.
Example bcd_ex2 : ~ bcd_valid 0x1A.
Proof. intros H. apply bcd_check_valid in H. vm_compute in H. discriminate. Qed.
Example bcd_ex3 : dec_str [49; 50]%N /\ canonical [49; 50]%N /\ bcd_read [49; 50]%N = 0x12.
Proof. split; [split; [cbn; lia|repeat constructor; lia]|]. split; [right; exists 49%N, [50%N]; split; [reflexivity|discriminate]|reflexivity]. Qed.
Example bcd_ex4 : bcd_from_str [49; 46; 50; 46; 51]%N = Ok (1, 2, 3)                 (* "1.2.3" *)
               /\ bcd_from_str [49; 46; 50]%N = Err 1%N                              (* "1.2" *)
               /\ bcd_from_str [49; 50; 51; 52; 53; 46; 49; 46; 49]%N = Err 1%N      (* "12345.1.1" *)
               /\ bcd_from_str [97; 46; 49; 46; 49]%N = Err 1%N.                      (* "a.1.1" *)
Proof. vm_compute. repeat split; reflexivity. Qed.
(* the text parser is int(text, 16): it also accepts a sign, "0x" and an inner underscore (C20 design note) *)
Example bcd_ex5_quirk : bcd_from_str [43; 49; 46; 48; 120; 50; 46; 49; 95; 48]%N = Ok (1, 2, 16).   (* "+1.0x2.1_0" *)
Proof. vm_compute. reflexivity. Qed.

(* ====================================================================== statements used by Props/C20 *)
Lemma bcd_from_str_accepts_only_l2 s :
  ((exists v, bcd_from_str s = Ok v) \/ bcd_from_str s = Err 1%N) /\
  (forall x y z, bcd_from_str s = Ok (x, y, z) ->
     bcd_valid x /\ bcd_valid y /\ bcd_valid z /\
     exists a b c, s = dotted a b c /\ nodot a /\ nodot b /\ nodot c /\
       (length a <= 4)%nat /\ (length b <= 4)%nat /\ (length c <= 4)%nat /\
       bcd_num_from_str a = Ok x /\ bcd_num_from_str b = Ok y /\ bcd_num_from_str c = Ok z).
Proof. split; [apply bcd_from_str_total_l|apply bcd_from_str_accepts_only_l]. Qed.

Lemma bcd_from_str_rejects_l :
  (forall s, count_occ N.eq_dec s 46%N <> 2%nat -> bcd_from_str s = Err 1%N) /\
  (forall a b c, nodot a -> nodot b -> nodot c ->
     (4 < length a \/ 4 < length b \/ 4 < length c)%nat -> bcd_from_str (dotted a b c) = Err 1%N).
Proof. split; [apply bcd_from_str_wrong_parts_l|apply bcd_from_str_long_part_l]. Qed.

Print Assumptions bcd_roundtrip_l.
Print Assumptions bcd_from_str_documented_l.
Print Assumptions bcd_from_str_accepts_only_l2.
Print Assumptions bcd_from_str_rejects_l.
Print Assumptions bcd_check_valid.
