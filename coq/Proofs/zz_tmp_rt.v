(* Proofs/MbiRtProofs.v -- C01: re-export stability and parse (export x) = x for the class kinds that are proved
   end to end; stage-inverse lemmas for the others.  Depends on MbiProofs.v. *)
From Coq Require Import ZArith NArith List Bool Lia.
Require Import Value Bytes BytesProofs MbiMixinModel GenMbi MbiModel MbiProofs.
Import ListNotations.
Ltac Zify.zify_post_hook ::= Z.to_euclidean_division_equations.
Local Open Scope Z_scope.

(* ------------------------------------------------------------------ export only sees the application modulo the IVT words *)
Lemma mix_len_set_app x a m : length a = length (m_app x) -> mix_len (set_app x a) m = mix_len x m.
Proof. intros H. destruct m; simpl; try reflexivity. unfold zlen. now rewrite H. Qed.
Lemma mix_app_len_set_app x a m : length a = length (m_app x) -> mix_app_len (set_app x a) m = mix_app_len x m.
Proof. intros H. destruct m; simpl; try reflexivity. unfold zlen. now rewrite H. Qed.
Lemma total_len_set_app c x a : length a = length (m_app x) -> total_len c (set_app x a) = total_len c x.
Proof. intros H. unfold total_len. f_equal. apply map_ext. intros m. now apply mix_len_set_app. Qed.
Lemma app_len_set_app c x a : length a = length (m_app x) -> app_len c (set_app x a) = app_len c x.
Proof. intros H. unfold app_len. f_equal. apply map_ext. intros m. now apply mix_app_len_set_app. Qed.
Lemma total_len_for_cert_set_app c x a : length a = length (m_app x) -> total_len_for_cert c (set_app x a) = total_len_for_cert c x.
Proof. intros H. unfold total_len_for_cert. f_equal. apply map_ext. intros m. destruct (legacy_len m); [now apply mix_len_set_app|reflexivity]. Qed.

Lemma rd32_clean_low o app : (56 <= length app)%nat -> (o + 4 <= 32)%nat -> rd32 o (clean_ivt app) = rd32 o app.
Proof.
  intros L H. unfold rd32. f_equal. f_equal. apply firstn_skipn_nth_eq.
  - now apply clean_ivt_length.
  - intros i Hi. rewrite nth_clean_ivt by assumption.
    replace (32 <=? i)%nat with false by (symmetry; apply Nat.leb_gt; lia).
    replace (52 <=? i)%nat with false by (symmetry; apply Nat.leb_gt; lia). reflexivity.
Qed.

Lemma update_ivt_set_app c x a app total cc : update_ivt c (set_app x a) app total cc = update_ivt c x app total cc.
Proof. reflexivity. Qed.

Lemma validate_in_set_app c x l :
  (56 <= length (m_app x))%nat -> validate_in c (set_app x (clean_ivt (m_app x))) l = validate_in c x l.
Proof.
  intros L. induction l as [|m l IH]; [reflexivity|]. simpl. rewrite IH.
  assert (E : mix_validate c (set_app x (clean_ivt (m_app x))) m = mix_validate c x m); [|now rewrite E].
  destruct m; try reflexivity. simpl.
  rewrite clean_ivt_length by assumption. rewrite !rd32_clean_low by (assumption || lia). reflexivity.
Qed.

Lemma nonempty_clean app : (56 <= length app)%nat -> exists b t, clean_ivt app = b :: t.
Proof.
  intros L. pose proof (clean_ivt_length app L) as H. destruct (clean_ivt app) as [|b t]; [simpl in H; lia|eauto].
Qed.

Lemma collect_set_app c x :
  (56 <= length (m_app x))%nat -> has_attr c AIvtTable = true ->
  collect c (set_app x (clean_ivt (m_app x))) = collect c x.
Proof.
  intros L HI. pose proof (clean_ivt_length _ L) as CL.
  destruct (nonempty_clean _ L) as (b & t & Eb).
  assert (Ea : exists b' t', m_app x = b' :: t') by (destruct (m_app x) as [|b' t']; [simpl in L; lia|eauto]).
  destruct Ea as (b' & t' & Ea).
  unfold collect.
  destruct (provider c SCollect) as [[]|]; try reflexivity.
  - unfold collect_app. simpl m_app. rewrite Eb, Ea, <- Eb, <- Ea. rewrite HI.
    rewrite update_ivt_set_app, total_len_set_app, update_clean by assumption. reflexivity.
  - unfold collect_app. simpl m_app. rewrite Eb, Ea, <- Eb, <- Ea. rewrite HI.
    rewrite update_ivt_set_app, total_len_set_app, update_clean by assumption. reflexivity.
  - simpl m_app. simpl m_cert. rewrite Eb, Ea, <- Eb, <- Ea.
    destruct (m_cert x) as [[pre post sg|]|]; try reflexivity.
    rewrite total_len_for_cert_set_app, update_ivt_set_app, total_len_set_app, app_len_set_app, update_clean by assumption.
    reflexivity.
  - simpl m_app. simpl m_cert. rewrite Eb, Ea, <- Eb, <- Ea.
    destruct (m_cert x) as [cb|]; try reflexivity.
    rewrite update_ivt_set_app, total_len_set_app, app_len_set_app, update_clean by assumption. reflexivity.
  - simpl m_app. simpl m_cert. rewrite Eb, Ea, <- Eb, <- Ea.
    destruct (m_cert x) as [[pre post sg|]|]; try reflexivity.
    rewrite update_ivt_set_app, total_len_set_app, app_len_set_app, update_clean by assumption. reflexivity.
Qed.

Lemma post_encrypt_set_app c x a im : length a = length (m_app x) -> post_encrypt c (set_app x a) im = post_encrypt c x im.
Proof.
  intros H. unfold post_encrypt. destruct (provider c SPostEncrypt) as [[]|]; try reflexivity.
  simpl m_cert. destruct (m_cert x) as [[pre post sg|]|]; try reflexivity.
  rewrite update_ivt_set_app, total_len_set_app, app_len_set_app by assumption. reflexivity.
Qed.

Lemma hmac_insert_between_set_app x a hm im off b : hmac_insert_between (set_app x a) hm im off b = hmac_insert_between x hm im off b.
Proof. revert off b; induction im as [|s t IH]; intros off b; simpl; [reflexivity|]. now rewrite IH. Qed.
Lemma hmac_insert_split_set_app x a hm im off : hmac_insert_split (set_app x a) hm im off = hmac_insert_split x hm im off.
Proof. revert off; induction im as [|s t IH]; intros off; simpl; [reflexivity|]. now rewrite IH. Qed.
Lemma finalize_set_app k c x a im dts : length a = length (m_app x) -> finalize k c (set_app x a) im dts = finalize k c x im dts.
Proof.
  intros H. unfold finalize. destruct (provider c SFinalize) as [[]|]; try reflexivity.
  simpl m_hmac. now rewrite app_len_set_app, hmac_insert_between_set_app, hmac_insert_split_set_app.
Qed.

(* re-exporting the parsed application (IVT words zeroed) gives the same image, for EVERY class with an IVT *)
Lemma export_clean_app k c x :
  (56 <= length (m_app x))%nat -> has_attr c AIvtTable = true ->
  export_mbi k c (set_app x (clean_ivt (m_app x))) = export_mbi k c x.
Proof.
  intros L HI. unfold export_mbi, export_image. destruct (negb (supported c)); [reflexivity|].
  unfold validate. rewrite validate_in_set_app by assumption.
  destruct (validate_in c x (c_mixins c)) as [[]|]; simpl; [|reflexivity].
  rewrite collect_set_app by assumption.
  destruct (collect c x) as [raw|]; simpl; [|reflexivity].
  change (encrypt k c (set_app x (clean_ivt (m_app x))) raw) with (encrypt k c x raw).
  destruct (encrypt k c x raw) as [enc|]; simpl; [|reflexivity].
  rewrite post_encrypt_set_app by (now apply clean_ivt_length).
  destruct (post_encrypt c x enc) as [enc2|]; simpl; [|reflexivity].
  change (sign k c (set_app x (clean_ivt (m_app x))) enc2) with (sign k c x enc2).
  destruct (sign k c x enc2) as [sg|]; simpl; [|reflexivity].
  now rewrite finalize_set_app by (now apply clean_ivt_length).
Qed.



(* ------------------------------------------------------------------ byte lemmas *)
Lemma rd32_app o (a b : list N) : (o + 4 <= length a)%nat -> rd32 o (a ++ b) = rd32 o a.
Proof.
  intros H. unfold rd32. f_equal. f_equal. rewrite skipn_app. replace (o - length a)%nat with 0%nat by lia.
  rewrite firstn_app. rewrite skipn_length. replace (4 - (length a - o))%nat with 0%nat by lia.
  simpl. now rewrite app_nil_r.
Qed.

Lemma take_last_app (a b : list N) : take_last (length b) (a ++ b) = b.
Proof.
  unfold take_last. rewrite app_length. replace (length a + length b - length b)%nat with (length a) by lia.
  rewrite skipn_app, skipn_all, Nat.sub_diag. reflexivity.
Qed.

Lemma drop_last_app (a b : list N) : drop_last (length b) (a ++ b) = a.
Proof.
  unfold drop_last. rewrite app_length. replace (length a + length b - length b)%nat with (length a) by lia.
  rewrite firstn_app, firstn_all, Nat.sub_diag. simpl. apply app_nil_r.
Qed.

Lemma pad4_id (d : list N) : (length d mod 4 = 0)%nat -> pad4 d = d.
Proof. intros H. unfold pad4. rewrite H. simpl. apply app_nil_r. Qed.

Lemma clean_wr_crc w d : length w = 4%nat -> (56 <= length d)%nat -> clean_ivt (wr OFF_CRC w d) = clean_ivt d.
Proof.
  intros Hw L. rewrite off_crc_eq. assert (Lw : length (wr 40 w d) = length d) by (apply wr_length; lia).
  apply list_eq_nth; [rewrite !clean_ivt_length; lia|].
  intros i _. rewrite !nth_clean_ivt by lia. rewrite nth_wr by lia. rewrite Hw.
  destruct (32 <=? i)%nat eqn:B1; destruct (i <? 44)%nat eqn:B2; destruct (52 <=? i)%nat eqn:B3; destruct (i <? 56)%nat eqn:B4;
    simpl; try reflexivity;
    repeat match goal with H : (_ <=? _)%nat = true |- _ => apply Nat.leb_le in H
                        | H : (_ <=? _)%nat = false |- _ => apply Nat.leb_gt in H
                        | H : (_ <? _)%nat = true |- _ => apply Nat.ltb_lt in H
                        | H : (_ <? _)%nat = false |- _ => apply Nat.ltb_ge in H end;
    decide_ltb; try reflexivity; lia.
Qed.


Lemma flat_cons (a : list N) t : flat (a :: t) = a ++ flat t.
Proof. reflexivity. Qed.
Lemma flat_tz_segment x : flat (tz_segment x) = tz_export (m_tz x).
Proof. unfold tz_segment, flat. destruct (tz_export (m_tz x)); simpl; [reflexivity|now rewrite app_nil_r]. Qed.

Lemma has_in c m : has c m = true -> In m (c_mixins c).
Proof.
  unfold has. intros H. apply existsb_exists in H as (m' & Hi & He). unfold mixin_eqb in He. apply Z.eqb_eq in He.
  assert (m = m') by (destruct m, m'; try reflexivity; discriminate He). now subst.
Qed.




Lemma crc_write_head s t w : (40 <= length s)%nat -> crc_write (s :: t) 0 w = Some (wr OFF_CRC w s :: t).
Proof.
  intros H. cbn [crc_write]. replace (Nat.leb 0 OFF_CRC && Nat.leb OFF_CRC (0 + length s)) with true
    by (symmetry; rewrite off_crc_eq; apply andb_true_iff; split; apply Nat.leb_le; lia).
  now rewrite Nat.sub_0_r.
Qed.


(* ================================================================== generic part of parse (export x) = x
   1. every mix_parse sets its own field(s): [upd];  2. the PRE_PARSED loop parses every mixin exactly once, cert-dependent
   ones after the certificate block;  3. so the parsed object is determined field by field by the mixins present. *)
Definition gives (a : attr) (m : mixin) : bool := existsb (attr_eqb a) (mixin_attrs m).
Lemma has_attr_gives c a : has_attr c a = existsb (gives a) (c_mixins c).
Proof. reflexivity. Qed.
Definition hasl (l : list mixin) (m : mixin) : bool := existsb (mixin_eqb m) l.

Definition is_cert_mixin (m : mixin) : bool := match m with MixinCertBlockV1 | MixinCertBlockV21 => true | _ => false end.
Definition is_manifest_mixin (m : mixin) : bool := match m with MixinManifestCrc | MixinManifestDigest => true | _ => false end.
Definition is_tz_giver (m : mixin) : bool :=
  match m with MixinTrustZone | MixinTrustZoneMandatory | MixinManifestCrc | MixinManifestDigest => true | _ => false end.
Definition is_hmac_mixin (m : mixin) : bool := match m with MixinHmac | MixinHmacMandatory => true | _ => false end.

(* mixins of the supported (non BCA/FCF) classes *)
Definition allowed (m : mixin) : bool := negb (unsupported_mixin m).

Definition upd (x : mbi) (dek : option (list N)) (m : mixin) (st : mbi) : mbi :=
  match m with
  | MixinTrustZone | MixinTrustZoneMandatory => set_tz st (m_tz x)
  | MixinLoadAddress | MixinLoadAddressOptional => set_load st (m_load x)
  | MixinImageVersion => set_imgver st (m_imgver x)
  | MixinImageSubType => set_subtype st (m_subtype x)
  | MixinHwKey => set_hwkey st (m_hwkey x)
  | MixinManifestCrc | MixinManifestDigest => set_manifest st (m_fwver x) (m_tz x) (m_digest x)
  | MixinCertBlockV1 | MixinCertBlockV21 => set_cert st (m_cert x)
  | MixinKeyStore => set_ks st (m_ks x)
  | MixinHmac | MixinHmacMandatory => match dek with Some kb => set_hmac st (Some kb) | None => st end
  | MixinCtrInitVector => set_iv st (m_iv x)
  | _ => st
  end.

Lemma mbi_ext (a b : mbi) :
  m_app a = m_app b -> m_load a = m_load b -> m_imgver a = m_imgver b -> m_subtype a = m_subtype b ->
  m_fwver a = m_fwver b -> m_tz a = m_tz b -> m_hwkey a = m_hwkey b -> m_ks a = m_ks b -> m_hmac a = m_hmac b ->
  m_iv a = m_iv b -> m_table a = m_table b -> m_cert a = m_cert b -> m_digest a = m_digest b -> a = b.
Proof. destruct a, b; simpl; intros; subst; reflexivity. Qed.

Lemma fold_upd_fields x dek l : forall st,
  let st' := fold_left (fun s m => upd x dek m s) l st in
  m_app st' = m_app st /\ m_table st' = m_table st /\
  m_load st' = (if existsb (gives ALoadAddress) l then m_load x else m_load st) /\
  m_imgver st' = (if existsb (gives AImageVersion) l then m_imgver x else m_imgver st) /\
  m_subtype st' = (if existsb (gives AImageSubtype) l then m_subtype x else m_subtype st) /\
  m_hwkey st' = (if existsb (gives AHwKey) l then m_hwkey x else m_hwkey st) /\
  m_tz st' = (if existsb is_tz_giver l then m_tz x else m_tz st) /\
  m_fwver st' = (if existsb is_manifest_mixin l then m_fwver x else m_fwver st) /\
  m_digest st' = (if existsb is_manifest_mixin l then m_digest x else m_digest st) /\
  m_cert st' = (if existsb is_cert_mixin l then m_cert x else m_cert st) /\
  m_ks st' = (if existsb (gives AKeyStore) l then m_ks x else m_ks st) /\
  m_iv st' = (if existsb (gives ACtrIv) l then m_iv x else m_iv st) /\
  m_hmac st' = (if existsb is_hmac_mixin l then (match dek with Some kb => Some kb | None => m_hmac st end) else m_hmac st).
Proof.
  induction l as [|m l IH]; intros st; simpl; [repeat split; reflexivity|].
  specialize (IH (upd x dek m st)). simpl in IH.
  destruct IH as (I1 & I2 & I3 & I4 & I5 & I6 & I7 & I8 & I9 & I10 & I11 & I12 & I13).
  rewrite I1, I2, I3, I4, I5, I6, I7, I8, I9, I10, I11, I12, I13.
  destruct m; simpl; repeat split; try reflexivity;
    repeat match goal with |- context [if ?b then _ else _] => destruct b end; try reflexivity;
    destruct dek; reflexivity.
Qed.

Definition waits (c : mbi_class) (m : mixin) (st : mbi) : bool :=
  pre_parsed_cert m && has_attr c ACertBlock && (match m_cert st with None => true | Some _ => false end).
Definition cert_inv (x st : mbi) : Prop := m_cert st = None \/ m_cert st = m_cert x.
(* what the class-kind specific part has to establish for every mixin of the class *)
Definition parse_ok (c : mbi_class) (x : mbi) (dek : option (list N)) (tzsize sigsz : nat) (data : list N) (l : list mixin) : Prop :=
  forall m, In m l -> forall st, cert_inv x st -> waits c m st = false ->
    mix_parse c tzsize sigsz dek data m st = Ok (upd x dek m st).

Lemma upd_cert x dek m st : m_cert (upd x dek m st) = if is_cert_mixin m then m_cert x else m_cert st.
Proof. destruct m; try reflexivity; simpl; destruct dek; reflexivity. Qed.
Lemma upd_inv x dek m st : cert_inv x st -> cert_inv x (upd x dek m st).
Proof. unfold cert_inv. rewrite upd_cert. destruct (is_cert_mixin m); auto. Qed.
Lemma pre_parsed_not_cert m : pre_parsed_cert m = true -> is_cert_mixin m = false.
Proof. destruct m; simpl; congruence. Qed.

Lemma parse_round_gen c x dek tzsize sigsz data l : forall st,
  cert_inv x st -> parse_ok c x dek tzsize sigsz data l ->
  exists l1 l2,
    parse_round c tzsize sigsz dek data l st = Ok (fold_left (fun s m => upd x dek m s) l1 st, l2) /\
    (forall g, existsb g l = existsb g l1 || existsb g l2) /\
    length l = (length l1 + length l2)%nat /\
    (forall m, In m l2 -> In m l) /\ (forall m, In m l1 -> In m l) /\
    (l2 <> [] -> has_attr c ACertBlock = true) /\ existsb is_cert_mixin l2 = false.
Proof.
  induction l as [|m t IH]; intros st Inv H.
  - exists [], []. repeat split; try reflexivity; try (intros; contradiction).
  - assert (Ht : parse_ok c x dek tzsize sigsz data t) by (intros m' Hm'; apply H; now right).
    cbn [parse_round]. fold (waits c m st). destruct (waits c m st) eqn:W.
    + destruct (IH st Inv Ht) as (l1 & l2 & E & G & Len & I2 & I1 & HC & NC). rewrite E. cbn [bind fst snd].
      exists l1, (m :: l2). unfold waits in W. apply andb_true_iff in W as [W W3]. apply andb_true_iff in W as [W1 W2].
      repeat split.
      * intros g. cbn [existsb]. rewrite G. destruct (g m), (existsb g l1), (existsb g l2); reflexivity.
      * cbn [length]. lia.
      * intros m' [->|Hm']; [now left | right; now apply I2].
      * intros m' Hm'. right. now apply I1.
      * intros _. exact W2.
      * cbn [existsb]. now rewrite (pre_parsed_not_cert m W1), NC.
    + rewrite (H m (or_introl eq_refl) st Inv W). cbn [bind].
      destruct (IH (upd x dek m st) (upd_inv x dek m st Inv) Ht) as (l1 & l2 & E & G & Len & I2 & I1 & HC & NC). rewrite E.
      exists (m :: l1), l2. repeat split; try assumption.
      * intros g. cbn [existsb]. rewrite G. now rewrite orb_assoc.
      * cbn [length]. lia.
      * intros m' Hm'. right. now apply I2.
      * intros m' [->|Hm']; [now left | right; now apply I1].
Qed.

Lemma parse_round_nowait c x dek tzsize sigsz data l : forall st,
  (exists cb, m_cert st = Some cb) -> cert_inv x st -> parse_ok c x dek tzsize sigsz data l ->
  parse_round c tzsize sigsz dek data l st = Ok (fold_left (fun s m => upd x dek m s) l st, []).
Proof.
  induction l as [|m t IH]; intros st (cb & Hc) Inv H; [reflexivity|].
  assert (Ht : parse_ok c x dek tzsize sigsz data t) by (intros m' Hm'; apply H; now right).
  assert (W : waits c m st = false) by (unfold waits; rewrite Hc; apply andb_false_r).
  cbn [parse_round]. fold (waits c m st). rewrite W. rewrite (H m (or_introl eq_refl) st Inv W). cbn [bind fold_left].
  apply IH; [|now apply upd_inv|assumption].
  rewrite upd_cert. destruct (is_cert_mixin m); [|eauto].
  destruct Inv as [N|E]; [congruence|]. rewrite <- E. eauto.
Qed.

Lemma existsb_app' {A} (g : A -> bool) l1 l2 : existsb g (l1 ++ l2) = existsb g l1 || existsb g l2.
Proof. apply existsb_app. Qed.

Lemma parse_rounds_nil fuel c tzsize sigsz dek data st : parse_rounds fuel c tzsize sigsz dek data [] st = Ok st.
Proof. destruct fuel; reflexivity. Qed.
Lemma parse_rounds_step f c tzsize sigsz dek data l st : l <> [] ->
  parse_rounds (S f) c tzsize sigsz dek data l st =
  bind (parse_round c tzsize sigsz dek data l st) (fun r =>
    if Nat.eqb (length (snd r)) (length l) then Err E_REJECT else parse_rounds f c tzsize sigsz dek data (snd r) (fst r)).
Proof. destruct l; [congruence | reflexivity]. Qed.

(* the whole PRE_PARSED loop *)
Theorem parse_rounds_gen c x dek tzsize sigsz data :
  c_mixins c <> [] -> parse_ok c x dek tzsize sigsz data (c_mixins c) ->
  (has_attr c ACertBlock = true -> existsb is_cert_mixin (c_mixins c) = true /\ exists cb, m_cert x = Some cb) ->
  exists l', parse_rounds (S (length (c_mixins c))) c tzsize sigsz dek data (c_mixins c) mbi_default
             = Ok (fold_left (fun s m => upd x dek m s) l' mbi_default) /\
             (forall g, existsb g l' = existsb g (c_mixins c)).
Proof.
  intros NE H HC. set (l := c_mixins c) in *.
  assert (Inv0 : cert_inv x mbi_default) by (left; reflexivity).
  destruct (parse_round_gen c x dek tzsize sigsz data l mbi_default Inv0 H) as (l1 & l2 & E & G & Len & I2 & I1 & HC2 & NC).
  rewrite parse_rounds_step by assumption. rewrite E. cbn [bind fst snd].
  assert (Lpos : (1 <= length l)%nat) by (destruct l; [contradiction | simpl; lia]).
  destruct l2 as [|m2 t2].
  - replace (Nat.eqb (length (@nil mixin)) (length l)) with false by (symmetry; apply Nat.eqb_neq; simpl; lia).
    rewrite parse_rounds_nil. exists l1. split; [reflexivity|]. intros g. rewrite G. cbn. now rewrite orb_false_r.
  - assert (HA : has_attr c ACertBlock = true) by (apply HC2; discriminate).
    destruct (HC HA) as (CM & cb & Hcb).
    assert (C1 : existsb is_cert_mixin l1 = true) by (rewrite G, NC, orb_false_r in CM; exact CM).
    assert (L1 : (1 <= length l1)%nat) by (destruct l1; [discriminate C1 | simpl; lia]).
    replace (Nat.eqb (length (m2 :: t2)) (length l)) with false by (symmetry; apply Nat.eqb_neq; lia).
    set (st1 := fold_left (fun s m => upd x dek m s) l1 mbi_default).
    pose proof (fold_upd_fields x dek l1 mbi_default) as F. cbv zeta in F. fold st1 in F.
    destruct F as (_ & _ & _ & _ & _ & _ & _ & _ & _ & FC & _). rewrite C1 in FC.
    assert (H2 : parse_ok c x dek tzsize sigsz data (m2 :: t2)) by (intros m' Hm'; apply H; now apply I2).
    assert (Inv1 : cert_inv x st1) by (right; exact FC).
    destruct (length l) as [|n] eqn:Ll; [lia|].
    rewrite parse_rounds_step by discriminate.
    rewrite (parse_round_nowait c x dek tzsize sigsz data (m2 :: t2) st1) by (try assumption; exists cb; congruence).
    cbn [bind fst snd]. replace (Nat.eqb (length (@nil mixin)) (length (m2 :: t2))) with false by reflexivity.
    rewrite parse_rounds_nil.
    exists (l1 ++ m2 :: t2). split; [now rewrite fold_left_app|].
    intros g. rewrite existsb_app'. symmetry. apply G.
Qed.

(* ================================================================== relocation table: parse (export) = id *)
Lemma sub_mid (a w b : list N) : sub (a ++ w ++ b) (length a) (length a + length w) = w.
Proof.
  unfold sub, slice. replace (length a + length w - length a)%nat with (length w) by lia.
  rewrite skipn_app, skipn_all, Nat.sub_diag. cbn [app skipn]. rewrite firstn_app, firstn_all, Nat.sub_diag. cbn [firstn]. apply app_nil_r.
Qed.
Lemma sub_mid' (a w b : list N) i j : i = length a -> j = (length a + length w)%nat -> sub (a ++ w ++ b) i j = w.
Proof. intros -> ->. apply sub_mid. Qed.
Lemma rd32_u32 v w rest : u32 v = Ok w -> rd32 0 (w ++ rest) = v.
Proof.
  intros H. pose proof (u32_length _ _ H) as L. apply u32_value in H as [V _].
  unfold rd32. change (skipn 0 (w ++ rest)) with (w ++ rest). rewrite firstn_app.
  replace (4 - length w)%nat with 0%nat by lia. rewrite firstn_O, app_nil_r, firstn_all2 by lia. exact V.
Qed.
Lemma rd32_at (a w rest : list N) v : u32 v = Ok w -> rd32 (length a) (a ++ w ++ rest) = v.
Proof.
  intros H. unfold rd32. rewrite skipn_app, skipn_all, Nat.sub_diag. cbn [app skipn]. fold (rd32 0 (w ++ rest)). now apply rd32_u32.
Qed.
Lemma pad4_length d : exists k, pad4 d = d ++ zeros k.
Proof. unfold pad4. eauto. Qed.
Lemma zlen_app (a b : list N) : zlen (a ++ b) = zlen a + zlen b.
Proof. unfold zlen. rewrite app_length. lia. Qed.
Lemma zlen_nonneg (a : list N) : 0 <= zlen a. Proof. unfold zlen. lia. Qed.

Definition entries_ok (es : list entry) : Prop := Forall (fun e => e_flags e = G_LTI_LOAD) es.

Lemma table_entries_length es src ent : table_entries es src = Ok ent -> length ent = (16 * length es)%nat.
Proof.
  revert src ent; induction es as [|e t IH]; intros src ent H; cbn [table_entries] in H.
  - now inversion H.
  - destruct (u32 src) as [ws|] eqn:E1; cbn [bind] in H; [|discriminate].
    destruct (u32 (e_dst e)) as [wd|] eqn:E2; cbn [bind] in H; [|discriminate].
    destruct (u32 (zlen (e_img e))) as [wl|] eqn:E3; cbn [bind] in H; [|discriminate].
    destruct (u32 (e_flags e)) as [wf|] eqn:E4; cbn [bind] in H; [|discriminate].
    destruct (table_entries t _) as [r|] eqn:E5; cbn [bind] in H; [|discriminate].
    injection H as <-. apply u32_length in E1, E2, E3, E4. apply IH in E5.
    rewrite !app_length, E1, E2, E3, E4, E5. cbn [length]. lia.
Qed.

(* entries k.. of the table, read back from an image  P ++ ENT ++ HDR  where P (length = start) holds the images *)
Lemma entries_parse_ok es : forall src k pre post ent,
  entries_ok es -> table_entries es src = Ok ent ->
  forall Q R data start,
    data = (Q ++ table_images es ++ R) ++ (pre ++ ent ++ post) ->
    zlen Q = src -> zlen (Q ++ table_images es ++ R) = start -> length pre = (16 * k)%nat ->
    entries_parse (length es) k start data =
    Ok ((fix go (l : list entry) (s : Z) : list (entry * Z) :=
           match l with [] => [] | e :: t => (e, s) :: go t (s + zlen (pad4 (e_img e))) end) es src).
Proof.
  induction es as [|e t IH]; intros src k pre post ent OK H Q R data start Hd HQ Hs Hp; [reflexivity|]. subst data start.
  cbn [table_entries] in H.
  destruct (u32 src) as [ws|] eqn:E1; cbn [bind] in H; [|discriminate].
  destruct (u32 (e_dst e)) as [wd|] eqn:E2; cbn [bind] in H; [|discriminate].
  destruct (u32 (zlen (e_img e))) as [wl|] eqn:E3; cbn [bind] in H; [|discriminate].
  destruct (u32 (e_flags e)) as [wf|] eqn:E4; cbn [bind] in H; [|discriminate].
  destruct (table_entries t _) as [r|] eqn:E5; cbn [bind] in H; [|discriminate].
  injection H as <-. apply Forall_cons_iff in OK as [Fe Ft].
  pose proof (u32_length _ _ E1) as L1. pose proof (u32_length _ _ E2) as L2.
  pose proof (u32_length _ _ E3) as L3. pose proof (u32_length _ _ E4) as L4.
  cbn [length entries_parse].
  set (PP := Q ++ table_images (e :: t) ++ R) in *.
  set (E16 := ws ++ wd ++ wl ++ wf).
  assert (SUB : sub (PP ++ pre ++ (ws ++ wd ++ wl ++ wf ++ r) ++ post) (natz (zlen PP) + 16 * k) (natz (zlen PP) + 16 * k + 16) = E16).
  { replace (PP ++ pre ++ (ws ++ wd ++ wl ++ wf ++ r) ++ post) with ((PP ++ pre) ++ E16 ++ (r ++ post))
      by (unfold E16; now rewrite <- !app_assoc).
    apply sub_mid'; unfold natz, zlen; rewrite ?Nat2Z.id, app_length; [lia|]. unfold E16. rewrite !app_length. lia. }
  rewrite SUB. unfold E16.
  assert (V1 : rd32 0 (ws ++ wd ++ wl ++ wf) = src) by (now apply rd32_u32).
  assert (V2 : rd32 4 (ws ++ wd ++ wl ++ wf) = e_dst e) by (rewrite <- L1; now apply rd32_at).
  assert (V3 : rd32 8 (ws ++ wd ++ wl ++ wf) = zlen (e_img e)).
  { replace (ws ++ wd ++ wl ++ wf) with ((ws ++ wd) ++ wl ++ wf) by now rewrite <- app_assoc.
    replace 8%nat with (length (ws ++ wd)) by (rewrite app_length; lia). now apply rd32_at. }
  assert (V4 : rd32 12 (ws ++ wd ++ wl ++ wf) = e_flags e).
  { replace (ws ++ wd ++ wl ++ wf) with ((ws ++ wd ++ wl) ++ wf ++ []) by (now rewrite <- !app_assoc, app_nil_r).
    replace 12%nat with (length (ws ++ wd ++ wl)) by (rewrite !app_length; lia). now apply rd32_at. }
  rewrite V1, V2, V3, V4.
  destruct (pad4_length (e_img e)) as (kz & Pz).
  assert (Lpp : zlen PP = zlen Q + zlen (pad4 (e_img e)) + zlen (table_images t) + zlen R).
  { unfold PP. cbn [table_images]. rewrite !zlen_app. lia. }
  assert (Lpad : zlen (e_img e) <= zlen (pad4 (e_img e))) by (rewrite Pz, zlen_app; pose proof (zlen_nonneg (zeros kz)); lia).
  pose proof (zlen_nonneg (table_images t)). pose proof (zlen_nonneg R). pose proof (zlen_nonneg Q).
  replace (zlen PP <? src + zlen (e_img e)) with false by (symmetry; apply Z.ltb_ge; lia).
  rewrite Fe, Z.eqb_refl. cbn [negb].
  (* the image *)
  assert (IMG : sub (PP ++ pre ++ (ws ++ wd ++ wl ++ wf ++ r) ++ post) (natz src) (natz (src + zlen (e_img e))) = e_img e).
  { unfold PP. cbn [table_images]. rewrite Pz.
    replace ((Q ++ ((e_img e ++ zeros kz) ++ table_images t) ++ R) ++ pre ++ (ws ++ wd ++ wl ++ wf ++ r) ++ post)
      with (Q ++ e_img e ++ (zeros kz ++ table_images t ++ R ++ pre ++ (ws ++ wd ++ wl ++ wf ++ r) ++ post))
      by (now rewrite <- !app_assoc).
    apply sub_mid'; subst src; unfold natz, zlen; rewrite <- ?Nat2Z.inj_add, ?Nat2Z.id; reflexivity. }
  rewrite IMG.
  (* the rest *)
  rewrite (IH (src + zlen (pad4 (e_img e))) (S k) (pre ++ E16) post r Ft E5 (Q ++ pad4 (e_img e)) R
             (PP ++ pre ++ (ws ++ wd ++ wl ++ wf ++ r) ++ post) (zlen PP)).
  - cbn [bind]. destruct e as [i d f]; cbn [MbiModel.e_img MbiModel.e_dst MbiModel.e_flags] in *; subst f; reflexivity.
  - unfold PP, E16. cbn [table_images]. now rewrite <- !app_assoc.
  - rewrite zlen_app. lia.
  - unfold PP. cbn [table_images]. now rewrite <- !app_assoc.
  - unfold E16. rewrite !app_length. lia.
Qed.

Fixpoint with_src (l : list entry) (s : Z) : list (entry * Z) :=
  match l with [] => [] | e :: t => (e, s) :: with_src t (s + zlen (pad4 (e_img e))) end.
Lemma map_fst_with_src l s : map fst (with_src l s) = l.
Proof. revert s; induction l as [|e t IH]; intros s; [reflexivity|]. cbn. now rewrite IH. Qed.

Lemma take_last_app16 (a h : list N) : length h = 16%nat -> take_last 16 (a ++ h) = h.
Proof. intros H. rewrite <- H. apply take_last_app. Qed.

Lemma table_export_inv es start T :
  table_export es start = Ok T -> es <> [] ->
  exists ent wn wp wm,
    table_entries es start = Ok ent /\ u32 (Z.of_nat (length es)) = Ok wn /\ u32 (start + zlen (table_images es)) = Ok wp /\
    u32 RELOC_MARKER = Ok wm /\ T = table_images es ++ ent ++ wm ++ le_enc 4 0 ++ wn ++ wp.
Proof.
  intros H NE. unfold table_export in H. destruct es as [|e t]; [contradiction|].
  destruct (table_entries (e :: t) start) as [ent|] eqn:E1; cbn [bind] in H; [|discriminate].
  destruct (u32 (Z.of_nat (length (e :: t)))) as [wn|] eqn:E2; cbn [bind] in H; [|discriminate].
  destruct (u32 (start + zlen (table_images (e :: t)))) as [wp|] eqn:E3; cbn [bind] in H; [|discriminate].
  destruct (u32 RELOC_MARKER) as [wm|] eqn:E4; cbn [bind] in H; [|discriminate].
  injection H as <-. exists ent, wn, wp, wm. repeat split; assumption.
Qed.

(* MultipleImageTable.parse (application ++ MultipleImageTable.export) gives the entries back and the place to cut *)
Theorem table_parse_export A es T :
  es <> [] -> entries_ok es -> table_export es (zlen A) = Ok T ->
  table_parse (A ++ T) = Ok (Some (es, zlen A)).
Proof.
  intros NE OK H. destruct (table_export_inv es (zlen A) T H NE) as (ent & wn & wp & wm & E1 & E2 & E3 & E4 & ->).
  pose proof (u32_length _ _ E2) as L2. pose proof (u32_length _ _ E3) as L3. pose proof (u32_length _ _ E4) as L4.
  pose proof (table_entries_length _ _ _ E1) as Le.
  set (hdr := wm ++ le_enc 4 0 ++ wn ++ wp).
  assert (Lh : length hdr = 16%nat) by (unfold hdr; rewrite !app_length, le_enc_length; lia).
  set (imgs := table_images es) in *.
  assert (Dd : A ++ imgs ++ ent ++ wm ++ le_enc 4 0 ++ wn ++ wp = (A ++ imgs ++ ent) ++ hdr) by (unfold hdr; now rewrite <- !app_assoc).
  unfold table_parse. rewrite Dd.
  replace (Nat.ltb (length ((A ++ imgs ++ ent) ++ hdr)) 16) with false by (symmetry; apply Nat.ltb_ge; rewrite app_length; lia).
  rewrite take_last_app16 by assumption.
  assert (V0 : rd32 0 hdr = RELOC_MARKER) by (unfold hdr; now apply rd32_u32).
  assert (V1 : rd32 4 hdr = 0).
  { unfold hdr. rewrite <- L4. apply (rd32_at wm (le_enc 4 0) (wn ++ wp) 0). reflexivity. }
  assert (V2 : rd32 8 hdr = Z.of_nat (length es)).
  { unfold hdr. replace (wm ++ le_enc 4 0 ++ wn ++ wp) with ((wm ++ le_enc 4 0) ++ wn ++ wp) by now rewrite <- app_assoc.
    replace 8%nat with (length (wm ++ le_enc 4 0)) by (rewrite app_length, le_enc_length; lia). now apply rd32_at. }
  assert (V3 : rd32 12 hdr = zlen A + zlen imgs).
  { unfold hdr. replace (wm ++ le_enc 4 0 ++ wn ++ wp) with ((wm ++ le_enc 4 0 ++ wn) ++ wp ++ []) by (now rewrite <- !app_assoc, app_nil_r).
    replace 12%nat with (length (wm ++ le_enc 4 0 ++ wn)) by (rewrite !app_length, le_enc_length; lia). now apply rd32_at. }
  rewrite V0, V1, V2, V3. rewrite !Z.eqb_refl. cbn [andb negb].
  assert (Lpos : (1 <= length es)%nat) by (destruct es; [contradiction | simpl; lia]).
  replace (Z.of_nat (length es) =? 0) with false by (symmetry; apply Z.eqb_neq; lia).
  replace (zlen A + zlen imgs + Z.of_nat (length es) * 16 + 16 =? zlen ((A ++ imgs ++ ent) ++ hdr)) with true
    by (symmetry; apply Z.eqb_eq; unfold zlen; rewrite !app_length, Le, Lh; lia).
  cbn [orb negb]. unfold natz. rewrite Nat2Z.id.
  rewrite (entries_parse_ok es (zlen A) 0 [] hdr ent OK E1 A [] ((A ++ imgs ++ ent) ++ hdr) (zlen A + zlen imgs)).
  - cbn [bind]. fold (with_src es (zlen A)). destruct es as [|e t]; [contradiction|]. cbn [with_src].
    f_equal. f_equal. f_equal. cbn [map fst]. now rewrite map_fst_with_src.
  - fold imgs. cbn [app]. now rewrite app_nil_r, <- !app_assoc.
  - reflexivity.
  - fold imgs. rewrite app_nil_r, zlen_app. reflexivity.
  - reflexivity.
Qed.

