(* Proofs/FreshGenProofs.v -- C17: the facts that depend on the site table generated from the current source
   (Gen/GenFresh.v).  When a draw moves to import time these stop compiling; Proofs/FreshProofs.v is unaffected. *)
From Coq Require Import ZArith NArith List Bool Lia.
Require Import Value GenFresh FreshModel FreshProofs.
Import ListNotations.
Local Open Scope N_scope.

Lemma gen_all_percall : all_percall gen_sites = true.
Proof. vm_compute. reflexivity. Qed.

Lemma gen_rng_direct_true : gen_rng_direct = true.
Proof. vm_compute. reflexivity. Qed.

Theorem fresh_generated : forall h a fa b fb i,
  In (a, fa, ODraw i) (w_slots (run gen_sites gen_closure h)) ->
  In (b, fb, ODraw i) (w_slots (run gen_sites gen_closure h)) -> a = b /\ fa = fb.
Proof. apply fresh_slot_unique, gen_all_percall. Qed.


Lemma fresh_this_tree : forall h,
  NoDup (indices (w_slots (run gen_sites gen_closure h))) /\
  (forall a fa b fb i,
      In (a, fa, ODraw i) (w_slots (run gen_sites gen_closure h)) ->
      In (b, fb, ODraw i) (w_slots (run gen_sites gen_closure h)) -> a = b /\ fa = fb) /\
  (forall a b fk fn fk' fn' k n,
      a <> b ->
      In (a, fk, k) (w_slots (run gen_sites gen_closure h)) -> In (a, fn, n) (w_slots (run gen_sites gen_closure h)) ->
      In (b, fk', k) (w_slots (run gen_sites gen_closure h)) -> In (b, fn', n) (w_slots (run gen_sites gen_closure h)) ->
      is_draw k = true \/ is_draw n = true -> False).
Proof.
  intro h. split; [apply fresh_nodup, gen_all_percall|]. split; [apply fresh_generated|].
  apply ctr_pair_unique_lem, gen_all_percall.
Qed.

(* non-vacuity: a history with user supplied, invented and lazily drawn secrets, and a restart *)
Example ex_history :
  map (fun e => snd e)
      (w_slots (run gen_sites gen_closure
        [Restart; New 2 1 [AGiven 5; AAbsent; AEmpty; AGiven 7]; New 4 0 []; New 5 0 [AAbsent; AGiven 3; AAbsent];
         Act 1 1 AAbsent; Act 2 1 AAbsent; Restart; New 12 0 []]))
  = [OUser 5; ODraw 1; ODraw 2; OUser 7; ODraw 3; OUser 3; ODraw 4; ODraw 5; ODraw 7; ODraw 8].
Proof. vm_compute. reflexivity. Qed.

(* the reuse history is not vacuous: SB2.1 load_from_config twice from one config object, all secrets absent *)
Example ex_reuse :
  map (fun e => snd e) (w_slots (run gen_sites gen_closure [Restart; New 3 1 []; Again 0; Again 1]))
  = [ODraw 1; ODraw 2; ODraw 3; ODraw 4; ODraw 5; ODraw 6; ODraw 7; ODraw 8; ODraw 9; ODraw 10; ODraw 11; ODraw 12].
Proof. vm_compute. reflexivity. Qed.
