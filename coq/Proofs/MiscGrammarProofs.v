(* Proofs/MiscGrammarProofs.v -- C20: the documented number grammar of spsdk.utils.misc.value_to_int as an
   inductive SPECIFICATION over code-point lists, and the proof that the faithful model
   MiscModel.value_to_int_str (regex matcher + CPython int(text, base)) accepts exactly that grammar with the
   mathematical value -- for strings of ANY length -- except the known finding C20-F1 (a second "0b" after the
   binary prefix), which is carved out precisely and also given as an "as implemented" production. *)
From Coq Require Import ZArith NArith List Bool Lia ZifyBool.
Require Import Value Bytes GenMisc MiscModel MiscProofs.
Import ListNotations.
Local Open Scope Z_scope.

(* ====================================================================== SPECIFICATION *)
(* a digit character and its value: '0'..'9' -> 0..9, 'a'..'f' -> 10..15 (text is already lower case) *)
Inductive digit_of : N -> Z -> Prop :=
| digit_dec c : (48 <= c <= 57)%N -> digit_of c (Z.of_N c - 48)
| digit_hex c : (97 <= c <= 102)%N -> digit_of c (Z.of_N c - 87).

(* one or more digits of the base, a single '_' allowed only BETWEEN two digits; the value is the
   positional reading of the digits (underscores carry no value) *)
Inductive digit_group (base : Z) : list N -> Z -> Prop :=
| dg_one c d : digit_of c d -> d < base -> digit_group base [c] d
| dg_snoc t v c d : digit_group base t v -> digit_of c d -> d < base ->
    digit_group base (t ++ [c]) (v * base + d)
| dg_snoc_us t v c d : digit_group base t v -> digit_of c d -> d < base ->
    digit_group base (t ++ [95%N; c]) (v * base + d).

(* at most three characters out of 'u' 'l' *)
Definition suffix_ok (u : list N) : Prop :=
  (length u <= 3)%nat /\ Forall (fun c => c = 117%N \/ c = 108%N) u.

Inductive base_prefix : N -> Z -> Prop :=
| bp_bin : base_prefix 98 2          (* 0b *)
| bp_oct : base_prefix 111 8         (* 0o *)
| bp_hex : base_prefix 120 16.       (* 0x *)

(* THE DOCUMENTED GRAMMAR over the stripped, lower-cased text *)
Inductive number_grammar : list N -> Z -> Prop :=
| ng_dec body u v : digit_group 10 body v -> suffix_ok u -> number_grammar (body ++ u) v
| ng_pref p b body u v : base_prefix p b -> digit_group b body v -> suffix_ok u ->
    number_grammar (48%N :: p :: body ++ u) v.

(* the extra production the implementation has (known finding C20-F1): "0b" "0b" ["_"] binary digits *)
Inductive dup_binary : list N -> Z -> Prop :=
| dup_plain body u v : digit_group 2 body v -> suffix_ok u ->
    dup_binary (48%N :: 98%N :: 48%N :: 98%N :: body ++ u) v
| dup_us body u v : digit_group 2 body v -> suffix_ok u ->
    dup_binary (48%N :: 98%N :: 48%N :: 98%N :: 95%N :: body ++ u) v.

Definition number_grammar_impl (t : list N) (v : Z) : Prop := number_grammar t v \/ dup_binary t v.

(* the known class, as a predicate on the text only *)
Definition dup_prefix_class (t : list N) : Prop := exists r, t = 48%N :: 98%N :: 48%N :: 98%N :: r.

Definition strip_lower (s : list N) : list N := lower (strip s).

(* ====================================================================== characters *)
Lemma digit_of_val c d : digit_of c d <-> digit_val c = Some d.
Proof.
  unfold digit_val, is_digit, is_hexlow, nle. split.
  - intros [c' H|c' H].
    + replace ((48 <=? c')%N && (c' <=? 57)%N) with true by lia. reflexivity.
    + replace ((48 <=? c')%N && (c' <=? 57)%N) with false by lia.
      replace ((97 <=? c')%N && (c' <=? 102)%N) with true by lia. reflexivity.
  - destruct ((48 <=? c)%N && (c <=? 57)%N) eqn:E1.
    + intros H; injection H as <-. apply digit_dec. lia.
    + destruct ((97 <=? c)%N && (c <=? 102)%N) eqn:E2; [|discriminate].
      intros H; injection H as <-. apply digit_hex. lia.
Qed.

Lemma digit_of_bounds c d : digit_of c d -> 0 <= d < 16.
Proof. intros [c' H|c' H]; lia. Qed.

Lemma digit_of_not_us c d : digit_of c d -> N.eqb c 95 = false.
Proof. intros [c' H|c' H]; lia. Qed.

Lemma digit_of_numch c d : digit_of c d -> is_numch c = true.
Proof. intros [c' H|c' H]; unfold is_numch, is_digit, is_hexlow, nle; lia. Qed.

Lemma sufch_spec c : is_sufch c = true <-> (c = 117%N \/ c = 108%N).
Proof. unfold is_sufch. lia. Qed.

Lemma sufch_not_numch c : c = 117%N \/ c = 108%N -> is_numch c = false.
Proof. intros [->| ->]; reflexivity. Qed.

Lemma prefix_base_spec p b : prefix_base p = Some b <-> base_prefix p b.
Proof.
  unfold prefix_base. split.
  - destruct (N.eqb p 98) eqn:E1; [intros H; injection H as <-; replace p with 98%N by lia; constructor|].
    destruct (N.eqb p 111) eqn:E2; [intros H; injection H as <-; replace p with 111%N by lia; constructor|].
    destruct (N.eqb p 120) eqn:E3; [intros H; injection H as <-; replace p with 120%N by lia; constructor|].
    discriminate.
  - intros []; reflexivity.
Qed.

Lemma prefix_base_none p : p <> 98%N -> p <> 111%N -> p <> 120%N -> prefix_base p = None.
Proof.
  intros H1 H2 H3. unfold prefix_base.
  replace (N.eqb p 98) with false by lia. replace (N.eqb p 111) with false by lia.
  replace (N.eqb p 120) with false by lia. reflexivity.
Qed.

(* ====================================================================== int_digits = digit_group *)
Lemma int_digits_step base c d rest acc prev : digit_of c d -> d < base ->
  int_digits base (c :: rest) acc prev = int_digits base rest (acc * base + d) true.
Proof.
  intros Hd Hb. cbn [int_digits]. rewrite (digit_of_not_us c d Hd).
  apply digit_of_val in Hd. rewrite Hd. replace (d <? base) with true by lia. reflexivity.
Qed.

Lemma int_digits_sound base t v : digit_group base t v ->
  forall rest, int_digits base (t ++ rest) 0 false = int_digits base rest v true.
Proof.
  induction 1 as [c d Hd Hb|t v c d Hg IH Hd Hb|t v c d Hg IH Hd Hb]; intros rest.
  - cbn [app]. rewrite (int_digits_step base c d) by assumption. f_equal.
  - rewrite <- app_assoc. rewrite IH. cbn [app]. now apply int_digits_step.
  - rewrite <- app_assoc. rewrite IH. cbn [app].
    change (int_digits base (95%N :: c :: rest) v true) with (int_digits base (c :: rest) v false).
    now apply int_digits_step.
Qed.

Lemma int_digits_complete_gen base s :
  (forall pre acc v, digit_group base pre acc -> int_digits base s acc true = Some v ->
     digit_group base (pre ++ s) v) /\
  (forall pre acc v, digit_group base pre acc -> int_digits base s acc false = Some v ->
     digit_group base (pre ++ 95%N :: s) v).
Proof.
  induction s as [|c t [IHA IHB]].
  - split; intros pre acc v Hp H; cbn in H; [|discriminate].
    injection H as <-. now rewrite app_nil_r.
  - split; intros pre acc v Hp H; cbn [int_digits] in H.
    + destruct (N.eqb c 95) eqn:Ec.
      * apply N.eqb_eq in Ec. subst c. now apply (IHB pre acc v).
      * destruct (digit_val c) as [d|] eqn:Ed; [|discriminate].
        destruct (d <? base) eqn:Eb; [|discriminate].
        apply digit_of_val in Ed.
        replace (pre ++ c :: t) with ((pre ++ [c]) ++ t) by (rewrite <- app_assoc; reflexivity).
        apply (IHA _ (acc * base + d) v); [|exact H].
        apply dg_snoc; [assumption|assumption|lia].
    + destruct (N.eqb c 95) eqn:Ec; [discriminate|].
      destruct (digit_val c) as [d|] eqn:Ed; [|discriminate].
      destruct (d <? base) eqn:Eb; [|discriminate].
      apply digit_of_val in Ed.
      replace (pre ++ 95%N :: c :: t) with ((pre ++ [95%N; c]) ++ t) by (rewrite <- app_assoc; reflexivity).
      apply (IHA _ (acc * base + d) v); [|exact H].
      apply dg_snoc_us; [assumption|assumption|lia].
Qed.

Lemma int_digits_iff base s v : int_digits base s 0 false = Some v <-> digit_group base s v.
Proof.
  split.
  - destruct s as [|c t]; [discriminate|]. cbn [int_digits].
    destruct (N.eqb c 95) eqn:Ec; [discriminate|].
    destruct (digit_val c) as [d|] eqn:Ed; [|discriminate].
    destruct (d <? base) eqn:Eb; [|discriminate].
    apply digit_of_val in Ed. intros H.
    change (c :: t) with ([c] ++ t).
    apply (proj1 (int_digits_complete_gen base t) [c] (0 * base + d) v); [|exact H].
    replace (0 * base + d) with d by lia. apply dg_one; [assumption|lia].
  - intros H. pose proof (int_digits_sound base s v H []) as E. rewrite app_nil_r in E. exact E.
Qed.

(* facts about digit groups *)
Lemma dg_chars base t v : digit_group base t v ->
  Forall (fun c => c = 95%N \/ exists d, digit_of c d /\ d < base) t.
Proof.
  induction 1 as [c d Hd Hb|t v c d Hg IH Hd Hb|t v c d Hg IH Hd Hb].
  - constructor; [|constructor]. right. now exists d.
  - apply Forall_app. split; [assumption|]. constructor; [|constructor]. right. now exists d.
  - apply Forall_app. split; [assumption|]. constructor; [now left|]. constructor; [|constructor]. right. now exists d.
Qed.

Lemma dg_head base t v : digit_group base t v -> exists c t' d, t = c :: t' /\ digit_of c d /\ d < base.
Proof.
  induction 1 as [c d Hd Hb|t v c d Hg IH Hd Hb|t v c d Hg IH Hd Hb].
  - exists c, [], d. auto.
  - destruct IH as (c0 & t' & d0 & -> & H1 & H2). exists c0, (t' ++ [c]), d0. auto.
  - destruct IH as (c0 & t' & d0 & -> & H1 & H2). exists c0, (t' ++ [95%N; c]), d0. auto.
Qed.

Lemma dg_nonneg base t v : 0 < base -> digit_group base t v -> 0 <= v.
Proof.
  intros Hb. induction 1 as [c d Hd Hl|t v c d Hg IH Hd Hl|t v c d Hg IH Hd Hl];
    pose proof (digit_of_bounds c d Hd); nia.
Qed.

Lemma dg_numch base t v : digit_group base t v -> Forall (fun c => is_numch c = true) t.
Proof.
  intros H. apply dg_chars in H. eapply Forall_impl; [|exact H].
  intros c [->|(d & Hd & _)]; [reflexivity|]. now apply (digit_of_numch c d).
Qed.

(* ====================================================================== the regex *)
Lemma span_num_spec s : forall a r, span_num s = (a, r) ->
  s = a ++ r /\ Forall (fun c => is_numch c = true) a /\
  match r with [] => True | c :: _ => is_numch c = false end.
Proof.
  induction s as [|c t IH]; intros a r H; cbn [span_num] in H.
  - injection H as <- <-. auto.
  - destruct (is_numch c) eqn:Ec.
    + destruct (span_num t) as [a' r'] eqn:Et. injection H as <- <-.
      destruct (IH a' r' eq_refl) as (-> & Hf & Hr). auto.
    + injection H as <- <-. auto.
Qed.

Lemma span_num_complete a r : Forall (fun c => is_numch c = true) a ->
  match r with [] => True | c :: _ => is_numch c = false end -> span_num (a ++ r) = (a, r).
Proof.
  intros Ha Hr. induction Ha as [|c a Hc Ha IH].
  - destruct r as [|c r']; [reflexivity|]. cbn. now rewrite Hr.
  - cbn [app span_num]. rewrite Hc, IH. reflexivity.
Qed.

Lemma suffix_ok_bool u : ((Nat.leb (length u) 3) && forallb is_sufch u = true) <-> suffix_ok u.
Proof.
  unfold suffix_ok. rewrite andb_true_iff, Nat.leb_le, forallb_forall, Forall_forall.
  split; intros [H1 H2]; (split; [exact H1|]); intros c Hc; apply sufch_spec; auto.
Qed.

Lemma suffix_head_not_numch u : suffix_ok u -> match u with [] => True | c :: _ => is_numch c = false end.
Proof.
  intros [_ H]. destruct u as [|c u']; [exact I|]. inversion H; subst. now apply sufch_not_numch.
Qed.

Lemma match_noprefix_spec s num : match_noprefix s = Some num <->
  (num <> [] /\ Forall (fun c => is_numch c = true) num /\ exists u, s = num ++ u /\ suffix_ok u).
Proof.
  unfold match_noprefix. split.
  - destruct (span_num s) as [a r] eqn:E. destruct (span_num_spec s a r E) as (-> & Hf & Hr).
    destruct a as [|c a']; [discriminate|].
    destruct ((Nat.leb (length r) 3) && forallb is_sufch r) eqn:Es; [|discriminate].
    intros H; injection H as <-. split; [discriminate|]. split; [assumption|].
    exists r. split; [reflexivity|]. now apply suffix_ok_bool.
  - intros (Hn & Hf & u & -> & Hu).
    rewrite (span_num_complete num u Hf (suffix_head_not_numch u Hu)).
    destruct num as [|c a']; [congruence|].
    apply suffix_ok_bool in Hu. rewrite Hu. reflexivity.
Qed.

Definition fallback (t : list N) : option (Z * list N) :=
  match match_noprefix t with Some n => Some (10, n) | None => None end.

Ltac split_N c :=
  destruct c as [|c]; [try reflexivity|]; repeat (destruct c as [c|c|]; try reflexivity).

Lemma regex_match_eq t : regex_match t =
  match t with
  | c :: p :: rest =>
      if N.eqb c 48 then
        match prefix_base p with
        | Some b => match match_noprefix rest with Some n => Some (b, n) | None => fallback t end
        | None => fallback t
        end
      else fallback t
  | _ => fallback t
  end.
Proof.
  destruct t as [|c [|p rest]]; [reflexivity| |]; split_N c.
Qed.

(* the documented reading of the text: regex groups, then the digit/underscore rule of the base *)
Definition doc_parse (t : list N) : option Z :=
  match regex_match t with Some (b, num) => int_digits b num 0 false | None => None end.

Lemma fallback_sound t b n v : fallback t = Some (b, n) -> int_digits b n 0 false = Some v -> number_grammar t v.
Proof.
  unfold fallback. destruct (match_noprefix t) as [n'|] eqn:E; [|discriminate].
  intros H; injection H as <- <-. intros Hd.
  apply match_noprefix_spec in E. destruct E as (_ & _ & u & -> & Hu).
  apply ng_dec; [|assumption]. now apply int_digits_iff.
Qed.

Lemma doc_parse_sound t v : doc_parse t = Some v -> number_grammar t v.
Proof.
  unfold doc_parse. rewrite regex_match_eq.
  destruct t as [|c [|p rest]].
  - destruct (fallback []) as [[b n]|] eqn:E; [|discriminate]. now apply fallback_sound.
  - destruct (fallback [c]) as [[b n]|] eqn:E; [|discriminate]. now apply fallback_sound.
  - destruct (N.eqb c 48) eqn:Ec.
    + apply N.eqb_eq in Ec. subst c.
      destruct (prefix_base p) as [b|] eqn:Ep.
      * destruct (match_noprefix rest) as [n|] eqn:Em.
        -- intros Hd. apply match_noprefix_spec in Em. destruct Em as (_ & _ & u & -> & Hu).
           apply (ng_pref p b); [now apply prefix_base_spec|now apply int_digits_iff|assumption].
        -- destruct (fallback (48%N :: p :: rest)) as [[b' n]|] eqn:E; [|discriminate]. now apply fallback_sound.
      * destruct (fallback (48%N :: p :: rest)) as [[b' n]|] eqn:E; [|discriminate]. now apply fallback_sound.
    + destruct (fallback (c :: p :: rest)) as [[b' n]|] eqn:E; [|discriminate]. now apply fallback_sound.
Qed.

Lemma match_noprefix_group base body u v : digit_group base body v -> suffix_ok u ->
  match_noprefix (body ++ u) = Some body.
Proof.
  intros Hg Hu. apply match_noprefix_spec. split.
  - destruct (dg_head _ _ _ Hg) as (c & t' & d & -> & _). discriminate.
  - split; [now apply (dg_numch base body v)|]. now exists u.
Qed.

Lemma regex_dec body u v : digit_group 10 body v -> suffix_ok u ->
  regex_match (body ++ u) = Some (10, body).
Proof.
  intros Hg Hu. rewrite regex_match_eq.
  assert (Hf : fallback (body ++ u) = Some (10, body)).
  { unfold fallback. now rewrite (match_noprefix_group 10 body u v). }
  destruct (body ++ u) as [|c [|p rest]] eqn:E; try exact Hf.
  destruct (N.eqb c 48) eqn:Ec; [|exact Hf].
  assert (Hp : prefix_base p = None); [|rewrite Hp; exact Hf].
  (* p is the second character of a decimal digit group followed by a suffix: '_' , a decimal digit, 'u' or 'l' *)
  destruct (dg_head _ _ _ Hg) as (c0 & t' & d0 & -> & _ & _).
  pose proof (dg_chars _ _ _ Hg) as Hc. inversion Hc as [|? ? _ Hc']; subst.
  cbn [app] in E. injection E as _ E.
  destruct t' as [|c1 t''].
  - cbn [app] in E. destruct Hu as [_ Hu]. rewrite E in Hu. inversion Hu as [|? ? Hx _]; subst.
    destruct Hx as [-> | ->]; reflexivity.
  - cbn [app] in E. injection E as -> _. inversion Hc' as [|? ? Hx _]; subst.
    destruct Hx as [->|(d & Hd & Hl)]; [reflexivity|].
    apply prefix_base_none; destruct Hd as [c' H|c' H]; lia.
Qed.

Lemma regex_pref p b body u v : base_prefix p b -> digit_group b body v -> suffix_ok u ->
  regex_match (48%N :: p :: body ++ u) = Some (b, body).
Proof.
  intros Hp Hg Hu. rewrite regex_match_eq. change (N.eqb 48 48) with true. cbv iota.
  apply prefix_base_spec in Hp. rewrite Hp. now rewrite (match_noprefix_group b body u v).
Qed.

Lemma doc_parse_complete t v : number_grammar t v -> doc_parse t = Some v.
Proof.
  unfold doc_parse. intros [body u v' Hg Hu|p b body u v' Hp Hg Hu].
  - rewrite (regex_dec body u v') by assumption. now apply int_digits_iff.
  - rewrite (regex_pref p b body u v') by assumption. now apply int_digits_iff.
Qed.

Lemma doc_parse_iff t v : doc_parse t = Some v <-> number_grammar t v.
Proof. split; [apply doc_parse_sound|apply doc_parse_complete]. Qed.

(* ====================================================================== py_int vs the digit rule *)
Definition drop_us (r : list N) : list N :=
  match r with c :: r' => if N.eqb c 95 then r' else r | [] => r end.

Lemma py_int_eq b s : py_int b s =
  match s with
  | c1 :: c2 :: r =>
      if N.eqb c1 48 && N.eqb c2 98 then
        (if b =? 2 then int_digits 2 (drop_us r) 0 false else int_digits b s 0 false)
      else int_digits b s 0 false
  | _ => int_digits b s 0 false
  end.
Proof.
  unfold py_int. destruct s as [|c1 [|c2 r]]; [reflexivity| |].
  - split_N c1.
  - split_N c1. split_N c2.
    change (N.eqb 48 48 && N.eqb 98 98) with true. cbv iota.
    destruct (b =? 2); [|reflexivity].
    destruct r as [|c3 r']; [reflexivity|]. unfold drop_us. split_N c3.
Qed.

Lemma int_digits_0b base r acc prev : base <= 11 -> int_digits base (48%N :: 98%N :: r) acc prev = None.
Proof.
  intros H. cbn [int_digits]. change (N.eqb 48 95) with false. change (N.eqb 98 95) with false.
  change (digit_val 48) with (Some 0). change (digit_val 98) with (Some 11). cbv iota.
  destruct (0 <? base); [|reflexivity]. replace (11 <? base) with false by lia. reflexivity.
Qed.

Lemma py_int_plain b s : (b = 2 -> forall r, s <> 48%N :: 98%N :: r) -> b <= 11 \/ b = 16 ->
  py_int b s = int_digits b s 0 false.
Proof.
  intros H Hb. rewrite py_int_eq. destruct s as [|c1 [|c2 r]]; try reflexivity.
  destruct (N.eqb c1 48 && N.eqb c2 98) eqn:E; [|reflexivity].
  destruct (b =? 2) eqn:E2; [|reflexivity].
  exfalso. apply (H ltac:(lia) r). f_equal; [lia|f_equal; lia].
Qed.

(* the implemented reading of the text *)
Definition parse_impl (t : list N) : option Z :=
  match regex_match t with Some (b, num) => py_int b num | None => None end.

Lemma value_to_int_str_eq s :
  value_to_int_str s = match parse_impl (strip_lower s) with Some v => Ok v | None => Err 1%N end.
Proof.
  unfold value_to_int_str, parse_impl, strip_lower. destruct s as [|c t]; [reflexivity|].
  destruct (regex_match (lower (strip (c :: t)))) as [[b n]|]; reflexivity.
Qed.

Lemma regex_match_inv t b num : regex_match t = Some (b, num) ->
  (b = 10 /\ match_noprefix t = Some num) \/
  (exists p rest, t = 48%N :: p :: rest /\ base_prefix p b /\ match_noprefix rest = Some num).
Proof.
  rewrite regex_match_eq.
  assert (Hf : fallback t = Some (b, num) -> b = 10 /\ match_noprefix t = Some num).
  { unfold fallback. destruct (match_noprefix t); [|discriminate]. intros H; injection H as <- <-. auto. }
  destruct t as [|c [|p rest]]; try (intros H; left; now apply Hf).
  destruct (N.eqb c 48) eqn:Ec; [|intros H; left; now apply Hf].
  apply N.eqb_eq in Ec. subst c.
  destruct (prefix_base p) as [b'|] eqn:Ep; [|intros H; left; now apply Hf].
  destruct (match_noprefix rest) as [n|] eqn:Em; [|intros H; left; now apply Hf].
  intros H; injection H as <- <-. right. exists p, rest. split; [reflexivity|]. split; [now apply prefix_base_spec|assumption].
Qed.

Lemma regex_base t b num : regex_match t = Some (b, num) -> b = 10 \/ b = 2 \/ b = 8 \/ b = 16.
Proof.
  intros H. apply regex_match_inv in H. destruct H as [[-> _]|(p & rest & _ & Hp & _)]; [auto|].
  destruct Hp; auto.
Qed.

Lemma parse_impl_sound t v : parse_impl t = Some v -> number_grammar_impl t v.
Proof.
  unfold parse_impl. destruct (regex_match t) as [[b num]|] eqn:Er; [|discriminate].
  intros Hp. pose proof (regex_base t b num Er) as Hb.
  (* is this the doubled binary prefix? *)
  destruct (Z.eq_dec b 2) as [->|Hb2].
  - destruct num as [|c1 [|c2 r]].
    + left. apply doc_parse_iff. unfold doc_parse. rewrite Er. exact Hp.
    + left. apply doc_parse_iff. unfold doc_parse. rewrite Er. rewrite py_int_eq in Hp. exact Hp.
    + rewrite py_int_eq in Hp. destruct (N.eqb c1 48 && N.eqb c2 98) eqn:E.
      * right. change (2 =? 2) with true in Hp. cbv iota in Hp.
        assert (c1 = 48%N) by lia. assert (c2 = 98%N) by lia. subst c1 c2.
        apply regex_match_inv in Er. destruct Er as [[Hx _]|(p & rest & -> & Hbp & Hm)]; [discriminate|].
        inversion Hbp; subst.
        apply match_noprefix_spec in Hm. destruct Hm as (_ & _ & u & -> & Hu).
        apply int_digits_iff in Hp.
        destruct r as [|c3 r']; [cbn in Hp; now apply (dup_plain [] u v)|].
        unfold drop_us in Hp. destruct (N.eqb c3 95) eqn:E3.
        -- apply N.eqb_eq in E3. subst c3. now apply (dup_us r' u v).
        -- now apply (dup_plain (c3 :: r') u v).
      * left. apply doc_parse_iff. unfold doc_parse. rewrite Er. exact Hp.
  - left. apply doc_parse_iff. unfold doc_parse. rewrite Er.
    rewrite py_int_plain in Hp; [exact Hp|congruence|lia].
Qed.

Lemma parse_impl_doc t v : number_grammar t v -> parse_impl t = Some v.
Proof.
  intros H. apply doc_parse_iff in H. unfold doc_parse in H. unfold parse_impl.
  destruct (regex_match t) as [[b num]|] eqn:Er; [|discriminate].
  pose proof (regex_base t b num Er) as Hb.
  rewrite py_int_plain; [exact H| |lia].
  intros -> r ->. rewrite int_digits_0b in H by lia. discriminate.
Qed.

Lemma parse_impl_dup t v : dup_binary t v -> parse_impl t = Some v.
Proof.
  unfold parse_impl. intros [body u v' Hg Hu|body u v' Hg Hu].
  - rewrite regex_match_eq. change (N.eqb 48 48) with true. change (prefix_base 98) with (Some 2). cbv iota.
    assert (Hm : match_noprefix (48%N :: 98%N :: body ++ u) = Some (48%N :: 98%N :: body)).
    { apply match_noprefix_spec. split; [discriminate|]. split.
      - constructor; [reflexivity|]. constructor; [reflexivity|]. now apply (dg_numch 2 body v').
      - now exists u. }
    rewrite Hm. rewrite py_int_eq. change (N.eqb 48 48 && N.eqb 98 98) with true. change (2 =? 2) with true. cbv iota.
    destruct (dg_head _ _ _ Hg) as (c & t' & d & -> & Hd & _). unfold drop_us.
    rewrite (digit_of_not_us c d Hd). now apply int_digits_iff.
  - rewrite regex_match_eq. change (N.eqb 48 48) with true. change (prefix_base 98) with (Some 2). cbv iota.
    assert (Hm : match_noprefix (48%N :: 98%N :: 95%N :: body ++ u) = Some (48%N :: 98%N :: 95%N :: body)).
    { apply (match_noprefix_spec (48%N :: 98%N :: 95%N :: body ++ u)). split; [discriminate|]. split.
      - constructor; [reflexivity|]. constructor; [reflexivity|]. constructor; [reflexivity|]. now apply (dg_numch 2 body v').
      - now exists u. }
    rewrite Hm. rewrite py_int_eq. change (N.eqb 48 48 && N.eqb 98 98) with true. change (2 =? 2) with true. cbv iota.
    unfold drop_us. change (N.eqb 95 95) with true. cbv iota. now apply int_digits_iff.
Qed.

Lemma parse_impl_iff t v : parse_impl t = Some v <-> number_grammar_impl t v.
Proof.
  split; [apply parse_impl_sound|]. intros [H|H]; [now apply parse_impl_doc|now apply parse_impl_dup].
Qed.

(* ====================================================================== the known class *)
Lemma dup_binary_class t v : dup_binary t v -> dup_prefix_class t.
Proof. intros [body u v' _ _|body u v' _ _]; eexists; reflexivity. Qed.

Lemma dup_class_undocumented t : dup_prefix_class t -> forall v, ~ number_grammar t v.
Proof.
  intros [r ->] v H. apply doc_parse_iff in H. unfold doc_parse in H.
  destruct (regex_match (48%N :: 98%N :: 48%N :: 98%N :: r)) as [[b num]|] eqn:Er; [|discriminate].
  apply regex_match_inv in Er. destruct Er as [[-> Hm]|(p & rest & Ht & Hbp & Hm)].
  - apply match_noprefix_spec in Hm. destruct Hm as (Hn & _ & u & Hs & Hu).
    destruct num as [|c1 [|c2 num']]; [congruence| |].
    + cbn [app] in Hs. injection Hs as <- Hs. destruct u as [|x u']; [discriminate|]. injection Hs as <- _.
      destruct Hu as [_ Hu]. inversion Hu as [|? ? Hx _]. destruct Hx; discriminate.
    + cbn [app] in Hs. injection Hs as <- <- _. rewrite int_digits_0b in H by lia. discriminate.
  - injection Ht as <- <-. inversion Hbp; subst.
    apply match_noprefix_spec in Hm. destruct Hm as (Hn & Hf & u & Hs & Hu).
    destruct num as [|c1 [|c2 num']]; [congruence| |].
    + cbn [app] in Hs. injection Hs as <- Hs. destruct u as [|x u']; [discriminate|]. injection Hs as <- _.
      destruct Hu as [_ Hu]. inversion Hu as [|? ? Hx _]. destruct Hx; discriminate.
    + cbn [app] in Hs. injection Hs as <- <- _. rewrite int_digits_0b in H by lia. discriminate.
Qed.

(* ====================================================================== main theorems *)
Lemma value_to_int_grammar_impl_l s v :
  value_to_int_str s = Ok v <-> number_grammar_impl (strip_lower s) v.
Proof.
  rewrite value_to_int_str_eq. rewrite <- parse_impl_iff.
  destruct (parse_impl (strip_lower s)) as [v'|]; split; intros H; try discriminate; injection H as <-; reflexivity.
Qed.

Lemma value_to_int_total_l s : (exists v, value_to_int_str s = Ok v) \/ value_to_int_str s = Err 1%N.
Proof.
  rewrite value_to_int_str_eq. destruct (parse_impl (strip_lower s)) as [v|]; [left; now exists v|now right].
Qed.

Lemma value_to_int_rejects_l s :
  (forall v, ~ number_grammar_impl (strip_lower s) v) <-> value_to_int_str s = Err 1%N.
Proof.
  split.
  - intros H. destruct (value_to_int_total_l s) as [[v Hv]|Hv]; [|exact Hv].
    apply value_to_int_grammar_impl_l in Hv. now apply H in Hv.
  - intros H v Hg. apply value_to_int_grammar_impl_l in Hg. congruence.
Qed.

(* the statement asked for, with the known class carved out *)
Lemma value_to_int_grammar_except_known_l s : ~ dup_prefix_class (strip_lower s) ->
  (forall v, value_to_int_str s = Ok v <-> number_grammar (strip_lower s) v) /\
  ((forall v, ~ number_grammar (strip_lower s) v) -> value_to_int_str s = Err 1%N).
Proof.
  intros Hk.
  assert (Hiff : forall v, value_to_int_str s = Ok v <-> number_grammar (strip_lower s) v).
  { intros v. rewrite value_to_int_grammar_impl_l. unfold number_grammar_impl. split; [|auto].
    intros [H|H]; [exact H|]. exfalso. apply Hk. now apply (dup_binary_class _ v). }
  split; [exact Hiff|].
  intros H. destruct (value_to_int_total_l s) as [[v Hv]|Hv]; [|exact Hv].
  apply Hiff in Hv. now apply H in Hv.
Qed.

(* inside the known class the documented grammar has NO number at all, the implementation accepts some *)
Lemma value_to_int_grammar_refuted_l :
  exists s v, value_to_int_str s = Ok v /\ dup_prefix_class (strip_lower s) /\
              forall v', ~ number_grammar (strip_lower s) v'.
Proof.
  exists [48; 98; 48; 98; 49]%N, 1. split; [vm_compute; reflexivity|].
  assert (Hc : dup_prefix_class (strip_lower [48; 98; 48; 98; 49]%N)) by (exists [49%N]; reflexivity).
  split; [exact Hc|]. now apply dup_class_undocumented.
Qed.

Lemma documented_subset_l t v :
  (number_grammar t v -> number_grammar_impl t v) /\
  (number_grammar_impl t v -> number_grammar t v \/ (dup_prefix_class t /\ forall v', ~ number_grammar t v')).
Proof.
  split; [now left|]. intros [H|H]; [now left|right].
  pose proof (dup_binary_class t v H) as Hc. split; [exact Hc|]. now apply dup_class_undocumented.
Qed.

(* the grammar is a function: one text has at most one value *)
Lemma number_grammar_functional t v1 v2 : number_grammar t v1 -> number_grammar t v2 -> v1 = v2.
Proof. intros H1 H2. apply doc_parse_iff in H1, H2. congruence. Qed.

Lemma number_grammar_nonneg t v : number_grammar_impl t v -> 0 <= v.
Proof.
  intros [[body u v' Hg _|p b body u v' Hp Hg _]|[body u v' Hg _|body u v' Hg _]].
  - now apply (dg_nonneg 10 body).
  - apply (dg_nonneg b body); [destruct Hp; lia|assumption].
  - now apply (dg_nonneg 2 body).
  - now apply (dg_nonneg 2 body).
Qed.

(* ====================================================================== value_to_bytes on strings *)
Lemma value_to_bytes_str_grammar_l s v a2n big : number_grammar_impl (strip_lower s) v ->
  exists bs, value_to_bytes_str s a2n 0 big = Ok bs
   /\ (if big then be_dec bs else le_dec bs) = Z.to_N v
   /\ Z.of_nat (length bs) = width_spec v a2n.
Proof.
  intros H. pose proof (number_grammar_nonneg _ _ H) as Hv.
  apply value_to_int_grammar_impl_l in H. unfold value_to_bytes_str. rewrite H.
  now apply value_to_bytes_total.
Qed.

Lemma value_to_bytes_str_rejects_l s a2n bc big : (forall v, ~ number_grammar_impl (strip_lower s) v) ->
  value_to_bytes_str s a2n bc big = Err 1%N.
Proof.
  intros H. apply value_to_int_rejects_l in H. unfold value_to_bytes_str. now rewrite H.
Qed.

(* ====================================================================== what strip_lower is *)
(* ASCII white space of str.strip(): \t \n \v \f \r, 0x1c..0x1f, space *)
Definition ws (c : N) : Prop := (9 <= c <= 13)%N \/ (28 <= c <= 32)%N.
Definition to_lower (c : N) : N := if ((65 <=? c) && (c <=? 90))%N then (c + 32)%N else c.

Lemma is_space_ws c : is_space c = true <-> ws c.
Proof. unfold is_space, nle, ws. lia. Qed.

Lemma lstrip_spec s : exists a, s = a ++ lstrip s /\ Forall ws a /\
  match lstrip s with [] => True | c :: _ => ~ ws c end.
Proof.
  induction s as [|c t (a & E & Ha & Hh)].
  - exists []. cbn. auto.
  - cbn [lstrip]. destruct (is_space c) eqn:Ec.
    + exists (c :: a). split; [cbn; now rewrite <- E|]. split; [|exact Hh].
      constructor; [now apply is_space_ws|assumption].
    + exists []. split; [reflexivity|]. split; [constructor|].
      intros H. apply is_space_ws in H. congruence.
Qed.

(* strip_lower s is the middle part of s between maximal runs of white space, lower-cased *)
Lemma strip_lower_spec_l s : exists a m b, s = a ++ m ++ b /\ Forall ws a /\ Forall ws b /\
  (forall c m', m = c :: m' -> ~ ws c) /\ (forall c m', m = m' ++ [c] -> ~ ws c) /\
  strip_lower s = map to_lower m.
Proof.
  destruct (lstrip_spec s) as (a & Ea & Ha & Hh).
  destruct (lstrip_spec (rev (lstrip s))) as (b' & Eb & Hb & Hk).
  set (k := lstrip (rev (lstrip s))) in *.
  assert (Em : lstrip s = rev k ++ rev b').
  { rewrite <- rev_app_distr, <- Eb. now rewrite rev_involutive. }
  exists a, (rev k), (rev b'). split; [now rewrite <- Em|]. split; [assumption|].
  split; [now apply Forall_rev|]. split; [|split].
  - intros c m' E. rewrite E in Em. rewrite Em in Hh. exact Hh.
  - intros c m' E. apply (f_equal (@rev N)) in E. rewrite rev_involutive, rev_app_distr in E. cbn in E.
    rewrite E in Hk. exact Hk.
  - unfold strip_lower, strip, lower. fold k. apply map_ext. intros c. unfold lower_ch, to_lower, nle. reflexivity.
Qed.

(* ====================================================================== the hypotheses are satisfiable *)
Definition str_0x1F_ul : list N := [32; 48; 88; 49; 70; 117; 108; 10]%N.     (* " 0X1Ful\n" *)
Example grammar_ex1 : number_grammar (strip_lower str_0x1F_ul) 31.
Proof. apply doc_parse_iff. vm_compute. reflexivity. Qed.
Example grammar_ex2 : number_grammar [49; 95; 48; 48; 48; 117; 108; 108]%N 1000.   (* "1_000ull" *)
Proof. apply doc_parse_iff. vm_compute. reflexivity. Qed.
Example grammar_ex3 : forall v, ~ number_grammar [49; 95; 95; 48]%N v.             (* "1__0" *)
Proof. intros v H. apply doc_parse_iff in H. vm_compute in H. discriminate. Qed.
Example grammar_ex4 : forall v, ~ number_grammar [48; 120]%N v.                    (* "0x" *)
Proof. intros v H. apply doc_parse_iff in H. vm_compute in H. discriminate. Qed.
Example grammar_ex5 : number_grammar [48; 111; 49; 55]%N 15 /\ number_grammar [48; 98; 49; 95; 48]%N 2
                      /\ number_grammar [48; 57]%N 9.                               (* "0o17" "0b1_0" "09" *)
Proof. repeat split; apply doc_parse_iff; vm_compute; reflexivity. Qed.
Example grammar_ex6 : ~ dup_prefix_class (strip_lower str_0x1F_ul).
Proof. intros [r H]. vm_compute in H. discriminate. Qed.
Example grammar_ex7 : dup_binary [48; 98; 48; 98; 95; 49; 48]%N 2.                 (* "0b0b_10" *)
Proof. apply (dup_us [49; 48]%N [] 2); [|split; [cbn; lia|constructor]].
       apply (dg_snoc 2 [49%N] 1 48%N 0); [|apply (digit_dec 48); lia|lia].
       apply (dg_one 2 49%N 1); [apply (digit_dec 49); lia|lia]. Qed.

(* ====================================================================== statements used by Props/C20 *)
Lemma value_to_int_grammar_as_implemented_l s :
  (forall v, value_to_int_str s = Ok v <-> number_grammar_impl (strip_lower s) v) /\
  ((forall v, ~ number_grammar_impl (strip_lower s) v) <-> value_to_int_str s = Err 1%N) /\
  ((exists v, value_to_int_str s = Ok v) \/ value_to_int_str s = Err 1%N).
Proof.
  split; [intros v; apply value_to_int_grammar_impl_l|]. split; [apply value_to_int_rejects_l|apply value_to_int_total_l].
Qed.

Lemma value_to_bytes_str_grammar_l2 s a2n big :
  (forall v, number_grammar_impl (strip_lower s) v ->
     exists bs, value_to_bytes_str s a2n 0 big = Ok bs
       /\ (if big then be_dec bs else le_dec bs) = Z.to_N v
       /\ Z.of_nat (length bs) = width_spec v a2n) /\
  ((forall v, ~ number_grammar_impl (strip_lower s) v) ->
     forall bc, value_to_bytes_str s a2n bc big = Err 1%N).
Proof.
  split; [intros v; apply value_to_bytes_str_grammar_l|]. intros H bc. now apply value_to_bytes_str_rejects_l.
Qed.

Print Assumptions value_to_int_grammar_as_implemented_l.
Print Assumptions value_to_int_grammar_except_known_l.
Print Assumptions value_to_int_grammar_refuted_l.
Print Assumptions documented_subset_l.
Print Assumptions value_to_bytes_str_grammar_l2.
Print Assumptions strip_lower_spec_l.
