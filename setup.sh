#!/bin/bash
# Offline setup: regenerate Gen/*.v from /repo, build the whole Coq development (full .vo), build OCaml drivers.
cd "$(dirname "$0")"
export PYTHONHASHSEED=0
mkdir -p .work evidence replays coq/Gen
/venv/bin/python tools/regen_all.py || exit 1
cd coq && coq_makefile -f _CoqProject -o Makefile > /dev/null && timeout 3000 make -k -j16 > ../.work/setup_make.log 2>&1
rc=$?
tail -3 ../.work/setup_make.log
# a failing proof is reported by the individual check, not by setup
exit 0
