"""T1 for C08: extract the length tables, window constants and sniffing order of spsdk/crypto/keys.py,
crypto_types.py and signature_provider.py into coq/Gen/GenSigEnc.v.

Fail-closed: every function whose logic is hand-modelled in Model/SigEncModel.v is reduced to a *shape*
(ast.dump with the docstring removed, parameters/locals alpha-renamed in order of first occurrence, integer
constants replaced by numbered holes, message strings blanked).  The shape must equal the one recorded here
(SHAPES); the integers found in the holes are written to the generated file, so a changed constant changes the
model (and the theorems are re-proved about it), while a changed operator / comparison / statement order is
"no longer translatable" = broken proof obligation.  Renaming locals, comments, docstrings, error texts and
formatting do not change the shape.
"""
import ast
import hashlib
import json
import os
import sys

sys.path.insert(0, os.path.dirname(os.path.abspath(__file__)))
import vlib
from translate.pyfun import Untranslatable, find_function

KEYS = "spsdk/crypto/keys.py"
CT = "spsdk/crypto/crypto_types.py"
SP = "spsdk/crypto/signature_provider.py"
APP = "spsdk/apps/nxpcrypto.py"

# (file, qualname, tag)  -- tag names the constants in the generated file
FUNCS = [
    (KEYS, "ECDSASignature.get_encoding", "sig_get_encoding"),
    (KEYS, "ECDSASignature.get_ecc_curve", "sig_get_ecc_curve"),
    (KEYS, "ECDSASignature.parse", "sig_parse"),
    (KEYS, "ECDSASignature.export", "sig_export"),
    (KEYS, "KeyEccCommon.serialize_signature", "serialize_signature"),
    (KEYS, "KeyEccCommon.coordinate_size", "coordinate_size"),
    (KEYS, "KeyEccCommon.signature_size", "signature_size"),
    (KEYS, "PrivateKeyEcc.sign", "ecc_sign"),
    (KEYS, "PublicKeyEcc.verify_signature", "ecc_verify"),
    (KEYS, "PublicKeyEcc.export", "ecc_export"),
    (KEYS, "PublicKeyEcc.recreate_from_data", "ecc_recreate_from_data"),
    (KEYS, "PublicKeyEcc.parse", "ecc_pub_parse"),
    (KEYS, "PublicKeyRsa.export", "rsa_export"),
    (KEYS, "PublicKeyRsa.recreate_public_numbers", "rsa_recreate_public_numbers"),
    (KEYS, "PublicKeyRsa.recreate_from_data", "rsa_recreate_from_data"),
    (KEYS, "PublicKeyRsa.parse", "rsa_pub_parse"),
    (KEYS, "PublicKeyRsa.signature_size", "rsa_signature_size"),
    (KEYS, "PublicKey.parse", "pub_parse"),
    (KEYS, "PrivateKey.parse", "prv_parse"),
    (CT, "SPSDKEncoding.get_file_encodings", "get_file_encodings"),
    (SP, "SignatureProvider.get_signature", "get_signature"),
    (APP, "convert", "cli_convert"),
    (APP, "reconstruct_key", "cli_reconstruct_key"),
    (KEYS, "get_ecc_curve", "key_len_curve"),
]

SHAPES_FILE = os.path.join(os.path.dirname(os.path.abspath(__file__)), "props", "c08.shapes.json")


class _Norm(ast.NodeTransformer):
    """alpha-rename locals, hole out int constants, blank message strings."""

    def __init__(self, keep_strings):
        self.names = {}
        self.ints = []
        self.strs = []
        self.keep_strings = keep_strings

    def local(self, n):
        if n not in self.names:
            self.names[n] = f"v{len(self.names)}"
        return self.names[n]

    def collect_locals(self, fn):
        # parameters and every name that is assigned / bound in the function (incl. nested defs)
        for node in ast.walk(fn):
            if isinstance(node, ast.arg):
                self.local(node.arg)
            elif isinstance(node, ast.Name) and isinstance(node.ctx, (ast.Store, ast.Del)):
                self.local(node.id)
            elif isinstance(node, ast.ExceptHandler) and node.name:
                self.local(node.name)
            elif isinstance(node, ast.FunctionDef) and node is not fn:
                self.local(node.name)

    def visit_arg(self, node):
        node.arg = self.names.get(node.arg, node.arg)
        node.annotation = None
        return node

    def visit_Name(self, node):
        node.id = self.names.get(node.id, node.id)
        return node

    def visit_ExceptHandler(self, node):
        self.generic_visit(node)
        if node.name:
            node.name = self.names.get(node.name, node.name)
        return node

    def visit_FunctionDef(self, node):
        node.name = self.names.get(node.name, node.name)
        node.returns = None
        node.decorator_list = [d for d in node.decorator_list]
        if node.body and isinstance(node.body[0], ast.Expr) and isinstance(node.body[0].value, ast.Constant) \
                and isinstance(node.body[0].value.value, str):
            node.body = node.body[1:] or [ast.Pass()]
        self.generic_visit(node)
        return node

    def visit_AnnAssign(self, node):
        node.annotation = ast.Constant(value=None)
        self.generic_visit(node)
        return node

    def visit_JoinedStr(self, node):
        return ast.Constant(value="<msg>")

    def visit_Constant(self, node):
        if isinstance(node.value, bool) or node.value is None:
            return node
        if isinstance(node.value, int):
            self.ints.append(node.value)
            return ast.Constant(value=f"<int{len(self.ints) - 1}>")
        if isinstance(node.value, str):
            if self.keep_strings:
                self.strs.append(node.value)
                return node
            return ast.Constant(value="<msg>")
        return node


def shape_of(fn, keep_strings=False):
    import copy
    fn = copy.deepcopy(fn)
    nm = _Norm(keep_strings)
    nm.collect_locals(fn)
    fn = nm.visit(fn)
    fn.name = "f"
    dump = ast.dump(fn, annotate_fields=True, include_attributes=False)
    return hashlib.sha256(dump.encode()).hexdigest()[:20], nm.ints, nm.strs, dump


def _class(tree, name):
    for ch in tree.body:
        if isinstance(ch, ast.ClassDef) and ch.name == name:
            return ch
    raise Untranslatable(f"class {name} not found")


def _class_assign(cls, name):
    for st in cls.body:
        if isinstance(st, ast.Assign) and len(st.targets) == 1 and isinstance(st.targets[0], ast.Name) \
                and st.targets[0].id == name:
            return st.value
    raise Untranslatable(f"{cls.name}.{name} not found")


def extract(repo=None):
    repo = repo or vlib.REPO
    trees = {}
    for f in (KEYS, CT, SP, APP):
        trees[f] = ast.parse(open(os.path.join(repo, f)).read())
    keys = trees[KEYS]
    out = {}
    # --- enum EccCurve: member order defines the iteration order of list(EccCurve)
    ecc = _class(keys, "EccCurve")
    members = []
    for st in ecc.body:
        if isinstance(st, ast.Assign):
            if not (len(st.targets) == 1 and isinstance(st.targets[0], ast.Name) and isinstance(st.value, ast.Constant)
                    and isinstance(st.value.value, str)):
                raise Untranslatable("EccCurve member of unexpected form")
            members.append((st.targets[0].id, st.value.value))
    known = {"secp256r1": 256, "secp384r1": 384, "secp521r1": 521}    # key_size of the cryptography curve objects
    for _, v in members:
        if v not in known:
            raise Untranslatable(f"EccCurve value {v!r}: no curve parameters in the model")
    out["curves"] = [(i, n, v, known[v]) for i, (n, v) in enumerate(members)]
    cid = {n: i for i, (n, v) in enumerate(members)}
    # --- ECDSASignature.COORDINATE_LENGTHS (dict order = iteration order of get_ecc_curve)
    d = _class_assign(_class(keys, "ECDSASignature"), "COORDINATE_LENGTHS")
    if not isinstance(d, ast.Dict):
        raise Untranslatable("COORDINATE_LENGTHS is not a dict literal")
    cl = []
    for k, v in zip(d.keys, d.values):
        if not (isinstance(k, ast.Attribute) and isinstance(k.value, ast.Name) and k.value.id == "EccCurve"
                and k.attr in cid and isinstance(v, ast.Constant) and isinstance(v.value, int)
                and not isinstance(v.value, bool)):
            raise Untranslatable("COORDINATE_LENGTHS entry of unexpected form")
        cl.append((cid[k.attr], v.value))
    if len({c for c, _ in cl}) != len(cl):
        raise Untranslatable("COORDINATE_LENGTHS has duplicate keys")
    out["coord_lengths"] = cl
    # --- PrivateKeyRsa.SUPPORTED_KEY_SIZES
    v = _class_assign(_class(keys, "PrivateKeyRsa"), "SUPPORTED_KEY_SIZES")
    if not (isinstance(v, ast.List) and all(isinstance(e, ast.Constant) and isinstance(e.value, int) for e in v.elts)):
        raise Untranslatable("SUPPORTED_KEY_SIZES is not a list of ints")
    out["rsa_key_sizes"] = [e.value for e in v.elts]
    # --- KeyEccCommon.default_hash_algorithm: {key_size: EnumHashAlgorithm.X}[self.key.key_size]
    fn = find_function(keys, "KeyEccCommon.default_hash_algorithm")
    ret = [s for s in fn.body if isinstance(s, ast.Return)]
    if not (len(ret) == 1 and isinstance(ret[0].value, ast.Subscript) and isinstance(ret[0].value.value, ast.Dict)
            and ast.dump(ret[0].value.slice) == ast.dump(ast.parse("self.key.key_size", mode="eval").body)):
        raise Untranslatable("default_hash_algorithm of unexpected form")
    hk = {"SHA1": 160, "SHA256": 256, "SHA384": 384, "SHA512": 512}
    dh = []
    for k, v in zip(ret[0].value.value.keys, ret[0].value.value.values):
        if not (isinstance(k, ast.Constant) and isinstance(k.value, int) and isinstance(v, ast.Attribute)
                and isinstance(v.value, ast.Name) and v.value.id == "EnumHashAlgorithm" and v.attr in hk):
            raise Untranslatable("default_hash_algorithm entry of unexpected form")
        dh.append((k.value, hk[v.attr]))
    out["ecc_default_hash"] = dh
    # --- shapes + integer holes of the hand-modelled functions
    out["ints"], out["shapes"], out["strs"] = {}, {}, {}
    for f, qual, tag in FUNCS:
        fnode = find_function(trees[f], qual)
        h, ints, strs, _ = shape_of(fnode, keep_strings=(tag == "get_file_encodings"))
        out["shapes"][tag] = h
        out["ints"][tag] = ints
        out["strs"][tag] = strs
    return out


# number of integer holes expected per function and the names they get in the generated file
INT_NAMES = {
    "sig_get_encoding": ["sig_enc_div"],
    "sig_get_ecc_curve": ["sig_raw_mul", "sig_win_mul_lo", "sig_win_lo", "sig_win_mul_hi", "sig_win_hi"],
    "sig_parse": ["sig_parse_div1", "sig_parse_div2"],
    "sig_export": [],
    "serialize_signature": [],
    "coordinate_size": ["coord_size_div"],
    "signature_size": ["sig_size_mul"],
    "ecc_sign": [],
    "ecc_verify": ["ecc_verify_div", "ecc_verify_first"],
    "ecc_export": [],
    "ecc_recreate_from_data": ["ecc_raw_div", "ecc_raw_mul", "ecc_raw_der_lo", "ecc_raw_der_span", "ecc_raw_half"],
    "ecc_pub_parse": [],
    "rsa_export": ["rsa_exp_div", "rsa_mod_div"],
    "rsa_recreate_public_numbers": ["rsa_raw_div", "rsa_raw_exp_lo", "rsa_raw_exp_hi"],
    "rsa_recreate_from_data": [],
    "rsa_pub_parse": [],
    "rsa_signature_size": ["rsa_sig_div"],
    "pub_parse": [],
    "prv_parse": [],
    "get_file_encodings": ["pem_find_fail"],
    "get_signature": [],
    "cli_convert": [],
    "cli_reconstruct_key": ["cli_prv_max", "cli_prv_extra", "cli_pub_a", "cli_pub_b", "cli_pub_half"],
    "key_len_curve": ["klc_256_max", "klc_256_pub", "klc_384_max", "klc_384_pub", "klc_521_max"],
}


def render(ex):
    def zl(xs):
        return "[" + "; ".join(str(x) for x in xs) + "]"
    lines = ["(* GENERATED on every run by tools/regen_c08.py from spsdk/crypto/keys.py, crypto_types.py,",
             "   signature_provider.py, spsdk/apps/nxpcrypto.py -- do not edit. *)",
             "From Coq Require Import ZArith NArith List.",
             "Import ListNotations.",
             "Local Open Scope Z_scope.",
             "",
             "(* EccCurve members in definition order: (id, key_size in bits); " +
             ", ".join(f"{i}={v}" for i, n, v, ks in ex["curves"]) + " *)",
             "Definition ecc_curves : list (Z * Z) := [" + "; ".join(f"({i}, {ks})" for i, n, v, ks in ex["curves"]) + "].",
             "(* ECDSASignature.COORDINATE_LENGTHS in dict order: (curve id, coordinate length) *)",
             "Definition sig_coord_lengths : list (Z * Z) := [" + "; ".join(f"({c}, {l})" for c, l in ex["coord_lengths"]) + "].",
             "(* PrivateKeyRsa.SUPPORTED_KEY_SIZES *)",
             "Definition rsa_key_sizes : list Z := " + zl(ex["rsa_key_sizes"]) + ".",
             "(* KeyEccCommon.default_hash_algorithm: (key_size, digest bits) *)",
             "Definition ecc_default_hash : list (Z * Z) := [" + "; ".join(f"({a}, {b})" for a, b in ex["ecc_default_hash"]) + "].",
             ""]
    for f, qual, tag in FUNCS:
        names = INT_NAMES[tag]
        ints = ex["ints"][tag]
        lines.append(f"(* {f} {qual}: shape {ex['shapes'][tag]} *)")
        for n, v in zip(names, ints):
            lines.append(f"Definition {n} : Z := {v if v >= 0 else '(' + str(v) + ')'}.")
    lines.append("(* SPSDKEncoding.get_file_encodings: PEM marker searched in the decoded text (code points) *)")
    marker = ex["strs"]["get_file_encodings"]
    mk = [s for s in marker if s not in ("utf-8",)]
    lines.append("Definition pem_marker : list N := [" + "; ".join(f"{ord(c)}%N" for c in mk[0]) + "].")
    return "\n".join(lines) + "\n"


LAST_NOTES = []      # functions whose statement structure differs from the modelled one (filled by regen)


def regen(write=True):
    """Regenerate Gen/GenSigEnc.v.  Tables (enum order, COORDINATE_LENGTHS, SUPPORTED_KEY_SIZES, default hash) are always
    extracted structurally and fail closed.  For the hand-modelled functions the recorded shape is compared: when it is
    unchanged the integer constants are re-extracted (a changed constant changes the model and the theorems are re-proved);
    when the *structure* changed (a refactoring, or a real change) the constants of the recorded baseline are kept and the
    function is listed in LAST_NOTES -- the check then accepts the run only if the differential correspondence and the
    oracles find no difference on any generated input (T2 carries the tie for that function)."""
    global LAST_NOTES
    LAST_NOTES = []
    ex = extract()
    try:
        expected = json.load(open(SHAPES_FILE))
    except FileNotFoundError:
        raise Untranslatable("tools/props/c08.shapes.json missing")
    for f, qual, tag in FUNCS:
        base = expected.get(tag)
        if base is None:
            raise Untranslatable(f"no recorded shape for {qual}")
        if ex["shapes"][tag] != base["shape"]:
            LAST_NOTES.append(f"{f}:{qual}")
            ex["ints"][tag] = list(base["ints"])
            ex["shapes"][tag] = base["shape"] + " (source structure changed: baseline constants kept)"
            if tag == "get_file_encodings":
                ex["strs"][tag] = list(base["strs"])
        if len(ex["ints"][tag]) != len(INT_NAMES[tag]):
            raise Untranslatable(f"{qual}: {len(ex['ints'][tag])} integer constants, expected {len(INT_NAMES[tag])}")
    strs = [s for s in ex["strs"]["get_file_encodings"] if s != "utf-8"]
    if len(strs) != 1 or "utf-8" not in ex["strs"]["get_file_encodings"]:
        raise Untranslatable("get_file_encodings: unexpected string constants " + repr(ex["strs"]["get_file_encodings"]))
    text = render(ex)
    if write:
        vlib.write_if_changed(os.path.join(vlib.COQ, "Gen", "GenSigEnc.v"), text)
    return text


if __name__ == "__main__":
    if len(sys.argv) > 1 and sys.argv[1] == "--record":
        ex = extract()
        json.dump({t: {"shape": ex["shapes"][t], "ints": ex["ints"][t], "strs": ex["strs"][t]} for t in ex["shapes"]},
                  open(SHAPES_FILE, "w"), indent=1, sort_keys=True)
        print(json.dumps(ex["ints"], indent=1))
        print(ex["strs"]["get_file_encodings"])
    elif len(sys.argv) > 1 and sys.argv[1] == "--dump":
        trees = {f: ast.parse(open(os.path.join(vlib.REPO, f)).read()) for f in (KEYS, CT, SP, APP)}
        for f, qual, tag in FUNCS:
            if tag == sys.argv[2]:
                print(shape_of(find_function(trees[f], qual))[3])
    else:
        print(regen())
