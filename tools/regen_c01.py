"""T1 for C01: dump, through the real database API and the real mixin classes, every MBI class of every family
(features.mbi.mbi_classes / images), the constants of the mixin classes, their NEEDED_MEMBERS / PRE_PARSED /
COUNT_IN_LEGACY_CERT_BLOCK_LEN, and the provider of each export/parse stage as resolved by Python's MRO,
into coq/Gen/GenMbi.v.  Fail-closed: an unknown mixin class, stage owner or attribute aborts the generation
(or makes the generated file refer to a constructor that does not exist)."""
import json
import os
import sys

sys.path.insert(0, os.path.dirname(os.path.abspath(__file__)))
import vlib

STAGES = ["collect_data", "encrypt", "post_encrypt", "sign", "finalize", "disassemble_image", "update_ivt",
          "check_total_length", "clean_ivt", "disassembly_app_data"]
STAGE_CTOR = ["SCollect", "SEncrypt", "SPostEncrypt", "SSign", "SFinalize", "SDisassemble", "SUpdateIvt",
              "SCheckTotalLength", "SCleanIvt", "SDisassemblyAppData"]
ATTR = {"trust_zone": "ATrustZone", "image_subtype": "AImageSubtype", "user_hw_key_enabled": "AHwKey",
        "key_store": "AKeyStore", "app_table": "AAppTable", "image_version": "AImageVersion",
        "load_address": "ALoadAddress", "cert_block": "ACertBlock", "bca": "ABca", "fcf": "AFcf", "manifest": "AManifest",
        "_ctr_init_vector": "ACtrIv", "hmac_key": "AHmacKey", "ivt_table": "AIvtTable"}
IGNORED_MEMBERS = {"family", "revision", "_app", "app_ext_memory_align", "signature_provider", "_hmac_key"}
IGNORED_PROPS = {"app", "ctr_init_vector"}
MIXIN_IDS = ["MixinApp", "MixinTrustZone", "MixinTrustZoneMandatory", "MixinLoadAddress", "MixinLoadAddressOptional",
             "MixinFwVersion", "MixinImageVersion", "MixinImageSubType", "MixinIvt", "MixinIvtZeroTotalLength",
             "MixinBcaTable", "MixinBcaObsolete", "MixinFcfObsolete", "MixinRelocTable", "MixinManifest", "MixinManifestCrc",
             "MixinManifestDigest", "MixinCertBlockV1", "MixinCertBlockV21", "MixinCertBlockVx", "MixinBca", "MixinFcf",
             "MixinHwKey", "MixinKeyStore", "MixinHmac", "MixinHmacMandatory", "MixinCtrInitVector", "ExportMixinApp",
             "ExportMixinAppTrustZone", "ExportMixinAppTrustZoneCertBlock", "ExportMixinAppCertBlockManifest",
             "ExportMixinCrcSign", "ExportMixinRsaSign", "ExportMixinEccSign", "ExportMixinHmacKeyStoreFinalize",
             "ExportMixinAppBcaFcf", "ExportMixinAppFcf", "ExportMixinCrcSignBca", "ExportMixinEccSignVx",
             "ExportMixinAppTrustZoneCertBlockEncrypt"]
TARGETS = ["xip", "load_to_ram"]
AUTHS = ["plain", "crc", "signed", "nxp_signed", "encrypted"]


class Untranslatable(Exception):
    pass


def ctor(name):
    if not name.startswith("Mbi_"):
        raise Untranslatable(f"unexpected mixin class name {name}")
    return name[len("Mbi_"):]


def mid(name):
    c = ctor(name)
    if c not in MIXIN_IDS:
        raise Untranslatable(f"mixin class {name} is not modelled")
    return MIXIN_IDS.index(c) + 1


def dump():
    return vlib.run_impl("c01_impl.py", {"mode": "dump"}, timeout=600)


def compositions(d):
    """distinct (image_type, mixin tuple) in first-seen order; returns list, index map"""
    comps, idx = [], {}
    for fam in d["families"]:
        for cn, c in fam["classes"].items():
            if c["mixins"] != c["bases"]:
                raise Untranslatable(f"{fam['family']}.{cn}: base classes differ from the database mixin list")
            key = (c["image_type"], tuple(c["mixins"]))
            if key not in idx:
                idx[key] = len(comps)
                comps.append((key, c))
    return comps, idx


def render(d):
    out = ["(* GENERATED on every run by tools/regen_c01.py from the device database and spsdk/image/mbi/mbi_mixin.py",
           "   (through the real API) -- do not edit. *)",
           "From Coq Require Import ZArith NArith List Bool.", "Require Import MbiMixinModel.", "Import ListNotations.",
           "Local Open Scope Z_scope.", ""]
    out.append("(* ---- constants of the mixin classes ---- *)")
    for k in sorted(d["consts"]):
        out.append(f"Definition G_{k} : Z := {int(d['consts'][k])}.")
    out.append("")
    out.append("(* ---- per mixin class: attributes it contributes (NEEDED_MEMBERS / properties), PRE_PARSED contains cert_block,")
    out.append("        COUNT_IN_LEGACY_CERT_BLOCK_LEN, and for each stage the class that defines it (0 = only the root base) ---- *)")
    rows = []
    for name in sorted(d["mixins"], key=mid):
        m = d["mixins"][name]
        attrs = []
        for a in m["needed"]:
            if a in ATTR:
                attrs.append(ATTR[a])
            elif a not in IGNORED_MEMBERS:
                raise Untranslatable(f"{name}: unknown NEEDED_MEMBERS key {a}")
        for a in m["props"]:
            if a in ATTR:
                attrs.append(ATTR[a])
            elif a not in IGNORED_PROPS:
                raise Untranslatable(f"{name}: unknown property {a}")
        for p in m["pre_parsed"]:
            if p != "cert_block":
                raise Untranslatable(f"{name}: PRE_PARSED {p} is not modelled")
        owners = []
        for s in STAGES:
            o = m["owns"].get(s)
            owners.append(mid(o) if o else 0)
        rows.append(f"  ({ctor(name)}, ([{'; '.join(sorted(set(attrs)))}], ({str(bool(m['pre_parsed'])).lower()}, "
                    f"({str(m['legacy_len']).lower()}, [{'; '.join(str(x) for x in owners)}]))))")
    out.append("Definition gen_mixin_info : list (mixin * (list attr * (bool * (bool * list Z)))) := [")
    out.append(";\n".join(rows))
    out.append("].")
    out.append("")
    comps, idx = compositions(d)
    out.append(f"(* ---- {len(comps)} distinct compositions (image type, base classes after MasterBootImage) ---- *)")
    crow, rrow, hrow = [], [], []
    for (ty, mix), c in comps:
        crow.append(f"  {{| c_type := {ty}; c_mixins := [{'; '.join(ctor(m) for m in mix)}] |}}")
        rrow.append("  [" + "; ".join(str(mid(c["resolved"][s]) if c["resolved"].get(s) not in
                                         (None, "Mbi_Mixin", "Mbi_ExportMixin", "MasterBootImage") else 0) for s in STAGES) + "]")
        hs = []
        for a in c["hasattr"]:
            if a in ATTR:
                hs.append(ATTR[a])
        hrow.append("  [" + "; ".join(sorted(set(hs))) + "]")
    out.append("Definition gen_compositions : list mbi_class := [\n" + ";\n".join(crow) + "\n].")
    out.append("(* provider of every stage as Python's MRO resolves it on the created class (mixin id, 0 = root base) *)")
    out.append("Definition gen_resolved : list (list Z) := [\n" + ";\n".join(rrow) + "\n].")
    out.append("(* hasattr(cls, a) on the created class *)")
    out.append("Definition gen_hasattr : list (list attr) := [\n" + ";\n".join(hrow) + "\n].")
    out.append("")
    out.append("(* ---- families: (tz preset size in bytes, fixed_image_type or -1, offers in the order of the `images` map) ;")
    out.append("        offer = (target, (authentication, composition index)); target 0 xip 1 load_to_ram;")
    out.append("        authentication 0 plain 1 crc 2 signed 3 nxp_signed 4 encrypted ---- *)")
    frows = []
    nclasses = 0
    for fi, fam in enumerate(d["families"]):
        offs = []
        for t, a, cn in fam["offers"]:
            if t not in TARGETS or a not in AUTHS:
                raise Untranslatable(f"{fam['family']}: unknown target/authentication {t}/{a}")
            c = fam["classes"][cn]
            offs.append(f"({TARGETS.index(t)}, ({AUTHS.index(a)}, {idx[(c['image_type'], tuple(c['mixins']))]}))")
        nclasses += len(fam["classes"])
        frows.append(f"  (* {fi} {fam['family']} *) ({fam['tz_size']}, ({fam['fixed_image_type']}, [{'; '.join(offs)}]))")
    out.append("Definition gen_families : list (Z * (Z * list (Z * (Z * Z)))) := [\n" + ";\n".join(frows) + "\n].")
    out.append(f"Definition gen_n_classes : Z := {nclasses}.")
    out.append("")
    return "\n".join(out) + "\n"


def regen():
    d = dump()
    text = render(d)
    vlib.write_if_changed(os.path.join(vlib.COQ, "Gen", "GenMbi.v"), text)
    os.makedirs(os.path.join(vlib.WORK, "C01"), exist_ok=True)
    with open(os.path.join(vlib.WORK, "C01", "dump.json"), "w") as f:
        json.dump(d, f)
    return d


if __name__ == "__main__":
    d = regen()
    print(len(d["families"]), "families")
