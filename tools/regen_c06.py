"""T1 for C06: coq/Gen/GenAhab.v regenerated from the tree under test on every run.

Two sources, both fail-closed (any surprise raises, which the check turns into a broken obligation):
 * a PYTHONPATH=<repo> subprocess (tools/impl/c06_impl.py, mode "extract") reads the struct format strings, tags, versions,
   alignment constants of the AHAB classes and the per-family AHAB settings through spsdk.utils.database;
 * python `ast` over spsdk/image/ahab/ahab_container.py and ahab_iae.py extracts the table of range checks the verifier
   performs (record name, the attribute that is actually passed, bit width / bounds).
"""
import ast
import os
import struct
import sys

sys.path.insert(0, os.path.dirname(os.path.abspath(__file__)))
import vlib

HEADER = """(* GENERATED on every run by tools/regen_c06.py from spsdk/image/ahab/*.py (class constants, struct formats, the
   verifier's range-check calls) and the device database (AHAB feature of every family/revision) -- do not edit. *)
From Coq Require Import ZArith NArith List Bool.
Import ListNotations.
Local Open Scope Z_scope.

"""
TM_ORDER = ["serial_downloader", "nor", "nand_4k", "nand_2k", "standard"]       # tags 0..4 of AhabTargetMemory
# record name -> id, attribute expression -> field id (the natural pairing is id = id; the theorem checks it)
CONTAINER_NAMES = {"Flags": 0, "Flags: SRK Selection": 1, "Flags: SRK Revoke mask": 2, "SW version": 3, "Fuse version": 4,
                   "Signature Block offset": 5}
CONTAINER_FIELDS = {"flags": 0, "flag_used_srk_id": 1, "flag_srk_revoke_keys": 2, "sw_version": 3, "fuse_version": 4,
                    "_signature_block_offset": 5}
IAE_NAMES = {"Offset in container": 10, "Image Size [B]": 11, "Load address": 12, "Entry point": 13,
             "verify_flags/Range": 14, "verify_metadata/Range": 15}
IAE_FIELDS = {"_image_offset": 10, "image_size": 11, "load_address": 12, "entry_point": 13, "flags": 14, "image_meta_data": 15}
LAST = {}


def fmt_widths(fmt):
    """struct format string -> list of field widths in bytes (little endian, no padding)."""
    if not fmt.startswith("<"):
        raise ValueError(f"unexpected byte order in format {fmt!r}")
    out, num = [], ""
    for ch in fmt[1:]:
        if ch.isdigit():
            num += ch
            continue
        if ch == "s":
            out.append(int(num))
        elif ch in "BHLQ":
            out += [struct.calcsize("<" + ch)] * (int(num) if num else 1)
        else:
            raise ValueError(f"unsupported struct code {ch!r} in {fmt!r}")
        num = ""
    if sum(out) != struct.calcsize(fmt):
        raise ValueError(f"width mismatch for {fmt!r}")
    return out


def const_int(node):
    """Evaluate the small constant expressions used as bounds: ints, (1 << n) - 1, unary minus."""
    v = ast.literal_eval(ast.unparse(node)) if not isinstance(node, ast.BinOp) else eval(  # noqa: S307 (constants only)
        compile(ast.Expression(node), "<bound>", "eval"), {"__builtins__": {}}, {})
    if not isinstance(v, int):
        raise ValueError("non-integer bound")
    return v


def range_checks(path, cls_name, fn_name, names, fields):
    """(name id, field id, lo, hi) of every add_record_bit_range / add_record_range call inside cls_name.fn_name."""
    tree = ast.parse(open(path).read())
    cls = next(n for n in tree.body if isinstance(n, ast.ClassDef) and n.name == cls_name)
    fn = next(n for n in cls.body if isinstance(n, ast.FunctionDef) and n.name == fn_name)
    rows = []

    def visit(node, prefix):
        for ch in ast.iter_child_nodes(node):
            if isinstance(ch, ast.FunctionDef):
                visit(ch, ch.name + "/")
                continue
            if isinstance(ch, ast.Call) and isinstance(ch.func, ast.Attribute) and ch.func.attr in (
                    "add_record_bit_range", "add_record_range"):
                if not (ch.args and isinstance(ch.args[0], ast.Constant) and isinstance(ch.args[0].value, str)):
                    raise ValueError(f"{cls_name}.{fn_name}: range check with a computed name")
                nm = ch.args[0].value
                nm = prefix + nm if nm == "Range" else nm
                if nm not in names:
                    raise ValueError(f"{cls_name}.{fn_name}: unknown range check {nm!r}")
                val = ch.args[1] if len(ch.args) > 1 else next(k.value for k in ch.keywords if k.arg == "value")
                if not (isinstance(val, ast.Attribute) and isinstance(val.value, ast.Name) and val.value.id == "self"
                        and val.attr in fields):
                    raise ValueError(f"{cls_name}.{fn_name}: check {nm!r} is fed with {ast.unparse(val)!r}")
                kw = {k.arg: k.value for k in ch.keywords}
                if ch.func.attr == "add_record_bit_range":
                    bits = const_int(ch.args[2]) if len(ch.args) > 2 else (const_int(kw["bit_range"]) if "bit_range" in kw else 32)
                    lo, hi = 0, (1 << bits) - 1
                else:
                    lo = const_int(ch.args[2]) if len(ch.args) > 2 else (const_int(kw["min_val"]) if "min_val" in kw else 0)
                    hi = const_int(ch.args[3]) if len(ch.args) > 3 else (const_int(kw["max_val"]) if "max_val" in kw else (1 << 32) - 1)
                rows.append((names[nm], fields[val.attr], 0 if ch.func.attr == "add_record_bit_range" else 1, lo, hi))
            visit(ch, prefix)

    visit(fn, "")
    return rows


def zl(xs):
    return "[" + "; ".join(str(x) for x in xs) + "]"


def build():
    d = vlib.run_impl("c06_impl.py", {"mode": "extract"}, timeout=600)
    f, out = d["formats"], [HEADER]
    for v1, v2 in (("AHABContainer", "AHABContainerV2"), ("ImageArrayEntry", "ImageArrayEntryV2"),
                   ("SignatureBlock", "SignatureBlockV2"), ("SRKRecord", "SRKRecordV2"), ("SRKTable", "SRKTableV2")):
        if f[v1] != f[v2]:
            raise ValueError(f"format of {v1} and {v2} differ: the model assumes one layout")
    for name, cls in (("container", "AHABContainer"), ("iae", "ImageArrayEntry"), ("sigblock", "SignatureBlock"),
                      ("srk_record", "SRKRecord"), ("srk_table", "SRKTable"), ("srk_array", "SRKTableArray"),
                      ("srk_data", "SRKData"), ("signature", "ContainerSignature"), ("blob", "AhabBlob")):
        out.append(f"Definition gen_fmt_{name} : list Z := {zl(fmt_widths(f[cls]))}.   (* {f[cls]} *)\n")
    t, v = d["tags"], d["versions"]
    for name, cls in (("container", "AHABContainer"), ("sigblock", "SignatureBlock"), ("srk_record", "SRKRecord"),
                      ("srk_table", "SRKTable"), ("srk_array", "SRKTableArray"), ("srk_data", "SRKData"),
                      ("signature", "ContainerSignature"), ("blob", "AhabBlob")):
        out.append(f"Definition gen_tag_{name} : Z := {t[cls]}.\n")
    out.append(f"Definition gen_version_container (v2 : bool) : Z := if v2 then {v['AHABContainerV2']} else {v['AHABContainer']}.\n")
    out.append(f"Definition gen_version_sigblock (v2 : bool) : Z := if v2 then {v['SignatureBlockV2']} else {v['SignatureBlock']}.\n")
    out.append(f"Definition gen_version_srk_table (v2 : bool) : Z := if v2 then {v['SRKTableV2']} else {v['SRKTable']}.\n")
    for k in ("SRKTableArray", "SRKData", "ContainerSignature", "AhabBlob"):
        out.append(f"Definition gen_version_{k} : Z := {v[k]}.\n")
    c = d["container"]
    for a in ("CONTAINER_SIZE", "START_IMAGE_ADDRESS", "START_IMAGE_ADDRESS_NAND"):
        out.append(f"Definition gen_{a.lower()} (v2 : bool) : Z := if v2 then {c['v2'][a]} else {c['v1'][a]}.\n")
    for a in ("FLAGS_SRK_SET_OFFSET", "FLAGS_SRK_SET_SIZE", "FLAGS_USED_SRK_ID_OFFSET", "FLAGS_USED_SRK_ID_SIZE",
              "FLAGS_SRK_REVOKE_MASK_OFFSET", "FLAGS_SRK_REVOKE_MASK_SIZE", "FLAGS_GDET_ENABLE_OFFSET"):
        if c["v1"][a] != c["v2"][a]:
            raise ValueError(f"container {a} differs between versions")
        out.append(f"Definition gen_c_{a.lower()} : Z := {c['v1'][a]}.\n")
    i = d["iae"]
    for a in sorted(i["v1"]):
        out.append(f"Definition gen_i_{a.lower()} (v2 : bool) : Z := if v2 then {i['v2'][a]} else {i['v1'][a]}.\n")
    out.append(f"Definition gen_container_alignment : Z := {d['container_alignment']}.\n")
    if d["reserved"] != 0:
        raise ValueError("RESERVED is not 0")
    if d["target_memories"] != TM_ORDER:
        raise ValueError(f"target memory enumeration changed: {d['target_memories']}")
    al = d["binary_image_alignments"]
    out.append("(* BINARY_IMAGE_ALIGNMENTS by AhabTargetMemory tag: " + ", ".join(f"{k}={al[k]}" for k in TM_ORDER) + " *)\n")
    out.append("Definition gen_tm_align (tm : Z) : Z :=\n  " + " ".join(
        f"if tm =? {k} then {al[n]} else" for k, n in enumerate(TM_ORDER)) + " 0.\n")
    if d["srk_set"] != {"none": 0, "nxp": 1, "oem": 2}:
        raise ValueError("FlagsSrkSet changed")
    for k in ("SHA256", "SHA384", "SHA512"):
        if d["hash_v1"][k] != d["hash_v2"][k]:
            raise ValueError("hash tags differ between versions")
        out.append(f"Definition gen_hash_{k.lower()} : Z := {d['hash_v1'][k]}.\n")
    out.append(f"Definition gen_sign_rsa_pss : Z := {d['sign_v1']['RSA_PSS']}.\nDefinition gen_sign_ecdsa : Z := {d['sign_v1']['ECDSA']}.\n")
    s = d["srk"]
    out.append("Definition gen_key_sizes : list (Z * (Z * Z)) := [" + "; ".join(
        f"({k}, ({a}, {b}))" for k, (a, b) in sorted((int(k), v) for k, v in s["KEY_SIZES"].items())) + "].\n")
    out.append("Definition gen_rsa_key_type : list (Z * Z) := [" + "; ".join(
        f"({k}, {v})" for k, v in sorted((int(k), v) for k, v in s["RSA_KEY_TYPE"].items())) + "].\n")
    ecc = {"secp256r1": 256, "secp384r1": 384, "secp521r1": 521}
    out.append("Definition gen_ecc_key_type : list (Z * Z) := [" + "; ".join(
        f"({ecc[k]}, {v})" for k, v in sorted(s["ECC_KEY_TYPE"].items())) + "].\n")
    out.append(f"Definition gen_srk_flags_ca : Z := {s['FLAGS_CA_MASK']}.\nDefinition gen_srk_records_cnt : Z := {s['SRK_RECORDS_CNT']}.\n")
    if s["SRK_HASH_ALGORITHM"] != "sha256":
        raise ValueError("SRK table hash algorithm changed")
    out.append(f"Definition gen_blob_flags_dek : Z := {d['blob']['FLAGS_DEK']}.\nDefinition gen_blob_aes_cbc : Z := {d['blob']['AES_CBC']}.\n")
    # families: (max containers, max images, container types, minimal offset alignment, image size alignment, allow empty hash,
    #            (core id, image type) pairs whose image-type label is "ele")
    fams = []
    for r in d["families"]:
        for key in ("containers_max_cnt", "images_max_cnt", "valid_offset_minimal_alignment", "container_image_size_alignment"):
            if not isinstance(r[key], int) or r[key] < 1:
                raise ValueError(f"{r['family']}/{r['revision']}: {key} = {r[key]!r}")
        ele = []
        for core in sorted(r["core_ids"].values()):
            group = "application"
            for g, cores in r["image_types_mapping"].items():
                if core in cores:
                    group = g
            for label, tag in r["image_types"].get(group, {}).items():
                if label == "ele":
                    ele.append((core, tag))
        fams.append((r["family"], r["revision"], r["containers_max_cnt"], r["images_max_cnt"], r["container_types"],
                     r["valid_offset_minimal_alignment"], r["container_image_size_alignment"], r["allow_empty_hash"], ele))
    out.append("\nDefinition gen_family : Type := (Z * Z * list Z * Z * Z * bool * list (Z * Z))%type.\n")
    out.append("Definition gen_families : list gen_family := [\n" + ";\n".join(
        f"  ({m}, {im}, {zl(ct)}, {va}, {sa}, {'true' if eh else 'false'}, [" + "; ".join(f"({a}, {b})" for a, b in ele)
        + f"])   (* {k}: {fam} {rev} *)" for k, (fam, rev, m, im, ct, va, sa, eh, ele) in enumerate(fams)) + "\n].\n")
    # verifier range checks (ast)
    cont = range_checks(os.path.join(vlib.REPO, "spsdk/image/ahab/ahab_container.py"), "AHABContainerBase", "_verify",
                        CONTAINER_NAMES, CONTAINER_FIELDS)
    iae = range_checks(os.path.join(vlib.REPO, "spsdk/image/ahab/ahab_iae.py"), "ImageArrayEntry", "verify", IAE_NAMES, IAE_FIELDS)
    out.append("\n(* range checks of the verifier: (record name id, id of the attribute that is passed, kind 0 = bit range / 1 = range, lo, hi) *)\n")
    out.append("Definition gen_check : Type := (Z * Z * Z * Z * Z)%type.\n")
    for nm, rows in (("container", cont), ("iae", iae)):
        out.append(f"Definition gen_{nm}_checks : list gen_check := [" + "; ".join(
            f"({a}, {b}, {k}, {lo}, {hi})" for a, b, k, lo, hi in rows) + "].\n")
    LAST.clear()
    LAST.update({"families": [(f[0], f[1]) for f in fams], "fam_rows": fams, "extract": d})
    return "".join(out)


def regen():
    text = build()
    vlib.write_if_changed(os.path.join(vlib.COQ, "Gen", "GenAhab.v"), text)
    return text


if __name__ == "__main__":
    print(regen())
