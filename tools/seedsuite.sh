#!/bin/bash
# seedsuite.sh <dir with patch.diff> : run the full repository suite on a scratch worktree with the patch applied; print the baseline comparison
D=$(realpath $1)
WT=/tmp/seedsuite_$$
git -C /repo worktree add --detach $WT HEAD >/dev/null 2>&1 || exit 2
trap "git -C /repo worktree remove --force $WT >/dev/null 2>&1; rm -rf /verif/.work/ssuite_$$" EXIT
cp /repo/spsdk/__version__.py $WT/spsdk/
git -C $WT apply $D/patch.diff || { echo "$D: patch does not apply"; exit 2; }
export SPSDK_CACHE_FOLDER=$WT/.cache
echo "$D: $(N=${N:-6} /verif/tools/run_suite.sh $WT /verif/.work/ssuite_$$ | tail -1)"
