"""T1 for C15: layouts, version tables and database facts of the debug-authentication code -> coq/Gen/GenDat.v.

Read from vlib.REPO's *current* source on every run:
  * `ast` over spsdk/dat/debug_credential.py, dar_packet.py, dac_packet.py: the struct format of every
    export/_get_data_to_sign/parse (normalised to a list of items: u16 / u32 / bytes of a constant or of a named
    symbolic width), the order of the packed fields, the version tables, the RotMeta constants, the pieces a response
    is concatenated from;
  * the device database through the public API (tools/impl/c15_impl.py, mode "extract"): per family and revision
    SOCC / based_on_ele / ele_cnt_version / ..., per SOCC the family ambassador that DebugCredentialCertificate.parse uses.
Fail-closed: anything that is not in the expected shape raises Unextractable (reported as a broken `translate:` obligation).
"""
import ast
import os
import re
import sys

sys.path.insert(0, os.path.dirname(os.path.abspath(__file__)))
import vlib


class Unextractable(Exception):
    pass


# symbolic widths that may appear inside f"{...}s" of a format
SYMBOLS = {
    "key_size": 1, "signature_size": 2, "len(self.rot_meta)": 3, "self.rot_pub.coordinate_size * 2": 4,
    "self.dck_pub.coordinate_size * 2": 5, "len(self.signature)": 6, "len(self.export_dck_pub())": 7,
    "rot_meta.HASH_SIZE * 2": 8, "len(rot_pub.export())": 9, "rot_pub.signature_size": 10, "hash_length": 11,
}
# things that are packed / unpacked
FIELDS = {
    "self.version.major": 1, "self.version.minor": 2, "self.socc": 3, "self.uuid": 4, "self.rot_meta.export()": 5,
    "self.export_dck_pub()": 6, "self.cc_socu": 7, "self.cc_vu": 8, "self.cc_beacon": 9, "self.export_rot_pub()": 10,
    "self.signature": 11,
    # parse targets
    "_": 0, "version_major": 1, "version_minor": 2, "socc": 3, "uuid": 4, "rot_meta": 5, "dck_pub": 6, "cc_socu": 7,
    "cc_vu": 8, "cc_beacon": 9, "beacon": 9, "rot_pub": 10, "signature": 11,
    # response / challenge pieces
    "self.debug_credential.export()": 20, "self.auth_beacon": 21, "self.dac.uuid": 22, "self.dac.challenge": 23,
    "self._get_common_data()": 24, "self._get_signature()": 25,
    "rotid_rkh_revocation": 30, "rotid_rkth_hash": 31, "cc_soc_pinned": 32, "cc_soc_default": 33, "challenge": 34,
    "self.rotid_rkh_revocation": 30, "self.rotid_rkth_hash": 31, "self.cc_soc_pinned": 32, "self.cc_soc_default": 33,
    "self.challenge": 34,
}


def _cls(tree, name):
    for n in tree.body:
        if isinstance(n, ast.ClassDef) and n.name == name:
            return n
    raise Unextractable(f"class {name} not found")


def _fn(cls, name):
    for n in cls.body:
        if isinstance(n, ast.FunctionDef) and n.name == name:
            return n
    raise Unextractable(f"{cls.name}.{name} not found")


def _has_fn(cls, name):
    return any(isinstance(n, ast.FunctionDef) and n.name == name for n in cls.body)


def _const(node, what):
    try:
        return ast.literal_eval(node)
    except Exception as ex:  # noqa
        raise Unextractable(f"{what}: not a literal ({ast.unparse(node)})") from ex


def fmt_pieces(node):
    """Flatten a string expression built with + from literals and f-strings into a list of str / ('sym', text)."""
    if isinstance(node, ast.Constant) and isinstance(node.value, str):
        return [node.value]
    if isinstance(node, ast.BinOp) and isinstance(node.op, ast.Add):
        return fmt_pieces(node.left) + fmt_pieces(node.right)
    if isinstance(node, ast.JoinedStr):
        out = []
        for v in node.values:
            if isinstance(v, ast.Constant):
                out.append(v.value)
            elif isinstance(v, ast.FormattedValue) and v.format_spec is None and v.conversion == -1:
                out.append(("sym", ast.unparse(v.value)))
            else:
                raise Unextractable("format: unsupported f-string part " + ast.unparse(node))
        return out
    raise Unextractable("format: unsupported expression " + ast.unparse(node))


def norm_format(pieces, what):
    """'<2HL16s' + ('sym','key_size') + 's' ... -> [(kind, arg)]  kind 0 u16, 1 u32, 2 bytes(const), 3 bytes(symbol)."""
    toks = []
    for p in pieces:
        if isinstance(p, tuple):
            toks.append(p)
        else:
            toks += list(p)
    if not toks or toks[0] != "<":
        raise Unextractable(f"{what}: format does not start with '<'")
    items, i = [], 1
    while i < len(toks):
        t = toks[i]
        if isinstance(t, tuple):
            if t[1] not in SYMBOLS:
                raise Unextractable(f"{what}: unknown symbolic width {t[1]!r}")
            if i + 1 >= len(toks) or toks[i + 1] != "s":
                raise Unextractable(f"{what}: symbolic count not followed by 's'")
            items.append((3, SYMBOLS[t[1]]))
            i += 2
            continue
        num = ""
        while i < len(toks) and isinstance(toks[i], str) and toks[i].isdigit():
            num += toks[i]
            i += 1
        if i >= len(toks) or isinstance(toks[i], tuple):
            raise Unextractable(f"{what}: dangling count")
        c = toks[i]
        i += 1
        cnt = int(num) if num else 1
        if c == "s":
            items.append((2, cnt))
        elif c == "H":
            items += [(0, 0)] * cnt
        elif c in "LI":
            items += [(1, 0)] * cnt
        else:
            raise Unextractable(f"{what}: unsupported format character {c!r}")
    return items


def data_format(fn, what):
    """get_data_format-like function: `data_format = <expr>`, optional `if include_signature: ... data_format += <expr>`,
    `return data_format`.  Returns (items_without_signature, signature_items)."""
    base, sig = None, []
    for st in fn.body:
        if isinstance(st, ast.Assign) and len(st.targets) == 1 and isinstance(st.targets[0], ast.Name) \
                and st.targets[0].id == "data_format":
            base = fmt_pieces(st.value)
        elif isinstance(st, ast.If) and ast.unparse(st.test) == "include_signature":
            for s2 in st.body:
                if isinstance(s2, ast.AugAssign) and isinstance(s2.op, ast.Add) and ast.unparse(s2.target) == "data_format":
                    sig += fmt_pieces(s2.value)
    if base is None:
        raise Unextractable(f"{what}: no data_format assignment")
    full = norm_format(base + sig, what)
    nosig = norm_format(base, what)
    if full[:len(nosig)] != nosig:
        raise Unextractable(f"{what}: signature is not appended at the end")
    return nosig, full[len(nosig):]


def dict_in(fn, var, what):
    """`var = {..}[...]` inside fn -> the literal dict"""
    for n in ast.walk(fn):
        if isinstance(n, ast.Assign) and len(n.targets) == 1 and ast.unparse(n.targets[0]) == var \
                and isinstance(n.value, ast.Subscript) and isinstance(n.value.value, ast.Dict):
            return _const(n.value.value, what)
    raise Unextractable(f"{what}: dict for {var} not found")


def pack_args(fn, what):
    """the single `pack(fmt, a, b, ...)` call of fn -> ([field ids], format-call text)"""
    calls = [n for n in ast.walk(fn) if isinstance(n, ast.Call) and ast.unparse(n.func) == "pack"]
    if len(calls) != 1:
        raise Unextractable(f"{what}: expected exactly one pack() call")
    args = [ast.unparse(a) for a in calls[0].args[1:]]
    for a in args:
        if a not in FIELDS:
            raise Unextractable(f"{what}: unknown packed expression {a!r}")
    return [FIELDS[a] for a in args], ast.unparse(calls[0].args[0])


def unpack_targets(fn, what, nth=0):
    """targets of the nth `(a, b, ...) = unpack_from(fmt, data ...)` in fn"""
    hits = []
    for n in ast.walk(fn):
        if isinstance(n, ast.Assign) and isinstance(n.value, ast.Call) and ast.unparse(n.value.func) == "unpack_from" \
                and isinstance(n.targets[0], ast.Tuple):
            hits.append(n)
    hits.sort(key=lambda n: n.lineno)
    if nth >= len(hits):
        raise Unextractable(f"{what}: unpack_from #{nth} not found")
    names = [ast.unparse(e) for e in hits[nth].targets[0].elts]
    for a in names:
        if a not in FIELDS:
            raise Unextractable(f"{what}: unknown unpack target {a!r}")
    return [FIELDS[a] for a in names], hits[nth].value


def local_format(fn, var, what):
    for n in ast.walk(fn):
        if isinstance(n, ast.Assign) and len(n.targets) == 1 and ast.unparse(n.targets[0]) == var:
            return norm_format(fmt_pieces(n.value), what)
    raise Unextractable(f"{what}: {var} not found")


def concat_sequence(fn, what):
    """`data = X` / `data += Y` ... `return data`  -> [ids]; a pack('<fmt', v) piece is (id, fmt items)"""
    seq = []
    for st in fn.body:
        if isinstance(st, ast.Expr) and isinstance(st.value, ast.Constant):
            continue
        if isinstance(st, ast.Assign) and ast.unparse(st.targets[0]) == "data":
            seq = [st.value]
        elif isinstance(st, ast.AugAssign) and isinstance(st.op, ast.Add) and ast.unparse(st.target) == "data":
            seq.append(st.value)
        elif isinstance(st, ast.Return) and ast.unparse(st.value) == "data":
            break
        else:
            raise Unextractable(f"{what}: unexpected statement {ast.unparse(st)[:60]!r}")
    out = []
    for e in seq:
        if isinstance(e, ast.Call) and ast.unparse(e.func) == "pack":
            f = norm_format(fmt_pieces(e.args[0]), what)
            vs = [ast.unparse(a) for a in e.args[1:]]
            if len(f) != 1 or len(vs) != 1 or vs[0] not in FIELDS:
                raise Unextractable(f"{what}: unsupported pack piece {ast.unparse(e)!r}")
            out.append((FIELDS[vs[0]], f[0]))
        else:
            t = ast.unparse(e)
            if t not in FIELDS:
                raise Unextractable(f"{what}: unknown piece {t!r}")
            out.append((FIELDS[t], (9, 0)))          # kind 9: raw bytes as they are
    return out


def nl(xs):
    return "[" + "; ".join(str(int(x)) for x in xs) + "]"


def pl(xs):
    return "[" + "; ".join(f"({int(a)}, {int(b)})" for a, b in xs) + "]"


def name_lit(s):
    return nl(ord(c) for c in s)


def extract_source():
    base = os.path.join(vlib.REPO, "spsdk", "dat")
    dc = ast.parse(open(os.path.join(base, "debug_credential.py")).read())
    dar = ast.parse(open(os.path.join(base, "dar_packet.py")).read())
    dac = ast.parse(open(os.path.join(base, "dac_packet.py")).read())
    G = {}
    # ---- ProtocolVersion
    pv = _cls(dc, "ProtocolVersion")
    vers = None
    for n in pv.body:
        if isinstance(n, ast.Assign) and ast.unparse(n.targets[0]) == "VERSIONS":
            vers = _const(n.value, "VERSIONS")
    if not vers or not all(re.fullmatch(r"\d+\.\d+", v) for v in vers):
        raise Unextractable("ProtocolVersion.VERSIONS")
    G["versions"] = [tuple(int(x) for x in v.split(".")) for v in vers]
    fpk = _fn(pv, "from_public_key")
    tabs = []
    for n in ast.walk(fpk):
        if isinstance(n, ast.If) and isinstance(n.test, ast.Call) and ast.unparse(n.test.func) == "isinstance":
            kind = ast.unparse(n.test.args[1])
            d = dict_in(n, "minor", "from_public_key")
            major = [_const(k.value, "major") for c in ast.walk(n) if isinstance(c, ast.Call) for k in c.keywords if k.arg == "major"]
            if len(major) != 1:
                raise Unextractable("from_public_key: major")
            tabs.append((kind, major[0], d))
    kinds = {k: (m, d) for k, m, d in tabs}
    if set(kinds) != {"PublicKeyRsa", "PublicKeyEcc"}:
        raise Unextractable("from_public_key: key classes")
    G["ver_rsa"] = kinds["PublicKeyRsa"]
    G["ver_ecc"] = kinds["PublicKeyEcc"]
    is_rsa = ast.unparse(_fn(pv, "is_rsa").body[-1].value)
    m = re.fullmatch(r"self\.major == (\d+)", is_rsa)
    if not m:
        raise Unextractable("ProtocolVersion.is_rsa")
    G["rsa_major"] = int(m.group(1))
    # ---- RSA credential
    rsa = _cls(dc, "DebugCredentialCertificateRsa")
    gdf = _fn(rsa, "get_data_format")
    G["rsa_fmt"], G["rsa_sig_fmt"] = data_format(gdf, "Rsa.get_data_format")
    G["rsa_key_size"] = dict_in(gdf, "key_size", "Rsa key_size")
    G["rsa_sig_size"] = dict_in(gdf, "signature_size", "Rsa signature_size")
    G["rsa_export"], f1 = pack_args(_fn(rsa, "export"), "Rsa.export")
    G["rsa_tbs"], f2 = pack_args(_fn(rsa, "_get_data_to_sign"), "Rsa._get_data_to_sign")
    if f1 != "self.get_data_format(self.version)" or f2 != "self.get_data_format(self.version, include_signature=False)":
        raise Unextractable("Rsa.export/_get_data_to_sign: format argument")
    G["rsa_parse"], call = unpack_targets(_fn(rsa, "parse"), "Rsa.parse")
    if ast.unparse(call.args[0]) != "cls.get_data_format(version)" or len(call.args) != 2:
        raise Unextractable("Rsa.parse: unpack_from arguments")
    exp_len = {}
    for nm in ("export_rot_pub", "export_dck_pub"):
        r = _fn(rsa, nm).body[-1]
        mm = re.fullmatch(r"self\.(rot|dck)_pub\.export\(exp_length=(\d+)\)", ast.unparse(r.value))
        if not mm:
            raise Unextractable("Rsa." + nm)
        exp_len[nm] = int(mm.group(2))
    G["rsa_exp_len"] = (exp_len["export_rot_pub"], exp_len["export_dck_pub"])
    # ---- ECC credential
    ecc = _cls(dc, "DebugCredentialCertificateEcc")
    cs = None
    for n in ecc.body:
        if isinstance(n, ast.Assign) and ast.unparse(n.targets[0]) == "COORDINATE_SIZE":
            cs = _const(n.value, "COORDINATE_SIZE")
    if not cs:
        raise Unextractable("Ecc.COORDINATE_SIZE")
    G["ecc_coord"] = cs
    G["ecc_fmt"], G["ecc_sig_fmt"] = data_format(_fn(ecc, "get_data_format"), "Ecc.get_data_format")
    G["ecc_export"], f1 = pack_args(_fn(ecc, "export"), "Ecc.export")
    G["ecc_tbs"], f2 = pack_args(_fn(ecc, "_get_data_to_sign"), "Ecc._get_data_to_sign")
    if f1 != "self.get_data_format()" or f2 != "self.get_data_format(include_signature=False)":
        raise Unextractable("Ecc.export/_get_data_to_sign: format argument")
    ep = _fn(ecc, "parse")
    G["ecc_head_fmt"] = local_format(ep, "format_head", "Ecc.parse head")
    G["ecc_tail_fmt"] = local_format(ep, "format_tail", "Ecc.parse tail")
    G["ecc_parse_head"], c1 = unpack_targets(ep, "Ecc.parse", 0)
    G["ecc_parse_tail"], c2 = unpack_targets(ep, "Ecc.parse", 1)
    if [ast.unparse(a) for a in c1.args] != ["format_head", "data"] or \
            [ast.unparse(a) for a in c2.args] != ["format_tail", "data", "calcsize(format_head) + len(rot_meta)"]:
        raise Unextractable("Ecc.parse: unpack_from arguments")
    for nm, want in (("export_rot_pub", "self.rot_pub.export()"), ("export_dck_pub", "self.dck_pub.export()")):
        if ast.unparse(_fn(ecc, nm).body[-1].value) != want:
            raise Unextractable("Ecc." + nm)
    # ---- EdgeLock enclave (container version 1) credential
    ele = _cls(dc, "DebugCredentialEdgeLockEnclave")
    if [ast.unparse(b) for b in ele.bases] != ["DebugCredentialCertificateEcc"]:
        raise Unextractable("DebugCredentialEdgeLockEnclave bases")
    G["ele_fmt"], G["ele_sig_fmt"] = data_format(_fn(ele, "get_data_format"), "Ele.get_data_format")
    G["ele_export"], f1 = pack_args(_fn(ele, "export"), "Ele.export")
    G["ele_tbs"], f2 = pack_args(_fn(ele, "_get_data_to_sign"), "Ele._get_data_to_sign")
    if f1 != "self.get_data_format()" or f2 != "self.get_data_format(include_signature=False)":
        raise Unextractable("Ele.export/_get_data_to_sign: format argument")
    lp = _fn(ele, "parse")
    G["ele_head_fmt"] = local_format(lp, "format_head", "Ele.parse head")
    G["ele_tail_fmt"] = local_format(lp, "format_tail", "Ele.parse tail")
    G["ele_parse_head"], c1 = unpack_targets(lp, "Ele.parse", 0)
    G["ele_parse_tail"], c2 = unpack_targets(lp, "Ele.parse", 1)
    if [ast.unparse(a) for a in c2.args] != ["format_tail", "data", "calcsize(format_head) + len(rot_meta)"]:
        raise Unextractable("Ele.parse: unpack_from arguments")
    if _has_fn(ele, "export_dck_pub") or _has_fn(ele, "export_rot_pub"):
        raise Unextractable("Ele overrides a key export")
    # ---- RotMeta
    rm = _cls(dc, "RotMetaRSA")
    src = ast.unparse(rm)
    need = ["len(data) < 128", "range(0, 4)", "data[index * 32:(index + 1) * 32]", "bytearray(128)",
            "rot_meta[index * 32:(index + 1) * 32] = rot_item", "len(rot_pub_keys) > 4", "rot.export(exp_length=3)",
            "get_hash(data=self.export())", "get_hash(data)"]
    for s in need:
        if s not in src:
            raise Unextractable(f"RotMetaRSA: expected fragment {s!r} not found")
    G["rsa_meta"] = (128, 4, 32, 3)
    fl = ast.unparse(_cls(dc, "RotMetaFlags"))
    need = ["self.cnt_root_cert > 4", "self.used_root_cert + 1 > self.cnt_root_cert", "len(data) != 4",
            "not flags & 1 << 31", "flags >> 8 & 15", "flags >> 4 & 15", "flags |= 1 << 31",
            "flags |= self.used_root_cert << 8", "flags |= self.cnt_root_cert << 4", "pack('<L', flags)"]
    for s in need:
        if s not in fl:
            raise Unextractable(f"RotMetaFlags: expected fragment {s!r} not found")
    G["flags"] = (31, 8, 4, 15, 4)
    re_ = _cls(dc, "RotMetaEcc")
    hs = None
    for n in re_.body:
        if isinstance(n, ast.Assign) and ast.unparse(n.targets[0]) == "HASH_SIZES":
            hs = _const(n.value, "HASH_SIZES")
    if not hs:
        raise Unextractable("RotMetaEcc.HASH_SIZES")
    G["hash_sizes"] = hs
    src = ast.unparse(re_)
    need = ["RotMetaFlags.parse(data[:4])", "crt_table = data[4:]", "flags.cnt_root_cert > 1",
            "crt_table[rot_item_idx * cls.HASH_SIZE:(rot_item_idx + 1) * cls.HASH_SIZE]",
            "len(self.rot_items) > 1", "self.flags.export() + self.export_crtk_table()", "len(rot_pub_keys) > 1",
            "(len(self) - len(self.flags)) // self.flags.cnt_root_cert"]
    for s in need:
        if s not in src:
            raise Unextractable(f"RotMetaEcc: expected fragment {s!r} not found")
    src = ast.unparse(_cls(dc, "RotMetaEdgeLockEnclave"))
    need = ["RotMetaFlags.parse(data[:4])", "SRKTable.parse(data[4:])", "srk_table.verify().validate()",
            "len(rot_pub_keys) != 4", "self.flags.export() + self.srk_table.export()"]
    for s in need:
        if s not in src:
            raise Unextractable(f"RotMetaEdgeLockEnclave: expected fragment {s!r} not found")
    # ---- response
    base_dar = _cls(dar, "DebugAuthenticateResponse")
    G["dar_common"] = concat_sequence(_fn(base_dar, "_get_common_data"), "DAR._get_common_data")
    G["dar_tbs"] = concat_sequence(_fn(base_dar, "_get_data_for_signature"), "DAR._get_data_for_signature")
    G["dar_export"] = concat_sequence(_fn(base_dar, "export"), "DAR.export")
    ecc_dar = _cls(dar, "DebugAuthenticateResponseECC")
    G["dar_common_ecc"] = concat_sequence(_fn(ecc_dar, "_get_common_data"), "DAR ECC._get_common_data")
    for c in (ecc_dar,):
        if _has_fn(c, "export") or _has_fn(c, "_get_data_for_signature") or _has_fn(c, "_get_signature"):
            raise Unextractable("DebugAuthenticateResponseECC overrides export/_get_data_for_signature")
    sigsrc = ast.unparse(_fn(base_dar, "_get_signature"))
    if "self.sign_provider.sign(self._get_data_for_signature())" not in sigsrc:
        raise Unextractable("DAR._get_signature does not sign _get_data_for_signature()")
    vm = None
    for n in dar.body:
        if isinstance(n, ast.Assign) and ast.unparse(n.targets[0]) == "_version_mapping" and isinstance(n.value, ast.Dict):
            vm = {_const(k, "vm"): ast.unparse(v) for k, v in zip(n.value.keys, n.value.values)}
    if not vm:
        raise Unextractable("_version_mapping")
    classes = {c.name: c for c in dar.body if isinstance(c, ast.ClassDef)}

    def uses_uuid(name):
        c = classes[name]
        while True:
            if _has_fn(c, "_get_common_data") or _has_fn(c, "export") or _has_fn(c, "_get_data_for_signature"):
                if c.name == "DebugAuthenticateResponseECC":
                    return 1
                if c.name == "DebugAuthenticateResponse":
                    return 0
                raise Unextractable(f"{c.name} overrides response assembly")
            b = [ast.unparse(x) for x in c.bases]
            if len(b) != 1 or b[0] not in classes:
                raise Unextractable(f"{c.name}: bases")
            c = classes[b[0]]
    G["dar_versions"] = sorted((tuple(int(x) for x in k.split(".")), uses_uuid(v)) for k, v in vm.items())
    # ---- challenge
    ch = _cls(dac, "DebugAuthenticationChallenge")
    cp = _fn(ch, "parse")
    G["dac_head_fmt"] = local_format(cp, "format_head", "DAC.parse head")
    G["dac_tail_fmt"] = local_format(cp, "format_tail", "DAC.parse tail")
    G["dac_parse_head"], _c = unpack_targets(cp, "DAC.parse", 0)
    G["dac_parse_tail"], _c = unpack_targets(cp, "DAC.parse", 1)
    src = ast.unparse(_fn(ch, "get_rot_hash_length"))
    want = ("if based_on_ele:\n        return 32" in src and "if major_ver == 2 and (not dat_is_using_sha256_always):" in src
            and "if minor_ver == 1:\n            return 48" in src and "if minor_ver == 2:\n            return 64" in src
            and src.rstrip().endswith("return 32"))
    if not want:
        raise Unextractable("DAC.get_rot_hash_length: unexpected shape")
    G["dac_hash_len"] = (32, 48, 64)
    return G


def regen():
    G = extract_source()
    db = vlib.run_impl("c15_impl.py", {"mode": "extract"}, timeout=900)
    L = []
    A = L.append
    A("(* GENERATED on every run by tools/regen_c15.py from spsdk/dat/{debug_credential,dar_packet,dac_packet}.py and the "
      "device database -- do not edit.\n   format items: (0,0) u16 | (1,0) u32 | (2,n) n bytes | (3,s) bytes of symbolic width s "
      "| (9,0) raw bytes *)")
    A("From Coq Require Import ZArith NArith List.\nImport ListNotations.\nLocal Open Scope N_scope.\n")
    A(f"Definition g_versions : list (N * N) := {pl(G['versions'])}.")
    A(f"Definition g_rsa_major : N := {G['rsa_major']}.")
    A(f"Definition g_ver_rsa_major : N := {G['ver_rsa'][0]}.")
    A(f"Definition g_ver_rsa_minor : list (N * N) := {pl(sorted(G['ver_rsa'][1].items()))}.")
    A(f"Definition g_ver_ecc_major : N := {G['ver_ecc'][0]}.")
    A(f"Definition g_ver_ecc_minor : list (N * N) := {pl(sorted(G['ver_ecc'][1].items()))}.")
    for k in ("rsa_fmt", "rsa_sig_fmt", "ecc_fmt", "ecc_sig_fmt", "ecc_head_fmt", "ecc_tail_fmt", "ele_fmt", "ele_sig_fmt",
              "ele_head_fmt", "ele_tail_fmt", "dac_head_fmt", "dac_tail_fmt"):
        A(f"Definition g_{k} : list (N * N) := {pl(G[k])}.")
    for k in ("rsa_export", "rsa_tbs", "rsa_parse", "ecc_export", "ecc_tbs", "ecc_parse_head", "ecc_parse_tail",
              "ele_export", "ele_tbs", "ele_parse_head", "ele_parse_tail", "dac_parse_head", "dac_parse_tail"):
        A(f"Definition g_{k}_fields : list N := {nl(G[k])}.")
    A(f"Definition g_rsa_key_size : list (N * N) := {pl(sorted(G['rsa_key_size'].items()))}.")
    A(f"Definition g_rsa_sig_size : list (N * N) := {pl(sorted(G['rsa_sig_size'].items()))}.")
    A(f"Definition g_rsa_exp_len : N * N := ({G['rsa_exp_len'][0]}, {G['rsa_exp_len'][1]}).")
    A(f"Definition g_ecc_coord : list (N * N) := {pl(sorted(G['ecc_coord'].items()))}.")
    A(f"Definition g_hash_sizes : list (N * N) := {pl(sorted(G['hash_sizes'].items()))}.")
    A(f"Definition g_rsa_meta : N * N * N * N := ({', '.join(str(x) for x in G['rsa_meta'])}).")
    A(f"Definition g_flags : N * N * N * N * N := ({', '.join(str(x) for x in G['flags'])}).")
    for k in ("dar_common", "dar_tbs", "dar_export", "dar_common_ecc"):
        A(f"Definition g_{k} : list (N * (N * N)) := [" + "; ".join(f"({i}, ({a}, {b}))" for i, (a, b) in G[k]) + "].")
    A("Definition g_dar_versions : list (N * N * N) := [" + "; ".join(f"({a}, {b}, {u})" for (a, b), u in G["dar_versions"]) + "].")
    A(f"Definition g_dac_hash_len : N * N * N := ({', '.join(str(x) for x in G['dac_hash_len'])}).")
    # database: (socc, (ele, cnt_version, sha256_always, swapped))
    soccs = sorted(db["soccs"], key=lambda r: r["socc"])
    A("(* per SOCC, the facts of the family ambassador (the family DebugCredentialCertificate.parse / DAC.parse consult): "
      "(socc, (based_on_ele, ele_cnt_version, dat_is_using_sha256_always, dac_version_is_swapped)) *)")
    A("Definition g_socc_table : list (N * (N * N * N * N)) := [" + "; ".join(
        f"({r['socc']}, ({int(r['ele'])}, {r['cnt']}, {int(r['sha256'])}, {int(r['swapped'])}))" for r in soccs) + "].")
    A("(* per family and revision: (socc, (based_on_ele, ele_cnt_version, pss_padding)) -- names are kept in the check *)")
    fams = sorted(db["families"], key=lambda r: (r["family"], r["revision"]))
    A("Definition g_family_table : list (N * (N * N * N)) := [" + "; ".join(
        f"({r['socc']}, ({int(r['ele'])}, {r['cnt']}, {int(r['pss'])}))" for r in fams) + "].")
    text = "\n".join(L) + "\n"
    vlib.write_if_changed(os.path.join(vlib.COQ, "Gen", "GenDat.v"), text)
    return {"source": G, "db": db}


if __name__ == "__main__":
    r = regen()
    print(open(os.path.join(vlib.COQ, "Gen", "GenDat.v")).read())
