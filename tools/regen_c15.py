"""T1 for C15: layouts, version tables and database facts of the debug-authentication code -> coq/Gen/GenDat.v.

Everything is read from vlib.REPO's *current* code on every run, through the implementation subprocess
(tools/impl/c15_impl.py, mode "extract"), i.e. from what the code *computes*, not from how it is spelled:
  * ProtocolVersion.VERSIONS / from_public_key / is_rsa evaluated on keys of every supported size,
  * the struct format strings returned by the public get_data_format() of every credential class (RSA: class method per
    version; ECC / EdgeLock: on credentials created from the test key pool), normalised to item lists,
  * COORDINATE_SIZE, RotMetaEcc.HASH_SIZES, the response class per protocol version (and whether it adds the uuid),
  * the device database through its API: per family/revision SOCC / based_on_ele / ele_cnt_version / pss_padding, per SOCC
    the facts of the family ambassador that DebugCredentialCertificate.parse and DebugAuthenticationChallenge.parse consult.
Renaming locals or re-arranging statements does not disturb it; a changed format, table or database entry changes
GenDat.v, and the `*_from_source` Examples of Model/DatModel.v (reflexivity) stop compiling.
Fail-closed: a missing attribute / unparsable format raises Unextractable (reported as a broken `translate:` obligation).
"""
import os
import re
import sys

sys.path.insert(0, os.path.dirname(os.path.abspath(__file__)))
sys.path.insert(0, os.path.join(os.path.dirname(os.path.abspath(__file__)), "props"))
import vlib


class Unextractable(Exception):
    pass


def norm_format(fmt, what):
    """'<2HL16s128s260sLLL260s' -> [(kind, arg)]: (0,0) u16, (1,0) u32, (2,n) n bytes"""
    if not isinstance(fmt, str) or not fmt.startswith("<"):
        raise Unextractable(f"{what}: format {fmt!r} is not little-endian standard size")
    items = []
    for num, c in re.findall(r"(\d*)([A-Za-z?])", fmt[1:]):
        cnt = int(num) if num else 1
        if c == "s":
            items.append((2, cnt))
        elif c == "H":
            items += [(0, 0)] * cnt
        elif c in "LI":
            items += [(1, 0)] * cnt
        elif c == "B":
            items += [(4, 0)] * cnt
        else:
            raise Unextractable(f"{what}: unsupported format character {c!r} in {fmt!r}")
    if "".join(f"{n}{c}" for n, c in re.findall(r"(\d*)([A-Za-z?])", fmt[1:])) != fmt[1:]:
        raise Unextractable(f"{what}: cannot tokenise {fmt!r}")
    return items


def nl(xs):
    return "[" + "; ".join(str(int(x)) for x in xs) + "]"


def pl(xs):
    return "[" + "; ".join(f"({int(a)}, {int(b)})" for a, b in xs) + "]"


def regen():
    import c15_keys
    keydir = os.path.join(vlib.WORK, "C15", "keys")
    c15_keys.load_pool(keydir)
    db = vlib.run_impl("c15_impl.py", {"mode": "extract", "keydir": keydir}, timeout=900)
    S = db["source"]
    L = []
    A = L.append
    A("(* GENERATED on every run by tools/regen_c15.py from what spsdk/dat/{debug_credential,dar_packet,dac_packet}.py compute "
      "and from the device database -- do not edit.\n   format items: (0,0) u16 | (1,0) u32 | (2,n) n bytes *)")
    A("From Coq Require Import ZArith NArith List.\nImport ListNotations.\nLocal Open Scope N_scope.\n")
    vers = [tuple(int(x) for x in v.split(".")) for v in S["versions"]]
    if not vers or any(len(v) != 2 for v in vers):
        raise Unextractable("ProtocolVersion.VERSIONS")
    A(f"Definition g_versions : list (N * N) := {pl(vers)}.")
    rsa_majors = sorted({v[0] for v, r in zip(vers, S["is_rsa"]) if r})
    if len(rsa_majors) != 1:
        raise Unextractable("ProtocolVersion.is_rsa: not exactly one RSA major version")
    A(f"Definition g_rsa_major : N := {rsa_majors[0]}.")
    for kind in ("rsa", "ecc"):
        tab = {int(k): tuple(v) for k, v in S["version_of_" + kind].items()}
        majors = sorted({v[0] for v in tab.values()})
        if len(majors) != 1:
            raise Unextractable(f"from_public_key({kind}): majors {majors}")
        A(f"Definition g_ver_{kind}_major : N := {majors[0]}.")
        A(f"Definition g_ver_{kind}_minor : list (N * N) := {pl(sorted((k, v[1]) for k, v in tab.items()))}.")
    # RSA credential: one format per protocol version, with and without signature
    ks, sg = {}, {}
    for v, (f_sig, f_nosig) in sorted(S["rsa_formats"].items()):
        mi = int(v.split(".")[1])
        a, b = norm_format(f_sig, "Rsa.get_data_format"), norm_format(f_nosig, "Rsa.get_data_format")
        if a[:len(b)] != b or len(a) != len(b) + 1 or a[-1][0] != 2:
            raise Unextractable("Rsa.get_data_format: the signature is not one trailing bytes field")
        A(f"Definition g_rsa_fmt_{mi} : list (N * N) := {pl(a)}.")
        if len(b) != 10 or b[5][0] != 2 or b[9] != b[5]:
            raise Unextractable("Rsa.get_data_format: unexpected number of fields")
        ks[mi], sg[mi] = b[5][1], a[-1][1]
    A(f"Definition g_rsa_key_size : list (N * N) := {pl(sorted(ks.items()))}.")
    A(f"Definition g_rsa_sig_size : list (N * N) := {pl(sorted(sg.items()))}.")
    A(f"Definition g_rsa_exp_len : N * N := ({S['rsa_exp_len'][0]}, {S['rsa_exp_len'][1]}).")
    # ECC / EdgeLock credentials: formats of instances made from the key pool: (curve bits | rsa bits, n keys, format)
    for name in ("ecc", "ele"):
        rows = []
        for r in S[name + "_formats"]:
            rows.append((r["bits"], r["n"], norm_format(r["with_sig"], name), norm_format(r["without_sig"], name)))
            if rows[-1][2][:len(rows[-1][3])] != rows[-1][3] or len(rows[-1][2]) != len(rows[-1][3]) + 1:
                raise Unextractable(f"{name}.get_data_format: the signature is not one trailing bytes field")
        A(f"Definition g_{name}_fmt_inst : list (N * N * list (N * N)) := [" +
          "; ".join(f"({b}, {n}, {pl(f)})" for b, n, f, _ in sorted(rows)) + "].")
    A(f"Definition g_ecc_coord : list (N * N) := {pl(sorted((int(k), v) for k, v in S['coordinate_size'].items()))}.")
    A(f"Definition g_hash_sizes : list (N * N) := {pl(sorted((int(k), v) for k, v in S['hash_sizes'].items()))}.")
    dv = sorted((tuple(int(x) for x in k.split(".")), int(u)) for k, u in S["dar_versions"].items())
    A("Definition g_dar_versions : list (N * N * N) := [" + "; ".join(f"({a}, {b}, {u})" for (a, b), u in dv) + "].")
    soccs = sorted(db["soccs"], key=lambda r: r["socc"])
    A("(* per SOCC, the facts of the family ambassador (the family DebugCredentialCertificate.parse / DAC.parse consult): "
      "(socc, (based_on_ele, ele_cnt_version, dat_is_using_sha256_always, dac_version_is_swapped)) *)")
    A("Definition g_socc_table : list (N * (N * N * N * N)) := [" + "; ".join(
        f"({r['socc']}, ({int(r['ele'])}, {r['cnt']}, {int(r['sha256'])}, {int(r['swapped'])}))" for r in soccs) + "].")
    A("(* per family and revision: (socc, (based_on_ele, ele_cnt_version, pss_padding)) -- names are kept in the check *)")
    fams = sorted(db["families"], key=lambda r: (r["family"], r["revision"]))
    A("Definition g_family_table : list (N * (N * N * N)) := [" + "; ".join(
        f"({r['socc']}, ({int(r['ele'])}, {r['cnt']}, {int(r['pss'])}))" for r in fams) + "].")
    text = "\n".join(L) + "\n"
    vlib.write_if_changed(os.path.join(vlib.COQ, "Gen", "GenDatV2.v"), gen_v2(S.get("v2")))
    vlib.write_if_changed(os.path.join(vlib.COQ, "Gen", "GenDat.v"), text)
    return {"db": db}


CURVE_BITS = {"secp256r1": 256, "secp384r1": 384, "secp521r1": 521}


def gen_v2(V):
    """EdgeLock container version 2 (AHAB certificate, SRK record v2, SRK data, signature container) -> Gen/GenDatV2.v"""
    if not V:
        raise Unextractable("no container-v2 facts delivered by the implementation runner")
    L = ["(* GENERATED on every run by tools/regen_c15.py from what spsdk/image/ahab/{ahab_certificate,ahab_srk,ahab_signature}.py "
         "compute -- do not edit.\n   format items: (0,0) u16 | (1,0) u32 | (2,n) n bytes | (4,0) u8 *)",
         "From Coq Require Import ZArith NArith List.\nImport ListNotations.\nLocal Open Scope N_scope.\n"]
    for name in ("cert", "rec", "data", "sig"):
        fmt, size, tag, ver = V[name]
        L.append(f"Definition g_v2_{name}_fmt : list (N * N) := {pl(norm_format(fmt, 'v2 ' + name))}.")
        L.append(f"Definition g_v2_{name}_size : N := {int(size)}.")
        L.append(f"Definition g_v2_{name}_tag : N := {int(tag)}.")
        if name == "rec":
            L.append(f"Definition g_v2_rec_versions : list N := {nl(ver)}.")
        else:
            L.append(f"Definition g_v2_{name}_version : N := {int(ver)}.")
    L.append(f"Definition g_v2_perm_debug : N := {int(V['perm_debug'])}.")
    L.append(f"Definition g_v2_perm_data_size : N := {int(V['perm_data_size'])}.")
    L.append(f"Definition g_v2_uuid_size : N := {int(V['uuid_size'])}.")
    L.append(f"Definition g_v2_params_len : N := {int(V['params_len'])}.")
    L.append(f"Definition g_v2_algs : list N := {nl(V['algs'])}.")
    L.append(f"Definition g_v2_hashes : list N := {nl(V['hashes'])}.")
    ks = sorted((int(k), v) for k, v in V["key_sizes"].items())
    L.append("Definition g_v2_key_sizes : list (N * (N * N)) := [" + "; ".join(f"({k}, ({a}, {b}))" for k, (a, b) in ks) + "].")
    try:
        ecc = sorted((CURVE_BITS[k], v) for k, v in V["ecc_type"].items())
    except KeyError as ex:
        raise Unextractable(f"unknown curve {ex}") from ex
    L.append(f"Definition g_v2_ecc_type : list (N * N) := {pl(ecc)}.")
    L.append(f"Definition g_v2_rsa_type : list (N * N) := {pl(sorted((int(k), v) for k, v in V['rsa_type'].items()))}.")
    return "\n".join(L) + "\n"


if __name__ == "__main__":
    regen()
    print(open(os.path.join(vlib.COQ, "Gen", "GenDat.v")).read()[:6000])
