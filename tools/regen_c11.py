"""T1 for C11: extract the arithmetic of spsdk/utils/registers.py into coq/Gen/GenRegs.v.

What is taken from the *current* source on every run (fail-closed, any unexpected shape raises Untranslatable):
  * ConfigProcessor.pre_process/post_process/width_update and the ShiftRightConfigProcessor overrides
    (`self.count` becomes a parameter),
  * RegsBitField.get_value: the shift/mask lines (`self.parent.get_value(raw=False)` becomes the parameter reg_val,
    `self.config_processor.post_process(v)` becomes a call of the dispatcher cp_post),
  * RegsBitField.set_value: pre-processing, the range test with its raise, the mask/shift/merge lines; the value handed
    to `self.parent.set_value(reg_val, raw)` is the result,
  * Register.set_value: the range test (`if value < 0 or value >= 1 << self.width: raise`), the sub-register bit position
    (`if self.reverse_subregs_order: ... else: ...`) and the slice expression passed to `sub_reg.set_value`; the shape of the two
    loops (slices go to self.sub_regs[: alt_width // subreg_width], the remaining sub-registers are written with 0) is checked,
  * Register.get_value: the sub-register bit position and the accumulation `sub_regs_value |= sub.get_value(raw) << bit_pos`.
The control skeleton around these lines (value_to_int, alt widths, byte reversal, loops over sub-registers) is hand-modelled in
Model/RegsModel.v and tied by the correspondence run.  The structural facts the hand model relies on (which `raw` flag is
passed where) are checked syntactically here as well.
"""
import ast
import copy
import os
import sys

sys.path.insert(0, os.path.dirname(os.path.abspath(__file__)))
import vlib
from translate.pyfun import Translator, Untranslatable, find_function

HEADER = """(* GENERATED on every run by tools/regen_c11.py from spsdk/utils/registers.py -- do not edit. *)
From Coq Require Import ZArith NArith Bool.
Require Import Value.
Local Open Scope Z_scope.

"""
SRC = "spsdk/utils/registers.py"


def _fn(name, params, body, bools=()):
    args = ast.arguments(posonlyargs=[], args=[ast.arg(arg=p, annotation=ast.Name(id="bool" if p in bools else "int", ctx=ast.Load()))
                                              for p in params], vararg=None, kwonlyargs=[], kw_defaults=[], kwarg=None,
                         defaults=[])
    f = ast.FunctionDef(name=name, args=args, body=body, decorator_list=[], returns=None, type_comment=None)
    f.lineno = getattr(body[0], "lineno", 0) if body else 0
    return ast.fix_missing_locations(f)


def _is_self_attr(n, *path):
    """n is self.a.b... with the given attribute path"""
    for a in reversed(path):
        if not (isinstance(n, ast.Attribute) and n.attr == a):
            return False
        n = n.value
    return isinstance(n, ast.Name) and n.id == "self"


class Rewrite(ast.NodeTransformer):
    """self.<attr> -> parameter; config processor calls -> dispatcher calls. Anything else on `self` is refused."""

    def __init__(self, attrs, procs=True):
        self.attrs = attrs
        self.procs = procs

    def visit_Call(self, node):
        f = node.func
        if self.procs and isinstance(f, ast.Attribute) and f.attr in ("pre_process", "post_process") \
                and _is_self_attr(f.value, "config_processor"):
            if len(node.args) != 1 or node.keywords:
                raise Untranslatable("config processor call shape")
            a = self.visit(node.args[0])
            return ast.Call(func=ast.Name(id="cp_" + f.attr.split("_")[0], ctx=ast.Load()),
                            args=[a, ast.Name(id="has_proc", ctx=ast.Load()), ast.Name(id="count", ctx=ast.Load())], keywords=[])
        return self.generic_visit(node)

    def visit_Attribute(self, node):
        if isinstance(node.value, ast.Name) and node.value.id == "self":
            if node.attr in self.attrs:
                return ast.Name(id=self.attrs[node.attr], ctx=ast.Load())
            raise Untranslatable(f"self.{node.attr} not expected here")
        return self.generic_visit(node)


def _strip_doc(body):
    if body and isinstance(body[0], ast.Expr) and isinstance(body[0].value, ast.Constant) and isinstance(body[0].value.value, str):
        return body[1:]
    return body


def _call_is(node, recv_pred, meth):
    return isinstance(node, ast.Call) and isinstance(node.func, ast.Attribute) and node.func.attr == meth and recv_pred(node.func.value)


def _kw(call, name):
    for k in call.keywords:
        if k.arg == name:
            return k.value
    return None


def extract(tree):
    """Return list of (comment, FunctionDef) in dependency order."""
    out = []
    # ---- config processors
    for cls, pre, extra in (("ConfigProcessor", "nop", []), ("ShiftRightConfigProcessor", "shr", ["count"])):
        for m in ("pre_process", "post_process", "width_update"):
            fn = find_function(tree, f"{cls}.{m}")
            body = [Rewrite({"count": "count"} if extra else {}, procs=False).visit(copy.deepcopy(s)) for s in _strip_doc(fn.body)]
            params = [a.arg for a in fn.args.args if a.arg != "self"] + extra
            if params[:1] != ["value"]:
                raise Untranslatable(f"{cls}.{m} signature")
            out.append((f"{cls}.{m} (line {fn.lineno})", _fn(f"{pre}_{m}", params, body)))
    # dispatchers (dynamic dispatch on the processor object: glue written here, bodies above come from the source)
    for m in ("pre", "post"):
        src = (f"def cp_{m}(value: int, has_proc: bool, count: int) -> int:\n"
               f"    if has_proc:\n        return shr_{m}_process(value, count)\n    return nop_{m}_process(value)\n")
        out.append((f"dispatch of config_processor.{m}_process", ast.parse(src).body[0]))
    src = ("def cp_width(value: int, has_proc: bool, count: int) -> int:\n"
           "    if has_proc:\n        return shr_width_update(value, count)\n    return nop_width_update(value)\n")
    out.append(("dispatch of config_processor.width_update", ast.parse(src).body[0]))

    # ---- RegsBitField.get_value
    fn = find_function(tree, "RegsBitField.get_value")
    body = _strip_doc(fn.body)
    s0 = body[0]
    is_parent = lambda n: _is_self_attr(n, "parent")
    if not (isinstance(s0, ast.Assign) and len(s0.targets) == 1 and isinstance(s0.targets[0], ast.Name)
            and _call_is(s0.value, is_parent, "get_value") and not s0.value.args
            and isinstance(_kw(s0.value, "raw"), ast.Constant) and _kw(s0.value, "raw").value is False):
        raise Untranslatable("RegsBitField.get_value: first statement is not `x = self.parent.get_value(raw=False)`")
    regvar = s0.targets[0].id
    rw = Rewrite({"offset": "offset", "width": "width"})
    nb = [rw.visit(copy.deepcopy(s)) for s in body[1:]]
    out.append((f"RegsBitField.get_value (line {fn.lineno}), {regvar} = parent.get_value(raw=False)",
                _fn("bf_get", [regvar, "offset", "width", "has_proc", "count"], nb, bools=("has_proc",))))

    # ---- RegsBitField.set_value
    fn = find_function(tree, "RegsBitField.set_value")
    pnames = [a.arg for a in fn.args.args]
    if pnames != ["self", "new_val", "raw", "no_preprocess"]:
        raise Untranslatable("RegsBitField.set_value signature")
    body = _strip_doc(fn.body)
    s0 = body[0]
    if not (isinstance(s0, ast.Assign) and isinstance(s0.targets[0], ast.Name) and isinstance(s0.value, ast.Call)
            and isinstance(s0.value.func, ast.Name) and s0.value.func.id == "value_to_int"
            and len(s0.value.args) == 1 and isinstance(s0.value.args[0], ast.Name) and s0.value.args[0].id == "new_val"
            and not s0.value.keywords):
        raise Untranslatable("RegsBitField.set_value: first statement is not `x = value_to_int(new_val)`")
    intvar = s0.targets[0].id
    rest = body[1:]
    # the statement reading the parent
    idx = [i for i, s in enumerate(rest) if isinstance(s, ast.Assign) and _call_is(s.value, is_parent, "get_value")]
    if len(idx) != 1:
        raise Untranslatable("RegsBitField.set_value: expected exactly one read of the parent value")
    rd = rest[idx[0]]
    rawkw = _kw(rd.value, "raw")
    if not (isinstance(rawkw, ast.Name) and rawkw.id == "raw" and not rd.value.args and isinstance(rd.targets[0], ast.Name)):
        raise Untranslatable("RegsBitField.set_value: parent is not read with raw=raw")
    regvar2 = rd.targets[0].id
    last = rest[-1]
    if not (isinstance(last, ast.Expr) and _call_is(last.value, is_parent, "set_value") and len(last.value.args) == 2
            and not last.value.keywords and isinstance(last.value.args[1], ast.Name) and last.value.args[1].id == "raw"):
        raise Untranslatable("RegsBitField.set_value: last statement is not `self.parent.set_value(x, raw)`")
    # nothing before the parent read may mention the register value
    for s in rest[:idx[0]]:
        for n in ast.walk(s):
            if isinstance(n, ast.Name) and n.id == regvar2:
                raise Untranslatable("register value used before it is read")
    ret = ast.Return(value=last.value.args[0])
    nb = [rw.visit(copy.deepcopy(s)) for s in rest[:idx[0]] + rest[idx[0] + 1:-1]] + [ret]
    for s in nb:
        for n in ast.walk(s):
            if isinstance(n, ast.Name) and n.id in ("raw", "new_val"):
                raise Untranslatable("raw/new_val used in the arithmetic of RegsBitField.set_value")
    out.append((f"RegsBitField.set_value (line {fn.lineno}): {intvar} = value_to_int(new_val); {regvar2} = parent.get_value(raw=raw); "
                f"result -> parent.set_value(result, raw)",
                _fn("bf_set", [intvar, regvar2, "offset", "width", "has_proc", "count", "no_preprocess"], nb,
                    bools=("has_proc", "no_preprocess"))))

    # ---- Register.set_value
    fn = find_function(tree, "Register.set_value")
    body = _strip_doc(fn.body)
    if not (len(body) == 1 and isinstance(body[0], ast.Try) and len(body[0].handlers) == 1):
        raise Untranslatable("Register.set_value: expected a single try block")
    h = body[0].handlers[0]
    if not (isinstance(h.type, ast.Name) and h.type.id == "SPSDKError" and len(h.body) == 1 and isinstance(h.body[0], ast.Raise)
            and isinstance(h.body[0].exc, ast.Call) and isinstance(h.body[0].exc.func, ast.Name)
            and h.body[0].exc.func.id == "SPSDKError"):
        raise Untranslatable("Register.set_value: handler is not `except SPSDKError: raise SPSDKError`")
    tb = body[0].body
    s0, s1 = tb[0], tb[1]
    if not (isinstance(s0, ast.Assign) and isinstance(s0.targets[0], ast.Name) and s0.targets[0].id == "value"
            and isinstance(s0.value, ast.Call) and isinstance(s0.value.func, ast.Name) and s0.value.func.id == "value_to_int"):
        raise Untranslatable("Register.set_value: first statement is not `value = value_to_int(val)`")
    if not (isinstance(s1, ast.If) and not s1.orelse and len(s1.body) == 1 and isinstance(s1.body[0], ast.Raise)):
        raise Untranslatable("Register.set_value: second statement is not the range test")
    rwr = Rewrite({"width": "width"}, procs=False)
    out.append((f"Register.set_value range test (line {s1.lineno})",
                _fn("reg_check", ["value", "width"], [rwr.visit(copy.deepcopy(s1)), ast.Return(value=ast.Name(id="value", ctx=ast.Load()))])))
    fors = [s for s in ast.walk(body[0]) if isinstance(s, ast.For)]
    if len(fors) != 2:
        raise Untranslatable("Register.set_value: expected the distribution loop and the loop clearing the remaining sub registers")
    f, fz = fors

    def _is_quot(n):      # alt_width // subreg_width
        return (isinstance(n, ast.BinOp) and isinstance(n.op, ast.FloorDiv) and isinstance(n.left, ast.Name) and n.left.id == "alt_width"
                and isinstance(n.right, ast.Name) and n.right.id == "subreg_width")
    # structural facts the hand model relies on: the first alt_width // subreg_width sub registers receive slices ...
    heads = [s for s in ast.walk(body[0]) if isinstance(s, ast.Assign) and isinstance(s.value, ast.Subscript)
             and _is_self_attr(s.value.value, "sub_regs") and isinstance(s.value.slice, ast.Slice)]
    if not (len(heads) == 1 and heads[0].value.slice.lower is None and heads[0].value.slice.step is None
            and _is_quot(heads[0].value.slice.upper) and isinstance(heads[0].targets[0], ast.Name)
            and len(f.iter.args) == 1 and isinstance(f.iter.args[0], ast.Name) and f.iter.args[0].id == heads[0].targets[0].id):
        raise Untranslatable("Register.set_value: the distribution loop does not run over self.sub_regs[: alt_width // subreg_width]")
    # ... and every remaining one is written with 0, same raw flag
    zc = fz.body[0].value if (len(fz.body) == 1 and isinstance(fz.body[0], ast.Expr)) else None
    if not (isinstance(fz.target, ast.Name) and isinstance(fz.iter, ast.Subscript) and _is_self_attr(fz.iter.value, "sub_regs")
            and isinstance(fz.iter.slice, ast.Slice) and fz.iter.slice.upper is None and fz.iter.slice.step is None
            and _is_quot(fz.iter.slice.lower) and not fz.orelse
            and zc is not None and _call_is(zc, lambda n: isinstance(n, ast.Name) and n.id == fz.target.id, "set_value")
            and len(zc.args) == 1 and isinstance(zc.args[0], ast.Constant) and zc.args[0].value == 0
            and isinstance(_kw(zc, "raw"), ast.Name) and _kw(zc, "raw").id == "raw" and len(zc.keywords) == 1):
        raise Untranslatable("Register.set_value: second loop is not `for s in self.sub_regs[alt_width // subreg_width :]: s.set_value(0, raw=raw)`")
    if not (isinstance(f.target, ast.Tuple) and [e.id for e in f.target.elts] == ["index", "sub_reg"]
            and isinstance(f.iter, ast.Call) and isinstance(f.iter.func, ast.Name) and f.iter.func.id == "enumerate"
            and isinstance(_kw(f.iter, "start"), ast.Constant) and _kw(f.iter, "start").value == 1 and len(f.body) == 2):
        raise Untranslatable("Register.set_value: loop header")
    ifn, call = f.body
    if not (isinstance(ifn, ast.If) and _is_self_attr(ifn.test, "reverse_subregs_order")):
        raise Untranslatable("Register.set_value: bit position selection")
    rws = Rewrite({"reverse_subregs_order": "reverse_subregs_order"}, procs=False)
    out.append((f"Register.set_value sub-register bit position (line {ifn.lineno})",
                _fn("sub_pos_set", ["alt_width", "index", "subreg_width", "reverse_subregs_order"],
                    [rws.visit(copy.deepcopy(ifn)), ast.Return(value=ast.Name(id="bit_pos", ctx=ast.Load()))],
                    bools=("reverse_subregs_order",))))
    is_sub = lambda n: isinstance(n, ast.Name) and n.id == "sub_reg"
    if not (isinstance(call, ast.Expr) and _call_is(call.value, is_sub, "set_value") and len(call.value.args) == 1
            and isinstance(_kw(call.value, "raw"), ast.Name) and _kw(call.value, "raw").id == "raw"):
        raise Untranslatable("Register.set_value: sub register update is not `sub_reg.set_value(<slice>, raw=raw)`")
    out.append((f"Register.set_value slice handed to the sub register (line {call.lineno})",
                _fn("sub_slice", ["value", "bit_pos", "subreg_width"], [ast.Return(value=copy.deepcopy(call.value.args[0]))])))

    # ---- Register.get_value
    fn = find_function(tree, "Register.get_value")
    fors = [s for s in ast.walk(fn) if isinstance(s, ast.For)]
    if len(fors) != 1:
        raise Untranslatable("Register.get_value: expected one loop over sub registers")
    f = fors[0]
    if not (isinstance(f.target, ast.Tuple) and [e.id for e in f.target.elts] == ["index", "sub_reg"]
            and isinstance(f.iter, ast.Call) and isinstance(f.iter.func, ast.Name) and f.iter.func.id == "enumerate"
            and isinstance(_kw(f.iter, "start"), ast.Constant) and _kw(f.iter, "start").value == 1 and len(f.body) == 2
            and len(f.iter.args) == 1 and _is_self_attr(f.iter.args[0], "sub_regs")):
        raise Untranslatable("Register.get_value: loop header")
    ifn, acc = f.body
    if not (isinstance(ifn, ast.If) and _is_self_attr(ifn.test, "reverse_subregs_order")):
        raise Untranslatable("Register.get_value: bit position selection")
    rwg = Rewrite({"reverse_subregs_order": "reverse_subregs_order", "width": "width"}, procs=False)
    out.append((f"Register.get_value sub-register bit position (line {ifn.lineno})",
                _fn("sub_pos_get", ["width", "index", "subreg_width", "reverse_subregs_order"],
                    [rwg.visit(copy.deepcopy(ifn)), ast.Return(value=ast.Name(id="bit_pos", ctx=ast.Load()))],
                    bools=("reverse_subregs_order",))))
    if not (isinstance(acc, ast.AugAssign) and isinstance(acc.target, ast.Name)):
        raise Untranslatable("Register.get_value: accumulation")
    accname = acc.target.id

    class SubVal(ast.NodeTransformer):
        n = 0

        def visit_Call(self, node):
            if _call_is(node, is_sub, "get_value"):
                rk = _kw(node, "raw")
                if node.args or not (isinstance(rk, ast.Name) and rk.id == "raw"):
                    raise Untranslatable("sub register is not read with raw=raw")
                SubVal.n += 1
                return ast.Name(id="sub_val", ctx=ast.Load())
            return self.generic_visit(node)
    SubVal.n = 0
    a2 = SubVal().visit(copy.deepcopy(acc))
    if SubVal.n != 1:
        raise Untranslatable("Register.get_value: accumulation does not read the sub register exactly once")
    out.append((f"Register.get_value accumulation (line {acc.lineno})",
                _fn("sub_acc", [accname, "sub_val", "bit_pos"], [a2, ast.Return(value=ast.Name(id=accname, ctx=ast.Load()))])))
    return out


def regen():
    src = os.path.join(vlib.REPO, SRC)
    tree = ast.parse(open(src).read())
    tr = Translator()
    text = [HEADER]
    for comment, fn in extract(tree):
        text.append(f"(* {SRC}: {comment} *)\n" + tr.function(fn, "py_" + fn.name) + "\n")
    text = "".join(text)
    vlib.write_if_changed(os.path.join(vlib.COQ, "Gen", "GenRegs.v"), text)
    return text


if __name__ == "__main__":
    print(regen())
