"""T1 for C04: extract the SB 2.x layout constants from the *current* source into coq/Gen/GenSb2.v.

Fail-closed (Untranslatable): every constant below must be found as a literal (or a literal expression over other
extracted constants) at the place named; struct format strings are decoded into field lists.
  spsdk/sbfile/sb2/commands.py   CmdHeader.FORMAT, checksum seed of CmdHeader.crc, EnumCmdTag, EnumSectionFlag, the
                                 tag -> class table _CMD_CLASS, flag masks/shifts (CmdBaseClass.ROM_MEM_*, DEVICE_/GROUP_ID_*),
                                 VersionCheckType, the constant count written by the key-store commands
  spsdk/sbfile/sb2/headers.py    ImageHeaderV2.FORMAT, SIGNATURE1/2, key_blob_block, key_blob_block_count
  spsdk/sbfile/sb2/images.py     BootImageV21/V20 size and flag constants
  spsdk/sbfile/sb2/sections.py   BootSectionV2.HMAC_SIZE
  spsdk/sbfile/misc.py           SecBootBlckSize.BLOCK_SIZE
  spsdk/crypto/symmetric.py      Counter: width of the counter field and its default byte order
  spsdk/mboot/memories.py        ExtMemId tags (accepted controller ids of the key-store commands)
  spsdk/utils/crypto/cert_blocks.py  CertBlockHeader.FORMAT, SIGNATURE, CertBlockV1.DEFAULT_ALIGNMENT
"""
import ast
import os
import re
import sys

sys.path.insert(0, os.path.dirname(os.path.abspath(__file__)))
import vlib
from translate.pyfun import Untranslatable

HEADER = """(* GENERATED on every run by tools/regen_c04.py from spsdk/sbfile/sb2/{commands,headers,images,sections}.py,
   spsdk/sbfile/misc.py, spsdk/crypto/symmetric.py, spsdk/mboot/memories.py, spsdk/utils/crypto/cert_blocks.py
   -- do not edit. *)
From Coq Require Import ZArith NArith List Bool.
Import ListNotations.
Local Open Scope N_scope.

"""


def parse(rel):
    with open(os.path.join(vlib.REPO, rel)) as f:
        return ast.parse(f.read())


def cls(tree, name):
    for n in tree.body:
        if isinstance(n, ast.ClassDef) and n.name == name:
            return n
    raise Untranslatable(f"class {name} not found")


def ev(e, env):
    if isinstance(e, ast.Constant) and isinstance(e.value, (int, bytes, str)) and not isinstance(e.value, bool):
        return e.value
    if isinstance(e, ast.Name) and e.id in env:
        return env[e.id]
    if isinstance(e, ast.BinOp):
        a, b = ev(e.left, env), ev(e.right, env)
        ops = {ast.Add: lambda: a + b, ast.Mult: lambda: a * b, ast.BitOr: lambda: a | b, ast.Sub: lambda: a - b,
               ast.LShift: lambda: a << b}
        for k, f in ops.items():
            if isinstance(e.op, k):
                return f()
    if isinstance(e, ast.Tuple):
        return tuple(ev(x, env) for x in e.elts)
    raise Untranslatable("expression " + ast.dump(e)[:100])


def class_consts(c, want, env=None):
    env = dict(env or {})
    out = {}
    for n in c.body:
        if isinstance(n, ast.Assign) and len(n.targets) == 1 and isinstance(n.targets[0], ast.Name):
            nm = n.targets[0].id
            try:
                v = ev(n.value, env)
            except Untranslatable:
                continue
            env[nm] = v
            out[nm] = v
    for w in want:
        if w not in out:
            raise Untranslatable(f"{c.name}.{w} is not a literal constant")
    return {w: out[w] for w in want}


def enum_members(c):
    out = []
    for n in c.body:
        if isinstance(n, ast.Assign) and len(n.targets) == 1 and isinstance(n.targets[0], ast.Name) \
                and isinstance(n.value, ast.Tuple) and n.value.elts and isinstance(n.value.elts[0], ast.Constant) \
                and isinstance(n.value.elts[0].value, int):
            out.append((n.targets[0].id, n.value.elts[0].value))
    if not out:
        raise Untranslatable(f"enum {c.name} has no literal members")
    return out


FMT_SIZES = {"B": 1, "H": 2, "I": 4, "L": 4, "Q": 8}


def decode_format(fmt):
    """'<2BH3L' -> [(is_bytes, width)] ; only little-endian standard sizes without padding are accepted."""
    if not fmt.startswith("<"):
        raise Untranslatable("struct format is not little-endian standard: " + fmt)
    out = []
    for cnt, code in re.findall(r"(\d*)([A-Za-z])", fmt[1:]):
        k = int(cnt) if cnt else 1
        if code == "s":
            out.append((True, k))
        elif code in FMT_SIZES:
            out += [(False, FMT_SIZES[code])] * k
        else:
            raise Untranslatable("struct code " + code)
    if "".join((c or "") + d for c, d in re.findall(r"(\d*)([A-Za-z])", fmt[1:])) != fmt[1:]:
        raise Untranslatable("struct format not understood: " + fmt)
    return out


def coq_fmt(fs):
    return "[" + "; ".join(f"({'true' if b else 'false'}, {w}%nat)" for b, w in fs) + "]"


def nbytes(b):
    return "[" + "; ".join(str(x) for x in b) + "]"


def module_consts(tree, want):
    out = {}
    for n in tree.body:
        if isinstance(n, ast.Assign) and len(n.targets) == 1 and isinstance(n.targets[0], ast.Name):
            try:
                out[n.targets[0].id] = ev(n.value, out)
            except Untranslatable:
                pass
    for w in want:
        if w not in out:
            raise Untranslatable(f"module constant {w} not found")
    return {w: out[w] for w in want}


def func(c, name):
    for n in c.body:
        if isinstance(n, ast.FunctionDef) and n.name == name:
            return n
    raise Untranslatable(f"{c.name}.{name} not found")


def self_assign_consts(fn, want):
    out = {}
    for n in ast.walk(fn):
        if isinstance(n, ast.Assign) and len(n.targets) == 1 and isinstance(n.targets[0], ast.Attribute) \
                and isinstance(n.targets[0].value, ast.Name) and n.targets[0].value.id == "self" \
                and isinstance(n.value, ast.Constant) and isinstance(n.value.value, int):
            out[n.targets[0].attr] = n.value.value
    for w in want:
        if w not in out:
            raise Untranslatable(f"self.{w} = <int literal> not found in {fn.name}")
    return {w: out[w] for w in want}


def regen():
    L = [HEADER]
    # ---------------- commands.py
    t = parse("spsdk/sbfile/sb2/commands.py")
    mc = module_consts(t, ["DEVICE_ID_MASK", "DEVICE_ID_SHIFT", "GROUP_ID_MASK", "GROUP_ID_SHIFT"])
    for k, v in mc.items():
        L.append(f"Definition {k} : N := {v}.\n")
    tags = enum_members(cls(t, "EnumCmdTag"))
    for nm, v in tags:
        L.append(f"Definition TAG_{nm} : N := {v}.\n")
    L.append("Definition cmd_tags : list N := " + nbytes([v for _, v in tags]) + ".\n")
    for nm, v in enum_members(cls(t, "EnumSectionFlag")):
        L.append(f"Definition SECT_{nm} : N := {v}.\n")
    for nm, v in enum_members(cls(t, "VersionCheckType")):
        L.append(f"Definition VERCHECK_{nm} : N := {v}.\n")
    L.append("Definition vercheck_types : list N := " + nbytes([v for _, v in enum_members(cls(t, "VersionCheckType"))]) + ".\n")
    ch = cls(t, "CmdHeader")
    fmt = class_consts(ch, ["FORMAT"])["FORMAT"]
    L.append(f"(* CmdHeader.FORMAT = {fmt!r} *)\nDefinition cmdhdr_format : list (bool * nat) := {coq_fmt(decode_format(fmt))}.\n")
    # checksum seed: `checksum = <int>` inside the crc property, summed over range(1, SIZE)
    crcf = func(ch, "crc")
    seed = [n.value.value for n in ast.walk(crcf) if isinstance(n, ast.Assign) and isinstance(n.targets[0], ast.Name)
            and n.targets[0].id == "checksum" and isinstance(n.value, ast.Constant) and isinstance(n.value.value, int)]
    rng = [n for n in ast.walk(crcf) if isinstance(n, ast.Call) and isinstance(n.func, ast.Name) and n.func.id == "range"]
    if len(seed) != 1 or len(rng) != 1 or not (isinstance(rng[0].args[0], ast.Constant)):
        raise Untranslatable("CmdHeader.crc: checksum seed / range not in the expected shape")
    L.append(f"Definition cmdhdr_checksum_seed : N := {seed[0]}.\nDefinition cmdhdr_checksum_first : nat := {rng[0].args[0].value}%nat.\n")
    bc = class_consts(cls(t, "CmdBaseClass"), ["ROM_MEM_DEVICE_ID_MASK", "ROM_MEM_DEVICE_ID_SHIFT", "ROM_MEM_GROUP_ID_MASK",
                                                "ROM_MEM_GROUP_ID_SHIFT"])
    for k, v in bc.items():
        L.append(f"Definition {k} : N := {v}.\n")
    ks = class_consts(cls(t, "CmdKeyStoreBackupRestore"), ["ROM_MEM_DEVICE_ID_MASK", "ROM_MEM_DEVICE_ID_SHIFT"])
    L.append(f"Definition KS_DEVICE_ID_MASK : N := {ks['ROM_MEM_DEVICE_ID_MASK']}.\nDefinition KS_DEVICE_ID_SHIFT : N := {ks['ROM_MEM_DEVICE_ID_SHIFT']}.\n")
    kcount = [n.value.value for n in ast.walk(func(cls(t, "CmdKeyStoreBackupRestore"), "__init__"))
              if isinstance(n, ast.Assign) and isinstance(n.targets[0], ast.Attribute) and n.targets[0].attr == "count"
              and isinstance(n.value, ast.Constant)]
    if len(kcount) != 1:
        raise Untranslatable("CmdKeyStoreBackupRestore.__init__: header.count literal")
    L.append(f"Definition KS_COUNT : N := {kcount[0]}.\n")
    # tag -> class table
    table = None
    for n in t.body:
        if isinstance(n, ast.AnnAssign) and isinstance(n.target, ast.Name) and n.target.id == "_CMD_CLASS":
            table = n.value
    if not isinstance(table, ast.Dict):
        raise Untranslatable("_CMD_CLASS table")
    tagmap = dict(tags)
    order = {"CmdNop": 0, "CmdTag": 1, "CmdLoad": 2, "CmdFill": 3, "CmdJump": 4, "CmdCall": 5, "CmdErase": 7, "CmdReset": 8,
             "CmdMemEnable": 9, "CmdProg": 10, "CmdVersionCheck": 11, "CmdKeyStoreRestore": 12, "CmdKeyStoreBackup": 13}
    rows = []
    for k, v in zip(table.keys, table.values):
        if not (isinstance(k, ast.Attribute) and isinstance(v, ast.Name) and k.attr in tagmap and v.id in order):
            raise Untranslatable("_CMD_CLASS entry " + ast.dump(k)[:60])
        rows.append((tagmap[k.attr], order[v.id]))
    L.append("(* _CMD_CLASS: (tag byte, class index) in dictionary order; class index: 0 Nop 1 Tag 2 Load 3 Fill 4 Jump 5 Call\n"
             "   7 Erase 8 Reset 9 MemEnable 10 Prog 11 VersionCheck 12 KeyStoreRestore 13 KeyStoreBackup *)\n"
             "Definition cmd_class_table : list (N * N) := [" + "; ".join(f"({a}, {b})" for a, b in rows) + "].\n")
    # ---------------- headers.py
    t = parse("spsdk/sbfile/sb2/headers.py")
    ih = cls(t, "ImageHeaderV2")
    c = class_consts(ih, ["FORMAT", "SIGNATURE1", "SIGNATURE2"])
    L.append(f"(* ImageHeaderV2.FORMAT = {c['FORMAT']!r} *)\nDefinition imghdr_format : list (bool * nat) := {coq_fmt(decode_format(c['FORMAT']))}.\n")
    L.append(f"Definition IMG_SIGNATURE1 : list N := {nbytes(c['SIGNATURE1'])}.\nDefinition IMG_SIGNATURE2 : list N := {nbytes(c['SIGNATURE2'])}.\n")
    kb = self_assign_consts(func(ih, "__init__"), ["key_blob_block", "key_blob_block_count"])
    L.append(f"Definition IMG_KEY_BLOB_BLOCK : N := {kb['key_blob_block']}.\nDefinition IMG_KEY_BLOB_BLOCK_COUNT : N := {kb['key_blob_block_count']}.\n")
    # ---------------- images.py
    t = parse("spsdk/sbfile/sb2/images.py")
    c = class_consts(cls(t, "BootImageV21"), ["HEADER_MAC_SIZE", "KEY_BLOB_SIZE", "SHA_256_SIZE", "FLAGS_SHA_PRESENT_BIT",
                                              "FLAGS_ENCRYPTED_SIGNED_BIT"])
    for k, v in c.items():
        L.append(f"Definition V21_{k} : N := {v}.\n")
    c = class_consts(cls(t, "BootImageV20"), ["HEADER_MAC_SIZE", "DEK_MAC_SIZE", "KEY_BLOB_SIZE"])
    for k, v in c.items():
        L.append(f"Definition V20_{k} : N := {v}.\n")
    # ---------------- sections.py / misc.py
    c = class_consts(cls(parse("spsdk/sbfile/sb2/sections.py"), "BootSectionV2"), ["HMAC_SIZE"])
    L.append(f"Definition SECT_HMAC_SIZE : N := {c['HMAC_SIZE']}.\n")
    c = class_consts(cls(parse("spsdk/sbfile/misc.py"), "SecBootBlckSize"), ["BLOCK_SIZE"])
    L.append(f"Definition SB_BLOCK_SIZE : N := {c['BLOCK_SIZE']}.\n")
    # ---------------- symmetric.py Counter
    t = parse("spsdk/crypto/symmetric.py")
    cn = cls(t, "Counter")
    tb = [n for n in ast.walk(func(cn, "value")) if isinstance(n, ast.Call) and isinstance(n.func, ast.Attribute)
          and n.func.attr == "to_bytes"]
    if len(tb) != 1 or not isinstance(tb[0].args[0], ast.Constant):
        raise Untranslatable("Counter.value: to_bytes(<width>, ...)")
    init = func(cn, "__init__")
    dflt = init.args.defaults[-1]
    if not (isinstance(dflt, ast.Attribute) and dflt.attr in ("LITTLE", "BIG")):
        raise Untranslatable("Counter.__init__: default byte order")
    sl = [n for n in ast.walk(init) if isinstance(n, ast.Subscript) and isinstance(n.slice, ast.Slice)]
    cuts = sorted({ast.unparse(s.slice) for s in sl})
    if cuts != ["-4:", ":-4"] or tb[0].args[0].value != 4:
        raise Untranslatable("Counter: nonce is not split as nonce[:-4] / nonce[-4:]")
    L.append(f"Definition CTR_WIDTH : nat := {tb[0].args[0].value}%nat.\nDefinition CTR_LITTLE_ENDIAN : bool := {'true' if dflt.attr == 'LITTLE' else 'false'}.\n")
    # ---------------- memories.py
    em = enum_members(cls(parse("spsdk/mboot/memories.py"), "ExtMemId"))
    L.append("Definition ext_mem_ids : list N := " + nbytes([v for _, v in em]) + ".\n")
    # ---------------- cert_blocks.py
    t = parse("spsdk/utils/crypto/cert_blocks.py")
    c = class_consts(cls(t, "CertBlockHeader"), ["FORMAT", "SIGNATURE"])
    L.append(f"(* CertBlockHeader.FORMAT = {c['FORMAT']!r} *)\nDefinition certhdr_format : list (bool * nat) := {coq_fmt(decode_format(c['FORMAT']))}.\n")
    L.append(f"Definition CERT_SIGNATURE : list N := {nbytes(c['SIGNATURE'])}.\n")
    c = class_consts(cls(t, "CertBlockV1"), ["DEFAULT_ALIGNMENT"])
    L.append(f"Definition CERT_DEFAULT_ALIGNMENT : N := {c['DEFAULT_ALIGNMENT']}.\n")
    text = "".join(L)
    vlib.write_if_changed(os.path.join(vlib.COQ, "Gen", "GenSb2.v"), text)
    return text


if __name__ == "__main__":
    print(regen())
