"""T1 for C13: extract the layout / unit / tag constants of otfad.py, iee.py and bee.py into coq/Gen/GenFlashEnc.v.

Fail-closed: a constant that is missing or not a plain integer expression aborts the generation.  The hand model
(Model/FlashEncModel.v) is tied to these values by the Example `flashenc_constants_tied` at the end of
Proofs/FlashEncProofs.v (proved by reflexivity): a changed constant breaks the build of every C13 theorem."""
import ast
import os
import sys

sys.path.insert(0, os.path.dirname(os.path.abspath(__file__)))
import vlib

WANTED = [
    # (file, class or None, name, coq name)
    ("spsdk/utils/crypto/otfad.py", "KeyBlob", "_START_ADDR_MASK", "src_otfad_start_mask"),
    ("spsdk/utils/crypto/otfad.py", "KeyBlob", "_END_ADDR_MASK", "src_otfad_end_mask"),
    ("spsdk/utils/crypto/otfad.py", "KeyBlob", "_KEY_FLAG_MASK", "src_otfad_flag_mask"),
    ("spsdk/utils/crypto/otfad.py", "KeyBlob", "KEY_FLAG_ADE", "src_otfad_flag_ade"),
    ("spsdk/utils/crypto/otfad.py", "KeyBlob", "KEY_FLAG_VLD", "src_otfad_flag_vld"),
    ("spsdk/utils/crypto/otfad.py", "KeyBlob", "KEY_SIZE", "src_otfad_key_size"),
    ("spsdk/utils/crypto/otfad.py", "KeyBlob", "CTR_SIZE", "src_otfad_ctr_size"),
    ("spsdk/utils/crypto/otfad.py", "KeyBlob", "_EXPORT_KEY_BLOB_SIZE", "src_otfad_blob_size"),
    ("spsdk/utils/crypto/otfad.py", "KeyBlob", "_ENCRYPTION_BLOCK_SIZE", "src_otfad_block"),
    ("spsdk/utils/crypto/otfad.py", "Otfad", "OTFAD_DATA_UNIT", "src_otfad_unit"),
    ("spsdk/utils/crypto/iee.py", "IeeKeyBlobLockAttributes", "LOCK", "src_iee_lock"),
    ("spsdk/utils/crypto/iee.py", "IeeKeyBlobLockAttributes", "UNLOCK", "src_iee_unlock"),
    ("spsdk/utils/crypto/iee.py", "IeeKeyBlobKeyAttributes", "CTR128XTS256", "src_iee_attr_128"),
    ("spsdk/utils/crypto/iee.py", "IeeKeyBlobKeyAttributes", "CTR256XTS512", "src_iee_attr_256"),
    ("spsdk/utils/crypto/iee.py", "IeeKeyBlobModeAttributes", "Bypass", "src_iee_mode_bypass"),
    ("spsdk/utils/crypto/iee.py", "IeeKeyBlobModeAttributes", "AesXTS", "src_iee_mode_xts"),
    ("spsdk/utils/crypto/iee.py", "IeeKeyBlobModeAttributes", "AesCTRWAddress", "src_iee_mode_ctr_addr"),
    ("spsdk/utils/crypto/iee.py", "IeeKeyBlobModeAttributes", "AesCTRWOAddress", "src_iee_mode_ctr_noaddr"),
    ("spsdk/utils/crypto/iee.py", "IeeKeyBlobModeAttributes", "AesCTRkeystream", "src_iee_mode_ctr_ks"),
    ("spsdk/utils/crypto/iee.py", "IeeKeyBlob", "HEADER_TAG", "src_iee_tag"),
    ("spsdk/utils/crypto/iee.py", "IeeKeyBlob", "KEYBLOB_VERSION", "src_iee_version"),
    ("spsdk/utils/crypto/iee.py", "IeeKeyBlob", "_IEE_ENCR_BLOCK_SIZE_XTS", "src_iee_xts_unit"),
    ("spsdk/utils/crypto/iee.py", "IeeKeyBlob", "_ENCRYPTION_BLOCK_SIZE", "src_iee_block"),
    ("spsdk/utils/crypto/iee.py", "IeeKeyBlob", "_START_ADDR_MASK", "src_iee_start_mask"),
    ("spsdk/utils/crypto/iee.py", "Iee", "IEE_DATA_UNIT", "src_iee_unit"),
    ("spsdk/utils/crypto/iee.py", "Iee", "IEE_KEY_BLOBS_SIZE", "src_iee_table_size"),
    ("spsdk/image/bee.py", None, "BEE_ENCR_BLOCK_SIZE", "src_bee_unit"),
    ("spsdk/image/bee.py", None, "_ENCR_BLOCK_ADDR_MASK", "src_bee_mask"),
    ("spsdk/image/bee.py", "BeeProtectRegionBlockAesMode", "CTR", "src_bee_mode_ctr"),
    ("spsdk/image/bee.py", "BeeProtectRegionBlock", "TAGL", "src_bee_tagl"),
    ("spsdk/image/bee.py", "BeeProtectRegionBlock", "TAGH", "src_bee_tagh"),
    ("spsdk/image/bee.py", "BeeProtectRegionBlock", "VERSION", "src_bee_version"),
    ("spsdk/image/bee.py", "BeeProtectRegionBlock", "FAC_REGIONS", "src_bee_fac_regions"),
    ("spsdk/image/bee.py", "BeeProtectRegionBlock", "SIZE", "src_bee_prdb_size"),
    ("spsdk/image/bee.py", "BeeRegionHeader", "PRDB_OFFSET", "src_bee_prdb_offset"),
    ("spsdk/image/bee.py", "BeeRegionHeader", "SIZE", "src_bee_header_size"),
]


class NotConstant(Exception):
    pass


def ev(node, env):
    if isinstance(node, ast.Constant) and isinstance(node.value, int) and not isinstance(node.value, bool):
        return node.value
    if isinstance(node, ast.Name) and node.id in env:
        return env[node.id]
    if isinstance(node, ast.Tuple) and node.elts:            # SpsdkEnum member: (tag, label, ...)
        return ev(node.elts[0], env)
    if isinstance(node, ast.UnaryOp) and isinstance(node.op, ast.USub):
        return -ev(node.operand, env)
    if isinstance(node, ast.BinOp):
        a, b = ev(node.left, env), ev(node.right, env)
        ops = {ast.Add: lambda: a + b, ast.Sub: lambda: a - b, ast.Mult: lambda: a * b, ast.LShift: lambda: a << b,
               ast.RShift: lambda: a >> b, ast.BitOr: lambda: a | b, ast.BitAnd: lambda: a & b}
        for k, f in ops.items():
            if isinstance(node.op, k):
                return f()
    raise NotConstant(ast.dump(node)[:200])


def constants_of(body, env):
    out = dict(env)
    for st in body:
        if isinstance(st, ast.Assign) and len(st.targets) == 1 and isinstance(st.targets[0], ast.Name):
            try:
                out[st.targets[0].id] = ev(st.value, out)
            except NotConstant:
                pass
    return out


def regen():
    cache = {}
    lines = ["(* GENERATED on every run by tools/regen_c13.py from spsdk/utils/crypto/otfad.py, iee.py, spsdk/image/bee.py -- do not edit. *)",
             "From Coq Require Import ZArith.", "Local Open Scope Z_scope.", ""]
    for (rel, cls, name, coqname) in WANTED:
        if rel not in cache:
            tree = ast.parse(open(os.path.join(vlib.REPO, rel)).read())
            top = constants_of(tree.body, {})
            classes = {n.name: constants_of(n.body, top) for n in tree.body if isinstance(n, ast.ClassDef)}
            cache[rel] = (top, classes)
        top, classes = cache[rel]
        scope = top if cls is None else classes.get(cls)
        if scope is None or name not in scope:
            raise NotConstant(f"{rel}: {cls}.{name} is not an integer constant any more")
        lines.append(f"Definition {coqname} : Z := {vlib.coq_z(scope[name])}.   (* {rel} {cls or ''}.{name} *)")
    text = "\n".join(lines) + "\n"
    vlib.write_if_changed(os.path.join(vlib.COQ, "Gen", "GenFlashEnc.v"), text)
    return text


if __name__ == "__main__":
    print(regen())
