"""Regenerate every Gen/*.v from /repo's current tree and refresh _CoqProject."""
import importlib, os, sys, traceback
sys.path.insert(0, os.path.dirname(os.path.abspath(__file__)))
import vlib
rc = 0
for mod in ["regen_c20"]:
    try:
        importlib.import_module(mod).regen()
    except Exception:
        traceback.print_exc()
        rc = 1
vlib.coq_project()
sys.exit(0)
