"""Regenerate every Gen/*.v from /repo's current tree (every tools/regen_c*.py) and refresh _CoqProject."""
import glob, importlib, os, sys, traceback
sys.path.insert(0, os.path.dirname(os.path.abspath(__file__)))
import vlib
rc = 0
for path in sorted(glob.glob(os.path.join(os.path.dirname(os.path.abspath(__file__)), "regen_c*.py"))):
    mod = os.path.basename(path)[:-3]
    try:
        importlib.import_module(mod).regen()
    except Exception:
        traceback.print_exc()
        rc = 1
vlib.coq_project()
sys.exit(0)
