"""T1 for C18: extract from spsdk/utils/database.py (python ast, fail-closed)

  * every cache file operation (open rb/wb, pickle.load, pickle.dump, os.remove, os.path.exists, the type checks
    `assert isinstance` / `raise SPSDKError("Invalid cache file type")`) of the three cache routines
    (DatabaseManager._get_quick_info_db, Database.DatabaseData.__init__, Database.DatabaseData.make_cache):
    whether it runs inside `with FileLock(<cache file> + ".lock")`, the chain of `except` tuples that guard it
    (innermost first) and whether it sits inside an `except` body itself,
  * the exception classes declared in spsdk/exceptions.py (+ the local ones of database.py),
  * Python's exception hierarchy as a finite table dumped from the running interpreter (issubclass for all pairs),

into coq/Gen/GenCache.v.  The hand model Model/CacheModel.v takes the lock flags and handler tuples from there, so the
property theorems are re-proved about what the source says now.  Any change of the *shape* of the three routines
(another cache operation, an operation that moved to another routine, an unknown handler class) aborts the generation.
"""
import ast
import builtins
import os
import pickle
import sys

sys.path.insert(0, os.path.dirname(os.path.abspath(__file__)))
import vlib


class Untranslatable(Exception):
    pass


ROUTINES = {
    "DatabaseManager._get_quick_info_db": "quick",
    "Database.DatabaseData.__init__": "init",
    "Database.DatabaseData.make_cache": "make",
}
# kinds of cache file operations
K_EXISTS, K_OPEN_R, K_LOAD, K_TYPECHECK, K_REMOVE, K_OPEN_W, K_DUMP, K_LOCK = 1, 2, 3, 4, 5, 6, 7, 8
KNAME = {1: "exists", 2: "open-rb", 3: "pickle.load", 4: "typecheck", 5: "os.remove", 6: "open-wb", 7: "pickle.dump",
         8: "FileLock"}
# the shape the hand model was written for: routine -> ordered list of operation kinds
EXPECTED_SHAPE = {
    "quick": [K_EXISTS, K_LOCK, K_OPEN_R, K_LOAD, K_TYPECHECK, K_LOCK, K_OPEN_W, K_DUMP],
    "init": [K_EXISTS, K_LOCK, K_OPEN_R, K_LOAD, K_TYPECHECK, K_REMOVE, K_EXISTS, K_REMOVE],
    "make": [K_LOCK, K_EXISTS, K_OPEN_R, K_LOAD, K_TYPECHECK, K_OPEN_W, K_DUMP],
}


# try/except nesting the model was written for: per operation (allowed depths, inside an except body?)
EXPECTED_DEPTH = {
    "quick": [((0,), False), ((1,), False), ((1,), False), ((1,), False), ((1,), False), ((1,), False), ((1,), False), ((1,), False)],
    "init": [((0,), False), ((1,), False), ((1,), False), ((1,), False), ((1,), False), ((1,), False), ((0, 1), True), ((0, 1), True)],
    "make": [((1,), False), ((1,), False), ((1, 2), False), ((1, 2), False), ((1, 2), False), ((1,), False), ((1,), False)],
}


def dotted(n):
    if isinstance(n, ast.Name):
        return n.id
    if isinstance(n, ast.Attribute):
        b = dotted(n.value)
        return None if b is None else b + "." + n.attr
    return None


CACHE_VAR = {"name": None}


def is_cache_name(n):
    """the expression names the cache file: the local variable that the routine passes to open()"""
    return isinstance(n, ast.Name) and n.id == CACHE_VAR["name"]


def find_cache_var(fn):
    """the one local name given to every open() of the routine (the cache file path)"""
    names = set()
    for n in ast.walk(fn):
        if isinstance(n, ast.Call) and dotted(n.func) == "open":
            if not (n.args and isinstance(n.args[0], ast.Name)):
                raise Untranslatable(f"line {n.lineno}: open() of a computed path")
            names.add(n.args[0].id)
    locks = [n for n in ast.walk(fn) if isinstance(n, ast.Call) and dotted(n.func) == "FileLock"]
    for n in locks:
        a = n.args[0] if n.args else None
        if isinstance(a, ast.BinOp) and isinstance(a.left, ast.Name):
            names.add(a.left.id)
    if len(names) != 1:
        raise Untranslatable(f"routine {fn.name}: cannot identify the cache file variable ({sorted(names)})")
    return names.pop()


def find_loaded_var(fn):
    """the local name bound to the result of pickle.load"""
    names = set()
    for n in ast.walk(fn):
        if isinstance(n, ast.Assign) and isinstance(n.value, ast.Call) and dotted(n.value.func) == "pickle.load":
            if len(n.targets) != 1 or not isinstance(n.targets[0], ast.Name):
                raise Untranslatable(f"line {n.lineno}: pickle.load result bound to a pattern")
            names.add(n.targets[0].id)
    if len(names) != 1:
        raise Untranslatable(f"routine {fn.name}: cannot identify the variable holding the unpickled object ({sorted(names)})")
    return names.pop()


def is_lock_ctx(item):
    c = item.context_expr
    if not (isinstance(c, ast.Call) and dotted(c.func) == "FileLock" and c.args):
        return False
    a = c.args[0]
    return (isinstance(a, ast.BinOp) and isinstance(a.op, ast.Add) and is_cache_name(a.left)
            and isinstance(a.right, ast.Constant) and a.right.value == ".lock")


def handler_names(h):
    if h.type is None:
        return ["BaseException"]
    if isinstance(h.type, ast.Tuple):
        elts = h.type.elts
    else:
        elts = [h.type]
    out = []
    for e in elts:
        d = dotted(e)
        if d is None:
            raise Untranslatable(f"line {h.lineno}: computed exception class in except clause")
        out.append(d)
    return out


class SiteVisitor:
    def __init__(self):
        self.sites = []   # dict(kind, line, locked, chain, in_handler, routine)

    def run(self, fn, routine):
        self.routine = routine
        CACHE_VAR["name"] = find_cache_var(fn)
        for st in fn.body:
            self.stmt(st, locked=False, chain=[], in_handler=False)

    def add(self, kind, node, locked, chain, in_handler, extra=None):
        self.sites.append({"kind": kind, "line": node.lineno, "locked": locked, "chain": [list(c) for c in chain],
                           "in_handler": in_handler, "routine": self.routine, "extra": extra})

    def exprs(self, node, locked, chain, in_handler):
        """record the cache operations among the calls of one expression/simple statement"""
        for n in ast.walk(node):
            if isinstance(n, (ast.FunctionDef, ast.Lambda, ast.AsyncFunctionDef)):
                raise Untranslatable(f"line {n.lineno}: nested function inside a cache routine")
            if not isinstance(n, ast.Call):
                continue
            d = dotted(n.func)
            if d == "os.path.exists" and n.args and is_cache_name(n.args[0]):
                self.add(K_EXISTS, n, locked, chain, in_handler)
            elif d == "open":
                if not (n.args and is_cache_name(n.args[0])):
                    raise Untranslatable(f"line {n.lineno}: open() of something else than the cache file")
                mode = [k.value.value for k in n.keywords if k.arg == "mode" and isinstance(k.value, ast.Constant)]
                if len(n.args) > 1 and isinstance(n.args[1], ast.Constant):
                    mode = [n.args[1].value]
                if mode == ["rb"]:
                    self.add(K_OPEN_R, n, locked, chain, in_handler)
                elif mode == ["wb"]:
                    self.add(K_OPEN_W, n, locked, chain, in_handler)
                else:
                    raise Untranslatable(f"line {n.lineno}: cache file opened with mode {mode}")
            elif d in ("pickle.load", "pickle.loads"):
                self.add(K_LOAD, n, locked, chain, in_handler)
            elif d in ("pickle.dump", "pickle.dumps"):
                self.add(K_DUMP, n, locked, chain, in_handler)
            elif d in ("os.remove", "os.unlink", "os.rename", "os.replace", "shutil.rmtree", "shutil.move"):
                if d != "os.remove" or not (n.args and is_cache_name(n.args[0])):
                    raise Untranslatable(f"line {n.lineno}: {d} in a cache routine is not modelled")
                self.add(K_REMOVE, n, locked, chain, in_handler)
            elif d == "FileLock":
                raise Untranslatable(f"line {n.lineno}: FileLock used outside a with statement")

    def is_typecheck(self, st):
        if isinstance(st, ast.Assert):
            t = st.test
            return isinstance(t, ast.Call) and dotted(t.func) == "isinstance"
        if isinstance(st, ast.If):
            t = st.test
            if isinstance(t, ast.UnaryOp) and isinstance(t.op, ast.Not) and isinstance(t.operand, ast.Call) \
                    and dotted(t.operand.func) == "isinstance" and len(st.body) == 1 and isinstance(st.body[0], ast.Raise):
                return True
        return False

    def stmt(self, st, locked, chain, in_handler):
        if self.is_typecheck(st):
            raised = "AssertionError"
            if isinstance(st, ast.If):
                r = st.body[0].exc
                raised = dotted(r.func) if isinstance(r, ast.Call) else dotted(r)
                if raised is None:
                    raise Untranslatable(f"line {st.lineno}: type check raises a computed exception")
            self.add(K_TYPECHECK, st, locked, chain, in_handler, extra=raised)
            return
        if isinstance(st, ast.With):
            lk = [is_lock_ctx(i) for i in st.items]
            for i in st.items:
                if not is_lock_ctx(i):
                    self.exprs(i.context_expr, locked, chain, in_handler)
                else:
                    self.add(K_LOCK, st, locked, chain, in_handler)
            for b in st.body:
                self.stmt(b, locked or any(lk), chain, in_handler)
            return
        if isinstance(st, ast.Try):
            if st.finalbody:
                raise Untranslatable(f"line {st.lineno}: try/finally in a cache routine is not modelled")
            hs = []
            for h in st.handlers:
                hs += handler_names(h)
            for b in st.body:
                self.stmt(b, locked, [hs] + chain, in_handler)
            for h in st.handlers:
                for b in h.body:
                    self.stmt(b, locked, chain, True)
            for b in st.orelse:
                self.stmt(b, locked, chain, in_handler)
            return
        if isinstance(st, (ast.If, ast.For, ast.While)):
            self.exprs(st.test if not isinstance(st, ast.For) else st.iter, locked, chain, in_handler)
            for b in st.body + st.orelse:
                self.stmt(b, locked, chain, in_handler)
            return
        if isinstance(st, (ast.FunctionDef, ast.ClassDef, ast.AsyncFunctionDef, ast.AsyncWith, ast.AsyncFor, ast.Match)):
            raise Untranslatable(f"line {st.lineno}: {type(st).__name__} inside a cache routine")
        if hasattr(ast, "TryStar") and isinstance(st, ast.TryStar):
            raise Untranslatable(f"line {st.lineno}: try/except* in a cache routine")
        self.exprs(st, locked, chain, in_handler)


def find_routines(tree):
    found = {}

    def walk(body, prefix):
        for n in body:
            if isinstance(n, ast.ClassDef):
                walk(n.body, prefix + n.name + ".")
            elif isinstance(n, (ast.FunctionDef, ast.AsyncFunctionDef)):
                found[prefix + n.name] = n
    walk(tree.body, "")
    return found


def cache_ops_outside(tree, routines):
    """pickle / FileLock / cache-file use anywhere else in the module (the model would miss it)"""
    inside = set()
    for fn in routines:
        for n in ast.walk(fn):
            inside.add(id(n))
    bad = []
    for n in ast.walk(tree):
        if id(n) in inside or not isinstance(n, ast.Call):
            continue
        d = dotted(n.func)
        if d in ("pickle.load", "pickle.loads", "pickle.dump", "pickle.dumps", "FileLock"):
            bad.append((d, n.lineno))
    return bad


def exception_table(repo):
    """id-stable table of exception classes: builtins + pickle + filelock.Timeout + classes of spsdk/exceptions.py and the
    exception classes defined in database.py (read with ast: the driver never imports the code under test)."""
    classes = {}

    def rec(c):
        if c.__module__ not in ("builtins",):
            return
        classes[c.__name__] = [b.__name__ for b in c.__mro__ if issubclass(b, BaseException)]
        for s in c.__subclasses__():
            rec(s)
    rec(BaseException)
    for c in (pickle.PickleError, pickle.PicklingError, pickle.UnpicklingError):
        classes["pickle." + c.__name__] = ["pickle." + b.__name__ if b.__module__ in ("pickle", "_pickle") else b.__name__
                                           for b in c.__mro__ if issubclass(b, BaseException)]
    try:
        import filelock
        classes["filelock.Timeout"] = ["filelock.Timeout"] + [b.__name__ for b in filelock.Timeout.__mro__[1:]
                                                              if issubclass(b, BaseException)]
    except ImportError:   # pragma: no cover
        raise Untranslatable("filelock is not importable in the checking interpreter")
    # SPSDK exception classes by ast
    for rel in ("spsdk/exceptions.py", "spsdk/utils/database.py"):
        tree = ast.parse(open(os.path.join(repo, rel)).read())
        pending = [n for n in tree.body if isinstance(n, ast.ClassDef)]
        progress = True
        while progress:
            progress = False
            for n in list(pending):
                bases = [dotted(b) for b in n.bases]
                if len(bases) == 1 and bases[0] in classes:
                    classes[n.name] = [n.name] + classes[bases[0]]
                    pending.remove(n)
                    progress = True
    return classes


def coq_str(s):
    return "[" + "; ".join(f"{ord(c)}%N" for c in s) + "]"


def regen():
    repo = vlib.REPO
    src = os.path.join(repo, "spsdk/utils/database.py")
    tree = ast.parse(open(src).read())
    fns = find_routines(tree)
    for q in ROUTINES:
        if q not in fns:
            raise Untranslatable(f"routine {q} not found in spsdk/utils/database.py")
    outside = cache_ops_outside(tree, [fns[q] for q in ROUTINES])
    if outside:
        raise Untranslatable(f"cache operations outside the modelled routines: {outside}")
    vis = SiteVisitor()
    for q, short in ROUTINES.items():
        vis.run(fns[q], short)
    sites = vis.sites
    for short in ("quick", "init", "make"):
        shape = [s["kind"] for s in sites if s["routine"] == short and s["kind"] != K_LOCK]
        nlocks = len([s for s in sites if s["routine"] == short and s["kind"] == K_LOCK])
        if shape != [k for k in EXPECTED_SHAPE[short] if k != K_LOCK] or nlocks > EXPECTED_SHAPE[short].count(K_LOCK):
            raise Untranslatable(f"shape of routine '{short}' changed: operations {[KNAME[k] for k in shape]} "
                                 f"(the model was written for {[KNAME[k] for k in EXPECTED_SHAPE[short]]})")
    # the quick-info routine must return the loaded object only under `db_hash == loaded_db.db_hash`
    classes = exception_table(repo)
    names = sorted(classes)
    ident = {n: i + 1 for i, n in enumerate(names)}

    def hid(name, line):
        if name not in ident:
            raise Untranslatable(f"line {line}: exception class {name} in an except clause is not in the class table")
        return ident[name]

    def site(routine, kind, nth=0):
        ss = [s for s in sites if s["routine"] == routine and s["kind"] == kind]
        return ss[nth]

    def chain_term(s):
        return "[" + "; ".join("[" + "; ".join(f"{hid(n, s['line'])}%N" for n in c) + "]" for c in s["chain"]) + "]"

    out = ["(* GENERATED on every run by tools/regen_c18.py from spsdk/utils/database.py, spsdk/exceptions.py and the",
           "   exception hierarchy of the running interpreter -- do not edit. *)",
           "From Coq Require Import ZArith NArith List Bool.", "Import ListNotations.", "Local Open Scope N_scope.", "",
           "(* exception classes: id -> ids of the class itself and all its bases (issubclass table) *)",
           "Definition exn_ancestors : list (N * list N) := ["]
    rows = []
    for n in names:
        rows.append(f"  ({ident[n]}, [{'; '.join(str(ident[a]) for a in classes[n] if a in ident)}])  (* {n} *)")
    out.append(";\n".join(rows))
    out.append("].")
    out.append("")
    for n in ("BaseException", "Exception", "AssertionError", "AttributeError", "EOFError", "FileNotFoundError", "OSError",
              "MemoryError", "UnicodeDecodeError", "KeyboardInterrupt", "SystemExit", "pickle.UnpicklingError",
              "pickle.PickleError", "filelock.Timeout", "SPSDKError", "ValueError", "KeyError", "ImportError",
              "ModuleNotFoundError", "IndexError", "TypeError", "RecursionError", "ZeroDivisionError", "OverflowError",
              "PermissionError"):
        if n not in ident:
            raise Untranslatable(f"class {n} missing from the exception table")
        out.append(f"Definition EXN_{n.replace('.', '_')} : N := {ident[n]}.")
    out.append("")
    out.append("Definition exn_names : list (N * list N) := [")
    out.append(";\n".join(f"  ({ident[n]}, {coq_str(n)})" for n in names))
    out.append("].")
    out.append("")
    out.append("(* cache file operations: (routine, kind, source line is left out on purpose, inside FileLock?, inside an except body?,")
    out.append("   guarding except tuples innermost first).  routine: 1 quick-info, 2 DatabaseData.__init__, 3 make_cache;")
    out.append("   kind: " + ", ".join(f"{k} {v}" for k, v in KNAME.items()) + " *)")
    out.append("Definition cache_sites : list (N * N * bool * bool * list (list N)) := [")
    rid = {"quick": 1, "init": 2, "make": 3}
    out.append(";\n".join(f"  ({rid[s['routine']]}, {s['kind']}, {str(s['locked']).lower()}, {str(s['in_handler']).lower()}, {chain_term(s)})"
                          for s in sites))
    out.append("].")
    out.append("")

    def flag(name, s, field="locked"):
        out.append(f"Definition {name} : bool := {str(bool(s[field])).lower()}.")

    def chain(name, s):
        out.append(f"Definition {name} : list (list N) := {chain_term(s) if s is not None else '[]'}.")

    def lock_site(routine, for_kind):
        """the FileLock statement that encloses the (first) operation of the given kind, or None"""
        ops = [x for x in sites if x["routine"] == routine and x["kind"] == for_kind]
        if not ops or not ops[0]["locked"]:
            return None
        before = [x for x in sites if x["routine"] == routine and x["kind"] == K_LOCK and x["line"] <= ops[0]["line"]]
        return before[-1] if before else None

    def exn_of(name, s):
        out.append(f"Definition {name} : N := {hid(s['extra'], s['line'])}.")

    # quick-info routine
    flag("quick_read_locked", site("quick", K_LOAD)); flag("quick_open_r_locked", site("quick", K_OPEN_R))
    chain("quick_read_guard", site("quick", K_LOAD)); chain("quick_open_r_guard", site("quick", K_OPEN_R))
    chain("quick_lock_r_guard", lock_site("quick", K_LOAD)); chain("quick_typecheck_guard", site("quick", K_TYPECHECK))
    exn_of("quick_typecheck_raises", site("quick", K_TYPECHECK))
    flag("quick_write_locked", site("quick", K_DUMP)); flag("quick_open_w_locked", site("quick", K_OPEN_W))
    chain("quick_write_guard", site("quick", K_DUMP)); chain("quick_open_w_guard", site("quick", K_OPEN_W))
    chain("quick_lock_w_guard", lock_site("quick", K_DUMP))
    # DatabaseData.__init__
    flag("init_read_locked", site("init", K_LOAD)); flag("init_open_r_locked", site("init", K_OPEN_R))
    chain("init_read_guard", site("init", K_LOAD)); chain("init_open_r_guard", site("init", K_OPEN_R))
    chain("init_lock_guard", lock_site("init", K_LOAD)); chain("init_typecheck_guard", site("init", K_TYPECHECK))
    exn_of("init_typecheck_raises", site("init", K_TYPECHECK))
    flag("init_stale_remove_locked", site("init", K_REMOVE, 0)); chain("init_stale_remove_guard", site("init", K_REMOVE, 0))
    flag("init_stale_remove_in_handler", site("init", K_REMOVE, 0), "in_handler")
    flag("init_handler_remove_locked", site("init", K_REMOVE, 1)); chain("init_handler_remove_guard", site("init", K_REMOVE, 1))
    flag("init_handler_remove_in_handler", site("init", K_REMOVE, 1), "in_handler")
    flag("init_handler_exists_in_handler", site("init", K_EXISTS, 1), "in_handler")
    # make_cache
    flag("make_exists_locked", site("make", K_EXISTS)); flag("make_read_locked", site("make", K_LOAD))
    flag("make_open_r_locked", site("make", K_OPEN_R))
    chain("make_read_guard", site("make", K_LOAD)); chain("make_open_r_guard", site("make", K_OPEN_R))
    chain("make_typecheck_guard", site("make", K_TYPECHECK)); exn_of("make_typecheck_raises", site("make", K_TYPECHECK))
    chain("make_lock_guard", lock_site("make", K_DUMP))
    flag("make_write_locked", site("make", K_DUMP)); flag("make_open_w_locked", site("make", K_OPEN_W))
    chain("make_write_guard", site("make", K_DUMP)); chain("make_open_w_guard", site("make", K_OPEN_W))

    # --- complete_load arguments of the two get_db calls of the quick-info routine, cache-enabled test of __init__,
    #     and the fingerprint comparisons
    qfn = fns["DatabaseManager._get_quick_info_db"]
    dis_calls, other_calls = [], []

    def get_db_calls(node):
        res = []
        for n in ast.walk(node):
            if isinstance(n, ast.Call) and dotted(n.func) in ("cls.get_db", "DatabaseManager.get_db"):
                val = False
                if n.args:
                    if not isinstance(n.args[0], ast.Constant):
                        raise Untranslatable(f"line {n.lineno}: computed complete_load")
                    val = bool(n.args[0].value)
                for k in n.keywords:
                    if k.arg == "complete_load":
                        if not isinstance(k.value, ast.Constant):
                            raise Untranslatable(f"line {n.lineno}: computed complete_load")
                        val = bool(k.value.value)
                res.append(val)
        return res
    dis_if = [n for n in qfn.body if isinstance(n, ast.If) and dotted(n.test) == "SPSDK_CACHE_DISABLED"]
    if len(dis_if) != 1 or dis_if[0].orelse:
        raise Untranslatable("the `if SPSDK_CACHE_DISABLED:` branch of _get_quick_info_db changed shape")
    dis_calls = get_db_calls(dis_if[0])
    other_calls = [v for st in qfn.body if st is not dis_if[0] for v in get_db_calls(st)]
    if len(dis_calls) != 1 or len(other_calls) != 1:
        raise Untranslatable(f"expected one get_db call in the cache-disabled branch and one in the rebuild path, found {dis_calls} {other_calls}")
    out.append(f"Definition disabled_branch_complete_load : bool := {str(dis_calls[0]).lower()}.")
    out.append(f"Definition rebuild_complete_load : bool := {str(other_calls[0]).lower()}.")

    def has_hash_compare(fn, op, loaded):
        """`if <name> <op> <loaded>.db_hash:` (either order) -> the If node"""
        for n in ast.walk(fn):
            if isinstance(n, ast.If) and isinstance(n.test, ast.Compare) and len(n.test.ops) == 1 \
                    and isinstance(n.test.ops[0], op):
                sides = [n.test.left] + n.test.comparators
                ds = [dotted(x) for x in sides]
                if loaded + ".db_hash" in ds and any(isinstance(x, ast.Name) for x in sides):
                    return n
        return None
    qloaded = find_loaded_var(qfn)
    qh = has_hash_compare(qfn, ast.Eq, qloaded)
    returns = [n for n in ast.walk(qfn) if isinstance(n, ast.Return) and dotted(n.value) == qloaded]
    if not returns:
        raise Untranslatable("_get_quick_info_db never returns the loaded cache")
    inside = set(id(x) for b in (qh.body if qh is not None else []) for x in ast.walk(b))
    guarded_ret = qh is not None and all(id(r) in inside for r in returns)
    out.append(f"Definition quick_hash_checked : bool := {str(bool(guarded_ret)).lower()}.")
    ifn = fns["Database.DatabaseData.__init__"]
    iloaded = find_loaded_var(ifn)
    ih = has_hash_compare(ifn, ast.NotEq, iloaded)
    ih_ok = ih is not None and any(isinstance(b, ast.Assign) and dotted(b.targets[0]) == iloaded
                                   and isinstance(b.value, ast.Constant) and b.value.value is None for b in ih.body)
    out.append(f"Definition init_hash_checked : bool := {str(bool(ih_ok)).lower()}.")
    # the cache is read by __init__ whenever the cache is enabled
    gate = [n for n in ifn.body if isinstance(n, ast.If) and any(isinstance(x, ast.Name) and x.id == "SPSDK_CACHE_DISABLED"
                                                                   for x in ast.walk(n.test))]
    if len(gate) != 1:
        raise Untranslatable("the cache-enabled test of DatabaseData.__init__ changed shape")

    def ev(e, env):
        if isinstance(e, ast.Name) and e.id in env:
            return env[e.id]
        if isinstance(e, ast.UnaryOp) and isinstance(e.op, ast.Not):
            return not ev(e.operand, env)
        if isinstance(e, ast.BoolOp):
            vs = [ev(v, env) for v in e.values]
            return all(vs) if isinstance(e.op, ast.And) else any(vs)
        raise Untranslatable(f"line {e.lineno}: cache-enabled test is not a boolean formula over the two flags")
    for cl in (True, False):
        if not ev(gate[0].test, {"SPSDK_CACHE_DISABLED": False, "complete_load": cl}):
            raise Untranslatable("DatabaseData.__init__ does not read the cache although it is enabled: model must be revisited")
    # the two removes of __init__ are modelled as unlocked single system calls
    if site("init", K_REMOVE, 0)["locked"] or site("init", K_REMOVE, 1)["locked"]:
        raise Untranslatable("os.remove of the data cache moved under the lock: model must be revisited")
    for short in ("quick", "init", "make"):
        exp = [(k, d) for k, d in zip(EXPECTED_SHAPE[short], EXPECTED_DEPTH[short]) if k != K_LOCK]
        got = [x for x in sites if x["routine"] == short and x["kind"] != K_LOCK]
        for x, (k, want) in zip(got, exp):
            if len(x["chain"]) not in want[0] or x["in_handler"] != want[1]:
                raise Untranslatable(f"line {x['line']}: try/except nesting around {KNAME[x['kind']]} in routine '{short}' changed "
                                     f"(depth {len(x['chain'])}, in except body: {x['in_handler']})")
    global _LAST
    _LAST = {"ident": ident, "classes": classes, "sites": sites,
             "tuples": sorted({tuple(t) for x in sites for t in x["chain"]})}
    text = "\n".join(out) + "\n"
    vlib.write_if_changed(os.path.join(vlib.COQ, "Gen", "GenCache.v"), text)
    return text


_LAST = None


def table():
    if _LAST is None:
        regen()
    return _LAST


if __name__ == "__main__":
    print(regen())
