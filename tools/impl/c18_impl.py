"""C18 implementation runner.

Runner mode (stdin JSON -> stdout JSON, started by vlib.run_impl with PYTHONPATH=<repo>):
  prepares cache folders under <work>, starts REAL SPSDK processes (this same file with --child) whose only
  configuration is the environment (SPSDK_CACHE_FOLDER / SPSDK_CACHE_DISABLED), and classifies cache files.
Child mode (--child <schema-key> <program>):
  first use of the database through the public API (get_families, get_device, get_db, get_schema_file,
  DatabaseManager().quick_info) and prints the answers as one JSON line; an uncaught exception of the API is
  reported with its class and the innermost spsdk frame and exit status 3.
"""
import hashlib
import io
import json
import os
import pickle
import pickletools
import shutil
import subprocess
import sys
import time
import traceback

sys.path.insert(0, os.path.dirname(os.path.abspath(__file__)))

SCHEMAS = ["mbi", "general", "sb31", "cert_block", "hab", "ahab", "pfr", "tz"]
FAMILY_FEATURES = ["mbi", "sb31", "hab", "ahab", "bootable_image", "dat", "pfr", "tz", "fuses", "blhost", "nosuchfeature"]


def digest(obj):
    return hashlib.sha1(json.dumps(obj, sort_keys=True, default=str).encode()).hexdigest()[:16]


# ----------------------------------------------------------------------------------------------- child
def child_main(argv):
    key = int(argv[0])
    program = argv[1] if len(argv) > 1 else "std"
    hook = argv[2] if len(argv) > 2 else ""
    if hook:
        install_schedule_hook(hook)
    ans, first = {}, None

    def q(name, fn):
        """one query through the public API; an exception is an answer too (and makes the start abnormal)"""
        nonlocal first
        try:
            ans[name] = fn()
        except Exception as ex:  # noqa
            where = ""
            for fr in reversed(traceback.extract_tb(ex.__traceback__)):
                if os.sep + "spsdk" + os.sep in fr.filename:
                    where = f"{os.path.basename(fr.filename)}:{fr.name}:{(fr.line or '').strip()[:60]}"
                    break
            ans[name] = "EXC:" + type(ex).__name__
            if first is None:
                stack = [fr.name for fr in traceback.extract_tb(ex.__traceback__) if os.sep + "spsdk" + os.sep in fr.filename]
                first = {"crash": type(ex).__name__, "where": where, "msg": str(ex)[:200], "query": name, "stack": stack}

    from spsdk.utils.database import DatabaseManager, get_db, get_device, get_families, get_schema_file
    import spsdk
    assert os.path.realpath(spsdk.__file__).startswith(os.path.realpath(os.environ["PYTHONPATH"].split(":")[0]) + os.sep)
    if program in ("std", "quick"):
        q("q:families", lambda: digest({f: get_families(f) for f in FAMILY_FEATURES}))
        q("q:families_mbi_count", lambda: len(get_families("mbi")))
        q("q:mem_types", lambda: sorted(DatabaseManager().quick_info.features_data.get_mem_types("bootable_image")))
        q("q:features_of_device", lambda: digest(sorted(DatabaseManager().quick_info.devices.get_feature_list("lpc55s69"))))
        q("q:predecessor", lambda: get_device("lpc55s6x").name)
        q("q:purpose_quick", lambda: DatabaseManager().quick_info.devices.devices["mimxrt1176"].info.purpose)
    if program in ("std", "data"):
        q("f:device_features", lambda: digest(sorted(get_db("lpc55s69").features.keys())))
        q("f:revision", lambda: get_db("lpc55s69").name)
        q("f:purpose", lambda: get_device("mimxrt1176").info.purpose)
        q("d:defaults_marker", lambda: DatabaseManager().db.get_defaults("mbi").get("c18_marker", "none"))
        q("c:schema", lambda: digest(get_schema_file(SCHEMAS[key])))
    out = {"ok": first is None, "answers": ans}
    if first:
        out.update(first)
    rc = 0 if first is None else 3
    sys.stdout.write("\n" + json.dumps(out) + "\n")
    sys.stdout.flush()
    return rc


def install_schedule_hook(spec):
    """Schedule injection for replaying a model schedule on the real code: the action of ANOTHER process
    (`os.remove(cache file)`, exactly what a second SPSDK process executes in its own except handler) is performed at
    the chosen interleaving point of this process.  Nothing of SPSDK is replaced: os.path.exists / os.remove are wrapped
    so that the n-th exists() on the data cache file is followed by the other process's remove."""
    kind, nth = spec.split(":")
    nth = int(nth)
    if kind == "mkdir-lost-race":
        # the n-th creation of the cache folder itself loses the race: another process creates it first
        real_mkdir = os.mkdir
        target = os.path.realpath(os.environ["SPSDK_CACHE_FOLDER"])
        seen = {"n": 0}

        def mkdir(path, *a, **k):
            if os.path.realpath(os.fspath(path)) == target:
                seen["n"] += 1
                if seen["n"] == nth:
                    real_mkdir(path, *a, **k)      # the other process' mkdir happens first
            return real_mkdir(path, *a, **k)
        os.mkdir = mkdir
        return
    real_exists = os.path.exists
    count = {"n": 0}

    def exists(p):
        r = real_exists(p)
        if kind == "remove-after-exists" and isinstance(p, str) and os.path.basename(p).startswith("db_data_") \
                and p.endswith(".cache"):
            count["n"] += 1
            if count["n"] == nth and r:
                os.unlink(p)          # the other process' os.remove happens here
        return r
    os.path.exists = exists


# ----------------------------------------------------------------------------------------------- runner
def child_env(folder, disabled=False, extra=None):
    e = {k: v for k, v in os.environ.items() if not k.startswith("SPSDK_")}
    e.update(extra or {})
    e["SPSDK_CACHE_FOLDER"] = folder
    e["SPSDK_DEBUG_LOGGING_DISABLED"] = "1"
    e["PYTHONHASHSEED"] = "0"
    if disabled:
        e["SPSDK_CACHE_DISABLED"] = "1"
    return e


def spawn(folder, key=0, program="std", disabled=False, hook="", extra=None):
    return subprocess.Popen([sys.executable, os.path.abspath(__file__), "--child", str(key), program, hook],
                            env=child_env(folder, disabled, extra), stdout=subprocess.PIPE, stderr=subprocess.PIPE, text=True,
                            cwd=folder if os.path.isdir(folder) else None)


def collect(p, timeout=120):
    try:
        so, se = p.communicate(timeout=timeout)
    except subprocess.TimeoutExpired:
        p.kill()
        so, se = p.communicate()
        return {"ok": False, "crash": "HANG", "where": "", "rc": -9}
    res = None
    for line in reversed(so.strip().split("\n")):
        if line.startswith("{"):
            try:
                res = json.loads(line)
                break
            except ValueError:
                pass
    if res is None:
        tail = [l for l in se.strip().split("\n") if l.strip()][-1:] or [""]
        res = {"ok": False, "crash": tail[0].split(":")[0].strip() or "NO-OUTPUT", "where": "no json", "msg": se[-300:]}
    res["rc"] = p.returncode
    return res


def names():
    from spsdk.utils.database import DatabaseManager, Database
    import spsdk
    q = os.path.basename(DatabaseManager._get_quick_info_db_path())
    d = os.path.basename(Database.DatabaseData.get_cache_filename(spsdk.SPSDK_DATA_FOLDER))
    return q, d


def current_hashes():
    from spsdk.utils.database import DatabaseManager
    import spsdk
    return DatabaseManager.get_quick_info_hash([spsdk.SPSDK_DATA_FOLDER, DatabaseManager.get_restricted_data(),
                                                spsdk.SPSDK_ADDONS_DATA_FOLDER])


def schema_key_of(path):
    b = os.path.basename(path)
    for i, s in enumerate(SCHEMAS):
        if b == f"sch_{s}.yaml":
            return i
    return 99


_FRESH_CFG = {}


def fresh_cfg_digest(path):
    if path not in _FRESH_CFG:
        from spsdk.utils.misc import load_configuration
        try:
            _FRESH_CFG[path] = digest(load_configuration(path))
        except Exception:  # noqa
            _FRESH_CFG[path] = "unreadable"
    return _FRESH_CFG[path]


def classify_bytes(data, which, ref_quick_digest=None):
    """What does the real unpickler + the real classes make of these bytes (None = no file)."""
    from spsdk.utils.database import Database, DatabaseManager, QuickDatabase
    import spsdk
    if data is None:
        return {"state": "missing"}
    try:
        obj = pickle.load(io.BytesIO(data), encoding="utf-8")
    except Exception as ex:  # noqa
        return {"state": "raises", "exc": qualname(type(ex))}
    want, other = (QuickDatabase, Database.DatabaseData) if which == "quick" else (Database.DatabaseData, QuickDatabase)
    if isinstance(obj, other):
        return {"state": "othercache"}
    if not isinstance(obj, want):
        return {"state": "wrongtype"}
    if not hasattr(obj, "db_hash") or (which == "data" and not hasattr(obj, "cfg_cache")) or \
            (which == "quick" and not hasattr(obj, "devices")):
        return {"state": "hollow"}
    if which == "quick":
        ok = obj.db_hash == current_hashes()
        pd = quick_payload_digest(obj)
        return {"state": "quick", "hash_ok": bool(ok), "payload": pd}
    try:
        h = Database.DatabaseData.hash_db_data(list(obj.cfg_cache.keys()), spsdk.SPSDK_DATA_FOLDER,
                                               DatabaseManager.get_restricted_data(), spsdk.SPSDK_ADDONS_DATA_FOLDER)
        ok = h == obj.db_hash
    except Exception as ex:  # noqa
        return {"state": "raises", "exc": qualname(type(ex))}
    ks = [schema_key_of(k) for k in obj.cfg_cache.keys()]
    honest = [digest(v) == fresh_cfg_digest(k) for k, v in obj.cfg_cache.items()]
    return {"state": "data", "hash_ok": bool(ok), "keys": ks, "honest": honest}


def quick_payload_digest(obj):
    try:
        return digest({f: obj.devices.get_devices_with_feature(f) for f in FAMILY_FEATURES})
    except Exception as ex:  # noqa
        return "broken:" + type(ex).__name__


def qualname(c):
    if c.__module__ in ("builtins",):
        return c.__name__
    if c.__module__ in ("pickle", "_pickle"):
        return "pickle." + c.__name__
    if c.__module__.startswith("filelock"):
        return "filelock." + c.__name__
    return c.__name__


def read_or_none(path):
    try:
        with open(path, "rb") as f:
            return f.read()
    except FileNotFoundError:
        return None


class Raiser:
    def __init__(self, code):
        self.code = code

    def __reduce__(self):
        return (exec, (self.code,))


RAISE_CODE = {
    "UnicodeDecodeError": "raise UnicodeDecodeError('utf-8', b'\\xff', 0, 1, 'crafted')",
    "UnicodeEncodeError": "raise UnicodeEncodeError('utf-8', 'x', 0, 1, 'crafted')",
    "UnicodeTranslateError": "raise UnicodeTranslateError('x', 0, 1, 'crafted')",
    "pickle.UnpicklingError": "import pickle\nraise pickle.UnpicklingError('crafted')",
    "pickle.PicklingError": "import pickle\nraise pickle.PicklingError('crafted')",
    "pickle.PickleError": "import pickle\nraise pickle.PickleError('crafted')",
    "filelock.Timeout": "import filelock\nraise filelock.Timeout('crafted')",
    "SPSDKError": "from spsdk.exceptions import SPSDKError\nraise SPSDKError('crafted')",
}


def make_named(name, which, ref):
    """bytes of a specially prepared cache file"""
    from spsdk.utils.database import Database, QuickDatabase
    if name == "empty":
        return b""
    if name == "other":
        return ref["data" if which == "quick" else "quick"]
    if name == "wrongtype":
        return pickle.dumps({"not": "a database"}, pickle.DEFAULT_PROTOCOL)
    if name == "hollow":
        cls = QuickDatabase if which == "quick" else Database.DatabaseData
        return pickle.dumps(cls.__new__(cls), pickle.DEFAULT_PROTOCOL)
    if name in ("stale", "stale-poisoned"):
        obj = pickle.loads(ref[which])
        obj.db_hash = bytes(20)
        if name == "stale-poisoned":
            if which == "quick":
                obj.devices.devices = {}
                obj.devices.predecessor_lookup = {}
            else:
                for k in list(obj.cfg_cache):
                    obj.cfg_cache[k] = {"poisoned": True}
        return pickle.dumps(obj, pickle.DEFAULT_PROTOCOL)
    if name.startswith("raise:"):
        exc = name[6:]
        code = RAISE_CODE.get(exc, f"raise {exc}('crafted')")
        return pickle.dumps(Raiser(code), pickle.DEFAULT_PROTOCOL)
    raise ValueError(name)


def content_bytes(spec, which, ref):
    k = spec["kind"]
    if k == "missing":
        return None
    if k == "valid":
        return ref[which + (":" + spec["variant"] if spec.get("variant") else "")]
    if k == "prefix":
        return ref[which][:spec["len"]]
    if k == "bytes":
        return bytes.fromhex(spec["hex"])
    if k == "named":
        return make_named(spec["name"], which, ref)
    raise ValueError(k)


def frame_boundaries(data):
    """byte offsets where a pickle opcode starts (every opcode boundary) and the FRAME starts"""
    ops, frames = [], []
    try:
        for op, arg, pos in pickletools.genops(data):
            ops.append(pos)
            if op.name == "FRAME":
                frames.append(pos)
    except Exception:  # noqa
        pass
    return ops, frames


def load_refs(work):
    ref = {}
    for n in os.listdir(os.path.join(work, "ref")):
        ref[n] = open(os.path.join(work, "ref", n), "rb").read()
    return ref


def do_reference(payload):
    work = payload["work"]
    qn, dn = names()
    res = {"names": [qn, dn]}
    os.makedirs(os.path.join(work, "ref"), exist_ok=True)
    # cold start with schema key 0, then warm start, then a second schema (data cache with two records)
    cold = os.path.join(work, "ref_cold")
    shutil.rmtree(cold, ignore_errors=True)
    os.makedirs(cold)
    t = time.time()
    res["cold"] = [collect(spawn(cold, k)) for k in [0]][0]
    res["cold_s"] = round(time.time() - t, 2)
    q, d = read_or_none(os.path.join(cold, qn)), read_or_none(os.path.join(cold, dn))
    res["warm"] = collect(spawn(cold, 0))
    q2, d2 = read_or_none(os.path.join(cold, qn)), read_or_none(os.path.join(cold, dn))
    res["warm_rewrote"] = [q != q2, d != d2]
    res["per_key"] = {}
    for k in range(payload.get("nkeys", 4)):
        f = os.path.join(work, f"ref_key{k}")
        shutil.rmtree(f, ignore_errors=True)
        os.makedirs(f)
        res["per_key"][str(k)] = collect(spawn(f, k))
        shutil.rmtree(f, ignore_errors=True)
    res["second_key"] = collect(spawn(cold, 1))
    d3 = read_or_none(os.path.join(cold, dn))
    # cache disabled (its own folder: SPSDK removes the whole folder in this mode)
    dis = os.path.join(work, "ref_disabled")
    shutil.rmtree(dis, ignore_errors=True)
    os.makedirs(dis)
    res["disabled"] = collect(spawn(dis, 0, disabled=True))
    res["disabled_folder_left"] = sorted(os.listdir(dis)) if os.path.isdir(dis) else None
    shutil.rmtree(dis, ignore_errors=True)
    if q is None or d is None or d3 is None:
        res["error"] = "the cold start did not write both cache files"
        return res
    for n, b in (("quick", q), ("data", d), ("data:two", d3)):
        with open(os.path.join(work, "ref", n), "wb") as f:
            f.write(b)
    res["sizes"] = {"quick": len(q), "data": len(d), "data:two": len(d3)}
    res["classes"] = {"quick": classify_bytes(q, "quick"), "data": classify_bytes(d, "data"),
                      "data:two": classify_bytes(d3, "data")}
    res["boundaries"] = {}
    for n, b in (("quick", q), ("data", d)):
        ops, frames = frame_boundaries(b)
        res["boundaries"][n] = {"frames": frames, "nops": len(ops), "ops_sample": ops[:: max(1, len(ops) // 40)]}
    shutil.rmtree(cold, ignore_errors=True)
    return res


def do_classify(payload):
    """in-process classification of prefixes / named contents"""
    ref = load_refs(payload["work"])
    out = []
    for which, spec in payload["items"]:
        out.append(classify_bytes(content_bytes(spec, which, ref), which))
    return {"classes": out}


def do_classify_all_prefixes(payload):
    """every byte-length prefix of one reference file: histogram of exception classes + one length per class"""
    ref = load_refs(payload["work"])
    which = payload["which"]
    data = ref[which]
    lo, hi, stride = payload.get("lo", 0), payload.get("hi", len(data)), payload.get("stride", 1)
    hist, first, loaded = {}, {}, []
    n = 0
    for k in range(lo, min(hi, len(data)), stride):
        c = classify_bytes(data[:k], which)
        n += 1
        key = c["state"] + ":" + c.get("exc", "")
        hist[key] = hist.get(key, 0) + 1
        first.setdefault(key, k)
        if c["state"] != "raises":
            loaded.append(k)
    return {"n": n, "hist": hist, "first": first, "loaded_prefix_lengths": loaded[:20]}


def run_case(work, case, ref, names_):
    qn, dn = names_
    top = os.path.join(work, "case_" + str(case["id"]))
    folder = top
    shutil.rmtree(top, ignore_errors=True)
    os.makedirs(top)
    if case.get("nodir"):
        folder = os.path.join(top, "not", "yet", "there")     # SPSDK_CACHE_FOLDER that does not exist yet
    qb, db = content_bytes(case["quick"], "quick", ref), content_bytes(case["data"], "data", ref)
    for n, b in ((qn, qb), (dn, db)):
        if b is not None and not case.get("nodir"):
            with open(os.path.join(folder, n), "wb") as f:
                f.write(b)
    n = case.get("n", 1)
    nkeys = case.get("nkeys", 1)
    keys = case.get("keys") or [i % nkeys for i in range(n)]
    program = case.get("program", "std")
    hook = case.get("hook", "")
    t = time.time()
    ps = [spawn(folder, keys[i], program, hook=hook) for i in range(n)]
    results = [collect(p) for p in ps]
    res = {"id": case["id"], "results": results, "wall_s": round(time.time() - t, 2),
           "final": {"quick": classify_bytes(read_or_none(os.path.join(folder, qn)), "quick"),
                     "data": classify_bytes(read_or_none(os.path.join(folder, dn)), "data")},
           "initial": {"quick": classify_bytes(qb, "quick"), "data": classify_bytes(db, "data")}}
    if case.get("then_start"):
        # a later ordinary start on whatever the first round left behind (is the replaced cache served correctly?)
        res["after"] = collect(spawn(folder, case.get("then_key", 0), program))
        res["final_after"] = {"quick": classify_bytes(read_or_none(os.path.join(folder, qn)), "quick"),
                              "data": classify_bytes(read_or_none(os.path.join(folder, dn)), "data")}
    shutil.rmtree(top, ignore_errors=True)
    return res


def make_config_b(work):
    """a second configuration of the data folders: a restricted-data folder whose database_defaults.yaml carries a marker
    and an addons folder that changes the purpose of one device"""
    import spsdk
    import yaml
    from spsdk.utils.misc import load_configuration
    base = os.path.join(work, "cfgB")
    shutil.rmtree(base, ignore_errors=True)
    rd = os.path.join(base, "restricted")
    os.makedirs(os.path.join(rd, "data", "devices"))
    os.makedirs(os.path.join(rd, "data", "common"))
    ver = spsdk.version
    with open(os.path.join(rd, "metadata.yaml"), "w") as f:
        f.write(f'version: "{ver.major}.{ver.minor}"\n')
    defaults = load_configuration(os.path.join(spsdk.SPSDK_DATA_FOLDER, "common", "database_defaults.yaml"))
    defaults["features"]["mbi"]["c18_marker"] = "restricted"
    with open(os.path.join(rd, "data", "common", "database_defaults.yaml"), "w") as f:
        yaml.safe_dump(defaults, f)
    ad = os.path.join(base, "addons")
    os.makedirs(os.path.join(ad, "devices", "mimxrt1176"))
    with open(os.path.join(ad, "devices", "mimxrt1176", "database.yaml"), "w") as f:
        f.write('info:\n  purpose: "C18 addons purpose"\n')
    return {"SPSDK_RESTRICTED_DATA_FOLDER": rd, "SPSDK_ADDONS_DATA_FOLDER": ad}


def do_configs(payload):
    """a cache written under one configuration of restricted/addons folders must not be trusted under another one"""
    work = payload["work"]
    envb = make_config_b(work)
    cfg = {"A": None, "B": envb}
    out = {"disabled": {}, "switch": []}
    for name, extra in cfg.items():
        d = os.path.join(work, "cfg_dis_" + name)
        shutil.rmtree(d, ignore_errors=True)
        os.makedirs(d)
        out["disabled"][name] = collect(spawn(d, 0, disabled=True, extra=extra))
        shutil.rmtree(d, ignore_errors=True)
    for first, second, n in payload["switches"]:
        f = os.path.join(work, f"cfg_{first}{second}{n}")
        shutil.rmtree(f, ignore_errors=True)
        os.makedirs(f)
        w = collect(spawn(f, 0, extra=cfg[first]))            # cold start writes both caches under `first`
        ps = [spawn(f, i % 2, extra=cfg[second]) for i in range(n)]
        rs = [collect(p) for p in ps]
        again = collect(spawn(f, 0, extra=cfg[second]))         # and a start on what they left behind
        out["switch"].append({"first": first, "second": second, "n": n, "writer": w, "results": rs, "again": again,
                              "files": sorted(x for x in os.listdir(f) if x.endswith(".cache"))})
        shutil.rmtree(f, ignore_errors=True)
    shutil.rmtree(os.path.join(work, "cfgB"), ignore_errors=True)
    return out


def do_starts(payload):
    from concurrent.futures import ThreadPoolExecutor
    work = payload["work"]
    ref = load_refs(work)
    nm = names()
    classify_bytes(ref["quick"], "quick")       # warm the in-process helpers before threads start
    classify_bytes(ref["data"], "data")
    single = [c for c in payload["cases"] if c.get("n", 1) == 1]
    multi = [c for c in payload["cases"] if c.get("n", 1) > 1]
    out = {}
    with ThreadPoolExecutor(max_workers=payload.get("jobs", 8)) as ex:
        for r in ex.map(lambda c: run_case(work, c, ref, nm), single):
            out[r["id"]] = r
    for c in multi:
        r = run_case(work, c, ref, nm)
        out[r["id"]] = r
    return {"results": [out[c["id"]] for c in payload["cases"]]}


def do_exceptions(payload):
    """ground truth of `except <tuple>` for every class of the table: real raise inside a real try/except"""
    import filelock  # noqa
    from spsdk.exceptions import SPSDKError  # noqa
    import spsdk.exceptions as se
    import spsdk.utils.database as sd
    ns = {"pickle": pickle, "filelock": filelock}
    ns.update({k: v for k, v in vars(se).items() if isinstance(v, type)})
    ns.update({k: v for k, v in vars(sd).items() if isinstance(v, type) and issubclass(v, BaseException)})

    def resolve(name):
        try:
            return eval(name, ns)   # noqa  names come from our own generated table
        except Exception:  # noqa
            return None
    res = []
    for e, hs in payload["pairs"]:
        ce, chs = resolve(e), [resolve(h) for h in hs]
        if ce is None or any(h is None for h in chs):
            res.append(None)
            continue
        res.append(bool(issubclass(ce, tuple(chs))))
    return {"caught": res}


def handler(payload):
    mode = payload["mode"]
    return {"reference": do_reference, "classify": do_classify, "prefixes": do_classify_all_prefixes,
            "starts": do_starts, "exceptions": do_exceptions, "configs": do_configs}[mode](payload)


if __name__ == "__main__":
    if len(sys.argv) > 1 and sys.argv[1] == "--child":
        sys.exit(child_main(sys.argv[2:]))
    from implbase import main
    main(handler)
