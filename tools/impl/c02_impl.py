"""C02 implementation runner: builds and exports Master Boot Images through the public API
(get_mbi_class, check_config, MasterBootImage.load_from_config / export / rkth) with the key material given by the check.

Input  {"work": <scratch dir>, "cases": [case, ...]}
case = {"family", "target" (db key), "auth" (db key), "app": hex, "opts": {...}, "cert": {...} | None, "cli": bool}
Output per case: outcome of every step, exported bytes, rkth, the (data, signature) pairs handed to / returned by the
signature provider (recorded by wrapping the provider object of the instance -- an observation, behaviour unchanged), and the
observable settings of the object (public attributes) used to drive the Coq export model.
"""
import json
import os
import shutil
import signal
import sys

sys.path.insert(0, os.path.dirname(os.path.abspath(__file__)))
from implbase import main, Hang, _alarm  # noqa: E402


def guarded(fn, seconds=30):
    from spsdk.exceptions import SPSDKError
    signal.signal(signal.SIGALRM, _alarm)
    signal.setitimer(signal.ITIMER_REAL, seconds)
    try:
        r = fn()
        signal.setitimer(signal.ITIMER_REAL, 0)
        return ("ok", r)
    except Hang:
        return ("e", 3, "hang")
    except SPSDKError as ex:
        signal.setitimer(signal.ITIMER_REAL, 0)
        return ("e", 1, type(ex).__name__ + ": " + str(ex)[:300])
    except BaseException as ex:  # noqa
        signal.setitimer(signal.ITIMER_REAL, 0)
        if isinstance(ex, (KeyboardInterrupt, SystemExit)):
            raise
        return ("e", 2, type(ex).__name__ + ": " + str(ex)[:300])


_ctr = [0]


def _det_random(n):
    import hashlib
    _ctr[0] += 1
    out, k = b"", 0
    while len(out) < n:
        out += hashlib.sha256(b"c02-rng-%d-%d" % (_ctr[0], k)).digest()
        k += 1
    return out[:n]


def dump_db():
    """families x offers as the code resolves them (public API: mbi_get_supported_families, get_db, create_mbi_class)"""
    from spsdk.image.mbi import mbi as M
    from spsdk.image.trustzone import TrustZone
    from spsdk.utils.database import DatabaseManager, get_db
    fams = []
    for f in M.mbi_get_supported_families():
        db = get_db(f, "latest")
        images = db.get_dict(DatabaseManager.MBI, "images")
        fixed = db.get_int(DatabaseManager.MBI, ["fixed_image_type"], -1)
        try:
            tzs = TrustZone.get_preset_data_size(f)
        except Exception:  # noqa
            tzs = 0
        offers = []
        for t in images:
            for a in images[t]:
                k = M.create_mbi_class(images[t][a], f)
                offers.append({"target": t, "auth": a, "class": images[t][a], "image_type": int(k.IMAGE_TYPE[0]),
                               "mixins": [b.__name__ for b in k.__bases__[1:]]})
        try:
            isk_limit = db.get_int(DatabaseManager.CERT_BLOCK, "isk_data_limit")
            isk_align = db.get_int(DatabaseManager.CERT_BLOCK, "isk_data_alignment")
        except Exception:  # noqa
            isk_limit, isk_align = 0, 4
        fams.append({"family": f, "fixed_image_type": fixed, "tz_size": tzs, "offers": offers,
                     "isk_data_limit": isk_limit, "isk_data_alignment": isk_align})
    return {"families": fams}


def handler(payload):
    if payload.get("mode") == "dump":
        return dump_db()
    import spsdk.crypto.rng as rng
    rng.random_bytes = _det_random
    from spsdk.image.mbi.mbi import get_mbi_class, MAP_IMAGE_TARGETS, MAP_AUTHENTICATIONS
    from spsdk.image.trustzone import TrustZone
    from spsdk.utils.schema_validator import check_config
    import logging
    logging.disable(logging.CRITICAL)
    work = payload["work"]

    def wr(path, b):
        with open(path, "wb") as f:
            f.write(b)
        return path

    def cert_cfg(case, d):
        c = case["cert"]
        cb = {}
        if c["kind"] == "v1":
            cb["imageBuildNumber"] = c.get("build", 1)
            cb["mainRootCertId"] = c["main"]
            for i, p in enumerate(c["roots"]):
                cb[f"rootCertificate{i}File"] = p
            for j, p in enumerate(c["chain"]):
                cb[f"chainCertificate{c['main']}File{j}"] = p
        elif c["kind"] == "v21":
            cb["mainRootCertId"] = c["main"]
            for i, p in enumerate(c["roots"]):
                cb[f"rootCertificate{i}File"] = p
            cb["useIsk"] = bool(c.get("isk"))
            if c.get("isk"):
                cb["signingCertificateFile"] = c["isk_pub"]
                cb["signPrivateKey"] = c["root_key"]
                if c.get("isk_data"):
                    cb["signCertData"] = wr(os.path.join(d, "isk_data.bin"), bytes.fromhex(c["isk_data"]))
                if c.get("constraints") is not None:
                    cb["signingCertificateConstraint"] = c["constraints"]
        elif c["kind"] == "vx":
            cb["selfSigned"] = bool(c.get("self_signed", True))
            cb["iskPublicKey"] = c["isk_pub"]
            cb["signPrivateKey"] = c["root_key"]
        path = os.path.join(d, "cert_block.json")
        with open(path, "w") as f:
            json.dump(cb, f)
        return path

    def build_config(case, d):
        o = case.get("opts", {})
        cfg = {"family": case["family"],
               "outputImageExecutionTarget": MAP_IMAGE_TARGETS["targets"][case["target"]][0],
               "outputImageAuthenticationType": MAP_AUTHENTICATIONS[case["auth"]][0],
               "masterBootOutputFile": os.path.join(d, "out.bin"),
               "inputImageFile": wr(os.path.join(d, "app.bin"), bytes.fromhex(case["app"]))}
        if o.get("load_address") is not None:
            cfg["outputImageExecutionAddress"] = o["load_address"]
        if o.get("image_version") is not None:
            cfg["imageVersion"] = o["image_version"]
        if o.get("firmware_version") is not None:
            cfg["firmwareVersion"] = o["firmware_version"]
        if o.get("subtype") is not None:
            cfg["outputImageSubtype"] = o["subtype"]
        tz = o.get("tz")
        if tz:
            if tz[0] == "disabled":
                cfg["enableTrustZone"] = False
            elif tz[0] == "default":
                cfg["enableTrustZone"] = True
            else:
                cfg["enableTrustZone"] = True
                cfg["trustZonePresetFile"] = wr(os.path.join(d, "tz.bin"), bytes.fromhex(tz[1]))
        if o.get("hw_key") is not None:
            cfg["enableHwUserModeKeys"] = bool(o["hw_key"])
        if o.get("key_store") is not None:
            cfg["keyStoreFile"] = wr(os.path.join(d, "ks.bin"), bytes.fromhex(o["key_store"]))
        if o.get("hmac_key"):
            cfg["outputImageEncryptionKeyFile"] = o["hmac_key"]
        if o.get("ctr_iv"):
            cfg["CtrInitVector"] = o["ctr_iv"]
        if o.get("reloc"):
            tab = []
            for i, (img, dst) in enumerate(o["reloc"]):
                tab.append({"binary": wr(os.path.join(d, f"rel{i}.bin"), bytes.fromhex(img)), "destAddress": dst, "load": True})
            cfg["applicationTable"] = tab
        if case.get("cert"):
            cfg["certBlock"] = cert_cfg(case, d)
            cfg["signPrivateKey"] = case["cert"]["key"]
        if o.get("digest"):
            cfg["manifestDigestHashAlgorithm"] = o["digest"]
        if o.get("add_digest") is not None:
            cfg["addManifestDigest"] = bool(o["add_digest"])
        if o.get("lifecycle"):
            cfg["lifeCycle"] = o["lifecycle"]
        if o.get("add_cert_hash") is not None:
            cfg["addCertHash"] = bool(o["add_cert_hash"])
        return cfg

    def wrap(m, record):
        sp = getattr(m, "signature_provider", None)
        if sp is not None and not hasattr(sp, "_c02_wrapped"):
            orig = sp.get_signature

            def rec(data_, _orig=orig):
                s = _orig(data_)
                record.append([bytes(data_).hex(), bytes(s).hex()])
                return s
            sp.get_signature = rec
            sp._c02_wrapped = True

    def make(cfg, d, record):
        cls = get_mbi_class(cfg)
        check_config(cfg, cls.get_validation_schemas_family())
        check_config(cfg, cls.get_validation_schemas(cfg["family"], cfg.get("revision", "latest")), search_paths=[d, "."])
        m = cls()
        m.load_from_config(cfg, search_paths=[d, "."])
        wrap(m, record)
        return cls, m

    def observe(m):
        ob = {}
        if hasattr(m, "app"):
            ob["app"] = bytes(m.app).hex() if m.app is not None else None
        for a in ("load_address", "image_version", "image_subtype", "firmware_version"):
            if hasattr(m, a):
                ob[a] = getattr(m, a)
        if hasattr(m, "user_hw_key_enabled"):
            ob["hw_key"] = bool(m.user_hw_key_enabled)
        if hasattr(m, "trust_zone"):
            tz = m.trust_zone
            ob["tz"] = [int(tz.type.tag), bytes(tz.export()).hex()]
        if hasattr(m, "key_store"):
            ob["key_store"] = bytes(m.key_store.export()).hex() if m.key_store else None
        if hasattr(m, "hmac_key"):
            ob["hmac_key"] = bytes(m.hmac_key).hex() if m.hmac_key else None
        if hasattr(m, "_ctr_init_vector"):
            ob["ctr_iv"] = bytes(m.ctr_init_vector).hex()
        if hasattr(m, "app_table"):
            t = m.app_table
            ob["reloc"] = None if not t else [[bytes(e.image).hex(), e.dst_addr, e.flags] for e in t.entries]
        if hasattr(m, "cert_block") and m.cert_block is not None:
            cb = m.cert_block
            ob["cert"] = {"export": bytes(cb.export()).hex(), "expected_size": cb.expected_size,
                          "signature_size": getattr(cb, "signature_size", None), "kind": type(cb).__name__}
            if hasattr(cb, "cert_hash"):
                ob["cert"]["cert_hash"] = bytes(cb.cert_hash).hex()
        if hasattr(m, "manifest") and m.manifest is not None:
            mf = m.manifest
            ob["manifest"] = {"kind": type(mf).__name__, "flags": mf.flags, "total_length": mf.total_length,
                              "fw": mf.firmware_version,
                              "digest": (mf.digest_hash_algo.label if getattr(mf, "digest_hash_algo", None) else None)}
        return ob

    def cli_export(cfg, d):
        """the `nxpimage mbi export` command line (observe_at: output file)"""
        from click.testing import CliRunner
        from spsdk.apps import nxpimage
        cpath = os.path.join(d, "mbi_cfg.json")
        cfg2 = dict(cfg)
        cfg2["masterBootOutputFile"] = os.path.join(d, "cli_out.bin")
        with open(cpath, "w") as f:
            json.dump(cfg2, f)
        r = CliRunner().invoke(nxpimage.main, ["mbi", "export", "-c", cpath], catch_exceptions=True)
        if r.exit_code != 0:
            return ["e", 1, (r.output or "")[-300:]]
        return open(cfg2["masterBootOutputFile"], "rb").read().hex()

    out = []
    for idx, case in enumerate(payload["cases"]):
        d = os.path.join(work, f"case{idx}")
        shutil.rmtree(d, ignore_errors=True)
        os.makedirs(d)
        res = {}
        try:
            sigs = []
            r = guarded(lambda: build_config(case, d))
            if r[0] != "ok":
                res["config"] = list(r)
                continue
            cfg = r[1]
            r = guarded(lambda: make(cfg, d, sigs))
            if r[0] != "ok":
                res["load"] = list(r)
                continue
            cls, m = r[1]
            res["class"] = cls.__name__
            res["mixins"] = [b.__name__ for b in cls.__bases__[1:]]
            res["image_type"] = int(cls.IMAGE_TYPE[0])
            try:
                res["tz_size"] = TrustZone.get_preset_data_size(case["family"])
            except Exception:  # noqa
                res["tz_size"] = 0
            r = guarded(lambda: observe(m))             # settings of the loaded object (also when export refuses)
            if r[0] == "ok":
                res["input"] = r[1]
            r = guarded(lambda: bytes(m.export()))
            if r[0] != "ok":
                res["export"] = list(r)
                continue
            res["export"] = "ok"
            res["image"] = r[1].hex()
            res["signed"] = sigs
            r = guarded(lambda: m.rkth)
            res["rkth"] = (bytes(r[1]).hex() if r[1] is not None else None) if r[0] == "ok" else list(r)
            res["input"] = observe(m)
            res["total_len"] = m.total_len
            res["app_len"] = m.app_len
            if case.get("history"):
                # a second export of the SAME object, optionally after a change through the public attributes
                first = list(sigs)
                res["signed"] = first
                del sigs[:]

                def second():
                    from spsdk.image.keystore import KeyStore, KeySourceType
                    from spsdk.image.trustzone import TrustZone
                    from spsdk.crypto.signature_provider import get_signature_provider
                    for op in case["history"]:
                        if op[0] == "set_app":
                            m.app = bytes.fromhex(op[1])
                        elif op[0] == "set_key_store":
                            m.key_store = None if op[1] is None else KeyStore(KeySourceType.KEYSTORE, bytes.fromhex(op[1]))
                        elif op[0] == "set_tz_custom":
                            m.trust_zone = TrustZone.from_binary(family=case["family"], raw_data=bytes.fromhex(op[1]))
                        elif op[0] == "set_cert":
                            c2 = dict(case)
                            c2["cert"] = op[1]
                            cfg2 = {"family": case["family"], "certBlock": cert_cfg(c2, d)}
                            m.cert_block = type(m.cert_block).from_config(cfg2, search_paths=[d, "."])
                            m.signature_provider = get_signature_provider(local_file_key=op[1]["key"])
                            wrap(m, sigs)
                        elif op[0] == "export":
                            pass
                        else:
                            raise ValueError(op[0])
                    return bytes(m.export())
                r = guarded(second)
                if r[0] == "ok":
                    res["image2"] = r[1].hex()
                    res["signed2"] = list(sigs)
                    r3 = guarded(lambda: m.rkth)
                    res["rkth2"] = (bytes(r3[1]).hex() if r3[1] is not None else None) if r3[0] == "ok" else list(r3)
                    res["input2"] = observe(m)
                    res["app_len2"] = m.app_len
                else:
                    res["image2"] = list(r)
            if case.get("cli"):
                r = guarded(lambda: cli_export(cfg, d), 60)
                res["cli_image"] = r[1] if r[0] == "ok" else list(r)
        finally:
            out.append(res)
            shutil.rmtree(d, ignore_errors=True)
    return {"results": out}


if __name__ == "__main__":
    main(handler)
