"""C16 implementation runner: drives spsdk.utils.images.BinaryImage through its public API.

payload = {"scratch": dir, "cases": [case, ...]}
  case = {"op": "tree", "tree": T, "twin": bool}            -> len / validate / export / absolute addresses
       | {"op": "fmt", "tree": T, "formats": [...], "exec": int|None}   -> save -> load through real files
       | {"op": "bin", "content": hex}                      -> BIN save -> load of one flat image
       | {"op": "hist", "tree": T, "change": {...}, "fresh": T}  -> export twice, change the layout, export, compare with a fresh tree
       | {"op": "cfg", "size", "al", "pat", "regions": [...]}  -> BinaryImage.load_from_config (binary-image merge)
  errors are reported as "!e1" (SPSDKError family) / "!e2:<class>" (other exception) / "!e3" (hang)
  T = {"size": int, "al": int, "off": int, "bin": hex, "pat": None | text, "kids": [[append(0/1), T], ...]}
"""
import os
import sys

sys.path.insert(0, os.path.dirname(os.path.abspath(__file__)))
from implbase import main, guarded


def handler(payload):
    from spsdk.utils.images import BinaryImage
    from spsdk.utils.misc import BinaryPattern

    scratch = payload["scratch"]
    os.makedirs(scratch, exist_ok=True)
    counter = [0]

    def build(t):
        counter[0] += 1
        node = BinaryImage(
            name=f"n{counter[0]}",
            size=t["size"],
            offset=t["off"],
            binary=bytes.fromhex(t["bin"]) if t["bin"] else None,
            pattern=BinaryPattern(t["pat"]) if t["pat"] is not None else None,
            alignment=t["al"],
        )
        for ap, k in t["kids"]:
            child = build(k)
            if ap:
                node.append_image(child)
            else:
                node.add_image(child)
        return node

    def outcome(r):
        if r[0] == "ok":
            return None
        return "!e%d" % r[1] + (":" + r[2] if len(r) > 2 else "")

    def shape(img):
        """nested [absolute_address, len, [children in sub_images order]]"""
        return [img.absolute_address, len(img), [shape(c) for c in img.sub_images]]

    def observe(img):
        res = {}
        r = guarded(lambda: len(img))
        res["len"] = r[1] if r[0] == "ok" else outcome(r)
        r = guarded(img.validate)
        res["validate"] = "ok" if r[0] == "ok" else outcome(r)
        r = guarded(img.export)
        res["export"] = bytes(r[1]).hex() if r[0] == "ok" else outcome(r)
        r = guarded(lambda: shape(img))
        res["shape"] = r[1] if r[0] == "ok" else outcome(r)
        return res

    def loaded(path):
        r = guarded(lambda: BinaryImage.load_binary_image(path))
        if r[0] != "ok":
            return {"load": outcome(r)}
        img = r[1]
        res = {"load": "ok", "offset": img.offset, "exec": img.execution_start_address,
               "segments": [[c.offset, bytes(c.binary).hex() if c.binary else ""] for c in img.sub_images]}
        if len(img) > (1 << 22):      # a wrongly placed image must not make the runner allocate gigabytes
            res["export"] = "!e2:TooLarge"
        else:
            r = guarded(img.export)
            res["export"] = bytes(r[1]).hex() if r[0] == "ok" else outcome(r)
        r = guarded(img.validate)
        res["validate"] = "ok" if r[0] == "ok" else outcome(r)
        return res

    out = []
    for n, case in enumerate(payload["cases"]):
        op = case["op"]
        if op == "tree":
            r = guarded(lambda: build(case["tree"]))
            if r[0] != "ok":
                out.append({"build": outcome(r)})
                continue
            res = {"build": "ok"}
            res.update(observe(r[1]))
            if case.get("twin"):
                t1 = dict(case["tree"])
                t1["al"] = 1
                r1 = guarded(lambda: build(t1))
                if r1[0] == "ok":
                    e = guarded(r1[1].export)
                    res["twin_export"] = bytes(e[1]).hex() if e[0] == "ok" else outcome(e)
                    res["twin_len"] = len(r1[1])
                else:
                    res["twin_export"] = outcome(r1)
            out.append(res)
        elif op == "fmt":
            r = guarded(lambda: build(case["tree"]))
            if r[0] != "ok":
                out.append({"build": outcome(r)})
                continue
            img = r[1]
            img.execution_start_address = case.get("exec")
            res = {"build": "ok"}
            res.update(observe(img))
            for fmt in case["formats"]:
                path = os.path.join(scratch, f"c{n}.{fmt.lower()}")
                s = guarded(lambda: img.save_binary_image(path, fmt))
                if s[0] != "ok":
                    res[fmt] = {"save": outcome(s)}
                else:
                    res[fmt] = loaded(path)
                    res[fmt]["save"] = "ok"
                try:
                    os.remove(path)
                except OSError:
                    pass
            out.append(res)
        elif op == "bin":
            content = bytes.fromhex(case["content"])
            img = BinaryImage("flat", binary=content)
            path = os.path.join(scratch, f"c{n}.bin")
            s = guarded(lambda: img.save_binary_image(path, "BIN"))
            res = {"build": "ok"}
            if s[0] != "ok":
                res["BIN"] = {"save": outcome(s)}
            else:
                res["BIN"] = loaded(path)
                res["BIN"]["save"] = "ok"
            try:
                os.remove(path)
            except OSError:
                pass
            out.append(res)
        elif op == "hist":
            # export twice; change the layout through the public API; export again; compare with a fresh tree
            r = guarded(lambda: build(case["tree"]))
            if r[0] != "ok":
                out.append({"build": outcome(r)})
                continue
            img = r[1]

            def snap(i):
                d = {}
                q = guarded(lambda: len(i))
                d["len"] = q[1] if q[0] == "ok" else outcome(q)
                q = guarded(i.validate)
                d["validate"] = "ok" if q[0] == "ok" else outcome(q)
                q = guarded(i.export)
                d["export"] = bytes(q[1]).hex() if q[0] == "ok" else outcome(q)
                return d

            res = {"build": "ok", "first": snap(img), "second": snap(img)}
            ch = case["change"]
            node = img
            for ix in ch.get("path", []):
                node = node.sub_images[ix]

            def apply_change():
                if ch["kind"] == "add":
                    node.add_image(build(ch["child"]))
                elif ch["kind"] == "append":
                    node.append_image(build(ch["child"]))
                elif ch["kind"] == "bin":
                    node.binary = bytes.fromhex(ch["bin"])
                elif ch["kind"] == "off":
                    node.offset = ch["off"]
                else:
                    raise SystemExit("unknown change")
            q = guarded(apply_change)
            res["change"] = "ok" if q[0] == "ok" else outcome(q)
            res["after"] = snap(img)
            res["after2"] = snap(img)
            f = guarded(lambda: build(case["fresh"]))
            res["fresh"] = snap(f[1]) if f[0] == "ok" else {"build": outcome(f)}
            out.append(res)
        elif op == "cfg":
            # the engine of `nxpimage utils binary-image merge`: BinaryImage.load_from_config
            regions = []
            for k, rg in enumerate(case["regions"]):
                if rg["kind"] == "file":
                    fn = f"c{n}_r{k}.bin"
                    with open(os.path.join(scratch, fn), "wb") as f:
                        f.write(bytes.fromhex(rg["content"]))
                    d = {"path": fn}
                    if rg["offset"] is not None:
                        d["offset"] = rg["offset"]
                    regions.append({"binary_file": d})
                else:
                    d = {"size": rg["size"], "pattern": rg["pattern"]}
                    if rg["offset"] is not None:
                        d["offset"] = rg["offset"]
                    regions.append({"binary_block": d})
            cfg = {"name": "merged", "size": case["size"], "alignment": case["al"], "regions": regions}
            if case["pat"] is not None:
                cfg["pattern"] = case["pat"]
            r = guarded(lambda: BinaryImage.load_from_config(cfg, search_paths=[scratch]))
            if r[0] != "ok":
                out.append({"build": outcome(r)})
            else:
                res = {"build": "ok"}
                res.update(observe(r[1]))
                out.append(res)
            for k, rg in enumerate(case["regions"]):
                try:
                    os.remove(os.path.join(scratch, f"c{n}_r{k}.bin"))
                except OSError:
                    pass
        else:
            raise SystemExit("unknown op " + op)
    return {"results": out}


if __name__ == "__main__":
    main(handler)
