"""C07 implementation runner: HabContainer.load_from_config / export / parse of the real SPSDK (public API).

Payload: {"workdir": dir with the input files, "cases": [{"id", "config", "ops": [...]}], "db": bool}
Randomness is pinned (spsdk.crypto.rng.random_bytes -> fixed pattern) before the modules under test are imported;
cms_sign is wrapped only to *record* what was handed to it (observed signed bytes), never to change it."""
import os
import sys

sys.path.insert(0, os.path.dirname(os.path.abspath(__file__)))
from implbase import main, guarded


def pattern(n):
    return bytes((i * 7 + 3) % 256 for i in range(n))


def handler(payload):
    import spsdk.crypto.rng as rng
    rng.random_bytes = pattern
    rng.rand_below = lambda n: 0
    import spsdk.image.commands as icmds
    from spsdk.image.hab.hab_container import HabContainer
    from spsdk.image.hab import segments as hsegs
    from spsdk.image.commands import (CmdAuthData, CmdCheckData, CmdInitialize, CmdInstallKey, CmdNop, CmdSet,
                                      CmdUnlockAbstract, CmdWriteData)
    from spsdk.image.secret import SrkTable
    assert hsegs.random_bytes is pattern

    signed_log = []
    real_cms_sign = icmds.cms_sign

    def recording_cms_sign(zulu, data, certificate, signing_key, signature_provider):
        out = real_cms_sign(zulu=zulu, data=data, certificate=certificate, signing_key=signing_key,
                            signature_provider=signature_provider)
        signed_log.append((bytes(data), bytes(out)))
        return out

    icmds.cms_sign = recording_cms_sign

    def cmd_summary(c):
        tag, par, size = c.tag, c._header.param, c.size
        if isinstance(c, CmdWriteData):
            f = [x for pair in c for x in pair]
        elif isinstance(c, CmdCheckData):
            f = [c.address, c.mask, -1 if c.count is None else c.count]
        elif isinstance(c, CmdNop):
            f = []
        elif isinstance(c, CmdSet):
            f = [c.hash_algorithm.tag, c.engine.tag, c.engine_cfg]
        elif isinstance(c, CmdInitialize):
            f = list(c)
        elif isinstance(c, CmdUnlockAbstract):
            f = [c.features, c.uid]
        elif isinstance(c, CmdInstallKey):
            f = [c.certificate_format.tag, c.hash_algorithm.tag, c.source_index, c.target_index, c.cmd_data_location]
        elif isinstance(c, CmdAuthData):
            f = [c.key_index, c.sig_format.tag, c.engine.tag, c.engine_cfg, c.location] + [x for b in c for x in b]
        else:
            f = [-999]
        return [tag, par, size] + f

    def observe_parsed(p):
        ivt = p.ivt_segment.segment
        bdt = p.bdt_segment.segment
        out = {"flags": p.flags, "ivt_offset": p.ivt_offset, "start": p.start_address,
               "segments": [type(s).__name__ for s in p.segments],
               "ivt": [ivt.version, ivt.app_address, ivt.dcd_address, ivt.bdt_address, ivt.ivt_address, ivt.csf_address],
               "bdt": [bdt.app_start, bdt.app_length, bdt.plugin],
               "bdt_off": p.bdt_segment.offset,
               "dcd": None if p.dcd_segment is None else p.dcd_segment.export().hex(),
               "dcd_off": None if p.dcd_segment is None else p.dcd_segment.offset,
               "xmcd": None if p.xmcd_segment is None else p.xmcd_segment.export().hex(),
               "app_off": p.app_segment.offset, "app": p.app_segment.binary.hex(), "csf": None}
        csf = p.csf_segment
        if csf is not None:
            seg = csf.segment
            fuses = None
            for c in seg.commands:
                if isinstance(c, CmdInstallKey) and isinstance(c.cmd_data_reference, SrkTable):
                    fuses = c.cmd_data_reference.export_fuses().hex()
            out["csf"] = {"version": seg.version, "off": csf.offset, "cmds": [cmd_summary(c) for c in seg.commands],
                          "fuses": fuses, "reexport": csf.export().hex(),
                          "nonce": None if csf.nonce is None else csf.nonce.hex(), "mac_len": csf.mac_len}
        try:
            out["reexport"] = p.export().hex()
        except Exception as ex:  # noqa  (reported to the oracle, the parse observables stay usable)
            out["reexport"] = None
            out["reexport_error"] = type(ex).__name__
        return out

    wd = payload["workdir"]
    results = []
    for case in payload["cases"]:
        res = {"id": case["id"]}
        ops = case.get("ops", ["build", "parse"])
        cwd = os.getcwd()
        os.chdir(wd)
        try:
            image = None
            hab = None
            if "build" in ops:
                del signed_log[:]

                def build():
                    h = HabContainer.load_from_config(case["config"], search_paths=[wd])
                    return h, h.export()
                r = guarded(build, seconds=120)
                if r[0] == "ok":
                    hab, image = r[1]
                    csf = hab.csf_segment
                    res["build"] = ["ok", {
                        "image": image.hex(), "signed_log": [[d.hex(), s.hex()] for d, s in signed_log],
                        "len": len(hab), "flags": hab.flags, "auth": hab.is_authenticated, "enc": hab.is_encrypted,
                        "dek": None if csf is None or csf.dek is None else csf.dek.hex(),
                        "nonce": None if csf is None or csf.nonce is None else csf.nonce.hex()}]
                    r2 = guarded(hab.export, seconds=60)
                    res["export2_same"] = (r2[0] == "ok" and r2[1] == image)
                else:
                    res["build"] = list(r)
            elif "image" in case:
                image = bytes.fromhex(case["image"])
            if "parse" in ops and image is not None:
                detail = []

                def do_parse():
                    try:
                        return observe_parsed(HabContainer.parse(image))
                    except Exception as ex:  # noqa  (re-raised: only the class name and message are recorded for the oracle)
                        detail[:] = [type(ex).__name__, str(ex)[:160]]
                        raise
                r = guarded(do_parse, seconds=60)
                res["parse"] = (list(r[:2]) + detail) if r[0] != "ok" else ["ok", r[1]]
            if "update_twice" in ops and hab is not None:
                def again():
                    out = []
                    for _ in range(2):          # two further update_csf() calls, export after each
                        hab.update_csf()
                        out.append(hab.export().hex())
                    return out
                r = guarded(again, seconds=240)
                res["update_twice"] = list(r) if r[0] != "ok" else ["ok", r[1]]
        finally:
            os.chdir(cwd)
        results.append(res)
    out = {"results": results}
    if payload.get("db"):
        from spsdk.utils.database import DatabaseManager, get_db
        table = []
        for fam in HabContainer.get_supported_families():
            db = get_db(fam)
            for mem, v in db.get_dict(DatabaseManager.HAB, "mem_types").items():
                table.append([fam, mem, db.get_int(DatabaseManager.HAB, ["mem_types", mem, "initial_load_size"]),
                              db.get_int(DatabaseManager.BOOTABLE_IMAGE, ["mem_types", mem, "segments", "hab_container"])])
        out["db"] = table
    return out


if __name__ == "__main__":
    main(handler)
