"""C10 reference bootloader (the SPEC side of the property), pure Python, no SPSDK imports.

`RefCore`   command semantics of an MCU bootloader (memory, properties, fuses, SB sink, key store) -- what every command
            means, independent of any transport; every command / data byte it receives and every status / data byte
            it emits is appended to `log` so that oracles can compare API results with "what the device sent".
`SerialRef` the CRC-framed UART transport around a core (frame = 5A type len16 crc16 payload; ACK/NAK; one frame in
            flight, the next one is released by the host's ACK).
`HidRef`    the USB-HID transport (report = id 0 len16 payload, no ACKs, reports queued).
The framing helpers are written from the MCU bootloader reference manual, not copied from SPSDK.
"""
import struct

# ---- constants of the protocol specification (compared with SPSDK's tables by the T1 extraction)
START, ACK, NAK, ABORT, CMD, DATA, PING, PINGR = 0x5A, 0xA1, 0xA2, 0xA3, 0xA4, 0xA5, 0xA6, 0xA7
R_GENERIC, R_READMEM, R_GETPROP, R_READONCE, R_READRES, R_KEYBLOB, R_KEYPROV, R_TRUST = 0xA0, 0xA3, 0xA7, 0xAF, 0xB0, 0xB3, 0xB5, 0xB6
S_OK, S_FAIL, S_INVALID_ARG, S_UNKNOWN_CMD, S_RANGE, S_UNK_PROP, S_RO_PROP, S_ALIGN = 0, 1, 4, 10000, 10200, 10300, 10301, 101
HID_CMD_OUT, HID_DATA_OUT, HID_CMD_IN, HID_DATA_IN = 1, 2, 3, 4
P_MAX_PACKET = 0x0B
WRITABLE_PROPS = (0x0A, 0x16, 0x1C)


def crc16_xmodem(data, crc=0):
    """CRC-16/XMODEM, bit serial: poly x^16+x^12+x^5+1, init 0, no reflection, no final xor."""
    for b in data:
        crc ^= b << 8
        for _ in range(8):
            crc = ((crc << 1) ^ 0x1021) & 0xFFFF if crc & 0x8000 else (crc << 1) & 0xFFFF
    return crc


def frame(ftype, payload):
    hdr = bytes([START, ftype]) + struct.pack("<H", len(payload))
    return hdr + struct.pack("<H", crc16_xmodem(hdr + payload)) + payload


def report(rid, payload):
    return bytes([rid, 0]) + struct.pack("<H", len(payload)) + payload


def response(tag, *params):
    return bytes([tag, 0, 0, len(params)]) + b"".join(struct.pack("<I", p & 0xFFFFFFFF) for p in params)


def parse_stream(stream):
    """STRICT decoder of a device->host serial byte stream: list of items ('ack',) ('nak',) ('abort',)
    ('frame', type, payload) or None when the stream is not a sequence of well formed, CRC-valid items
    (idle 0x00 bytes between items are allowed)."""
    items, i, n = [], 0, len(stream)
    while i < n:
        if stream[i] == 0:
            i += 1
            continue
        if stream[i] == ACK:           # SPSDK-1824 work-around: an ACK whose start byte got lost is tolerated by design
            items.append(("ack",))
            i += 1
            continue
        if stream[i] != START or i + 1 >= n:
            return None
        t = stream[i + 1]
        if t in (ACK, NAK, ABORT):
            items.append(({ACK: "ack", NAK: "nak", ABORT: "abort"}[t],))
            i += 2
            continue
        if t not in (CMD, DATA) or i + 6 > n:
            return None
        ln, crc = struct.unpack_from("<HH", stream, i + 2)
        if ln == 0:                    # a frame of length zero is the protocol's "data phase aborted" marker
            items.append(("abort",))
            i += 6
            continue
        payload = bytes(stream[i + 6:i + 6 + ln])
        # the CRC must cover the payload that was delivered together with ITS length (a frame cut short by the end of
        # the stream is only acceptable when the CRC was computed for exactly the bytes that arrived)
        if ln == 0 or not payload or crc16_xmodem(bytes(stream[i:i + 2]) + struct.pack("<H", len(payload)) + payload) != crc:
            return None
        items.append(("frame", t, payload))
        i += 6 + ln
    return items


class RefCore:
    """Transport independent command semantics."""

    def __init__(self, cfg):
        self.base = cfg.get("base", 0)
        self.mem = bytearray(bytes.fromhex(cfg["mem"])) if "mem" in cfg else bytearray(cfg.get("mem_size", 256))
        self.mps = cfg.get("mps", 32)
        self.props = {int(k): list(v) for k, v in cfg.get("props", {}).items()}
        self.props[P_MAX_PACKET] = [self.mps]
        self.fuses = {int(k): v for k, v in cfg.get("fuses", {}).items()}
        self.keystore = bytes.fromhex(cfg.get("keystore", ""))
        self.fail_cmd = {int(k): v for k, v in cfg.get("fail_cmd", {}).items()}      # tag -> status of the first response
        self.fail_final = {int(k): v for k, v in cfg.get("fail_final", {}).items()}  # tag -> status of the final response
        self.sb, self.images, self.userkeys = [], bytearray(), []
        self.log = []            # everything received / emitted, in order (last field: index of the host write)
        self.wi = 0
        self.phase = None        # None | ['out', tag, expected, buf, complete]

    # -- helpers
    def L(self, entry):
        """log an event together with the number of host writes seen so far"""
        self.log.append(list(entry) + [self.wi])

    def in_range(self, a, n):
        return self.base <= a and a + n <= self.base + len(self.mem)

    def generic(self, status, tag):
        self.L(["status", tag, status])
        return response(R_GENERIC, status, tag)

    # -- one command packet (bytes) -> (first response bytes, data to send or None, final response or None)
    def command(self, pkt):
        tag, flags, _rsv, n = pkt[0], pkt[1], pkt[2], pkt[3]
        params = list(struct.unpack_from(f"<{n}I", pkt, 4)) if len(pkt) >= 4 + 4 * n else []
        self.L(["cmd", tag, flags, params])
        p = params + [0] * 8
        if tag in self.fail_cmd:
            return self.generic(self.fail_cmd[tag], tag), None, None
        fin = self.fail_final.get(tag, S_OK)
        if tag == 0x01 or tag == 0x0D:                        # erase all / erase all unsecure
            self.mem[:] = b"\xff" * len(self.mem)
            return self.generic(S_OK, tag), None, None
        if tag == 0x02:                                       # erase region
            if not self.in_range(p[0], p[1]):
                return self.generic(S_RANGE, tag), None, None
            o = p[0] - self.base
            self.mem[o:o + p[1]] = b"\xff" * p[1]
            return self.generic(S_OK, tag), None, None
        if tag == 0x03:                                       # read memory
            if not self.in_range(p[0], p[1]):
                return self.generic(S_RANGE, tag), None, None
            o = p[0] - self.base
            data = bytes(self.mem[o:o + p[1]])
            self.L(["status", tag, S_OK])
            return response(R_READMEM, S_OK, p[1]), data, (tag, fin)
        if tag == 0x04:                                       # write memory
            if not self.in_range(p[0], p[1]):
                return self.generic(S_RANGE, tag), None, None

            def done(buf, a=p[0]):
                if fin == S_OK:
                    self.mem[a - self.base:a - self.base + len(buf)] = buf
            self.phase = ["out", tag, p[1], bytearray(), done, fin]
            return self.generic(S_OK, tag), None, None
        if tag == 0x05:                                       # fill memory
            if p[0] % 4 or p[1] % 4:
                return self.generic(S_ALIGN, tag), None, None
            if not self.in_range(p[0], p[1]):
                return self.generic(S_RANGE, tag), None, None
            o = p[0] - self.base
            self.mem[o:o + p[1]] = (struct.pack("<I", p[2]) * (p[1] // 4 + 1))[:p[1]]
            return self.generic(S_OK, tag), None, None
        if tag == 0x07:                                       # get property
            if p[0] in self.props:
                vals = self.props[p[0]]
                self.L(["status", tag, S_OK])
                self.L(["values", list(vals)])
                return response(R_GETPROP, S_OK, *vals), None, None
            self.L(["status", tag, S_UNK_PROP])
            return response(R_GETPROP, S_UNK_PROP), None, None
        if tag == 0x0C:                                       # set property
            if p[0] not in self.props:
                return self.generic(S_UNK_PROP, tag), None, None
            if p[0] not in WRITABLE_PROPS:
                return self.generic(S_RO_PROP, tag), None, None
            self.props[p[0]] = [p[1]]
            return self.generic(S_OK, tag), None, None
        if tag == 0x08:                                       # receive SB file
            def done(buf):
                if fin == S_OK:
                    self.sb.append(bytes(buf))
            self.phase = ["out", tag, p[0], bytearray(), done, fin]
            return self.generic(S_OK, tag), None, None
        if tag == 0x0E:                                       # program once (index, byte count, words...)
            if p[1] not in (4, 8) or n != 2 + p[1] // 4:
                return self.generic(S_INVALID_ARG, tag), None, None
            for k in range(p[1] // 4):
                self.fuses[p[0] + k] = self.fuses.get(p[0] + k, 0) | p[2 + k]
            return self.generic(S_OK, tag), None, None
        if tag == 0x0F:                                       # read once
            if p[1] not in (4, 8):
                self.L(["status", tag, S_INVALID_ARG])
                return response(R_READONCE, S_INVALID_ARG, 0), None, None
            vals = [self.fuses.get(p[0] + k, 0) for k in range(p[1] // 4)]
            self.L(["status", tag, S_OK])
            self.L(["values", list(vals)])
            return response(R_READONCE, S_OK, p[1], *vals), None, None
        if tag == 0x10:                                       # flash read resource: served from the same memory
            if p[1] % 4 or not self.in_range(p[0], p[1]):
                return self.generic(S_RANGE, tag), None, None
            o = p[0] - self.base
            self.L(["status", tag, S_OK])
            return response(R_READRES, S_OK, p[1]), bytes(self.mem[o:o + p[1]]), (tag, fin)
        if tag == 0x15:                                       # key provisioning
            op = p[0]
            if op in (0, 2, 3, 4):
                return self.generic(S_OK, tag), None, None
            if op == 1:
                def done(buf, kt=p[1]):
                    if fin == S_OK:
                        self.userkeys.append([kt, bytes(buf).hex()])
                self.phase = ["out", tag, p[2], bytearray(), done, fin]
                return self.generic(S_OK, tag), None, None
            if op == 5:
                def done(buf):
                    if fin == S_OK:
                        self.keystore = bytes(buf)
                self.phase = ["out", tag, p[2], bytearray(), done, fin]
                return self.generic(S_OK, tag), None, None
            if op == 6:
                self.L(["status", tag, S_OK])
                return response(R_KEYPROV, S_OK, len(self.keystore)), bytes(self.keystore), (tag, fin)
            return self.generic(S_INVALID_ARG, tag), None, None
        if tag in (0x06, 0x09, 0x0A, 0x11, 0x12, 0x18, 0x19):  # commands without a data phase and no modelled effect
            return self.generic(S_OK, tag), None, None
        return self.generic(S_UNKNOWN_CMD, tag), None, None

    def data_out(self, chunk):
        """A data packet from the host. Returns the final response bytes when the phase completes, else None."""
        self.L(["data_out", bytes(chunk).hex()])
        if self.phase is None:                               # load-image style: data without a command
            self.images += chunk
            return None
        ph = self.phase
        ph[3] += chunk
        if len(ph[3]) >= ph[2]:
            self.phase = None
            ph[4](bytes(ph[3][:ph[2]]))
            return self.generic(ph[5], ph[1])
        return None

    def chunks(self, data):
        return [data[i:i + self.mps] for i in range(0, len(data), self.mps)]

    def snapshot(self):
        return {"mem": bytes(self.mem).hex(), "props": {str(k): v for k, v in sorted(self.props.items())},
                "fuses": {str(k): v for k, v in sorted(self.fuses.items())}, "keystore": self.keystore.hex(),
                "sb": [s.hex() for s in self.sb], "images": bytes(self.images).hex(), "userkeys": self.userkeys,
                "log": self.log}


class SerialRef:
    """UART framing around a core; `recv(bytes written by the host)` returns the bytes the device puts on the line."""

    def __init__(self, core):
        self.core = core
        self.queue = []          # frames waiting for the host's ACK of the previous frame

    def recv(self, w):
        w = bytes(w)
        c = self.core
        if w == bytes([START, ACK]):
            return self.queue.pop(0) if self.queue else b""
        if w == bytes([START, PING]):
            body = bytes([START, PINGR]) + struct.pack("<IH", 0x50010300, 0)
            return body + struct.pack("<H", crc16_xmodem(body))
        if len(w) < 6 or w[0] != START or w[1] not in (CMD, DATA):
            return bytes([START, NAK])
        ln, crc = struct.unpack_from("<HH", w, 2)
        payload = w[6:]
        if ln != len(payload) or ln == 0 or crc16_xmodem(w[:4] + payload) != crc:
            return bytes([START, NAK])
        if w[1] == CMD:
            first, data, fin = c.command(payload)
            self.queue = []
            if c.phase is not None and c.phase[2] == 0:      # data phase of zero bytes completes at once
                ph, c.phase = c.phase, None
                ph[4](b"")
                self.queue.append(frame(CMD, c.generic(ph[5], ph[1])))
            if data is not None:
                for ch in c.chunks(data):
                    c.L(["data_in", ch.hex()])
                    self.queue.append(frame(DATA, ch))
                self.queue.append(frame(CMD, c.generic(fin[1], fin[0])))
            return bytes([START, ACK]) + frame(CMD, first)
        final = c.data_out(payload)
        return bytes([START, ACK]) + (frame(CMD, final) if final is not None else b"")


class HidRef:
    """USB-HID framing around a core; recv(report written by the host) queues the device's reports."""

    def __init__(self, core):
        self.core = core
        self.queue = []

    def recv(self, w):
        w = bytes(w)
        c = self.core
        if len(w) < 4:
            return
        rid, ln = w[0], struct.unpack_from("<H", w, 2)[0]
        payload = w[4:4 + ln]
        if rid == HID_CMD_OUT:
            first, data, fin = c.command(payload)
            self.queue.append(report(HID_CMD_IN, first))
            if c.phase is not None and c.phase[2] == 0:
                ph, c.phase = c.phase, None
                ph[4](b"")
                self.queue.append(report(HID_CMD_IN, c.generic(ph[5], ph[1])))
            if data is not None:
                for ch in c.chunks(data):
                    c.L(["data_in", ch.hex()])
                    self.queue.append(report(HID_DATA_IN, ch))
                self.queue.append(report(HID_CMD_IN, c.generic(fin[1], fin[0])))
        elif rid == HID_DATA_OUT:
            final = c.data_out(payload)
            if final is not None:
                self.queue.append(report(HID_CMD_IN, final))


# ======================================================================================================================
# SDP (i.MX ROM serial downloader): reference device.  Command = 16 bytes big endian (tag16, address32, format8, count32,
# value32, reserved8); answers are 4-byte big-endian words: HAB mode first, then a command status where the protocol
# defines one; READ_REGISTER streams `count` raw bytes after the HAB word.
# ======================================================================================================================
SDP_READ, SDP_WRITE, SDP_FILE, SDP_STATUS, SDP_CSF, SDP_DCD, SDP_SKIP, SDP_JUMP, SDP_BAUD = \
    0x0101, 0x0202, 0x0404, 0x0505, 0x0606, 0x0A0A, 0x0C0C, 0x0B0B, 0x0D0D
SDP_WRITE_OK, SDP_FILE_OK, SDP_SKIP_OK, SDP_LOCKED, SDP_UNLOCKED = 0x128A8A12, 0x88888888, 0x900DD009, 0x12343412, 0x56787856


class SdpCore:
    def __init__(self, cfg):
        self.base = cfg.get("base", 0)
        self.mem = bytearray(bytes.fromhex(cfg["mem"]))
        self.locked = bool(cfg.get("locked", 0))
        self.fail = {int(k): v for k, v in cfg.get("fail", {}).items()}     # command tag -> status word sent instead of OK
        self.error_status = cfg.get("error_status", 0xF0F0F0F0)
        self.log = []
        self.pending = None          # [tag, address, count, buf]

    def hab(self):
        return struct.pack(">I", SDP_LOCKED if self.locked else SDP_UNLOCKED)

    def command(self, pkt):
        """16 command bytes -> (list of 4-byte answers, raw data to stream or None)"""
        tag, address, fmt, count, value, _r = struct.unpack(">HIB2IB", pkt[:16])
        self.log.append(["cmd", tag, address, fmt, count, value])
        o = address - self.base
        if tag == SDP_READ:
            data = bytes(self.mem[o:o + count]) if 0 <= o and o + count <= len(self.mem) else b""
            self.log.append(["data_in", data.hex()])
            return [self.hab()], data
        if tag == SDP_WRITE:
            st = self.fail.get(tag, SDP_WRITE_OK)
            if st == SDP_WRITE_OK and 0 <= o and o + count <= len(self.mem) and count in (1, 2, 4):
                self.mem[o:o + count] = value.to_bytes(4, "little")[:count]
            self.log.append(["status", st])
            return [self.hab(), struct.pack(">I", st)], None
        if tag in (SDP_FILE, SDP_CSF, SDP_DCD):
            self.pending = [tag, address, count, bytearray()]
            return ([], None) if count else (self.finish(), None)
        if tag == SDP_STATUS:
            self.log.append(["status", self.error_status])
            return [self.hab(), struct.pack(">I", self.error_status)], None
        if tag == SDP_SKIP:
            st = self.fail.get(tag, SDP_SKIP_OK)
            self.log.append(["status", st])
            return [self.hab(), struct.pack(">I", st)], None
        return [self.hab()], None                       # jump / set baudrate / unknown: HAB word only

    def finish(self):
        tag, address, count, buf = self.pending
        self.pending = None
        ok = SDP_FILE_OK if tag == SDP_FILE else SDP_WRITE_OK
        st = self.fail.get(tag, ok)
        o = address - self.base
        self.log.append(["data_out", bytes(buf).hex()])
        if st == ok and 0 <= o and o + count <= len(self.mem):
            self.mem[o:o + count] = buf[:count]
        self.log.append(["status", st])
        return [self.hab(), struct.pack(">I", st)]

    def data(self, chunk):
        """host data bytes -> answers when the announced count is complete"""
        p = self.pending
        if p is None:
            return []
        p[3] += chunk[:p[2] - len(p[3])]
        return self.finish() if len(p[3]) >= p[2] else []

    def snapshot(self):
        return {"mem": bytes(self.mem).hex(), "log": self.log}


class SdpSerialRef:
    def __init__(self, core):
        self.core, self.inbuf = core, bytearray()

    def recv(self, w):
        c, out = self.core, b""
        self.inbuf += w
        while self.inbuf:
            if c.pending is None:
                if len(self.inbuf) < 16:
                    break
                pkt = bytes(self.inbuf[:16])
                del self.inbuf[:16]
                ans, data = c.command(pkt)
                out += b"".join(ans) + (data or b"")
            else:
                need = c.pending[2] - len(c.pending[3])
                chunk = bytes(self.inbuf[:need])
                del self.inbuf[:need]
                out += b"".join(c.data(chunk))
        return out


class SdpHidRef:
    def __init__(self, core, pad=False):
        self.core, self.queue, self.pad = core, [], pad

    def recv(self, w):
        c = self.core
        if not w:
            return
        if w[0] == 1:
            ans, data = c.command(bytes(w[1:17]))
            self.queue += [bytes([3]) + ans[0]] if ans else []
            if data is not None:
                for i in range(0, len(data), 64):
                    ch = data[i:i + 64]
                    self.queue.append(bytes([4]) + (ch + bytes(64 - len(ch)) if self.pad else ch))
            self.queue += [bytes([4]) + a for a in ans[1:]]
        elif w[0] == 2:
            ans = c.data(bytes(w[1:]))
            if ans:
                self.queue += [bytes([3]) + ans[0]] + [bytes([4]) + a for a in ans[1:]]
