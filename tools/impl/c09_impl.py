"""C09 implementation runner: drives the real spsdk.crypto wrappers, KeyStore.derive_* and the SB3.1 KDF.

Every case is [fn, args...] in the interchange encoding; optional arguments are ["l", []] (None) or ["l", [x]].
Encrypting cases return [ciphertext, outcome of the matching decrypt call on that ciphertext].
"""
import os
import sys

sys.path.insert(0, os.path.dirname(os.path.abspath(__file__)))
from implbase import main, guarded, jv, arg


def res(r):
    if r[0] == "ok":
        return jv(r[1])
    return ["e", r[1]] + ([r[2]] if len(r) > 2 else [])


def handler(payload):
    from spsdk.crypto import symmetric as sym
    from spsdk.crypto import hash as shash
    from spsdk.crypto.hash import EnumHashAlgorithm
    from spsdk.crypto.spsdk_hmac import hmac, hmac_validate
    from spsdk.crypto.cmac import cmac, cmac_validate
    from spsdk.crypto.hkdf import hkdf
    from spsdk.crypto.crc import from_crc_algorithm, CrcAlg
    from spsdk.image.keystore import KeyStore
    from spsdk.sbfile.sb31 import functions as sb31f
    from spsdk.utils.misc import Endianness

    def opt(x):          # [] -> None, [v] -> v
        return None if len(x) == 0 else x[0]

    def alg(tag):
        return EnumHashAlgorithm.from_tag(tag)

    def rt(enc, dec):
        r = guarded(enc)
        if r[0] != "ok":
            return res(r)
        c = r[1]
        return ["l", [jv(c), res(guarded(lambda: dec(c)))]]

    def kwargs_skip_none(**kw):
        return {k: v for k, v in kw.items() if v is not None}

    def cbc(encf, decf, k, d, ive, ivd):
        ive, ivd = opt(ive), opt(ivd)
        # None means "argument left out" (the default applies)
        return rt(lambda: encf(k, d, **kwargs_skip_none(iv_data=ive)), lambda c: decf(k, c, **kwargs_skip_none(iv_data=ivd)))

    def ccm_enc(k, d, n, aad, tl):
        aad, tl = opt(aad), opt(tl)
        kw = kwargs_skip_none(associated_data=aad, tag_len=tl)
        kwd = kwargs_skip_none(tag_len=tl)
        return rt(lambda: sym.aes_ccm_encrypt(k, d, n, **kw), lambda c: sym.aes_ccm_decrypt(k, c, n, aad if aad is not None else b"", **kwd))

    def counter(nonce, cv, big, incs):
        cv = opt(cv)

        def mk():
            if cv is None and not big:
                return sym.Counter(nonce)
            return sym.Counter(nonce, cv, Endianness.BIG if big else Endianness.LITTLE)
        r = guarded(mk)
        if r[0] != "ok":
            return res(r)
        c = r[1]
        out = [res(guarded(lambda: c.value))]
        for i in incs:
            if i == 1 and (len(out) % 2 == 0):
                c.increment()          # exercise the default increment
            else:
                c.increment(i)
            out.append(res(guarded(lambda: c.value)))
        return ["l", out]

    def hash_stream(tag, pieces):
        h = shash.Hash(alg(tag))
        for p in pieces:
            if isinstance(p, int):
                h.update_int(p)
            else:
                h.update(p)
        return h.finalize()

    def crc(label, data, how):
        if how == 0:
            obj = from_crc_algorithm(label)
        else:
            obj = from_crc_algorithm(getattr(CrcAlg, label.upper().replace("-", "_")))   # as the callers do: CrcAlg.CRC32_MPEG
        v = obj.calculate(data)
        assert obj.verify(data, v) and not obj.verify(data, v ^ 1)
        return v

    def g(f):
        return lambda *a: res(guarded(lambda: f(*a)))

    def hash_default(d, tag, use_default):
        return shash.get_hash(d) if use_default else shash.get_hash(d, alg(tag))

    F = {
        1: lambda k, d: rt(lambda: sym.aes_ecb_encrypt(k, d), lambda c: sym.aes_ecb_decrypt(k, c)),
        2: g(sym.aes_ecb_decrypt),
        3: lambda k, d, ive, ivd: cbc(sym.aes_cbc_encrypt, sym.aes_cbc_decrypt, k, d, ive, ivd),
        4: lambda k, d, ivd: res(guarded(lambda: sym.aes_cbc_decrypt(k, d, **kwargs_skip_none(iv_data=opt(ivd))))),
        5: lambda k, d, n: rt(lambda: sym.aes_ctr_encrypt(k, d, n), lambda c: sym.aes_ctr_decrypt(k, c, n)),
        7: lambda k, d, t: rt(lambda: sym.aes_xts_encrypt(k, d, t), lambda c: sym.aes_xts_decrypt(k, c, t)),
        8: g(sym.aes_xts_decrypt),
        9: ccm_enc,
        10: lambda k, d, n, a, tl: res(guarded(lambda: sym.aes_ccm_decrypt(k, d, n, a, **kwargs_skip_none(tag_len=opt(tl))))),
        11: lambda k, d: rt(lambda: sym.aes_key_wrap(k, d), lambda c: sym.aes_key_unwrap(k, c)),
        12: g(sym.aes_key_unwrap),
        13: lambda k, d, ive, ivd: cbc(sym.sm4_cbc_encrypt, sym.sm4_cbc_decrypt, k, d, ive, ivd),
        14: lambda k, d, ivd: res(guarded(lambda: sym.sm4_cbc_decrypt(k, d, **kwargs_skip_none(iv_data=opt(ivd))))),
        15: counter,
        20: g(lambda d, tag: hash_default(d, tag, False)),
        21: g(lambda k, d, tag: hmac(k, d, alg(tag))),
        22: g(lambda k, d, s, tag: hmac_validate(k, d, s, alg(tag))),
        23: g(cmac),
        24: g(cmac_validate),
        25: g(hkdf),
        26: g(lambda label, d: crc(label, d, 0)),
        27: g(lambda label, d: crc(label, d, 1)),
        28: g(lambda d: [shash.get_hash(d), hmac(b"key", d), hmac_validate(b"key", d, hmac(b"key", d)),
                         shash.get_hash_length(EnumHashAlgorithm.SHA256), shash.get_hash_length(EnumHashAlgorithm.SHA384),
                         shash.get_hash_length(EnumHashAlgorithm.SHA512)]),
        30: g(KeyStore.derive_hmac_key),
        31: g(KeyStore.derive_enc_image_key),
        32: g(KeyStore.derive_sb_kek_key),
        33: g(KeyStore.derive_otfad_kek_key),
        34: g(sb31f.derive_kdk),
        35: g(sb31f.derive_block_key),
        36: g(lambda k, ts, kl, r, bn: sb31f.KeyDerivator(k, ts, kl, r).get_block_key(bn)),
        37: g(hash_stream),
    }
    out = []
    for case in payload["cases"]:
        fn = case[0]
        args = [arg(a) for a in case[1:]]
        try:
            out.append(F[fn](*args))
        except BaseException as ex:  # noqa  (harness problem, not an implementation outcome)
            if isinstance(ex, (KeyboardInterrupt, SystemExit)):
                raise
            out.append(["e", 98, type(ex).__name__ + ": " + str(ex)[:200]])
    return {"results": out}


if __name__ == "__main__":
    main(handler)
