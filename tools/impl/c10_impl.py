"""C10 implementation runner: drives the real McuBoot (+ MbootSerialProtocol / MbootBulkProtocol) over DeviceBase stubs.

Two stub modes
  live   : the stub contains the reference bootloader of c10_refdev.py; it reacts to what the host really writes.
  script : the stub serves a fixed device->host byte stream (serial) / report list (HID), whatever the host writes;
           an exhausted stream raises SPSDKTimeoutError immediately (no sleeping).
Everything the host writes and reads is recorded.
"""
import os
import signal
import sys
sys.path.insert(0, os.path.dirname(os.path.abspath(__file__)))
from implbase import main, Hang, _alarm
import c10_refdev as ref


def build(payload):
    from spsdk.exceptions import SPSDKError
    from spsdk.utils.exceptions import SPSDKTimeoutError
    from spsdk.utils.interfaces.device.base import DeviceBase
    from spsdk.utils.interfaces.device.usb_device import UsbDevice
    from spsdk.mboot.mcuboot import McuBoot
    from spsdk.mboot.protocol.serial_protocol import MbootSerialProtocol
    from spsdk.mboot.protocol.bulk_protocol import MbootBulkProtocol

    class Rec:
        """shared recording"""
        def __init__(self):
            self.writes, self.reads, self.nread_calls = [], [], 0

    class SerialStub(DeviceBase):
        """byte-stream device with pyserial semantics: read(n) returns up to n bytes, nothing available = time-out."""
        def __init__(self, dev, stream):
            self.dev, self.buf, self.rec, self._timeout, self._opened = dev, bytearray(stream), Rec(), 5000, True

        @property
        def is_opened(self): return self._opened
        def open(self): self._opened = True
        def close(self): self._opened = False
        @property
        def timeout(self): return self._timeout
        @timeout.setter
        def timeout(self, v): self._timeout = v
        def __str__(self): return "c10 serial stub"

        def read(self, length, timeout=None):
            self.rec.nread_calls += 1
            data = bytes(self.buf[:length])
            del self.buf[:length]
            if not data:
                raise SPSDKTimeoutError()
            self.rec.reads.append(data)
            return data

        def write(self, data, timeout=None):
            self.rec.writes.append(bytes(data))
            if self.dev is not None:
                self.dev.core.wi = len(self.rec.writes)
                self.buf += self.dev.recv(bytes(data))

    class HidStub(UsbDevice):
        """report device: read() returns the next whole report, none queued = time-out."""
        def __init__(self, dev, reports):            # noqa  (UsbDevice.__init__ would open libusbsio)
            self.dev, self.rec, self._timeout, self._opened = dev, Rec(), 2000, True
            self.q = [bytes(r) for r in reports]
            self.vid = self.pid = 0
            self.path, self.serial_number, self.vendor_name, self.product_name, self.interface_number = b"", "", "", "", 0

        @property
        def is_opened(self): return self._opened
        def open(self): self._opened = True
        def close(self): self._opened = False
        def __str__(self): return "c10 hid stub"

        def read(self, length, timeout=None):
            self.rec.nread_calls += 1
            q = self.dev.queue if self.dev is not None else self.q
            if not q:
                raise SPSDKTimeoutError()
            data = q.pop(0)[:length]
            if not data:
                raise SPSDKTimeoutError()
            self.rec.reads.append(data)
            return data

        def write(self, data, timeout=None):
            self.rec.writes.append(bytes(data))
            if self.dev is not None:
                self.dev.core.wi = len(self.rec.writes)
                self.dev.recv(bytes(data))

    def mk(case):
        core = None
        if case["mode"] == "live":
            core = ref.RefCore(case["dev"])
        if case["transport"] == "serial":
            dev = ref.SerialRef(core) if core else None
            stub = SerialStub(dev, bytes.fromhex(case.get("stream", "")))
            iface = MbootSerialProtocol(stub)
        else:
            dev = ref.HidRef(core) if core else None
            stub = HidStub(dev, [bytes.fromhex(r) for r in case.get("reports", [])])
            iface = MbootBulkProtocol(stub)
        mb = McuBoot(iface, cmd_exception=bool(case["cmd_exception"]))
        if case.get("mps_cache") is not None:
            mb.max_packet_size = case["mps_cache"]
        return mb, stub, core

    def mk_sdp(case):
        from spsdk.sdp.sdp import SDP
        from spsdk.sdp.protocol.serial_protocol import SDPSerialProtocol
        from spsdk.sdp.protocol.bulk_protocol import SDPBulkProtocol
        core = ref.SdpCore(case["dev"]) if case["mode"] == "live" else None
        if case["transport"] == "serial":
            stub = SerialStub(ref.SdpSerialRef(core) if core else None, bytes.fromhex(case.get("stream", "")))
            iface = SDPSerialProtocol(stub)
        else:
            stub = HidStub(ref.SdpHidRef(core, bool(case.get("pad"))) if core else None, [bytes.fromhex(r) for r in case.get("reports", [])])
            iface = SDPBulkProtocol(stub)
        if core is not None:
            core.wi = 0
        return SDP(iface, cmd_exception=bool(case["cmd_exception"])), stub, core

    return mk, SPSDKError, mk_sdp


def sdp_call(sdp, op, i, d):
    i = list(i) + [0] * 4
    T = {1: lambda: sdp.read(i[0], i[1], i[2] or 32), 2: lambda: sdp.write(i[0], i[1], i[2], i[3] or 32),
         3: lambda: sdp.write_file(i[0], d), 4: lambda: sdp.write_dcd(i[0], d), 5: lambda: sdp.write_csf(i[0], d),
         6: lambda: sdp.skip_dcd(), 7: lambda: sdp.jump_and_run(i[0]), 8: lambda: sdp.read_status(),
         9: lambda: sdp.read_safe(i[0], i[1], i[2] or 32), 10: lambda: sdp.write_safe(i[0], i[1], i[2], i[3] or 32)}
    return T[op]()


def jres(x):
    if x is None:
        return ["l", []]
    if isinstance(x, bool):
        return ["i", int(x)]
    if isinstance(x, int):
        return ["i", x]
    if isinstance(x, (bytes, bytearray)):
        return ["b", bytes(x).hex()]
    if isinstance(x, (list, tuple)):
        return ["l", [jres(y) for y in x]]
    raise TypeError(type(x))


def call(mb, op, i, d):
    i = list(i) + [0] * 4
    T = {
        1: lambda: mb.flash_erase_all(i[0]),
        2: lambda: mb.flash_erase_region(i[0], i[1], i[2]),
        3: lambda: mb.read_memory(i[0], i[1], i[2]),
        34: lambda: mb.read_memory(i[0], i[1], i[2], fast_mode=True),
        4: lambda: mb.write_memory(i[0], d, i[1]),
        5: lambda: mb.fill_memory(i[0], i[1], i[2]),
        6: lambda: mb.flash_security_disable(d),
        7: lambda: mb.get_property(i[0], i[1]),
        8: lambda: mb.receive_sb_file(d, check_errors=bool(i[0])),
        9: lambda: mb.execute(i[0], i[1], i[2]),
        10: lambda: mb.call(i[0], i[1]),
        12: lambda: mb.set_property(i[0], i[1]),
        13: lambda: mb.flash_erase_all_unsecure(),
        14: lambda: mb.efuse_program_once(i[0], i[1], bool(i[2])),
        15: lambda: mb.efuse_read_once(i[0]),
        16: lambda: mb.flash_read_once(i[0], i[1]),
        17: lambda: mb.flash_program_once(i[0], d),
        18: lambda: mb.flash_read_resource(i[0], i[1], i[2]),
        19: lambda: mb.configure_memory(i[0], i[1]),
        20: lambda: mb.reliable_update(i[0]),
        22: lambda: mb.kp_enroll(),
        23: lambda: mb.kp_set_intrinsic_key(i[0], i[1]),
        24: lambda: mb.kp_write_nonvolatile(i[0]),
        25: lambda: mb.kp_read_nonvolatile(i[0]),
        26: lambda: mb.kp_set_user_key(i[0], d),
        27: lambda: mb.kp_write_key_store(d),
        28: lambda: mb.kp_read_key_store(),
        29: lambda: mb.load_image(d),
        30: lambda: mb.fuse_program(i[0], d, i[1]),
        31: lambda: mb.fuse_read(i[0], i[1], i[2]),
        32: lambda: mb.update_life_cycle(i[0]),
        33: lambda: mb.ele_message(i[0], i[1], i[2], i[3]),
    }
    return T[op]()


def units(us):
    """codec units on the real classes: [kind, args...]"""
    from spsdk.mboot.protocol.serial_protocol import MbootSerialProtocol, FPType
    from spsdk.mboot.protocol.bulk_protocol import MbootBulkProtocol, ReportId
    from spsdk.mboot.commands import parse_cmd_response
    from spsdk.exceptions import SPSDKError
    sp = MbootSerialProtocol.__new__(MbootSerialProtocol)
    bp = MbootBulkProtocol.__new__(MbootBulkProtocol)
    out = []
    for u in us:
        k, d = u[0], bytes.fromhex(u[-1])
        try:
            if k == 10:
                r = ["i", MbootSerialProtocol._calc_crc(d)]
            elif k == 11:
                r = ["b", sp._create_frame(d, FPType.from_tag(u[1])).hex()]
            elif k == 12:
                r = ["b", bp._create_frame(d, ReportId.from_tag(u[1])).hex()]
            else:
                x = parse_cmd_response(d)
                cls = ["CmdResponse", "GenericResponse", "GetPropertyResponse", "ReadMemoryResponse", "FlashReadOnceResponse",
                       "FlashReadResourceResponse", "KeyProvisioningResponse", "TrustProvisioningResponse"].index(type(x).__name__)
                sec = getattr(x, "cmd_tag", getattr(x, "length", 0))
                r = ["l", [["i", cls], ["i", x.header.tag], ["i", x.status], ["i", sec],
                           ["l", [["i", v] for v in getattr(x, "values", [])]], ["b", bytes(getattr(x, "data", b"")).hex()]]]
        except BaseException as ex:  # noqa
            r = ["exc", type(ex).__name__, None, int(isinstance(ex, SPSDKError))]
        out.append(r)
    return out


def run_calls(obj, stub, case, caller, SPSDKError, status):
    results = []
    for c in case["calls"]:
        signal.setitimer(signal.ITIMER_REAL, case.get("time_limit", 20))
        nw = len(stub.rec.writes)
        try:
            v = caller(obj, c[0], c[1], bytes.fromhex(c[2]))
            signal.setitimer(signal.ITIMER_REAL, 0)
            r = ["ok", jres(v)]
        except Hang:
            results.append(["hang"] + status(obj) + [nw])
            break
        except BaseException as ex:  # noqa
            signal.setitimer(signal.ITIMER_REAL, 0)
            if isinstance(ex, (KeyboardInterrupt, SystemExit)):
                raise
            r = ["exc", type(ex).__name__, getattr(ex, "error_value", None), int(isinstance(ex, SPSDKError))]
        results.append(r + status(obj) + [nw])
    return results


def handler(payload):
    mk, SPSDKError, mk_sdp = build(payload)
    signal.signal(signal.SIGALRM, _alarm)
    out = []
    for case in payload.get("cases", []):
        mb, stub, core = mk(case)
        results = []
        for c in case["calls"]:
            signal.setitimer(signal.ITIMER_REAL, case.get("time_limit", 20))
            nw = len(stub.rec.writes)
            try:
                v = call(mb, c[0], c[1], bytes.fromhex(c[2]))
                signal.setitimer(signal.ITIMER_REAL, 0)
                r = ["ok", jres(v)]
            except Hang:
                r = ["hang"]
                results.append(r + [int(mb.status_code), nw])
                break
            except BaseException as ex:  # noqa
                signal.setitimer(signal.ITIMER_REAL, 0)
                if isinstance(ex, (KeyboardInterrupt, SystemExit)):
                    raise
                r = ["exc", type(ex).__name__, getattr(ex, "error_value", None), int(isinstance(ex, SPSDKError))]
            results.append(r + [int(mb.status_code), nw])
        o = {"results": results, "writes": [w.hex() for w in stub.rec.writes], "reads": [x.hex() for x in stub.rec.reads],
             "nread_calls": stub.rec.nread_calls,
             "left": (len(stub.buf) if case["transport"] == "serial" else len(stub.dev.queue if stub.dev else stub.q)),
             "mps_cache": mb.max_packet_size}
        if core is not None:
            o["dev"] = core.snapshot()
        out.append(o)
    sout = []
    for case in payload.get("sdp_cases", []):
        sdp, stub, core = mk_sdp(case)
        res = run_calls(sdp, stub, case, sdp_call, SPSDKError,
                        lambda o: [[int(o.status_code.tag), int(o.hab_status), int(o.cmd_status)]])
        o = {"results": res, "writes": [w.hex() for w in stub.rec.writes], "reads": [x.hex() for x in stub.rec.reads],
             "left": (len(stub.buf) if case["transport"] == "serial" else len(stub.dev.queue if stub.dev else stub.q))}
        if core is not None:
            o["dev"] = core.snapshot()
        sout.append(o)
    return {"cases": out, "units": units(payload.get("units", [])), "sdp_cases": sout}


if __name__ == "__main__":
    main(handler)
