"""C01 implementation runner: builds / exports / parses / re-exports Master Boot Images through the public API
(get_mbi_class, check_config, MasterBootImage.load_from_config / export / parse / create_config).

Input  {"repo": <repo>, "work": <scratch dir>, "cases": [case, ...]}
case = {"family", "target" (db key: xip|load_to_ram), "auth" (db key: plain|crc|signed|nxp_signed|encrypted), "app": hex,
        "opts": {load_address, image_version, firmware_version, subtype, tz: [kind, hex], hw_key, key_store: hex|None,
                 hmac_key: hex|None, ctr_iv: hex|None, reloc: [[hex, dst], ...], cert: name, digest: name|None,
                 add_digest: bool, lifecycle, ...}}
A case with "history": [op, ...] is an object-reuse history on ONE builder object: op = ["export"] or
["set", group, app_hex, opts] (the complete current settings after the change; `group` names the member(s) that change).
The member is taken from a fresh object loaded from the new settings and assigned to the reused object (plain attribute
assignment, what a user of the API does).  After every export the image of a FRESH object with the current settings is
exported as well.
Output per case: dict with outcome of every step; bytes as hex.  Signing calls are *recorded* (data, signature) by wrapping
the signature provider object of the instance -- an observation, the behaviour is unchanged.
"""
import os
import shutil
import sys

sys.path.insert(0, os.path.dirname(os.path.abspath(__file__)))
from implbase import main, Hang, _alarm  # noqa: E402
import signal  # noqa: E402


def guarded(fn, seconds=2):
    """Like implbase.guarded, but keeps the exception text (diagnostics only, never compared)."""
    from spsdk.exceptions import SPSDKError
    signal.signal(signal.SIGALRM, _alarm)
    signal.setitimer(signal.ITIMER_REAL, seconds)
    try:
        r = fn()
        signal.setitimer(signal.ITIMER_REAL, 0)
        return ("ok", r)
    except Hang:
        return ("e", 3, "hang")
    except SPSDKError as ex:
        signal.setitimer(signal.ITIMER_REAL, 0)
        return ("e", 1, type(ex).__name__ + ": " + str(ex)[:300])
    except BaseException as ex:  # noqa
        signal.setitimer(signal.ITIMER_REAL, 0)
        if isinstance(ex, (KeyboardInterrupt, SystemExit)):
            raise
        return ("e", 2, type(ex).__name__ + ": " + str(ex)[:300])

_ctr = [0]


def _det_random(n):
    """Deterministic replacement for spsdk.crypto.rng.random_bytes (distinct values per draw)."""
    import hashlib
    _ctr[0] += 1
    out = b""
    k = 0
    while len(out) < n:
        out += hashlib.sha256(b"c01-rng-%d-%d" % (_ctr[0], k)).digest()
        k += 1
    return out[:n]


def dump_db():
    """T1 data: classes / offers / constants / MRO-resolved stage providers, as the code sees them."""
    import inspect
    from spsdk.image.mbi import mbi as M
    from spsdk.image.mbi import mbi_mixin as X
    from spsdk.image.keystore import KeyStore
    from spsdk.image.trustzone import TrustZone
    from spsdk.utils.database import DatabaseManager, get_db
    fams = M.mbi_get_supported_families()
    mixin_classes = {n: c for n, c in vars(X).items() if inspect.isclass(c) and c.__module__ == X.__name__
                     and (issubclass(c, X.Mbi_Mixin) or issubclass(c, X.Mbi_ExportMixin))
                     and c not in (X.Mbi_Mixin, X.Mbi_ExportMixin)}
    STAGES = ["collect_data", "encrypt", "post_encrypt", "sign", "finalize", "disassemble_image", "update_ivt",
              "check_total_length", "clean_ivt", "disassembly_app_data", "mix_len", "mix_app_len", "mix_parse",
              "mix_validate"]

    def owner(cls, name):
        for k in cls.__mro__:
            if name in vars(k):
                return k.__name__
        return None
    mix = {}
    for n, c in mixin_classes.items():
        mix[n] = {"needed": sorted(getattr(c, "NEEDED_MEMBERS", {}).keys()) if issubclass(c, X.Mbi_Mixin) else [],
                  "pre_parsed": list(getattr(c, "PRE_PARSED", [])) if issubclass(c, X.Mbi_Mixin) else [],
                  "legacy_len": bool(getattr(c, "COUNT_IN_LEGACY_CERT_BLOCK_LEN", True)),
                  "is_export": not issubclass(c, X.Mbi_Mixin),
                  "bases": [b.__name__ for b in c.__mro__[1:] if b.__name__ in mixin_classes],
                  "owns": {s: owner(c, s) for s in STAGES if owner(c, s) not in (None, "Mbi_Mixin", "Mbi_ExportMixin")},
                  "props": sorted(k for k in ("hmac_key", "ivt_table", "ctr_init_vector", "app") if
                                  isinstance(inspect.getattr_static(c, k, None), property))}
    I = X.Mbi_MixinIvt
    consts = {"IVT_IMAGE_LENGTH_OFFSET": I.IVT_IMAGE_LENGTH_OFFSET, "IVT_IMAGE_FLAGS_OFFSET": I.IVT_IMAGE_FLAGS_OFFSET,
              "IVT_CRC_CERTIFICATE_OFFSET": I.IVT_CRC_CERTIFICATE_OFFSET, "IVT_LOAD_ADDR_OFFSET": I.IVT_LOAD_ADDR_OFFSET,
              "IVT_IMAGE_FLAGS_IMAGE_TYPE_MASK": I.IVT_IMAGE_FLAGS_IMAGE_TYPE_MASK,
              "IVT_IMAGE_FLAGS_TZ_TYPE_MASK": I.IVT_IMAGE_FLAGS_TZ_TYPE_MASK,
              "IVT_IMAGE_FLAGS_TZ_TYPE_SHIFT": I.IVT_IMAGE_FLAGS_TZ_TYPE_SHIFT,
              "IVT_IMAGE_FLAGS_IMG_VER_MASK": I.IVT_IMAGE_FLAGS_IMG_VER_MASK,
              "IVT_IMAGE_FLAGS_IMG_VER_SHIFT": I.IVT_IMAGE_FLAGS_IMG_VER_SHIFT,
              "IVT_IMAGE_FLAGS_SUB_TYPE_MASK": I.IVT_IMAGE_FLAGS_SUB_TYPE_MASK,
              "IVT_IMAGE_FLAGS_SUB_TYPE_SHIFT": I.IVT_IMAGE_FLAGS_SUB_TYPE_SHIFT,
              "BOOT_IMAGE_VERSION_FLAG": I._BOOT_IMAGE_VERSION_FLAG, "RELOC_TABLE_FLAG": I._RELOC_TABLE_FLAG,
              "HW_USER_KEY_EN_FLAG": I._HW_USER_KEY_EN_FLAG, "KEY_STORE_FLAG": I._KEY_STORE_FLAG,
              "HMAC_OFFSET": X.Mbi_MixinHmac.HMAC_OFFSET, "HMAC_SIZE": X.Mbi_MixinHmac.HMAC_SIZE,
              "HMAC_KEY_LENGTH": X.Mbi_MixinHmac._HMAC_KEY_LENGTH, "KEY_STORE_SIZE": KeyStore.KEY_STORE_SIZE,
              "CTR_INIT_VECTOR_SIZE": X.Mbi_MixinCtrInitVector._CTR_INIT_VECTOR_SIZE,
              "MANIFEST_DIGEST_PRESENT_FLAG": X.MasterBootImageManifestDigest.DIGEST_PRESENT_FLAG,
              "MANIFEST_HASH_TYPE_MASK": X.MasterBootImageManifestDigest.HASH_TYPE_MASK,
              "MANIFEST_FORMAT_VERSION": X.MasterBootImageManifest.FORMAT_VERSION,
              "MANIFEST_MAGIC": int.from_bytes(X.MasterBootImageManifest.MAGIC, "little"),
              "LTI_LOAD": X.MultipleImageEntry.LTI_LOAD,
              "TZ_ENABLED": 0, "TZ_CUSTOM": 1, "TZ_DISABLED": 2}
    from spsdk.image.trustzone import TrustZoneType
    consts.update({"TZ_ENABLED": TrustZoneType.ENABLED.tag, "TZ_CUSTOM": TrustZoneType.CUSTOM.tag,
                   "TZ_DISABLED": TrustZoneType.DISABLED.tag})
    B = X.Mbi_MixinBcaTable
    for k in ("IMG_DIGEST_SIZE", "IMG_DIGEST_OFFSET", "IMG_SIGNATURE_OFFSET", "IMG_BCA_OFFSET", "IMG_BCA_IMAGE_LENGTH_OFFSET",
              "IMG_BCA_FW_VERSION_OFFSET", "IMG_FCF_OFFSET", "IMG_FCF_SIZE", "IMG_FCF_LIFECYCLE_OFFSET", "IMG_ISK_OFFSET",
              "IMG_ISK_HASH_OFFSET", "IMG_ISK_HASH_SIZE", "IMG_DATA_START", "IMG_SIGNED_HEADER_END",
              "IMG_WPC_ROOT_CA_CERT_HASH_OFFSET", "IMG_WPC_MFG_CA_CERT_OFFSET", "IMG_DUK_BLOCK_OFFSET"):
        consts["BCA_" + k] = getattr(B, k)
    consts["BCA_OFFSET"] = X.Mbi_MixinBca.BCA_OFFSET
    consts["FCF_OFFSET"] = X.Mbi_MixinFcf.FCF_OFFSET
    families = []
    for f in fams:
        db = get_db(f, "latest")
        revs = ["latest"]
        classes = db.get_dict(DatabaseManager.MBI, "mbi_classes")
        images = db.get_dict(DatabaseManager.MBI, "images")
        fixed = db.get_int(DatabaseManager.MBI, ["fixed_image_type"], -1)
        try:
            tzs = TrustZone.get_preset_data_size(f)
        except Exception:  # noqa  family without TrustZone data
            tzs = 0
        cl = {}
        for cn, d in classes.items():
            k = M.create_mbi_class(cn, f)
            cl[cn] = {"image_type": int(k.IMAGE_TYPE[0]), "image_type_name": d["image_type"], "mixins": list(d["mixins"]),
                      "bases": [b.__name__ for b in k.__bases__[1:]],
                      "resolved": {s: owner(k, s) for s in STAGES[:10]},
                      "hasattr": sorted(a for a in ("trust_zone", "image_subtype", "user_hw_key_enabled", "key_store",
                                                    "app_table", "image_version", "image_version_to_image_type",
                                                    "load_address", "hmac_key", "cert_block", "ivt_table", "clean_ivt",
                                                    "disassembly_app_data", "bca", "fcf", "manifest", "_ctr_init_vector")
                                        if hasattr(k, a))}
        offers = [[t, a, images[t][a]] for t in images for a in images[t]]
        families.append({"family": f, "fixed_image_type": fixed, "tz_size": tzs, "classes": cl, "offers": offers})
    return {"mixins": mix, "consts": consts, "families": families,
            "targets": {k: v[0] for k, v in M.MAP_IMAGE_TARGETS["targets"].items()},
            "auths": {k: v[0] for k, v in M.MAP_AUTHENTICATIONS.items()}}


def handler(payload):
    if payload.get("mode") == "dump":
        return dump_db()
    import spsdk.crypto.rng as rng
    rng.random_bytes = _det_random
    rng.token_bytes = _det_random if hasattr(rng, "token_bytes") else None
    from spsdk.image.mbi import mbi as mbimod
    from spsdk.image.mbi.mbi import MasterBootImage, get_mbi_class, MAP_IMAGE_TARGETS, MAP_AUTHENTICATIONS
    from spsdk.image.trustzone import TrustZoneType
    from spsdk.utils.schema_validator import check_config
    import logging
    logging.disable(logging.CRITICAL)

    repo = payload["repo"]
    work = payload["work"]
    data = os.path.join(repo, "tests", "nxpimage", "data")
    ws = os.path.join(data, "workspace")
    CERT = {
        "v1_4x2048": (os.path.join(ws, "cfgs/cert_block/cert_v1_4x2048.yaml"),
                      os.path.join(data, "sb_sources/keys_and_certs/k1_cert0_2048.pem")),
        "v1_chain": (os.path.join(ws, "cfgs/cert_block/cert_v1_chain.yaml"),
                     os.path.join(data, "sb_sources/keys_and_certs/chain_cert_1_pkey_rsa4096.pem")),
        "v21_256_none": (os.path.join(ws, "cfgs/cert_block/cert_256_none.yaml"),
                         os.path.join(ws, "keys_certs/ec_pk_secp256r1_cert0.pem")),
        "v21_384_none": (os.path.join(ws, "cfgs/cert_block/cert_384_none.yaml"),
                         os.path.join(ws, "keys_certs/ec_pk_secp384r1_cert0.pem")),
        "v21_256_256": (os.path.join(ws, "cfgs/cert_block/cert_256_256_data.yaml"),
                        os.path.join(ws, "keys_certs/ec_pk_secp256r1_sign_cert.pem")),
        "v21_384_256": (os.path.join(ws, "cfgs/cert_block/cert_384_256.yaml"),
                        os.path.join(ws, "keys_certs/ec_pk_secp256r1_sign_cert.pem")),
        "v21_384_384": (os.path.join(ws, "cfgs/cert_block/cert_384_384_data.yaml"),
                        os.path.join(ws, "keys_certs/ec_pk_secp384r1_sign_cert.pem")),
        "vx": (os.path.join(ws, "cfgs/cert_block/vx_cert_256_256.yaml"),
               os.path.join(ws, "keys_certs/ec_pk_secp256r1_sign_cert.pem")),
    }

    def fix_paths(cfg_path, outdir):
        """cert block yaml files of the test-suite use windows style relative paths; rewrite into a json copy."""
        from spsdk.utils.misc import load_configuration
        import json
        c = load_configuration(cfg_path)
        for k, v in list(c.items()):
            if isinstance(v, str) and ("\\" in v or v.startswith(".")):
                c[k] = os.path.normpath(os.path.join(data, v.replace("\\", "/")))
        c.pop("containerOutputFile", None)
        out = os.path.join(outdir, os.path.basename(cfg_path) + ".json")
        with open(out, "w") as f:
            json.dump(c, f)
        return out

    def wr(path, b):
        with open(path, "wb") as f:
            f.write(b)
        return path

    def build_config(case, d):
        o = case.get("opts", {})
        cfg = {"family": case["family"],
               "outputImageExecutionTarget": MAP_IMAGE_TARGETS["targets"][case["target"]][0],
               "outputImageAuthenticationType": MAP_AUTHENTICATIONS[case["auth"]][0],
               "masterBootOutputFile": os.path.join(d, "out.bin"),
               "inputImageFile": wr(os.path.join(d, "app.bin"), bytes.fromhex(case["app"]))}
        if "revision" in case:
            cfg["revision"] = case["revision"]
        if o.get("load_address") is not None:
            cfg["outputImageExecutionAddress"] = o["load_address"]
        if o.get("image_version") is not None:
            cfg["imageVersion"] = o["image_version"]
        if o.get("firmware_version") is not None:
            cfg["firmwareVersion"] = o["firmware_version"]
        if o.get("subtype") is not None:
            cfg["outputImageSubtype"] = o["subtype"]
        tz = o.get("tz")
        if tz:
            if tz[0] == "disabled":
                cfg["enableTrustZone"] = False
            elif tz[0] == "default":
                cfg["enableTrustZone"] = True
            else:
                cfg["enableTrustZone"] = True
                cfg["trustZonePresetFile"] = wr(os.path.join(d, "tz.bin"), bytes.fromhex(tz[1]))
        if o.get("hw_key") is not None:
            cfg["enableHwUserModeKeys"] = bool(o["hw_key"])
        if o.get("key_store"):
            cfg["keyStoreFile"] = wr(os.path.join(d, "ks.bin"), bytes.fromhex(o["key_store"]))
        if o.get("hmac_key"):
            cfg["outputImageEncryptionKeyFile"] = o["hmac_key"]
        if o.get("ctr_iv"):
            cfg["CtrInitVector"] = o["ctr_iv"]
        if o.get("reloc"):
            tab = []
            for i, (img, dst) in enumerate(o["reloc"]):
                tab.append({"binary": wr(os.path.join(d, f"rel{i}.bin"), bytes.fromhex(img)), "destAddress": dst, "load": True})
            cfg["applicationTable"] = tab
        if o.get("cert"):
            cb, key = CERT[o["cert"]]
            cfg["certBlock"] = fix_paths(cb, d)
            cfg["signPrivateKey"] = key
        if o.get("digest"):
            cfg["manifestDigestHashAlgorithm"] = o["digest"]
        if o.get("add_digest") is not None:
            cfg["addManifestDigest"] = bool(o["add_digest"])
        if o.get("lifecycle"):
            cfg["lifeCycle"] = o["lifecycle"]
        if o.get("just_header") is not None:
            cfg["justHeader"] = bool(o["just_header"])
        if o.get("add_cert_hash") is not None:
            cfg["addCertHash"] = bool(o["add_cert_hash"])
        return cfg

    def make(cfg, d, record, validate=True):
        cls = get_mbi_class(cfg)
        if validate:
            check_config(cfg, cls.get_validation_schemas_family())
            check_config(cfg, cls.get_validation_schemas(cfg["family"], cfg.get("revision", "latest")), search_paths=[d, "."])
        m = cls()
        m.load_from_config(cfg, search_paths=[d, "."])
        wrap(m, record)
        return cls, m

    def wrap(m, record):
        sp = getattr(m, "signature_provider", None)
        if sp is not None and not hasattr(sp, "_c01_wrapped"):
            orig = sp.get_signature

            def rec(data_, _orig=orig):
                s = _orig(data_)
                record.append([bytes(data_).hex(), bytes(s).hex()])
                return s
            sp.get_signature = rec
            sp._c01_wrapped = True
            sp._c01_orig = orig

    def observe(m):
        """Observable settings of an MBI object (public attributes only)."""
        ob = {}
        if hasattr(m, "app"):
            ob["app"] = bytes(m.app).hex() if m.app is not None else None
        for a in ("load_address", "image_version", "image_subtype", "firmware_version", "lifecycle"):
            if hasattr(m, a):
                ob[a] = getattr(m, a)
        if hasattr(m, "user_hw_key_enabled"):
            ob["hw_key"] = bool(m.user_hw_key_enabled)
        if hasattr(m, "trust_zone"):
            tz = m.trust_zone
            ob["tz"] = [int(tz.type.tag), bytes(tz.export()).hex()]
        if hasattr(m, "key_store"):
            ob["key_store"] = bytes(m.key_store.export()).hex() if m.key_store else None
        if hasattr(m, "hmac_key"):
            ob["hmac_key"] = bytes(m.hmac_key).hex() if m.hmac_key else None
        if hasattr(m, "_ctr_init_vector"):
            ob["ctr_iv"] = bytes(m.ctr_init_vector).hex()
        if hasattr(m, "app_table"):
            t = m.app_table
            ob["reloc"] = None if not t else [[bytes(e.image).hex(), e.dst_addr, e.flags] for e in t.entries]
        if hasattr(m, "cert_block") and m.cert_block is not None:
            cb = m.cert_block
            try:
                ob["cert"] = {"export": bytes(cb.export()).hex(), "expected_size": cb.expected_size,
                              "signature_size": getattr(cb, "signature_size", None), "kind": type(cb).__name__}
                isk = getattr(cb, "isk_certificate", None)
                if isk is not None and getattr(isk, "signature", None):
                    ob["cert"]["isk_signature"] = bytes(isk.signature).hex()
                if hasattr(cb, "cert_hash"):
                    ob["cert"]["cert_hash"] = bytes(cb.cert_hash).hex()
            except Exception as ex:  # noqa
                ob["cert"] = {"error": type(ex).__name__}
        for a in ("add_hash", "just_header"):
            if hasattr(m, a):
                ob[a] = bool(getattr(m, a))
        for a in ("bca", "fcf"):
            if hasattr(m, a):
                v = getattr(m, a)
                ob[a] = bytes(v.export()).hex() if v is not None else None
        if hasattr(m, "manifest") and m.manifest is not None:
            mf = m.manifest
            ob["manifest"] = {"kind": type(mf).__name__, "flags": mf.flags, "total_length": mf.total_length,
                              "fw": mf.firmware_version,
                              "digest": (mf.digest_hash_algo.label if getattr(mf, "digest_hash_algo", None) else None),
                              "crc": getattr(mf, "crc", None)}
        return ob

    def step(res, name, fn, seconds=20):
        r = guarded(fn, seconds)
        if r[0] == "ok":
            res[name] = "ok"
            return r[1]
        res[name] = ["e", r[1]] + ([r[2]] if len(r) > 2 else [])
        return None


    GROUPS = {"app": ["app"], "tz": ["trust_zone", "manifest"], "key_store": ["key_store"], "reloc": ["app_table"],
              "load_address": ["load_address"], "hmac_key": ["hmac_key"], "ctr_iv": ["ctr_init_vector"],
              "cert": ["cert_block", "signature_provider"], "image_version": ["image_version"],
              "hw_key": ["user_hw_key_enabled"], "firmware_version": ["firmware_version", "manifest"]}

    def run_history(case, d, res):
        sigs = []
        cur = {"app": case["app"], "opts": dict(case.get("opts", {}))}

        def cfg_of(sub):
            dd = os.path.join(d, sub)
            os.makedirs(dd, exist_ok=True)
            return build_config(dict(case, app=cur["app"], opts=cur["opts"]), dd), dd
        cm = step(res, "load", lambda: (lambda cd: make(cd[0], cd[1], sigs))(cfg_of("h0")))
        if cm is None:
            return
        cls, m = cm
        res["class"] = cls.__name__
        res["mixins"] = [b.__name__ for b in cls.__bases__[1:]]
        res["image_type"] = int(cls.IMAGE_TYPE[0])
        hist = []
        res["history"] = hist
        for i, op in enumerate(case["history"]):
            if op[0] == "set":
                cur = {"app": op[2], "opts": dict(op[3])}
                e = {"op": "set", "group": op[1]}
                hist.append(e)

                def assign():
                    cfg_i, dd = cfg_of(f"h{i + 1}")
                    _, mf = make(cfg_i, dd, sigs, validate=False)
                    for a in GROUPS[op[1]]:
                        if hasattr(mf, a) and hasattr(m, a):
                            setattr(m, a, getattr(mf, a))
                    return True
                r = guarded(assign, 20)
                e["set"] = "ok" if r[0] == "ok" else ["e", r[1]] + ([r[2]] if len(r) > 2 else [])
                if r[0] != "ok":
                    return
                continue
            e = {"op": "export"}
            hist.append(e)
            n0 = len(sigs)
            r = guarded(lambda: bytes(m.export()), 20)
            e["export"] = "ok" if r[0] == "ok" else ["e", r[1]] + ([r[2]] if len(r) > 2 else [])
            if r[0] == "ok":
                e["image"] = r[1].hex()
                e["signed"] = sigs[n0:]
                e["input"] = observe(m)
                e["total_len"] = m.total_len
                e["app_len"] = m.app_len

            def fresh():
                s2 = []
                cfg_f, ddf = cfg_of(f"f{i}")
                _, mf = make(cfg_f, ddf, s2, validate=False)
                im = bytes(mf.export())
                obf = observe(mf)
                isk2 = (obf.get("cert") or {}).get("isk_signature")
                if isk2:
                    s2.append(["", isk2])
                return im, s2, obf
            rf = guarded(fresh, 30)
            e["fresh"] = "ok" if rf[0] == "ok" else ["e", rf[1]] + ([rf[2]] if len(rf) > 2 else [])
            if rf[0] == "ok":
                e["fresh_image"] = rf[1][0].hex()
                e["fresh_signed"] = rf[1][1]
                e["fresh_input"] = rf[1][2]

    out = []
    for idx, case in enumerate(payload["cases"]):
        d = os.path.join(work, f"case{idx}")
        shutil.rmtree(d, ignore_errors=True)
        os.makedirs(d)
        res = {}
        try:
            if "history" in case:
                res["config"] = "ok"
                run_history(case, d, res)
                continue
            sigs = []
            cfg = step(res, "config", lambda: build_config(case, d))
            if cfg is None:
                continue
            cm = step(res, "load", lambda: make(cfg, d, sigs))
            if cm is None:
                continue
            cls, m = cm
            res["class"] = cls.__name__
            res["mixins"] = [b.__name__ for b in cls.__bases__[1:]]
            res["image_type"] = int(cls.IMAGE_TYPE[0])
            image = step(res, "export", lambda: bytes(m.export()))
            if image is None:
                continue
            res["image"] = image.hex()
            res["signed"] = sigs
            res["input"] = observe(m)
            res["total_len"] = m.total_len
            res["app_len"] = m.app_len
            dek = case.get("opts", {}).get("hmac_key") if case.get("dek", True) else None
            p = step(res, "parse", lambda: MasterBootImage.parse(case["family"], image, dek=dek,
                                                                 revision=case.get("revision", "latest")))
            if p is None:
                continue
            res["parsed_class"] = type(p).__name__
            ob = step(res, "observe", lambda: observe(p))
            if ob is None:
                continue
            res["parsed"] = ob
            # create_config -> load_from_config -> export again (keys that cannot be recovered are re-supplied)
            d2 = os.path.join(d, "re")
            shutil.rmtree(d2, ignore_errors=True)
            os.makedirs(d2)
            cfg2 = step(res, "create_config", lambda: p.create_config(d2))
            if cfg2 is None:
                continue
            res["config2"] = {k: (v if isinstance(v, (int, str, bool, type(None))) else str(v)) for k, v in cfg2.items()}

            def patched():
                c2 = dict(cfg2)
                if "certBlock" in cfg:
                    c2["certBlock"] = cfg["certBlock"]          # same keys / certificates as the original
                if "signPrivateKey" in cfg:
                    c2["signPrivateKey"] = cfg["signPrivateKey"]
                if "outputImageEncryptionKeyFile" in c2:
                    if "outputImageEncryptionKeyFile" in cfg:
                        c2["outputImageEncryptionKeyFile"] = cfg["outputImageEncryptionKeyFile"]
                    else:
                        c2.pop("outputImageEncryptionKeyFile")
                if c2.get("keyStoreFile") is None:
                    c2.pop("keyStoreFile", None)
                for k in ("inputImageFile", "trustZonePresetFile", "keyStoreFile", "bca", "fcf"):
                    if isinstance(c2.get(k), str):
                        c2[k] = os.path.join(d2, c2[k])
                for e in c2.get("applicationTable", []) or []:
                    e["binary"] = os.path.join(d2, e["binary"])
                return c2

            def schema2():
                c2 = patched()
                k2 = get_mbi_class(c2)
                check_config(c2, k2.get_validation_schemas_family())
                check_config(c2, k2.get_validation_schemas(c2["family"], c2.get("revision", "latest")), search_paths=[d2, "."])
                return True
            step(res, "schema2", schema2)

            def reexport():
                sig2 = []
                _, m2 = make(patched(), d2, sig2, validate=False)
                im2 = bytes(m2.export())
                isk2 = (observe(m2).get("cert") or {}).get("isk_signature")
                if isk2:
                    sig2.append(["", isk2])
                return im2, sig2
            r2 = step(res, "reexport", reexport, seconds=30)
            if r2 is not None:
                res["image2"] = r2[0].hex()
                res["signed2"] = r2[1]

            # direct path: the parsed object itself, with the signing key supplied again
            def direct():
                sig3 = []
                sp = getattr(m, "signature_provider", None)
                if sp is not None and hasattr(p, "signature_provider"):
                    sp.get_signature = sp._c01_orig
                    del sp._c01_wrapped
                    p.signature_provider = sp
                    wrap(p, sig3)
                return bytes(p.export()), sig3
            r3 = step(res, "reexport_direct", direct, seconds=30)
            if r3 is not None:
                res["image3"] = r3[0].hex()
                res["signed3"] = r3[1]
        finally:
            out.append(res)
            shutil.rmtree(d, ignore_errors=True)
    return {"results": out}


if __name__ == "__main__":
    main(handler)
