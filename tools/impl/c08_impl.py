"""C08 implementation runner: drives spsdk.crypto.keys / signature_provider / crypto_types / utils (and the
nxpcrypto key/signature commands) through their public API.  JSON in (stdin), JSON out (last line).

payload = {"ops": [ {op: ..., ...}, ... ], "workdir": <scratch dir>}
result  = {"results": [ ["ok", value] | ["e", kind, exception-name] , ... ]}
Big integers travel as JSON ints, byte strings as hex.
"""
import os
import sys

sys.path.insert(0, os.path.dirname(os.path.abspath(__file__)))
sys.set_int_max_str_digits(0)            # integers of several thousand digits travel as JSON numbers
from implbase import main, guarded


def handler(payload):
    from cryptography.hazmat.primitives.asymmetric import ec, rsa, utils as cutils
    from cryptography.hazmat.primitives.serialization import load_der_public_key, load_pem_public_key

    from spsdk.crypto import keys as K
    from spsdk.crypto.crypto_types import SPSDKEncoding
    from spsdk.crypto.hash import EnumHashAlgorithm
    from spsdk.crypto.keys import (ECDSASignature, EccCurve, KeyEccCommon, PrivateKey, PrivateKeyEcc, PrivateKeyRsa,
                                   PublicKey, PublicKeyEcc, PublicKeyRsa)
    from spsdk.crypto.signature_provider import PlainFileSP, SignatureProvider
    from spsdk.crypto.utils import extract_public_key_from_data

    work = payload.get("workdir") or os.getcwd()
    os.makedirs(work, exist_ok=True)
    CURVES = list(EccCurve)
    ENC = {"NXP": SPSDKEncoding.NXP, "PEM": SPSDKEncoding.PEM, "DER": SPSDKEncoding.DER, 0: SPSDKEncoding.NXP,
           1: SPSDKEncoding.DER, 2: SPSDKEncoding.PEM, None: None, -1: None}
    HASH = {"sha1": EnumHashAlgorithm.SHA1, "sha256": EnumHashAlgorithm.SHA256, "sha384": EnumHashAlgorithm.SHA384,
            "sha512": EnumHashAlgorithm.SHA512, None: None}
    table = {}

    def H(x):
        return bytes.fromhex(x)

    def cid(curve):
        return CURVES.index(EccCurve(curve))

    def summary(key):
        """numbers of an SPSDK key object"""
        if isinstance(key, PrivateKeyEcc):
            p = key.get_public_key()
            return ["ecc", cid(key.curve), key.d, p.x, p.y]
        if isinstance(key, PublicKeyEcc):
            return ["ecc", cid(key.curve), None, key.x, key.y]
        if isinstance(key, PrivateKeyRsa):
            n = key.key.private_numbers()
            return ["rsa", n.public_numbers.n, n.public_numbers.e, n.d, n.p, n.q]
        if isinstance(key, PublicKeyRsa):
            return ["rsa", key.n, key.e, None, None, None]
        return ["other", type(key).__name__]

    def kw_of(kw):
        out = {}
        for k, v in (kw or {}).items():
            out[k] = HASH[v] if k in ("algorithm", "hash_alg") else v
        return out

    def bbkey(k):
        """black-box loader result -> model value"""
        if isinstance(k, ec.EllipticCurvePublicKey):
            try:
                c = cid(k.curve.name)
            except ValueError:
                return ["l", [["i", 9]]]
            n = k.public_numbers()
            return ["l", [["i", 0], ["i", c], ["i", n.x], ["i", n.y]]]
        if isinstance(k, rsa.RSAPublicKey):
            n = k.public_numbers()
            return ["l", [["i", 1], ["i", n.e], ["i", n.n]]]
        return ["l", [["i", 9]]]

    def blackboxes(data):
        """what cryptography's loaders say about the data (inputs of the dispatch model)"""
        try:
            pem = bbkey(load_pem_public_key(data))
        except Exception:  # noqa
            pem = ["l", []]
        try:
            der = bbkey(load_der_public_key(data))
        except Exception:  # noqa
            der = ["l", []]
        rsa_valid = 1
        try:
            nums = PublicKeyRsa.recreate_public_numbers(data)
            try:
                nums.public_key()
            except Exception:  # noqa
                rsa_valid = 0
        except Exception:  # noqa
            pass
        otps = 0
        try:
            from spsdk.crypto._otps_puk import nxp_otps_extract_puk
            nxp_otps_extract_puk(data)
            otps = 1
        except Exception:  # noqa
            pass
        return {"pem": pem, "der": der, "rsa_valid": rsa_valid, "otps": otps}

    def keyval(key):
        if isinstance(key, PublicKeyEcc):
            return [0, cid(key.curve), key.x, key.y]
        if isinstance(key, PublicKeyRsa):
            return [1, key.e, key.n]
        raise TypeError(type(key))

    class StubSP(SignatureProvider):
        identifier = "c08-stub"

        def __init__(self, sig):
            self.sig = sig

        def sign(self, data):
            return self.sig

        @property
        def signature_length(self):
            return len(self.sig)

    def cli_convert(blob, enc):
        from click.testing import CliRunner
        from spsdk.apps.nxpcrypto import main as cli_main
        d = os.path.join(work, "cli_m")
        os.makedirs(d, exist_ok=True)
        fin, fout = os.path.join(d, "in.key"), os.path.join(d, "out.key")
        with open(fin, "wb") as f:
            f.write(blob)
        if os.path.exists(fout):
            os.remove(fout)
        res = CliRunner().invoke(cli_main, ["key", "convert", "-e", enc, "-i", fin, "-o", fout])
        if res.exception is not None and not isinstance(res.exception, SystemExit):
            raise res.exception
        if res.exit_code != 0:
            raise RuntimeError(f"exit {res.exit_code}: {res.output[-200:]}")
        return open(fout, "rb").read()

    def flip(b, bit):
        a = bytearray(b)
        a[bit // 8] ^= 1 << (bit % 8)
        return bytes(a)

    def do(op):
        o = op["op"]
        # ------------------------------------------------ model-correspondence functions
        if o == "m":
            fn, a = op["fn"], op["args"]
            if fn == 1:
                return cutils.encode_dss_signature(a[0], a[1])
            if fn == 2:
                return list(cutils.decode_dss_signature(H(a[0])))
            if fn == 3:
                return {SPSDKEncoding.NXP: 0, SPSDKEncoding.DER: 1, SPSDKEncoding.PEM: 2}[ECDSASignature.get_encoding(H(a[0]))]
            if fn == 4:
                return cid(ECDSASignature.get_ecc_curve(a[0]))
            if fn == 5:
                s = ECDSASignature.parse(H(a[0]))
                return [s.r, s.s, cid(s.ecc_curve)]
            if fn == 6:
                return ECDSASignature(a[0], a[1], CURVES[a[2]]).export(ENC[a[3]])
            if fn == 7:
                s = ECDSASignature.parse(ECDSASignature(a[0], a[1], CURVES[a[2]]).export(ENC[a[3]]))
                return [s.r, s.s, cid(s.ecc_curve)]
            if fn == 8:
                return KeyEccCommon.serialize_signature(H(a[0]), a[1])
            if fn == 10:
                return StubSP(H(a[0])).get_signature(b"data", ENC[a[1]])
            if fn == 11:
                k = PublicKeyRsa(rsa.RSAPublicNumbers(e=a[0], n=a[1]).public_key())
                return k.export(SPSDKEncoding.NXP, exp_length=a[2] or None, modulus_length=a[3] or None)
            if fn == 12:
                n = PublicKeyRsa.recreate_public_numbers(H(a[0]))
                return [n.e, n.n]
            if fn == 13:
                return PublicKeyEcc.recreate(a[0], a[1], CURVES[{256: 0, 384: 1, 521: 2}[a[2]]]).export(SPSDKEncoding.NXP)
            if fn == 14:
                return keyval(PublicKeyEcc.recreate_from_data(H(a[0]), CURVES[a[1]] if a[1] >= 0 else None))
            if fn in (15, 16, 17):
                cls = {15: PublicKey, 16: PublicKeyEcc, 17: PublicKeyRsa}[fn]
                return keyval(cls.parse(H(a[0])))
            if fn == 18:
                return 1 if SPSDKEncoding.get_file_encodings(H(a[0])) == SPSDKEncoding.PEM else 0
            if fn in (20, 21):
                # nxpcrypto key convert -e RAW on a PEM file of the key
                if fn == 20:
                    k = PublicKeyEcc.recreate(a[0], a[1], CURVES[{256: 0, 384: 1, 521: 2}[a[2]]])
                    blob = k.export(SPSDKEncoding.PEM)
                else:
                    k = PrivateKeyEcc.recreate(a[0], CURVES[{256: 0, 384: 1, 521: 2}[a[1]]])
                    blob = k.export(encoding=SPSDKEncoding.PEM)
                return cli_convert(blob, "RAW")
            if fn == 22:
                # nxpcrypto key convert -e DER of a raw file = reconstruct_key + export
                out = cli_convert(H(a[0]), "DER")
                try:
                    k = PublicKey.parse(out)
                    return keyval(k)
                except Exception:  # noqa
                    k = PrivateKey.parse(out)
                    return [2, cid(k.curve), k.d]
            raise KeyError(fn)
        if o == "bb":
            return blackboxes(H(op["data"]))
        # ------------------------------------------------ real keys
        if o == "gen_rsa":
            k = PrivateKeyRsa.generate_key(key_size=op["bits"])
            return k.export(encoding=SPSDKEncoding.PEM)
        if o == "load_prv":
            if op["kind"] == "ecc":
                k = PrivateKeyEcc.recreate(op["d"], CURVES[op["curve"]])
            else:
                k = PrivateKeyRsa.parse(H(op["pem"]))
            table[op["id"]] = k
            return summary(k)
        if o == "load_pub":
            if op["kind"] == "ecc":
                k = PublicKeyEcc.recreate(op["x"], op["y"], CURVES[op["curve"]])
            else:
                k = PublicKeyRsa.recreate(op["e"], op["n"])
            table[op["id"]] = k
            return summary(k)
        if o == "props":
            k = table[op["id"]]
            p = k.get_public_key() if isinstance(k, PrivateKey) else k
            return {"signature_size": k.signature_size, "key_size": k.key_size,
                    "default_hash": k.default_hash_algorithm.label,
                    "pub_signature_size": p.signature_size,
                    "coordinate_size": getattr(k, "coordinate_size", None),
                    "verify_public_key": bool(k.verify_public_key(p)) if isinstance(k, PrivateKey) else None}
        if o == "export_prv":
            return table[op["id"]].export(password=op.get("pw"), encoding=ENC[op["enc"]])
        if o == "export_pub":
            k = table[op["id"]]
            p = k.get_public_key() if isinstance(k, PrivateKey) else k
            return p.export(encoding=ENC[op["enc"]])
        if o == "parse_prv":
            cls = {"PrivateKey": PrivateKey, "PrivateKeyEcc": PrivateKeyEcc, "PrivateKeyRsa": PrivateKeyRsa}[op["cls"]]
            k = cls.parse(H(op["data"]), password=op.get("pw"))
            orig = table.get(op.get("cmp"))
            return {"key": summary(k), "eq": bool(k == orig) if orig is not None else None, "cls": type(k).__name__}
        if o == "parse_pub":
            data = H(op["data"])
            if op["cls"] == "extract":
                k = extract_public_key_from_data(data, password=op.get("pw"))
            else:
                cls = {"PublicKey": PublicKey, "PublicKeyEcc": PublicKeyEcc, "PublicKeyRsa": PublicKeyRsa}[op["cls"]]
                k = cls.parse(data)
            orig = table.get(op.get("cmp"))
            if isinstance(orig, PrivateKey):
                orig = orig.get_public_key()
            return {"key": summary(k), "eq": bool(k == orig) if orig is not None else None, "cls": type(k).__name__}
        if o == "sign":
            return table[op["id"]].sign(H(op["data"]), **kw_of(op.get("kw")))
        if o == "verify":
            k = table[op["id"]]
            p = k.get_public_key() if isinstance(k, PrivateKey) else k
            kw = kw_of(op.get("kw"))
            kw.pop("der_format", None)
            return bool(p.verify_signature(H(op["sig"]), H(op["data"]), **kw))
        if o == "match_sig":
            # spsdk.crypto.utils.get_matching_key_id_from_signature over a list of loaded keys
            from spsdk.crypto.utils import get_matching_key_id_from_signature
            pubs = []
            for kid in op["ids"]:
                k = table[kid]
                pubs.append(k.get_public_key() if isinstance(k, PrivateKey) else k)
            kw = kw_of(op.get("kw"))
            kw.pop("der_format", None)
            return get_matching_key_id_from_signature(pubs, H(op["data"]), H(op["sig"]), **kw)
        if o == "verify_flips":
            k = table[op["id"]]
            p = k.get_public_key() if isinstance(k, PrivateKey) else k
            kw = kw_of(op.get("kw"))
            kw.pop("der_format", None)
            sig, data = H(op["sig"]), H(op["data"])
            out = {"msg": [], "sig": []}
            for b in op.get("flip_msg", []):
                r = guarded(lambda: bool(p.verify_signature(sig, flip(data, b), **kw)))
                out["msg"].append(r[1] if r[0] == "ok" else ["e", r[1]] + list(r[2:]))
            for b in op.get("flip_sig", []):
                r = guarded(lambda: bool(p.verify_signature(flip(sig, b), data, **kw)))
                out["sig"].append(r[1] if r[0] == "ok" else ["e", r[1]] + list(r[2:]))
            return out
        if o == "hunt_sig":
            # sign successive messages until the signature has the requested leading-zero shape
            k = table[op["id"]]
            kw = kw_of(op.get("kw"))
            base = H(op["data"])
            c = getattr(k, "coordinate_size", None)
            for i in range(op["max"]):
                msg = base + i.to_bytes(4, "big")
                sig = k.sign(msg, **kw)
                if op["what"] == "rsa0" and sig[0] == 0:
                    return {"msg": msg.hex(), "sig": sig.hex(), "tries": i + 1}
                if op["what"] == "r0" and sig[0] == 0:
                    return {"msg": msg.hex(), "sig": sig.hex(), "tries": i + 1}
                if op["what"] == "s0" and sig[c] == 0:
                    return {"msg": msg.hex(), "sig": sig.hex(), "tries": i + 1}
            return {"msg": None, "tries": op["max"]}
        if o == "sp_get_signature":
            k = table[op["id"]]
            path = os.path.join(work, f"sp_key_{op['id']}.pem")
            k.save(path, password=op.get("pw"), encoding=SPSDKEncoding.PEM)
            kw = kw_of(op.get("sp_kw"))
            sp = PlainFileSP(file_path=path, password=op.get("pw"), **kw)
            sig = sp.get_signature(H(op["data"]), ENC[op.get("encoding")])
            os.remove(path)
            return {"sig": sig.hex(), "signature_length": sp.signature_length,
                    "verify_public_key": bool(sp.verify_public_key(k.get_public_key()))}
        if o == "cert":
            from spsdk.crypto.certificate import Certificate, generate_name
            k = table[op["id"]]
            name = generate_name([{"COMMON_NAME": op.get("cn", "c08")}])
            crt = Certificate.generate_certificate(name, name, k.get_public_key(), k, serial_number=op["serial"],
                                                   pss_padding=op.get("pss"))
            out = {}
            for encn in ("PEM", "DER", "NXP"):
                blob = crt.export(ENC[encn])
                c2 = Certificate.parse(blob)
                out[encn] = {"blob": blob.hex(), "key": summary(c2.get_public_key()),
                             "extract": summary(extract_public_key_from_data(blob)),
                             "validate": bool(c2.validate(crt)), "eq_key": bool(c2.get_public_key() == k.get_public_key())}
            return out
        if o == "cli":
            from click.testing import CliRunner
            from spsdk.apps.nxpcrypto import main as cli_main
            d = os.path.join(work, "cli")
            os.makedirs(d, exist_ok=True)
            for name, hx in op.get("files", {}).items():
                with open(os.path.join(d, name), "wb") as f:
                    f.write(H(hx))
            args = [a.replace("@", d + os.sep) if isinstance(a, str) else a for a in op["args"]]
            res = CliRunner().invoke(cli_main, args)
            outs = {}
            for name in op.get("outputs", []):
                pth = os.path.join(d, name)
                outs[name] = open(pth, "rb").read().hex() if os.path.exists(pth) else None
            for name in os.listdir(d):
                os.remove(os.path.join(d, name))
            exc = res.exception
            return {"exit": res.exit_code, "exc": type(exc).__name__ if exc is not None else None,
                    "spsdk_exc": bool(exc is not None and any(c.__name__ in ("SPSDKError", "SPSDKAppError", "SystemExit", "UsageError")
                                                             for c in type(exc).__mro__)),
                    "out": outs, "stdout": res.output[-300:]}
        raise KeyError(o)

    def enc(v):
        if isinstance(v, (bytes, bytearray)):
            return {"b": bytes(v).hex()}
        return v

    out = []
    for op in payload["ops"]:
        r = guarded(lambda: do(op), seconds=op.get("timeout", 20))
        if r[0] == "ok":
            out.append(["ok", enc(r[1])])
        else:
            out.append(["e", r[1]] + list(r[2:]))
    return {"results": out}


if __name__ == "__main__":
    main(handler)
